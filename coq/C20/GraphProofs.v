(* C20/GraphProofs.v — Lock::to_graph inverts Lock::from_graph on well-formed graphs, for every
   iteration order of the package set. *)
From SwayV Require Import Base.Util C21.Str C21.Model C20.Model C20.Spec C20.StrLemmas C20.SrcProofs
     C20.LineProofs C20.ListLemmas.
From Coq Require Import Permutation.

Lemma name_byte_not_space b : name_byte b = true -> negb (b =? c_space)%N = true.
Proof. unfold name_byte, is_ascii_alnum, c_space. lia. Qed.

Lemma wf_name_lacks_space nm : wf_nameb nm = true -> lacks c_space nm = true.
Proof.
  unfold wf_nameb. intros H. apply andb_prop in H. destruct H as [_ H].
  eapply forallb_impl; [|exact H]. apply name_byte_not_space.
Qed.

Lemma filter_none {A} (p : A -> bool) l : (forall x, p x = false) -> filter p l = [].
Proof. intros H. induction l as [|a l IH]; [reflexivity|]. cbn. rewrite H. exact IH. Qed.

Lemma map_fst_combine_seq {A} (l : list A) : forall s, map fst (combine l (seq s (length l))) = l.
Proof. induction l as [|x r IH]; intros s; [reflexivity|]. cbn. f_equal. apply IH. Qed.

Section G.
  Variables url cid ver : Type.
  Variable show_url : url -> str.
  Variable show_cid : cid -> str.
  Variable show_ver : ver -> str.
  Variable parse_url : str -> option url.
  Variable parse_cid : str -> option cid.
  Variable parse_ver : str -> option ver.
  Notation pinned := (pinned url cid ver).
  Notation gnode := (gnode url cid ver).
  Notation graph := (graph url cid ver).
  Notation showp := (show_pinned url cid ver show_url show_cid show_ver).
  Notation parsep := (parse_pinned url cid ver parse_url parse_cid parse_ver).
  Notation wf_src := (wf_src url cid ver show_url show_cid show_ver parse_url parse_cid parse_ver).
  Notation wf_graph := (wf_graph url cid ver show_url show_cid show_ver parse_url parse_cid parse_ver).
  Notation dnode := (dnode url cid ver).
  Notation resolve := (resolve url cid ver).
  Notation redges := (redges url cid ver).

  Variable g : graph.
  Hypothesis Hwf : wf_graph g.

  Definition nd (i : nat) : gnode := nth i (g_nodes g) dnode.
  Definition dg : list str := graph_dis url cid ver g.
  Definition pk (i : nat) : pkglock := from_node url cid ver show_url show_cid show_ver g dg i.
  Definition n : nat := length (g_nodes g).

  Lemma wf_node i : i < n -> wf_nameb (gn_name (nd i)) = true /\ wf_src (gn_src (nd i)).
  Proof.
    intros Hi. destruct Hwf as [Hn _]. rewrite Forall_forall in Hn. apply Hn. apply nth_In. exact Hi.
  Qed.

  Lemma nd_inj i j : i < n -> j < n -> nd i = nd j -> i = j.
  Proof.
    intros Hi Hj E. destruct Hwf as [_ [Hd _]]. rewrite (NoDup_nth (g_nodes g) dnode) in Hd.
    apply Hd; assumption.
  Qed.

  Lemma nd_eq i j : i < n -> j < n ->
    gn_name (nd i) = gn_name (nd j) -> showp (gn_src (nd i)) = showp (gn_src (nd j)) -> i = j.
  Proof.
    intros Hi Hj En Es. apply nd_inj; [exact Hi|exact Hj|].
    destruct (wf_node i Hi) as [_ Wi]. destruct (wf_node j Hj) as [_ Wj].
    pose proof (show_pinned_inj _ _ _ _ _ _ _ _ _ _ _ Wi Wj Es) as E.
    destruct (nd i), (nd j). cbn in *. subst. reflexivity.
  Qed.

  (* any `dis` list with the same membership as the graph's own *)
  Variable dis : list str.
  Hypothesis Hdis : forall x, mem_str x dis = mem_str x dg.

  Definition key (i : nat) : str := pkg_key dis (gn_name (nd i)) (showp (gn_src (nd i))).

  Lemma names_nth i : nth i (map gn_name (g_nodes g)) [] = gn_name (nd i).
  Proof. unfold nd. change (@nil N) with (gn_name dnode). apply map_nth. Qed.

  Lemma key_inj i j : i < n -> j < n -> key i = key j -> i = j.
  Proof.
    intros Hi Hj E. unfold key, pkg_key in E.
    destruct (wf_node i Hi) as [Ni _]. destruct (wf_node j Hj) as [Nj _].
    pose proof (wf_name_lacks_space _ Ni) as Si. pose proof (wf_name_lacks_space _ Nj) as Sj.
    destruct (mem_str (gn_name (nd i)) dis) eqn:Ei, (mem_str (gn_name (nd j)) dis) eqn:Ej.
    - cbn [app] in E.
      pose proof (split_once_app c_space (showp (gn_src (nd i))) _ Si) as A.
      pose proof (split_once_app c_space (showp (gn_src (nd j))) _ Sj) as B.
      rewrite E in A. rewrite A in B. injection B as En Es. apply nd_eq; assumption.
    - exfalso. rewrite <- E in Sj. cbn [app] in Sj. rewrite lacks_app in Sj.
      apply andb_prop in Sj. destruct Sj as [_ Sj]. cbn in Sj. discriminate.
    - exfalso. rewrite E in Si. cbn [app] in Si. rewrite lacks_app in Si.
      apply andb_prop in Si. destruct Si as [_ Si]. cbn in Si. discriminate.
    - rewrite Hdis in Ei. unfold dg, graph_dis in Ei.
      assert (Hc : count_occ str_dec (map gn_name (g_nodes g)) (gn_name (nd i)) <= 1).
      { destruct (le_lt_dec (count_occ str_dec (map gn_name (g_nodes g)) (gn_name (nd i))) 1) as [H|H]; [exact H|].
        apply dis_spec in H. congruence. }
      apply (count_le1_nth _ _ [] Hc); try (rewrite map_length; assumption).
      + apply names_nth.
      + rewrite names_nth. symmetry. exact E.
  Qed.

  (* ---- first pass ---- *)
  Lemma pass1_run : forall tau nodes0 tbl0, (forall i, In i tau -> i < n) ->
    pass1 url cid ver parsep dis (map pk tau) nodes0 tbl0
    = Ok (nodes0 ++ map nd tau,
          rev (combine (map key tau) (seq (length nodes0) (length tau))) ++ tbl0).
  Proof.
    induction tau as [|i r IH]; intros nodes0 tbl0 Hlt.
    - cbn. rewrite app_nil_r. reflexivity.
    - cbn [map Model.pass1].
      destruct (wf_node i (Hlt i (or_introl eq_refl))) as [_ [Hp _]].
      change (pl_source (pk i)) with (showp (gn_src (nd i))). rewrite Hp. cbn [obind].
      change (pl_name (pk i)) with (gn_name (nd i)).
      replace {| gn_name := gn_name (nd i); gn_src := gn_src (nd i) |} with (nd i) by (destruct (nd i); reflexivity).
      rewrite IH by (intros j Hj; apply Hlt; right; exact Hj).
      f_equal. f_equal.
      + rewrite <- app_assoc. reflexivity.
      + rewrite app_length. cbn [length map seq combine rev]. rewrite Nat.add_1_r.
        rewrite <- app_assoc. reflexivity.
  Qed.

  Variable sigma : list nat.
  Hypothesis Hsigma : Permutation (seq 0 n) sigma.

  Lemma sigma_in i : In i sigma <-> i < n.
  Proof.
    split; intros H.
    - apply (Permutation_in _ (Permutation_sym Hsigma)) in H. apply in_seq in H. lia.
    - apply (Permutation_in _ Hsigma). apply in_seq. lia.
  Qed.
  Lemma sigma_nodup : NoDup sigma.
  Proof. apply (Permutation_NoDup Hsigma). apply seq_NoDup. Qed.

  Definition pos (i : nat) : nat := index_of i sigma.
  Definition nodes' : list gnode := map nd sigma.
  Definition tbl : list (str * nat) := rev (combine (map key sigma) (seq 0 (length sigma))).

  Lemma pos_spec i : i < n -> pos i < length sigma /\ nth (pos i) sigma 0 = i.
  Proof. intros H. apply index_of_spec. apply sigma_in. exact H. Qed.

  Lemma nodes'_nth i : i < n -> nth_error nodes' (pos i) = Some (nd i).
  Proof.
    intros H. destruct (pos_spec i H) as [H1 H2]. unfold nodes'.
    rewrite nth_error_map. rewrite (nth_error_nth' sigma 0 H1). cbn. rewrite H2. reflexivity.
  Qed.

  Lemma tbl_lookup i : i < n -> lookup (key i) tbl = Some (pos i).
  Proof.
    intros H. destruct (pos_spec i H) as [H1 H2]. apply lookup_unique.
    - unfold tbl. rewrite map_rev. apply NoDup_rev.
      assert (E : map fst (combine (map key sigma) (seq 0 (length sigma))) = map key sigma).
      { rewrite <- (map_length key sigma). apply map_fst_combine_seq. }
      rewrite E. apply NoDup_map_inj_in; [|apply sigma_nodup].
      intros x y Hx Hy. apply key_inj; apply sigma_in; assumption.
    - unfold tbl. apply -> in_rev.
      assert (Hk : nth (pos i) (map key sigma) [] = key i).
      { rewrite (nth_indep _ [] (key 0)) by (rewrite map_length; exact H1). rewrite map_nth, H2. reflexivity. }
      assert (Hv : nth (pos i) (seq 0 (length sigma)) 0 = pos i) by (rewrite seq_nth; [reflexivity|exact H1]).
      replace (key i, pos i) with (nth (pos i) (combine (map key sigma) (seq 0 (length sigma))) ([], 0)).
      + apply nth_In. rewrite combine_length, map_length, seq_length. lia.
      + rewrite combine_nth by (rewrite map_length, seq_length; reflexivity). f_equal; [exact Hk|exact Hv].
  Qed.

  (* ---- one dependency line ---- *)
  Definition tr (k : nat) (e : gedge) : gedge :=
    {| ge_from := k; ge_to := pos (ge_to e); ge_name := ge_name e; ge_kind := ge_kind e |}.
  Definition fline (e : gedge) : str * bool :=
    (dep_line url cid ver show_url show_cid show_ver g dg e, negb (is_lib e)).

  Lemma edge_wf e : In e (g_edges g) -> wf_edge n e.
  Proof. intros H. destruct Hwf as [_ [_ [He _]]]. rewrite Forall_forall in He. apply He. exact H. Qed.

  Lemma add_dep_run k es e : In e (g_edges g) -> k < length nodes' ->
    add_dep url cid ver parse_dep_line nodes' tbl k es (fline e) = Ok (update_edge es (tr k e)).
  Proof.
    intros He Hk. destruct (edge_wf e He) as [Hf [Ht [Hr [Hh Hs]]]].
    destruct (wf_node _ Ht) as [Nt St]. fold (nd (ge_to e)) in *.
    unfold Model.add_dep, fline, dep_line. fold (nd (ge_to e)).
    rewrite (rt_dep_line url cid ver show_url show_cid show_ver parse_url parse_cid parse_ver); [|exact Nt|exact St| |exact Hs].
    2:{ destruct (str_eqb (ge_name e) (gn_name (nd (ge_to e)))); [exact I|split; assumption]. }
    cbn [obind].
    replace (pkg_string url cid ver show_url show_cid show_ver (gn_name (nd (ge_to e))) (gn_src (nd (ge_to e)))
                        (mem_str (gn_name (nd (ge_to e))) dg)) with (key (ge_to e)).
    2:{ unfold key, pkg_key, pkg_string. rewrite Hdis. reflexivity. }
    rewrite (tbl_lookup _ Ht), (nodes'_nth _ Ht).
    apply Nat.ltb_lt in Hk. rewrite Hk. f_equal. f_equal. unfold tr. f_equal.
    - destruct (str_eqb (ge_name e) (gn_name (nd (ge_to e)))) eqn:E; [|reflexivity].
      apply str_eqb_eq in E. symmetry. exact E.
    - unfold is_lib, salt_of. destruct (ge_kind e) as [|s]; cbn [negb]; [reflexivity|].
      destruct (s =? 0)%N eqn:E; [|reflexivity]. apply N.eqb_eq in E. subst. reflexivity.
  Qed.

  Lemma add_deps_run k : forall Es es, (forall e, In e Es -> In e (g_edges g)) -> k < length nodes' ->
    add_deps url cid ver parse_dep_line nodes' tbl k es (map fline Es)
    = Ok (fold_left update_edge (map (tr k) Es) es).
  Proof.
    induction Es as [|e r IH]; intros es Hin Hk; [reflexivity|].
    cbn [map Model.add_deps fold_left]. rewrite add_dep_run by (try exact Hk; apply Hin; left; reflexivity).
    cbn [obind]. apply IH; [|exact Hk]. intros x Hx. apply Hin. right; exact Hx.
  Qed.

  (* the lines of package i are those of a permutation of its outgoing edges *)
  Lemma pk_lines i : exists Es,
    Permutation Es (out_edges url cid ver g i) /\
    map (fun l => (l, false)) (pl_deps (pk i)) ++ map (fun l => (l, true)) (pl_cdeps (pk i)) = map fline Es.
  Proof.
    set (f := dep_line url cid ver show_url show_cid show_ver g dg).
    set (E1 := filter is_lib (out_edges url cid ver g i)).
    set (E2 := filter (fun e => negb (is_lib e)) (out_edges url cid ver g i)).
    destruct (Permutation_map_inv f _ (Permutation_sym (sort_str_perm (map f E1)))) as [E1' [H1 P1]].
    destruct (Permutation_map_inv f _ (Permutation_sym (sort_str_perm (map f E2)))) as [E2' [H2 P2]].
    exists (E1' ++ E2'). split.
    - rewrite <- (filter_partition_perm is_lib (out_edges url cid ver g i)). fold E1 E2.
      apply Permutation_app; apply Permutation_sym; assumption.
    - change (pl_deps (pk i)) with (sort_str (map f E1)). change (pl_cdeps (pk i)) with (sort_str (map f E2)).
      rewrite H1, H2, map_app, !map_map. f_equal; apply map_ext_in; intros e He; unfold fline; fold f; f_equal.
      + assert (Hin : In e E1) by (apply (Permutation_in _ (Permutation_sym P1)); exact He).
        unfold E1 in Hin. apply filter_In in Hin. destruct Hin as [_ ->]. reflexivity.
      + assert (Hin : In e E2) by (apply (Permutation_in _ (Permutation_sym P2)); exact He).
        unfold E2 in Hin. apply filter_In in Hin. destruct Hin as [_ ->]. reflexivity.
  Qed.

  (* ---- second pass ---- *)
  Definition new_edges (iE : nat * list gedge) : list gedge := map (tr (pos (fst iE))) (snd iE).

  Lemma pass2_run : forall tau es, (forall i, In i tau -> i < n) ->
    exists EE, Forall2 (fun i Es => Permutation Es (out_edges url cid ver g i)) tau EE /\
      pass2 url cid ver parse_dep_line dis nodes' tbl (map pk tau) es
      = Ok (fold_left update_edge (flat_map new_edges (combine tau EE)) es).
  Proof.
    induction tau as [|i r IH]; intros es Hlt.
    - exists []. split; [constructor|reflexivity].
    - destruct (pk_lines i) as [Es [PEs Hl]].
      assert (Hi : i < n) by (apply Hlt; left; reflexivity).
      destruct (IH (fold_left update_edge (map (tr (pos i)) Es) es)) as [EE [HF Hrun]];
        [intros j Hj; apply Hlt; right; exact Hj|].
      exists (Es :: EE). split; [constructor; assumption|].
      cbn [map Model.pass2].
      change (pkg_key dis (pl_name (pk i)) (pl_source (pk i))) with (key i).
      rewrite (tbl_lookup i Hi). rewrite Hl.
      rewrite add_deps_run.
      + cbn [obind]. rewrite Hrun. cbn [combine flat_map]. rewrite fold_left_app. reflexivity.
      + intros e He. apply (Permutation_in _ PEs) in He. unfold out_edges in He.
        apply filter_In in He. tauto.
      + unfold nodes'. rewrite map_length. apply pos_spec. exact Hi.
  Qed.

  (* ---- the edges read back ---- *)
  Lemma out_edges_cover : Permutation (flat_map (out_edges url cid ver g) (seq 0 n)) (g_edges g).
  Proof.
    assert (H : forall m, Permutation (flat_map (out_edges url cid ver g) (seq 0 m))
                                      (filter (fun e => Nat.ltb (ge_from e) m) (g_edges g))).
    { induction m as [|m IH].
      - cbn. rewrite filter_none; [reflexivity|]. intros; reflexivity.
      - rewrite seq_S, flat_map_app. cbn [flat_map Nat.add]. rewrite app_nil_r, IH. unfold out_edges.
        rewrite filter_or_perm.
        + apply Permutation_refl'. apply filter_ext. intros e.
          destruct (Nat.ltb (ge_from e) m) eqn:A, (Nat.eqb (ge_from e) m) eqn:B, (Nat.ltb (ge_from e) (S m)) eqn:C;
            try reflexivity; exfalso;
            repeat match goal with
                   | H : Nat.ltb _ _ = true |- _ => apply Nat.ltb_lt in H
                   | H : Nat.ltb _ _ = false |- _ => apply Nat.ltb_ge in H
                   | H : Nat.eqb _ _ = true |- _ => apply Nat.eqb_eq in H
                   | H : Nat.eqb _ _ = false |- _ => apply Nat.eqb_neq in H
                   end; lia.
        + intros e A B. apply Nat.ltb_lt in A. apply Nat.eqb_eq in B. lia. }
    rewrite H. apply Permutation_refl'. apply filter_all. intros e He.
    apply Nat.ltb_lt. apply (edge_wf e He).
  Qed.

  Lemma concat_perm : forall tau EE,
    Forall2 (fun i Es => Permutation Es (out_edges url cid ver g i)) tau EE ->
    Permutation (concat EE) (flat_map (out_edges url cid ver g) tau).
  Proof.
    intros tau EE H. induction H as [|i Es tau EE P _ IH]; [reflexivity|].
    cbn. apply Permutation_app; assumption.
  Qed.

  Lemma all_edges_perm EE :
    Forall2 (fun i Es => Permutation Es (out_edges url cid ver g i)) sigma EE ->
    Permutation (concat EE) (g_edges g).
  Proof.
    intros H. rewrite (concat_perm _ _ H). rewrite <- out_edges_cover.
    apply Permutation_flat_map. apply Permutation_sym. exact Hsigma.
  Qed.

  Lemma new_edges_map : forall tau EE,
    Forall2 (fun i Es => Permutation Es (out_edges url cid ver g i)) tau EE ->
    flat_map new_edges (combine tau EE) = map (fun e => tr (pos (ge_from e)) e) (concat EE).
  Proof.
    intros tau EE H. induction H as [|i Es tau EE P _ IH]; [reflexivity|].
    cbn [combine flat_map concat]. rewrite map_app, IH. f_equal.
    unfold new_edges. cbn [fst snd]. apply map_ext_in. intros e He.
    apply (Permutation_in _ P) in He. unfold out_edges in He. apply filter_In in He.
    destruct He as [_ He]. apply Nat.eqb_eq in He. rewrite He. reflexivity.
  Qed.

  Theorem run_generic :
    exists g',
      (nt <- pass1 url cid ver parsep dis (map pk sigma) [] [] ;;
       let '(nodes, tb) := nt in
       es <- pass2 url cid ver parse_dep_line dis nodes tb (map pk sigma) [] ;;
       Ok {| g_nodes := nodes; g_edges := es |}) = Ok g' /\
      graph_equiv url cid ver g' g.
  Proof.
    destruct (pass2_run sigma [] (fun i Hi => proj1 (sigma_in i) Hi)) as [EE [HF Hrun]].
    pose proof (all_edges_perm EE HF) as Pall.
    set (F := flat_map new_edges (combine sigma EE)) in *.
    assert (HFmap : F = map (fun e => tr (pos (ge_from e)) e) (concat EE)) by (apply new_edges_map; exact HF).
    assert (Hin_edge : forall e, In e (concat EE) -> In e (g_edges g))
      by (intros e He; apply (Permutation_in _ Pall); exact He).
    assert (Hnd : NoDup (map ft F)).
    { rewrite HFmap, map_map.
      replace (map (fun e => ft (tr (pos (ge_from e)) e)) (concat EE))
        with (map (fun p => (pos (fst p), pos (snd p))) (map ft (concat EE))) by (rewrite map_map; reflexivity).
      apply NoDup_map_inj_in.
      - intros [a b] [c d] Hx Hy E. cbn [fst snd] in E. injection E as E1 E2.
        apply in_map_iff in Hx. destruct Hx as [e1 [Q1 I1]]. apply in_map_iff in Hy. destruct Hy as [e2 [Q2 I2]].
        destruct (edge_wf _ (Hin_edge _ I1)) as [A1 [A2 _]]. destruct (edge_wf _ (Hin_edge _ I2)) as [B1 [B2 _]].
        unfold ft in Q1, Q2. injection Q1 as <- <-. injection Q2 as <- <-.
        f_equal; apply (index_of_inj _ _ sigma); try (apply sigma_in; assumption); assumption.
      - apply (Permutation_NoDup (Permutation_map ft (Permutation_sym Pall))). apply Hwf. }
    exists {| g_nodes := nodes'; g_edges := F |}. split.
    - rewrite (pass1_run sigma [] [] (fun i Hi => proj1 (sigma_in i) Hi)). cbn [obind app length].
      rewrite app_nil_r. fold nodes' tbl. rewrite Hrun. cbn [obind].
      rewrite update_all_new by exact Hnd. reflexivity.
    - split; cbn [g_nodes].
      + replace (g_nodes g) with (map nd (seq 0 n)) by (apply (map_nth_seq (g_nodes g) dnode)).
        unfold nodes'. apply Permutation_map. apply Permutation_sym. exact Hsigma.
      + unfold Spec.redges. cbn [g_edges]. rewrite HFmap, map_map.
        rewrite <- (Permutation_map (resolve g) Pall).
        apply Permutation_refl'. apply map_ext_in. intros e He.
        destruct (edge_wf _ (Hin_edge _ He)) as [A1 [A2 _]].
        unfold Spec.resolve, tr. cbn [ge_from ge_to ge_name ge_kind g_nodes].
        rewrite (nth_error_nth _ _ _ (nodes'_nth _ A1)), (nth_error_nth _ _ _ (nodes'_nth _ A2)).
        reflexivity.
  Qed.
End G.

(* ---- the statement for Lock::to_graph itself -------------------------------------------- *)
Section Final.
  Variables url cid ver : Type.
  Variable show_url : url -> str.
  Variable show_cid : cid -> str.
  Variable show_ver : ver -> str.
  Variable parse_url : str -> option url.
  Variable parse_cid : str -> option cid.
  Variable parse_ver : str -> option ver.
  Notation graph := (graph url cid ver).
  Notation wf_graph := (wf_graph url cid ver show_url show_cid show_ver parse_url parse_cid parse_ver).
  Notation from_graph_list := (from_graph_list url cid ver show_url show_cid show_ver).
  Notation is_lock_of := (is_lock_of url cid ver show_url show_cid show_ver).

  Lemma pk_inj (g : graph) : wf_graph g -> forall i j, i < n url cid ver g -> j < n url cid ver g ->
    pk url cid ver show_url show_cid show_ver g i = pk url cid ver show_url show_cid show_ver g j -> i = j.
  Proof.
    intros Hwf i j Hi Hj E.
    apply (nd_eq url cid ver show_url show_cid show_ver parse_url parse_cid parse_ver g Hwf); try assumption.
    - change (pl_name (pk url cid ver show_url show_cid show_ver g i) = pl_name (pk url cid ver show_url show_cid show_ver g j)).
      rewrite E. reflexivity.
    - change (pl_source (pk url cid ver show_url show_cid show_ver g i) = pl_source (pk url cid ver show_url show_cid show_ver g j)).
      rewrite E. reflexivity.
  Qed.

  Theorem lock_roundtrip (g : graph) (l : list pkglock) :
    wf_graph g -> is_lock_of g l ->
    exists g', to_graph parse_url parse_cid parse_ver l = Ok g' /\ graph_equiv url cid ver g' g.
  Proof.
    intros Hwf [Hnd Hel].
    set (nn := n url cid ver g).
    assert (Hfgl : from_graph_list g = map (pk url cid ver show_url show_cid show_ver g) (seq 0 nn)) by reflexivity.
    assert (Hnd0 : NoDup (from_graph_list g)).
    { rewrite Hfgl. apply NoDup_map_inj_in; [|apply seq_NoDup].
      intros x y Hx Hy. apply in_seq in Hx. apply in_seq in Hy. apply pk_inj; [exact Hwf|lia|lia]. }
    assert (P : Permutation (from_graph_list g) l).
    { apply NoDup_Permutation; [exact Hnd0|exact Hnd|]. intros p. symmetry. apply Hel. }
    rewrite Hfgl in P. apply Permutation_sym in P.
    destruct (Permutation_map_inv _ _ P) as [sigma [El Ps]]. subst l.
    unfold to_graph, to_graph_with.
    apply (run_generic url cid ver show_url show_cid show_ver parse_url parse_cid parse_ver g Hwf).
    - intros x. unfold dg, graph_dis. apply dis_perm.
      assert (E : map gn_name (g_nodes g)
                  = map (fun i => pl_name (pk url cid ver show_url show_cid show_ver g i)) (seq 0 nn)).
      { change (fun i => pl_name (pk url cid ver show_url show_cid show_ver g i))
          with (fun i => gn_name (nd url cid ver g i)).
        rewrite <- (map_map (nd url cid ver g) gn_name). f_equal. symmetry.
        apply (map_nth_seq (g_nodes g) (dnode url cid ver)). }
      rewrite E, map_map. apply Permutation_map. apply Permutation_sym. exact Ps.
    - exact Ps.
  Qed.
End Final.
