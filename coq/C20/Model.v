(* C20/Model.v — the WRITING side of Forc.lock (the reading side is C21/Model.v):
     Display of source::Pinned and its five kinds, PinnedId ({:016X}), Salt ({:x}, 64 digits),
     lock::pkg_dep_line, PkgLock::from_node, Lock::from_graph.
   No proofs here.  External Display impls (gix_url Url, cid::Cid, semver::Version) are Section
   variables.  `Lock.package` is a BTreeSet<PkgLock>: the model produces the packages in node
   order (`from_graph_list`); the set's iteration order depends on semver's Ord and is left
   open — `is_lock_of` admits every order (theorems quantify over all of them). *)
From SwayV Require Import Base.Util C21.Str C21.Model.
From Coq Require Import Permutation.

(* upper / lower case hex digit of d < 16 *)
Definition hex_upper (d : N) : N := if (d <? 10)%N then (48 + d)%N else (55 + d)%N.
Definition hex_lower (d : N) : N := if (d <? 10)%N then (48 + d)%N else (87 + d)%N.

(* k hex digits of v, most significant first (zero padded; v < 16^k in all uses) *)
Fixpoint show_hex (dig : N -> N) (k : nat) (v : N) : str :=
  match k with
  | 0 => []
  | S k' => dig ((v / 16 ^ N.of_nat k') mod 16)%N :: show_hex dig k' v
  end.

Definition show_pinned_id (v : N) : str := show_hex hex_upper 16 v.   (* write!(f, "{:016X}", self.0) *)
Definition show_salt (v : N) : str := show_hex hex_lower 64 v.        (* 32 bytes as {:02x} each *)

(* git::Reference Display *)
Definition show_reference (r : reference) : str :=
  match r with
  | RBranch s => s_branch_eq ++ s
  | RTag s => s_tag_eq ++ s
  | RRev _ => s_rev
  | RDefault => s_default_branch
  end.

(* reg Namespace Display *)
Definition show_ns (ns : namespace) : str :=
  match ns with NsFlat => [] | NsDomain s => s end.

(* Vec<String>::sort(): bytewise lexicographic order *)
Fixpoint str_leb (a b : str) : bool :=
  match a, b with
  | [], _ => true
  | _ :: _, [] => false
  | x :: a', y :: b' => if (x <? y)%N then true else if (y <? x)%N then false else str_leb a' b'
  end.
Fixpoint insert_str (x : str) (l : list str) : list str :=
  match l with
  | [] => [x]
  | y :: r => if str_leb x y then x :: l else y :: insert_str x r
  end.
Fixpoint sort_str (l : list str) : list str :=
  match l with [] => [] | x :: r => insert_str x (sort_str r) end.

Section Show.
  Variables url cid ver : Type.
  Variable show_url : url -> str.
  Variable show_cid : cid -> str.
  Variable show_ver : ver -> str.
  Notation pinned := (pinned url cid ver).
  Notation gnode := (gnode url cid ver).
  Notation graph := (graph url cid ver).

  (* source::Pinned Display *)
  Definition show_pinned (p : pinned) : str :=
    match p with
    | PMember => s_member
    | PPath r => s_path_plus ++ s_from_root ++ show_pinned_id r
    | PGit u r c => s_git_plus ++ show_url u ++ [c_qm] ++ show_reference r ++ [c_hash] ++ c
    | PIpfs c => s_ipfs_plus ++ show_cid c
    | PReg n v c ns =>
      s_registry_plus ++ n ++ [c_qm] ++ show_ver v ++ [c_hash] ++ show_cid c ++ [c_bang] ++ show_ns ns
    end.

  (* lock::pkg_dep_line *)
  Definition pkg_dep_line (dep_name : option str) (name : str) (src : pinned) (kind : depkind)
             (disambiguate : bool) : str :=
    let pkg_string := if disambiguate then name ++ [c_space] ++ show_pinned src else name in
    let pkg_string := match dep_name with
                      | None => pkg_string
                      | Some dn => [c_lpar] ++ dn ++ [c_rpar; c_space] ++ pkg_string
                      end in
    match kind with
    | Lib => pkg_string
    | Contract salt =>
      if (salt =? 0)%N then pkg_string
      else pkg_string ++ [c_space; c_lpar] ++ show_salt salt ++ [c_rpar]
    end.

  Definition out_edges (g : graph) (i : nat) : list gedge :=
    filter (fun e => Nat.eqb (ge_from e) i) (g_edges g).
  Definition is_lib (e : gedge) : bool := match ge_kind e with Lib => true | Contract _ => false end.

  Definition dnode : gnode := {| gn_name := []; gn_src := PMember |}.

  (* the line PkgLock::from_node writes for one outgoing edge *)
  Definition dep_line (g : graph) (dis : list str) (e : gedge) : str :=
    let t := nth (ge_to e) (g_nodes g) dnode in
    pkg_dep_line (if str_eqb (ge_name e) (gn_name t) then None else Some (ge_name e))
                 (gn_name t) (gn_src t) (ge_kind e) (mem_str (gn_name t) dis).

  (* PkgLock::from_node (the `version` field is not read back by to_graph and is omitted) *)
  Definition from_node (g : graph) (dis : list str) (i : nat) : pkglock :=
    let n := nth i (g_nodes g) dnode in
    {| pl_name := gn_name n;
       pl_source := show_pinned (gn_src n);
       pl_deps := sort_str (map (dep_line g dis) (filter is_lib (out_edges g i)));
       pl_cdeps := sort_str (map (dep_line g dis) (filter (fun e => negb (is_lib e)) (out_edges g i))) |}.

  Definition graph_dis (g : graph) : list str :=
    names_requiring_disambiguation (map gn_name (g_nodes g)).

  (* Lock::from_graph, packages in node order *)
  Definition from_graph_list (g : graph) : list pkglock :=
    map (from_node g (graph_dis g)) (seq 0 (length (g_nodes g))).

  (* the BTreeSet in some iteration order (identical PkgLocks collapse) *)
  Definition is_lock_of (g : graph) (l : list pkglock) : Prop :=
    NoDup l /\ forall p, In p l <-> In p (from_graph_list g).
End Show.
