(* C20/SetModel.v — the `version` field of PkgLock and the BTreeSet<PkgLock> iteration order
   (definitions only).  `Lock.package` is a BTreeSet ordered by the DERIVED `Ord` of PkgLock:
   lexicographic on (name, version, source, dependencies, contract_dependencies), with
   `Option`: None < Some, `Vec<String>` / `String`: lexicographic (bytewise).  from_node emits
   `None` for an empty dependency list and `Some(non-empty)` otherwise, so on its outputs
   Option<Vec<String>> ordering coincides with list ordering ([] first).  semver::Version's
   `Ord` is external: a Section variable (assumed to be a total order consistent with `Eq`,
   C20/Order.ord_ok, where it is used). *)
From SwayV Require Import Base.Util C21.Str C21.Model C20.Model C20.Order C20.ListLemmas.
From Coq Require Import Permutation.

Section SetModel.
  Variables url cid ver : Type.
  Variable show_url : url -> str.
  Variable show_cid : cid -> str.
  Variable show_ver : ver -> str.
  Variable ver_cmp : ver -> ver -> comparison.
  Notation pinned := (pinned url cid ver).
  Notation graph := (graph url cid ver).

  Record pkgfull := { pf_lock : pkglock; pf_version : option ver }.

  (* source::Pinned::semver *)
  Definition semver_of (p : pinned) : option ver :=
    match p with PReg _ v _ _ => Some v | _ => None end.

  (* PkgLock::from_node with its version field *)
  Definition from_node_full (g : graph) (dis : list str) (i : nat) : pkgfull :=
    {| pf_lock := from_node url cid ver show_url show_cid show_ver g dis i;
       pf_version := semver_of (gn_src (nth i (g_nodes g) (dnode url cid ver))) |}.

  Definition from_graph_full (g : graph) : list pkgfull :=
    map (from_node_full g (graph_dis url cid ver g)) (seq 0 (length (g_nodes g))).

  (* #[derive(Ord)] on PkgLock *)
  Definition pf_tuple (p : pkgfull) :=
    (pl_name (pf_lock p), (pf_version p, (pl_source (pf_lock p), (pl_deps (pf_lock p), pl_cdeps (pf_lock p))))).
  Definition tuple_cmp :=
    pair_cmp str_cmp (pair_cmp (opt_cmp ver_cmp) (pair_cmp str_cmp
             (pair_cmp (list_cmp str_cmp) (list_cmp str_cmp)))).
  Definition pf_cmp (a b : pkgfull) : comparison := tuple_cmp (pf_tuple a) (pf_tuple b).

  (* Lock::from_graph: the BTreeSet<PkgLock> in its iteration order *)
  Definition from_graph_set (g : graph) : list pkgfull :=
    to_set pkgfull (leb_of pf_cmp) (from_graph_full g).

  (* g' is g with its nodes renumbered by sigma (new index k holds old node sigma[k]) and its
     edge list in any order *)
  Definition renumber_edge (sigma : list nat) (e : gedge) : gedge :=
    {| ge_from := index_of (ge_from e) sigma; ge_to := index_of (ge_to e) sigma;
       ge_name := ge_name e; ge_kind := ge_kind e |}.
  Definition renumbering (sigma : list nat) (g g' : graph) : Prop :=
    Permutation (seq 0 (length (g_nodes g))) sigma /\
    g_nodes g' = map (fun i => nth i (g_nodes g) (dnode url cid ver)) sigma /\
    Permutation (g_edges g') (map (renumber_edge sigma) (g_edges g)).
End SetModel.
