(* C20 — property theorems only (see design_notes/C20.md for what is and is not covered). *)
From SwayV Require Import Base.Util C21.Str C21.Model C20.Model C20.Spec C20.StrLemmas C20.SrcProofs
     C20.LineProofs C20.ListLemmas C20.GraphProofs C20.Order C20.SetModel C20.SetProofs
     C21.Judge C20.Judge C20.JudgeProofs C20.Refute.
From Coq Require Import Permutation.

(* Display then FromStr of a pinned source is the identity, for each of the five kinds, under the
   syntactic conditions Spec.wf_src_syn (no '?' '(' in the url, no '#' '(' in branch/tag, rev = the
   pinned commit, 40-alphanumeric commit, CIDv0 registry cid, no '!' '#' '(' in the namespace, ...;
   the external Display/FromStr laws `parse (show x) = Some x` are hypotheses inside it). *)
Theorem C20_source_roundtrip :
  forall (url cid ver : Type) (show_url : url -> str) (show_cid : cid -> str) (show_ver : ver -> str)
         (parse_url : str -> option url) (parse_cid : str -> option cid) (parse_ver : str -> option ver)
         (p : pinned url cid ver),
    wf_src_syn url cid ver show_url show_cid show_ver parse_url parse_cid parse_ver p ->
    parse_pinned url cid ver parse_url parse_cid parse_ver
                 (show_pinned url cid ver show_url show_cid show_ver p) = Ok p.
Proof. intros. apply wf_src_of_syn. assumption. Qed.
Print Assumptions C20_source_roundtrip.

(* Same-named packages from different sources get different source strings. *)
Theorem C20_disambiguation_sound :
  forall (url cid ver : Type) show_url show_cid show_ver parse_url parse_cid parse_ver (p q : pinned url cid ver),
    wf_src url cid ver show_url show_cid show_ver parse_url parse_cid parse_ver p ->
    wf_src url cid ver show_url show_cid show_ver parse_url parse_cid parse_ver q ->
    show_pinned url cid ver show_url show_cid show_ver p = show_pinned url cid ver show_url show_cid show_ver q ->
    p = q.
Proof. exact show_pinned_inj. Qed.
Print Assumptions C20_disambiguation_sound.

(* A written dependency line reads back as its dependency name, package key and salt. *)
Theorem C20_dep_line_roundtrip :
  forall (url cid ver : Type) show_url show_cid show_ver parse_url parse_cid parse_ver
         (dn : option str) (name : str) (src : pinned url cid ver) (kind : depkind) (disambiguate : bool),
    wf_nameb name = true ->
    wf_src url cid ver show_url show_cid show_ver parse_url parse_cid parse_ver src ->
    (match dn with Some d => lacks c_rpar d = true /\ hd_ok d = true | None => True end) ->
    (match kind with Contract s => (s < 2 ^ 256)%N | Lib => True end) ->
    parse_dep_line (pkg_dep_line url cid ver show_url show_cid show_ver dn name src kind disambiguate)
    = Ok (dn, pkg_string url cid ver show_url show_cid show_ver name src disambiguate, salt_of kind).
Proof. exact rt_dep_line. Qed.
Print Assumptions C20_dep_line_roundtrip.

(* MAIN: for every well-formed resolved graph and every iteration order of the written package
   set, reading the lock back yields a graph with the same packages and the same dependency
   edges (names, kinds, salts) up to node numbering.  `is_lock_of g l`: l is the duplicate-free
   list of the PkgLocks of g in any order (BTreeSet<PkgLock>); wf_graph: Spec.v. *)
Theorem C20_lock_roundtrip :
  forall (url cid ver : Type) (show_url : url -> str) (show_cid : cid -> str) (show_ver : ver -> str)
         (parse_url : str -> option url) (parse_cid : str -> option cid) (parse_ver : str -> option ver)
         (g : graph url cid ver) (l : list pkglock),
    wf_graph url cid ver show_url show_cid show_ver parse_url parse_cid parse_ver g ->
    is_lock_of url cid ver show_url show_cid show_ver g l ->
    exists g', to_graph parse_url parse_cid parse_ver l = Ok g' /\ graph_equiv url cid ver g' g.
Proof. exact lock_roundtrip. Qed.
Print Assumptions C20_lock_roundtrip.

(* With the `version` field and the BTreeSet order modelled (C20/SetModel.v: #[derive(Ord)] on PkgLock,
   semver's Ord an arbitrary total order consistent with equality): what Lock::from_graph writes
   does not depend on how the graph's nodes are numbered nor on the order of its edge list. *)
Theorem C20_written_set_independent_of_numbering :
  forall (url cid ver : Type) (show_url : url -> str) (show_cid : cid -> str) (show_ver : ver -> str)
         (ver_cmp : ver -> ver -> comparison),
    ord_ok ver_cmp ->
    forall (g g' : graph url cid ver) (sigma : list nat),
      renumbering url cid ver sigma g g' ->
      (forall e, In e (g_edges g) -> ge_from e < length (g_nodes g) /\ ge_to e < length (g_nodes g)) ->
      from_graph_set url cid ver show_url show_cid show_ver ver_cmp g'
      = from_graph_set url cid ver show_url show_cid show_ver ver_cmp g.
Proof. exact set_renumber_invariant. Qed.
Print Assumptions C20_written_set_independent_of_numbering.

(* and the round trip holds for exactly that written set (sorted, deduplicated, with versions) *)
Theorem C20_lock_roundtrip_written_set :
  forall (url cid ver : Type) (show_url : url -> str) (show_cid : cid -> str) (show_ver : ver -> str)
         (parse_url : str -> option url) (parse_cid : str -> option cid) (parse_ver : str -> option ver)
         (ver_cmp : ver -> ver -> comparison),
    ord_ok ver_cmp ->
    forall g : graph url cid ver,
      wf_graph url cid ver show_url show_cid show_ver parse_url parse_cid parse_ver g ->
      exists g', to_graph parse_url parse_cid parse_ver
                          (map (pf_lock ver) (from_graph_set url cid ver show_url show_cid show_ver ver_cmp g)) = Ok g'
                 /\ graph_equiv url cid ver g' g.
Proof. exact roundtrip_sorted. Qed.
Print Assumptions C20_lock_roundtrip_written_set.

(* The deciders evaluated by the judge (C20/Judge.v; external values = their Display strings,
   parsers = the measured verdict table t) are sound for the Props of Spec.v: *)
Theorem C20_graph_equivb_sound :
  forall g g' : graph str str str, graph_equivb g g' = true -> graph_equiv str str str g g'.
Proof. exact graph_equivb_sound. Qed.
Print Assumptions C20_graph_equivb_sound.

Theorem C20_wf_decider_sound :
  forall (t : table) (g : graph str str str),
    reason t g = 0%N ->
    wf_graph str str str C20.Judge.idf C20.Judge.idf C20.Judge.idf (orc t QUrl) (orc t QCid) (orc t QVer) g.
Proof. exact reason_sound. Qed.
Print Assumptions C20_wf_decider_sound.

(* so judge code 0 on a case means: its graph is inside wf_graph and the graph the implementation
   read back has the same packages and edges *)
Theorem C20_judge_code0_means_property :
  forall (t : table) (g1 : graph str str str) (lock : list pkglock) (i : impl_res (graph str str str)) (r : N),
    judge20 t g1 lock i = (0%N, r) ->
    wf_graph str str str C20.Judge.idf C20.Judge.idf C20.Judge.idf (orc t QUrl) (orc t QCid) (orc t QVer) g1 /\
    exists g2, i = IOk g2 /\ graph_equiv str str str g2 g1.
Proof. exact judge20_code0. Qed.
Print Assumptions C20_judge_code0_means_property.

(* Non-vacuity of wf_graph: member `app`, two packages named `std` (git branch, path) and a registry
   package; a library edge to each `std` (disambiguated lines), a renamed contract dependency with a
   non-zero salt. *)
Definition ex_graph : graph str str str :=
  {| g_nodes := [ {| gn_name := [97;112;112]%N; gn_src := PMember |};
                  {| gn_name := [115;116;100]%N; gn_src := PGit url_a (RBranch [109]%N) commit_a |};
                  {| gn_name := [115;116;100]%N; gn_src := PPath 171 |};
                  {| gn_name := [116;107]%N; gn_src := PReg [116;107]%N [49]%N cid_v0 (NsDomain [102]%N) |} ];
     g_edges := [ {| ge_from := 0; ge_to := 1; ge_name := [115;116;100]%N; ge_kind := Lib |};
                  {| ge_from := 3; ge_to := 2; ge_name := [115;116;100]%N; ge_kind := Lib |};
                  {| ge_from := 0; ge_to := 3; ge_name := [100;101;112]%N; ge_kind := Contract 7 |} ] |}.
Example C20_example_wf_graph : wf_graph str str str idf idf idf acc acc acc ex_graph.
Proof.
  split; [|split; [|split]].
  - repeat constructor; vm_compute; reflexivity.
  - repeat constructor; cbn; intuition discriminate.
  - repeat constructor; cbn; try lia; try reflexivity.
  - repeat constructor; cbn; intuition discriminate.
Qed.
Example C20_example_roundtrip_computed :
  exists g', to_graph acc acc acc (rev (from_graph_list str str str idf idf idf ex_graph)) = Ok g'
             /\ length (g_nodes g') = 4 /\ length (g_edges g') = 3.
Proof. eexists. vm_compute. repeat split; reflexivity. Qed.

(* the written set of ex_graph is ordered by name, then version (None first), then source:
   app, std (git+...), std (path+...), tk with version Some "1" *)
Example C20_example_written_set_order :
  map (fun p => (pl_name (pf_lock str p), pf_version str p))
      (from_graph_set str str str idf idf idf str_cmp ex_graph)
  = [([97;112;112]%N, None); ([115;116;100]%N, None); ([115;116;100]%N, None); ([116;107]%N, Some [49]%N)]
  /\ map (fun p => hd 0%N (skipn 0 (pl_source (pf_lock str p)))) (from_graph_set str str str idf idf idf str_cmp ex_graph)
     = [109; 103; 112; 114]%N.
Proof. vm_compute. split; reflexivity. Qed.

(* Non-vacuity: a git source on a branch, a registry source with a namespace, a renamed
   contract dependency with a non-zero salt on a disambiguated package. *)
Example C20_example_git :
  parse_pinned str str str acc acc acc
    (show_pinned str str str idf idf idf (PGit url_a (RBranch [109]%N) commit_a))
  = Ok (PGit url_a (RBranch [109]%N) commit_a).
Proof. vm_compute. reflexivity. Qed.
Example C20_example_reg :
  parse_pinned str str str acc acc acc
    (show_pinned str str str idf idf idf (PReg [115]%N [49]%N cid_v0 (NsDomain [102]%N)))
  = Ok (PReg [115]%N [49]%N cid_v0 (NsDomain [102]%N)).
Proof. vm_compute. reflexivity. Qed.
Example C20_example_line :
  parse_dep_line (pkg_dep_line str str str idf idf idf (Some [100]%N) [115]%N (PPath 171) (Contract 7) true)
  = Ok (Some [100]%N, ([115;32] ++ show_pinned str str str idf idf idf (PPath 171))%N, Some 7%N).
Proof. vm_compute. reflexivity. Qed.
