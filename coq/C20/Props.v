(* C20 — property theorems only (see design_notes/C20.md for what is and is not covered). *)
From SwayV Require Import Base.Util C21.Str C21.Model C20.Model C20.Spec C20.StrLemmas C20.SrcProofs
     C20.LineProofs C20.Refute.

(* Display then FromStr of a pinned source is the identity, for each of the five kinds, under the
   syntactic conditions Spec.wf_src_syn (no '?' '(' in the url, no '#' '(' in branch/tag, rev = the
   pinned commit, 40-alphanumeric commit, CIDv0 registry cid, no '!' '#' '(' in the namespace, ...;
   the external Display/FromStr laws `parse (show x) = Some x` are hypotheses inside it). *)
Theorem C20_source_roundtrip :
  forall (url cid ver : Type) (show_url : url -> str) (show_cid : cid -> str) (show_ver : ver -> str)
         (parse_url : str -> option url) (parse_cid : str -> option cid) (parse_ver : str -> option ver)
         (p : pinned url cid ver),
    wf_src_syn url cid ver show_url show_cid show_ver parse_url parse_cid parse_ver p ->
    parse_pinned url cid ver parse_url parse_cid parse_ver
                 (show_pinned url cid ver show_url show_cid show_ver p) = Ok p.
Proof. intros. apply wf_src_of_syn. assumption. Qed.
Print Assumptions C20_source_roundtrip.

(* Same-named packages from different sources get different source strings. *)
Theorem C20_disambiguation_sound :
  forall (url cid ver : Type) show_url show_cid show_ver parse_url parse_cid parse_ver (p q : pinned url cid ver),
    wf_src url cid ver show_url show_cid show_ver parse_url parse_cid parse_ver p ->
    wf_src url cid ver show_url show_cid show_ver parse_url parse_cid parse_ver q ->
    show_pinned url cid ver show_url show_cid show_ver p = show_pinned url cid ver show_url show_cid show_ver q ->
    p = q.
Proof. exact show_pinned_inj. Qed.
Print Assumptions C20_disambiguation_sound.

(* A written dependency line reads back as its dependency name, package key and salt. *)
Theorem C20_dep_line_roundtrip :
  forall (url cid ver : Type) show_url show_cid show_ver parse_url parse_cid parse_ver
         (dn : option str) (name : str) (src : pinned url cid ver) (kind : depkind) (disambiguate : bool),
    wf_nameb name = true ->
    wf_src url cid ver show_url show_cid show_ver parse_url parse_cid parse_ver src ->
    (match dn with Some d => lacks c_rpar d = true /\ hd_ok d = true | None => True end) ->
    (match kind with Contract s => (s < 2 ^ 256)%N | Lib => True end) ->
    parse_dep_line (pkg_dep_line url cid ver show_url show_cid show_ver dn name src kind disambiguate)
    = Ok (dn, pkg_string url cid ver show_url show_cid show_ver name src disambiguate, salt_of kind).
Proof. exact rt_dep_line. Qed.
Print Assumptions C20_dep_line_roundtrip.

(* Non-vacuity: a git source on a branch, a registry source with a namespace, a renamed
   contract dependency with a non-zero salt on a disambiguated package. *)
Example C20_example_git :
  parse_pinned str str str acc acc acc
    (show_pinned str str str idf idf idf (PGit url_a (RBranch [109]%N) commit_a))
  = Ok (PGit url_a (RBranch [109]%N) commit_a).
Proof. vm_compute. reflexivity. Qed.
Example C20_example_reg :
  parse_pinned str str str acc acc acc
    (show_pinned str str str idf idf idf (PReg [115]%N [49]%N cid_v0 (NsDomain [102]%N)))
  = Ok (PReg [115]%N [49]%N cid_v0 (NsDomain [102]%N)).
Proof. vm_compute. reflexivity. Qed.
Example C20_example_line :
  parse_dep_line (pkg_dep_line str str str idf idf idf (Some [100]%N) [115]%N (PPath 171) (Contract 7) true)
  = Ok (Some [100]%N, ([115;32] ++ show_pinned str str str idf idf idf (PPath 171))%N, Some 7%N).
Proof. vm_compute. reflexivity. Qed.
