(* C20/StrLemmas.v — facts about the Rust string operations of C21/Str.v on concatenations. *)
From SwayV Require Import Base.Util C21.Str C21.Model C20.Model C20.Spec.
Require Import ZifyBool ZifyN.

Arguments N.add : simpl never. Arguments N.sub : simpl never. Arguments N.mul : simpl never.
Arguments N.div : simpl never. Arguments N.modulo : simpl never. Arguments N.pow : simpl never.
Arguments N.eqb : simpl never. Arguments N.ltb : simpl never. Arguments N.leb : simpl never.

Lemma str_eqb_eq a : forall b, str_eqb a b = true <-> a = b.
Proof.
  induction a as [|x a IH]; intros [|y b]; cbn [str_eqb]; split; intros H; try reflexivity; try discriminate.
  - apply andb_prop in H. destruct H as [H1 H2]. apply N.eqb_eq in H1. apply IH in H2. subst. reflexivity.
  - injection H as -> ->. rewrite N.eqb_refl. apply IH. reflexivity.
Qed.

Lemma str_eqb_refl a : str_eqb a a = true.
Proof. apply str_eqb_eq. reflexivity. Qed.

Lemma str_eqb_neq a b : a <> b -> str_eqb a b = false.
Proof. intros H. destruct (str_eqb a b) eqn:E; [apply str_eqb_eq in E; contradiction|reflexivity]. Qed.

Lemma starts_with_app p s : starts_with p (p ++ s) = true.
Proof. induction p as [|a p IH]; [reflexivity|]. cbn. rewrite N.eqb_refl. exact IH. Qed.

Lemma find_starts p s : starts_with p s = true -> find p s = Some 0.
Proof. intros H. destruct s; cbn [find]; rewrite H; reflexivity. Qed.

Lemma find_not0 p s : starts_with p s = false -> find p s <> Some 0.
Proof.
  intros H. destruct s as [|b s]; cbn [find]; rewrite H; [discriminate|].
  destruct (find p s); discriminate.
Qed.

Lemma find_none_hd c p : forall s, lacks c s = true -> find (c :: p) s = None.
Proof.
  induction s as [|b s IH]; intros H; [reflexivity|].
  cbn [lacks forallb] in H. apply andb_prop in H. destruct H as [Hb Hs].
  cbn [find starts_with]. replace (N.eqb c b) with false by lia. cbn [andb].
  rewrite (IH Hs). reflexivity.
Qed.

Lemma lacks_app c a b : lacks c (a ++ b) = lacks c a && lacks c b.
Proof. unfold lacks. apply forallb_app. Qed.

Lemma split_c_lacks c : forall a, lacks c a = true -> split_c c a = (a, []).
Proof.
  induction a as [|x a IH]; intros H; [reflexivity|].
  cbn [lacks forallb] in H. apply andb_prop in H. destruct H as [Hx Ha].
  cbn [split_c]. rewrite (IH Ha). replace (N.eqb x c) with false by lia. reflexivity.
Qed.

Lemma split_c_app c b : forall a, lacks c a = true ->
  split_c c (a ++ c :: b) = (a, fst (split_c c b) :: snd (split_c c b)).
Proof.
  induction a as [|x a IH]; intros H.
  - cbn [app split_c]. destruct (split_c c b) as [h t]. rewrite N.eqb_refl. reflexivity.
  - cbn [lacks forallb] in H. apply andb_prop in H. destruct H as [Hx Ha].
    cbn [app split_c]. rewrite (IH Ha). replace (N.eqb x c) with false by lia. reflexivity.
Qed.

Lemma split_once_app c b : forall a, lacks c a = true -> split_once c (a ++ c :: b) = Some (a, b).
Proof.
  induction a as [|x a IH]; intros H.
  - cbn. rewrite N.eqb_refl. reflexivity.
  - cbn [lacks forallb] in H. apply andb_prop in H. destruct H as [Hx Ha].
    cbn [app split_once]. rewrite (IH Ha). replace (N.eqb x c) with false by lia. reflexivity.
Qed.

Lemma skipn_app_len {A} (p s : list A) : skipn (length p) (p ++ s) = s.
Proof. induction p as [|a p IH]; [reflexivity|exact IH]. Qed.

Lemma firstn_app_len {A} (p s : list A) : firstn (length p) (p ++ s) = p.
Proof. induction p as [|a p IH]; [reflexivity|]. cbn. rewrite IH. reflexivity. Qed.

Lemma is_boundary_cons' b s i : i <> 0 -> is_boundary (b :: s) (S i) = is_boundary s i.
Proof.
  intros Hi. unfold is_boundary. cbn [Nat.eqb length nth].
  destruct (Nat.eqb i 0) eqn:E; [apply Nat.eqb_eq in E; contradiction|].
  cbn [Nat.leb]. reflexivity.
Qed.

Lemma is_boundary_app : forall p s, p <> [] -> is_boundary (p ++ s) (length p) = hd_ok s.
Proof.
  induction p as [|a p IH]; intros s Hne; [contradiction|].
  destruct p as [|a' p'].
  - cbn [app length]. unfold is_boundary. cbn [Nat.eqb length].
    destruct s as [|c s']; reflexivity.
  - cbn [app length]. rewrite is_boundary_cons' by discriminate.
    apply (IH s). discriminate.
Qed.

Lemma slice_from_app site p s : p <> [] -> hd_ok s = true -> slice_from site (p ++ s) (length p) = Ok s.
Proof. intros Hp Hs. unfold slice_from. rewrite is_boundary_app, Hs, skipn_app_len by exact Hp. reflexivity. Qed.

Lemma get_from_app p s : p <> [] -> hd_ok s = true -> get_from (p ++ s) (length p) = Some s.
Proof. intros Hp Hs. unfold get_from. rewrite is_boundary_app, Hs, skipn_app_len by exact Hp. reflexivity. Qed.

Lemma strip_checked_app site p s : p <> [] -> hd_ok s = true -> strip_checked site p (p ++ s) = Ok s.
Proof.
  intros Hp Hs. unfold strip_checked. rewrite (find_starts _ _ (starts_with_app p s)).
  apply slice_from_app; assumption.
Qed.

Lemma strip_checked_mismatch site p s : starts_with p s = false -> strip_checked site p s = Err 1.
Proof.
  intros H. unfold strip_checked. pose proof (find_not0 p s H) as Hn.
  destruct (find p s) as [[|n]|]; [contradiction| |]; reflexivity.
Qed.

(* ---- trim ------------------------------------------------------------------------------- *)

Lemma ws_len_graphic b s : graphic b = true -> ws_len (b :: s) = 0.
Proof.
  intros H. unfold graphic in H. unfold ws_len, is_ws1.
  replace ((9 <=? b) && (b <=? 13) || (b =? 32))%N with false by lia.
  destruct s as [|c r]; [reflexivity|].
  replace (b =? 194)%N with false by lia.
  destruct r as [|d r']; [reflexivity|].
  replace (b =? 225)%N with false by lia. replace (b =? 226)%N with false by lia.
  replace (b =? 227)%N with false by lia. reflexivity.
Qed.

Definition hi (b : N) : Prop := (128 <= b)%N.

(* when a whitespace char is recognised, the bytes after its first are all >= 128 *)
Lemma ws_len_spec a r j : ws_len (a :: r) = S j ->
  (j = 0 /\ is_ws1 a = true) \/ (j <= length r /\ Forall hi (firstn j r) /\ j <> 0).
Proof.
  unfold ws_len. destruct (is_ws1 a) eqn:Ea.
  - intros H. injection H as <-. left. auto.
  - destruct r as [|c r2]; [discriminate|].
    destruct (a =? 194)%N.
    + destruct ((c =? 133) || (c =? 160))%N eqn:Ec; [|discriminate].
      intros H. injection H as <-. right. cbn. repeat split; try lia.
      constructor; [unfold hi; lia|constructor].
    + destruct r2 as [|d r3]; [discriminate|].
      destruct (a =? 225)%N.
      { destruct ((c =? 154) && (d =? 128))%N eqn:Ec; [|discriminate].
        intros H. injection H as <-. right. cbn. repeat split; try lia.
        repeat constructor; unfold hi; lia. }
      destruct (a =? 226)%N.
      { destruct ((c =? 128) && ((128 <=? d) && (d <=? 138) || (d =? 168) || (d =? 169) || (d =? 175)))%N eqn:Ec.
        - intros H. injection H as <-. right. cbn. repeat split; try lia.
          repeat constructor; unfold hi; lia.
        - destruct ((c =? 129) && (d =? 159))%N eqn:Ec2; [|discriminate].
          intros H. injection H as <-. right. cbn. repeat split; try lia.
          repeat constructor; unfold hi; lia. }
      destruct (a =? 227)%N; [|discriminate].
      destruct ((c =? 128) && (d =? 128))%N eqn:Ec; [|discriminate].
      intros H. injection H as <-. right. cbn. repeat split; try lia.
      repeat constructor; unfold hi; lia.
Qed.

(* trimming from the left never passes a graphic byte *)
Lemma trim_start_stops b c : graphic b = true -> forall a k,
  Forall hi (firstn k (a ++ b :: c)) -> k <= length a ->
  exists a', trim_start_k k (a ++ b :: c) = a' ++ b :: c.
Proof.
  intros Hb. induction a as [|x a IH]; intros k Hf Hk.
  - assert (k = 0) by (cbn in Hk; lia). subst k. cbn [app trim_start_k].
    rewrite ws_len_graphic by exact Hb. exists []. reflexivity.
  - destruct k as [|k].
    + cbn [app trim_start_k]. destruct (ws_len (x :: a ++ b :: c)) as [|j] eqn:E.
      * exists (x :: a). reflexivity.
      * apply ws_len_spec in E. destruct E as [[-> _]|[Hj [Hfj Hj0]]].
        -- apply IH; [constructor|lia].
        -- apply IH; [exact Hfj|].
           (* j <= length a: the byte b is graphic hence not hi *)
           destruct (Nat.le_gt_cases j (length a)) as [Hle|Hgt]; [exact Hle|exfalso].
           assert (Hin : In b (firstn j (a ++ b :: c))).
           { rewrite firstn_app. apply in_or_app. right.
             destruct (j - length a) as [|m] eqn:Em; [lia|]. left. reflexivity. }
           rewrite Forall_forall in Hfj. apply Hfj in Hin. unfold hi in Hin. unfold graphic in Hb. lia.
    + cbn [app trim_start_k]. cbn [app firstn] in Hf. inversion Hf as [|? ? _ Hf']; subst.
      apply IH; [exact Hf'|cbn in Hk; lia].
Qed.

Lemma trim_start_graphic b s : graphic b = true -> trim_start (b :: s) = b :: s.
Proof. intros H. unfold trim_start. cbn [trim_start_k]. rewrite ws_len_graphic by exact H. reflexivity. Qed.

Lemma trim_start_space s : trim_start (c_space :: s) = trim_start s.
Proof. reflexivity. Qed.

Lemma last_graphic_split P : last_graphic P = true -> exists a b, P = a ++ [b] /\ graphic b = true.
Proof.
  unfold last_graphic. intros H. destruct (rev P) as [|b r] eqn:E; [discriminate|].
  exists (rev r), b. split; [|exact H].
  rewrite <- (rev_involutive P), E. reflexivity.
Qed.

Lemma last_graphic_cons x P : P <> [] -> last_graphic (x :: P) = last_graphic P.
Proof.
  intros Hne. unfold last_graphic. cbn [rev].
  destruct (rev P) as [|b r] eqn:E.
  - exfalso. apply Hne. rewrite <- (rev_involutive P), E. reflexivity.
  - reflexivity.
Qed.

(* a suffix that ends in a graphic byte never trims to nothing, whatever follows *)
Lemma trim_start_nonnil P w : P <> [] -> last_graphic P = true -> is_nil (trim_start (P ++ w)) = false.
Proof.
  intros _ H. destruct (last_graphic_split P H) as [a [b [-> Hb]]].
  rewrite <- app_assoc. cbn [app].
  destruct (trim_start_stops b w Hb a 0) as [a' E]; [constructor|lia|].
  unfold trim_start. rewrite E. destruct a'; reflexivity.
Qed.

Lemma trim_end_pad : forall P w, last_graphic P = true -> (w = [] \/ w = [c_space]) -> trim_end (P ++ w) = P.
Proof.
  induction P as [|x P IH]; intros w H Hw; [discriminate|].
  cbn [app trim_end].
  change (x :: P ++ w) with ((x :: P) ++ w).
  rewrite trim_start_nonnil by (try discriminate; exact H).
  f_equal. destruct P as [|y P'].
  - destruct Hw as [->| ->]; reflexivity.
  - apply IH; [|exact Hw]. rewrite <- H. symmetry. apply last_graphic_cons. discriminate.
Qed.

(* trim of a text that starts and ends with graphic bytes, padded by at most one space on each side *)
Lemma trim_pad a P w :
  hd_graphic P = true -> last_graphic P = true ->
  (a = [] \/ a = [c_space]) -> (w = [] \/ w = [c_space]) -> trim (a ++ P ++ w) = P.
Proof.
  intros Hh Hl Ha Hw. unfold trim.
  assert (E : trim_start (a ++ P ++ w) = P ++ w).
  { destruct P as [|b P']; [discriminate|]. cbn [hd_graphic] in Hh.
    destruct Ha as [->| ->]; cbn [app]; [|rewrite trim_start_space];
      apply (trim_start_graphic b (P' ++ w) Hh). }
  rewrite E. apply trim_end_pad; assumption.
Qed.

Lemma trim_id P : hd_graphic P = true -> last_graphic P = true -> trim P = P.
Proof.
  intros Hh Hl. pose proof (trim_pad [] P [] Hh Hl (or_introl eq_refl) (or_introl eq_refl)) as H.
  cbn [app] in H. rewrite app_nil_r in H. exact H.
Qed.

Lemma last_graphic_app a b : b <> [] -> last_graphic (a ++ b) = last_graphic b.
Proof.
  intros Hb. unfold last_graphic. rewrite rev_app_distr.
  destruct (rev b) as [|x r] eqn:E; [|reflexivity].
  exfalso. apply Hb. rewrite <- (rev_involutive b), E. reflexivity.
Qed.

(* ---- hex ---------------------------------------------------------------------------------- *)

Lemma hex_val_upper d : (d < 16)%N -> hex_val (hex_upper d) = Some d.
Proof.
  intros H. unfold hex_upper, hex_val. destruct (d <? 10)%N eqn:E.
  - replace ((48 <=? 48 + d) && (48 + d <=? 57))%N with true by lia. f_equal. lia.
  - replace ((48 <=? 55 + d) && (55 + d <=? 57))%N with false by lia.
    replace ((65 <=? 55 + d) && (55 + d <=? 70))%N with true by lia. f_equal. lia.
Qed.

Lemma hex_val_lower d : (d < 16)%N -> hex_val (hex_lower d) = Some d.
Proof.
  intros H. unfold hex_lower, hex_val. destruct (d <? 10)%N eqn:E.
  - replace ((48 <=? 48 + d) && (48 + d <=? 57))%N with true by lia. f_equal. lia.
  - replace ((48 <=? 87 + d) && (87 + d <=? 57))%N with false by lia.
    replace ((65 <=? 87 + d) && (87 + d <=? 70))%N with false by lia.
    replace ((97 <=? 87 + d) && (87 + d <=? 102))%N with true by lia. f_equal. lia.
Qed.

Lemma show_hex_length dig k v : length (show_hex dig k v) = k.
Proof. induction k as [|k IH]; [reflexivity|]. cbn. rewrite IH. reflexivity. Qed.

Lemma pow16_pos k : (0 < 16 ^ N.of_nat k)%N.
Proof. apply N.neq_0_lt_0. apply N.pow_nonzero. discriminate. Qed.

Lemma mod16_lt v : (v mod 16 < 16)%N.
Proof. apply N.mod_lt. discriminate. Qed.

Lemma mod_pow_succ v k :
  (v mod 16 ^ N.of_nat (S k) = ((v / 16 ^ N.of_nat k) mod 16) * 16 ^ N.of_nat k + v mod 16 ^ N.of_nat k)%N.
Proof.
  rewrite Nat2N.inj_succ, N.pow_succ_r by lia.
  rewrite (N.mul_comm 16). rewrite N.mod_mul_r by (try discriminate; apply N.pow_nonzero; discriminate).
  lia.
Qed.

Lemma hex_digits_show dig (Hd : forall d, (d < 16)%N -> hex_val (dig d) = Some d) :
  forall k v acc, hex_digits (show_hex dig k v) acc = Some (acc * 16 ^ N.of_nat k + v mod 16 ^ N.of_nat k)%N.
Proof.
  induction k as [|k IH]; intros v acc.
  - cbn [show_hex hex_digits]. cbn [N.of_nat]. rewrite N.pow_0_r, N.mod_1_r. f_equal. lia.
  - cbn [show_hex hex_digits]. rewrite Hd by apply mod16_lt. rewrite IH. f_equal.
    rewrite mod_pow_succ. rewrite Nat2N.inj_succ, N.pow_succ_r by lia. lia.
Qed.

Lemma hex_digits_u64_show dig (Hd : forall d, (d < 16)%N -> hex_val (dig d) = Some d) :
  forall k v acc, (acc * 16 ^ N.of_nat k + v mod 16 ^ N.of_nat k < 18446744073709551616)%N ->
    hex_digits_u64 (show_hex dig k v) acc = Some (acc * 16 ^ N.of_nat k + v mod 16 ^ N.of_nat k)%N.
Proof.
  induction k as [|k IH]; intros v acc Hlt.
  - cbn [show_hex hex_digits_u64]. cbn [N.of_nat]. rewrite N.pow_0_r, N.mod_1_r. f_equal. lia.
  - cbn [show_hex hex_digits_u64]. rewrite Hd by apply mod16_lt.
    set (d := ((v / 16 ^ N.of_nat k) mod 16)%N) in *.
    assert (Heq : ((acc * 16 + d) * 16 ^ N.of_nat k + v mod 16 ^ N.of_nat k
                   = acc * 16 ^ N.of_nat (S k) + v mod 16 ^ N.of_nat (S k))%N).
    { rewrite mod_pow_succ. fold d. rewrite Nat2N.inj_succ, N.pow_succ_r by lia. lia. }
    assert (Hs : (acc * 16 + d < 18446744073709551616)%N).
    { pose proof (pow16_pos k) as Hp.
      assert (H1 : ((acc * 16 + d) * 1 <= (acc * 16 + d) * 16 ^ N.of_nat k)%N)
        by (apply N.mul_le_mono_l; lia).
      clearbody d.
      generalize dependent (v mod 16 ^ N.of_nat (S k))%N. generalize dependent (v mod 16 ^ N.of_nat k)%N.
      generalize dependent (acc * 16 ^ N.of_nat (S k))%N.
      generalize dependent ((acc * 16 + d) * 16 ^ N.of_nat k)%N. intros.
      match goal with
      | Heq' : (?a + ?b = ?c)%N, Hlt' : (?c < _)%N, H1' : (_ * 1 <= ?a)%N |- _ =>
        rewrite N.mul_1_r in H1';
        apply N.le_lt_trans with (a + b)%N; [|rewrite Heq'; exact Hlt'];
        apply N.le_trans with a; [exact H1'|apply N.le_add_r]
      end. }
    apply N.ltb_lt in Hs. rewrite Hs. rewrite IH; [f_equal; exact Heq|]. rewrite Heq. exact Hlt.
Qed.

Definition upper_hex_byte (b : N) : bool := ((48 <=? b) && (b <=? 57) || (65 <=? b) && (b <=? 70))%N.
Definition lower_hex_byte (b : N) : bool := ((48 <=? b) && (b <=? 57) || (97 <=? b) && (b <=? 102))%N.

Lemma show_hex_upper_bytes k v : forallb upper_hex_byte (show_hex hex_upper k v) = true.
Proof.
  induction k as [|k IH]; [reflexivity|]. cbn [show_hex forallb]. rewrite IH, andb_true_r.
  pose proof (mod16_lt (v / 16 ^ N.of_nat k)) as H. unfold upper_hex_byte, hex_upper.
  generalize dependent ((v / 16 ^ N.of_nat k) mod 16)%N. intros d H.
  destruct (d <? 10)%N eqn:E; lia.
Qed.

Lemma show_hex_lower_bytes k v : forallb lower_hex_byte (show_hex hex_lower k v) = true.
Proof.
  induction k as [|k IH]; [reflexivity|]. cbn [show_hex forallb]. rewrite IH, andb_true_r.
  pose proof (mod16_lt (v / 16 ^ N.of_nat k)) as H. unfold lower_hex_byte, hex_lower.
  generalize dependent ((v / 16 ^ N.of_nat k) mod 16)%N. intros d H.
  destruct (d <? 10)%N eqn:E; lia.
Qed.

Lemma forallb_impl {A} (f g : A -> bool) l :
  (forall x, f x = true -> g x = true) -> forallb f l = true -> forallb g l = true.
Proof.
  intros H. induction l as [|x l IH]; [reflexivity|]. cbn. intros E. apply andb_prop in E.
  destruct E as [E1 E2]. rewrite (H _ E1), (IH E2). reflexivity.
Qed.
