(* C20/JudgeProofs.v — the boolean deciders of C20/Judge.v are sound for the Props of
   C20/Spec.v, so a judge code 0 on a case means: the case's graph is inside wf_graph and the
   graph the implementation read back is graph_equiv to it. *)
From SwayV Require Import Base.Util C21.Str C21.Model C21.Spec C21.Judge C20.Model C20.Spec
     C20.StrLemmas C20.Judge.
From Coq Require Import Permutation.

(* ---- equality deciders ---- *)
Lemma ref_eqb_eq a b : ref_eqb a b = true <-> a = b.
Proof.
  destruct a, b; cbn; try rewrite str_eqb_eq; split; intros H; try discriminate; try congruence; auto.
Qed.
Lemma ns_eqb_eq a b : ns_eqb a b = true <-> a = b.
Proof.
  destruct a, b; cbn; try rewrite str_eqb_eq; split; intros H; try discriminate; try congruence; auto.
Qed.
Lemma kind_eqb_eq a b : kind_eqb a b = true <-> a = b.
Proof.
  destruct a, b; cbn; try rewrite N.eqb_eq; split; intros H; try discriminate; try congruence; auto.
Qed.
Lemma pinned_eqb_eq (a b : pinned str str str) : pinned_eqb a b = true <-> a = b.
Proof.
  destruct a, b; cbn; split; intros H; try discriminate; try reflexivity.
  - apply N.eqb_eq in H. congruence.
  - injection H as ->. apply N.eqb_refl.
  - apply andb_prop in H. destruct H as [H H3]. apply andb_prop in H. destruct H as [H1 H2].
    apply str_eqb_eq in H1. apply ref_eqb_eq in H2. apply str_eqb_eq in H3. congruence.
  - injection H as -> -> ->. rewrite !str_eqb_refl. rewrite (proj2 (ref_eqb_eq _ _) eq_refl). reflexivity.
  - apply str_eqb_eq in H. congruence.
  - injection H as ->. apply str_eqb_refl.
  - apply andb_prop in H. destruct H as [H H4]. apply andb_prop in H. destruct H as [H H3].
    apply andb_prop in H. destruct H as [H1 H2].
    apply str_eqb_eq in H1. apply str_eqb_eq in H2. apply str_eqb_eq in H3. apply ns_eqb_eq in H4. congruence.
  - injection H as -> -> -> ->. rewrite !str_eqb_refl. rewrite (proj2 (ns_eqb_eq _ _) eq_refl). reflexivity.
Qed.
Lemma node_eqb_eq (a b : gnode str str str) : node_eqb a b = true <-> a = b.
Proof.
  unfold node_eqb. destruct a as [n1 s1], b as [n2 s2]. cbn [gn_name gn_src]. split; intros H.
  - apply andb_prop in H. destruct H as [H1 H2]. apply str_eqb_eq in H1. apply pinned_eqb_eq in H2. congruence.
  - injection H as -> ->. rewrite str_eqb_refl. apply pinned_eqb_eq. reflexivity.
Qed.
Lemma redge_eqb_eq a b : redge_eqb a b = true <-> a = b.
Proof.
  destruct a as [[[f t] nm] k], b as [[[f' t'] nm'] k']. cbn [redge_eqb]. split; intros H.
  - apply andb_prop in H. destruct H as [H H4]. apply andb_prop in H. destruct H as [H H3].
    apply andb_prop in H. destruct H as [H1 H2].
    apply node_eqb_eq in H1. apply node_eqb_eq in H2. apply str_eqb_eq in H3. apply kind_eqb_eq in H4. congruence.
  - injection H as -> -> -> ->. rewrite (proj2 (node_eqb_eq _ _) eq_refl), (proj2 (node_eqb_eq _ _) eq_refl),
      str_eqb_refl. apply kind_eqb_eq. reflexivity.
Qed.
Lemma pair_eqb_eq (a b : nat * nat) : Nat.eqb (fst a) (fst b) && Nat.eqb (snd a) (snd b) = true <-> a = b.
Proof.
  destruct a, b. cbn. rewrite andb_true_iff, !Nat.eqb_eq. split; [intros [-> ->]; reflexivity|].
  intros H. injection H as -> ->. auto.
Qed.

(* ---- counting permutation check, duplicate check ---- *)
Section Generic.
  Variable A : Type.
  Variable eqb : A -> A -> bool.
  Hypothesis eqb_eq : forall x y, eqb x y = true <-> x = y.

  Lemma count_cons x y l : count eqb x (y :: l) = (if eqb x y then 1 else 0) + count eqb x l.
  Proof. unfold count. cbn [filter]. destruct (eqb x y); reflexivity. Qed.
  Lemma count_app x a b : count eqb x (a ++ b) = count eqb x a + count eqb x b.
  Proof. unfold count. rewrite filter_app, app_length. reflexivity. Qed.
  Lemma count_pos_in x l : 1 <= count eqb x l -> In x l.
  Proof.
    induction l as [|y l IH]; [cbn; lia|]. rewrite count_cons. destruct (eqb x y) eqn:E.
    - intros _. left. symmetry. apply eqb_eq. exact E.
    - intros H. right. apply IH. lia.
  Qed.

  Lemma perm_by_count : forall a b, length a = length b ->
    (forall x, In x a -> count eqb x a = count eqb x b) -> Permutation a b.
  Proof.
    induction a as [|x a IH]; intros b Hl Hc.
    - destruct b; [constructor|discriminate].
    - assert (Hx : In x b).
      { apply count_pos_in. rewrite <- (Hc x (or_introl eq_refl)), count_cons.
        rewrite (proj2 (eqb_eq x x) eq_refl). lia. }
      apply in_split in Hx. destruct Hx as [b1 [b2 ->]].
      apply Permutation_cons_app. apply IH.
      + rewrite app_length in *. cbn [length] in Hl. lia.
      + intros y Hy. pose proof (Hc y (or_intror Hy)) as H.
        rewrite count_cons, !count_app, count_cons in H. rewrite count_app. lia.
  Qed.

  Lemma perm_eqb_sound a b : perm_eqb eqb a b = true -> Permutation a b.
  Proof.
    unfold perm_eqb. intros H. apply andb_prop in H. destruct H as [H1 H2].
    apply Nat.eqb_eq in H1. rewrite forallb_forall in H2.
    apply perm_by_count; [exact H1|]. intros x Hx. apply Nat.eqb_eq. apply H2. exact Hx.
  Qed.

  Lemma nodupb_sound l : nodupb eqb l = true -> NoDup l.
  Proof.
    induction l as [|x l IH]; intros H; [constructor|]. cbn [nodupb] in H.
    apply andb_prop in H. destruct H as [H1 H2]. constructor; [|apply IH; exact H2].
    intros Hin. apply negb_true_iff in H1.
    assert (E : existsb (eqb x) l = true) by (apply existsb_exists; exists x; split; [exact Hin|apply eqb_eq; reflexivity]).
    congruence.
  Qed.
End Generic.

Theorem graph_equivb_sound (g g' : graph str str str) :
  graph_equivb g g' = true -> graph_equiv str str str g g'.
Proof.
  unfold graph_equivb, graph_equiv. intros H. apply andb_prop in H. destruct H as [H1 H2]. split.
  - apply (perm_eqb_sound _ node_eqb node_eqb_eq). exact H1.
  - apply (perm_eqb_sound _ redge_eqb redge_eqb_eq). exact H2.
Qed.

(* ---- well-formedness ---- *)
Section WF.
  Variable t : table.
  Notation WFG := (wf_graph str str str idf idf idf (orc t QUrl) (orc t QCid) (orc t QVer)).
  Notation WFS := (wf_src str str str idf idf idf (orc t QUrl) (orc t QCid) (orc t QVer)).

  Lemma wf_srcb_sound p : wf_srcb t p = true -> WFS p.
  Proof.
    unfold wf_srcb, Spec.wf_src. intros H. apply andb_prop in H. destruct H as [H H3].
    apply andb_prop in H. destruct H as [H1 H2]. split; [|split; assumption].
    unfold parsep in H1.
    destruct (parse_pinned str str str (orc t QUrl) (orc t QCid) (orc t QVer) (showp p)) as [q| | |];
      try discriminate.
    apply pinned_eqb_eq in H1. subst. reflexivity.
  Qed.

  Theorem reason_sound (g : graph str str str) : reason t g = 0%N -> WFG g.
  Proof.
    unfold reason. intros H.
    destruct (forallb (fun x => wf_nameb (gn_name x)) (g_nodes g)) eqn:E1; [|discriminate].
    destruct (forallb (fun x => wf_srcb t (gn_src x)) (g_nodes g)) eqn:E2; [|discriminate].
    destruct (nodupb node_eqb (g_nodes g)) eqn:E3; [|discriminate].
    destruct (forallb (fun e => Nat.ltb (ge_from e) (length (g_nodes g)) && Nat.ltb (ge_to e) (length (g_nodes g)))
                      (g_edges g)) eqn:E4; [|discriminate].
    destruct (forallb (fun e => lacks c_rpar (ge_name e) && hd_ok (ge_name e)) (g_edges g)) eqn:E5; [|discriminate].
    destruct (forallb (fun e => match ge_kind e with Lib => true | Contract s => (s <? 2 ^ 256)%N end) (g_edges g))
      eqn:E6; [|discriminate].
    destruct (nodupb (fun a b => Nat.eqb (fst a) (fst b) && Nat.eqb (snd a) (snd b))
                     (map (fun e => (ge_from e, ge_to e)) (g_edges g))) eqn:E7; [|discriminate].
    clear H. rewrite forallb_forall in E1, E2, E4, E5, E6.
    split; [|split; [|split]].
    - apply Forall_forall. intros x Hx. split; [apply E1; exact Hx|apply wf_srcb_sound; apply E2; exact Hx].
    - apply (nodupb_sound _ node_eqb node_eqb_eq). exact E3.
    - apply Forall_forall. intros e He. unfold wf_edge.
      pose proof (E4 e He) as A. apply andb_prop in A. destruct A as [A1 A2].
      apply Nat.ltb_lt in A1. apply Nat.ltb_lt in A2.
      pose proof (E5 e He) as B. apply andb_prop in B. destruct B as [B1 B2].
      pose proof (E6 e He) as C.
      repeat split; try assumption.
      destruct (ge_kind e); [exact I|]. apply N.ltb_lt. exact C.
    - apply (nodupb_sound _ _ pair_eqb_eq). exact E7.
  Qed.

  (* what a judge code 0 certifies *)
  Theorem judge20_code0 g1 lock i r :
    judge20 t g1 lock i = (0%N, r) ->
    WFG g1 /\ exists g2, i = IOk g2 /\ graph_equiv str str str g2 g1.
  Proof.
    unfold judge20. intros H.
    destruct ((reason t g1 =? 0)%N &&
              negb match i with IOk g2 => graph_equivb g2 g1 | _ => false end &&
              negb match i with IPanic => true | _ => false end); [discriminate|].
    destruct (negb (lock_set_eqb _ lock)); [discriminate|].
    destruct (negb (forallb _ lock)); [discriminate|].
    destruct (cmp graph_eqb false _ i) eqn:Ec; [|injection H as H _; destruct p; discriminate].
    destruct i as [g2| |]; cbn in H.
    - destruct (graph_equivb g2 g1) eqn:Eq.
      + destruct (reason t g1 =? 0)%N eqn:Er; [|discriminate].
        apply N.eqb_eq in Er. split; [apply reason_sound; exact Er|].
        exists g2. split; [reflexivity|apply graph_equivb_sound; exact Eq].
      + destruct (reason t g1 =? 0)%N; discriminate.
    - destruct (reason t g1 =? 0)%N; discriminate.
    - destruct (reason t g1 =? 0)%N; discriminate.
  Qed.
End WF.
