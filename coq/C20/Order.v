(* C20/Order.v — total orders given by `comparison`-valued functions (Rust's derived `Ord`:
   lexicographic on fields, `None < Some`, Vec/String lexicographic), insertion sort and the
   fact that sorting is insensitive to the order of its input. *)
From SwayV Require Import Base.Util C21.Str C20.Model.
From Coq Require Import Permutation Sorting.Sorted.

Definition ord_ok {A} (cmp : A -> A -> comparison) : Prop :=
  (forall a b, cmp a b = Eq <-> a = b) /\
  (forall a b, cmp b a = CompOpp (cmp a b)) /\
  (forall a b c, cmp a b = Lt -> cmp b c = Lt -> cmp a c = Lt).

Definition leb_of {A} (cmp : A -> A -> comparison) (a b : A) : bool :=
  match cmp a b with Gt => false | _ => true end.

Section LebOf.
  Variable A : Type.
  Variable cmp : A -> A -> comparison.
  Hypothesis Hok : ord_ok cmp.

  Lemma leb_of_total a b : leb_of cmp a b = true \/ leb_of cmp b a = true.
  Proof.
    destruct Hok as [_ [H2 _]]. unfold leb_of. rewrite (H2 a b). destruct (cmp a b); cbn; auto.
  Qed.
  Lemma leb_of_antisym a b : leb_of cmp a b = true -> leb_of cmp b a = true -> a = b.
  Proof.
    destruct Hok as [H1 [H2 _]]. unfold leb_of. rewrite (H2 a b).
    destruct (cmp a b) eqn:E; cbn; try discriminate. intros _ _. apply H1. exact E.
  Qed.
  Lemma leb_of_trans a b c : leb_of cmp a b = true -> leb_of cmp b c = true -> leb_of cmp a c = true.
  Proof.
    destruct Hok as [H1 [H2 H3]]. unfold leb_of.
    destruct (cmp a b) eqn:E1; try discriminate; destruct (cmp b c) eqn:E2; try discriminate; intros _ _.
    - apply H1 in E1. subst. rewrite E2. reflexivity.
    - apply H1 in E1. subst. rewrite E2. reflexivity.
    - apply H1 in E2. subst. rewrite E1. reflexivity.
    - rewrite (H3 _ _ _ E1 E2). reflexivity.
  Qed.
End LebOf.

(* ---- combinators ---- *)
Fixpoint list_cmp {A} (cmp : A -> A -> comparison) (a b : list A) : comparison :=
  match a, b with
  | [], [] => Eq
  | [], _ :: _ => Lt
  | _ :: _, [] => Gt
  | x :: a', y :: b' => match cmp x y with Eq => list_cmp cmp a' b' | c => c end
  end.
Definition opt_cmp {A} (cmp : A -> A -> comparison) (a b : option A) : comparison :=
  match a, b with
  | None, None => Eq | None, Some _ => Lt | Some _, None => Gt | Some x, Some y => cmp x y
  end.
Definition pair_cmp {A B} (cA : A -> A -> comparison) (cB : B -> B -> comparison) (a b : A * B) : comparison :=
  match cA (fst a) (fst b) with Eq => cB (snd a) (snd b) | c => c end.

Lemma list_cmp_ok {A} (cmp : A -> A -> comparison) : ord_ok cmp -> ord_ok (list_cmp cmp).
Proof.
  intros [H1 [H2 H3]]. split; [|split].
  - induction a as [|x a IH]; intros [|y b]; cbn; split; intros H; try discriminate; try reflexivity.
    + destruct (cmp x y) eqn:E; try discriminate. apply H1 in E. apply IH in H. congruence.
    + injection H as -> ->. rewrite (proj2 (H1 y y) eq_refl). apply IH. reflexivity.
  - induction a as [|x a IH]; intros [|y b]; cbn; try reflexivity.
    rewrite (H2 x y). destruct (cmp x y); cbn; auto.
  - induction a as [|x a IH]; intros [|y b] [|z c]; cbn; try discriminate; try reflexivity.
    destruct (cmp x y) eqn:E1; try discriminate; destruct (cmp y z) eqn:E2; try discriminate; intros A1 A2.
    + apply H1 in E1. apply H1 in E2. subst. rewrite (proj2 (H1 z z) eq_refl). eapply IH; eauto.
    + apply H1 in E1. subst. rewrite E2. reflexivity.
    + apply H1 in E2. subst. rewrite E1. reflexivity.
    + rewrite (H3 _ _ _ E1 E2). reflexivity.
Qed.

Lemma opt_cmp_ok {A} (cmp : A -> A -> comparison) : ord_ok cmp -> ord_ok (opt_cmp cmp).
Proof.
  intros [H1 [H2 H3]]. split; [|split].
  - intros [x|] [y|]; cbn; split; intros H; try discriminate; try reflexivity.
    + apply H1 in H. congruence.
    + injection H as ->. apply H1. reflexivity.
  - intros [x|] [y|]; cbn; auto.
  - intros [x|] [y|] [z|]; cbn; try discriminate; try reflexivity. apply H3.
Qed.

Lemma pair_cmp_ok {A B} (cA : A -> A -> comparison) (cB : B -> B -> comparison) :
  ord_ok cA -> ord_ok cB -> ord_ok (pair_cmp cA cB).
Proof.
  intros [A1 [A2 A3]] [B1 [B2 B3]]. unfold pair_cmp. split; [|split].
  - intros [a1 a2] [b1 b2]. cbn. split; intros H.
    + destruct (cA a1 b1) eqn:E; try discriminate. apply A1 in E. apply B1 in H. congruence.
    + injection H as -> ->. rewrite (proj2 (A1 b1 b1) eq_refl). apply B1. reflexivity.
  - intros [a1 a2] [b1 b2]. cbn. rewrite (A2 a1 b1). destruct (cA a1 b1); cbn; auto.
  - intros [a1 a2] [b1 b2] [c1 c2]. cbn.
    destruct (cA a1 b1) eqn:E1; try discriminate; destruct (cA b1 c1) eqn:E2; try discriminate; intros X Y.
    + apply A1 in E1. apply A1 in E2. subst. rewrite (proj2 (A1 c1 c1) eq_refl). eapply B3; eauto.
    + apply A1 in E1. subst. rewrite E2. reflexivity.
    + apply A1 in E2. subst. rewrite E1. reflexivity.
    + rewrite (A3 _ _ _ E1 E2). reflexivity.
Qed.

Lemma cmp_inj_ok {A B} (cmp : B -> B -> comparison) (f : A -> B) :
  ord_ok cmp -> (forall a b, f a = f b -> a = b) -> ord_ok (fun a b => cmp (f a) (f b)).
Proof.
  intros [H1 [H2 H3]] Hinj. split; [|split].
  - intros a b. rewrite H1. split; [apply Hinj|congruence].
  - intros a b. apply H2.
  - intros a b c. apply H3.
Qed.

Lemma N_compare_ok : ord_ok N.compare.
Proof.
  split; [|split].
  - intros a b. apply N.compare_eq_iff.
  - intros a b. apply N.compare_antisym.
  - intros a b c. rewrite !N.compare_lt_iff. apply N.lt_trans.
Qed.

(* String / Vec<u8> order *)
Definition str_cmp : str -> str -> comparison := list_cmp N.compare.
Lemma str_cmp_ok : ord_ok str_cmp.
Proof. apply list_cmp_ok. apply N_compare_ok. Qed.

(* the Model's str_leb is this order *)
Lemma str_leb_cmp : forall a b, str_leb a b = leb_of str_cmp a b.
Proof.
  induction a as [|x a IH]; intros [|y b]; try reflexivity.
  cbn [str_leb]. unfold leb_of, str_cmp. cbn [list_cmp]. fold (str_cmp a b).
  destruct (N.compare x y) eqn:E.
  - apply N.compare_eq_iff in E. subst. rewrite N.ltb_irrefl. rewrite IH. reflexivity.
  - apply N.compare_lt_iff in E. apply N.ltb_lt in E. rewrite E. reflexivity.
  - apply N.compare_gt_iff in E. assert (E1 : (x <? y)%N = false) by (apply N.ltb_ge; apply N.lt_le_incl; exact E).
    apply N.ltb_lt in E. rewrite E1, E. reflexivity.
Qed.

(* ---- insertion sort ---- *)
Section Sort.
  Variable A : Type.
  Variable leb : A -> A -> bool.
  Hypothesis leb_total : forall a b, leb a b = true \/ leb b a = true.
  Hypothesis leb_trans : forall a b c, leb a b = true -> leb b c = true -> leb a c = true.
  Hypothesis leb_antisym : forall a b, leb a b = true -> leb b a = true -> a = b.

  Fixpoint insert (x : A) (l : list A) : list A :=
    match l with [] => [x] | y :: r => if leb x y then x :: l else y :: insert x r end.
  Fixpoint isort (l : list A) : list A :=
    match l with [] => [] | x :: r => insert x (isort r) end.

  Notation R := (fun a b => leb a b = true).

  Lemma insert_perm x l : Permutation (x :: l) (insert x l).
  Proof.
    induction l as [|y r IH]; [reflexivity|]. cbn. destruct (leb x y); [reflexivity|].
    rewrite perm_swap. constructor. exact IH.
  Qed.
  Lemma isort_perm l : Permutation l (isort l).
  Proof. induction l as [|x r IH]; [reflexivity|]. cbn. rewrite <- insert_perm. constructor. exact IH. Qed.

  Lemma insert_sorted x l : StronglySorted R l -> StronglySorted R (insert x l).
  Proof.
    induction l as [|y r IH]; intros H; [repeat constructor|]. cbn.
    inversion H as [|? ? Hs Hf]; subst. destruct (leb x y) eqn:E.
    - constructor; [exact H|]. constructor; [exact E|].
      eapply Forall_impl; [|exact Hf]. intros z Hz. eapply leb_trans; eauto.
    - constructor; [apply IH; exact Hs|].
      assert (Hyx : leb y x = true) by (destruct (leb_total x y); congruence).
      apply (Permutation_Forall (insert_perm x r)). constructor; assumption.
  Qed.
  Lemma isort_sorted l : StronglySorted R (isort l).
  Proof. induction l as [|x r IH]; [constructor|]. cbn. apply insert_sorted. exact IH. Qed.

  Lemma sorted_perm_eq : forall l l', StronglySorted R l -> StronglySorted R l' -> Permutation l l' -> l = l'.
  Proof.
    induction l as [|a r IH]; intros l' S S' P.
    - apply Permutation_nil in P. subst. reflexivity.
    - destruct l' as [|a' r']; [apply Permutation_sym, Permutation_nil in P; discriminate|].
      inversion S as [|? ? Sr Fa]; subst. inversion S' as [|? ? Sr' Fa']; subst.
      assert (Haa : leb a a = true) by (destruct (leb_total a a); assumption).
      assert (Ha'a' : leb a' a' = true) by (destruct (leb_total a' a'); assumption).
      assert (L1 : leb a a' = true).
      { assert (Hin : In a' (a :: r)) by (apply (Permutation_in _ (Permutation_sym P)); left; reflexivity).
        destruct Hin as [->|Hin]; [exact Ha'a'|]. rewrite Forall_forall in Fa. apply Fa. exact Hin. }
      assert (L2 : leb a' a = true).
      { assert (Hin : In a (a' :: r')) by (apply (Permutation_in _ P); left; reflexivity).
        destruct Hin as [->|Hin]; [exact Haa|]. rewrite Forall_forall in Fa'. apply Fa'. exact Hin. }
      assert (a = a') by (apply leb_antisym; assumption). subst a'.
      f_equal. apply IH; [exact Sr|exact Sr'|]. eapply Permutation_cons_inv. exact P.
  Qed.

  Theorem isort_perm_eq l l' : Permutation l l' -> isort l = isort l'.
  Proof.
    intros P. apply sorted_perm_eq; try apply isort_sorted.
    rewrite <- (isort_perm l), <- (isort_perm l'). exact P.
  Qed.

  (* BTreeSet: sorted, equal elements collapse (under an antisymmetric order: adjacent duplicates) *)
  Fixpoint dedup_adj (l : list A) : list A :=
    match l with
    | [] => []
    | x :: r => match r with
                | y :: _ => if leb y x then dedup_adj r else x :: dedup_adj r
                | [] => [x]
                end
    end.
  Definition to_set (l : list A) : list A := dedup_adj (isort l).

  Theorem to_set_perm_eq l l' : Permutation l l' -> to_set l = to_set l'.
  Proof. intros P. unfold to_set. rewrite (isort_perm_eq l l' P). reflexivity. Qed.

  Lemma dedup_adj_nodup : forall l, StronglySorted R l -> NoDup l -> dedup_adj l = l.
  Proof.
    induction l as [|x r IH]; intros S Hd; [reflexivity|].
    inversion S as [|? ? Sr Fx]; subst. inversion Hd as [|? ? Hn Hd']; subst.
    cbn [dedup_adj]. destruct r as [|y r']; [reflexivity|].
    destruct (leb y x) eqn:E.
    - exfalso. apply Hn. left. apply leb_antisym; [exact E|]. inversion Fx; assumption.
    - f_equal. apply IH; assumption.
  Qed.

  Lemma to_set_nodup_perm l : NoDup l -> Permutation l (to_set l).
  Proof.
    intros Hd. unfold to_set. rewrite dedup_adj_nodup; [apply isort_perm|apply isort_sorted|].
    apply (Permutation_NoDup (isort_perm l)). exact Hd.
  Qed.
End Sort.

Lemma sort_str_isort l : sort_str l = isort str str_leb l.
Proof.
  induction l as [|x r IH]; [reflexivity|]. cbn. rewrite IH. generalize (isort str str_leb r). intros l0.
  induction l0 as [|y t IHt]; [reflexivity|]. cbn. destruct (str_leb x y); [reflexivity|]. rewrite IHt. reflexivity.
Qed.

Lemma sort_str_perm_eq l l' : Permutation l l' -> sort_str l = sort_str l'.
Proof.
  intros P. rewrite !sort_str_isort. apply isort_perm_eq; try exact P.
  - intros a b. rewrite !str_leb_cmp. apply leb_of_total. apply str_cmp_ok.
  - intros a b c. rewrite !str_leb_cmp. apply leb_of_trans. apply str_cmp_ok.
  - intros a b. rewrite !str_leb_cmp. apply leb_of_antisym. apply str_cmp_ok.
Qed.
