(* C20/Judge.v — per-case judgement (vm_compute) for the round-trip run.
   External Display/FromStr: values are their Display strings (show = identity); the parsers
   are the verdict table measured on the real gix_url / cid / semver (as in C21/Judge.v). *)
From SwayV Require Import Base.Util C21.Str C21.Model C21.Spec C21.Judge C20.Model C20.Spec.

Definition idf (s : str) : str := s.
Notation showp := (show_pinned str str str idf idf idf).
Notation G := (graph str str str).
Notation Nd := (gnode str str str).

Definition pkglock_eqb (a b : pkglock) : bool :=
  str_eqb (pl_name a) (pl_name b) && str_eqb (pl_source a) (pl_source b)
  && list_eqb str_eqb (pl_deps a) (pl_deps b) && list_eqb str_eqb (pl_cdeps a) (pl_cdeps b).
Definition lock_set_eqb (a b : list pkglock) : bool :=
  forallb (fun x => existsb (pkglock_eqb x) b) a && forallb (fun x => existsb (pkglock_eqb x) a) b.

Definition count {A} (eqb : A -> A -> bool) (x : A) (l : list A) : nat := length (filter (eqb x) l).
Definition perm_eqb {A} (eqb : A -> A -> bool) (a b : list A) : bool :=
  Nat.eqb (length a) (length b) && forallb (fun x => Nat.eqb (count eqb x a) (count eqb x b)) a.
Definition redge_eqb (a b : Nd * Nd * str * depkind) : bool :=
  match a, b with
  | (f, t, n, k), (f', t', n', k') => node_eqb f f' && node_eqb t t' && str_eqb n n' && kind_eqb k k'
  end.
(* Spec.graph_equiv, decided by counting *)
Definition graph_equivb (g g' : G) : bool :=
  perm_eqb node_eqb (g_nodes g) (g_nodes g') &&
  perm_eqb redge_eqb (redges str str str g) (redges str str str g').

Section WithTable.
  Variable t : table.
  Definition parsep := parse_pinned str str str (orc t QUrl) (orc t QCid) (orc t QVer).

  (* Spec.wf_src, decided *)
  Definition wf_srcb (p : pinned str str str) : bool :=
    match parsep (showp p) with Ok q => pinned_eqb q p | _ => false end
    && lacks c_lpar (showp p) && last_graphic (showp p).

  Fixpoint nodupb {A} (eqb : A -> A -> bool) (l : list A) : bool :=
    match l with [] => true | x :: r => negb (existsb (eqb x) r) && nodupb eqb r end.

  (* first clause of Spec.wf_graph that fails; 0 = well-formed
     20 package name  30 source  21 duplicate package  22 edge endpoint  40 dependency name
     41 salt range  23 parallel edges *)
  Definition reason (g : G) : N :=
    let n := length (g_nodes g) in
    if negb (forallb (fun x => wf_nameb (gn_name x)) (g_nodes g)) then 20
    else if negb (forallb (fun x => wf_srcb (gn_src x)) (g_nodes g)) then 30
    else if negb (nodupb node_eqb (g_nodes g)) then 21
    else if negb (forallb (fun e => Nat.ltb (ge_from e) n && Nat.ltb (ge_to e) n) (g_edges g)) then 22
    else if negb (forallb (fun e => lacks c_rpar (ge_name e) && hd_ok (ge_name e)) (g_edges g)) then 40
    else if negb (forallb (fun e => match ge_kind e with Lib => true
                                     | Contract s => (s <? 2 ^ 256)%N end) (g_edges g)) then 41
    else if negb (nodupb (fun a b => Nat.eqb (fst a) (fst b) && Nat.eqb (snd a) (snd b))
                         (map (fun e => (ge_from e, ge_to e)) (g_edges g))) then 23
    else 0.

  (* (code, reason)
     0  well-formed graph, round trip holds, model = implementation
     10 graph outside wf_graph but the round trip holds anyway
     2  VIOLATION: well-formed graph does not round-trip (contradicts theorem: model or proof no longer the code)
     3  graph outside wf_graph does not round-trip (classified by the caller: finding class or outside the domain)
     1  model differs from the implementation (written lock, or graph read back)
     5  VIOLATION: panic    9 oracle table misses a query *)
  Definition judge20 (g1 : G) (lock : list pkglock) (i : impl_res G) : N * N :=
    let model_lock := from_graph_list str str str idf idf idf g1 in
    (* the property itself is decided on the implementation's answer first: a graph inside
       wf_graph (reason 0) that the real code does not bring back is a violation with this
       input, whether or not the model still agrees with the code *)
    let holds_impl := match i with IOk g2 => graph_equivb g2 g1 | _ => false end in
    if (reason g1 =? 0)%N && negb holds_impl && negb (match i with IPanic => true | _ => false end)
    then (2, 0)%N else
    if negb (lock_set_eqb model_lock lock) then (1, 99)%N else
    if negb (forallb (fun p => covered false t (pl_source p)) lock) then (9, 99)%N else
    let r := reason g1 in
    let m := to_graph (orc t QUrl) (orc t QCid) (orc t QVer) lock in
    match cmp graph_eqb false m i with
    | 0%N =>
      let holds := match i with IOk g2 => graph_equivb g2 g1 | _ => false end in
      if holds then ((if (r =? 0)%N then 0 else 10)%N, r)
      else ((if (r =? 0)%N then 2 else 3)%N, r)
    | c => (c, r)
    end.
End WithTable.

Inductive case20 := C20case (t : table) (g1 : G) (lock : list pkglock) (i : impl_res G).
Definition judge20_all (cs : list case20) : list (N * N) :=
  map (fun c => match c with C20case t g l i => judge20 t g l i end) cs.
