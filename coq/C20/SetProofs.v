(* C20/SetProofs.v — Lock::from_graph with the version field and the BTreeSet order:
   the written set does not depend on node numbering or edge order, and the round trip holds
   for it. *)
From SwayV Require Import Base.Util C21.Str C21.Model C20.Model C20.Spec C20.StrLemmas C20.ListLemmas
     C20.Order C20.SetModel C20.GraphProofs.
From Coq Require Import Permutation.

Lemma filter_map_swap {A B} (f : A -> B) (p : B -> bool) l :
  filter p (map f l) = map f (filter (fun x => p (f x)) l).
Proof. induction l as [|a l IH]; [reflexivity|]. cbn. destruct (p (f a)); cbn; rewrite IH; reflexivity. Qed.

Lemma Permutation_filter' {A} (p : A -> bool) (l l' : list A) :
  Permutation l l' -> Permutation (filter p l) (filter p l').
Proof.
  intros P. induction P as [|x l l' P IH|x y l|l l' l'' P1 IH1 P2 IH2]; cbn.
  - constructor.
  - destruct (p x); [constructor|]; exact IH.
  - destruct (p x), (p y); try reflexivity. apply perm_swap.
  - etransitivity; eassumption.
Qed.

Lemma index_of_nth : forall l k, NoDup l -> k < length l -> index_of (nth k l 0) l = k.
Proof.
  induction l as [|x r IH]; intros k Hd Hk; [cbn in Hk; lia|].
  inversion Hd as [|? ? Hn Hd']; subst. destruct k as [|k]; cbn [nth index_of].
  - rewrite Nat.eqb_refl. reflexivity.
  - cbn in Hk. destruct (Nat.eqb x (nth k r 0)) eqn:E.
    + apply Nat.eqb_eq in E. exfalso. apply Hn. rewrite E. apply nth_In. lia.
    + f_equal. apply IH; [exact Hd'|lia].
Qed.

Section SetProofs.
  Variables url cid ver : Type.
  Variable show_url : url -> str.
  Variable show_cid : cid -> str.
  Variable show_ver : ver -> str.
  Variable parse_url : str -> option url.
  Variable parse_cid : str -> option cid.
  Variable parse_ver : str -> option ver.
  Variable ver_cmp : ver -> ver -> comparison.
  Hypothesis Hver : ord_ok ver_cmp.
  Notation graph := (graph url cid ver).
  Notation dnode := (dnode url cid ver).
  Notation pkgfull := (pkgfull ver).
  Notation from_node := (from_node url cid ver show_url show_cid show_ver).
  Notation from_node_full := (from_node_full url cid ver show_url show_cid show_ver).
  Notation from_graph_full := (from_graph_full url cid ver show_url show_cid show_ver).
  Notation from_graph_set := (from_graph_set url cid ver show_url show_cid show_ver ver_cmp).
  Notation from_graph_list := (from_graph_list url cid ver show_url show_cid show_ver).
  Notation dep_line := (dep_line url cid ver show_url show_cid show_ver).
  Notation out_edges := (out_edges url cid ver).
  Notation graph_dis := (graph_dis url cid ver).
  Notation pf_cmp := (pf_cmp ver ver_cmp).

  Lemma pf_cmp_ok : ord_ok pf_cmp.
  Proof.
    unfold SetModel.pf_cmp. apply cmp_inj_ok.
    - unfold tuple_cmp. repeat apply pair_cmp_ok; try apply str_cmp_ok; try apply list_cmp_ok;
        try apply str_cmp_ok. apply opt_cmp_ok. exact Hver.
    - intros [[n1 s1 d1 c1] v1] [[n2 s2 d2 c2] v2]. unfold pf_tuple. cbn. intros H.
      injection H as -> -> -> -> ->. reflexivity.
  Qed.

  Variables g g' : graph.
  Variable sigma : list nat.
  Hypothesis Hren : renumbering url cid ver sigma g g'.
  Hypothesis Hrange : forall e, In e (g_edges g) ->
    ge_from e < length (g_nodes g) /\ ge_to e < length (g_nodes g).

  Let F := fun i => nth i (g_nodes g) dnode.
  Let nn := length (g_nodes g).

  Lemma Hsig : Permutation (seq 0 nn) sigma. Proof. apply Hren. Qed.
  Lemma Hnodes : g_nodes g' = map F sigma. Proof. apply Hren. Qed.
  Lemma Hedges : Permutation (g_edges g') (map (renumber_edge sigma) (g_edges g)). Proof. apply Hren. Qed.

  Lemma sig_in i : In i sigma <-> i < nn.
  Proof.
    split; intros H.
    - apply (Permutation_in _ (Permutation_sym Hsig)) in H. apply in_seq in H. lia.
    - apply (Permutation_in _ Hsig). apply in_seq. lia.
  Qed.
  Lemma sig_nodup : NoDup sigma.
  Proof. apply (Permutation_NoDup Hsig). apply seq_NoDup. Qed.
  Lemma sig_len : length sigma = nn.
  Proof. rewrite <- (Permutation_length Hsig). apply seq_length. Qed.

  Lemma node'_nth k : k < length sigma -> nth k (g_nodes g') dnode = F (nth k sigma 0).
  Proof.
    intros Hk. rewrite Hnodes. rewrite (nth_indep _ dnode (F 0)) by (rewrite map_length; exact Hk).
    apply map_nth.
  Qed.

  Lemma node'_pos i : i < nn -> nth (index_of i sigma) (g_nodes g') dnode = F i.
  Proof.
    intros Hi. destruct (index_of_spec i sigma (proj2 (sig_in i) Hi)) as [H1 H2].
    rewrite node'_nth by exact H1. rewrite H2. reflexivity.
  Qed.

  Lemma dis_same x : mem_str x (graph_dis g') = mem_str x (graph_dis g).
  Proof.
    unfold Model.graph_dis. apply dis_perm. rewrite Hnodes.
    replace (g_nodes g) with (map F (seq 0 nn)) by (apply (map_nth_seq (g_nodes g) dnode)).
    apply Permutation_map. apply Permutation_map. apply Permutation_sym. exact Hsig.
  Qed.

  Lemma dep_line_same e : In e (g_edges g) ->
    dep_line g' (graph_dis g') (renumber_edge sigma e) = dep_line g (graph_dis g) e.
  Proof.
    intros He. destruct (Hrange e He) as [_ Ht]. unfold Model.dep_line, renumber_edge.
    cbn [ge_to ge_name ge_kind]. rewrite (node'_pos _ Ht). fold (F (ge_to e)). rewrite dis_same. reflexivity.
  Qed.

  Lemma lines_same (q : gedge -> bool) k : (forall e, q (renumber_edge sigma e) = q e) -> k < length sigma ->
    sort_str (map (dep_line g' (graph_dis g')) (filter q (out_edges g' k)))
    = sort_str (map (dep_line g (graph_dis g)) (filter q (out_edges g (nth k sigma 0)))).
  Proof.
    intros Hq Hk. apply sort_str_perm_eq. unfold Model.out_edges.
    set (i := nth k sigma 0).
    assert (Hi : In i sigma) by (apply nth_In; exact Hk).
    assert (Hpos : index_of i sigma = k) by (apply index_of_nth; [apply sig_nodup|exact Hk]).
    transitivity (map (dep_line g' (graph_dis g'))
                      (filter q (filter (fun e => Nat.eqb (ge_from e) k) (map (renumber_edge sigma) (g_edges g))))).
    { apply Permutation_map. apply Permutation_filter'. apply Permutation_filter'. exact Hedges. }
    rewrite !filter_map_swap, map_map. apply Permutation_refl'.
    assert (E : filter (fun x => q (renumber_edge sigma x))
                       (filter (fun x => Nat.eqb (ge_from (renumber_edge sigma x)) k) (g_edges g))
                = filter q (filter (fun e => Nat.eqb (ge_from e) i) (g_edges g))).
    { rewrite (filter_ext _ _ Hq). f_equal. apply filter_ext_in. intros e He.
      destruct (Hrange e He) as [Hf _]. cbn [renumber_edge ge_from].
      destruct (Nat.eqb (ge_from e) i) eqn:E.
      - apply Nat.eqb_eq in E. rewrite E, Hpos. apply Nat.eqb_refl.
      - apply Nat.eqb_neq. intros C. apply Nat.eqb_neq in E. apply E.
        apply (index_of_inj _ _ sigma); [apply sig_in; exact Hf|exact Hi|]. rewrite C, Hpos. reflexivity. }
    rewrite E. apply map_ext_in. intros e He. apply filter_In in He. destruct He as [He _].
    apply filter_In in He. destruct He as [He _]. apply dep_line_same. exact He.
  Qed.

  Lemma node_full_same k : k < length sigma ->
    from_node_full g' (graph_dis g') k = from_node_full g (graph_dis g) (nth k sigma 0).
  Proof.
    intros Hk. unfold SetModel.from_node_full, Model.from_node.
    rewrite (node'_nth k Hk). fold (F (nth k sigma 0)).
    rewrite (lines_same is_lib k) by (try exact Hk; intros e; reflexivity).
    rewrite (lines_same (fun e => negb (is_lib e)) k) by (try exact Hk; intros e; reflexivity).
    reflexivity.
  Qed.

  Lemma full_renumber : from_graph_full g' = map (from_node_full g (graph_dis g)) sigma.
  Proof.
    unfold SetModel.from_graph_full. rewrite Hnodes, map_length.
    rewrite <- (map_nth_seq sigma 0) at 2. rewrite map_map.
    apply map_ext_in. intros k Hk. apply in_seq in Hk. apply node_full_same. lia.
  Qed.

  (* Lock::from_graph writes the same set whatever the node numbering and the edge order *)
  Theorem set_renumber_invariant : from_graph_set g' = from_graph_set g.
  Proof.
    unfold SetModel.from_graph_set. pose proof pf_cmp_ok as Hok.
    apply to_set_perm_eq.
    - apply leb_of_total. exact Hok.
    - apply leb_of_trans. exact Hok.
    - apply leb_of_antisym. exact Hok.
    - rewrite full_renumber. unfold SetModel.from_graph_full. fold nn.
      apply Permutation_map. apply Permutation_sym. exact Hsig.
  Qed.
End SetProofs.

(* the round trip for the set as written (sorted, with versions) *)
Section Sorted.
  Variables url cid ver : Type.
  Variable show_url : url -> str.
  Variable show_cid : cid -> str.
  Variable show_ver : ver -> str.
  Variable parse_url : str -> option url.
  Variable parse_cid : str -> option cid.
  Variable parse_ver : str -> option ver.
  Variable ver_cmp : ver -> ver -> comparison.
  Hypothesis Hver : ord_ok ver_cmp.
  Notation graph := (graph url cid ver).
  Notation wf_graph := (wf_graph url cid ver show_url show_cid show_ver parse_url parse_cid parse_ver).
  Notation from_graph_full := (from_graph_full url cid ver show_url show_cid show_ver).
  Notation from_graph_set := (from_graph_set url cid ver show_url show_cid show_ver ver_cmp).
  Notation from_graph_list := (from_graph_list url cid ver show_url show_cid show_ver).

  Lemma from_graph_list_nodup (g : graph) : wf_graph g -> NoDup (from_graph_list g).
  Proof.
    intros Hwf. unfold Model.from_graph_list. apply NoDup_map_inj_in; [|apply seq_NoDup].
    intros x y Hx Hy. apply in_seq in Hx. apply in_seq in Hy.
    apply (pk_inj url cid ver show_url show_cid show_ver parse_url parse_cid parse_ver g Hwf);
      unfold n; lia.
  Qed.

  Lemma full_lock (g : graph) : map (pf_lock ver) (from_graph_full g) = from_graph_list g.
  Proof. unfold SetModel.from_graph_full, Model.from_graph_list. rewrite map_map. reflexivity. Qed.

  Theorem roundtrip_sorted (g : graph) : wf_graph g ->
    exists g', to_graph parse_url parse_cid parse_ver (map (pf_lock ver) (from_graph_set g)) = Ok g'
               /\ graph_equiv url cid ver g' g.
  Proof.
    intros Hwf. pose proof (from_graph_list_nodup g Hwf) as Hnd.
    assert (Hndf : NoDup (from_graph_full g)).
    { apply (NoDup_map_inv (pf_lock ver)). rewrite full_lock. exact Hnd. }
    pose proof (pf_cmp_ok ver ver_cmp Hver) as Hok.
    assert (P : Permutation (from_graph_list g) (map (pf_lock ver) (from_graph_set g))).
    { rewrite <- full_lock. apply Permutation_map. unfold SetModel.from_graph_set. apply to_set_nodup_perm.
      - apply leb_of_total. exact Hok.
      - apply leb_of_trans. exact Hok.
      - apply leb_of_antisym. exact Hok.
      - exact Hndf. }
    apply (lock_roundtrip url cid ver show_url show_cid show_ver parse_url parse_cid parse_ver g _ Hwf).
    split.
    - apply (Permutation_NoDup P). exact Hnd.
    - intros p. split; intros H.
      + apply (Permutation_in _ (Permutation_sym P)). exact H.
      + apply (Permutation_in _ P). exact H.
  Qed.
End Sorted.
