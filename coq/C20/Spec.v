(* C20/Spec.v — what "round-trips" means, and the well-formedness the proof needs. *)
From SwayV Require Import Base.Util C21.Str C21.Model C20.Model.
From Coq Require Import Permutation.

Definition graphic (b : N) : bool := ((33 <=? b) && (b <=? 126))%N.
(* package names accepted by forc_util::validate_project_name: ^[a-zA-Z][a-zA-Z0-9-_]+$ ;
   only "non-empty, drawn from [a-zA-Z0-9-_]" is needed here *)
Definition name_byte (b : N) : bool := (is_ascii_alnum b || (b =? 45) || (b =? 95))%N.
Definition wf_nameb (n : str) : bool := negb (is_nil n) && forallb name_byte n.
Definition hd_ok (s : str) : bool := match s with b :: _ => negb (is_cont b) | [] => true end.
Definition lacks (c : N) (s : str) : bool := forallb (fun b => negb (b =? c)%N) s.
Definition last_graphic (s : str) : bool := match rev s with b :: _ => graphic b | [] => false end.
Definition hd_graphic (s : str) : bool := match s with b :: _ => graphic b | [] => false end.

Section Spec.
  Variables url cid ver : Type.
  Variable show_url : url -> str.
  Variable show_cid : cid -> str.
  Variable show_ver : ver -> str.
  Variable parse_url : str -> option url.
  Variable parse_cid : str -> option cid.
  Variable parse_ver : str -> option ver.
  Notation pinned := (pinned url cid ver).
  Notation gnode := (gnode url cid ver).
  Notation graph := (graph url cid ver).
  Notation show_pinned := (show_pinned url cid ver show_url show_cid show_ver).
  Notation parse_pinned := (parse_pinned url cid ver parse_url parse_cid parse_ver).

  (* an edge with its endpoints resolved to packages: independent of node numbering *)
  Definition resolve (g : graph) (e : gedge) : gnode * gnode * str * depkind :=
    (nth (ge_from e) (g_nodes g) (dnode url cid ver), nth (ge_to e) (g_nodes g) (dnode url cid ver),
     ge_name e, ge_kind e).
  Definition redges (g : graph) := map (resolve g) (g_edges g).

  (* same packages, same dependency edges with the same names, kinds and salts
     (for graphs whose packages are pairwise distinct this is isomorphism) *)
  Definition graph_equiv (g g' : graph) : Prop :=
    Permutation (g_nodes g) (g_nodes g') /\ Permutation (redges g) (redges g').

  (* what the round trip needs of one source (semantic form) *)
  Definition wf_src (p : pinned) : Prop :=
    parse_pinned (show_pinned p) = Ok p /\
    lacks c_lpar (show_pinned p) = true /\
    last_graphic (show_pinned p) = true.

  (* sufficient syntactic conditions per kind (Proofs: wf_src_of_syn) *)
  Definition wf_ref (r : reference) (commit : str) : Prop :=
    match r with
    | RBranch b | RTag b => lacks c_hash b = true /\ lacks c_lpar b = true /\ hd_ok b = true
    | RRev x => x = commit
    | RDefault => True
    end.
  Definition wf_ns (ns : namespace) : Prop :=
    match ns with
    | NsFlat => True
    | NsDomain d => d <> [] /\ lacks c_bang d = true /\ lacks c_hash d = true /\ lacks c_lpar d = true
                    /\ last_graphic d = true
    end.
  Definition wf_src_syn (p : pinned) : Prop :=
    match p with
    | PMember => True
    | PPath v => (v < 2 ^ 64)%N
    | PGit u r c =>
      parse_url (show_url u) = Some u /\ lacks c_qm (show_url u) = true /\ lacks c_lpar (show_url u) = true
      /\ hd_ok (show_url u) = true /\ validate_commit c = true /\ wf_ref r c
    | PIpfs c =>
      parse_cid (show_cid c) = Some c /\ lacks c_lpar (show_cid c) = true /\ hd_ok (show_cid c) = true
      /\ last_graphic (show_cid c) = true
    | PReg n v c ns =>
      lacks c_qm n = true /\ lacks c_lpar n = true /\ hd_ok n = true
      /\ parse_ver (show_ver v) = Some v /\ lacks c_hash (show_ver v) = true /\ lacks c_lpar (show_ver v) = true
      /\ hd_ok (show_ver v) = true
      /\ parse_cid (show_cid c) = Some c /\ validate_cid (show_cid c) = true
      /\ lacks c_hash (show_cid c) = true /\ lacks c_bang (show_cid c) = true /\ lacks c_lpar (show_cid c) = true
      /\ wf_ns ns
    end.

  Definition wf_edge (n : nat) (e : gedge) : Prop :=
    ge_from e < n /\ ge_to e < n /\
    lacks c_rpar (ge_name e) = true /\ hd_ok (ge_name e) = true /\
    match ge_kind e with Lib => True | Contract s => (s < 2 ^ 256)%N end.

  Definition wf_graph (g : graph) : Prop :=
    Forall (fun n => wf_nameb (gn_name n) = true /\ wf_src (gn_src n)) (g_nodes g) /\
    NoDup (g_nodes g) /\                                        (* packages pairwise distinct *)
    Forall (wf_edge (length (g_nodes g))) (g_edges g) /\
    NoDup (map (fun e => (ge_from e, ge_to e)) (g_edges g)).    (* simple digraph (update_edge) *)
End Spec.
