(* C20/SrcProofs.v — Display then FromStr of a pinned source is the identity, per kind,
   under the syntactic conditions of Spec.wf_src_syn. *)
From SwayV Require Import Base.Util C21.Str C21.Model C20.Model C20.Spec C20.StrLemmas.
Require Import ZifyBool ZifyN.

Arguments N.add : simpl never. Arguments N.sub : simpl never. Arguments N.mul : simpl never.
Arguments N.div : simpl never. Arguments N.modulo : simpl never. Arguments N.pow : simpl never.
Arguments N.eqb : simpl never. Arguments N.ltb : simpl never. Arguments N.leb : simpl never.

Lemma hd_ok_app a b : hd_ok a = true -> hd_ok b = true -> hd_ok (a ++ b) = true.
Proof. destruct a; cbn; auto. Qed.

Lemma last_graphic_forall l : l <> [] -> forallb graphic l = true -> last_graphic l = true.
Proof.
  intros Hne H. unfold last_graphic. destruct (rev l) as [|b r] eqn:E.
  - exfalso. apply Hne. rewrite <- (rev_involutive l), E. reflexivity.
  - rewrite forallb_forall in H. apply H. apply in_rev. rewrite E. left. reflexivity.
Qed.

Lemma alnum_graphic b : is_ascii_alnum b = true -> graphic b = true.
Proof. unfold is_ascii_alnum, graphic. lia. Qed.
Lemma alnum_not c b : (c < 48)%N -> is_ascii_alnum b = true -> negb (b =? c)%N = true.
Proof. unfold is_ascii_alnum. lia. Qed.
Lemma upper_hex_graphic b : upper_hex_byte b = true -> graphic b = true.
Proof. unfold upper_hex_byte, graphic. lia. Qed.
Lemma lower_hex_graphic b : lower_hex_byte b = true -> graphic b = true.
Proof. unfold lower_hex_byte, graphic. lia. Qed.

Lemma parse_u64_hex_show k v :
  parse_u64_hex (show_hex hex_upper (S (S k)) v) = hex_digits_u64 (show_hex hex_upper (S (S k)) v) 0.
Proof.
  pose proof (show_hex_upper_bytes (S (S k)) v) as H.
  remember (S k) as k1. cbn [show_hex] in *. cbn [forallb] in H. apply andb_prop in H. destruct H as [Hb _].
  subst k1. cbn [show_hex]. cbn [parse_u64_hex].
  match goal with |- (if (?b =? 43)%N then _ else _) = _ => replace (b =? 43)%N with false end; [reflexivity|].
  unfold upper_hex_byte in Hb. lia.
Qed.

Lemma validate_commit_bytes c : validate_commit c = true -> c <> [] /\ forallb is_ascii_alnum c = true.
Proof.
  unfold validate_commit. intros H. apply andb_prop in H. destruct H as [H1 H2]. split; [|exact H2].
  intros ->. discriminate.
Qed.

Section Src.
  Variables url cid ver : Type.
  Variable show_url : url -> str.
  Variable show_cid : cid -> str.
  Variable show_ver : ver -> str.
  Variable parse_url : str -> option url.
  Variable parse_cid : str -> option cid.
  Variable parse_ver : str -> option ver.
  Notation pinned := (pinned url cid ver).
  Notation show_pinned := (show_pinned url cid ver show_url show_cid show_ver).
  Notation parse_pinned := (parse_pinned url cid ver parse_url parse_cid parse_ver).
  Notation wf_src := (wf_src url cid ver show_url show_cid show_ver parse_url parse_cid parse_ver).
  Notation wf_src_syn := (wf_src_syn url cid ver show_url show_cid show_ver parse_url parse_cid parse_ver).

  Lemma skip_path s k : trim s = s -> starts_with s_path_plus s = false ->
    or_else (r <- parse_path s ;; Ok (PPath r)) k = (k : outcome pinned).
  Proof.
    intros Ht Hs. unfold parse_path. rewrite Ht, strip_checked_mismatch by exact Hs. reflexivity.
  Qed.
  Lemma skip_git s k : trim s = s -> starts_with s_git_plus s = false ->
    or_else (parse_git url cid ver parse_url s) k = k.
  Proof.
    intros Ht Hs. unfold parse_git, git_head. rewrite Ht, strip_checked_mismatch by exact Hs. reflexivity.
  Qed.
  Lemma skip_ipfs s k : trim s = s -> starts_with s_ipfs_plus s = false ->
    or_else (parse_ipfs url cid ver parse_cid s) k = k.
  Proof.
    intros Ht Hs. unfold parse_ipfs, ipfs_head. rewrite Ht, strip_checked_mismatch by exact Hs. reflexivity.
  Qed.

  (* ---- path ---- *)
  Lemma rt_path v : (v < 2 ^ 64)%N -> wf_src (PPath v).
  Proof.
    intros Hv. set (H := show_pinned_id v).
    assert (HH : forallb upper_hex_byte H = true) by apply show_hex_upper_bytes.
    assert (Hlen : length H = 16) by apply show_hex_length.
    assert (Hne : H <> []) by (intros E; rewrite E in Hlen; discriminate).
    assert (Hlg : last_graphic H = true).
    { apply last_graphic_forall; [exact Hne|]. eapply forallb_impl; [|exact HH]. apply upper_hex_graphic. }
    assert (Hshow : show_pinned (PPath v) = s_path_plus ++ (s_from_root ++ H)) by reflexivity.
    assert (Hl : last_graphic (show_pinned (PPath v)) = true).
    { rewrite Hshow, app_assoc. rewrite last_graphic_app by exact Hne. exact Hlg. }
    assert (Ht : trim (show_pinned (PPath v)) = show_pinned (PPath v)).
    { apply trim_id; [reflexivity|exact Hl]. }
    split; [|split; [|exact Hl]].
    - unfold Model.parse_pinned.
      replace (str_eqb (show_pinned (PPath v)) s_root || str_eqb (show_pinned (PPath v)) s_member) with false
        by reflexivity.
      unfold parse_path. rewrite Ht, Hshow.
      rewrite strip_checked_app by (try discriminate; reflexivity). cbn [obind].
      unfold split_str_nth1.
      rewrite (find_starts _ _ (starts_with_app s_from_root H)). cbn [Nat.add].
      rewrite skipn_app_len.
      replace (find s_from_root H) with (@None nat).
      2:{ symmetry. unfold s_from_root. apply find_none_hd. eapply forallb_impl; [|exact HH].
          intros b Hb. unfold upper_hex_byte in Hb. lia. }
      unfold H, show_pinned_id. change 16 with (S (S 14)). rewrite parse_u64_hex_show.
      rewrite hex_digits_u64_show.
      + cbn [or_else obind]. f_equal. f_equal. rewrite N.mul_0_l, N.add_0_l.
        apply N.mod_small. exact Hv.
      + apply hex_val_upper.
      + rewrite N.mul_0_l, N.add_0_l. change (16 ^ N.of_nat (S (S 14)))%N with 18446744073709551616%N.
        apply N.mod_lt. discriminate.
    - rewrite Hshow. rewrite !lacks_app. replace (lacks c_lpar s_path_plus) with true by reflexivity.
      replace (lacks c_lpar s_from_root) with true by reflexivity. cbn [andb].
      eapply forallb_impl; [|exact HH]. intros b Hb. unfold upper_hex_byte in Hb. unfold c_lpar. lia.
  Qed.

  (* ---- git ---- *)
  Lemma show_reference_props r c : wf_ref r c ->
    hd_ok (show_reference r) = true /\ lacks c_hash (show_reference r) = true /\
    lacks c_lpar (show_reference r) = true /\ parse_reference (show_reference r) c = Ok r.
  Proof.
    destruct r as [b|t|x|]; cbn [wf_ref show_reference].
    - intros [H1 [H2 H3]]. repeat split; try reflexivity.
      + rewrite lacks_app, H1. reflexivity.
      + rewrite lacks_app, H2. reflexivity.
      + unfold parse_reference.
        rewrite (find_starts _ _ (starts_with_app s_branch_eq b)).
        rewrite slice_from_app by (try discriminate; exact H3). reflexivity.
    - intros [H1 [H2 H3]]. repeat split; try reflexivity.
      + rewrite lacks_app, H1. reflexivity.
      + rewrite lacks_app, H2. reflexivity.
      + unfold parse_reference.
        pose proof (find_not0 s_branch_eq (s_tag_eq ++ t) eq_refl) as Hn.
        destruct (find s_branch_eq (s_tag_eq ++ t)) as [[|n]|]; [contradiction| |];
          rewrite (find_starts _ _ (starts_with_app s_tag_eq t));
          rewrite slice_from_app by (try discriminate; exact H3); reflexivity.
    - intros ->. repeat split; reflexivity.
    - intros _. repeat split; reflexivity.
  Qed.

  Lemma rt_git u r c : wf_src_syn (PGit u r c) -> wf_src (PGit u r c).
  Proof.
    cbn [Spec.wf_src_syn]. intros [Hpu [Hq [Hlp [Hhd [Hvc Hr]]]]].
    destruct (show_reference_props r c Hr) as [Rhd [Rhash [Rlp Rparse]]].
    destruct (validate_commit_bytes c Hvc) as [Cne Calnum].
    set (U := show_url u) in *. set (R := show_reference r) in *.
    assert (Hshow : show_pinned (PGit u r c) = s_git_plus ++ (U ++ c_qm :: (R ++ c_hash :: c))).
    { cbn [Model.show_pinned]. fold U R. rewrite <- ?app_assoc. reflexivity. }
    assert (Hl : last_graphic (show_pinned (PGit u r c)) = true).
    { rewrite Hshow.
      replace (s_git_plus ++ U ++ c_qm :: R ++ c_hash :: c) with ((s_git_plus ++ U ++ c_qm :: R ++ [c_hash]) ++ c)
        by (rewrite <- ?app_assoc; cbn [app]; rewrite <- ?app_assoc; reflexivity).
      rewrite last_graphic_app by exact Cne. apply last_graphic_forall; [exact Cne|].
      eapply forallb_impl; [|exact Calnum]. apply alnum_graphic. }
    assert (Ht : trim (show_pinned (PGit u r c)) = show_pinned (PGit u r c)).
    { apply trim_id; [rewrite Hshow; reflexivity|exact Hl]. }
    split; [|split; [|exact Hl]].
    - unfold Model.parse_pinned. rewrite Hshow in *.
      replace (str_eqb _ s_root || str_eqb _ s_member) with false by reflexivity.
      rewrite skip_path by (try exact Ht; reflexivity).
      unfold parse_git, git_head. rewrite Ht.
      rewrite strip_checked_app.
      2: discriminate.
      2:{ apply hd_ok_app; [exact Hhd|reflexivity]. }
      cbn [obind fst snd]. rewrite split_c_app by exact Hq. cbn [fst]. rewrite Hpu.
      replace (U ++ c_qm :: R ++ c_hash :: c) with ((U ++ [c_qm]) ++ (R ++ c_hash :: c))
        by (rewrite <- app_assoc; reflexivity).
      replace (length U + 1) with (length (U ++ [c_qm])) by (rewrite app_length; reflexivity).
      rewrite get_from_app.
      2:{ destruct U; discriminate. }
      2:{ apply hd_ok_app; [exact Rhd|reflexivity]. }
      unfold git_tail. rewrite split_c_app by exact Rhash.
      rewrite split_c_lacks.
      2:{ eapply forallb_impl; [|exact Calnum]. intros b0 Hb0; apply alnum_not; [reflexivity|exact Hb0]. }
      cbn [fst snd]. rewrite Hvc, Rparse. reflexivity.
    - rewrite Hshow. rewrite lacks_app. replace (lacks c_lpar s_git_plus) with true by reflexivity.
      rewrite lacks_app, Hlp. cbn [andb]. change (c_qm :: R ++ c_hash :: c) with ([c_qm] ++ R ++ [c_hash] ++ c).
      rewrite !lacks_app, Rlp. replace (lacks c_lpar [c_qm]) with true by reflexivity.
      replace (lacks c_lpar [c_hash]) with true by reflexivity. cbn [andb].
      eapply forallb_impl; [|exact Calnum]. intros b0 Hb0; apply alnum_not; [reflexivity|exact Hb0].
  Qed.

  (* ---- ipfs ---- *)
  Lemma rt_ipfs c : wf_src_syn (PIpfs c) -> wf_src (PIpfs c).
  Proof.
    cbn [Spec.wf_src_syn]. intros [Hpc [Hlp [Hhd Hlg]]].
    set (C := show_cid c) in *.
    assert (Cne : C <> []) by (intros E; rewrite E in Hlg; discriminate).
    assert (Hshow : show_pinned (PIpfs c) = s_ipfs_plus ++ C) by reflexivity.
    assert (Hl : last_graphic (show_pinned (PIpfs c)) = true).
    { rewrite Hshow, last_graphic_app by exact Cne. exact Hlg. }
    assert (Ht : trim (show_pinned (PIpfs c)) = show_pinned (PIpfs c)).
    { apply trim_id; [reflexivity|exact Hl]. }
    split; [|split; [|exact Hl]].
    - unfold Model.parse_pinned. rewrite Hshow in *.
      replace (str_eqb _ s_root || str_eqb _ s_member) with false by reflexivity.
      rewrite skip_path by (try exact Ht; reflexivity).
      rewrite skip_git by (try exact Ht; reflexivity).
      unfold parse_ipfs, ipfs_head. rewrite Ht.
      rewrite strip_checked_app by (try discriminate; exact Hhd). cbn [obind]. rewrite Hpc. reflexivity.
    - rewrite Hshow, lacks_app, Hlp. reflexivity.
  Qed.

  (* ---- registry ---- *)
  Lemma rt_reg n v c ns : wf_src_syn (PReg n v c ns) -> wf_src (PReg n v c ns).
  Proof.
    cbn [Spec.wf_src_syn].
    intros [Nq [Nlp [Nhd [Hpv [Vh [Vlp [Vhd [Hpc [Hvc [Ch [Cb [Clp Hns]]]]]]]]]]]].
    set (V := show_ver v) in *. set (C := show_cid c) in *. set (NS := show_ns ns).
    assert (HNS : lacks c_bang NS = true /\ lacks c_hash NS = true /\ lacks c_lpar NS = true /\
                  (NS = [] \/ last_graphic NS = true) /\
                  (match (if is_nil NS then NsFlat else NsDomain NS) with x => x end) = ns).
    { unfold NS. destruct ns as [|d]; cbn [show_ns Spec.wf_ns] in *.
      - repeat split; auto.
      - destruct Hns as [Dne [D1 [D2 [D3 D4]]]]. repeat split; auto.
        destruct d; [contradiction|reflexivity]. }
    destruct HNS as [NSb [NSh [NSlp [NSlast NSeq]]]].
    assert (Hshow : show_pinned (PReg n v c ns)
                    = s_registry_plus ++ (n ++ c_qm :: (V ++ c_hash :: (C ++ c_bang :: NS)))).
    { cbn [Model.show_pinned]. fold V C NS. rewrite <- ?app_assoc. reflexivity. }
    assert (Hl : last_graphic (show_pinned (PReg n v c ns)) = true).
    { rewrite Hshow.
      replace (s_registry_plus ++ n ++ c_qm :: V ++ c_hash :: C ++ c_bang :: NS)
        with ((s_registry_plus ++ n ++ c_qm :: V ++ c_hash :: C) ++ (c_bang :: NS)).
      2:{ rewrite <- ?app_assoc. cbn [app]. rewrite <- ?app_assoc. cbn [app]. rewrite <- ?app_assoc. reflexivity. }
      rewrite last_graphic_app by discriminate.
      destruct NSlast as [->|Hlg]; [reflexivity|].
      destruct NS as [|x NS']; [discriminate|].
      rewrite last_graphic_cons by discriminate. exact Hlg. }
    assert (Ht : trim (show_pinned (PReg n v c ns)) = show_pinned (PReg n v c ns)).
    { apply trim_id; [rewrite Hshow; reflexivity|exact Hl]. }
    split; [|split; [|exact Hl]].
    - unfold Model.parse_pinned. rewrite Hshow in *.
      replace (str_eqb _ s_root || str_eqb _ s_member) with false by reflexivity.
      rewrite skip_path by (try exact Ht; reflexivity).
      rewrite skip_git by (try exact Ht; reflexivity).
      rewrite skip_ipfs by (try exact Ht; reflexivity).
      unfold parse_reg, reg_head. rewrite Ht.
      rewrite strip_checked_app.
      2: discriminate.
      2:{ apply hd_ok_app; [exact Nhd|reflexivity]. }
      cbn [obind]. rewrite split_c_app by exact Nq. cbn [fst].
      replace (n ++ c_qm :: V ++ c_hash :: C ++ c_bang :: NS)
        with ((n ++ [c_qm]) ++ (V ++ c_hash :: C ++ c_bang :: NS)) by (rewrite <- app_assoc; reflexivity).
      replace (length n + 1) with (length (n ++ [c_qm])) by (rewrite app_length; reflexivity).
      rewrite get_from_app.
      2:{ destruct n; discriminate. }
      2:{ apply hd_ok_app; [exact Vhd|reflexivity]. }
      rewrite split_c_app by exact Vh.
      rewrite (split_c_lacks c_hash (C ++ c_bang :: NS)).
      2:{ change (c_bang :: NS) with ([c_bang] ++ NS). rewrite !lacks_app, Ch, NSh. reflexivity. }
      cbn [fst snd obind]. unfold reg_tail. rewrite Hpv. unfold reg_cid_str.
      rewrite split_c_app by exact Cb. rewrite (split_c_lacks c_bang NS NSb). cbn [fst snd].
      rewrite Hvc, Hpc. cbn [or_else]. f_equal. f_equal. exact NSeq.
    - rewrite Hshow.
      change (c_qm :: V ++ c_hash :: C ++ c_bang :: NS) with ([c_qm] ++ V ++ [c_hash] ++ C ++ [c_bang] ++ NS).
      rewrite !lacks_app, Nlp, Vlp, Clp, NSlp. reflexivity.
  Qed.

  Lemma rt_member : wf_src PMember.
  Proof. repeat split; reflexivity. Qed.

  Theorem wf_src_of_syn p : wf_src_syn p -> wf_src p.
  Proof.
    destruct p as [|v|u r c|c|n v c ns]; intros H.
    - apply rt_member.
    - apply rt_path. exact H.
    - apply rt_git. exact H.
    - apply rt_ipfs. exact H.
    - apply rt_reg. exact H.
  Qed.

  (* distinct well-formed sources have distinct source strings *)
  Lemma show_pinned_inj p q : wf_src p -> wf_src q -> show_pinned p = show_pinned q -> p = q.
  Proof.
    intros [Hp _] [Hq _] E. rewrite E in Hp. rewrite Hp in Hq. injection Hq as ->. reflexivity.
  Qed.
End Src.
