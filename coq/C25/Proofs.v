(* C25 — lemmas: list updates, exec inversion, liveness monotonicity, stale flags are reported clear. *)
From SwayV Require Import Base.Util C25.Model C25.Spec.

(* ---------- set_nth *)
Lemma length_set_nth A (l : list A) i x : length (set_nth l i x) = length l.
Proof. revert i; induction l as [|h t IH]; intros [|i]; cbn; auto. Qed.

Lemma nth_error_set_nth_eq A (l : list A) i x :
  i < length l -> nth_error (set_nth l i x) i = Some x.
Proof.
  revert i; induction l as [|h t IH]; intros [|i] H; cbn in *; try lia; auto.
  apply IH; lia.
Qed.

Lemma nth_error_set_nth_neq A (l : list A) i j x :
  i <> j -> nth_error (set_nth l i x) j = nth_error l j.
Proof.
  revert i j; induction l as [|h t IH]; intros [|i] [|j] H; cbn; auto; try congruence.
Qed.

Lemma nth_set_nth_eq A (l : list A) i x d : i < length l -> nth i (set_nth l i x) d = x.
Proof.
  revert i; induction l as [|h t IH]; intros [|i] H; cbn in *; try lia; auto. apply IH; lia.
Qed.

Lemma nth_set_nth_neq A (l : list A) i j x d : i <> j -> nth j (set_nth l i x) d = nth j l d.
Proof.
  revert i j; induction l as [|h t IH]; intros [|i] [|j] H; cbn; auto; try congruence.
Qed.

Lemma nth_error_lt A (l : list A) i c : nth_error l i = Some c -> i < length l.
Proof. intros H. apply nth_error_Some. congruence. Qed.

(* ---------- exec inversion *)
Inductive exec_spec (s : state) (q : nat) : act -> state -> option event -> Prop :=
| ES_start o :
    nth_error (procs s) q = Some Idle ->
    exec_spec s q (AStart o) {| fs := fs s; procs := set_nth (procs s) q (entry o) |} None
| ES_crash c :
    nth_error (procs s) q = Some c -> c <> Dead ->
    exec_spec s q ACrash {| fs := fs s; procs := set_nth (procs s) q Dead |} None
| ES_step c f' c' ev :
    nth_error (procs s) q = Some c -> c <> Idle -> c <> Dead ->
    sys_step q (alive s) (fs s) c = (f', (c', ev)) ->
    exec_spec s q AStep {| fs := f'; procs := set_nth (procs s) q c' |} ev.

Lemma exec_inv s q a s' ev : exec s (q, a) = Some (s', ev) -> exec_spec s q a s' ev.
Proof.
  unfold exec. cbn [fst snd]. destruct (nth_error (procs s) q) as [c|] eqn:Hc; [|discriminate].
  destruct a as [o| |].
  - destruct c; cbn; try discriminate. intros H; inversion H; subst. constructor; auto.
  - destruct (sys_step q (alive s) (fs s) c) as [f' [c' ev']] eqn:Hs.
    destruct c; try discriminate; intros H; inversion H; subst;
      (eapply ES_step; [exact Hc | discriminate | discriminate | exact Hs]).
  - destruct c; cbn; try discriminate; intros H; inversion H; subst;
      (eapply ES_crash; [exact Hc | discriminate]).
Qed.

(* ---------- sys_step case analysis *)
Ltac destr_in H :=
  repeat match type of H with
         | context [match ?x with _ => _ end] => destruct x eqn:?
         | context [if ?x then _ else _] => destruct x eqn:?
         end.

Ltac step_inv H :=
  unfold sys_step, get_ret in H; destr_in H;
  inversion H; subst; clear H.

Lemma sys_step_not_dead q al f c f' c' ev :
  c <> Dead -> sys_step q al f c = (f', (c', ev)) -> c' <> Dead.
Proof. intros Hd H. destruct c; try congruence; step_inv H; discriminate. Qed.

(* ---------- liveness *)
Lemma alive_in_set ps q c c' d :
  nth_error ps q = Some c ->
  alive_in (set_nth ps q c') d = if Nat.eqb d q then negb (pc_is_dead c') else alive_in ps d.
Proof.
  intros Hq. unfold alive_in. destruct (Nat.eqb_spec d q) as [->|Hn].
  - rewrite nth_error_set_nth_eq by (eapply nth_error_lt; eauto). destruct c'; reflexivity.
  - rewrite nth_error_set_nth_neq by congruence. reflexivity.
Qed.

Lemma alive_of_pc s q c : nth_error (procs s) q = Some c -> alive s q = negb (pc_is_dead c).
Proof. intros H. unfold alive, alive_in. rewrite H. destruct c; reflexivity. Qed.

(* Start and Step do not change liveness; Crash kills exactly the actor. *)
Lemma alive_exec s q a s' ev d :
  exec_spec s q a s' ev ->
  alive s' d = if (match a with ACrash => Nat.eqb d q | _ => false end) then false else alive s d.
Proof.
  intros H. inversion H; subst; unfold alive; cbn [procs].
  - erewrite alive_in_set by eauto. destruct (Nat.eqb_spec d q) as [->|]; auto.
    fold (alive s q). erewrite alive_of_pc by eauto. destruct o; reflexivity.
  - erewrite alive_in_set by eauto. destruct (Nat.eqb d q); reflexivity.
  - erewrite alive_in_set by eauto. destruct (Nat.eqb_spec d q) as [->|]; auto.
    fold (alive s q). erewrite alive_of_pc by eauto.
    assert (c' <> Dead) by (eapply sys_step_not_dead; eauto).
    destruct c, c'; try congruence; reflexivity.
Qed.

Lemma dead_mono s q a s' ev d : exec_spec s q a s' ev -> alive s d = false -> alive s' d = false.
Proof.
  intros H Hd. rewrite (alive_exec _ _ _ _ _ d H). destruct a; auto. destruct (Nat.eqb d q); auto.
Qed.

(* ---------- a returned owner was alive at the liveness query of that very step *)
Lemma ret_get_alive q al f c f' c' q' d :
  sys_step q al f c = (f', (c', Some (ERet q' OGet (ROpt (Some d))))) -> al d = true.
Proof. intros H. destruct c; step_inv H; auto. Qed.

Lemma ret_locked_alive q al f c f' c' q' :
  sys_step q al f c = (f', (c', Some (ERet q' OIsLocked (RBool true)))) ->
  exists d, d <> q /\ al d = true.
Proof.
  intros H. destruct c; step_inv H; cbn in *; try discriminate.
  match goal with Hn : negb (Nat.eqb ?d ?x) = true |- _ =>
    exists d; destruct (Nat.eqb_spec d x); cbn in *; try discriminate; split; auto; congruence end.
Qed.

Lemma ev_only_step s q a s' ev e : exec_spec s q a s' ev -> ev = Some e -> a = AStep.
Proof. intros H E. inversion H; subst; auto; discriminate. Qed.

(* C25_stale_eventually_clear, first half: once d is dead, no get_locker_pid reports d. *)
Lemma stale_get_never_reported : forall sched s d,
  alive s d = false ->
  forall l s' ev, In (l, s', ev) (trace s sched) ->
  forall q, ev <> Some (ERet q OGet (ROpt (Some d))).
Proof.
  induction sched as [|[p a] r IH]; intros s d Hd l s' ev Hin q; cbn in Hin; [contradiction|].
  destruct (exec s (p, a)) as [[s1 ev1]|] eqn:He.
  - apply exec_inv in He. destruct Hin as [Heq|Hin].
    + inversion Heq; subst. intros Hev. subst ev.
      inversion He; subst; try discriminate.
      match goal with Hs : sys_step _ _ _ _ = _ |- _ => apply ret_get_alive in Hs end. congruence.
    + eapply (IH s1 d); [eapply dead_mono; eauto | exact Hin].
  - eapply (IH s d); eauto.
Qed.

(* second half: if every process other than q is dead, q's is_locked answers false. *)
Lemma stale_is_locked_false : forall sched s q,
  (forall p, p <> q -> alive s p = false) ->
  forall l s' q' b, In (l, s', Some (ERet q' OIsLocked (RBool b))) (trace s sched) -> q' = q -> b = false.
Proof.
  induction sched as [|[p a] r IH]; intros s q Hd l s' q' b Hin Hq; cbn in Hin; [contradiction|].
  destruct (exec s (p, a)) as [[s1 ev1]|] eqn:He.
  - apply exec_inv in He. destruct Hin as [Heq|Hin].
    + inversion Heq; subst. destruct b; auto.
      inversion He; subst.
      match goal with Hs : sys_step _ _ _ _ = _ |- _ =>
        pose proof Hs as Hs2; apply ret_locked_alive in Hs as [d [Hne Hal]] end.
      assert (p = q).
      { destruct c; step_inv Hs2; reflexivity. }
      subst. rewrite Hd in Hal by auto. discriminate.
    + eapply (IH s1 q); [intros p0 Hp0; eapply dead_mono; eauto | exact Hin | exact Hq].
  - eapply (IH s q); eauto.
Qed.

(* events carry the actor *)
Lemma sys_step_ev_actor q al f c f' c' q' o r :
  sys_step q al f c = (f', (c', Some (ERet q' o r))) -> q' = q.
Proof. intros H. destruct c; step_inv H; reflexivity. Qed.
