(* C25 — lock/release refuse while another live process' flag is physically present;
   a stale flag is physically removed by a complete get_locker_pid / cleanup. *)
From SwayV Require Import Base.Util C25.Model C25.Spec C25.Proofs C25.Safety.

Definition flag_of (s : state) (p : nat) : Prop := phys (fs s) p /\ alive s p = true.

Definition J (f : fsys) (p : nat) (c : pc) : Prop :=
  match c with
  | RUnlink _ | LCreate | LWrite _ | GUnlink (KRel1 _) => False
  | GRead (KRel1 _) fd => bind f = Some fd
  | GPs (KRel1 _) d => d = p
  | _ => True
  end.

Lemma J_step_self q al f c f' c' ev p :
  p <> q -> phys f p -> al p = true -> J f p c ->
  sys_step q al f c = (f', (c', ev)) ->
  J f' p c' /\ (forall q' o r, ev = Some (ERet q' o r) -> o = OLock \/ o = ORelease -> r = RErr).
Proof.
  intros N P A Jc H.
  assert (LB : locked_by_other q (Some p) = true).
  { cbn. apply Bool.negb_true_iff, Nat.eqb_neq. auto. }
  destruct c; try (destruct k); cbn [J] in Jc; try contradiction; subst; step_inv H; cbn [J].
  all: try (split; [first [exact I | assumption | reflexivity] |
                    intros ? ? ? E [-> | ->]; inversion E; subst; auto; discriminate]).
  all: try (exfalso; phys_contra; fail).
  all: try congruence.
  all: try (phys_contra; fail).
  split; [|intros; discriminate]. match goal with Hp : parse _ = Some _ |- _ => apply parse_some in Hp end. phys_contra.
Qed.

Lemma bind_stable q al f c f' c' ev i i' :
  sys_step q al f c = (f', (c', ev)) -> bind f = Some i -> bind f' = Some i' -> i = i'.
Proof.
  intros H B B'. destruct c; step_inv H; cbn [bind unbind set_inode] in *; congruence.
Qed.

Lemma lock_refuses_aux : forall sched s p q,
  p <> q -> flag_of s p ->
  (exists c, nth_error (procs s) q = Some c /\ J (fs s) p c) ->
  (forall l s' ev, In (l, s', ev) (trace s sched) -> flag_of s' p) ->
  forall l s' r o, In (l, s', Some (ERet q o r)) (trace s sched) -> o = OLock \/ o = ORelease -> r = RErr.
Proof.
  induction sched as [|[a act] rest IH]; intros s p q N F (c & Hc & Jc) T l s' r o Hin Ho;
    cbn in Hin; [contradiction|].
  cbn in T. destruct (exec s (a, act)) as [[s1 ev1]|] eqn:He.
  2:{ eapply (IH s p q); eauto. }
  apply exec_inv in He.
  assert (F1 : flag_of s1 p) by (eapply T; left; reflexivity).
  assert (T1 : forall l0 s0 ev0, In (l0, s0, ev0) (trace s1 rest) -> flag_of s0 p)
    by (intros; eapply T; right; eauto).
  destruct F as [P A].
  (* the invariant after the step, and the verdict on this step's event *)
  assert (KEY : (exists c1, nth_error (procs s1) q = Some c1 /\ J (fs s1) p c1) /\
                (forall q' o' r', a = q -> ev1 = Some (ERet q' o' r') -> o' = OLock \/ o' = ORelease -> r' = RErr)).
  { inversion He; subst; cbn [fs procs].
    - split; [|intros; discriminate]. destruct (Nat.eq_dec a q) as [->|Hn].
      + exists (entry o0). split; [apply nth_error_set_nth_eq; eapply nth_error_lt; eauto|].
        destruct o0; exact I.
      + exists c. rewrite nth_error_set_nth_neq by auto. auto.
    - split; [|intros; discriminate]. destruct (Nat.eq_dec a q) as [->|Hn].
      + exists Dead. split; [apply nth_error_set_nth_eq; eapply nth_error_lt; eauto | exact I].
      + exists c. rewrite nth_error_set_nth_neq by auto. auto.
    - destruct (Nat.eq_dec a q) as [->|Hn].
      + assert (c0 = c) by congruence. subst c0.
        destruct (J_step_self _ _ _ _ _ _ _ p N P A Jc H2) as [J1 EV].
        split; [|intros; eapply EV; eauto].
        exists c'. split; [apply nth_error_set_nth_eq; eapply nth_error_lt; eauto | exact J1].
      + split; [|intros; congruence]. exists c. rewrite nth_error_set_nth_neq by auto. split; auto.
        destruct F1 as [(i' & B' & _) _]. cbn [fs] in B'.
        destruct c; try (destruct k); cbn [J] in *; auto.
        assert (fd = i') by (eapply bind_stable; eauto). congruence. }
  destruct KEY as [INV EV].
  destruct Hin as [Heq|Hin].
  - inversion Heq; subst. inversion He; subst; try discriminate.
    assert (a = q) by (eapply eq_sym, sys_step_ev_actor; eauto). eapply EV; eauto.
  - eapply (IH s1 p q); eauto.
Qed.

(* ---------- solo runs: a dead owner's flag is physically removed *)
Lemma exec_start s q o :
  nth_error (procs s) q = Some Idle ->
  exec s (q, AStart o) = Some ({| fs := fs s; procs := set_nth (procs s) q (entry o) |}, None).
Proof. intros H. unfold exec; cbn [fst snd]. rewrite H. reflexivity. Qed.

Lemma exec_step s q c f' c' ev :
  nth_error (procs s) q = Some c -> c <> Idle -> c <> Dead ->
  sys_step q (alive s) (fs s) c = (f', (c', ev)) ->
  exec s (q, AStep) = Some ({| fs := f'; procs := set_nth (procs s) q c' |}, ev).
Proof.
  intros H N1 N2 Hs. unfold exec; cbn [fst snd]. rewrite H. rewrite Hs.
  destruct c; try congruence; reflexivity.
Qed.

Definition solo (q : nat) (o : op) (n : nat) : list label := (q, AStart o) :: repeat (q, AStep) n.

Lemma set_nth_set_nth A (l : list A) i x y : set_nth (set_nth l i x) i y = set_nth l i y.
Proof. revert i; induction l as [|h t IH]; intros [|i]; cbn; auto. rewrite IH. reflexivity. Qed.

Lemma stale_removed_by_get s q d i :
  nth_error (procs s) q = Some Idle ->
  bind (fs s) = Some i -> lookup (fs s) i = CPid d -> alive s d = false ->
  map (fun x => snd x) (trace s (solo q OGet 4)) =
    [None; None; None; None; Some (ERet q OGet (ROpt None))] /\
  bind (fs (run s (solo q OGet 4))) = None.
Proof.
  intros Hq B L D.
  assert (Lq : q < length (procs s)) by (eapply nth_error_lt; eauto).
  assert (AQ : forall c, c <> Dead -> forall f, alive {| fs := f; procs := set_nth (procs s) q c |} d = false).
  { intros c Hc f. unfold alive; cbn [procs]. erewrite alive_in_set by eauto.
    destruct (Nat.eqb_spec d q) as [->|]; auto.
    erewrite alive_of_pc in D by eauto. discriminate. }
  unfold solo. cbn [repeat trace run].
  rewrite (exec_start _ _ _ Hq).
  set (s1 := {| fs := fs s; procs := set_nth (procs s) q (entry OGet) |}).
  assert (E1 : exec s1 (q, AStep) = Some ({| fs := fs s; procs := set_nth (procs s) q (GRead KGet i) |}, None)).
  { erewrite exec_step; [| apply nth_error_set_nth_eq; exact Lq | discriminate | discriminate |
                          cbn [s1 fs entry sys_step]; rewrite B; reflexivity].
    cbn [s1 procs]. rewrite set_nth_set_nth. reflexivity. }
  rewrite E1. clear E1.
  set (s2 := {| fs := fs s; procs := set_nth (procs s) q (GRead KGet i) |}).
  assert (E2 : exec s2 (q, AStep) = Some ({| fs := fs s; procs := set_nth (procs s) q (GPs KGet d) |}, None)).
  { erewrite exec_step; [| apply nth_error_set_nth_eq; exact Lq | discriminate | discriminate |
                          cbn [s2 fs sys_step]; rewrite L; cbn [parse]; reflexivity].
    cbn [s2 procs]. rewrite set_nth_set_nth. reflexivity. }
  rewrite E2. clear E2.
  set (s3 := {| fs := fs s; procs := set_nth (procs s) q (GPs KGet d) |}).
  assert (E3 : exec s3 (q, AStep) = Some ({| fs := fs s; procs := set_nth (procs s) q (GUnlink KGet) |}, None)).
  { erewrite exec_step; [| apply nth_error_set_nth_eq; exact Lq | discriminate | discriminate |
                          cbn [s3 fs sys_step]; unfold s3; rewrite AQ by discriminate; reflexivity].
    cbn [s3 procs]. rewrite set_nth_set_nth. reflexivity. }
  rewrite E3. clear E3.
  set (s4 := {| fs := fs s; procs := set_nth (procs s) q (GUnlink KGet) |}).
  assert (E4 : exec s4 (q, AStep) = Some ({| fs := unbind (fs s); procs := set_nth (procs s) q Idle |},
                                          Some (ERet q OGet (ROpt None)))).
  { erewrite exec_step; [| apply nth_error_set_nth_eq; exact Lq | discriminate | discriminate |
                          cbn [s4 fs sys_step get_ret]; reflexivity].
    cbn [s4 procs]. rewrite set_nth_set_nth. reflexivity. }
  rewrite E4. clear E4. cbn. split; reflexivity.
Qed.
