(* C25 — per-schedule judgement of the implementation's observations (vm_compute). *)
From SwayV Require Import Base.Util C25.Model C25.Spec.

(* label codes: 0 step, 1 crash, 2.. start (cleanup, lock, release, is_locked, get) *)
Definition act_of (a : N) : act :=
  match a with
  | 0 => AStep | 1 => ACrash
  | 2 => AStart OCleanup | 3 => AStart OLock | 4 => AStart ORelease | 5 => AStart OIsLocked
  | _ => AStart OGet
  end%N.

Definition view_code (f : fsys) : N :=
  match view f with
  | None => 0 | Some CEmpty => 1 | Some CGarbage => 2 | Some (CPid p) => 3 + N.of_nat p
  end%N.

Definition ret_code (r : ret) : N :=
  match r with
  | RBool false => 1 | RBool true => 2 | ROpt None => 3 | ROk => 4 | RErr => 5
  | RCleaned n => 6 + N.of_nat n | ROpt (Some p) => 10 + N.of_nat p
  end%N.

Definition ev_code (e : option event) : N :=
  match e with Some (ERet _ _ r) => ret_code r | None => 0%N end.

Definition pc_code (c : pc) : N :=
  match c with
  | Idle => 0 | CList => 1 | COpen => 2 | CRead _ => 3 | CPs _ => 4 | CUnlinkDead | CUnlinkBad => 5
  | GOpen _ => 6 | GRead _ _ => 7 | GPs _ _ => 8 | GUnlink _ => 9
  | RUnlink _ => 10 | LCreate => 11 | LWrite _ => 12 | Dead => 13
  end%N.

Definition decode_ret (c : N) : option ret :=
  match c with
  | 0 => None | 1 => Some (RBool false) | 2 => Some (RBool true) | 3 => Some (ROpt None)
  | 4 => Some ROk | 5 => Some RErr | 6 => Some (RCleaned 0) | 7 => Some (RCleaned 1)
  | _ => Some (ROpt (Some (N.to_nat (c - 10))))
  end%N.

(* one observation packed in one number: ((((actor*8 + act)*128 + view)*128 + ret)*16 + pc *)
Definition obs := N.
Definition unpack (o : obs) : nat * N * N * N * N :=
  let c := N.modulo o 16 in let o1 := N.div o 16 in
  let r := N.modulo o1 128 in let o2 := N.div o1 128 in
  let v := N.modulo o2 128 in let o3 := N.div o2 128 in
  (N.to_nat (N.div o3 8), N.modulo o3 8, v, r, c).

(* first index (from 1) at which the model and the observation differ; 0 = none.
   A label that is not enabled in the model is a difference. *)
Fixpoint compare (s : state) (k : N) (os : list obs) : N :=
  match os with
  | [] => 0%N
  | o :: t =>
    let '(q, a, v, r, c) := unpack o in
    match exec s (q, act_of a) with
    | None => k
    | Some (s', ev) =>
      if (N.eqb (view_code (fs s')) v && N.eqb (ev_code ev) r && N.eqb (pc_code (pc_of s' q)) c)%bool
      then compare s' (k + 1)%N t else k
    end
  end.

(* the safety monitor run on the OBSERVED returns (independent of the model) *)
Fixpoint cur_op (q : nat) (cur : list (nat * op)) : op :=
  match cur with
  | [] => OGet
  | (q', o) :: t => if Nat.eqb q q' then o else cur_op q t
  end.

Fixpoint mon_obs (m : mon) (cur : list (nat * op)) (os : list obs) : mon :=
  match os with
  | [] => m
  | o :: t =>
    let '(q, a, v, r, c) := unpack o in
    match act_of a with
    | AStart o => mon_obs (mon_step m (q, AStart o) None) ((q, o) :: cur) t
    | ACrash => mon_obs (mon_step m (q, ACrash) None) cur t
    | AStep =>
      let ev := match decode_ret r with Some x => Some (ERet q (cur_op q cur) x) | None => None end in
      mon_obs (mon_step m (q, AStep) ev) cur t
    end
  end.

(* liveness-as-safety on the OBSERVED returns: a get_locker_pid must not return an owner that was
   dead when the call started; an is_locked must not return true when every other process was dead
   when the call started. *)
Fixpoint dead_at (q : nat) (st : list (nat * list nat)) : list nat :=
  match st with
  | [] => []
  | (q', d) :: t => if Nat.eqb q q' then d else dead_at q t
  end.

Fixpoint stale_obs (n : nat) (dead : list nat) (st : list (nat * list nat)) (cur : list (nat * op))
         (os : list obs) : bool :=
  match os with
  | [] => false
  | o :: t =>
    let '(q, a, v, r, c) := unpack o in
    match act_of a with
    | AStart op_ => stale_obs n dead ((q, dead) :: st) ((q, op_) :: cur) t
    | ACrash => stale_obs n (q :: dead) st cur t
    | AStep =>
      let ds := dead_at q st in
      let isdead := fun d => (memn d ds || negb (Nat.ltb d n))%bool in
      let here :=
        match decode_ret r, cur_op q cur with
        | Some (ROpt (Some d)), _ => isdead d
        | Some (RBool true), OIsLocked => forallb (fun p => (Nat.eqb p q || isdead p)%bool) (seq 0 n)
        | _, _ => false
        end in
      (here || stale_obs n dead st cur t)%bool
    end
  end.

Definition sched_of (os : list obs) : list label :=
  map (fun o => match unpack o with (q, a, _, _, _) => (q, act_of a) end) os.

Definition init_of (i : N) : fsys :=
  match i with
  | 0 => fs_absent | 1 => fs_with CEmpty | 2 => fs_with CGarbage | _ => fs_with (CPid (N.to_nat (i - 3)))
  end%N.

(* (first difference or 0, S violated by the observed returns, S violated in the model,
    class of the first hazard of the schedule in the model, stale owner reported by the observed returns) *)
Definition judge (n : N) (i : N) (os : list obs) : N * N * N * N * N :=
  let s := init (N.to_nat n) (init_of i) in
  let sc := sched_of os in
  (compare s 1%N os,
   if bad (mon_obs mon0 [] os) then 1%N else 0%N,
   if bad (snd (run_mon s mon0 sc)) then 1%N else 0%N,
   first_hazard s sc,
   if stale_obs (N.to_nat n) [] [] [] os then 1%N else 0%N).

Definition judge_all (cs : list (N * N * list obs)) : list (N * N * N * N * N) :=
  map (fun c => match c with (n, i, os) => judge n i os end) cs.
