(* C25 — per-schedule judgement of the implementation's observations (vm_compute). *)
From SwayV Require Import Base.Util C25.Model C25.Spec.

(* label codes: 0 step, 1 crash, 2.. start (cleanup, lock, release, is_locked, get) *)
Definition act_of (a : N) : act :=
  match a with
  | 0 => AStep | 1 => ACrash
  | 2 => AStart OCleanup | 3 => AStart OLock | 4 => AStart ORelease | 5 => AStart OIsLocked
  | _ => AStart OGet
  end%N.

Definition view_code (f : fsys) : N :=
  match view f with
  | None => 0 | Some CEmpty => 1 | Some CGarbage => 2 | Some (CPid p) => 3 + N.of_nat p
  end%N.

Definition ret_code (r : ret) : N :=
  match r with
  | RBool false => 1 | RBool true => 2 | ROpt None => 3 | ROk => 4 | RErr => 5
  | RCleaned n => 6 + N.of_nat n | ROpt (Some p) => 10 + N.of_nat p
  end%N.

Definition ev_code (e : option event) : N :=
  match e with Some (ERet _ _ r) => ret_code r | None => 0%N end.

Definition pc_code (c : pc) : N :=
  match c with
  | Idle => 0 | CList => 1 | COpen => 2 | CRead _ => 3 | CPs _ => 4 | CUnlinkDead | CUnlinkBad => 5
  | GOpen _ => 6 | GRead _ _ => 7 | GPs _ _ => 8 | GUnlink _ => 9
  | RUnlink _ => 10 | LCreate => 11 | LWrite _ => 12 | Dead => 13
  end%N.

Definition decode_ret (c : N) : option ret :=
  match c with
  | 0 => None | 1 => Some (RBool false) | 2 => Some (RBool true) | 3 => Some (ROpt None)
  | 4 => Some ROk | 5 => Some RErr | 6 => Some (RCleaned 0) | 7 => Some (RCleaned 1)
  | _ => Some (ROpt (Some (N.to_nat (c - 10))))
  end%N.

Definition obs := (nat * N * N * N * N)%type.   (* actor, act code, view, ret, pc *)

(* first index (from 1) at which the model and the observation differ; 0 = none.
   A label that is not enabled in the model is a difference. *)
Fixpoint compare (s : state) (k : N) (os : list obs) : N :=
  match os with
  | [] => 0%N
  | (q, a, v, r, c) :: t =>
    match exec s (q, act_of a) with
    | None => k
    | Some (s', ev) =>
      if (N.eqb (view_code (fs s')) v && N.eqb (ev_code ev) r && N.eqb (pc_code (pc_of s' q)) c)%bool
      then compare s' (k + 1)%N t else k
    end
  end.

(* the safety monitor run on the OBSERVED returns (independent of the model) *)
Fixpoint cur_op (q : nat) (cur : list (nat * op)) : op :=
  match cur with
  | [] => OGet
  | (q', o) :: t => if Nat.eqb q q' then o else cur_op q t
  end.

Fixpoint mon_obs (m : mon) (cur : list (nat * op)) (os : list obs) : mon :=
  match os with
  | [] => m
  | (q, a, v, r, c) :: t =>
    match act_of a with
    | AStart o => mon_obs (mon_step m (q, AStart o) None) ((q, o) :: cur) t
    | ACrash => mon_obs (mon_step m (q, ACrash) None) cur t
    | AStep =>
      let ev := match decode_ret r with Some x => Some (ERet q (cur_op q cur) x) | None => None end in
      mon_obs (mon_step m (q, AStep) ev) cur t
    end
  end.

Definition sched_of (os : list obs) : list label :=
  map (fun o => match o with (q, a, _, _, _) => (q, act_of a) end) os.

Definition init_of (i : N) : fsys :=
  match i with
  | 0 => fs_absent | 1 => fs_with CEmpty | 2 => fs_with CGarbage | _ => fs_with (CPid (N.to_nat (i - 3)))
  end%N.

(* (first difference or 0, S violated by the observed returns, S violated in the model,
    class of the first hazard of the schedule in the model) *)
Definition judge (n : nat) (i : N) (os : list obs) : N * N * N * N :=
  let s := init n (init_of i) in
  let sc := sched_of os in
  (compare s 1%N os,
   if bad (mon_obs mon0 [] os) then 1%N else 0%N,
   if bad (snd (run_mon s mon0 sc)) then 1%N else 0%N,
   first_hazard s sc).

Definition judge_all (cs : list (nat * N * list obs)) : list (N * N * N * N) :=
  map (fun c => match c with (n, i, os) => judge n i os end) cs.
