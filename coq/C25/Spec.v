(* C25 — the property as a monitor over labelled runs, and the excluded class of schedules. *)
From SwayV Require Import Base.Util C25.Model.

(* Safety monitor.
   holds : processes that completed `lock` (returned Ok), are alive, and have not since called
           `release` (or `lock`, which calls release first).
   wit   : pairs (q,p): q is inside an `is_locked` call that STARTED while p was holding, and p has
           been holding ever since.
   bad   : some `is_locked` of q returned false although such a p (<> q) exists. *)
Record mon := { holds : list nat; wit : list (nat * nat); bad : bool }.

Definition mon0 : mon := {| holds := []; wit := []; bad := false |}.

Definition drop_holder (p : nat) (m : mon) : mon :=
  {| holds := filter (fun x => negb (Nat.eqb x p)) (holds m);
     wit := filter (fun qp => negb (Nat.eqb (snd qp) p)) (wit m);
     bad := bad m |}.

Definition drop_wit (q : nat) (w : list (nat * nat)) : list (nat * nat) :=
  filter (fun qp => negb (Nat.eqb (fst qp) q)) w.

Definition has_wit (q : nat) (w : list (nat * nat)) : bool :=
  existsb (fun qp => Nat.eqb (fst qp) q) w.

(* called only for ENABLED labels, with the event the step produced *)
Definition mon_step (m : mon) (l : label) (ev : option event) : mon :=
  let q := fst l in
  match snd l with
  | ACrash =>
      let m1 := drop_holder q m in
      {| holds := holds m1; wit := drop_wit q (wit m1); bad := bad m1 |}
  | AStart OLock | AStart ORelease => drop_holder q m
  | AStart OIsLocked =>
      {| holds := holds m;
         wit := map (fun p => (q, p)) (filter (fun p => negb (Nat.eqb p q)) (holds m)) ++ drop_wit q (wit m);
         bad := bad m |}
  | AStart _ => m
  | AStep =>
      match ev with
      | Some (ERet _ OLock ROk) =>
          {| holds := q :: holds m; wit := wit m; bad := bad m |}
      | Some (ERet _ OIsLocked (RBool b)) =>
          {| holds := holds m; wit := drop_wit q (wit m);
             bad := bad m || (negb b && has_wit q (wit m)) |}
      | _ => m
      end
  end.

Fixpoint run_mon (s : state) (m : mon) (sched : list label) : state * mon :=
  match sched with
  | [] => (s, m)
  | l :: r =>
    match exec s l with
    | Some (s', ev) => run_mon s' (mon_step m l ev) r
    | None => run_mon s m r
    end
  end.

(* S (safety): the monitor never raises `bad`. *)
Definition safe (s : state) (sched : list label) : Prop := bad (snd (run_mon s mon0 sched)) = false.

(* ---- the excluded class: a check-then-act sequence of one process is interleaved with a
   file-system change made by another process.
   `committed c`: the process has looked at the file (opened / read / queried the owner) in its
   current call and the rest of the call acts on what it saw. *)
Definition committed (c : pc) : bool :=
  match c with
  | CRead _ | CPs _ | CUnlinkDead | CUnlinkBad
  | GRead _ _ | GPs _ _ | GUnlink _
  | RUnlink _ | LCreate | LWrite _ => true
  | _ => false
  end.

Definition content_eqb (a b : content) : bool :=
  match a, b with
  | CEmpty, CEmpty | CGarbage, CGarbage => true
  | CPid x, CPid y => Nat.eqb x y
  | _, _ => false
  end.

Fixpoint contents_eqb (a b : list content) : bool :=
  match a, b with
  | [], [] => true
  | x :: a', y :: b' => content_eqb x y && contents_eqb a' b'
  | _, _ => false
  end.

Definition bind_eqb (a b : option nat) : bool :=
  match a, b with
  | None, None => true
  | Some x, Some y => Nat.eqb x y
  | _, _ => false
  end.

Definition fs_eqb (a b : fsys) : bool := bind_eqb (bind a) (bind b) && contents_eqb (inodes a) (inodes b).

Fixpoint other_committed (a : nat) (i : nat) (ps : list pc) : bool :=
  match ps with
  | [] => false
  | c :: t => (negb (Nat.eqb i a) && committed c) || other_committed a (S i) t
  end.

(* the step s --l--> s' changes the file system while a process other than the actor is committed *)
Definition hazard (s : state) (l : label) (s' : state) : bool :=
  negb (fs_eqb (fs s) (fs s')) && other_committed (fst l) 0 (procs s).

Fixpoint excluded (s : state) (sched : list label) : bool :=
  match sched with
  | [] => false
  | l :: r =>
    match exec s l with
    | Some (s', _) => hazard s l s' || excluded s' r
    | None => excluded s r
    end
  end.

(* classification of the first hazard by the program point of the acting process:
   1 cleanup removing an unparsable file (c_unlink after a failed parse)
   2 removal of a dead owner's file (c_unlink / g_unlink after the liveness query)
   3 release/lock acting on its own is_locked check (r_unlink, l_create, l_write)
   0 no hazard *)
Definition hazard_class (c : pc) : N :=
  match c with
  | CUnlinkBad => 1
  | CUnlinkDead | GUnlink _ => 2
  | RUnlink _ | LCreate | LWrite _ => 3
  | _ => 4
  end%N.

Fixpoint first_hazard (s : state) (sched : list label) : N :=
  match sched with
  | [] => 0%N
  | l :: r =>
    match exec s l with
    | Some (s', _) => if hazard s l s' then hazard_class (pc_of s (fst l)) else first_hazard s' r
    | None => first_hazard s r
    end
  end.

(* physical presence of p's flag *)
Definition phys (f : fsys) (p : nat) : Prop := exists i, bind f = Some i /\ lookup f i = CPid p.

Definition wf_fs (f : fsys) : Prop := forall i, bind f = Some i -> i < length (inodes f).
