(* C25 — property theorems only. *)
From SwayV Require Import Base.Util C25.Model C25.Spec C25.Proofs C25.Safety C25.Invariant C25.Refuse.

Definition St q o : label := (q, AStart o).
Definition Tk q : label := (q, AStep).
Definition Cr q : label := (q, ACrash).

(* Liveness as safety: a flag whose owner is dead is reported clear.  From ANY state (reachable or
   not), along ANY schedule of any number of processes with crashes anywhere:
   (a) once d is dead no get_locker_pid returns Some d;
   (b) if every process other than q is dead, every is_locked of q returns false;
   (c) a complete, uninterrupted get_locker_pid of q on a dead owner's flag returns None and
       leaves the path absent. *)
Theorem C25_stale_eventually_clear :
  (forall sched s d, alive s d = false ->
     forall l s' ev, In (l, s', ev) (trace s sched) ->
     forall q, ev <> Some (ERet q OGet (ROpt (Some d)))) /\
  (forall sched s q, (forall p, p <> q -> alive s p = false) ->
     forall l s' b, In (l, s', Some (ERet q OIsLocked (RBool b))) (trace s sched) -> b = false) /\
  (forall s q d i, nth_error (procs s) q = Some Idle ->
     bind (fs s) = Some i -> lookup (fs s) i = CPid d -> alive s d = false ->
     map (fun x => snd x) (trace s (solo q OGet 4)) =
       [None; None; None; None; Some (ERet q OGet (ROpt None))] /\
     bind (fs (run s (solo q OGet 4))) = None).
Proof.
  split; [exact stale_get_never_reported|]. split.
  - intros sched s q H l s' b Hin. eapply stale_is_locked_false; eauto.
  - exact stale_removed_by_get.
Qed.
Print Assumptions C25_stale_eventually_clear.

(* lock / release of q refuse (return Err) for as long as the flag of a live process p <> q is
   physically present: any schedule, any number of processes, starting with q idle. *)
Theorem C25_lock_refuses_when_locked : forall sched s p q,
  p <> q -> nth_error (procs s) q = Some Idle -> flag_of s p ->
  (forall l s' ev, In (l, s', ev) (trace s sched) -> flag_of s' p) ->
  forall l s' r o, In (l, s', Some (ERet q o r)) (trace s sched) -> o = OLock \/ o = ORelease -> r = RErr.
Proof.
  intros sched s p q N Hq F T. eapply lock_refuses_aux; eauto. exists Idle. split; auto. exact I.
Qed.
Print Assumptions C25_lock_refuses_when_locked.

(* Safety, full statement (what the property text asks for):
     forall n f sched, wf_fs f -> safe (init n f) sched.
   It is FALSE of the code.  Three schedules of two processes: *)
Definition sched_cleanup_between_create_and_write : list label :=
  [St 0 OLock; Tk 0; Tk 0; Tk 0;                       (* p: is_locked=false, remove, create *)
   St 1 OCleanup; Tk 1; Tk 1; Tk 1; Tk 1;              (* q: list, open, read "", unlink *)
   Tk 0;                                               (* p: write pid into the unlinked inode *)
   St 1 OIsLocked; Tk 1].                              (* q: false *)
Definition sched_toctou_remove_after_relock : list label :=
  [St 1 OIsLocked; Tk 1; Tk 1; Tk 1;                   (* q: open, read dead pid, ps: dead *)
   St 0 OLock; Tk 0; Tk 0; Tk 0; Tk 0; Tk 0; Tk 0; Tk 0; (* p: removes stale flag, create, write *)
   Tk 1;                                               (* q: pending unlink removes p's flag *)
   St 1 OIsLocked; Tk 1].                              (* q: false *)
Definition sched_lock_lock_race : list label :=
  [St 0 OLock; St 1 OLock; Tk 0; Tk 1; Tk 0; Tk 1; Tk 0; Tk 1; Tk 0; Tk 1;
   St 1 OIsLocked; Tk 1; Tk 1; Tk 1].                  (* q sees its own pid: false *)

Theorem C25_flag_lost_refuted :
  ~ safe (init 2 fs_absent) sched_cleanup_between_create_and_write /\
  ~ safe (init 2 (fs_with (CPid 7))) sched_toctou_remove_after_relock /\
  ~ safe (init 2 fs_absent) sched_lock_lock_race /\
  first_hazard (init 2 fs_absent) sched_cleanup_between_create_and_write = 1%N /\
  first_hazard (init 2 (fs_with (CPid 7))) sched_toctou_remove_after_relock = 2%N /\
  first_hazard (init 2 fs_absent) sched_lock_lock_race = 3%N.
Proof. unfold safe. repeat split; vm_compute; congruence. Qed.
Print Assumptions C25_flag_lost_refuted.

(* Safety for every schedule outside the excluded class (decidable predicate `excluded`: some step
   changes the file system while another live process is between its look at the file and the last
   action it bases on that look): any number of processes, any initial file, unbounded schedules,
   crashes anywhere. *)
Theorem C25_flag_visible_unless_interleaved : forall n f sched,
  wf_fs f -> excluded (init n f) sched = false -> safe (init n f) sched.
Proof. exact flag_visible_unless_interleaved. Qed.
Print Assumptions C25_flag_visible_unless_interleaved.

(* Non-vacuity: a schedule outside the excluded class in which the monitor has an obligation
   (q's is_locked starts while p holds) and it is met; and one where lock is refused. *)
Example C25_example_visible :
  let sc := [St 0 OLock; Tk 0; Tk 0; Tk 0; Tk 0; St 1 OIsLocked; Tk 1; Tk 1; Tk 1] in
  excluded (init 2 fs_absent) sc = false /\
  map (fun x => snd x) (trace (init 2 fs_absent) sc) =
    [None; None; None; None; Some (ERet 0 OLock ROk); None; None; None; Some (ERet 1 OIsLocked (RBool true))].
Proof. vm_compute. split; reflexivity. Qed.
Example C25_example_refused :
  let sc := [St 0 OLock; Tk 0; Tk 0; Tk 0; Tk 0; St 1 OLock; Tk 1; Tk 1; Tk 1; Tk 1; Tk 1; Tk 1] in
  last (map (fun x => snd x) (trace (init 2 fs_absent) sc)) None = Some (ERet 1 OLock RErr).
Proof. vm_compute. reflexivity. Qed.
Example C25_example_crash_clears :
  let sc := [St 0 OLock; Tk 0; Tk 0; Tk 0; Tk 0; Cr 0; St 1 OIsLocked; Tk 1; Tk 1; Tk 1; Tk 1] in
  last (map (fun x => snd x) (trace (init 2 fs_absent) sc)) None = Some (ERet 1 OIsLocked (RBool false)) /\
  view (fs (run (init 2 fs_absent) sc)) = None.
Proof. vm_compute. split; reflexivity. Qed.
