(* C25 — global invariant, preserved by every non-hazard step; safety for non-excluded schedules. *)
From SwayV Require Import Base.Util C25.Model C25.Spec C25.Proofs C25.Safety.

Record Inv (s : state) (m : mon) : Prop := {
  inv_wf : wf_fs (fs s);
  inv_know : forall q c, nth_error (procs s) q = Some c -> know (fs s) (alive s) q c;
  inv_holds : forall p, In p (holds m) ->
      alive s p = true /\ phys (fs s) p /\
      (forall c, nth_error (procs s) p = Some c -> in_lockrel c = false);
  inv_wit : forall q p, In (q, p) (wit m) -> In p (holds m) /\ p <> q;
  inv_bad : bad m = false }.

(* ---------- monitor facts *)
Lemma in_drop_holder_holds p a m : In p (holds (drop_holder a m)) <-> In p (holds m) /\ p <> a.
Proof.
  unfold drop_holder; cbn. rewrite filter_In. rewrite Bool.negb_true_iff, Nat.eqb_neq. tauto.
Qed.

Lemma in_drop_holder_wit q p a m : In (q, p) (wit (drop_holder a m)) <-> In (q, p) (wit m) /\ p <> a.
Proof.
  unfold drop_holder; cbn. rewrite filter_In. cbn. rewrite Bool.negb_true_iff, Nat.eqb_neq. tauto.
Qed.

Lemma in_drop_wit q p a w : In (q, p) (drop_wit a w) <-> In (q, p) w /\ q <> a.
Proof.
  unfold drop_wit. rewrite filter_In. cbn. rewrite Bool.negb_true_iff, Nat.eqb_neq. tauto.
Qed.

Lemma has_wit_true q w : has_wit q w = true -> exists p, In (q, p) w.
Proof.
  unfold has_wit. rewrite existsb_exists. intros [[q' p] [Hin He]]. cbn in He.
  apply Nat.eqb_eq in He. subst. eauto.
Qed.

Lemma holds_step m q ev p :
  In p (holds (mon_step m (q, AStep) ev)) ->
  In p (holds m) \/ (p = q /\ exists q', ev = Some (ERet q' OLock ROk)).
Proof.
  unfold mon_step; cbn [fst snd].
  destruct ev as [[q' o r]|]; auto. destruct o; auto; destruct r; auto; cbn.
  intros [H|H]; eauto.
Qed.

Lemma holds_step_mono m q ev p : In p (holds m) -> In p (holds (mon_step m (q, AStep) ev)).
Proof.
  unfold mon_step; cbn [fst snd].
  destruct ev as [[q' o r]|]; auto. destruct o; auto; destruct r; auto; cbn; auto.
Qed.

Lemma wit_step m q ev x : In x (wit (mon_step m (q, AStep) ev)) -> In x (wit m).
Proof.
  unfold mon_step; cbn [fst snd].
  destruct ev as [[q' o r]|]; auto. destruct o; auto; destruct r; auto; cbn.
  destruct x as [xa xb]. rewrite in_drop_wit. tauto.
Qed.

Lemma bad_step m q ev :
  bad (mon_step m (q, AStep) ev) = true ->
  bad m = true \/ exists q' p, ev = Some (ERet q' OIsLocked (RBool false)) /\ In (q, p) (wit m).
Proof.
  unfold mon_step; cbn [fst snd].
  destruct ev as [[q' o r]|]; auto. destruct o; auto; destruct r; auto; cbn.
  intros H. apply Bool.orb_true_iff in H as [H|H]; auto.
  apply andb_prop in H as [H1 H2]. destruct b; cbn in H1; try discriminate.
  apply has_wit_true in H2 as [p Hp]. right. eauto.
Qed.

(* ---------- preservation *)
Lemma know_alive_eq f al al' q c : (forall d, al d = al' d) -> know f al q c -> know f al' q c.
Proof. intros E. apply know_mono. intros d. rewrite E. auto. Qed.

Lemma inv_step s m q a s' ev :
  Inv s m -> exec_spec s q a s' ev -> hazard s (q, a) s' = false ->
  Inv s' (mon_step m (q, a) ev).
Proof.
  intros [W K Hh Hw Hb] E Hz.
  inversion E; subst.
  - (* start *)
    assert (AL : forall d, alive s d = alive {| fs := fs s; procs := set_nth (procs s) q (entry o) |} d).
    { intros d. rewrite (alive_exec _ _ _ _ _ d E). reflexivity. }
    assert (KK : forall q0 c, nth_error (set_nth (procs s) q (entry o)) q0 = Some c ->
                  know (fs s) (alive {| fs := fs s; procs := set_nth (procs s) q (entry o) |}) q0 c).
    { intros q0 c Hc. destruct (Nat.eq_dec q q0) as [->|Hn].
      - rewrite nth_error_set_nth_eq in Hc by (eapply nth_error_lt; eauto). inversion Hc; subst.
        apply know_uncommitted, entry_uncommitted.
      - rewrite nth_error_set_nth_neq in Hc by auto. eapply know_alive_eq; [exact AL|]. auto. }
    assert (HH : forall p, In p (holds m) -> (p = q -> in_lockrel (entry o) = false) ->
                 alive {| fs := fs s; procs := set_nth (procs s) q (entry o) |} p = true /\
                 phys (fs s) p /\
                 (forall c, nth_error (set_nth (procs s) q (entry o)) p = Some c -> in_lockrel c = false)).
    { intros p Hp Hq. destruct (Hh p Hp) as (A & P & L). rewrite <- AL. repeat split; auto.
      intros c Hc. destruct (Nat.eq_dec q p) as [->|Hn].
      - rewrite nth_error_set_nth_eq in Hc by (eapply nth_error_lt; eauto). inversion Hc; subst. auto.
      - rewrite nth_error_set_nth_neq in Hc by auto. auto. }
    destruct o; cbn [mon_step fst snd]; constructor; cbn [fs procs]; auto.
    all: try (intros p Hp; apply HH; auto; intros; reflexivity).
    + intros p Hp. apply in_drop_holder_holds in Hp as [Hp Hn]. apply HH; auto. congruence.
    + intros q0 p Hp. apply in_drop_holder_wit in Hp as [Hp Hn]. destruct (Hw _ _ Hp).
      split; auto. apply in_drop_holder_holds; auto.
    + intros p Hp. apply in_drop_holder_holds in Hp as [Hp Hn]. apply HH; auto. congruence.
    + intros q0 p Hp. apply in_drop_holder_wit in Hp as [Hp Hn]. destruct (Hw _ _ Hp).
      split; auto. apply in_drop_holder_holds; auto.
    + intros q0 p Hp. cbn [wit] in Hp. apply in_app_or in Hp as [Hp|Hp].
      * apply in_map_iff in Hp as (p' & Heq & Hp'). inversion Heq; subst.
        apply filter_In in Hp' as [Hp1 Hp2]. apply Bool.negb_true_iff, Nat.eqb_neq in Hp2. auto.
      * apply in_drop_wit in Hp as [Hp _]. auto.
  - (* crash *)
    assert (AL : forall d, alive {| fs := fs s; procs := set_nth (procs s) q Dead |} d =
                           if Nat.eqb d q then false else alive s d).
    { intros d. rewrite (alive_exec _ _ _ _ _ d E). reflexivity. }
    cbn [mon_step fst snd]. constructor; cbn [fs procs holds wit bad]; auto.
    + intros q0 c0 Hc. destruct (Nat.eq_dec q q0) as [->|Hn].
      * rewrite nth_error_set_nth_eq in Hc by (eapply nth_error_lt; eauto). inversion Hc; subst. exact I.
      * rewrite nth_error_set_nth_neq in Hc by auto.
        eapply know_mono; [|apply K; exact Hc]. intros d Hd. rewrite AL. destruct (Nat.eqb d q); auto.
    + intros p Hp. apply in_drop_holder_holds in Hp as [Hp Hn]. destruct (Hh p Hp) as (A & P & L).
      rewrite AL. apply Nat.eqb_neq in Hn. rewrite Hn. repeat split; auto.
      intros c0 Hc. rewrite nth_error_set_nth_neq in Hc; auto. apply Nat.eqb_neq in Hn. congruence.
    + intros q0 p Hp. apply in_drop_wit in Hp as [Hp Hn0]. apply in_drop_holder_wit in Hp as [Hp Hn].
      destruct (Hw _ _ Hp). split; auto. apply in_drop_holder_holds; auto.
  - (* one system call of q at c *)
    rename H into Hc. rename H2 into Hs.
    assert (Kq := K q c Hc).
    destruct (sys_step_know _ _ _ _ _ _ _ W Kq Hs) as [W' Kq'].
    assert (AL : forall d, alive {| fs := f'; procs := set_nth (procs s) q c' |} d = alive s d).
    { intros d. rewrite (alive_exec _ _ _ _ _ d E). reflexivity. }
    assert (Aq : alive s q = true).
    { erewrite alive_of_pc by eauto. destruct c; try congruence; reflexivity. }
    (* either the file system is unchanged or nobody else is committed *)
    assert (FS : f' = fs s \/ forall q0 c0, q0 <> q -> nth_error (procs s) q0 = Some c0 -> committed c0 = false).
    { unfold hazard in Hz. cbn [fs fst] in Hz. apply Bool.andb_false_iff in Hz as [Hz|Hz].
      - left. apply Bool.negb_false_iff in Hz. apply fs_eqb_eq in Hz. auto.
      - right. intros q0 c0 Hn Hq0. eapply (other_committed_false q _ 0 Hz q0 c0 Hq0). cbn. auto. }
    (* holders keep their flag *)
    assert (HOLD : forall p, In p (holds m) -> f' = fs s /\ (p = q -> in_lockrel c = false)).
    { intros p Hp. destruct (Hh p Hp) as (A & P & L).
      destruct (sys_step_keeps_flag _ _ _ _ _ _ _ p Kq P A Hs) as [Hf|[-> Hl]].
      - split; auto. intros ->. apply L; auto.
      - rewrite (L c Hc) in Hl. discriminate. }
    constructor; cbn [fs procs].
    + exact W'.
    + intros q0 c0 Hx0. destruct (Nat.eq_dec q q0) as [->|Hn].
      * rewrite nth_error_set_nth_eq in Hx0 by (eapply nth_error_lt; eauto). inversion Hx0; subst.
        eapply know_alive_eq; [intros d; symmetry; apply AL|]. exact Kq'.
      * rewrite nth_error_set_nth_neq in Hx0 by auto.
        eapply know_alive_eq; [intros d; symmetry; apply AL|].
        destruct FS as [->|FS]; [apply K; auto|].
        apply know_uncommitted. eapply FS; eauto.
    + intros p Hp. apply holds_step in Hp as [Hp|[-> [q' ->]]].
      * destruct (HOLD p Hp) as [-> Hl]. destruct (Hh p Hp) as (A & P & L).
        rewrite AL. repeat split; auto. intros c0 Hx0.
        destruct (Nat.eq_dec q p) as [->|Hn].
        -- rewrite nth_error_set_nth_eq in Hx0 by (eapply nth_error_lt; eauto). inversion Hx0; subst.
           eapply sys_step_lockrel; eauto.
        -- rewrite nth_error_set_nth_neq in Hx0 by auto. auto.
      * destruct (sys_step_lock_ok _ _ _ _ _ _ _ W Kq Hs) as [P ->].
        rewrite AL. repeat split; auto. intros c0 Hx0.
        rewrite nth_error_set_nth_eq in Hx0 by (eapply nth_error_lt; eauto). inversion Hx0; subst. reflexivity.
    + intros q0 p Hp. apply wit_step in Hp. destruct (Hw _ _ Hp). split; auto.
      apply holds_step_mono. auto.
    + destruct (bad (mon_step m (q, AStep) ev)) eqn:Hbad; auto.
      apply bad_step in Hbad as [Hbad|(q' & p & -> & Hp)]; [congruence|].
      destruct (Hw _ _ Hp) as [Hph Hne]. destruct (Hh p Hph) as (A & P & L).
      pose proof (sys_step_islocked _ _ _ _ _ _ _ _ p Kq P A Hne Hs). discriminate.
Qed.

Lemma inv_init n f : wf_fs f -> Inv (init n f) mon0.
Proof.
  intros W. constructor; cbn; auto; try contradiction.
  intros q c Hc. apply nth_error_In in Hc. apply repeat_spec in Hc. subst. exact I.
Qed.

Lemma safe_from_inv : forall sched s m,
  Inv s m -> excluded s sched = false -> bad (snd (run_mon s m sched)) = false.
Proof.
  induction sched as [|[q a] r IH]; intros s m I X; cbn.
  - apply inv_bad with (s := s). exact I.
  - cbn in X. destruct (exec s (q, a)) as [[s' ev]|] eqn:He.
    + apply Bool.orb_false_iff in X as [X1 X2]. apply exec_inv in He.
      apply IH; auto. eapply inv_step; eauto.
    + apply IH; auto.
Qed.

Theorem flag_visible_unless_interleaved : forall n f sched,
  wf_fs f -> excluded (init n f) sched = false -> safe (init n f) sched.
Proof. intros n f sched W X. unfold safe. apply safe_from_inv; auto. apply inv_init; auto. Qed.
