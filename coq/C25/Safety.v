(* C25 — the safety invariant: along a schedule without hazards (no file-system change by one
   process while another one is committed), what every committed process believes about the file is
   true, every holder's flag is physically present, and no is_locked misses a holder. *)
From SwayV Require Import Base.Util C25.Model C25.Spec C25.Proofs.

Definition know (f : fsys) (al : nat -> bool) (q : nat) (c : pc) : Prop :=
  match c with
  | CRead fd | GRead _ fd => bind f = Some fd
  | CPs d | GPs _ d => exists i, bind f = Some i /\ lookup f i = CPid d
  | CUnlinkDead | GUnlink _ => exists i d, bind f = Some i /\ lookup f i = CPid d /\ al d = false
  | CUnlinkBad => exists i, bind f = Some i /\ parse (lookup f i) = None
  | RUnlink _ => bind f = None \/
                 exists i, bind f = Some i /\ (parse (lookup f i) = None \/ lookup f i = CPid q)
  | LCreate => bind f = None
  | LWrite fd => bind f = Some fd /\ lookup f fd = CEmpty
  | _ => True
  end.

Definition in_lockrel (c : pc) : bool :=
  match c with
  | GOpen (KRel1 _) | GOpen (KRel2 _) | GRead (KRel1 _) _ | GRead (KRel2 _) _
  | GPs (KRel1 _) _ | GPs (KRel2 _) _ | GUnlink (KRel1 _) | GUnlink (KRel2 _)
  | RUnlink _ | LCreate | LWrite _ => true
  | _ => false
  end.

Lemma know_uncommitted f al q c : committed c = false -> know f al q c.
Proof. destruct c; cbn; intros H; try discriminate; exact I. Qed.

Lemma know_mono f al al' q c :
  (forall d, al d = false -> al' d = false) -> know f al q c -> know f al' q c.
Proof.
  intros M. destruct c; cbn; auto; intros (i & d & H1 & H2 & H3); exists i, d; auto.
Qed.

(* ---------- file-system facts *)
Lemma lookup_set_eq f i c : i < length (inodes f) -> lookup (set_inode f i c) i = c.
Proof. intros H. unfold lookup, set_inode; cbn. apply nth_set_nth_eq; auto. Qed.

Lemma lookup_new l c b : lookup {| bind := b; inodes := l ++ [c] |} (length l) = c.
Proof. unfold lookup; cbn. rewrite app_nth2 by lia. rewrite Nat.sub_diag. reflexivity. Qed.

Lemma wf_set f i c : wf_fs f -> wf_fs (set_inode f i c).
Proof. unfold wf_fs, set_inode; cbn. intros W j Hj. rewrite length_set_nth. auto. Qed.

Lemma wf_unbind f : wf_fs (unbind f).
Proof. unfold wf_fs, unbind; cbn. discriminate. Qed.

Lemma content_eqb_eq a b : content_eqb a b = true -> a = b.
Proof. destruct a, b; cbn; try discriminate; auto. intros H; apply Nat.eqb_eq in H; congruence. Qed.

Lemma contents_eqb_eq a : forall b, contents_eqb a b = true -> a = b.
Proof.
  induction a as [|x a IH]; intros [|y b]; cbn; try discriminate; auto.
  intros H. apply andb_prop in H as [H1 H2]. apply content_eqb_eq in H1. apply IH in H2. congruence.
Qed.

Lemma fs_eqb_eq a b : fs_eqb a b = true -> a = b.
Proof.
  unfold fs_eqb. destruct a as [ba ia], b as [bb ib]; cbn. intros H. apply andb_prop in H as [H1 H2].
  apply contents_eqb_eq in H2. subst.
  destruct ba, bb; cbn in H1; try discriminate; auto. apply Nat.eqb_eq in H1; subst; auto.
Qed.

Lemma other_committed_false a : forall ps i,
  other_committed a i ps = false ->
  forall j c, nth_error ps j = Some c -> i + j <> a -> committed c = false.
Proof.
  induction ps as [|h t IH]; intros i H j c Hj Hn; [destruct j; discriminate|].
  cbn in H. apply Bool.orb_false_iff in H as [H1 H2].
  destruct j as [|j]; cbn in Hj.
  - inversion Hj; subst. rewrite Nat.add_0_r in Hn.
    apply Bool.andb_false_iff in H1 as [H1|H1]; auto.
    apply Bool.negb_false_iff, Nat.eqb_eq in H1. congruence.
  - eapply (IH (S i)); eauto. lia.
Qed.

Lemma parse_some c n : parse c = Some n -> c = CPid n.
Proof. destruct c; cbn; intros H; inversion H; auto. Qed.

Lemma wf_new f : wf_fs {| bind := Some (length (inodes f)); inodes := inodes f ++ [CEmpty] |}.
Proof. unfold wf_fs; cbn. intros j Hj. inversion Hj. rewrite app_length. cbn. lia. Qed.

Lemma lbo_false q d : locked_by_other q (Some d) = false -> d = q.
Proof. cbn. intros H. apply Bool.negb_false_iff, Nat.eqb_eq in H. auto. Qed.

(* ---------- one system call preserves the actor's knowledge *)
Lemma sys_step_know q al f c f' c' ev :
  wf_fs f -> know f al q c -> sys_step q al f c = (f', (c', ev)) ->
  wf_fs f' /\ know f' al q c'.
Proof.
  intros W K H. pose proof (wf_unbind f) as WU.
  destruct c; cbn [know] in K; step_inv H; cbn [know];
    try (split; [assumption | first [exact I | assumption]]).
  all: try match goal with
       | |- _ /\ _ => split
       end; auto using wf_unbind.
  all: try (destruct K as (i & K1 & K2)); try (destruct K as (i & d' & K1 & K2 & K3)).
  all: cbn [bind unbind] in *.
  all: try congruence.
  all: eauto 8 using wf_set, wf_new, parse_some.
  - match goal with Hb : locked_by_other _ (Some _) = false |- _ => apply lbo_false in Hb; subst end.
    right. eauto.
  - split; [reflexivity | apply lookup_new].
Qed.

Lemma unbind_none f : bind f = None -> unbind f = f.
Proof. destruct f as [b i]; cbn. intros ->. reflexivity. Qed.

Ltac phys_contra :=
  repeat match goal with
         | H : phys _ _ |- _ => destruct H as (?i0 & ?P1 & ?P2)
         | H : exists _, _ |- _ => destruct H
         | H : _ /\ _ |- _ => destruct H
         | H : _ \/ _ |- _ => destruct H
         end;
  repeat match goal with
         | H1 : bind ?f = Some ?a, H2 : bind ?f = Some ?b |- _ =>
           assert (a = b) by congruence; subst; clear H2
         | H1 : bind ?f = Some _, H2 : bind ?f = None |- _ => congruence
         | H1 : lookup ?f ?i = _, H2 : lookup ?f ?i = _ |- _ => rewrite H1 in H2
         | H1 : lookup ?f ?i = _, H2 : parse (lookup ?f ?i) = _ |- _ => rewrite H1 in H2; cbn in H2
         | H : CPid _ = CPid _ |- _ => inversion H; subst; clear H
         | H : @Some nat _ = Some _ |- _ => inversion H; subst; clear H
         end;
  try congruence; try discriminate.

(* a system call that changes the file system never does so while a live process' flag is
   physically present -- except that process itself inside release/lock *)
Lemma sys_step_keeps_flag q al f c f' c' ev p :
  know f al q c -> phys f p -> al p = true ->
  sys_step q al f c = (f', (c', ev)) ->
  f' = f \/ (p = q /\ in_lockrel c = true).
Proof.
  intros K P A H.
  destruct c; cbn [know] in K; step_inv H; try (left; reflexivity); cbn [in_lockrel];
    try (exfalso; phys_contra; fail).
  all: try (left; apply unbind_none; phys_contra; fail).
  all: phys_contra; auto.
Qed.

Lemma sys_step_lock_ok q al f c f' c' q' :
  wf_fs f -> know f al q c -> sys_step q al f c = (f', (c', Some (ERet q' OLock ROk))) ->
  phys f' q /\ c' = Idle.
Proof.
  intros W K H. destruct c; cbn [know] in K; step_inv H.
  destruct K as [K1 K2]. split; auto. exists fd. split; [exact K1|].
  apply lookup_set_eq. apply W; auto.
Qed.

Lemma sys_step_islocked q al f c f' c' q' b p :
  know f al q c -> phys f p -> al p = true -> p <> q ->
  sys_step q al f c = (f', (c', Some (ERet q' OIsLocked (RBool b)))) -> b = true.
Proof.
  intros K P A N H.
  destruct c; cbn [know] in K; step_inv H; cbn [locked_by_other]; try (exfalso; phys_contra; fail).
  phys_contra. apply Bool.negb_true_iff, Nat.eqb_neq. auto.
Qed.

Lemma sys_step_lockrel q al f c f' c' ev :
  in_lockrel c = false -> sys_step q al f c = (f', (c', ev)) -> in_lockrel c' = false.
Proof. intros L H. destruct c; step_inv H; cbn in *; auto; try discriminate. Qed.

Lemma entry_lockrel o : in_lockrel (entry o) = match o with OLock | ORelease => true | _ => false end.
Proof. destruct o; reflexivity. Qed.

Lemma entry_uncommitted o : committed (entry o) = false.
Proof. destruct o; reflexivity. Qed.
