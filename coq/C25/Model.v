(* C25 — model of forc-util/src/fs_locking.rs (PidFileLocking) as a labelled transition system
   over the system calls of each API call, in the order of the Rust code.  NO proofs here.

   One flag file (one `.lock` path in `~/.forc/.lsp-locks`).  The file system keeps inodes apart
   from the path binding, because the code holds file descriptors across steps (a `File::create`
   followed by a `write_all` writes into the inode that was opened, even if the path has been
   unlinked meanwhile; `File::create` on an existing path truncates the SAME inode).

   Process i has pid i; pids that are not processes of the system are dead.
   Step points (= hook labels in fs_locking.rs):
     cleanup_stale_files : c_list  c_open  c_read  c_ps  c_unlink
     get_locker_pid      : g_open  g_read  g_ps  g_unlink
     release             : is_locked ; [get_locker_pid again for the error message] | r_unlink
     lock                : release ; (create_dir_all: no effect, directory exists) l_create l_write
   Not modelled: I/O errors other than NotFound, non-UTF-8 file content (read_to_string fails),
   pid strings of different lengths overwriting each other, pid reuse by the OS. *)
From SwayV Require Import Base.Util.

Inductive content := CEmpty | CPid (p : nat) | CGarbage.

Record fsys := { bind : option nat; inodes : list content }.

Inductive op := OCleanup | OLock | ORelease | OIsLocked | OGet.

(* who called get_locker_pid *)
Inductive kont :=
| KGet                 (* the API call itself *)
| KIsLocked            (* is_locked *)
| KRel1 (lk : bool)    (* release: `if self.is_locked()`; lk = release was called by lock *)
| KRel2 (lk : bool).   (* release: get_locker_pid() evaluated for the error message *)

Inductive pc :=
| Idle | Dead
| CList | COpen | CRead (fd : nat) | CPs (d : nat) | CUnlinkDead | CUnlinkBad
| GOpen (k : kont) | GRead (k : kont) (fd : nat) | GPs (k : kont) (d : nat) | GUnlink (k : kont)
| RUnlink (lk : bool)
| LCreate | LWrite (fd : nat).

Inductive ret := RBool (b : bool) | ROpt (o : option nat) | ROk | RErr | RCleaned (n : nat).
Inductive event := ERet (q : nat) (o : op) (r : ret).

Record state := { fs : fsys; procs : list pc }.

Inductive act := AStart (o : op) | AStep | ACrash.
Definition label := (nat * act)%type.

(* ---- file system primitives *)
Definition lookup (f : fsys) (i : nat) : content := nth i (inodes f) CEmpty.

Fixpoint set_nth {A} (l : list A) (i : nat) (x : A) : list A :=
  match l, i with
  | [], _ => []
  | _ :: t, O => x :: t
  | h :: t, S j => h :: set_nth t j x
  end.

Definition set_inode (f : fsys) (i : nat) (c : content) : fsys :=
  {| bind := bind f; inodes := set_nth (inodes f) i c |}.

Definition unbind (f : fsys) : fsys := {| bind := None; inodes := inodes f |}.

(* `contents.trim().parse::<usize>()` *)
Definition parse (c : content) : option nat :=
  match c with CPid p => Some p | _ => None end.

Definition pc_of (s : state) (q : nat) : pc := nth q (procs s) Dead.

(* the injected `is_pid_active` *)
Definition alive_in (ps : list pc) (d : nat) : bool :=
  match nth_error ps d with
  | Some Dead => false
  | Some _ => true
  | None => false
  end.
Definition alive (s : state) (d : nat) : bool := alive_in (procs s) d.

(* is_locked: `.map(|pid| pid != current_pid()).unwrap_or_default()` *)
Definition locked_by_other (q : nat) (r : option nat) : bool :=
  match r with Some p => negb (Nat.eqb p q) | None => false end.

Definition op_of_lk (lk : bool) : op := if lk then OLock else ORelease.

(* get_locker_pid returns r to its caller k *)
Definition get_ret (q : nat) (k : kont) (r : option nat) : pc * option event :=
  match k with
  | KGet => (Idle, Some (ERet q OGet (ROpt r)))
  | KIsLocked => (Idle, Some (ERet q OIsLocked (RBool (locked_by_other q r))))
  | KRel1 lk => if locked_by_other q r then (GOpen (KRel2 lk), None) else (RUnlink lk, None)
  | KRel2 lk => (Idle, Some (ERet q (op_of_lk lk) RErr))
  end.

(* one system call of process q at program point c *)
Definition sys_step (q : nat) (al : nat -> bool) (f : fsys) (c : pc) : fsys * (pc * option event) :=
  match c with
  | Idle => (f, (Idle, None))
  | Dead => (f, (Dead, None))
  (* cleanup_stale_files *)
  | CList =>                                   (* read_dir + first getdents *)
      match bind f with
      | Some _ => (f, (COpen, None))
      | None => (f, (Idle, Some (ERet q OCleanup (RCleaned 0))))
      end
  | COpen =>                                   (* File::open(&path); failure skips the entry *)
      match bind f with
      | Some i => (f, (CRead i, None))
      | None => (f, (Idle, Some (ERet q OCleanup (RCleaned 0))))
      end
  | CRead fd =>                                (* read_to_string + parse *)
      match parse (lookup f fd) with
      | Some d => (f, (CPs d, None))
      | None => (f, (CUnlinkBad, None))
      end
  | CPs d =>                                   (* is_pid_active *)
      if al d then (f, (Idle, Some (ERet q OCleanup (RCleaned 0))))
      else (f, (CUnlinkDead, None))
  | CUnlinkDead | CUnlinkBad =>                (* remove_file(&path)?  *)
      match bind f with
      | Some _ => (unbind f, (Idle, Some (ERet q OCleanup (RCleaned 1))))
      | None => (f, (Idle, Some (ERet q OCleanup RErr)))
      end
  (* get_locker_pid *)
  | GOpen k =>
      match bind f with
      | Some i => (f, (GRead k i, None))
      | None => (f, get_ret q k None)
      end
  | GRead k fd =>
      match parse (lookup f fd) with
      | Some d => (f, (GPs k d, None))
      | None => (f, get_ret q k None)
      end
  | GPs k d =>
      if al d then (f, get_ret q k (Some d)) else (f, (GUnlink k, None))
  | GUnlink k =>                               (* let _ = self.remove_file(); None *)
      (unbind f, get_ret q k None)
  (* release: self.remove_file()? (NotFound is Ok) *)
  | RUnlink lk =>
      (unbind f, if lk then (LCreate, None) else (Idle, Some (ERet q ORelease ROk)))
  (* lock: File::create (O_CREAT|O_TRUNC) *)
  | LCreate =>
      match bind f with
      | Some i => (set_inode f i CEmpty, (LWrite i, None))
      | None => let i := length (inodes f) in
                ({| bind := Some i; inodes := inodes f ++ [CEmpty] |}, (LWrite i, None))
      end
  (* lock: write_all(pid) (+ sync_all, flush) *)
  | LWrite fd =>
      (set_inode f fd (CPid q), (Idle, Some (ERet q OLock ROk)))
  end.

Definition entry (o : op) : pc :=
  match o with
  | OCleanup => CList
  | OLock => GOpen (KRel1 true)
  | ORelease => GOpen (KRel1 false)
  | OIsLocked => GOpen KIsLocked
  | OGet => GOpen KGet
  end.

Definition pc_eqb_idle (c : pc) : bool := match c with Idle => true | _ => false end.
Definition pc_is_dead (c : pc) : bool := match c with Dead => true | _ => false end.

(* exec: None when the label is not enabled (such labels are skipped by `run`). *)
Definition exec (s : state) (l : label) : option (state * option event) :=
  let q := fst l in
  match nth_error (procs s) q with
  | None => None
  | Some c =>
    match snd l with
    | AStart o =>
        if pc_eqb_idle c
        then Some ({| fs := fs s; procs := set_nth (procs s) q (entry o) |}, None)
        else None
    | ACrash =>
        if pc_is_dead c then None
        else Some ({| fs := fs s; procs := set_nth (procs s) q Dead |}, None)
    | AStep =>
        match c with
        | Idle | Dead => None
        | _ =>
          let '(f', (c', ev)) := sys_step q (alive s) (fs s) c in
          Some ({| fs := f'; procs := set_nth (procs s) q c' |}, ev)
        end
    end
  end.

Definition init (n : nat) (f : fsys) : state := {| fs := f; procs := repeat Idle n |}.

Definition fs_absent : fsys := {| bind := None; inodes := [] |}.
Definition fs_with (c : content) : fsys := {| bind := Some 0; inodes := [c] |}.

(* states and events along a schedule (disabled labels are skipped) *)
Fixpoint trace (s : state) (sched : list label) : list (label * state * option event) :=
  match sched with
  | [] => []
  | l :: r =>
    match exec s l with
    | Some (s', ev) => (l, s', ev) :: trace s' r
    | None => trace s r
    end
  end.

Fixpoint run (s : state) (sched : list label) : state :=
  match sched with
  | [] => s
  | l :: r => match exec s l with Some (s', _) => run s' r | None => run s r end
  end.

(* what an outside observer sees at the path *)
Definition view (f : fsys) : option content :=
  match bind f with Some i => Some (lookup f i) | None => None end.
