(* C26 — the property and the classes of histories it is stated for. *)
From SwayV Require Import Base.Util C26.Model.

Section Spec.
Variable R : Type.
Variable check : path -> text -> list (option R) -> R * list diag.
Variable uses : path -> text -> list path.

(* strict descendants of the root of [t] *)
Definition tdesc (t : mtree) : list path := flat_map tpaths (tsubs t).

(* [uses m ⊆ submodule_closure m] for every module of the tree, for the texts [disk]:
   a module reads, besides its own text, only results of its (transitive) submodules. *)
Definition closed_ws (t : mtree) (disk : path -> text) : Prop :=
  forall s, In s (tnodes t) -> incl (uses (troot s) (disk (troot s))) (tdesc s).
Definition closed_wsb (t : mtree) (disk : path -> text) : bool :=
  forallb (fun s => forallb (fun q => memp q (tdesc s)) (uses (troot s) (disk (troot s)))) (tnodes t).

(* the excluded class: some module reads the result of a module that is not one of its submodules
   (e.g. a sibling brought in with `use ::a::f;`) *)
Definition sibling_use (t : mtree) (disk : path -> text) : Prop := closed_wsb t disk = false.

(* diagnostics a from-scratch check of the subtree [s] emits *)
Definition fresh_diags (disk : path -> text) (s : mtree) : list diag :=
  ts_diags R (tc_fresh R check uses disk s (init_ts R (fun _ => None))).

(* no module subtree that the edit leaves untouched emits diagnostics of its own while it is
   type checked (diagnostics of the whole-program passes are not concerned: they are recomputed) *)
Definition quiet_unedited (t : mtree) (r : request) : Prop :=
  forall s, In s (tnodes t) -> ~ In (r_uri r) (tpaths s) -> fresh_diags (r_disk r) s = [].

(* History discipline: what the editor protocol guarantees when every request is compiled
   (or cancelled and superseded by a request for the same file):
   - the module structure is [t] throughout;
   - a didChange carries a version larger than every earlier version of that file, concerns an open
     file that is a module of the package;
   - the texts differ from those of the last completed compilation only in the file that carries
     the version. *)
Definition bump (maxv : path -> N) (r : request) : path -> N :=
  match r_version r with
  | Some v => fun p => if N.eqb p (r_uri r) then N.max v (maxv p) else maxv p
  | None => maxv
  end.

Fixpoint disciplined (t : mtree) (prev : option (path -> text)) (maxv : path -> N)
         (h : list request) : Prop :=
  match h with
  | [] => True
  | r :: h' =>
    r_tree r = t /\
    (forall v, r_version r = Some v ->
       N.lt (maxv (r_uri r)) v /\ In (r_uri r) (r_open r) /\ In (r_uri r) (tpaths t)) /\
    (forall d, prev = Some d -> forall p, In p (tpaths t) -> r_disk r p <> d p ->
       p = r_uri r /\ r_version r <> None) /\
    closed_ws t (r_disk r) /\
    (r_version r <> None -> quiet_unedited t r) /\
    disciplined t (if cancelled r then prev else Some (r_disk r)) (bump maxv r) h'
  end.

(* the same without the two semantic side conditions: pure editor protocol *)
Fixpoint protocol (t : mtree) (prev : option (path -> text)) (maxv : path -> N)
         (h : list request) : Prop :=
  match h with
  | [] => True
  | r :: h' =>
    r_tree r = t /\
    (forall v, r_version r = Some v ->
       N.lt (maxv (r_uri r)) v /\ In (r_uri r) (r_open r) /\ In (r_uri r) (tpaths t)) /\
    (forall d, prev = Some d -> forall p, In p (tpaths t) -> r_disk r p <> d p ->
       p = r_uri r /\ r_version r <> None) /\
    protocol t (if cancelled r then prev else Some (r_disk r)) (bump maxv r) h'
  end.

(* what the editor alone guarantees, whether or not compilations are cancelled: consecutive
   requests differ only in the file of the later one *)
Fixpoint editor_seq (t : mtree) (prev : option (path -> text)) (maxv : path -> N)
         (h : list request) : Prop :=
  match h with
  | [] => True
  | r :: h' =>
    r_tree r = t /\
    (forall v, r_version r = Some v ->
       N.lt (maxv (r_uri r)) v /\ In (r_uri r) (r_open r) /\ In (r_uri r) (tpaths t)) /\
    (forall d, prev = Some d -> forall p, In p (tpaths t) -> r_disk r p <> d p ->
       p = r_uri r /\ r_version r <> None) /\
    editor_seq t (Some (r_disk r)) (bump maxv r) h'
  end.

(* the texts of the last request that was compiled to completion *)
Fixpoint last_done (prev : option (path -> text)) (h : list request) : option (path -> text) :=
  match h with
  | [] => prev
  | r :: h' => last_done (if cancelled r then prev else Some (r_disk r)) h'
  end.

Definition expected (t : mtree) (h : list request) : option (output R) :=
  match last_done None h with
  | Some d => Some (fresh R check uses t d)
  | None => None
  end.

End Spec.
