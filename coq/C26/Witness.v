(* C26 — explicit witnesses outside the proved class, evaluated with a concrete [check]
   that hashes the module's text and the results it reads. *)
From SwayV Require Import Base.Util C26.Model C26.Spec.
Local Open Scope N_scope.

Definition hash_res (rs : list (option N)) : N :=
  fold_left (fun a o => (a * 31 + match o with Some r => r + 1 | None => 0 end)%N) rs 7%N.
(* a text [t] emits one diagnostic of its own iff it is odd *)
Definition wcheck (p : path) (t : text) (rs : list (option N)) : N * list diag :=
  (((p + 1) * 1000003 + t * 101 + hash_res rs)%N, if N.odd t then [p] else []).

(* root 0 with `mod a; mod b;` (1 and 2) *)
Definition T1 : mtree := MNode 0 [MNode 1 []; MNode 2 []].
Definition uses_sibling (p : path) (t : text) : list path := if N.eqb p 2 then [1%N] else [].
Definition uses_none (p : path) (t : text) : list path := [].

Definition mkreq (disk : path -> text) (uri : path) (v : option version) (c : option nat) : request :=
  {| r_tree := T1; r_disk := disk; r_open := [0;1;2]%N; r_uri := uri; r_version := v;
     r_gc := true; r_cancel := c |}.

Definition d0 (p : path) : text := (10 * (p + 1))%N.
Definition d1 (p : path) : text := if N.eqb p 1 then 50%N else d0 p.        (* a.sw edited *)
Definition d2 (p : path) : text := if N.eqb p 2 then 70%N else d1 p.        (* then b.sw edited *)
Definition e0 (p : path) : text := if N.eqb p 2 then 31%N else d0 p.        (* b.sw has a diagnostic *)
Definition e1 (p : path) : text := if N.eqb p 1 then 50%N else e0 p.

Definition h_sibling : list request := [mkreq d0 0 None None; mkreq d1 1 (Some 2%N) None].
Definition h_lostdiag : list request := [mkreq e0 0 None None; mkreq e1 1 (Some 2%N) None].
Definition h_cancel : list request :=
  [mkreq d0 0 None None; mkreq d1 1 (Some 2%N) (Some 1%nat); mkreq d2 2 (Some 2%N) None].

Ltac in3 H := repeat (destruct H as [<-|H]; [|]); [..|destruct H].

Lemma T1_nodup : NoDup (tpaths T1).
Proof. vm_compute. repeat constructor; simpl; intuition discriminate. Qed.

Lemma sibling_protocol : protocol T1 None (fun _ => 0%N) h_sibling.
Proof.
  simpl. repeat split; try discriminate; try (intros; discriminate).
  - inversion H; subst. reflexivity.
  - simpl; auto.
  - simpl; auto.
  - inversion H; subst. simpl in H0. destruct H0 as [<-|[<-|[<-|[]]]]; try reflexivity;
      exfalso; apply H1; reflexivity.
Qed.

(* the sibling scenario: b reads a's result; a is edited; b's typed entry is judged up to date *)
Lemma stale_sibling_refuted :
  NoDup (tpaths T1) /\ (theight T1 < 3)%nat /\
  protocol T1 None (fun _ => 0%N) h_sibling /\
  (forall r, In r h_sibling -> sibling_use uses_sibling T1 (r_disk r)) /\
  (forall r, In r h_sibling -> forall s, In s (tnodes T1) ->
      fresh_diags N wcheck uses_sibling (r_disk r) s = []) /\
  exists s, run N wcheck uses_sibling 3%nat (init_lsp N) h_sibling = Ok s /\
            l_obs N s <> expected N wcheck uses_sibling T1 h_sibling /\
            l_trace N s = [[]; [2%N]].
Proof.
  split; [exact T1_nodup|]. split; [simpl; lia|]. split; [exact sibling_protocol|].
  split; [intros r [<-|[<-|[]]]; reflexivity|].
  split.
  { intros r [<-|[<-|[]]] s [<-|[<-|[<-|[]]]]; reflexivity. }
  eexists. split; [vm_compute; reflexivity|]. split; [|vm_compute; reflexivity].
  vm_compute. intros H. discriminate H.
Qed.

(* closed workspace, but the reused module b has a diagnostic of its own: it is not re-emitted *)
Lemma lostdiag_protocol : protocol T1 None (fun _ => 0%N) h_lostdiag.
Proof.
  simpl. repeat split; try discriminate; try (intros; discriminate).
  - inversion H; subst. reflexivity.
  - simpl; auto.
  - simpl; auto.
  - inversion H; subst. simpl in H0. destruct H0 as [<-|[<-|[<-|[]]]]; try reflexivity;
      exfalso; apply H1; reflexivity.
Qed.

Lemma reused_diagnostics_refuted :
  NoDup (tpaths T1) /\ (theight T1 < 3)%nat /\
  protocol T1 None (fun _ => 0%N) h_lostdiag /\
  (forall r, In r h_lostdiag -> closed_ws uses_none T1 (r_disk r)) /\
  exists s, run N wcheck uses_none 3%nat (init_lsp N) h_lostdiag = Ok s /\
            l_obs N s <> expected N wcheck uses_none T1 h_lostdiag /\
            option_map fst (l_obs N s) = option_map fst (expected N wcheck uses_none T1 h_lostdiag) /\
            l_trace N s = [[]; [2%N]].
Proof.
  split; [exact T1_nodup|]. split; [simpl; lia|]. split; [exact lostdiag_protocol|].
  split; [intros r _ s _ q []|].
  eexists. split; [vm_compute; reflexivity|]. split; [|split; vm_compute; reflexivity].
  vm_compute. intros H. discriminate H.
Qed.

(* closed, quiet workspace; the edit of a is cancelled by an edit of b: a maps to None in the
   next request, its typed entry (of the old text) is judged up to date *)
Lemma cancel_editor_seq : editor_seq T1 None (fun _ => 0%N) h_cancel.
Proof.
  simpl. repeat split; try discriminate; try (intros; discriminate).
  - inversion H; subst. reflexivity.
  - simpl; auto.
  - simpl; auto.
  - inversion H; subst. simpl in H0. destruct H0 as [<-|[<-|[<-|[]]]]; try reflexivity;
      exfalso; apply H1; reflexivity.
  - inversion H; subst. reflexivity.
  - simpl; auto.
  - simpl; auto.
  - inversion H; subst. simpl in H0. destruct H0 as [<-|[<-|[<-|[]]]]; try reflexivity;
      exfalso; apply H1; reflexivity.
Qed.

Lemma cancelled_edit_refuted :
  NoDup (tpaths T1) /\ (theight T1 < 3)%nat /\
  editor_seq T1 None (fun _ => 0%N) h_cancel /\
  (forall r, In r h_cancel -> closed_ws uses_none T1 (r_disk r)) /\
  (forall r, In r h_cancel -> forall s, In s (tnodes T1) ->
      fresh_diags N wcheck uses_none (r_disk r) s = []) /\
  exists s, run N wcheck uses_none 3%nat (init_lsp N) h_cancel = Ok s /\
            l_obs N s <> expected N wcheck uses_none T1 h_cancel /\
            l_trace N s = [[]; [1%N]].
Proof.
  split; [exact T1_nodup|]. split; [simpl; lia|]. split; [exact cancel_editor_seq|].
  split; [intros r _ s _ q []|].
  split.
  { intros r [<-|[<-|[<-|[]]]] s [<-|[<-|[<-|[]]]]; reflexivity. }
  eexists. split; [vm_compute; reflexivity|]. split; [|vm_compute; reflexivity].
  vm_compute. intros H. discriminate H.
Qed.
