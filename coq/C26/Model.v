(* C26 — model of the language server's incremental compilation of ONE package:
   sway-core/src/query_engine/mod.rs   (ModuleCacheMap, ProgramsCacheMap, FunctionsCacheMap, CowCache)
   sway-core/src/lib.rs                (parse_module_tree priming, is_parse_module_cache_up_to_date,
                                        is_ty_module_cache_up_to_date, compile_to_ast, check_should_abort)
   sway-core/src/semantic_analysis/module.rs (TyModule::type_check, get_cached_ty_module_if_up_to_date)
   forc-pkg/src/pkg.rs check            (final retrigger test)
   sway-lsp/src/handlers/notification.rs (file_versions), server_state.rs (compilation thread:
                                        engines clone, garbage_collect_module, commit + swap only when the
                                        compilation succeeded and the programs cache was not reused),
   sway-lsp/src/core/session.rs         (parse_project: diagnostics/tokens rewritten only when
                                        needs_reprocessing).
   No proofs here.

   Abstractions (listed in the claim):
   * a file's content is an abstract [text]; the content hash kept in the cache is the text itself
     (no DefaultHasher collisions) and "modification time unchanged" is subsumed by "content unchanged";
   * type checking one module is an uninterpreted [check]: it reads the module's text and the results
     of the modules listed by [uses] (plus its submodules) from the namespace built so far, and yields
     the module's typed result and the diagnostics it emits;
   * submodules are listed in evaluation order (module_eval_order);
   * parsing and type checking never fail fatally (recoverable errors are diagnostics);
   * the root module is treated like any other module by the typed-cache lookup. *)
From SwayV Require Import Base.Util.

Definition path := N.
Definition text := N.
Definition version := N.
Definition diag := N.

Arguments N.eqb : simpl never.
Arguments N.leb : simpl never.

(* the module tree discovered by parse_module_tree: a file and its `mod` items *)
Inductive mtree := MNode (p : path) (subs : list mtree).
Definition troot (t : mtree) : path := match t with MNode p _ => p end.
Definition tsubs (t : mtree) : list mtree := match t with MNode _ s => s end.
Fixpoint tpaths (t : mtree) : list path :=
  match t with MNode p subs => p :: flat_map tpaths subs end.
Fixpoint theight (t : mtree) : nat :=
  match t with MNode _ subs => S (fold_right (fun s m => Nat.max (theight s) m) 0%nat subs) end.
(* all subtrees (nodes) of a tree *)
Fixpoint tnodes (t : mtree) : list mtree :=
  match t with MNode p subs => t :: flat_map tnodes subs end.

Definition memp (p : path) (l : list path) : bool := existsb (N.eqb p) l.

(* ---- CowCache<T> ---- *)
Record cow (A : Type) := { inner : A; local : option A }.
Arguments inner {A}. Arguments local {A}.
Definition cow_new {A} (a : A) : cow A := {| inner := a; local := None |}.
Definition cow_read {A} (c : cow A) : A := match local c with Some l => l | None => inner c end.
Definition cow_write {A} (f : A -> A) (c : cow A) : cow A :=
  {| inner := inner c; local := Some (f (cow_read c)) |}.
Definition cow_commit {A} (c : cow A) : cow A :=
  match local c with Some l => {| inner := l; local := None |} | None => c end.
(* QueryEngine::clone: CowCache::new(self.read().clone()) *)
Definition cow_clone {A} (c : cow A) : cow A := cow_new (cow_read c).

Section Model.
Variable R : Type.                                   (* typed result of one module *)
Variable check : path -> text -> list (option R) -> R * list diag.
Variable uses : path -> text -> list path.           (* modules whose results [check] reads besides the submodules *)

Definition env := path -> option R.
Definition upd (e : env) (p : path) (r : option R) : env := fun q => if N.eqb q p then r else e q.
Definition upd_list (e : env) (l : list (path * option R)) : env :=
  fold_left (fun e qr => upd e (fst qr) (snd qr)) l e.
Definition snapshot (e : env) (t : mtree) : list (path * option R) :=
  map (fun q => (q, e q)) (tpaths t).
Definition empty_env : env := fun _ => None.

(* ---- module cache ---- *)
Record parsed_info := { p_deps : list path; p_hash : text; p_ver : option version }.
Record typed_info := { t_env : list (path * option R); t_ver : option version }.
Record centry := { ce_parsed : parsed_info; ce_typed : option typed_info }.
Definition mcache := path -> option centry.
Definition output := (list (path * option R) * list diag)%type.   (* Programs + handler_data *)
Definition fcache := list (path * N).                              (* function cache: (source file, key) *)

Definition file_versions := path -> option (option version).

(* version.is_none_or(|v| cached.is_some_and(|cv| v <= cv)) *)
Definition ver_ok (v : option version) (cached : option version) : bool :=
  match v with
  | None => true
  | Some v => match cached with Some cv => N.leb v cv | None => false end
  end.

Fixpoint all_opt (g : path -> option bool) (l : list path) : option bool :=
  match l with
  | [] => Some true
  | d :: l' => match g d with Some true => all_opt g l' | o => o end
  end.

(* is_parse_module_cache_up_to_date; None = out of fuel *)
Fixpoint parse_utd (fuel : nat) (c : mcache) (fv : file_versions) (disk : path -> text) (p : path)
  : option bool :=
  match fuel with
  | O => None
  | S f =>
    match c p with
    | None => Some false
    | Some e =>
      let pi := ce_parsed e in
      let ok := match fv p with
                | None => N.eqb (disk p) (p_hash pi)          (* file system fallback *)
                | Some v => ver_ok v (p_ver pi)
                end in
      if ok then all_opt (parse_utd f c fv disk) (p_deps pi) else Some false
    end
  end.

(* is_ty_module_cache_up_to_date *)
Fixpoint ty_utd (fuel : nat) (c : mcache) (fv : file_versions) (p : path) : option bool :=
  match fuel with
  | O => None
  | S f =>
    match c p with
    | None => Some false
    | Some e =>
      match ce_typed e with
      | None => Some false
      | Some ty =>
        let ok := match fv p with
                  | None => true
                  | Some v => ver_ok v (t_ver ty)
                  end in
        if ok then all_opt (ty_utd f c fv) (p_deps (ce_parsed e)) else Some false
      end
    end
  end.

(* ModuleCacheMap::update_entry: common + parsed replaced, typed kept *)
Definition update_parsed (c : mcache) (p : path) (pi : parsed_info) : mcache :=
  fun q => if N.eqb q p
           then Some {| ce_parsed := pi;
                        ce_typed := match c p with Some e => ce_typed e | None => None end |}
           else c q.

Definition join_ver (v : option (option version)) : option version :=
  match v with Some (Some x) => Some x | _ => None end.

(* parse_module_tree: submodules first, then the module's own entry *)
Fixpoint prime (fv : file_versions) (disk : path -> text) (t : mtree) (c : mcache) : mcache :=
  match t with
  | MNode p subs =>
    let c1 := (fix go (l : list mtree) (c : mcache) : mcache :=
                 match l with [] => c | s :: l' => go l' (prime fv disk s c) end) subs c in
    update_parsed c1 p {| p_deps := map troot subs; p_hash := disk p; p_ver := join_ver (fv p) |}
  end.

(* update_typed_module_cache_entry: cache.get_mut(key).unwrap().set_typed(..) *)
Definition set_typed (c : mcache) (p : path) (ty : typed_info) : option mcache :=
  match c p with
  | None => None
  | Some e => Some (fun q => if N.eqb q p then Some {| ce_parsed := ce_parsed e; ce_typed := Some ty |}
                             else c q)
  end.

Record tcstate := { ts_env : env; ts_diags : list diag; ts_reused : list path; ts_cache : mcache }.

Definition deps_of (disk : path -> text) (p : path) (subs : list mtree) : list path :=
  map troot subs ++ uses p (disk p).

(* from-scratch type checking of a module tree *)
Fixpoint tc_fresh (disk : path -> text) (t : mtree) (st : tcstate) : tcstate :=
  match t with
  | MNode p subs =>
    let st1 := (fix go (l : list mtree) (st : tcstate) : tcstate :=
                  match l with [] => st | s :: l' => go l' (tc_fresh disk s st) end) subs st in
    let rd := check p (disk p) (map (ts_env st1) (deps_of disk p subs)) in
    {| ts_env := upd (ts_env st1) p (Some (fst rd)); ts_diags := ts_diags st1 ++ snd rd;
       ts_reused := ts_reused st1; ts_cache := ts_cache st1 |}
  end.

(* get_cached_ty_module_if_up_to_date *)
Definition cached_ty (fuel : nat) (c : mcache) (fv : file_versions) (p : path)
  : outcome (option typed_info) :=
  match c p with
  | None => Ok None
  | Some e =>
    match ce_typed e with
    | None => Ok None
    | Some ty =>
      match ty_utd fuel c fv p with
      | None => OutOfFuel
      | Some true => Ok (Some ty)
      | Some false => Ok None
      end
    end
  end.

(* TyModule::type_check with the typed-module cache *)
Fixpoint tc_inc (fuel : nat) (fv : file_versions) (disk : path -> text) (t : mtree) (st : tcstate)
  : outcome tcstate :=
  match t with
  | MNode p subs =>
    match cached_ty fuel (ts_cache st) fv p with
    | Ok (Some ty) =>
      (* import_cached_submodule: the cached namespace (with its submodules) is restored; nothing is emitted *)
      Ok {| ts_env := upd_list (ts_env st) (t_env ty); ts_diags := ts_diags st;
            ts_reused := ts_reused st ++ [p]; ts_cache := ts_cache st |}
    | Ok None =>
      match (fix go (l : list mtree) (st : tcstate) : outcome tcstate :=
               match l with
               | [] => Ok st
               | s :: l' => match tc_inc fuel fv disk s st with Ok st1 => go l' st1 | o => o end
               end) subs st with
      | Ok st1 =>
        let rd := check p (disk p) (map (ts_env st1) (deps_of disk p subs)) in
        let env2 := upd (ts_env st1) p (Some (fst rd)) in
        match set_typed (ts_cache st1) p {| t_env := snapshot env2 t; t_ver := join_ver (fv p) |} with
        | None => Panic 1
        | Some c2 => Ok {| ts_env := env2; ts_diags := ts_diags st1 ++ snd rd;
                           ts_reused := ts_reused st1; ts_cache := c2 |}
        end
      | o => o
      end
    | Err e => Err e
    | Panic s => Panic s
    | OutOfFuel => OutOfFuel
    end
  end.

Definition init_ts (c : mcache) : tcstate :=
  {| ts_env := empty_env; ts_diags := []; ts_reused := []; ts_cache := c |}.

(* what a from-scratch compilation of the texts yields *)
Definition fresh (t : mtree) (disk : path -> text) : output :=
  let st := tc_fresh disk t (init_ts (fun _ => None)) in (snapshot (ts_env st) t, ts_diags st).

(* ---- one compilation request as the compilation thread sees it ---- *)
Record request := {
  r_tree : mtree;                    (* module tree of the texts on disk *)
  r_disk : path -> text;             (* temp-dir contents when the request is compiled *)
  r_open : list path;                (* open documents *)
  r_uri : path;                      (* file of the notification *)
  r_version : option version;        (* Some v: didChange; None: didOpen / didSave *)
  r_gc : bool;                       (* garbage collection enabled *)
  r_cancel : option nat              (* Some j: retrigger flag raised before check point j *)
}.

(* handlers/notification.rs file_versions *)
Definition fv_of (r : request) : file_versions :=
  fun p => if memp p (r_open r)
           then (if N.eqb p (r_uri r) then Some (r_version r) else Some None)
           else None.

(* server_state::modified_file *)
Definition has_modified (r : request) : bool :=
  match r_version r with Some _ => memp (r_uri r) (r_open r) | None => false end.

Definition cancel_at (r : request) (k : nat) : bool :=
  match r_cancel r with Some j => Nat.leb j k | None => false end.
Definition cancelled (r : request) : bool := cancel_at r 4.

Record qstate := { q_mc : mcache; q_pc : option output; q_fc : fcache }.

(* QueryEngine::clear_module (the slabs of the type/decl engines are not modelled) *)
Definition clear_module (p : path) (q : qstate) : qstate :=
  {| q_mc := q_mc q; q_pc := q_pc q; q_fc := filter (fun e => negb (N.eqb (fst e) p)) (q_fc q) |}.

Inductive cres :=
| CCancelled
| CReused (o : output)
| CCompiled (o : output) (q : qstate) (reused : list path).

(* compile_to_ast + the retrigger test of forc_pkg::check, on the view [q] of the cloned engines *)
Definition compile (fuel : nat) (q : qstate) (r : request) : outcome cres :=
  let fv := fv_of r in
  let disk := r_disk r in
  let t := r_tree r in
  if cancel_at r 0 then Ok CCancelled else
  match parse_utd fuel (q_mc q) fv disk (troot t) with
  | None => OutOfFuel
  | Some true =>
    match q_pc q with
    | None => Panic 2                 (* get_programs_cache_entry(&path).unwrap() *)
    | Some o => if cancel_at r 4 then Ok CCancelled else Ok (CReused o)
    end
  | Some false =>
    let mc1 := prime fv disk t (q_mc q) in
    if cancel_at r 1 then Ok CCancelled else
    match tc_inc fuel fv disk t (init_ts mc1) with
    | Ok st =>
      if cancel_at r 2 then Ok CCancelled else
      let o := (snapshot (ts_env st) t, ts_diags st) in
      let q' := {| q_mc := ts_cache st; q_pc := Some o; q_fc := q_fc q |} in
      if cancel_at r 3 then Ok CCancelled else
      if cancel_at r 4 then Ok CCancelled else
      Ok (CCompiled o q' (ts_reused st))
    | Err e => Err e
    | Panic s => Panic s
    | OutOfFuel => OutOfFuel
    end
  end.

(* ---- the server ---- *)
Record lsp := {
  l_qe : cow qstate;                 (* the three CowCaches of the query engine, committed together *)
  l_obs : option output;             (* what the session shows: diagnostics + token map *)
  l_trace : list (list path)         (* reuse decisions of the compilations that completed *)
}.

Definition init_lsp : lsp :=
  {| l_qe := cow_new {| q_mc := fun _ => None; q_pc := None; q_fc := [] |}; l_obs := None; l_trace := [] |}.

(* one iteration of the compilation thread *)
Definition step (fuel : nat) (s : lsp) (r : request) : outcome lsp :=
  let clone := cow_clone (l_qe s) in
  let needs := orb (has_modified r) (match l_obs s with None => true | Some _ => false end) in
  let clone1 := if andb (r_gc r) needs then cow_write (clear_module (r_uri r)) clone else clone in
  match compile fuel (cow_read clone1) r with
  | Ok CCancelled => Ok s                                   (* the clone is dropped *)
  | Ok (CReused o) =>
    Ok {| l_qe := l_qe s; l_obs := if needs then Some o else l_obs s; l_trace := l_trace s |}
  | Ok (CCompiled o q' reused) =>
    (* engines_clone.qe().commit(); mem::swap(engines, engines_clone) *)
    Ok {| l_qe := cow_commit (cow_write (fun _ => q') clone1);
          l_obs := if needs then Some o else l_obs s;
          l_trace := l_trace s ++ [reused] |}
  | Err e => Err e
  | Panic p => Panic p
  | OutOfFuel => OutOfFuel
  end.

Fixpoint run (fuel : nat) (s : lsp) (h : list request) : outcome lsp :=
  match h with
  | [] => Ok s
  | r :: h' => match step fuel s r with Ok s1 => run fuel s1 h' | o => o end
  end.

End Model.
