(* C26 — cache validity functions characterised over the tree; the incremental type check
   simulates the from-scratch one under the coherence invariant. *)
From SwayV Require Import Base.Util C26.Model C26.Spec C26.Lemmas.

Section Proofs.
Variable R : Type.
Variable check : path -> text -> list (option R) -> R * list diag.
Variable uses : path -> text -> list path.

Notation env := (env R).
Notation tcstate := (tcstate R).
Notation mcache := (mcache R).
Notation tc_fresh := (tc_fresh R check uses).
Notation tc_inc := (tc_inc R check uses).
Notation init_ts := (init_ts R).
Notation Fenv := (Fenv R check uses).
Notation Fdiags := (Fdiags R check uses).
Notation fresh_list := (fresh_list R check uses).
Notation FLdiags := (FLdiags R check uses).
Notation closed_sub := (closed_sub uses).
Notation fresh_char_at := (fresh_char_at R check uses).

(* the parsed part of the cache mirrors the tree *)
Definition mirror (c : mcache) (s : mtree) : Prop :=
  forall s', In s' (tnodes s) ->
    exists e, c (troot s') = Some e /\ p_deps (ce_parsed R e) = map troot (tsubs s').

Lemma mirror_sub c p subs s : mirror c (MNode p subs) -> In s subs -> mirror c s.
Proof. intros H Hs s' Hs'. apply H. eapply tnodes_sub; eauto. Qed.

Lemma mirror_nodes c t s : mirror c t -> In s (tnodes t) -> mirror c s.
Proof. intros H Hs s' Hs'. apply H. eapply tnodes_trans; eauto. Qed.

Definition same_parsed (c0 c : mcache) : Prop :=
  forall q, option_map (ce_parsed R) (c q) = option_map (ce_parsed R) (c0 q).

Lemma mirror_same_parsed c0 c s : same_parsed c0 c -> mirror c0 s -> mirror c s.
Proof.
  intros Hp Hm s' Hs'. destruct (Hm s' Hs') as [e [He Hd]].
  specialize (Hp (troot s')). rewrite He in Hp. simpl in Hp.
  destruct (c (troot s')) as [e'|]; [|discriminate]. simpl in Hp. inversion Hp as [Hpe].
  exists e'. split; [reflexivity|]. rewrite Hpe. exact Hd.
Qed.

Lemma all_opt_forallb (g : path -> option bool) (b : mtree -> bool) subs :
  (forall s, In s subs -> g (troot s) = Some (b s)) ->
  all_opt g (map troot subs) = Some (forallb b subs).
Proof.
  induction subs as [|s l IHl]; intros H; simpl; [reflexivity|].
  rewrite (H s (or_introl eq_refl)). destruct (b s); simpl; [|reflexivity].
  apply IHl. intros s' Hs'. apply H. right. exact Hs'.
Qed.

(* ---- typed validity ---- *)
Definition ty_ok (c : mcache) (fv : file_versions) (p : path) : bool :=
  match c p with
  | Some e => match ce_typed R e with
              | Some ty => match fv p with None => true | Some v => ver_ok v (t_ver R ty) end
              | None => false
              end
  | None => false
  end.
Fixpoint ty_utd_tree (c : mcache) (fv : file_versions) (s : mtree) : bool :=
  match s with MNode p subs => ty_ok c fv p && forallb (ty_utd_tree c fv) subs end.

Lemma ty_utd_char c fv : forall s fuel, mirror c s -> (theight s < fuel)%nat ->
  ty_utd R fuel c fv (troot s) = Some (ty_utd_tree c fv s).
Proof.
  induction s as [p subs IH] using mtree_ind'. intros fuel Hm Hf.
  destruct fuel as [|f]; [inversion Hf|].
  destruct (Hm (MNode p subs) (tnodes_self _)) as [e [He Hd]].
  simpl troot in *. simpl tsubs in Hd.
  cbn [ty_utd ty_utd_tree]. unfold ty_ok. rewrite He.
  destruct (ce_typed R e) as [ty|]; [|reflexivity].
  destruct (match fv p with Some v => ver_ok v (t_ver R ty) | None => true end); [|reflexivity].
  rewrite Hd. simpl. apply all_opt_forallb. intros s Hs.
  rewrite Forall_forall in IH. apply IH; [exact Hs | eapply mirror_sub; eauto | ].
  pose proof (theight_sub p subs s Hs). lia.
Qed.

Lemma ty_utd_tree_ext c1 c2 fv : forall s, (forall q, In q (tpaths s) -> c1 q = c2 q) ->
  ty_utd_tree c1 fv s = ty_utd_tree c2 fv s.
Proof.
  induction s as [p subs IH] using mtree_ind'. intros H.
  cbn [ty_utd_tree]. unfold ty_ok. rewrite (H p (or_introl eq_refl)). f_equal.
  apply forallb_ext_in'. intros s Hs. rewrite Forall_forall in IH. apply IH; [exact Hs|].
  intros q Hq. apply H. simpl. right. apply in_flat_map. exists s; auto.
Qed.

Lemma ty_utd_tree_nodes c fv : forall t s, ty_utd_tree c fv t = true -> In s (tnodes t) ->
  ty_utd_tree c fv s = true.
Proof.
  induction t as [p subs IH] using mtree_ind'. intros s Ht Hs.
  simpl in Hs. destruct Hs as [<-|Hs]; [exact Ht|].
  apply in_flat_map in Hs. destruct Hs as [s0 [H0 Hs]].
  cbn [ty_utd_tree] in Ht. apply andb_true_iff in Ht. destruct Ht as [_ Ht].
  rewrite forallb_forall in Ht. rewrite Forall_forall in IH. eapply IH; eauto.
Qed.

Lemma ty_utd_tree_root c fv s : ty_utd_tree c fv s = true -> ty_ok c fv (troot s) = true.
Proof. destruct s as [p subs]. cbn [ty_utd_tree]. intros H. apply andb_true_iff in H. apply H. Qed.

(* ---- parse validity ---- *)
Definition parse_ok (c : mcache) (fv : file_versions) (disk : path -> text) (p : path) : bool :=
  match c p with
  | Some e => match fv p with
              | None => N.eqb (disk p) (p_hash (ce_parsed R e))
              | Some v => ver_ok v (p_ver (ce_parsed R e))
              end
  | None => false
  end.
Fixpoint parse_utd_tree (c : mcache) (fv : file_versions) (disk : path -> text) (s : mtree) : bool :=
  match s with MNode p subs => parse_ok c fv disk p && forallb (parse_utd_tree c fv disk) subs end.

Lemma parse_utd_char c fv disk : forall s fuel, mirror c s -> (theight s < fuel)%nat ->
  parse_utd R fuel c fv disk (troot s) = Some (parse_utd_tree c fv disk s).
Proof.
  induction s as [p subs IH] using mtree_ind'. intros fuel Hm Hf.
  destruct fuel as [|f]; [inversion Hf|].
  destruct (Hm (MNode p subs) (tnodes_self _)) as [e [He Hd]].
  simpl troot in *. simpl tsubs in Hd.
  cbn [parse_utd parse_utd_tree]. unfold parse_ok. rewrite He.
  destruct (match fv p with Some v => ver_ok v (p_ver (ce_parsed R e))
            | None => N.eqb (disk p) (p_hash (ce_parsed R e)) end); [|reflexivity].
  rewrite Hd. simpl. apply all_opt_forallb. intros s Hs.
  rewrite Forall_forall in IH. apply IH; [exact Hs | eapply mirror_sub; eauto | ].
  pose proof (theight_sub p subs s Hs). lia.
Qed.

Lemma parse_utd_tree_false c fv disk : forall t s, In s (tnodes t) ->
  parse_ok c fv disk (troot s) = false -> parse_utd_tree c fv disk t = false.
Proof.
  induction t as [p subs IH] using mtree_ind'. intros s Hs Hk.
  cbn [parse_utd_tree]. simpl in Hs. destruct Hs as [<-|Hs].
  - simpl in Hk. rewrite Hk. reflexivity.
  - apply in_flat_map in Hs. destruct Hs as [s0 [H0 Hs]].
    apply andb_false_iff. right. rewrite Forall_forall in IH.
    destruct (forallb (parse_utd_tree c fv disk) subs) eqn:E; [|reflexivity].
    rewrite forallb_forall in E. rewrite <- (E s0 H0). eapply IH; eauto.
Qed.

Lemma parse_utd_tree_true c fv disk : forall t,
  (forall s, In s (tnodes t) -> parse_ok c fv disk (troot s) = true) ->
  parse_utd_tree c fv disk t = true.
Proof.
  induction t as [p subs IH] using mtree_ind'. intros H.
  cbn [parse_utd_tree]. apply andb_true_iff. split.
  - apply (H (MNode p subs)). apply tnodes_self.
  - apply forallb_forall. intros s Hs. rewrite Forall_forall in IH. apply IH; [exact Hs|].
    intros s' Hs'. apply H. eapply tnodes_sub; eauto.
Qed.

(* ---- coherence of the typed entries ---- *)
Definition cohr (disk : path -> text) (c : mcache) (fv : file_versions) (s : mtree) : Prop :=
  forall s' e ty, In s' (tnodes s) -> c (troot s') = Some e -> ce_typed R e = Some ty ->
    ty_utd_tree c fv s' = true ->
    t_env R ty = snapshot R (Fenv disk s') s' /\ Fdiags disk s' = [].

Definition good (disk : path -> text) (c0 c : mcache) (fv : file_versions) (s : mtree) : Prop :=
  forall s', In s' (tnodes s) ->
    exists e ty, c (troot s') = Some e /\ ce_typed R e = Some ty /\
      t_env R ty = snapshot R (Fenv disk s') s' /\
      (c (troot s') = c0 (troot s') \/ t_ver R ty = join_ver (fv (troot s'))).

Lemma cohr_sub disk c fv p subs s : cohr disk c fv (MNode p subs) -> In s subs -> cohr disk c fv s.
Proof. intros H Hs s' e ty Hs'. apply H. eapply tnodes_sub; eauto. Qed.

Lemma cohr_ext disk c1 c2 fv s : (forall q, In q (tpaths s) -> c1 q = c2 q) ->
  cohr disk c1 fv s -> cohr disk c2 fv s.
Proof.
  intros H Hc s' e ty Hs' He Hty Hu.
  assert (Hsub : forall q, In q (tpaths s') -> c1 q = c2 q).
  { intros q Hq. apply H. eapply tnodes_paths; eauto. }
  apply (Hc s' e ty Hs').
  - rewrite (Hsub _ (troot_in_tpaths s')). exact He.
  - exact Hty.
  - rewrite (ty_utd_tree_ext c1 c2 fv s' Hsub). exact Hu.
Qed.

(* ---- the incremental type check ---- *)
Fixpoint inc_list (fuel : nat) (fv : file_versions) (disk : path -> text) (l : list mtree)
         (st : tcstate) : outcome tcstate :=
  match l with
  | [] => Ok st
  | s :: l' => match tc_inc fuel fv disk s st with Ok st1 => inc_list fuel fv disk l' st1 | o => o end
  end.

Lemma tc_inc_node fuel fv disk p subs st :
  tc_inc fuel fv disk (MNode p subs) st =
  match cached_ty R fuel (ts_cache R st) fv p with
  | Ok (Some ty) =>
    Ok {| ts_env := upd_list R (ts_env R st) (t_env R ty); ts_diags := ts_diags R st;
          ts_reused := ts_reused R st ++ [p]; ts_cache := ts_cache R st |}
  | Ok None =>
    match inc_list fuel fv disk subs st with
    | Ok st1 =>
      let rd := check p (disk p) (map (ts_env R st1) (deps_of uses disk p subs)) in
      let env2 := upd R (ts_env R st1) p (Some (fst rd)) in
      match set_typed R (ts_cache R st1) p
              {| t_env := snapshot R env2 (MNode p subs); t_ver := join_ver (fv p) |} with
      | None => Panic 1
      | Some c2 => Ok {| ts_env := env2; ts_diags := ts_diags R st1 ++ snd rd;
                         ts_reused := ts_reused R st1; ts_cache := c2 |}
      end
    | o => o
    end
  | Err e => Err e
  | Panic s => Panic s
  | OutOfFuel => OutOfFuel
  end.
Proof.
  cbn [tc_inc].
  assert (E : forall l st0,
    (fix go (l : list mtree) (st : tcstate) {struct l} : outcome tcstate :=
       match l with
       | [] => Ok st
       | s :: l' => match tc_inc fuel fv disk s st with Ok st1 => go l' st1 | o => o end
       end) l st0 = inc_list fuel fv disk l st0).
  { induction l as [|a l IHl]; intros st0; simpl; [reflexivity|].
    destruct (tc_inc fuel fv disk a st0); try reflexivity. apply IHl. }
  rewrite E. reflexivity.
Qed.

Definition inc_ok (disk : path -> text) (fv : file_versions) (fuel : nat) (s : mtree) : Prop :=
  forall st stf,
    (forall q, ts_env R st q = ts_env R stf q) ->
    mirror (ts_cache R st) s -> cohr disk (ts_cache R st) fv s ->
    closed_sub disk s -> NoDup (tpaths s) -> (theight s < fuel)%nat ->
    exists st', tc_inc fuel fv disk s st = Ok st' /\
      (forall q, ts_env R st' q = ts_env R (tc_fresh disk s stf) q) /\
      ts_diags R st' = ts_diags R st ++ Fdiags disk s /\
      same_parsed (ts_cache R st) (ts_cache R st') /\
      (forall q, ~ In q (tpaths s) -> ts_cache R st' q = ts_cache R st q) /\
      good disk (ts_cache R st) (ts_cache R st') fv s.

Lemma FLdiags_cons disk s l : fresh_char_at disk s -> Forall (fresh_char_at disk) l ->
  FLdiags disk (s :: l) = Fdiags disk s ++ FLdiags disk l.
Proof.
  intros Hs Hl. unfold Lemmas.FLdiags, Lemmas.fresh_list. simpl fold_left.
  destruct (fresh_char_list R check uses disk l Hl (tc_fresh disk s (init_ts (fun _ => None))))
    as [_ [D _]].
  unfold Lemmas.fresh_list in D. rewrite D. reflexivity.
Qed.

Lemma inc_list_ok disk fv fuel : forall l, Forall (inc_ok disk fv fuel) l ->
  forall st stf,
    (forall q, ts_env R st q = ts_env R stf q) ->
    (forall s, In s l -> mirror (ts_cache R st) s /\ cohr disk (ts_cache R st) fv s /\
                         closed_sub disk s /\ (theight s < fuel)%nat) ->
    NoDup (flat_map tpaths l) ->
    exists st1, inc_list fuel fv disk l st = Ok st1 /\
      (forall q, ts_env R st1 q = ts_env R (fresh_list disk l stf) q) /\
      ts_diags R st1 = ts_diags R st ++ FLdiags disk l /\
      same_parsed (ts_cache R st) (ts_cache R st1) /\
      (forall q, ~ In q (flat_map tpaths l) -> ts_cache R st1 q = ts_cache R st q) /\
      (forall s, In s l -> good disk (ts_cache R st) (ts_cache R st1) fv s).
Proof.
  induction l as [|s l IHl]; intros HF st stf He Hh Hnd.
  - exists st. simpl. split; [reflexivity|]. split; [exact He|]. split; [|split; [|split]].
    + unfold Lemmas.FLdiags. simpl. rewrite app_nil_r. reflexivity.
    + intros q. reflexivity.
    + intros q _. reflexivity.
    + intros s [].
  - inversion HF as [|? ? Hs Hl]; subst.
    apply NoDup_flat_map_cons in Hnd. destruct Hnd as [Nds [Ndl Hdisj]].
    destruct (Hh s (or_introl eq_refl)) as [Hm [Hc [Hcl Hf]]].
    destruct (Hs st stf He Hm Hc Hcl Nds Hf) as [sta [Ea [Enva [Da [Pa [Oa Ga]]]]]].
    assert (Hh' : forall s0, In s0 l -> mirror (ts_cache R sta) s0 /\
                    cohr disk (ts_cache R sta) fv s0 /\ closed_sub disk s0 /\ (theight s0 < fuel)%nat).
    { intros s0 H0. destruct (Hh s0 (or_intror H0)) as [Hm0 [Hc0 [Hcl0 Hf0]]].
      split; [eapply mirror_same_parsed; eauto|]. split; [|auto].
      eapply cohr_ext; [|exact Hc0]. intros q Hq. symmetry. apply Oa. intros Hq'.
      eapply Hdisj; [exact Hq'|]. apply in_flat_map. exists s0; auto. }
    destruct (IHl Hl sta (tc_fresh disk s stf) Enva Hh' Ndl) as [st1 [E1 [Env1 [D1 [P1 [O1 G1]]]]]].
    exists st1. simpl inc_list. rewrite Ea. split; [exact E1|]. split; [|split; [|split; [|split]]].
    + intros q. rewrite Env1. reflexivity.
    + rewrite D1, Da. rewrite FLdiags_cons.
      * rewrite app_assoc. reflexivity.
      * apply fresh_char. exact Hcl.
      * apply Forall_forall. intros s0 H0. apply fresh_char. apply (Hh s0 (or_intror H0)).
    + intros q. rewrite P1. apply Pa.
    + intros q Hq. rewrite O1, Oa; auto.
      * intros Hq'. apply Hq. simpl. apply in_or_app. left. exact Hq'.
      * intros Hq'. apply Hq. simpl. apply in_or_app. right. exact Hq'.
    + intros s0 [<-|H0].
      * intros s' Hs'. destruct (Ga s' Hs') as [e [ty [He' [Hty [Hte Hv]]]]].
        assert (Hr : ts_cache R st1 (troot s') = ts_cache R sta (troot s')).
        { apply O1. intros Hq'. eapply Hdisj; [|exact Hq'].
          eapply tnodes_paths; eauto. apply troot_in_tpaths. }
        exists e, ty. rewrite Hr. repeat split; auto.
      * intros s' Hs'. destruct (G1 s0 H0 s' Hs') as [e [ty [He' [Hty [Hte Hv]]]]].
        exists e, ty. repeat split; auto. destruct Hv as [Hv|Hv]; [left|right; exact Hv].
        rewrite Hv. apply Oa. intros Hq'. eapply Hdisj; [exact Hq'|].
        apply in_flat_map. exists s0. split; [exact H0|].
        eapply tnodes_paths; eauto. apply troot_in_tpaths.
Qed.

Lemma tc_inc_ok disk fv fuel : forall s, inc_ok disk fv fuel s.
Proof.
  induction s as [p subs IH] using mtree_ind'.
  intros st stf He Hm Hc Hcl Hnd Hf.
  set (c := ts_cache R st) in *.
  destruct (Hm (MNode p subs) (tnodes_self _)) as [e [Hce Hdeps]]. simpl troot in Hce.
  pose proof (fresh_char R check uses disk (MNode p subs) Hcl) as FC.
  rewrite tc_inc_node. fold c. unfold cached_ty. rewrite Hce.
  pose proof (ty_utd_char c fv (MNode p subs) fuel Hm Hf) as Hutd. simpl troot in Hutd.
  (* decide between reuse and recheck *)
  assert (Hcase : (exists ty, ce_typed R e = Some ty /\ ty_utd_tree c fv (MNode p subs) = true) \/
                  (match ce_typed R e with
                   | Some ty => match ty_utd R fuel c fv p with
                                | Some true => Ok (Some ty) | Some false => Ok None | None => OutOfFuel end
                   | None => Ok None end = Ok None)).
  { destruct (ce_typed R e) as [ty|]; [|right; reflexivity].
    rewrite Hutd. destruct (ty_utd_tree c fv (MNode p subs)); [left; eauto | right; reflexivity]. }
  destruct Hcase as [[ty [Hty Hu]]|Hrecheck].
  - (* reuse *)
    rewrite Hty, Hutd, Hu.
    destruct (Hc (MNode p subs) e ty (tnodes_self _) Hce Hty Hu) as [Hte Hd0].
    eexists. split; [reflexivity|]. cbn [ts_env ts_diags ts_cache ts_reused].
    split; [|split; [|split; [|split]]].
    + intros q. rewrite Hte, upd_list_snapshot. destruct (FC stf) as [E _]. rewrite E, He. reflexivity.
    + rewrite Hd0, app_nil_r. reflexivity.
    + intros q. reflexivity.
    + intros q _. reflexivity.
    + intros s' Hs'. pose proof (ty_utd_tree_nodes c fv _ s' Hu Hs') as Hu'.
      pose proof (ty_utd_tree_root c fv s' Hu') as Hok. unfold ty_ok in Hok.
      destruct (c (troot s')) as [e'|] eqn:He'; [|discriminate].
      destruct (ce_typed R e') as [ty'|] eqn:Hty'; [|discriminate].
      destruct (Hc s' e' ty' Hs' He' Hty' Hu') as [Hte' _].
      exists e', ty'. repeat split; auto.
  - (* recheck *)
    rewrite Hrecheck. clear Hrecheck.
    apply closed_sub_node in Hcl. destruct Hcl as [Huses Hcls].
    pose proof (NoDup_node p subs Hnd) as [Hpn Hndl].
    assert (Hh : forall s, In s subs -> mirror c s /\ cohr disk c fv s /\ closed_sub disk s /\
                                         (theight s < fuel)%nat).
    { intros s Hs. split; [eapply mirror_sub; eauto|]. split; [eapply cohr_sub; eauto|].
      split; [rewrite Forall_forall in Hcls; auto|]. pose proof (theight_sub p subs s Hs). lia. }
    destruct (inc_list_ok disk fv fuel subs IH st stf He Hh Hndl)
      as [st1 [E1 [Env1 [D1 [P1 [O1 G1]]]]]].
    rewrite E1. cbv zeta.
    assert (Hmap : map (ts_env R st1) (deps_of uses disk p subs)
                   = map (ts_env R (fresh_list disk subs stf)) (deps_of uses disk p subs)).
    { apply map_ext. exact Env1. }
    rewrite Hmap.
    set (rd := check p (disk p) (map (ts_env R (fresh_list disk subs stf)) (deps_of uses disk p subs))).
    (* the entry of p is still there *)
    pose proof (P1 p) as Hp1. fold c in Hp1. rewrite Hce in Hp1. simpl in Hp1.
    destruct (ts_cache R st1 p) as [e1|] eqn:He1; [|discriminate].
    unfold set_typed. rewrite He1.
    eexists. split; [reflexivity|]. cbn [ts_env ts_diags ts_cache ts_reused].
    assert (Henv : forall q, upd R (ts_env R st1) p (Some (fst rd)) q
                             = ts_env R (tc_fresh disk (MNode p subs) stf) q).
    { intros q. rewrite tc_fresh_node. cbv zeta. cbn [ts_env]. fold rd. unfold upd.
      destruct (N.eqb q p); [reflexivity | apply Env1]. }
    split; [exact Henv|]. split; [|split; [|split]].
    + (* diagnostics *)
      rewrite D1. rewrite <- app_assoc. f_equal.
      destruct (FC stf) as [_ [Dn _]]. rewrite tc_fresh_node in Dn. cbv zeta in Dn. cbn [ts_diags] in Dn.
      fold rd in Dn.
      assert (HFl : Forall (fresh_char_at disk) subs).
      { apply Forall_forall. intros s Hs. apply fresh_char. rewrite Forall_forall in Hcls. auto. }
      destruct (fresh_char_list R check uses disk subs HFl stf) as [_ [Dl _]].
      rewrite Dl in Dn. rewrite <- app_assoc in Dn. apply app_inv_head in Dn. exact Dn.
    + (* parsed parts unchanged *)
      intros q. destruct (N.eqb q p) eqn:Eq.
      * apply N.eqb_eq in Eq. subst q. fold c. rewrite Hce. simpl. simpl in Hp1.
        inversion Hp1 as [Hpe]. reflexivity.
      * apply P1.
    + (* outside the subtree nothing changed *)
      intros q Hq. destruct (N.eqb q p) eqn:Eq.
      * apply N.eqb_eq in Eq. subst q. exfalso. apply Hq. simpl. left. reflexivity.
      * apply O1. intros Hq'. apply Hq. simpl. right. exact Hq'.
    + (* every node of the subtree now holds the fresh result *)
      intros s' Hs'. simpl in Hs'. destruct Hs' as [<-|Hs'].
      * simpl troot. rewrite N.eqb_refl. eexists. eexists. split; [reflexivity|].
        cbn [ce_typed t_env t_ver]. split; [reflexivity|]. split; [|right; reflexivity].
        apply snapshot_ext. intros q Hq. rewrite Henv.
        destruct (FC stf) as [E _]. rewrite E. apply memp_In in Hq. rewrite Hq. reflexivity.
      * apply in_flat_map in Hs'. destruct Hs' as [s0 [H0 Hs']].
        destruct (G1 s0 H0 s' Hs') as [e' [ty' [He' [Hty' [Hte' Hv']]]]].
        assert (Hne : N.eqb (troot s') p = false).
        { apply N.eqb_neq. intros Heq. apply Hpn. rewrite <- Heq.
          apply in_flat_map. exists s0. split; [exact H0|].
          eapply tnodes_paths; eauto. apply troot_in_tpaths. }
        rewrite Hne. exists e', ty'. repeat split; auto.
Qed.


End Proofs.
