(* C26 — property theorems only.

   Full statement (the property text): for every history of edits that an editor can produce
   ([editor_seq]: versions of a file increase, consecutive requests differ only in the file of the
   later one, compilations may be cancelled by newer requests), what the session shows after the last
   completed compilation equals a from-scratch compilation of the same texts:

     forall t h, NoDup (tpaths t) -> editor_seq t None (fun _ => 0) h ->
       exists s, run (S (theight t)) init_lsp h = Ok s /\ l_obs s = expected t h.

   The faithful model REFUTES this statement (three witnesses below, replayed on the real server).
   It is proved on the complement of three decidable classes of histories:
     (K1) [sibling_use]: some module reads the result of a module that is not one of its submodules
          (hypothesis [closed_ws] = "uses m ⊆ submodule_closure m" for the texts of every request);
     (K2) a module subtree that an edit leaves untouched emits diagnostics of its own during type
          checking (hypothesis [quiet_unedited]);
     (K3) an edit whose compilation was cancelled is superseded by a request for ANOTHER file
          (hypothesis [protocol]: the texts differ from those of the last COMPLETED compilation only
          in the file that carries the version).
   Module structure ([r_tree]) is constant over the history (no `mod` item is added or removed). *)
From SwayV Require Import Base.Util C26.Model C26.Spec C26.Lemmas C26.Main C26.Witness.

Theorem C26_incremental_eq_fresh :
  forall (R : Type) (check : path -> text -> list (option R) -> R * list diag)
         (uses : path -> text -> list path) (t : mtree) (fuel : nat) (h : list request),
  NoDup (tpaths t) -> (theight t < fuel)%nat ->
  protocol t None (fun _ => 0%N) h ->
  (forall r, In r h -> closed_ws uses t (r_disk r)) ->
  (forall r, In r h -> r_version r <> None -> quiet_unedited R check uses t r) ->
  exists s, run R check uses fuel (init_lsp R) h = Ok s /\
            l_obs R s = expected R check uses t h.
Proof.
  intros R check uses t fuel h Hnd Hf Hp Hc Hq.
  apply incremental_eq_fresh; auto. apply disciplined_of_parts; auto.
Qed.
Print Assumptions C26_incremental_eq_fresh.

(* ... after each edit: the same holds for every prefix of the history *)
Theorem C26_after_each_edit :
  forall (R : Type) (check : path -> text -> list (option R) -> R * list diag)
         (uses : path -> text -> list path) (t : mtree) (fuel : nat) (h1 h2 : list request),
  NoDup (tpaths t) -> (theight t < fuel)%nat ->
  protocol t None (fun _ => 0%N) (h1 ++ h2) ->
  (forall r, In r (h1 ++ h2) -> closed_ws uses t (r_disk r)) ->
  (forall r, In r (h1 ++ h2) -> r_version r <> None -> quiet_unedited R check uses t r) ->
  exists s, run R check uses fuel (init_lsp R) h1 = Ok s /\
            l_obs R s = expected R check uses t h1.
Proof.
  intros R check uses t fuel h1 h2 Hnd Hf Hp Hc Hq.
  apply C26_incremental_eq_fresh; auto.
  - eapply protocol_prefix; eauto.
  - intros r Hr. apply Hc. apply in_or_app. left. exact Hr.
  - intros r Hr. apply Hq. apply in_or_app. left. exact Hr.
Qed.
Print Assumptions C26_after_each_edit.

(* the excluded class (K1) is decidable *)
Theorem C26_closed_ws_decidable :
  forall (uses : path -> text -> list path) t disk,
  closed_wsb uses t disk = true <-> closed_ws uses t disk.
Proof. exact closed_wsb_spec. Qed.
Print Assumptions C26_closed_ws_decidable.

(* (K1) root with `mod a; mod b;`, b uses a::f; edit a: only a gets Some(version), b's typed
   entry is judged up to date and reused although its result depends on a *)
Theorem C26_stale_sibling_refuted :
  NoDup (tpaths T1) /\ (theight T1 < 3)%nat /\
  protocol T1 None (fun _ => 0%N) h_sibling /\
  (forall r, In r h_sibling -> sibling_use uses_sibling T1 (r_disk r)) /\
  (forall r, In r h_sibling -> forall s, In s (tnodes T1) ->
      fresh_diags N wcheck uses_sibling (r_disk r) s = []) /\
  exists s, run N wcheck uses_sibling 3 (init_lsp N) h_sibling = Ok s /\
            l_obs N s <> expected N wcheck uses_sibling T1 h_sibling /\
            l_trace N s = [[]; [2%N]].
Proof. exact stale_sibling_refuted. Qed.
Print Assumptions C26_stale_sibling_refuted.

(* (K2) closed workspace; the reused module's own diagnostics are not re-emitted; the typed
   results (program structure) do agree *)
Theorem C26_reused_diagnostics_refuted :
  NoDup (tpaths T1) /\ (theight T1 < 3)%nat /\
  protocol T1 None (fun _ => 0%N) h_lostdiag /\
  (forall r, In r h_lostdiag -> closed_ws uses_none T1 (r_disk r)) /\
  exists s, run N wcheck uses_none 3 (init_lsp N) h_lostdiag = Ok s /\
            l_obs N s <> expected N wcheck uses_none T1 h_lostdiag /\
            option_map fst (l_obs N s) = option_map fst (expected N wcheck uses_none T1 h_lostdiag) /\
            l_trace N s = [[]; [2%N]].
Proof. exact reused_diagnostics_refuted. Qed.
Print Assumptions C26_reused_diagnostics_refuted.

(* (K3) closed, quiet workspace; the compilation of an edit of a is cancelled by an edit of b *)
Theorem C26_cancelled_edit_refuted :
  NoDup (tpaths T1) /\ (theight T1 < 3)%nat /\
  editor_seq T1 None (fun _ => 0%N) h_cancel /\
  (forall r, In r h_cancel -> closed_ws uses_none T1 (r_disk r)) /\
  (forall r, In r h_cancel -> forall s, In s (tnodes T1) ->
      fresh_diags N wcheck uses_none (r_disk r) s = []) /\
  exists s, run N wcheck uses_none 3 (init_lsp N) h_cancel = Ok s /\
            l_obs N s <> expected N wcheck uses_none T1 h_cancel /\
            l_trace N s = [[]; [1%N]].
Proof. exact cancelled_edit_refuted. Qed.
Print Assumptions C26_cancelled_edit_refuted.

(* a cancelled compilation leaves the shared caches (and the session) unchanged *)
Theorem C26_cow_discard_sound :
  forall (R : Type) check uses fuel (s s' : lsp R) (r : request),
  step R check uses fuel s r = Ok s' -> cancelled r = true -> s' = s.
Proof. intros. eapply cow_discard_sound; eauto. Qed.
Print Assumptions C26_cow_discard_sound.

(* CowCache: a write never touches the shared value; only commit publishes it *)
Theorem C26_cow_write_local :
  forall (A : Type) (f : A -> A) (c : cow A),
  inner (cow_write f c) = inner c /\ cow_read (cow_write f c) = f (cow_read c) /\
  cow_commit (cow_write f c) = {| inner := f (cow_read c); local := None |}.
Proof. intros. repeat split. Qed.
Print Assumptions C26_cow_write_local.

(* clear_module removes exactly the function-cache entries of the collected module and leaves the
   module and programs caches alone *)
Theorem C26_gc_only_removes_module :
  forall (R : Type) (p : path) (q : qstate R),
  q_mc R (clear_module R p q) = q_mc R q /\ q_pc R (clear_module R p q) = q_pc R q /\
  forall e, In e (q_fc R (clear_module R p q)) <-> In e (q_fc R q) /\ fst e <> p.
Proof. exact gc_only_removes_module. Qed.
Print Assumptions C26_gc_only_removes_module.

(* Non-vacuity: a nested closed workspace (root 0 { 1 { 3 }, 2 }, 1 reads 3, the root reads all),
   open, edit the leaf 3, save, edit 2 with a cancelled first attempt: the hypotheses hold, modules
   are reused ([2] then [1]) and the session shows the fresh result. *)
Definition T2 : mtree := MNode 0%N [MNode 1%N [MNode 3%N []]; MNode 2%N []].
Definition uses2 (p : path) (t : text) : list path :=
  if N.eqb p 0%N then [1;2;3]%N else if N.eqb p 1%N then [3%N] else [].
Definition mk2 (disk : path -> text) (uri : path) (v : option version) (c : option nat) : request :=
  {| r_tree := T2; r_disk := disk; r_open := [0;1;2;3]%N; r_uri := uri; r_version := v;
     r_gc := true; r_cancel := c |}.
Definition g0 (p : path) : text := (10 * (p + 1))%N.
Definition g1 (p : path) : text := if N.eqb p 3%N then 90%N else g0 p.
Definition g2 (p : path) : text := if N.eqb p 2%N then 92%N else g1 p.
Definition g3 (p : path) : text := if N.eqb p 2%N then 94%N else g1 p.
Definition h2 : list request :=
  [mk2 g0 1%N None None; mk2 g1 3%N (Some 2%N) None; mk2 g1 3%N None None;
   mk2 g2 2%N (Some 2%N) (Some 2%nat); mk2 g3 2%N (Some 3%N) None].

Example C26_example_closed : forallb (fun r => closed_wsb uses2 T2 (r_disk r)) h2 = true.
Proof. vm_compute. reflexivity. Qed.

Example C26_example_run :
  exists s, run N wcheck uses2 4 (init_lsp N) h2 = Ok s /\
            l_obs N s = expected N wcheck uses2 T2 h2 /\
            l_trace N s = [[]; [2%N]; [1%N]].
Proof. eexists. split; [vm_compute; reflexivity|]. split; vm_compute; reflexivity. Qed.
