(* C26 — structural lemmas: trees, environments, from-scratch evaluation. *)
From SwayV Require Import Base.Util C26.Model C26.Spec.

Lemma mtree_ind' (P : mtree -> Prop) :
  (forall p subs, Forall P subs -> P (MNode p subs)) -> forall t, P t.
Proof.
  intros H. fix IH 1. intros [p subs]. apply H.
  induction subs as [|s l IHl]; constructor; [apply IH | exact IHl].
Qed.

Lemma memp_In p l : memp p l = true <-> In p l.
Proof.
  unfold memp. rewrite existsb_exists. split.
  - intros [y [Hy He]]. apply N.eqb_eq in He. subst. exact Hy.
  - intros H. exists p. split; [exact H | apply N.eqb_refl].
Qed.
Lemma memp_nIn p l : memp p l = false <-> ~ In p l.
Proof. rewrite <- memp_In. destruct (memp p l); split; intros H; congruence. Qed.

Lemma memp_app q l1 l2 : memp q (l1 ++ l2) = memp q l1 || memp q l2.
Proof. unfold memp. apply existsb_app. Qed.

Lemma forallb_ext_in' {A} (f g : A -> bool) l :
  (forall x, In x l -> f x = g x) -> forallb f l = forallb g l.
Proof.
  induction l as [|a l IHl]; intros H; simpl; [reflexivity|].
  rewrite (H a (or_introl eq_refl)), IHl; [reflexivity|]. intros x Hx. apply H. right. exact Hx.
Qed.

Lemma troot_in_tpaths t : In (troot t) (tpaths t).
Proof. destruct t; simpl; auto. Qed.

Lemma tnodes_self t : In t (tnodes t).
Proof. destruct t; simpl; auto. Qed.

Lemma tnodes_sub p subs s s' : In s subs -> In s' (tnodes s) -> In s' (tnodes (MNode p subs)).
Proof. intros Hs Hs'. simpl. right. apply in_flat_map. exists s; auto. Qed.

Lemma tnodes_trans : forall t s s', In s (tnodes t) -> In s' (tnodes s) -> In s' (tnodes t).
Proof.
  induction t as [p subs IH] using mtree_ind'. intros s s' Hs Hs'.
  simpl in Hs. destruct Hs as [<-|Hs]; [exact Hs'|].
  apply in_flat_map in Hs. destruct Hs as [s0 [H0 Hs]].
  rewrite Forall_forall in IH. eapply tnodes_sub; [exact H0|]. eapply IH; eauto.
Qed.

Lemma tnodes_paths : forall t s, In s (tnodes t) -> incl (tpaths s) (tpaths t).
Proof.
  induction t as [p subs IH] using mtree_ind'. intros s Hs.
  simpl in Hs. destruct Hs as [<-|Hs]; [apply incl_refl|].
  apply in_flat_map in Hs. destruct Hs as [s0 [H0 Hs]].
  rewrite Forall_forall in IH. intros q Hq. simpl. right.
  apply in_flat_map. exists s0. split; [exact H0|]. eapply IH; eauto.
Qed.

Lemma tpaths_node : forall t q, In q (tpaths t) -> exists s, In s (tnodes t) /\ troot s = q.
Proof.
  induction t as [p subs IH] using mtree_ind'. intros q Hq. simpl in Hq.
  destruct Hq as [<-|Hq].
  - exists (MNode p subs). split; [apply tnodes_self | reflexivity].
  - apply in_flat_map in Hq. destruct Hq as [s0 [H0 Hq]].
    rewrite Forall_forall in IH. destruct (IH s0 H0 q Hq) as [s [Hs Hr]].
    exists s. split; [eapply tnodes_sub; eauto | exact Hr].
Qed.

Lemma theight_sub p subs s : In s subs -> (theight s < theight (MNode p subs))%nat.
Proof.
  intros Hs. simpl. apply Nat.lt_succ_r.
  induction subs as [|a l IHl]; [destruct Hs|].
  simpl. destruct Hs as [->|Hs]; [apply Nat.le_max_l|].
  etransitivity; [apply IHl; exact Hs | apply Nat.le_max_r].
Qed.

Lemma NoDup_app_split {B} (l1 l2 : list B) :
  NoDup (l1 ++ l2) -> NoDup l1 /\ NoDup l2 /\ (forall x, In x l1 -> ~ In x l2).
Proof.
  induction l1 as [|y l1 IH]; simpl; intros H.
  - split; [constructor|]. split; [exact H|]. intros x [].
  - inversion H; subst. destruct (IH H3) as [N1 [N2 Hd]].
    split; [|split; [exact N2|]].
    + constructor; [|exact N1]. intros Hy. apply H2. apply in_or_app. left. exact Hy.
    + intros x [<-|Hx] Hx2.
      * apply H2. apply in_or_app. right. exact Hx2.
      * eapply Hd; eauto.
Qed.

Lemma NoDup_flat_map_cons {A B} (f : A -> list B) a l :
  NoDup (flat_map f (a :: l)) ->
  NoDup (f a) /\ NoDup (flat_map f l) /\ (forall x, In x (f a) -> ~ In x (flat_map f l)).
Proof. simpl. apply NoDup_app_split. Qed.

Lemma NoDup_node p subs : NoDup (tpaths (MNode p subs)) ->
  ~ In p (flat_map tpaths subs) /\ NoDup (flat_map tpaths subs).
Proof. simpl. intros H. inversion H; auto. Qed.

Lemma NoDup_sub p subs s : NoDup (tpaths (MNode p subs)) -> In s subs -> NoDup (tpaths s).
Proof.
  intros H Hs. apply NoDup_node in H. destruct H as [_ H].
  induction subs as [|a l IHl]; [destruct Hs|].
  apply NoDup_flat_map_cons in H. destruct H as [Ha [Hl _]].
  destruct Hs as [->|Hs]; auto.
Qed.

Lemma NoDup_tnodes : forall t s, NoDup (tpaths t) -> In s (tnodes t) -> NoDup (tpaths s).
Proof.
  induction t as [p subs IH] using mtree_ind'. intros s Hnd Hs.
  simpl in Hs. destruct Hs as [<-|Hs]; [exact Hnd|].
  apply in_flat_map in Hs. destruct Hs as [s0 [H0 Hs]].
  rewrite Forall_forall in IH. eapply IH; eauto. eapply NoDup_sub; eauto.
Qed.

(* ---- cow laws ---- *)
Lemma cow_write_inner {A} (f : A -> A) c : inner (cow_write f c) = inner c.
Proof. reflexivity. Qed.
Lemma cow_read_write {A} (f : A -> A) c : cow_read (cow_write f c) = f (cow_read c).
Proof. reflexivity. Qed.
Lemma cow_commit_write {A} (f : A -> A) c :
  cow_commit (cow_write f c) = {| inner := f (cow_read c); local := None |}.
Proof. reflexivity. Qed.
Lemma cow_read_clone {A} (c : cow A) : cow_read (cow_clone c) = cow_read c.
Proof. reflexivity. Qed.

Section Lemmas.
Variable R : Type.
Variable check : path -> text -> list (option R) -> R * list diag.
Variable uses : path -> text -> list path.

Notation env := (env R).
Notation tcstate := (tcstate R).
Notation tc_fresh := (tc_fresh R check uses).
Notation init_ts := (init_ts R).

Definition fresh_list (disk : path -> text) (l : list mtree) (st : tcstate) : tcstate :=
  fold_left (fun st s => tc_fresh disk s st) l st.

Lemma tc_fresh_node disk p subs st :
  tc_fresh disk (MNode p subs) st =
  let st1 := fresh_list disk subs st in
  let rd := check p (disk p) (map (ts_env R st1) (deps_of uses disk p subs)) in
  {| ts_env := upd R (ts_env R st1) p (Some (fst rd)); ts_diags := ts_diags R st1 ++ snd rd;
     ts_reused := ts_reused R st1; ts_cache := ts_cache R st1 |}.
Proof.
  simpl.
  assert (E : forall l st0,
    (fix go (l : list mtree) (st : tcstate) {struct l} : tcstate :=
       match l with [] => st | s :: l' => go l' (tc_fresh disk s st) end) l st0 = fresh_list disk l st0).
  { induction l as [|a l IHl]; intros st0; simpl; [reflexivity | apply IHl]. }
  rewrite E. reflexivity.
Qed.

(* upd_list with a snapshot *)
Lemma upd_list_snapshot_gen (e0 : env) (f : env) l q :
  upd_list R e0 (map (fun q => (q, f q)) l) q = if memp q l then f q else e0 q.
Proof.
  revert e0. induction l as [|a l IHl]; intros e0; simpl; [reflexivity|].
  unfold upd_list in *. simpl. rewrite IHl. unfold upd. simpl.
  destruct (memp q l) eqn:Hm.
  - rewrite orb_true_r. reflexivity.
  - rewrite orb_false_r. destruct (N.eqb q a) eqn:He; [|reflexivity].
    apply N.eqb_eq in He. subst. reflexivity.
Qed.

Lemma upd_list_snapshot (e0 f : env) t q :
  upd_list R e0 (snapshot R f t) q = if memp q (tpaths t) then f q else e0 q.
Proof. apply upd_list_snapshot_gen. Qed.

Lemma snapshot_ext (e1 e2 : env) t :
  (forall q, In q (tpaths t) -> e1 q = e2 q) -> snapshot R e1 t = snapshot R e2 t.
Proof. intros H. unfold snapshot. apply map_ext_in. intros q Hq. rewrite H; auto. Qed.

(* closedness of a subtree *)
Definition closed_sub (disk : path -> text) (s : mtree) : Prop :=
  forall s', In s' (tnodes s) -> incl (uses (troot s') (disk (troot s'))) (tdesc s').

Lemma closed_sub_node disk p subs :
  closed_sub disk (MNode p subs) ->
  incl (uses p (disk p)) (flat_map tpaths subs) /\ Forall (closed_sub disk) subs.
Proof.
  intros H. split.
  - apply (H (MNode p subs)). apply tnodes_self.
  - apply Forall_forall. intros s Hs s' Hs'. apply H. eapply tnodes_sub; eauto.
Qed.

Lemma closed_sub_nodes disk t s : closed_sub disk t -> In s (tnodes t) -> closed_sub disk s.
Proof.
  revert s. induction t as [p subs IH] using mtree_ind'. intros s Hc Hs.
  simpl in Hs. destruct Hs as [<-|Hs]; [exact Hc|].
  apply in_flat_map in Hs. destruct Hs as [s0 [H0 Hs]].
  rewrite Forall_forall in IH. apply closed_sub_node in Hc. destruct Hc as [_ Hc].
  rewrite Forall_forall in Hc. eapply IH; eauto.
Qed.

(* results and diagnostics of a from-scratch evaluation started in the empty state *)
Definition Fenv disk s : env := ts_env R (tc_fresh disk s (init_ts (fun _ => None))).
Definition Fdiags disk s : list diag := ts_diags R (tc_fresh disk s (init_ts (fun _ => None))).
Definition FLenv disk l : env := ts_env R (fresh_list disk l (init_ts (fun _ => None))).
Definition FLdiags disk l : list diag := ts_diags R (fresh_list disk l (init_ts (fun _ => None))).

Definition fresh_char_at disk s : Prop :=
  forall st, (forall q, ts_env R (tc_fresh disk s st) q
                        = if memp q (tpaths s) then Fenv disk s q else ts_env R st q)
          /\ ts_diags R (tc_fresh disk s st) = ts_diags R st ++ Fdiags disk s
          /\ ts_reused R (tc_fresh disk s st) = ts_reused R st
          /\ ts_cache R (tc_fresh disk s st) = ts_cache R st.

Lemma fresh_char_list disk l :
  Forall (fresh_char_at disk) l ->
  forall st, (forall q, ts_env R (fresh_list disk l st) q
                        = if memp q (flat_map tpaths l) then FLenv disk l q else ts_env R st q)
          /\ ts_diags R (fresh_list disk l st) = ts_diags R st ++ FLdiags disk l
          /\ ts_reused R (fresh_list disk l st) = ts_reused R st
          /\ ts_cache R (fresh_list disk l st) = ts_cache R st.
Proof.
  induction l as [|s l IHl]; intros HF st.
  - simpl. repeat split; auto. unfold FLdiags. simpl. rewrite app_nil_r. reflexivity.
  - inversion HF as [|? ? Hs Hl]; subst. specialize (IHl Hl).
    unfold FLenv, FLdiags. simpl fresh_list. unfold fresh_list in *. simpl fold_left.
    destruct (IHl (tc_fresh disk s st)) as [E1 [D1 [R1 C1]]].
    destruct (IHl (tc_fresh disk s (init_ts (fun _ => None)))) as [E0 [D0 [R0 C0]]].
    destruct (Hs st) as [Es [Ds [Rs Cs]]].
    destruct (Hs (init_ts (fun _ => None))) as [Es0 [Ds0 [Rs0 Cs0]]].
    repeat split.
    + intros q. rewrite E1, E0, Es, Es0. simpl flat_map.
      rewrite memp_app.
      destruct (memp q (flat_map tpaths l)); [rewrite orb_true_r; reflexivity|].
      rewrite orb_false_r. destruct (memp q (tpaths s)); reflexivity.
    + rewrite D1, D0, Ds, Ds0. simpl. rewrite app_assoc. reflexivity.
    + rewrite R1, Rs. reflexivity.
    + rewrite C1, Cs. reflexivity.
Qed.

Lemma fresh_char disk : forall s, closed_sub disk s -> fresh_char_at disk s.
Proof.
  induction s as [p subs IH] using mtree_ind'. intros Hc.
  apply closed_sub_node in Hc. destruct Hc as [Hu Hcs].
  assert (HF : Forall (fresh_char_at disk) subs).
  { rewrite Forall_forall in *. intros s Hs. apply IH; auto. }
  pose proof (fresh_char_list disk subs HF) as HL.
  assert (Hdeps : forall st, map (ts_env R (fresh_list disk subs st)) (deps_of uses disk p subs)
                             = map (FLenv disk subs) (deps_of uses disk p subs)).
  { intros st. apply map_ext_in. intros q Hq. destruct (HL st) as [E _]. rewrite E.
    assert (Hin : In q (flat_map tpaths subs)).
    { unfold deps_of in Hq. apply in_app_or in Hq. destruct Hq as [Hq|Hq].
      - apply in_map_iff in Hq. destruct Hq as [s [<- Hs]].
        apply in_flat_map. exists s. split; [exact Hs | apply troot_in_tpaths].
      - apply Hu. exact Hq. }
    apply memp_In in Hin. rewrite Hin. reflexivity. }
  intros st. unfold Fenv, Fdiags. rewrite !tc_fresh_node. cbv zeta.
  rewrite (Hdeps st), (Hdeps (init_ts (fun _ => None))).
  destruct (HL st) as [E [D [Rr C]]].
  destruct (HL (init_ts (fun _ => None))) as [E0 [D0 [R0 C0]]].
  simpl ts_env. simpl ts_diags. simpl ts_reused. simpl ts_cache.
  repeat split; auto.
  - intros q. unfold upd. simpl tpaths. unfold memp. simpl existsb.
    fold (memp q (flat_map tpaths subs)).
    destruct (N.eqb q p) eqn:He; [reflexivity|]. simpl.
    rewrite E, E0. destruct (memp q (flat_map tpaths subs)); reflexivity.
  - rewrite D, D0. simpl. rewrite app_assoc. reflexivity.
Qed.

(* the from-scratch evaluation of a subtree reads the disk only at the subtree's files *)
Lemma fresh_disk_ext d1 d2 : forall s, (forall q, In q (tpaths s) -> d1 q = d2 q) ->
  forall st, tc_fresh d1 s st = tc_fresh d2 s st.
Proof.
  induction s as [p subs IH] using mtree_ind'. intros Hd st.
  rewrite !tc_fresh_node. cbv zeta.
  assert (EL : forall st0, fresh_list d1 subs st0 = fresh_list d2 subs st0).
  { assert (Hsub : forall s, In s subs -> forall q, In q (tpaths s) -> d1 q = d2 q).
    { intros s Hs q Hq. apply Hd. simpl. right. apply in_flat_map. exists s; auto. }
    clear Hd. induction subs as [|a l IHl]; intros st0; [reflexivity|].
    inversion IH; subst. unfold fresh_list in *. simpl.
    rewrite (H1 (Hsub a (or_introl eq_refl)) st0).
    apply IHl; auto. intros s Hs. apply Hsub. right. exact Hs. }
  rewrite EL. unfold deps_of. rewrite (Hd p (or_introl eq_refl)). reflexivity.
Qed.

Lemma Fenv_disk_ext d1 d2 s : (forall q, In q (tpaths s) -> d1 q = d2 q) -> Fenv d1 s = Fenv d2 s.
Proof. intros H. unfold Fenv. rewrite (fresh_disk_ext d1 d2 s H). reflexivity. Qed.
Lemma Fdiags_disk_ext d1 d2 s : (forall q, In q (tpaths s) -> d1 q = d2 q) -> Fdiags d1 s = Fdiags d2 s.
Proof. intros H. unfold Fdiags. rewrite (fresh_disk_ext d1 d2 s H). reflexivity. Qed.

Lemma closed_sub_disk_ext d1 d2 s : (forall q, In q (tpaths s) -> d1 q = d2 q) ->
  closed_sub d1 s -> closed_sub d2 s.
Proof.
  intros H Hc s' Hs'. rewrite <- H; [apply Hc; exact Hs'|].
  eapply tnodes_paths; eauto. apply troot_in_tpaths.
Qed.

End Lemmas.
