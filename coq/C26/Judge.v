(* C26 — per-history judgement of what the real server did (evaluated with vm_compute).
   The model is run with the hashing [wcheck]: a module's result changes whenever its text or any
   result it reads changes, so "model says equal" means equal for EVERY check function, while
   "model says different" is the worst case. *)
From SwayV Require Import Base.Util C26.Model C26.Spec C26.Witness.
Local Open Scope N_scope.

Record jstep := {
  js_uri : path;
  js_version : option version;       (* None: didSave *)
  js_text : text;                    (* text of js_uri after the step *)
  js_noisy : list path;              (* files with diagnostics in the from-scratch summary *)
  js_obs : N;                        (* 0 same | 1 incremental misses diagnostics only | 2 other difference | 3 hang/panic *)
  js_missing : list path             (* files of the diagnostics only the from-scratch summary has *)
}.

Record jcase := {
  j_tree : mtree;
  j_uses : list (path * list path);
  j_open : list path;                (* in the order the documents were opened *)
  j_gc : bool;
  j_texts : list (path * text);
  j_steps : list jstep
}.

Fixpoint assoc {A} (d : A) (l : list (path * A)) (p : path) : A :=
  match l with [] => d | (q, a) :: l' => if N.eqb p q then a else assoc d l' p end.

Definition juses (c : jcase) : path -> text -> list path := fun p _ => assoc [] (j_uses c) p.
Definition wcheck0 (p : path) (t : text) (rs : list (option N)) : N * list diag :=
  (fst (wcheck p t rs), []).

Definition opt_eqb (a b : option N) : bool :=
  match a, b with Some x, Some y => N.eqb x y | None, None => true | _, _ => false end.
Fixpoint env_eqb (a b : list (path * option N)) : bool :=
  match a, b with
  | [], [] => true
  | (p, x) :: a', (q, y) :: b' => N.eqb p q && opt_eqb x y && env_eqb a' b'
  | _, _ => false
  end.

(* the node of the tree rooted at p *)
Definition node_of (t : mtree) (p : path) : option mtree :=
  find (fun s => N.eqb (troot s) p) (tnodes t).
Definition subtree_paths (t : mtree) (p : path) : list path :=
  match node_of t p with Some s => tpaths s | None => [p] end.

Definition fuel_of (t : mtree) : nat := S (theight t).

(* 0 server = from scratch, as the model predicts
   1 server = from scratch although the worst-case model allows a difference (benign)
   2 server differs, the model predicts stale typed results: class K1 (sibling use)
   3 server misses diagnostics of modules the model says were reused: class K2
   4 VIOLATION: server differs although the model predicts agreement
   5 server hung or its compilation thread panicked
   6 model: panic / out of fuel (correspondence) *)
Definition judge_step (c : jcase) (s : lsp N) (disk : path -> text) (grew : bool) (st : jstep) : N :=
  let t := j_tree c in
  let fr := fresh N wcheck0 (juses c) t disk in
  let env_ok := match l_obs N s with Some o => env_eqb (fst o) (fst fr) | None => false end in
  let reused := if grew then last (l_trace N s) [] else [] in
  let reused_files := flat_map (subtree_paths t) reused in
  let lost_pred := existsb (fun p => memp p (js_noisy st)) reused_files in
  match js_obs st with
  | 0 => if env_ok && negb lost_pred then 0 else 1
  | 1 => if negb env_ok then 2
         else if lost_pred && forallb (fun p => memp p reused_files) (js_missing st) then 3 else 4
  | 2 => if negb env_ok then 2 else 4
  | _ => 5
  end.

Definition upd_disk (d : path -> text) (p : path) (t : text) : path -> text :=
  fun q => if N.eqb q p then t else d q.

Fixpoint judge_steps (c : jcase) (s : lsp N) (disk : path -> text) (l : list jstep) : list N :=
  match l with
  | [] => []
  | st :: l' =>
    let disk' := upd_disk disk (js_uri st) (js_text st) in
    let r := {| r_tree := j_tree c; r_disk := disk'; r_open := j_open c; r_uri := js_uri st;
                r_version := js_version st; r_gc := j_gc c; r_cancel := None |} in
    match step N wcheck0 (juses c) (fuel_of (j_tree c)) s r with
    | Ok s' =>
      let grew := negb (Nat.eqb (length (l_trace N s')) (length (l_trace N s))) in
      judge_step c s' disk' grew st :: judge_steps c s' disk' l'
    | _ => [6]
    end
  end.

(* the documents are opened one after the other (didOpen = versionless request) *)
Fixpoint open_all (c : jcase) (s : lsp N) (disk : path -> text) (opened todo : list path)
  : outcome (lsp N) :=
  match todo with
  | [] => Ok s
  | p :: todo' =>
    let r := {| r_tree := j_tree c; r_disk := disk; r_open := opened ++ [p]; r_uri := p;
                r_version := None; r_gc := j_gc c; r_cancel := None |} in
    match step N wcheck0 (juses c) (fuel_of (j_tree c)) s r with
    | Ok s' => open_all c s' disk (opened ++ [p]) todo'
    | o => o
    end
  end.

Definition judge (c : jcase) : list N :=
  let disk := assoc 0 (j_texts c) in
  match open_all c (init_lsp N) disk [] (j_open c) with
  | Ok s => judge_steps c s disk (j_steps c)
  | _ => [6]
  end.

(* class membership of the history (for the report) *)
Definition in_proved_class (c : jcase) : bool := closed_wsb (juses c) (j_tree c) (assoc 0 (j_texts c)).

Definition judge_all (cs : list jcase) : list (bool * list N) :=
  map (fun c => (in_proved_class c, judge c)) cs.
