(* C26 — the server's invariant and the main theorems. *)
From SwayV Require Import Base.Util C26.Model C26.Spec C26.Lemmas C26.Proofs.

Section Main.
Variable R : Type.
Variable check : path -> text -> list (option R) -> R * list diag.
Variable uses : path -> text -> list path.

Notation mcache := (mcache R).
Notation tc_fresh := (tc_fresh R check uses).
Notation tc_inc := (tc_inc R check uses).
Notation init_ts := (init_ts R).
Notation Fenv := (Fenv R check uses).
Notation Fdiags := (Fdiags R check uses).
Notation fresh := (fresh R check uses).
Notation compile := (compile R check uses).
Notation step := (step R check uses).
Notation run := (run R check uses).
Notation closed_sub := (closed_sub uses).
Notation mirror := (mirror R).
Notation cohr := (cohr R check uses).
Notation good := (good R check uses).

(* ---- priming ---- *)
Definition prime_list (fv : file_versions) (disk : path -> text) (l : list mtree) (c : mcache) : mcache :=
  fold_left (fun c s => prime R fv disk s c) l c.

Lemma prime_node fv disk p subs c :
  prime R fv disk (MNode p subs) c =
  update_parsed R (prime_list fv disk subs c) p
    {| p_deps := map troot subs; p_hash := disk p; p_ver := join_ver (fv p) |}.
Proof.
  cbn [prime].
  assert (E : forall l c0,
    (fix go (l : list mtree) (c : mcache) {struct l} : mcache :=
       match l with [] => c | s :: l' => go l' (prime R fv disk s c) end) l c0 = prime_list fv disk l c0).
  { induction l as [|a l IHl]; intros c0; simpl; [reflexivity | apply IHl]. }
  rewrite E. reflexivity.
Qed.

Definition pinfo (fv : file_versions) (disk : path -> text) (s : mtree) : parsed_info :=
  {| p_deps := map troot (tsubs s); p_hash := disk (troot s); p_ver := join_ver (fv (troot s)) |}.
Definition typed_of (c : mcache) (p : path) : option (typed_info R) :=
  match c p with Some e => ce_typed R e | None => None end.

Definition prime_ok fv disk (t : mtree) : Prop :=
  forall c, NoDup (tpaths t) ->
    (forall q, ~ In q (tpaths t) -> prime R fv disk t c q = c q) /\
    (forall s', In s' (tnodes t) ->
       prime R fv disk t c (troot s') =
       Some {| ce_parsed := pinfo fv disk s'; ce_typed := typed_of c (troot s') |}).

Lemma prime_list_ok fv disk : forall l, Forall (prime_ok fv disk) l ->
  forall c, NoDup (flat_map tpaths l) ->
    (forall q, ~ In q (flat_map tpaths l) -> prime_list fv disk l c q = c q) /\
    (forall s s', In s l -> In s' (tnodes s) ->
       prime_list fv disk l c (troot s') =
       Some {| ce_parsed := pinfo fv disk s'; ce_typed := typed_of c (troot s') |}).
Proof.
  induction l as [|s l IHl]; intros HF c Hnd.
  - split; [reflexivity | intros s s' []].
  - inversion HF as [|? ? Hs Hl]; subst.
    apply NoDup_flat_map_cons in Hnd. destruct Hnd as [Nds [Ndl Hdisj]].
    destruct (Hs c Nds) as [Os Ps].
    destruct (IHl Hl (prime R fv disk s c) Ndl) as [Ol Pl].
    unfold prime_list in *. simpl fold_left. split.
    + intros q Hq. rewrite Ol, Os; auto.
      * intros Hq'. apply Hq. simpl. apply in_or_app. left. exact Hq'.
      * intros Hq'. apply Hq. simpl. apply in_or_app. right. exact Hq'.
    + intros s0 s' [<-|H0] Hs'.
      * rewrite Ol; [apply Ps; exact Hs'|]. intros Hq'. eapply Hdisj; [|exact Hq'].
        eapply tnodes_paths; eauto. apply troot_in_tpaths.
      * rewrite (Pl s0 s' H0 Hs'). unfold typed_of. rewrite Os; [reflexivity|].
        intros Hq'. eapply Hdisj; [exact Hq'|]. apply in_flat_map. exists s0. split; [exact H0|].
        eapply tnodes_paths; eauto. apply troot_in_tpaths.
Qed.

Lemma prime_char fv disk : forall t, prime_ok fv disk t.
Proof.
  induction t as [p subs IH] using mtree_ind'. intros c Hnd.
  pose proof (NoDup_node p subs Hnd) as [Hpn Hndl].
  destruct (prime_list_ok fv disk subs IH c Hndl) as [Ol Pl].
  rewrite prime_node. unfold update_parsed. split.
  - intros q Hq. destruct (N.eqb q p) eqn:Eq.
    + apply N.eqb_eq in Eq. subst. exfalso. apply Hq. simpl. auto.
    + apply Ol. intros Hq'. apply Hq. simpl. auto.
  - intros s' Hs'. simpl in Hs'. destruct Hs' as [<-|Hs'].
    + simpl troot. rewrite N.eqb_refl. unfold pinfo, typed_of. simpl. rewrite Ol; auto.
    + apply in_flat_map in Hs'. destruct Hs' as [s0 [H0 Hs']].
      assert (Hne : N.eqb (troot s') p = false).
      { apply N.eqb_neq. intros Heq. apply Hpn. rewrite <- Heq. apply in_flat_map.
        exists s0. split; [exact H0|]. eapply tnodes_paths; eauto. apply troot_in_tpaths. }
      rewrite Hne. apply Pl with (s := s0); auto.
Qed.

(* ---- the invariant ---- *)
Definition verle (o : option version) (m : N) : Prop :=
  match o with Some v => N.le v m | None => True end.

Definition cache_inv (t : mtree) (d : path -> text) (maxv : path -> N)
           (mc : mcache) (pc : option (output R)) : Prop :=
  (forall s', In s' (tnodes t) -> exists e ty,
      mc (troot s') = Some e /\
      p_deps (ce_parsed R e) = map troot (tsubs s') /\
      p_hash (ce_parsed R e) = d (troot s') /\
      verle (p_ver (ce_parsed R e)) (maxv (troot s')) /\
      ce_typed R e = Some ty /\
      t_env R ty = snapshot R (Fenv d s') s' /\
      verle (t_ver R ty) (maxv (troot s'))) /\
  pc = Some (fresh t d).

Definition pre_inv (t : mtree) (prev : option (path -> text)) (maxv : path -> N)
           (mc : mcache) (pc : option (output R)) : Prop :=
  match prev with
  | None => (forall p, mc p = None) /\ pc = None
  | Some d => cache_inv t d maxv mc pc
  end.

Lemma fresh_eq t d : fresh t d = (snapshot R (Fenv d t) t, Fdiags d t).
Proof. reflexivity. Qed.

Lemma fresh_ext t d1 d2 : (forall q, In q (tpaths t) -> d1 q = d2 q) -> fresh t d1 = fresh t d2.
Proof.
  intros H. rewrite !fresh_eq.
  rewrite (Fenv_disk_ext R check uses d1 d2 t H), (Fdiags_disk_ext R check uses d1 d2 t H). reflexivity.
Qed.

Lemma verle_mono o m m' : N.le m m' -> verle o m -> verle o m'.
Proof. destruct o; simpl; intros; [lia|exact I]. Qed.

Lemma bump_ge maxv r p : N.le (maxv p) (bump maxv r p).
Proof.
  unfold bump. destruct (r_version r) as [v|]; [|lia].
  destruct (N.eqb p (r_uri r)); lia.
Qed.

Lemma cache_inv_ext t d d' maxv maxv' mc pc :
  (forall q, In q (tpaths t) -> d q = d' q) -> (forall p, N.le (maxv p) (maxv' p)) ->
  cache_inv t d maxv mc pc -> cache_inv t d' maxv' mc pc.
Proof.
  intros Hd Hm [Hn Hp]. split.
  - intros s' Hs'. destruct (Hn s' Hs') as [e [ty [H1 [H2 [H3 [H4 [H5 [H6 H7]]]]]]]].
    assert (Hsub : forall q, In q (tpaths s') -> d q = d' q).
    { intros q Hq. apply Hd. eapply tnodes_paths; eauto. }
    exists e, ty. repeat split; auto.
    + rewrite H3. apply Hd. eapply tnodes_paths; eauto. apply troot_in_tpaths.
    + eapply verle_mono; eauto.
    + rewrite H6. rewrite (Fenv_disk_ext R check uses d d' s' Hsub). reflexivity.
    + eapply verle_mono; eauto.
  - rewrite Hp. f_equal. apply fresh_ext. exact Hd.
Qed.

Lemma cache_inv_mirror t d maxv mc pc : cache_inv t d maxv mc pc -> mirror mc t.
Proof.
  intros [Hn _] s' Hs'. destruct (Hn s' Hs') as [e [ty [H1 [H2 _]]]]. exists e. auto.
Qed.

(* the discipline facts about one request *)
Record req_ok (t : mtree) (prev : option (path -> text)) (maxv : path -> N) (r : request) : Prop := {
  ro_tree : r_tree r = t;
  ro_ver : forall v, r_version r = Some v ->
             N.lt (maxv (r_uri r)) v /\ In (r_uri r) (r_open r) /\ In (r_uri r) (tpaths t);
  ro_disk : forall d, prev = Some d -> forall p, In p (tpaths t) -> r_disk r p <> d p ->
             p = r_uri r /\ r_version r <> None;
  ro_closed : closed_ws uses t (r_disk r);
  ro_quiet : r_version r <> None -> quiet_unedited R check uses t r
}.

Lemma fv_edited r v : r_version r = Some v -> In (r_uri r) (r_open r) ->
  fv_of r (r_uri r) = Some (Some v).
Proof.
  intros Hv Ho. unfold fv_of. apply memp_In in Ho. rewrite Ho, N.eqb_refl, Hv. reflexivity.
Qed.

Lemma fv_other r p : p <> r_uri r -> fv_of r p = None \/ fv_of r p = Some None.
Proof.
  intros Hne. unfold fv_of. destruct (memp p (r_open r)); [|left; reflexivity].
  apply N.eqb_neq in Hne. rewrite Hne. right. reflexivity.
Qed.

Lemma fv_noversion r p : r_version r = None -> fv_of r p = None \/ fv_of r p = Some None.
Proof.
  intros Hv. unfold fv_of. destruct (memp p (r_open r)); [|left; reflexivity].
  destruct (N.eqb p (r_uri r)); [rewrite Hv|]; right; reflexivity.
Qed.

Lemma verle_join r p maxv : verle (join_ver (fv_of r p)) (bump maxv r p).
Proof.
  unfold fv_of, bump. destruct (memp p (r_open r)); [|exact I].
  destruct (N.eqb p (r_uri r)) eqn:Eq; [|exact I].
  destruct (r_version r) as [v|]; [|exact I]. simpl. rewrite Eq. lia.
Qed.

Lemma ver_ok_stale (v : version) (cv : option version) m : verle cv m -> N.lt m v -> ver_ok (Some v) cv = false.
Proof.
  intros Hle Hlt. unfold ver_ok. destruct cv as [c|]; [|reflexivity].
  simpl in Hle. apply N.leb_gt. lia.
Qed.

(* ---- a versionless request after a completed compilation reuses the programs cache ---- *)
Lemma parse_valid_when_unchanged t d maxv mc pc r :
  cache_inv t d maxv mc pc -> r_version r = None ->
  (forall p, In p (tpaths t) -> r_disk r p = d p) ->
  parse_utd_tree R mc (fv_of r) (r_disk r) t = true.
Proof.
  intros [Hn _] Hv Hd. apply parse_utd_tree_true. intros s' Hs'.
  destruct (Hn s' Hs') as [e [ty [H1 [H2 [H3 _]]]]].
  unfold parse_ok. rewrite H1.
  destruct (fv_noversion r (troot s') Hv) as [E|E]; rewrite E.
  - rewrite H3. apply N.eqb_eq. apply Hd. eapply tnodes_paths; eauto. apply troot_in_tpaths.
  - reflexivity.
Qed.

(* ---- a request carrying a version never finds the parse cache valid ---- *)
Lemma parse_invalid_when_edited t d maxv mc pc r v :
  cache_inv t d maxv mc pc -> r_version r = Some v ->
  N.lt (maxv (r_uri r)) v -> In (r_uri r) (r_open r) -> In (r_uri r) (tpaths t) ->
  parse_utd_tree R mc (fv_of r) (r_disk r) t = false.
Proof.
  intros [Hn _] Hv Hlt Ho Hin.
  destruct (tpaths_node t _ Hin) as [sx [Hsx Hrx]].
  apply parse_utd_tree_false with (s := sx); [exact Hsx|].
  destruct (Hn sx Hsx) as [e [ty [H1 [H2 [H3 [H4 _]]]]]].
  unfold parse_ok. rewrite H1, Hrx, (fv_edited r v Hv Ho).
  eapply ver_ok_stale; [|exact Hlt]. rewrite <- Hrx. exact H4.
Qed.

Lemma theight_pos t : (0 < theight t)%nat.
Proof. destruct t; simpl; lia. Qed.

(* ---- the full compilation ---- *)
Lemma full_compile_ok t prev maxv mc pc r fuel :
  NoDup (tpaths t) -> (theight t < fuel)%nat ->
  pre_inv t prev maxv mc pc -> req_ok t prev maxv r ->
  (prev = None \/ r_version r <> None) ->
  exists st, tc_inc fuel (fv_of r) (r_disk r) t (init_ts (prime R (fv_of r) (r_disk r) t mc)) = Ok st /\
    (snapshot R (ts_env R st) t, ts_diags R st) = fresh t (r_disk r) /\
    cache_inv t (r_disk r) (bump maxv r) (ts_cache R st) (Some (fresh t (r_disk r))).
Proof.
  intros Hnd Hf Hpre Hr Hcase.
  set (fv := fv_of r). set (disk := r_disk r).
  set (mc1 := prime R fv disk t mc).
  destruct (prime_char fv disk t mc Hnd) as [Op Pp]. fold mc1 in Op, Pp.
  assert (Hm1 : mirror mc1 t).
  { intros s' Hs'. rewrite (Pp s' Hs'). eexists. split; [reflexivity|]. reflexivity. }
  assert (Hc1 : cohr disk mc1 fv t).
  { intros s' e ty Hs' He Hty Hu.
    rewrite (Pp s' Hs') in He. inversion He as [Hee]. subst e. cbn [ce_typed] in Hty.
    destruct prev as [d|].
    2:{ destruct Hpre as [Hmc _]. unfold typed_of in Hty. rewrite Hmc in Hty. discriminate. }
    destruct Hcase as [Hcase|Hcase]; [discriminate|].
    destruct (r_version r) as [v|] eqn:Hv; [|congruence].
    destruct (ro_ver _ _ _ _ Hr v Hv) as [Hlt [Ho Hin]].
    destruct Hpre as [Hn Hpc].
    (* the edited file is not in the reused subtree *)
    assert (Hx : ~ In (r_uri r) (tpaths s')).
    { intros Hx. destruct (tpaths_node s' _ Hx) as [sx [Hsx Hrx]].
      pose proof (ty_utd_tree_nodes R mc1 fv s' sx Hu Hsx) as Hux.
      pose proof (ty_utd_tree_root R mc1 fv sx Hux) as Hok.
      assert (Hsxt : In sx (tnodes t)) by (eapply tnodes_trans; eauto).
      unfold ty_ok in Hok. rewrite (Pp sx Hsxt) in Hok. cbn [ce_typed] in Hok.
      destruct (Hn sx Hsxt) as [ex [tyx [H1 [_ [_ [_ [H5 [_ H7]]]]]]]].
      unfold typed_of in Hok. rewrite H1, H5 in Hok.
      rewrite Hrx in Hok. unfold fv in Hok. rewrite (fv_edited r v Hv Ho) in Hok.
      rewrite Hrx in H7. pose proof (ver_ok_stale v _ _ H7 Hlt) as Hst. unfold version in *. congruence. }
    assert (Hsame : forall q, In q (tpaths s') -> d q = disk q).
    { intros q Hq. destruct (N.eq_dec (disk q) (d q)) as [E|E]; [symmetry; exact E|].
      exfalso. destruct (ro_disk _ _ _ _ Hr d eq_refl q) as [Hq' _]; auto.
      - eapply tnodes_paths; eauto.
      - apply Hx. rewrite <- Hq'. exact Hq. }
    destruct (Hn s' Hs') as [e0 [ty0 [H1 [_ [_ [_ [H5 [H6 _]]]]]]]].
    unfold typed_of in Hty. rewrite H1, H5 in Hty. inversion Hty. subst ty0. split.
    - rewrite H6. rewrite (Fenv_disk_ext R check uses d disk s' Hsame). reflexivity.
    - apply (ro_quiet _ _ _ _ Hr); [rewrite Hv; discriminate | exact Hs' | exact Hx]. }
  assert (Hcl : closed_sub disk t) by (apply (ro_closed _ _ _ _ Hr)).
  destruct (tc_inc_ok R check uses disk fv fuel t (init_ts mc1) (init_ts (fun _ => None))
              (fun q => eq_refl) Hm1 Hc1 Hcl Hnd Hf)
    as [st [E [Henv [Hd [Hp [Ho Hg]]]]]].
  exists st. split; [exact E|]. cbn [ts_cache ts_diags Model.init_ts] in *.
  assert (Hout : (snapshot R (ts_env R st) t, ts_diags R st) = fresh t disk).
  { rewrite fresh_eq. rewrite Hd. simpl. f_equal. apply snapshot_ext. intros q _. apply Henv. }
  split; [exact Hout|]. split; [|reflexivity].
  intros s' Hs'. destruct (Hg s' Hs') as [e [ty [He [Hty [Hte Hv]]]]].
  exists e, ty.
  pose proof (Hp (troot s')) as Hps. rewrite He, (Pp s' Hs') in Hps. simpl in Hps.
  inversion Hps as [Hpe].
  split; [exact He|]. rewrite Hpe. cbn [pinfo p_deps p_hash p_ver].
  split; [reflexivity|]. split; [reflexivity|]. split; [apply verle_join|].
  split; [exact Hty|]. split; [exact Hte|].
  destruct Hv as [Hv|Hv].
  - rewrite He, (Pp s' Hs') in Hv. inversion Hv as [Hee]. subst e. cbn [ce_typed] in Hty.
    destruct prev as [d|].
    + destruct Hpre as [Hn _]. destruct (Hn s' Hs') as [e0 [ty0 [H1 [_ [_ [_ [H5 [_ H7]]]]]]]].
      unfold typed_of in Hty. rewrite H1, H5 in Hty. inversion Hty. subst ty0.
      eapply verle_mono; [apply bump_ge | exact H7].
    + destruct Hpre as [Hmc _]. unfold typed_of in Hty. rewrite Hmc in Hty. discriminate.
  - rewrite Hv. apply verle_join.
Qed.

(* ---- cancellation ---- *)
Lemma cancel_mono r k : (k <= 4)%nat -> cancel_at r k = true -> cancelled r = true.
Proof.
  unfold cancelled, cancel_at. destruct (r_cancel r) as [j|]; [|discriminate].
  intros Hk Hj. apply Nat.leb_le in Hj. apply Nat.leb_le. lia.
Qed.

Lemma compile_cancelled fuel q r x :
  cancelled r = true -> compile fuel q r = Ok x -> x = CCancelled R.
Proof.
  unfold cancelled, Model.compile. intros Hc.
  destruct (cancel_at r 0); [intros E; inversion E; reflexivity|].
  destruct (parse_utd R fuel (q_mc R q) (fv_of r) (r_disk r) (troot (r_tree r))) as [[|]|]; [| |discriminate].
  - destruct (q_pc R q); [|discriminate]. rewrite Hc. intros E; inversion E; reflexivity.
  - destruct (cancel_at r 1); [intros E; inversion E; reflexivity|].
    destruct (Model.tc_inc R check uses fuel (fv_of r) (r_disk r) (r_tree r) _); try discriminate.
    destruct (cancel_at r 2); [intros E; inversion E; reflexivity|].
    destruct (cancel_at r 3); [intros E; inversion E; reflexivity|].
    rewrite Hc. intros E; inversion E; reflexivity.
Qed.

(* a cancelled compilation leaves the server (shared caches, session) unchanged *)
Lemma cow_discard_sound fuel s r s' :
  step fuel s r = Ok s' -> cancelled r = true -> s' = s.
Proof.
  unfold Model.step. intros E Hc.
  destruct (compile fuel _ r) as [x| | |] eqn:Ec; try discriminate.
  rewrite (compile_cancelled _ _ _ _ Hc Ec) in E. inversion E. reflexivity.
Qed.

(* clear_module removes exactly the function-cache entries of the module *)
Lemma gc_only_removes_module p (q : qstate R) :
  q_mc R (clear_module R p q) = q_mc R q /\ q_pc R (clear_module R p q) = q_pc R q /\
  forall e, In e (q_fc R (clear_module R p q)) <-> In e (q_fc R q) /\ fst e <> p.
Proof.
  split; [reflexivity|]. split; [reflexivity|]. intros e. unfold clear_module. cbn [q_fc].
  rewrite filter_In. rewrite negb_true_iff, N.eqb_neq. reflexivity.
Qed.

(* ---- one compilation under the invariant ---- *)
Lemma disks_equal t prev maxv r d : req_ok t prev maxv r -> prev = Some d -> r_version r = None ->
  forall p, In p (tpaths t) -> r_disk r p = d p.
Proof.
  intros Hr Hp Hv p Hin. destruct (N.eq_dec (r_disk r p) (d p)) as [E|E]; [exact E|].
  destruct (ro_disk _ _ _ _ Hr d Hp p Hin E) as [_ Hc]. congruence.
Qed.

Lemma compile_ok t prev maxv q r fuel :
  NoDup (tpaths t) -> (theight t < fuel)%nat ->
  pre_inv t prev maxv (q_mc R q) (q_pc R q) -> req_ok t prev maxv r ->
  exists x, compile fuel q r = Ok x /\
    (cancelled r = false ->
       (x = CReused R (fresh t (r_disk r)) /\ prev <> None /\
        cache_inv t (r_disk r) (bump maxv r) (q_mc R q) (q_pc R q)) \/
       (exists q' reused, x = CCompiled R (fresh t (r_disk r)) q' reused /\
          cache_inv t (r_disk r) (bump maxv r) (q_mc R q') (q_pc R q') /\
          (prev = None \/ r_version r <> None))).
Proof.
  intros Hnd Hf Hpre Hr.
  unfold Model.compile. rewrite (ro_tree _ _ _ _ Hr).
  destruct (cancel_at r 0) eqn:C0.
  { eexists. split; [reflexivity|]. intros Hc. rewrite (cancel_mono r 0) in Hc; [discriminate|lia|exact C0]. }
  assert (Hcases : (exists d, prev = Some d /\ r_version r = None) \/ (prev = None \/ r_version r <> None)).
  { destruct prev as [d|]; [|right; left; reflexivity].
    destruct (r_version r); [right; right; discriminate | left; eauto]. }
  destruct Hcases as [[d [Hp Hv]]|Hcase].
  - (* programs cache reused *)
    subst prev. simpl in Hpre.
    pose proof (disks_equal _ _ _ _ d Hr eq_refl Hv) as Hdisk.
    rewrite (parse_utd_char R _ _ _ t fuel (cache_inv_mirror _ _ _ _ _ Hpre) Hf).
    rewrite (parse_valid_when_unchanged t d maxv _ _ r Hpre Hv Hdisk).
    destruct Hpre as [Hn Hpc]. rewrite Hpc.
    destruct (cancel_at r 4) eqn:C4.
    { eexists. split; [reflexivity|]. intros Hc. unfold cancelled in Hc. congruence. }
    eexists. split; [reflexivity|]. intros _. left.
    assert (Hfe : fresh t d = fresh t (r_disk r)).
    { apply fresh_ext. intros q0 Hq. symmetry. apply Hdisk. exact Hq. }
    split; [rewrite Hfe; reflexivity|]. split; [discriminate|].
    apply cache_inv_ext with (d := d) (maxv := maxv).
    + intros q0 Hq. symmetry. apply Hdisk. exact Hq.
    + intros p. apply bump_ge.
    + split; [exact Hn | first [exact Hpc | reflexivity]].
  - (* full compilation *)
    assert (Hparse : parse_utd R fuel (q_mc R q) (fv_of r) (r_disk r) (troot t) = Some false).
    { destruct prev as [d|].
      - destruct Hcase as [Hcase|Hcase]; [discriminate|].
        destruct (r_version r) as [v|] eqn:Hv; [|congruence].
        destruct (ro_ver _ _ _ _ Hr v Hv) as [Hlt [Ho Hin]]. simpl in Hpre.
        rewrite (parse_utd_char R _ _ _ t fuel (cache_inv_mirror _ _ _ _ _ Hpre) Hf).
        rewrite (parse_invalid_when_edited t d maxv _ _ r v Hpre Hv Hlt Ho Hin). reflexivity.
      - destruct Hpre as [Hmc _]. destruct fuel as [|f]; [inversion Hf|].
        cbn [parse_utd]. rewrite Hmc. reflexivity. }
    rewrite Hparse.
    destruct (cancel_at r 1) eqn:C1.
    { eexists. split; [reflexivity|]. intros Hc. rewrite (cancel_mono r 1) in Hc; [discriminate|lia|exact C1]. }
    destruct (full_compile_ok t prev maxv _ _ r fuel Hnd Hf Hpre Hr Hcase) as [st [E [Hout Hinv]]].
    rewrite E.
    destruct (cancel_at r 2) eqn:C2.
    { eexists. split; [reflexivity|]. intros Hc. rewrite (cancel_mono r 2) in Hc; [discriminate|lia|exact C2]. }
    destruct (cancel_at r 3) eqn:C3.
    { eexists. split; [reflexivity|]. intros Hc. rewrite (cancel_mono r 3) in Hc; [discriminate|lia|exact C3]. }
    destruct (cancel_at r 4) eqn:C4.
    { eexists. split; [reflexivity|]. intros Hc. unfold cancelled in Hc. congruence. }
    eexists. split; [reflexivity|]. intros _. right.
    rewrite Hout. eexists. eexists. split; [reflexivity|]. cbn [q_mc q_pc]. split; [exact Hinv | exact Hcase].
Qed.

(* ---- the server invariant ---- *)
Definition inv (t : mtree) (prev : option (path -> text)) (maxv : path -> N) (s : lsp R) : Prop :=
  local (l_qe R s) = None /\
  pre_inv t prev maxv (q_mc R (inner (l_qe R s))) (q_pc R (inner (l_qe R s))) /\
  l_obs R s = option_map (fresh t) prev.

Lemma pre_inv_mono t prev maxv maxv' mc pc : (forall p, N.le (maxv p) (maxv' p)) ->
  pre_inv t prev maxv mc pc -> pre_inv t prev maxv' mc pc.
Proof.
  intros Hm. destruct prev as [d|]; simpl; [|auto].
  apply cache_inv_ext; auto.
Qed.

Lemma step_ok t prev maxv s r fuel :
  NoDup (tpaths t) -> (theight t < fuel)%nat -> inv t prev maxv s -> req_ok t prev maxv r ->
  exists s', step fuel s r = Ok s' /\
             inv t (if cancelled r then prev else Some (r_disk r)) (bump maxv r) s'.
Proof.
  intros Hnd Hf [Hloc [Hpre Hobs]] Hr. unfold Model.step.
  set (needs := orb (has_modified r) (match l_obs R s with None => true | Some _ => false end)).
  set (clone1 := if andb (r_gc r) needs
                 then cow_write (clear_module R (r_uri r)) (cow_clone (l_qe R s))
                 else cow_clone (l_qe R s)).
  assert (Hq : q_mc R (cow_read clone1) = q_mc R (inner (l_qe R s)) /\
               q_pc R (cow_read clone1) = q_pc R (inner (l_qe R s))).
  { assert (Hrd : cow_read (l_qe R s) = inner (l_qe R s)) by (unfold cow_read; rewrite Hloc; reflexivity).
    unfold clone1. destruct (andb (r_gc r) needs); [rewrite cow_read_write|];
      rewrite cow_read_clone, Hrd; split; reflexivity. }
  destruct Hq as [Hq1 Hq2].
  assert (Hpre' : pre_inv t prev maxv (q_mc R (cow_read clone1)) (q_pc R (cow_read clone1))).
  { rewrite Hq1, Hq2. exact Hpre. }
  destruct (compile_ok t prev maxv (cow_read clone1) r fuel Hnd Hf Hpre' Hr) as [x [Ex Hx]].
  rewrite Ex. destruct (cancelled r) eqn:Hc.
  - rewrite (compile_cancelled _ _ _ _ Hc Ex). exists s. split; [reflexivity|].
    split; [exact Hloc|]. split; [|exact Hobs].
    eapply pre_inv_mono; [|exact Hpre]. intros p. apply bump_ge.
  - destruct (Hx eq_refl) as [[-> [Hpn Hci]]|[q' [reused [-> [Hci Hcase]]]]].
    + eexists. split; [reflexivity|]. cbn [l_qe l_obs]. split; [exact Hloc|].
      rewrite Hq1, Hq2 in Hci. split; [exact Hci|].
      destruct prev as [d|]; [|congruence]. simpl in Hobs. rewrite Hobs. simpl.
      destruct needs; [reflexivity|].
      destruct Hpre as [_ Hpc]. destruct Hci as [_ Hpc']. rewrite Hpc in Hpc'.
      exact Hpc'.
    + eexists. split; [reflexivity|]. cbn [l_qe l_obs].
      rewrite cow_commit_write. cbn [inner local]. split; [reflexivity|]. split; [exact Hci|].
      simpl. assert (Hn : needs = true).
      { unfold needs. destruct Hcase as [Hp|Hv].
        - subst prev. simpl in Hobs. rewrite Hobs. apply orb_true_r.
        - destruct (r_version r) as [v|] eqn:Ev; [|congruence].
          destruct (ro_ver _ _ _ _ Hr v Ev) as [_ [Ho _]].
          unfold has_modified. rewrite Ev. apply memp_In in Ho. rewrite Ho. reflexivity. }
      rewrite Hn. reflexivity.
Qed.

Lemma disciplined_head t prev maxv r h :
  disciplined R check uses t prev maxv (r :: h) ->
  req_ok t prev maxv r /\
  disciplined R check uses t (if cancelled r then prev else Some (r_disk r)) (bump maxv r) h.
Proof.
  simpl. intros [H1 [H2 [H3 [H4 [H5 H6]]]]]. split; [constructor; assumption | exact H6].
Qed.

Lemma run_ok t fuel : NoDup (tpaths t) -> (theight t < fuel)%nat ->
  forall h prev maxv s, inv t prev maxv s -> disciplined R check uses t prev maxv h ->
  exists s', run fuel s h = Ok s' /\ l_obs R s' = option_map (fresh t) (last_done prev h).
Proof.
  intros Hnd Hf. induction h as [|r h IH]; intros prev maxv s Hinv Hd.
  - exists s. split; [reflexivity|]. apply Hinv.
  - apply disciplined_head in Hd. destruct Hd as [Hr Hd].
    destruct (step_ok t prev maxv s r fuel Hnd Hf Hinv Hr) as [s1 [E1 Hinv1]].
    destruct (IH _ _ s1 Hinv1 Hd) as [s' [E' Ho]].
    exists s'. cbn [Model.run]. rewrite E1. split; [exact E'|]. exact Ho.
Qed.

Lemma init_inv t : inv t None (fun _ => 0%N) (init_lsp R).
Proof. split; [reflexivity|]. split; [split; reflexivity | reflexivity]. Qed.

Lemma incremental_eq_fresh t fuel h :
  NoDup (tpaths t) -> (theight t < fuel)%nat ->
  disciplined R check uses t None (fun _ => 0%N) h ->
  exists s, run fuel (init_lsp R) h = Ok s /\ l_obs R s = expected R check uses t h.
Proof.
  intros Hnd Hf Hd.
  destruct (run_ok t fuel Hnd Hf h None _ _ (init_inv t) Hd) as [s [E Ho]].
  exists s. split; [exact E|]. rewrite Ho. unfold expected.
  destruct (last_done None h); reflexivity.
Qed.

Lemma disciplined_of_parts : forall h t prev maxv,
  protocol t prev maxv h ->
  (forall r, In r h -> closed_ws uses t (r_disk r)) ->
  (forall r, In r h -> r_version r <> None -> quiet_unedited R check uses t r) ->
  disciplined R check uses t prev maxv h.
Proof.
  induction h as [|r h IH]; intros t prev maxv Hp Hc Hq; [exact I|].
  simpl in Hp. destruct Hp as [H1 [H2 [H3 H4]]]. simpl.
  split; [exact H1|]. split; [exact H2|]. split; [exact H3|].
  split; [apply Hc; left; reflexivity|]. split; [apply Hq; left; reflexivity|].
  apply IH; [exact H4 | intros r0 H0; apply Hc; right; exact H0 | intros r0 H0; apply Hq; right; exact H0].
Qed.

Lemma protocol_prefix : forall h1 h2 t prev maxv,
  protocol t prev maxv (h1 ++ h2) -> protocol t prev maxv h1.
Proof.
  induction h1 as [|r h1 IH]; intros h2 t prev maxv H; [exact I|].
  simpl in H. destruct H as [H1 [H2 [H3 H4]]]. simpl.
  split; [exact H1|]. split; [exact H2|]. split; [exact H3|]. eapply IH; eauto.
Qed.

Lemma closed_wsb_spec t disk : closed_wsb uses t disk = true <-> closed_ws uses t disk.
Proof.
  unfold closed_wsb, closed_ws. rewrite forallb_forall. split.
  - intros H s Hs q Hq. specialize (H s Hs). rewrite forallb_forall in H.
    apply memp_In. apply H. exact Hq.
  - intros H s Hs. apply forallb_forall. intros q Hq. apply memp_In. apply (H s Hs). exact Hq.
Qed.

End Main.
