(* C24 — invariants of the protocol model, by induction over `step`. *)
From Coq Require Import List NArith Bool Lia.
Import ListNotations.
From SwayV Require Import C24.Model C24.Spec.
Local Open Scope N_scope.

(* ---------- lists with one updated position ---------- *)
Lemma Forall_upd : forall (P : handler -> Prop) i h hs,
  Forall P hs -> P h -> Forall P (upd i h hs).
Proof.
  intros P i h hs H; revert i. induction H as [|x t Hx Ht IH]; intros i Hh; cbn.
  - constructor.
  - destruct i; constructor; auto.
Qed.

Lemma Exists_upd_new : forall (P : handler -> Prop) i h h0 hs,
  nth_error hs i = Some h0 -> P h -> Exists P (upd i h hs).
Proof.
  intros P i h h0 hs; revert i. induction hs as [|x t IH]; intros [|i] Hn Hh; cbn in *; try discriminate.
  - left; exact Hh.
  - right; eauto.
Qed.

Lemma Exists_upd_keep : forall (P : handler -> Prop) i h h0 hs,
  Exists P hs -> nth_error hs i = Some h0 -> (P h0 -> P h) -> Exists P (upd i h hs).
Proof.
  intros P i h h0 hs H; revert i. induction H as [x t Hx|x t Ht IH]; intros [|i] Hn Himp; cbn in *.
  - inversion Hn; subst. left; auto.
  - left; exact Hx.
  - right; exact Ht.
  - right; eauto.
Qed.

Lemma In_upd : forall i (h x : handler) hs, In x (upd i h hs) -> x = h \/ In x hs.
Proof.
  intros i h x hs; revert i. induction hs as [|y t IH]; intros [|i] H; cbn in *; auto.
  - destruct H; auto.
  - destruct H as [H|H]; auto. destruct (IH _ H); auto.
Qed.

Lemma parked_not_pre_send : forall p, parked p = true -> pre_send p = false.
Proof. destruct p; cbn; congruence. Qed.

Lemma settled_not_pend : forall st, settled st -> ~ pend st.
Proof.
  intros [s hs] (Hw & Hc & Hf) [H|H]; cbn in *.
  - congruence.
  - rewrite Exists_exists in H. destruct H as (h & Hin & Hp).
    rewrite Forall_forall in Hf. apply Hf in Hin. apply parked_not_pre_send in Hin. congruence.
Qed.

(* ---------- how a handler step affects "a request is pending" ---------- *)
Definition pendS (s : shared) (hs : list handler) : Prop :=
  chan s <> None \/ Exists (fun h => pre_send (hp h) = true) hs.

Lemma pendS_chan : forall s s' hs, chan s' = chan s -> pendS s hs -> pendS s' hs.
Proof. intros s s' hs E [H|H]; [left; congruence | right; exact H]. Qed.

Lemma hstep_pre_send_new : forall c s k p s' p' i h0 hs,
  hstep c s k p = Some (s', p') -> nth_error hs i = Some h0 ->
  pre_send p' = true -> pendS s' (upd i (mkH k p') hs).
Proof. intros. right. eapply Exists_upd_new; eauto. Qed.

Lemma after_full_pre : forall c k, pre_send (after_full c k) = true.
Proof. intros c k. unfold after_full. destruct (fixB c && is_open k); reflexivity. Qed.

(* a handler step never makes a pending request disappear *)
Lemma hstep_pend : forall c s k p s' p' i hs,
  hstep c s k p = Some (s', p') -> nth_error hs i = Some (mkH k p) ->
  pendS s hs -> pendS s' (upd i (mkH k p') hs).
Proof.
  intros c s k p s' p' i hs Hs Hn Hp.
  destruct (pre_send p') eqn:Epre.
  { eapply hstep_pre_send_new; eauto. }
  destruct p; cbn in Hs;
    repeat match type of Hs with
           | context [match chan s with _ => _ end] => destruct (chan s) eqn:?
           | context [if ?b then _ else _] => destruct b eqn:?
           end;
    inversion Hs; subst; clear Hs; cbn in *; try discriminate;
    try (rewrite after_full_pre in Epre; discriminate);
    try (left; cbn; congruence);
    try (destruct Hp as [Hp|Hp];
         [ left; cbn; congruence
         | right; eapply Exists_upd_keep; eauto; cbn; congruence ]).
Qed.

(* fields a handler step leaves alone *)
Lemma hstep_frame : forall c s k p s' p',
  hstep c s k p = Some (s', p') ->
  wp s' = wp s /\ epoch s' = epoch s /\ lcs s' = lcs s /\ last s' = last s.
Proof.
  intros c s k p s' p' Hs.
  destruct p; cbn in Hs;
    try (inversion Hs; subst; cbn; repeat split; reflexivity);
    try (destruct (chan s) eqn:Ec; inversion Hs; subst; cbn; repeat split; reflexivity).
  destruct (epoch s =? e); inversion Hs; subst; cbn; repeat split; reflexivity.
Qed.

(* ================= (b) no lost edit, for every configuration with fixC ================= *)
Definition compiling_pc (p : wpc) : bool :=
  match p with WSetC | WComp _ _ => true | _ => false end.

Definition fresh (s : shared) : Prop :=
  match wp s with
  | WComp (Some d) _ => d = doc s
  | WComp None _ | WGot | WSetC => True
  | _ => last s = doc s
  end.

Definition InvB (st : state) : Prop :=
  let (s, hs) := st in
  (compiling_pc (wp s) = true -> rt s = true -> pendS s hs) /\
  (fresh s \/ pendS s hs).

Lemma InvB_init : forall c ks, InvB (init c ks).
Proof. intros; cbn; split; [discriminate | left; reflexivity]. Qed.

Lemma InvB_step : forall c st l st',
  fixC c = true -> InvB st -> step c st l = Some st' -> InvB st'.
Proof.
  intros c [s hs] l st' HC [I1 I2] Hstep. destruct l as [a|i]; cbn in Hstep.
  - (* worker *)
    destruct (wstep c a s) as [s'|] eqn:Hw; [|discriminate]. inversion Hstep; subst; clear Hstep.
    unfold wstep in Hw. rewrite HC in Hw.
    destruct (wp s) as [| | |sn pl| | | | |] eqn:Ewp; destruct a; try discriminate;
      try (destruct sn as [d|]; try discriminate);
      try (destruct pl; try discriminate);
      repeat match type of Hw with
             | context [match chan s with _ => _ end] => destruct (chan s) eqn:?
             | context [if rt s then _ else _] => destruct (rt s) eqn:?
             end;
      try discriminate; inversion Hw; subst; clear Hw;
      unfold InvB, fresh in *; cbn in *; rewrite ?Ewp in *; cbn in *;
      (split; [ try discriminate; try (intros; congruence);
                try (intros; apply (pendS_chan s); auto; fail) | ]);
      try (left; auto; fail);
      try (destruct I2 as [I2|I2]; [left; auto; congruence | right; apply (pendS_chan s); auto]; fail);
      try (right; apply (pendS_chan s); auto; fail).
  - (* handler i *)
    destruct (nth_error hs i) as [[k p]|] eqn:Hn; [|discriminate]. cbn in Hstep.
    destruct (hstep c s k p) as [[s' p']|] eqn:Hh; [|discriminate].
    inversion Hstep; subst; clear Hstep.
    destruct (pre_send p') eqn:Epre.
    { pose proof (hstep_pre_send_new _ _ _ _ _ _ _ _ _ Hh Hn Epre) as Hp.
      split; [intros; exact Hp | right; exact Hp]. }
    pose proof (hstep_frame _ _ _ _ _ _ Hh) as (Fw & Fe & Fl & Fla).
    assert (Frd : rt s' = rt s /\ doc s' = doc s).
    { destruct p; cbn in Hh;
        repeat match type of Hh with
               | context [match chan s with _ => _ end] => destruct (chan s)
               | context [if ?b then _ else _] => destruct b
               end;
        inversion Hh; subst; cbn in *; auto; discriminate. }
    destruct Frd as [Fr Fd].
    split.
    + rewrite Fw, Fr. intros H1 H2. eapply hstep_pend; eauto.
    + destruct I2 as [I2|I2].
      * left. unfold fresh in *. rewrite Fw, Fd, Fla. exact I2.
      * right. eapply hstep_pend; eauto.
Qed.

Lemma InvB_run : forall c ls st st',
  fixC c = true -> InvB st -> run c st ls = Some st' -> InvB st'.
Proof.
  intros c ls; induction ls as [|l t IH]; intros st st' HC HI Hr; cbn in Hr.
  - inversion Hr; subst; exact HI.
  - destruct (step c st l) as [st1|] eqn:E; [|discriminate].
    eapply IH; [exact HC | | exact Hr]. eapply InvB_step; [exact HC | exact HI | exact E].
Qed.

Lemma reachable_InvB : forall c ks st, fixC c = true -> reachable c ks st -> InvB st.
Proof. intros c ks st HC [ls Hr]. eapply InvB_run; eauto. apply InvB_init. Qed.

Lemma no_lost_edit_fixC : forall c ks st,
  fixC c = true -> reachable c ks st -> settled st -> no_lost_edit st.
Proof.
  intros c ks [s hs] HC Hr Hs. pose proof (reachable_InvB _ _ _ HC Hr) as [_ I2].
  pose proof (settled_not_pend _ Hs) as Np. destruct Hs as (Hw & _ & _). cbn in *.
  destruct I2 as [I2|I2].
  - unfold no_lost_edit, fresh in *. cbn. rewrite Hw in I2. exact I2.
  - exfalso. apply Np. exact I2.
Qed.
