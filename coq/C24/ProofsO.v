(* C24 — the boolean oracles mean what Spec says. *)
From Coq Require Import List NArith Bool Lia.
Import ListNotations.
From SwayV Require Import C24.Model C24.Spec.
Local Open Scope N_scope.

Lemma settledb_sound : forall st, settledb st = true -> settled st.
Proof.
  intros [s hs] H. unfold settledb in H. cbn in *.
  apply andb_true_iff in H. destruct H as [H H3]. apply andb_true_iff in H. destruct H as [H1 H2].
  split; [|split]; cbn.
  - destruct (wp s); cbn in H1; try discriminate; reflexivity.
  - destruct (chan s); cbn in H2; try discriminate; reflexivity.
  - apply Forall_forall. rewrite forallb_forall in H3. exact H3.
Qed.

Lemma bad_a_sound : forall st, bad_a st = true ->
  settled st /\ lcs (fst st) = true /\ ~ no_stuck_waiter st.
Proof.
  intros [s hs] H. unfold bad_a in H.
  apply andb_true_iff in H. destruct H as [H H3]. apply andb_true_iff in H. destruct H as [H1 H2].
  split; [apply settledb_sound; exact H1|]. split; [exact H2|].
  intro Hn. apply existsb_exists in H3. destruct H3 as (h & Hin & Hs). unfold stuckb in Hs.
  cbn in *. destruct (hp h) eqn:Eh; try discriminate.
  apply N.eqb_eq in Hs. exact (Hn h e Hin Eh Hs).
Qed.

Lemma bad_b_sound : forall st, bad_b st = true -> settled st /\ ~ no_lost_edit st.
Proof.
  intros [s hs] H. unfold bad_b in H. apply andb_true_iff in H. destruct H as [H1 H2].
  split; [apply settledb_sound; exact H1|]. unfold no_lost_edit. cbn in *.
  apply negb_true_iff in H2. apply N.eqb_neq in H2. exact H2.
Qed.
