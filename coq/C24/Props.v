(* C24 — property theorems only.
   Property: for every interleaving of client notifications/requests with the compilation
   thread, (a) every request or notification that waits for compilation returns once no
   compilation is running or pending; (b) once the system is quiescent the last completed
   compilation used the latest document version.
   `repaired` is the protocol of the current tree (fix commits 79d87f7, 4171fe2, fc61d64 in
   /repo); `orig` is the protocol as found. Any number of client events (`ks` arbitrary), all
   schedules. *)
From Coq Require Import List NArith Bool.
Import ListNotations.
From SwayV Require Import C24.Model C24.Spec C24.Proofs C24.ProofsA C24.ProofsL C24.ProofsO C24.Orig.
Local Open Scope N_scope.

(* The inductive invariants of the repaired protocol. *)
Theorem C24_reachable_inv : forall ks st,
  reachable repaired ks st -> InvA st /\ InvB st /\ InvL st /\ InvF st.
Proof.
  intros ks st H. repeat split.
  - apply (reachable_InvA repaired ks st eq_refl eq_refl H).
  - apply (reachable_InvB repaired ks st eq_refl H).
  - apply (reachable_InvL repaired ks st H).
  - apply (reachable_InvF repaired ks st H).
Qed.
Print Assumptions C24_reachable_inv.

(* (a) In every reachable state where the worker is idle on an empty channel and every
   handler has either returned or is awaiting the notification, every awaiting handler has
   already been notified (its await completes).  `lcs = true`: a compilation has happened;
   see C24_no_stuck_waiter_after_notification for the discharge of this side condition. *)
Theorem C24_no_stuck_waiter : forall ks st,
  reachable repaired ks st -> settled st -> lcs (fst st) = true -> no_stuck_waiter st.
Proof. intros ks st. exact (no_stuck_waiter_fixAB repaired ks st eq_refl eq_refl). Qed.
Print Assumptions C24_no_stuck_waiter.

Theorem C24_no_stuck_waiter_after_notification : forall ks st,
  reachable repaired ks st -> settled st ->
  (exists h, In h (snd st) /\ is_req (hk h) = false) -> no_stuck_waiter st.
Proof.
  intros ks st Hr Hs Hex. apply (C24_no_stuck_waiter ks st Hr Hs).
  exact (settled_after_notification_lcs repaired ks st Hr Hs Hex).
Qed.
Print Assumptions C24_no_stuck_waiter_after_notification.

(* (a), DESIGN wording: when no thread at all can step, no waiter exists — every handler
   has returned. *)
Theorem C24_final_all_returned : forall ks st,
  reachable repaired ks st -> settled st -> lcs (fst st) = true -> final repaired st ->
  Forall (fun h => hp h = HDone) (snd st).
Proof. intros ks st. exact (final_all_done repaired ks st eq_refl eq_refl). Qed.
Print Assumptions C24_final_all_returned.

(* (b) *)
Theorem C24_no_lost_edit : forall ks st,
  reachable repaired ks st -> settled st -> no_lost_edit st.
Proof. intros ks st. exact (no_lost_edit_fixC repaired ks st eq_refl). Qed.
Print Assumptions C24_no_lost_edit.

(* Which repair establishes which half (any setting of the other switches). *)
Theorem C24_fixes_AB_give_a : forall c ks st, fixA c = true -> fixB c = true ->
  reachable c ks st -> settled st -> lcs (fst st) = true -> no_stuck_waiter st.
Proof. exact no_stuck_waiter_fixAB. Qed.
Print Assumptions C24_fixes_AB_give_a.
Theorem C24_fix_C_gives_b : forall c ks st, fixC c = true ->
  reachable c ks st -> settled st -> no_lost_edit st.
Proof. exact no_lost_edit_fixC. Qed.
Print Assumptions C24_fix_C_gives_b.

(* The protocol as found violates both halves. *)
Theorem C24_lost_wakeup_refuted : exists ks st,
  reachable orig ks st /\ settled st /\ lcs (fst st) = true /\ ~ no_stuck_waiter st.
Proof.
  destruct (refutes_a_sound _ _ _ lost_wakeup_orig) as (st & Hr & Hb).
  exists ks_lost, st. split; [exact Hr | exact (bad_a_sound st Hb)].
Qed.
Print Assumptions C24_lost_wakeup_refuted.

Theorem C24_late_store_refuted : exists ks st,
  reachable orig ks st /\ settled st /\ lcs (fst st) = true /\ ~ no_stuck_waiter st.
Proof.
  destruct (refutes_a_sound _ _ _ late_store_orig) as (st & Hr & Hb).
  exists ks_late, st. split; [exact Hr | exact (bad_a_sound st Hb)].
Qed.
Print Assumptions C24_late_store_refuted.

Theorem C24_stale_retrigger_refuted : exists ks st,
  reachable orig ks st /\ settled st /\ ~ no_lost_edit st.
Proof.
  destruct (refutes_b_sound _ _ _ stale_retrigger_orig) as (st & Hr & Hb).
  exists ks_stale, st. split; [exact Hr | exact (bad_b_sound st Hb)].
Qed.
Print Assumptions C24_stale_retrigger_refuted.

(* Each of the three repairs is necessary: dropping any single one re-admits a violation. *)
Theorem C24_each_fix_necessary :
  (exists ks st, reachable (mkCfg false true true) ks st /\ settled st /\ lcs (fst st) = true /\ ~ no_stuck_waiter st) /\
  (exists ks st, reachable (mkCfg true false true) ks st /\ settled st /\ lcs (fst st) = true /\ ~ no_stuck_waiter st) /\
  (exists ks st, reachable (mkCfg true true false) ks st /\ settled st /\ ~ no_lost_edit st).
Proof.
  split; [|split].
  - destruct (refutes_a_sound _ _ _ lost_wakeup_noA) as (st & Hr & Hb).
    exists ks_lost, st. split; [exact Hr | exact (bad_a_sound st Hb)].
  - destruct (refutes_a_sound _ _ _ late_store_noB) as (st & Hr & Hb).
    exists ks_late, st. split; [exact Hr | exact (bad_a_sound st Hb)].
  - destruct (refutes_b_sound _ _ _ stale_retrigger_noC) as (st & Hr & Hb).
    exists ks_stale, st. split; [exact Hr | exact (bad_b_sound st Hb)].
Qed.
Print Assumptions C24_each_fix_necessary.

(* Safety invariant of every configuration, the code as found included: is_compiling is set
   during the whole interval between the worker's store(true) and its store(false). *)
Theorem C24_compiling_flag_set : forall c ks st,
  reachable c ks st -> flagged_pc (wp (fst st)) = true -> ic (fst st) = true.
Proof. intros c ks st H. exact (reachable_InvF c ks st H). Qed.
Print Assumptions C24_compiling_flag_set.

(* The oracles used on replayed traces. *)
Theorem C24_bad_a_sound : forall st, bad_a st = true ->
  settled st /\ lcs (fst st) = true /\ ~ no_stuck_waiter st.
Proof. exact bad_a_sound. Qed.
Print Assumptions C24_bad_a_sound.
Theorem C24_bad_b_sound : forall st, bad_b st = true -> settled st /\ ~ no_lost_edit st.
Proof. exact bad_b_sound. Qed.
Print Assumptions C24_bad_b_sound.

(* Non-vacuity: under the repaired protocol the three adversarial schedules (adapted to the
   repaired pcs) end in settled states with a compilation done, a waiter present along the
   way, all handlers returned and the edit compiled. *)
Definition all_done (st : state) : bool :=
  forallb (fun h => match hp h with HDone => true | _ => false end) (snd st).
Example C24_example_lost_wakeup_schedule_repaired :
  match run repaired (init repaired ks_lost)
          (rep 4 (LH 0) ++ [W; W; W; Wread; Wpoll; Wfin; W] ++ rep 2 (LH 1) ++ rep 4 W
           ++ rep 5 (LH 1) ++ rep 4 (LH 0)) with
  | Some st => settledb st && lcs (fst st) && all_done st && negb (bad_a st)
  | None => false end = true.
Proof. vm_compute. reflexivity. Qed.
Example C24_example_stale_schedule_repaired :
  match run repaired (init repaired ks_stale)
          (rep 4 (LH 0) ++ [W; W; W; Wread; Wpoll; Wfin; W] ++ rep 2 (LH 1) ++ rep 4 W
           ++ rep 3 (LH 1) ++ [W; W; W; Wread; Wpoll; Wfin] ++ rep 5 W ++ rep 4 (LH 0)) with
  | Some st => settledb st && all_done st && N.eqb (last (fst st)) 1 && N.eqb (doc (fst st)) 1
  | None => false end = true.
Proof. vm_compute. reflexivity. Qed.
