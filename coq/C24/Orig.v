(* C24 — the protocol AS FOUND (and every partial repair) violates the property:
   explicit schedules, checked by vm_compute. *)
From Coq Require Import List NArith Bool.
Import ListNotations.
From SwayV Require Import C24.Model C24.Spec.
Local Open Scope N_scope.

Definition W := LW ADef.
Definition Wread := LW ARead.
Definition Wpoll := LW APoll.
Definition Wfin := LW AFinish.
Fixpoint rep (n : nat) (l : label) : list label :=
  match n with O => [] | S m => l :: rep m l end.

Definition cfgA_missing := mkCfg false true true.   (* fixes B and C only *)
Definition cfgB_missing := mkCfg true false true.   (* fixes A and C only *)
Definition cfgC_missing := mkCfg true true false.   (* fixes A and B only *)

Definition refutes_a (c : cfg) (ks : list kind) (ls : list label) : bool :=
  match run c (init c ks) ls with Some st => bad_a st | None => false end.
Definition refutes_b (c : cfg) (ks : list kind) (ls : list label) : bool :=
  match run c (init c ks) ls with Some st => bad_b st | None => false end.

(* (1) lost wake-up: didOpen (thread 0), then a request (thread 1) calling wait_for_parsing.
   The request loads is_compiling = true while the compilation is finishing; the worker
   resets the flags, finds the channel empty and notifies; only then the request creates
   its Notified future and awaits it. *)
Definition ks_lost := [KOpen; KReq].
Definition sched_lost_orig : list label :=
  rep 4 (LH 0)                              (* load_ic, is_full, send, late store          *)
  ++ [W; W; Wread; Wpoll; Wfin; W]          (* recv, set_ic, compile.., lcs write          *)
  ++ [LH 1]                                 (* request: is_compiling.load() = true         *)
  ++ rep 4 W                                (* clr_ic, clr_rt, is_empty, notify_waiters    *)
  ++ [LH 1]                                 (* request: notified() created now; awaits     *)
  ++ rep 3 (LH 0).                          (* didOpen's own wait returns                  *)
Definition sched_lost_noA : list label :=
  rep 4 (LH 0) ++ [W; W; W; Wread; Wpoll; Wfin; W] ++ [LH 1] ++ rep 4 W ++ [LH 1] ++ rep 3 (LH 0).

Lemma lost_wakeup_orig : refutes_a orig ks_lost sched_lost_orig = true.
Proof. vm_compute. reflexivity. Qed.
Lemma lost_wakeup_noA : refutes_a cfgA_missing ks_lost sched_lost_noA = true.
Proof. vm_compute. reflexivity. Qed.

(* (2) stale retrigger: didOpen (thread 0), didChange to version 1 (thread 1).
   The didChange handler loads is_compiling = true at the very end of the first
   compilation; the worker resets both flags and notifies; the handler then stores
   retrigger = true and sends; the worker picks the request up and cancels it at its
   first check. Nothing is queued any more: the edit is never compiled. *)
Definition ks_stale := [KOpen; KChange 1].
Definition sched_stale_orig : list label :=
  rep 4 (LH 0) ++ [W; W; Wread; Wpoll; Wfin; W]
  ++ rep 2 (LH 1)                           (* write document, is_compiling.load() = true  *)
  ++ rep 4 W                                (* clr_ic, clr_rt, is_empty, notify            *)
  ++ rep 3 (LH 1)                           (* retrigger := true, is_full, send(1)         *)
  ++ [W; W; Wpoll] ++ rep 5 W               (* recv, set_ic, cancelled; lcs, resets, notify*)
  ++ rep 3 (LH 0).
Definition sched_stale_noC : list label :=
  rep 4 (LH 0) ++ [W; W; Wread; Wpoll; Wfin; W] ++ rep 2 (LH 1) ++ rep 4 W ++ rep 3 (LH 1)
  ++ [W; W; Wpoll] ++ rep 5 W ++ rep 4 (LH 0).

Lemma stale_retrigger_orig : refutes_b orig ks_stale sched_stale_orig = true.
Proof. vm_compute. reflexivity. Qed.
Lemma stale_retrigger_noC : refutes_b cfgC_missing ks_stale sched_stale_noC = true.
Proof. vm_compute. reflexivity. Qed.

(* (3) didOpen's late store: the worker processes the request completely before the
   didOpen handler executes `is_compiling.store(true)`. The flag then stays set with
   nothing running; didOpen's own wait_for_parsing (and every later one) never returns. *)
Definition ks_late := [KOpen].
Definition sched_late_orig : list label :=
  rep 3 (LH 0) ++ [W; W; Wread; Wpoll; Wfin] ++ rep 5 W ++ rep 3 (LH 0).
Definition sched_late_noB : list label :=
  rep 3 (LH 0) ++ [W; W; W; Wread; Wpoll; Wfin] ++ rep 5 W ++ rep 3 (LH 0).

Lemma late_store_orig : refutes_a orig ks_late sched_late_orig = true.
Proof. vm_compute. reflexivity. Qed.
Lemma late_store_noB : refutes_a cfgB_missing ks_late sched_late_noB = true.
Proof. vm_compute. reflexivity. Qed.

Lemma refutes_a_sound : forall c ks ls, refutes_a c ks ls = true ->
  exists st, reachable c ks st /\ bad_a st = true.
Proof.
  intros c ks ls H. unfold refutes_a in H.
  destruct (run c (init c ks) ls) as [st|] eqn:E; [|discriminate].
  exists st. split; [exists ls; exact E | exact H].
Qed.
Lemma refutes_b_sound : forall c ks ls, refutes_b c ks ls = true ->
  exists st, reachable c ks st /\ bad_b st = true.
Proof.
  intros c ks ls H. unfold refutes_b in H.
  destruct (run c (init c ks) ls) as [st|] eqn:E; [|discriminate].
  exists st. split; [exists ls; exact E | exact H].
Qed.

(* Observation outside the property text (liveness (a) and quiescent (b) do not forbid it),
   true of the repaired protocol as well: wait_for_parsing can return between the worker's
   recv and its is_compiling.store(true), i.e. while a compilation is about to start. *)
Definition ks_early := [KOpen; KSave; KReq].
Definition sched_early : list label :=
  rep 4 (LH 0) ++ [W; W; W; Wread; Wpoll; Wfin] ++ rep 5 W ++ rep 4 (LH 0)
  ++ rep 3 (LH 1) ++ [W] ++ rep 4 (LH 2).
Lemma wait_may_return_before_compilation_starts :
  match run repaired (init repaired ks_early) sched_early with
  | Some (s, hs) => match wp s, nth_error hs 2 with
                    | WGot, Some h => match hp h with HDone => true | _ => false end
                    | _, _ => false end
  | None => false end = true.
Proof. vm_compute. reflexivity. Qed.
