(* C24 — what "hangs" and "drops an edit" mean for the protocol model. *)
From Coq Require Import List NArith Bool.
Import ListNotations.
From SwayV Require Import C24.Model.
Local Open Scope N_scope.

Definition reachable (c : cfg) (ks : list kind) (st : state) : Prop :=
  exists ls, run c (init c ks) ls = Some st.

(* a handler that has still to send its compilation request *)
Definition pre_send (p : hpc) : bool :=
  match p with HWrite | HLoadC | HSetR | HFull | HDrain | HMark | HSend => true | _ => false end.

(* a compilation request is queued or about to be queued *)
Definition pend (st : state) : Prop :=
  chan (fst st) <> None \/ Exists (fun h => pre_send (hp h) = true) (snd st).

Definition parked (p : hpc) : bool :=
  match p with HDone | QWait _ => true | _ => false end.

(* "no compilation is running or pending and no thread other than waiters can step":
   the worker is blocked in recv on an empty channel, every handler has returned or is
   awaiting the notification. *)
Definition settled (st : state) : Prop :=
  wp (fst st) = WRecv /\ chan (fst st) = None /\ Forall (fun h => parked (hp h) = true) (snd st).

(* (a) every waiter of a settled state has been notified (its await completes) *)
Definition no_stuck_waiter (st : state) : Prop :=
  forall h e, In h (snd st) -> hp h = QWait e -> e <> epoch (fst st).

(* nothing at all can step *)
Definition final (c : cfg) (st : state) : Prop := forall l, step c st l = None.

(* (b) the last compilation that ran to completion read the latest document *)
Definition no_lost_edit (st : state) : Prop := last (fst st) = doc (fst st).

(* boolean oracles *)
Definition wrecvb (p : wpc) : bool := match p with WRecv => true | _ => false end.
Definition noneb {A} (o : option A) : bool := match o with None => true | Some _ => false end.
Definition settledb (st : state) : bool :=
  wrecvb (wp (fst st)) && noneb (chan (fst st)) && forallb (fun h => parked (hp h)) (snd st).
Definition stuckb (s : shared) (h : handler) : bool :=
  match hp h with QWait e => N.eqb e (epoch s) | _ => false end.
(* violation of (a): settled, a compilation has happened, and a waiter was not notified *)
Definition bad_a (st : state) : bool :=
  settledb st && lcs (fst st) && existsb (stuckb (fst st)) (snd st).
(* violation of (b) *)
Definition bad_b (st : state) : bool :=
  settledb st && negb (N.eqb (last (fst st)) (doc (fst st))).
