(* C24 — executable model of the sway-lsp compilation scheduling protocol.
   Anchors: sway-lsp/src/server_state.rs (spawn_compilation_thread, wait_for_parsing),
   sway-lsp/src/handlers/notification.rs (handle_did_{open,change,save}_text_document,
   send_new_compilation_request), sway-core/src/lib.rs (check_should_abort) and
   forc-pkg/src/pkg.rs (check: the retrigger test after compile_to_ast).
   One shared-memory access per step; SeqCst in the code, so interleaving semantics.
   NO proofs in this file.

   The model is parametrised by three switches so that the protocol as found
   (`orig`) and the repaired protocol (`repaired`) share one definition:
     fixA  wait_for_parsing creates the Notified future before its checks
     fixB  didOpen stores is_compiling := true before sending (not after)
     fixC  the worker stores retrigger := false when it picks a request up          *)
From Coq Require Import List NArith Bool.
Import ListNotations.
Local Open Scope N_scope.

Record cfg := mkCfg { fixA : bool; fixB : bool; fixC : bool }.
Definition orig := mkCfg false false false.
Definition repaired := mkCfg true true true.

(* client events; each becomes one handler thread *)
Inductive kind := KOpen | KChange (ver : N) | KSave | KReq.

(* handler program counters (send_new_compilation_request = HLoadC..HSend) *)
Inductive hpc :=
| HWrite                      (* didChange: documents.write_changes_to_file            *)
| HLoadC                      (* is_compiling.load()                                   *)
| HSetR                       (* retrigger_compilation.store(true)                     *)
| HFull                       (* cb_tx.is_full()                                       *)
| HDrain                      (* cb_rx.try_recv() of the drain loop                    *)
| HMark                       (* fixB, didOpen: is_compiling.store(true) before send   *)
| HSend                       (* cb_tx.send(request) — blocks while the channel is full*)
| HLate                       (* as found, didOpen: is_compiling.store(true) after send*)
| QReg                        (* finished_compilation.notified()  (snapshot the epoch) *)
| QLoadC (r : option N)       (* wait_for_parsing: is_compiling.load()                 *)
| QLcs (r : option N)         (* last_compilation_state.read() != Uninitialized        *)
| QEmpty (r : option N)       (* cb_rx.is_empty()                                      *)
| QWait (e : N)               (* .await on a Notified created at epoch e               *)
| HDone.

Record handler := mkH { hk : kind; hp : hpc }.

(* compilation thread program counters *)
Inductive wpc :=
| WRecv                       (* rx.recv() — blocks while the channel is empty         *)
| WGot                        (* fixC: retrigger_compilation.store(false)              *)
| WSetC                       (* is_compiling.store(true)                              *)
| WComp (snap : option N) (polled : bool)
                              (* parse_project: reads the document once, polls
                                 retrigger any number of times, at least once          *)
| WLcs                        (* last_compilation_state.write(..)                      *)
| WClrC                       (* is_compiling.store(false)                             *)
| WClrR                       (* retrigger_compilation.store(false)                    *)
| WChk                        (* rx.is_empty()                                         *)
| WNotify.                    (* finished_compilation.notify_waiters()                 *)

Record shared := mkS {
  ic : bool;                  (* is_compiling                                          *)
  rt : bool;                  (* retrigger_compilation                                 *)
  chan : option N;            (* bounded(1) channel; payload = request version tag     *)
  epoch : N;                  (* number of notify_waiters calls so far                 *)
  lcs : bool;                 (* last_compilation_state != Uninitialized               *)
  last : N;                   (* ghost: document version used by the last compilation
                                 that ran to completion                                *)
  doc : N;                    (* ghost: number of document writes so far               *)
  wp : wpc }.

Definition set_ic b s := mkS b (rt s) (chan s) (epoch s) (lcs s) (last s) (doc s) (wp s).
Definition set_rt b s := mkS (ic s) b (chan s) (epoch s) (lcs s) (last s) (doc s) (wp s).
Definition set_chan c s := mkS (ic s) (rt s) c (epoch s) (lcs s) (last s) (doc s) (wp s).
Definition set_epoch e s := mkS (ic s) (rt s) (chan s) e (lcs s) (last s) (doc s) (wp s).
Definition set_lcs b s := mkS (ic s) (rt s) (chan s) (epoch s) b (last s) (doc s) (wp s).
Definition set_last n s := mkS (ic s) (rt s) (chan s) (epoch s) (lcs s) n (doc s) (wp s).
Definition set_doc n s := mkS (ic s) (rt s) (chan s) (epoch s) (lcs s) (last s) n (wp s).
Definition set_wp p s := mkS (ic s) (rt s) (chan s) (epoch s) (lcs s) (last s) (doc s) p.

Definition is_open (k : kind) : bool := match k with KOpen => true | _ => false end.
Definition req_ver (k : kind) : N := match k with KChange v => v | _ => 0 end.

Definition wait_start (c : cfg) : hpc := if fixA c then QReg else QLoadC None.
Definition wait_fail (r : option N) : hpc := match r with Some e => QWait e | None => QReg end.
Definition after_full (c : cfg) (k : kind) : hpc := if fixB c && is_open k then HMark else HSend.
Definition after_send (c : cfg) (k : kind) : hpc :=
  match k with
  | KOpen => if fixB c then wait_start c else HLate
  | KSave => wait_start c
  | _ => HDone
  end.
Definition init_pc (c : cfg) (k : kind) : hpc :=
  match k with KChange _ => HWrite | KReq => wait_start c | _ => HLoadC end.

(* one step of a handler thread: new shared state and new pc; None = blocked / finished *)
Definition hstep (c : cfg) (s : shared) (k : kind) (p : hpc) : option (shared * hpc) :=
  match p with
  | HWrite => Some (set_doc (doc s + 1) s, HLoadC)
  | HLoadC => Some (s, if ic s then HSetR else HFull)
  | HSetR => Some (set_rt true s, HFull)
  | HFull => Some (s, match chan s with Some _ => HDrain | None => after_full c k end)
  | HDrain => match chan s with
              | Some _ => Some (set_chan None s, HDrain)
              | None => Some (s, after_full c k)
              end
  | HMark => Some (set_ic true s, HSend)
  | HSend => match chan s with
             | None => Some (set_chan (Some (req_ver k)) s, after_send c k)
             | Some _ => None
             end
  | HLate => Some (set_ic true s, wait_start c)
  | QReg => Some (s, if fixA c then QLoadC (Some (epoch s)) else QWait (epoch s))
  | QLoadC r => Some (s, if ic s then wait_fail r else QLcs r)
  | QLcs r => Some (s, if lcs s then QEmpty r else wait_fail r)
  | QEmpty r => Some (s, match chan s with None => HDone | Some _ => wait_fail r end)
  | QWait e => if N.eqb (epoch s) e then None else Some (s, wait_start c)
  | HDone => None
  end.

(* the worker's choices while compiling *)
Inductive wact := ADef | ARead | APoll | AFinish.

Definition wstep (c : cfg) (a : wact) (s : shared) : option shared :=
  match wp s, a with
  | WRecv, ADef => match chan s with
                   | Some _ => Some (set_wp (if fixC c then WGot else WSetC) (set_chan None s))
                   | None => None
                   end
  | WGot, ADef => Some (set_wp WSetC (set_rt false s))
  | WSetC, ADef => Some (set_wp (WComp None false) (set_ic true s))
  | WComp None p, ARead => Some (set_wp (WComp (Some (doc s)) p) s)
  | WComp sn _, APoll => Some (set_wp (if rt s then WLcs else WComp sn true) s)
  | WComp (Some d) true, AFinish => Some (set_wp WLcs (set_last d s))
  | WLcs, ADef => Some (set_wp WClrC (set_lcs true s))
  | WClrC, ADef => Some (set_wp WClrR (set_ic false s))
  | WClrR, ADef => Some (set_wp WChk (set_rt false s))
  | WChk, ADef => Some (set_wp (match chan s with None => WNotify | Some _ => WRecv end) s)
  | WNotify, ADef => Some (set_wp WRecv (set_epoch (epoch s + 1) s))
  | _, _ => None
  end.

Definition state := (shared * list handler)%type.

Fixpoint upd (i : nat) (h : handler) (hs : list handler) {struct hs} : list handler :=
  match hs, i with
  | [], _ => []
  | _ :: t, O => h :: t
  | x :: t, S j => x :: upd j h t
  end.

Inductive label := LW (a : wact) | LH (i : nat).

Definition step (c : cfg) (st : state) (l : label) : option state :=
  let (s, hs) := st in
  match l with
  | LW a => match wstep c a s with Some s' => Some (s', hs) | None => None end
  | LH i => match nth_error hs i with
            | Some h => match hstep c s (hk h) (hp h) with
                        | Some (s', p') => Some (s', upd i (mkH (hk h) p') hs)
                        | None => None
                        end
            | None => None
            end
  end.

Fixpoint run (c : cfg) (st : state) (ls : list label) : option state :=
  match ls with
  | [] => Some st
  | l :: t => match step c st l with Some st' => run c st' t | None => None end
  end.

Definition init_shared : shared := mkS false false None 0 false 0 0 WRecv.
Definition init (c : cfg) (ks : list kind) : state :=
  (init_shared, map (fun k => mkH k (init_pc c k)) ks).
