(* C24 — once a notification that requests a compilation has been handled and the system
   has settled, a compilation has run (last_compilation_state is initialised).  Holds for
   every configuration; it discharges the `lcs = true` side condition of (a). *)
From Coq Require Import List NArith Bool Lia.
Import ListNotations.
From SwayV Require Import C24.Model C24.Spec C24.Proofs.
Local Open Scope N_scope.

Definition is_req (k : kind) : bool := match k with KReq => true | _ => false end.
Definition sentP (h : handler) : Prop := is_req (hk h) = false /\ pre_send (hp h) = false.
Definition precomp_pc (p : wpc) : bool :=
  match p with WGot | WSetC | WComp _ _ | WLcs => true | _ => false end.

Definition InvL (st : state) : Prop :=
  let (s, hs) := st in
  Exists sentP hs -> lcs s = true \/ pendS s hs \/ precomp_pc (wp s) = true.

Lemma Exists_upd_inv : forall (P : handler -> Prop) i h hs,
  Exists P (upd i h hs) -> P h \/ Exists P hs.
Proof.
  intros P i h hs; revert i. induction hs as [|x t IH]; intros [|i] H; cbn in *.
  - inversion H.
  - inversion H.
  - inversion H; subst; [left; auto | right; right; auto].
  - inversion H; subst; [right; left; auto|]. destruct (IH _ H1); [left|right; right]; auto.
Qed.

Lemma InvL_init : forall c ks, InvL (init c ks).
Proof.
  intros c ks. cbn. intro H. exfalso. rewrite Exists_exists in H.
  destruct H as (h & Hin & Hr & Hp). apply in_map_iff in Hin. destruct Hin as (k & <- & _).
  cbn in *. destruct k; cbn in *; try discriminate.
Qed.

Lemma InvL_step : forall c st l st', InvL st -> step c st l = Some st' -> InvL st'.
Proof.
  intros c [s hs] l st' HI Hstep. destruct l as [a|i]; cbn in Hstep.
  - destruct (wstep c a s) as [s'|] eqn:Hw; [|discriminate]. inversion Hstep; subst; clear Hstep.
    cbn in *. intro Hex. specialize (HI Hex). unfold wstep in Hw.
    destruct (wp s) as [| | |sn pl| | | | |] eqn:Ewp; destruct a; try discriminate;
      try (destruct sn as [d|]; try discriminate);
      try (destruct pl; try discriminate);
      repeat match type of Hw with
             | context [match chan s with _ => _ end] => destruct (chan s) eqn:?
             | context [if rt s then _ else _] => destruct (rt s) eqn:?
             | context [if fixC c then _ else _] => destruct (fixC c) eqn:?
             end;
      try discriminate; inversion Hw; subst; clear Hw; cbn in *;
      try (right; right; reflexivity);
      try (left; reflexivity);
      try (destruct HI as [HI|[HI|HI]];
           [ left; exact HI | right; left; apply (pendS_chan s); auto | discriminate ]).
  - destruct (nth_error hs i) as [[k p]|] eqn:Hn; [|discriminate]. cbn in Hstep.
    destruct (hstep c s k p) as [[s' p']|] eqn:Hh; [|discriminate].
    inversion Hstep; subst; clear Hstep. cbn in *.
    pose proof (hstep_frame _ _ _ _ _ _ Hh) as (Fw & _ & Fl & _).
    intro Hex. rewrite Fw, Fl.
    assert (Hold : Exists sentP hs -> lcs s = true \/
                   pendS s' (upd i (mkH k p') hs) \/ precomp_pc (wp s) = true).
    { intro H. destruct (HI H) as [H1|[H1|H1]]; auto. right; left. eapply hstep_pend; eauto. }
    apply Exists_upd_inv in Hex. destruct Hex as [[Hr Hp]|Hex]; [|auto]. cbn in Hr, Hp.
    destruct (pre_send p) eqn:Ep.
    + (* the send itself *)
      right; left. left.
      destruct p; cbn in Ep; try discriminate; cbn in Hh;
        try (inversion Hh; subst; cbn in Hp; try discriminate;
             try (destruct (ic _); discriminate); fail);
        try (destruct (chan s); inversion Hh; subst; cbn in *;
             try rewrite after_full_pre in Hp; try discriminate; fail).
    + apply Hold. apply Exists_exists. exists (mkH k p). split; [eapply nth_error_In; eauto|].
      split; assumption.
Qed.

Lemma reachable_InvL : forall c ks st, reachable c ks st -> InvL st.
Proof.
  intros c ks st [ls Hr]. revert Hr. generalize (InvL_init c ks).
  generalize (init c ks). induction ls as [|l t IH]; intros st0 H0 Hr; cbn in Hr.
  - inversion Hr; subst; exact H0.
  - destruct (step c st0 l) as [st1|] eqn:E; [|discriminate].
    eapply IH; [|exact Hr]. eapply InvL_step; [exact H0 | exact E].
Qed.

Lemma settled_after_notification_lcs : forall c ks st,
  reachable c ks st -> settled st ->
  (exists h, In h (snd st) /\ is_req (hk h) = false) -> lcs (fst st) = true.
Proof.
  intros c ks [s hs] Hr Hs (h & Hin & Hk). pose proof (reachable_InvL _ _ _ Hr) as HI.
  pose proof (settled_not_pend _ Hs) as Np. destruct Hs as (Hw & _ & Hp). cbn in *.
  assert (Hex : Exists sentP hs).
  { apply Exists_exists. exists h. split; [exact Hin|]. split; [exact Hk|].
    rewrite Forall_forall in Hp. apply parked_not_pre_send. auto. }
  destruct (HI Hex) as [H|[H|H]]; [exact H | exfalso; apply Np; exact H |].
  rewrite Hw in H. discriminate.
Qed.
