(* C24 — trace inclusion judge: replays a trace recorded on the instrumented server through
   `step` (evaluated with vm_compute).
   Event = (thread, access code, value); thread 0 = compilation thread, k+1 = client event k.
   Access codes  W: 1 recv, 2 clr_rt0, 3 set_ic(v), 4 compile(result), 5 lcs, 6 clr_ic, 7 clr_rt,
                    8 chk_empty, 9 notify
                 H: 10 write_doc, 11 load_ic, 12 set_rt, 13 is_full, 14 try_recv, 15 set_ic,
                    16 send(v), 17 set_ic_late
                 Q: 18 register, 19 check (is_compiling.load and, if false, the
                    last_compilation_state read: the code evaluates them in one `&&`),
                    20 is_empty, 21 await, 22 woke.
   The value of event 4 is the outcome of that compilation (0 cancelled by retrigger, 1 ok,
   2/3 failed otherwise), copied by the driver from the matching `lcs` event; the judge places
   the model's poll of `retrigger` at the first moment consistent with that outcome.
   Result: code :: position :: final-state observations.
   code 0 accepted | 1 access does not match the model's pc | 2 model thread cannot step
        3 value differs | 4 cancelled although retrigger was never set during the compilation
        5 completed although retrigger was set during the whole compilation | 6 bad thread *)
From Coq Require Import List NArith Bool.
Import ListNotations.
From SwayV Require Import C24.Model C24.Spec.
Local Open Scope N_scope.

Record jst := mkJ { jstate : state; jwant : N; jgot : N; jlo : N; jhi : N; jres : N }.

Definition memN (x : N) (l : list N) : bool := existsb (N.eqb x) l.

Definition exp_h (c : cfg) (p : hpc) : list N :=
  match p with
  | HWrite => [10] | HLoadC => [11] | HSetR => [12] | HFull => [13] | HDrain => [14]
  | HMark => [15] | HSend => [16] | HLate => [17]
  | QReg => if fixA c then [18] else [21]
  | QLoadC _ => [19] | QLcs _ => [] | QEmpty _ => [20]
  | QWait _ => if fixA c then [21; 22] else [22]
  | HDone => []
  end.

Definition exp_w (p : wpc) : N :=
  match p with
  | WRecv => 1 | WGot => 2 | WSetC => 3 | WComp None _ => 4 | WComp (Some _) _ => 5
  | WLcs => 5 | WClrC => 6 | WClrR => 7 | WChk => 8 | WNotify => 9
  end.

(* place the poll of `retrigger` as soon as the state explains the recorded outcome *)
Definition settle (c : cfg) (j : jst) : jst :=
  let (s, hs) := jstate j in
  match wp s with
  | WComp (Some _) polled =>
    (* only after the `compile` event (which takes the snapshot and sets jwant for THIS
       compilation); between `set_ic` and `compile` jwant still belongs to the previous one *)
    if N.eqb (jwant j) 0
    then (if rt s then
            match step c (s, hs) (LW APoll) with
            | Some st' => mkJ st' (jwant j) (jgot j) (jlo j) (jhi j) (jres j)
            | None => j end
          else j)
    else (if negb polled && negb (rt s) then
            match step c (s, hs) (LW APoll) with
            | Some st' => mkJ st' (jwant j) (jgot j) (jlo j) (jhi j) (jres j)
            | None => j end
          else j)
  | _ => j
  end.

Definition setst (j : jst) (st : state) : jst := mkJ st (jwant j) (jgot j) (jlo j) (jhi j) (jres j).

(* inl code = rejected *)
Definition wev (c : cfg) (j : jst) (acc val : N) : N + jst :=
  let (s, hs) := jstate j in
  if negb (N.eqb (exp_w (wp s)) acc) then inl 1 else
  match acc with
  | 1 => match step c (s, hs) (LW ADef) with
         | Some st' => inr (mkJ st' (jwant j) (match chan s with Some v => v | None => 0 end)
                               (jlo j) (jhi j) (jres j))
         | None => inl 2 end
  | 3 => if negb (N.eqb val (jgot j)) then inl 3 else
         match step c (s, hs) (LW ADef) with Some st' => inr (setst j st') | None => inl 2 end
  | 4 => match step c (s, hs) (LW ARead) with
         | Some st' => inr (mkJ st' val (jgot j) (jlo j) (jhi j) (jres j))
         | None => inl 2 end
  | 5 => match wp s with
         | WLcs => if N.eqb (jwant j) 0
                   then match step c (s, hs) (LW ADef) with
                        | Some st' => inr (setst j st') | None => inl 2 end
                   else inl 5
         | WComp (Some d) true =>
             if N.eqb (jwant j) 0 then inl 4 else
             match step c (s, hs) (LW AFinish) with
             | Some st1 => match step c st1 (LW ADef) with
                           | Some st2 => inr (mkJ st2 (jwant j) (jgot j) d (doc s) (jwant j))
                           | None => inl 2 end
             | None => inl 2 end
         | _ => if N.eqb (jwant j) 0 then inl 4 else inl 5
         end
  | _ => match step c (s, hs) (LW ADef) with Some st' => inr (setst j st') | None => inl 2 end
  end.

Definition hev (c : cfg) (j : jst) (i : nat) (acc val : N) : N + jst :=
  let (s, hs) := jstate j in
  match nth_error hs i with
  | None => inl 6
  | Some h =>
    if negb (memN acc (exp_h c (hp h))) then inl 1 else
    match hp h, acc with
    | QWait _, 21 => inr j
    | _, _ =>
      if N.eqb acc 16 && negb (N.eqb val (req_ver (hk h))) then inl 3 else
      match step c (s, hs) (LH i) with
      | None => inl 2
      | Some st1 =>
        if N.eqb acc 19 then
          match nth_error (snd st1) i with
          | Some h1 => match hp h1 with
                       | QLcs _ => match step c st1 (LH i) with
                                   | Some st2 => inr (setst j st2) | None => inl 2 end
                       | _ => inr (setst j st1) end
          | None => inl 6 end
        else inr (setst j st1)
      end
    end
  end.

Definition hstatus (s : shared) (h : handler) : N :=
  match hp h with
  | HDone => 0
  | QWait e => if N.eqb e (epoch s) then 1 else 2
  | _ => 3
  end.

Definition b2n (b : bool) : N := if b then 1 else 0.

Definition report (code pos : N) (j : jst) : list N :=
  let st := jstate j in let s := fst st in
  [code; pos; b2n (settledb st); b2n (bad_a st); b2n (bad_b st); b2n (ic s);
   b2n (negb (noneb (chan s))); jlo j; jhi j; doc s; jres j; b2n (lcs s)]
  ++ map (hstatus s) (snd st).

Fixpoint replay (c : cfg) (j : jst) (pos : N) (evs : list (nat * N * N)) : list N :=
  match evs with
  | [] => report 0 pos j
  | (t, acc, val) :: rest =>
    match (match t with O => wev c j acc val | S i => hev c j i acc val end) with
    | inl code => report code pos j
    | inr j' => replay c (settle c j') (pos + 1) rest
    end
  end.

Definition judge (c : cfg) (ks : list kind) (evs : list (nat * N * N)) : list N :=
  replay c (mkJ (init c ks) 1 0 0 0 0) 0 evs.

Definition judge_all (c : cfg) (cs : list (list kind * list (nat * N * N))) : list (list N) :=
  map (fun x => judge c (fst x) (snd x)) cs.
