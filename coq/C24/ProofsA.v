(* C24 — (a) no stuck waiter, for every configuration with fixA and fixB; plus invariants
   that hold for every configuration. *)
From Coq Require Import List NArith Bool Lia.
Import ListNotations.
From SwayV Require Import C24.Model C24.Spec C24.Proofs.
Local Open Scope N_scope.

(* worker pcs from which `is_compiling.store(false)` is still ahead in the current cycle *)
Definition clearing_pc (p : wpc) : bool :=
  match p with WGot | WSetC | WComp _ _ | WLcs | WClrC => true | _ => false end.

Definition busy (s : shared) (hs : list handler) : Prop := wp s <> WRecv \/ pendS s hs.

(* registered epochs never exceed the current one *)
Definition reg_le (p : hpc) (n : N) : Prop :=
  match p with
  | QLoadC (Some e) | QLcs (Some e) | QEmpty (Some e) | QWait e => e <= n
  | _ => True
  end.

Definition hinv (s : shared) (hs : list handler) (h : handler) : Prop :=
  hp h <> HLate /\ reg_le (hp h) (epoch s) /\
  (forall e, hp h = QWait e -> e < epoch s \/ busy s hs \/ lcs s = false).

Definition InvA (st : state) : Prop :=
  let (s, hs) := st in
  (ic s = true -> clearing_pc (wp s) = true \/ pendS s hs) /\
  Forall (hinv s hs) hs.

Lemma init_pc_hinv : forall c k s hs, fixA c = true -> hinv s hs (mkH k (init_pc c k)).
Proof.
  intros c k s hs HA. unfold hinv, init_pc, wait_start. rewrite HA.
  destruct k; cbn; (split; [discriminate|split; [exact I|intros; discriminate]]).
Qed.

Lemma InvA_init : forall c ks, fixA c = true -> InvA (init c ks).
Proof.
  intros c ks HA. cbn. split; [discriminate|].
  apply Forall_forall. intros h Hin. apply in_map_iff in Hin. destruct Hin as (k & <- & _).
  apply init_pc_hinv; exact HA.
Qed.

(* an untouched handler keeps its invariant when epochs grow and busy-ness persists *)
Lemma hinv_mono : forall s hs s' hs' h,
  epoch s <= epoch s' ->
  (forall e, hp h = QWait e ->
     e < epoch s \/ busy s hs \/ lcs s = false -> e <= epoch s ->
     e < epoch s' \/ busy s' hs' \/ lcs s' = false) ->
  hinv s hs h -> hinv s' hs' h.
Proof.
  intros s hs s' hs' h Hle Hj (H1 & H2 & H3). split; [exact H1|split].
  - destruct (hp h) as [| | | | | | | | |[e|]|[e|]|[e|]|e|]; cbn in *; auto; lia.
  - intros e He. apply Hj; auto. rewrite He in H2. cbn in H2. exact H2.
Qed.

Lemma InvA_step : forall c st l st',
  fixA c = true -> fixB c = true -> InvA st -> step c st l = Some st' -> InvA st'.
Proof.
  intros c [s hs] l st' HA HB [K F] Hstep. destruct l as [a|i]; cbn in Hstep.
  - (* worker *)
    destruct (wstep c a s) as [s'|] eqn:Hw; [|discriminate]. inversion Hstep; subst; clear Hstep.
    assert (Hcases :
      (ic s' = true -> clearing_pc (wp s') = true \/ pendS s' hs) /\
      epoch s <= epoch s' /\
      ((wp s' <> WRecv \/ pendS s' hs) \/
       (epoch s' = epoch s + 1 /\ lcs s' = lcs s))).
    { unfold wstep in Hw.
      destruct (wp s) as [| | |sn pl| | | | |] eqn:Ewp; destruct a; try discriminate;
        try (destruct sn as [d|]; try discriminate);
        try (destruct pl; try discriminate);
        repeat match type of Hw with
               | context [match chan s with _ => _ end] => destruct (chan s) eqn:?
               | context [if rt s then _ else _] => destruct (rt s) eqn:?
               | context [if fixC c then _ else _] => destruct (fixC c) eqn:?
               end;
        try discriminate; inversion Hw; subst; clear Hw; cbn in *; rewrite ?Ewp in *; cbn in *;
        (split; [ try (intros; left; reflexivity); try discriminate;
                  try (intros Hic; destruct (K Hic) as [Hk|Hk];
                       [discriminate | right; apply (pendS_chan s); auto])
                | split; [ lia | ] ]);
        try (left; left; discriminate);
        try (left; right; left; cbn; congruence);
        try (right; split; [reflexivity | reflexivity]). }
    destruct Hcases as (K' & Hle & Hb). split; [exact K'|].
    rewrite Forall_forall in *. intros h Hin. specialize (F h Hin).
    apply (hinv_mono s hs); [exact Hle | | exact F].
    intros e He Hold Hreg. destruct Hb as [Hb|[He' Hl]].
    + right; left. exact Hb.
    + left. lia.
  - (* handler i *)
    destruct (nth_error hs i) as [[k p]|] eqn:Hn; [|discriminate]. cbn in Hstep.
    destruct (hstep c s k p) as [[s' p']|] eqn:Hh; [|discriminate].
    inversion Hstep; subst; clear Hstep.
    pose proof (hstep_frame _ _ _ _ _ _ Hh) as (Fw & Fe & Fl & _).
    assert (Hpend : pendS s hs -> pendS s' (upd i (mkH k p') hs)).
    { intro Hp. eapply hstep_pend; eauto. }
    assert (Hbusy : busy s hs -> busy s' (upd i (mkH k p') hs)).
    { intros [Hb|Hb]; [left; rewrite Fw; exact Hb | right; auto]. }
    assert (Hi : hinv s hs (mkH k p)).
    { rewrite Forall_forall in F. apply F. eapply nth_error_In; eauto. }
    split.
    + (* K *)
      intro Hic. rewrite Fw.
      destruct (pre_send p') eqn:Epre.
      { right. eapply hstep_pre_send_new; eauto. }
      assert (Hic0 : ic s = true \/ p = HLate).
      { destruct p; cbn in Hh;
          try (inversion Hh; subst; cbn in *; auto; discriminate);
          try (destruct (chan s); inversion Hh; subst; cbn in *; auto; discriminate).
        destruct (epoch s =? e); inversion Hh; subst; auto. }
      destruct Hic0 as [Hic0|Hl]; [|destruct Hi as (Hi & _); cbn in Hi; congruence].
      destruct (K Hic0) as [Hk|Hk]; [left; exact Hk | right; auto].
    + (* handlers *)
      apply Forall_upd.
      * rewrite Forall_forall in *. intros h Hin. specialize (F h Hin).
        apply (hinv_mono s hs); [rewrite Fe; lia | | exact F].
        intros e He Hold _. rewrite Fe, Fl.
        destruct Hold as [Ho|[Ho|Ho]]; auto.
      * (* the handler that moved *)
        destruct Hi as (Hi1 & Hi2 & Hi3). cbn in Hi1, Hi2, Hi3.
        unfold hinv; cbn [hp].
        destruct p; cbn in Hh;
          try (destruct r as [e0|]);
          repeat match type of Hh with
                 | context [match chan s with _ => _ end] => destruct (chan s) eqn:?
                 | context [if ic s then _ else _] => destruct (ic s) eqn:?
                 | context [if lcs s then _ else _] => destruct (lcs s) eqn:?
                 | context [if (epoch s =? ?e) then _ else _] => destruct (epoch s =? e) eqn:?
                 end;
          try discriminate; inversion Hh; subst; clear Hh;
          unfold after_full, after_send, wait_start, wait_fail in *;
          rewrite ?HA, ?HB in *; cbn in *;
          try (destruct (is_open k));
          try (destruct k);
          cbn in *;
          try congruence;
          (split; [discriminate | split; [ try exact I; try lia | ]]);
          try (intros; discriminate).
        all: intros e He; inversion He; subst.
        all: first
          [ solve [ right; right; congruence ]
          | solve [ right; left; apply Hbusy; right; left; congruence ]
          | solve [ right; left; apply Hbusy;
                    destruct (K eq_refl) as [Hk|Hk];
                    [ left; intro Hw; rewrite Hw in Hk; discriminate | right; exact Hk ] ] ].
Qed.

Lemma InvA_run : forall c ls st st',
  fixA c = true -> fixB c = true -> InvA st -> run c st ls = Some st' -> InvA st'.
Proof.
  intros c ls; induction ls as [|l t IH]; intros st st' HA HB HI Hr; cbn in Hr.
  - inversion Hr; subst; exact HI.
  - destruct (step c st l) as [st1|] eqn:E; [|discriminate].
    eapply IH; [exact HA | exact HB | | exact Hr].
    eapply InvA_step; [exact HA | exact HB | exact HI | exact E].
Qed.

Lemma reachable_InvA : forall c ks st,
  fixA c = true -> fixB c = true -> reachable c ks st -> InvA st.
Proof. intros c ks st HA HB [ls Hr]. eapply InvA_run; eauto. apply InvA_init; exact HA. Qed.

Lemma no_stuck_waiter_fixAB : forall c ks st,
  fixA c = true -> fixB c = true -> reachable c ks st ->
  settled st -> lcs (fst st) = true -> no_stuck_waiter st.
Proof.
  intros c ks [s hs] HA HB Hr Hs Hl. pose proof (reachable_InvA _ _ _ HA HB Hr) as [_ F].
  pose proof (settled_not_pend _ Hs) as Np. destruct Hs as (Hw & _ & _). cbn in *.
  intros h e Hin He. rewrite Forall_forall in F. destruct (F h Hin) as (_ & _ & J).
  destruct (J e He) as [Hlt|[[Hb|Hb]|Hn]]; cbn.
  - lia.
  - congruence.
  - exfalso. apply Np. exact Hb.
  - congruence.
Qed.

(* in a settled state where nothing at all can step, every request has returned *)
Lemma final_all_done : forall c ks st,
  fixA c = true -> fixB c = true -> reachable c ks st ->
  settled st -> lcs (fst st) = true -> final c st ->
  Forall (fun h => hp h = HDone) (snd st).
Proof.
  intros c ks [s hs] HA HB Hr Hs Hl Hf.
  pose proof (no_stuck_waiter_fixAB _ _ _ HA HB Hr Hs Hl) as Hn.
  destruct Hs as (_ & _ & Hp). cbn in *. rewrite Forall_forall in *. intros h Hin.
  specialize (Hp h Hin). destruct (hp h) eqn:Eh; cbn in Hp; try discriminate; [|reflexivity].
  exfalso. destruct (In_nth_error _ _ Hin) as [i Hi].
  specialize (Hf (LH i)). cbn in Hf. rewrite Hi, Eh in Hf. cbn in Hf.
  specialize (Hn h e Hin Eh). cbn in Hn.
  destruct (epoch s =? e) eqn:E; [apply N.eqb_eq in E; congruence | discriminate].
Qed.

(* ---------- invariants of every configuration (in particular of the code as found) ---------- *)
Definition flagged_pc (p : wpc) : bool :=
  match p with WComp _ _ | WLcs | WClrC => true | _ => false end.

(* is_compiling is set for the whole time between the worker's store(true) and store(false) *)
Definition InvF (st : state) : Prop := flagged_pc (wp (fst st)) = true -> ic (fst st) = true.

Lemma InvF_step : forall c st l st', InvF st -> step c st l = Some st' -> InvF st'.
Proof.
  intros c [s hs] l st' HI Hstep. unfold InvF in *. cbn in *. destruct l as [a|i]; cbn in Hstep.
  - destruct (wstep c a s) as [s'|] eqn:Hw; [|discriminate]. inversion Hstep; subst; clear Hstep.
    cbn. unfold wstep in Hw.
    destruct (wp s) as [| | |sn pl| | | | |] eqn:Ewp; destruct a; try discriminate;
      try (destruct sn as [d|]; try discriminate);
      try (destruct pl; try discriminate);
      repeat match type of Hw with
             | context [match chan s with _ => _ end] => destruct (chan s) eqn:?
             | context [if rt s then _ else _] => destruct (rt s) eqn:?
             | context [if fixC c then _ else _] => destruct (fixC c) eqn:?
             end;
      try discriminate; inversion Hw; subst; clear Hw; cbn in *; auto; try discriminate.
  - destruct (nth_error hs i) as [[k p]|] eqn:Hn; [|discriminate]. cbn in Hstep.
    destruct (hstep c s k p) as [[s' p']|] eqn:Hh; [|discriminate].
    inversion Hstep; subst; clear Hstep. cbn.
    pose proof (hstep_frame _ _ _ _ _ _ Hh) as (Fw & _). rewrite Fw. intro Hf. specialize (HI Hf).
    destruct p; cbn in Hh;
      try (inversion Hh; subst; cbn in *; auto; fail);
      try (destruct (chan s); inversion Hh; subst; cbn in *; auto; fail).
    destruct (epoch s =? e); inversion Hh; subst; auto.
Qed.

Lemma reachable_InvF : forall c ks st, reachable c ks st -> InvF st.
Proof.
  intros c ks st [ls Hr]. revert Hr.
  assert (H0 : InvF (init c ks)) by (unfold InvF; cbn; discriminate).
  revert H0. generalize (init c ks). induction ls as [|l t IH]; intros st0 H0 Hr; cbn in Hr.
  - inversion Hr; subst; exact H0.
  - destruct (step c st0 l) as [st1|] eqn:E; [|discriminate].
    eapply IH; [|exact Hr]. eapply InvF_step; [exact H0 | exact E].
Qed.
