(* C18 — correspondence of the modelled stages with swayfmt::verif_newline_stage, and the
   known-class predicate, evaluated with vm_compute. *)
From SwayV Require Import Base.Util C18.Model C18.Spec.
Open Scope N_scope.

Fixpoint eqbl (a b : list N) : bool :=
  match a, b with
  | [], [] => true
  | x :: a', y :: b' => (x =? y) && eqbl a' b'
  | _, _ => false
  end.

(* stage numbering of the hook: 0 unix, 1 windows, 2..5 apply_newline_style Auto/Native/Windows/Unix *)
Definition stage_model (stage : N) (text raw : list N) : list N :=
  if stage =? 0 then unix text
  else if stage =? 1 then windows text
  else if stage =? 2 then apply_newline_style Auto text raw
  else if stage =? 3 then apply_newline_style Native text raw
  else if stage =? 4 then apply_newline_style Windows text raw
  else apply_newline_style Unix text raw.

(* 0 model = implementation; 1 differs *)
Definition judge_stage (c : N * list N * list N * list N) : N :=
  match c with (stage, text, raw, observed) => if eqbl (stage_model stage text raw) observed then 0 else 1 end.
Definition judge_stages (l : list (N * list N * list N * list N)) : list N := map judge_stage l.

(* per real formatter run: source, first output.  Returns (known class?, first output ends with LF?) *)
Definition judge_run (c : list N * list N) : bool * bool :=
  match c with (src, out1) => (has_crcrlf src, ends_with_lf out1) end.
Definition judge_runs (l : list (list N * list N)) : list (bool * bool) := map judge_run l.
