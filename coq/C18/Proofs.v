(* C18 — proofs about the newline stages. *)
From SwayV Require Import Base.Util C18.Model C18.Spec.
Open Scope N_scope.

Lemma hd_windows s : hd 0 (windows s) =? 10 = false.
Proof.
  induction s as [|c r IH]; [reflexivity|].
  cbn [windows]. destruct (c =? 10) eqn:E10; [reflexivity|].
  destruct (c =? 13) eqn:E13.
  - apply N.eqb_eq in E13. subst c.
    destruct r as [|n r2]; [reflexivity|].
    destruct (n =? 10); [exact IH|reflexivity].
  - cbn [hd]. exact E10.
Qed.

Lemma windows_cons c r : windows (c :: r) =
  if c =? 10 then 13 :: 10 :: windows r
  else if c =? 13 then
    match r with
    | n :: _ => if n =? 10 then windows r else c :: windows r
    | [] => c :: windows r
    end
  else c :: windows r.
Proof. reflexivity. Qed.

Lemma windows_idem s : windows (windows s) = windows s.
Proof.
  induction s as [|c r IH]; [reflexivity|].
  cbn [windows]. destruct (c =? 10) eqn:E10.
  { change (windows (13 :: 10 :: windows r)) with (13 :: 10 :: windows (windows r)). now rewrite IH. }
  destruct (c =? 13) eqn:E13.
  - apply N.eqb_eq in E13. subst c.
    assert (Hgen : windows (13 :: windows r) = 13 :: windows r).
    { pose proof (hd_windows r) as Hh.
      destruct (windows r) as [|h t] eqn:W; [reflexivity|].
      cbn [hd] in Hh. rewrite (windows_cons 13 (h :: t)).
      change (13 =? 10) with false. change (13 =? 13) with true. cbv iota.
      rewrite Hh. f_equal. exact IH. }
    destruct r as [|n r2]; [reflexivity|].
    destruct (n =? 10) eqn:En; [exact IH|exact Hgen].
  - cbn [windows]. rewrite E10, E13. now rewrite IH.
Qed.

Lemma last_app_single (s : list N) x d : last (s ++ [x]) d = x.
Proof. induction s as [|c r IH]; [reflexivity|]. cbn [app]. destruct (r ++ [x]) eqn:E.
  - destruct r; discriminate.
  - cbn [last]. exact IH.
Qed.

Lemma final_newline_idem s : final_newline (final_newline s) = final_newline s.
Proof.
  unfold final_newline. destruct (ends_with_lf s) eqn:E; [now rewrite E|].
  unfold ends_with_lf. rewrite last_app_single. reflexivity.
Qed.

Lemma final_newline_ends s : ends_with_lf (final_newline s) = true.
Proof.
  unfold final_newline. destruct (ends_with_lf s) eqn:E; [exact E|].
  unfold ends_with_lf. now rewrite last_app_single.
Qed.

(* unix is the identity on texts without "\r\n" *)
Lemma unix_id t : has_crlf t = false -> unix t = t.
Proof.
  induction t as [|c r IH]; [reflexivity|].
  cbn [has_crlf unix]. intros H. apply orb_false_elim in H. destruct H as [H1 H2].
  specialize (IH H2).
  destruct (c =? 13) eqn:E13; [|now rewrite IH].
  cbn [andb] in H1. destruct r as [|n r']; [reflexivity|].
  cbn [hdis] in H1. rewrite H1. now rewrite IH.
Qed.

Lemma hd_unix r : hdis (unix r) 10 = true -> hdis r 10 = true \/ exists r', r = 13 :: 10 :: r'.
Proof.
  destruct r as [|c r1]; [discriminate|]. cbn [unix].
  destruct (c =? 13) eqn:E13.
  - apply N.eqb_eq in E13. subst c. destruct r1 as [|n r2]; [discriminate|].
    destruct (n =? 10) eqn:En.
    + apply N.eqb_eq in En. subst n. intros _. right. eauto.
    + discriminate.
  - cbn [hdis]. intros H. now left.
Qed.

Lemma unix_no_crlf_len n : forall s, (length s <= n)%nat -> has_crcrlf s = false -> has_crlf (unix s) = false.
Proof.
  induction n as [|n IH]; intros s Hl H.
  - destruct s; [reflexivity|cbn in Hl; lia].
  - destruct s as [|c r]; [reflexivity|]. cbn [length] in Hl.
    cbn [has_crcrlf] in H. apply orb_false_elim in H. destruct H as [H1 H2].
    cbn [unix]. destruct (c =? 13) eqn:E13.
    + cbn [andb] in H1. destruct r as [|m r'].
      * cbn [unix has_crlf hdis]. rewrite E13. reflexivity.
      * destruct (m =? 10) eqn:Em.
        { cbn [has_crlf]. change (10 =? 13) with false. cbn [andb orb].
          apply IH; [cbn [length] in Hl; lia|].
          cbn [has_crcrlf] in H2. apply orb_false_elim in H2. apply H2. }
        cbn [has_crlf]. rewrite E13. cbn [andb].
        rewrite (IH (m :: r') ltac:(lia) H2). rewrite orb_false_r.
        destruct (hdis (unix (m :: r')) 10) eqn:Eh; [|reflexivity].
        apply hd_unix in Eh. destruct Eh as [Eh|[r'' Eh]].
        { cbn [hdis] in Eh. congruence. }
        injection Eh as -> ->. cbn [hdis] in H1. discriminate.
    + cbn [has_crlf]. rewrite E13. cbn [andb orb]. apply IH; [lia|exact H2].
Qed.

Lemma unix_idem_except s : has_crcrlf s = false -> unix (unix s) = unix s.
Proof. intros H. apply unix_id. eapply unix_no_crlf_len; [apply Nat.le_refl|exact H]. Qed.

Lemma unix_idem_refuted : exists s, unix (unix s) <> unix s.
Proof. exists [13; 13; 10]. vm_compute. discriminate. Qed.

(* the stage as a whole, for a fixed resolved style *)
Lemma apply_windows_idem t raw raw' :
  apply_newline_style Windows (apply_newline_style Windows t raw) raw' = apply_newline_style Windows t raw.
Proof. unfold apply_newline_style. cbn [get_newline_style]. apply windows_idem. Qed.

Lemma apply_unix_idem_except t raw raw' : has_crcrlf t = false ->
  apply_newline_style Unix (apply_newline_style Unix t raw) raw' = apply_newline_style Unix t raw.
Proof. intros H. unfold apply_newline_style. cbn [get_newline_style]. now apply unix_idem_except. Qed.
