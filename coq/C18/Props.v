(* C18 — theorems about the modelled whole-text newline stages only (the property
   "fmt (fmt x) = fmt x" itself is decided per input on the real formatter: level `other`). *)
From SwayV Require Import Base.Util C18.Model C18.Spec C18.Proofs.
Open Scope N_scope.

Theorem C18_windows_idem : forall s, windows (windows s) = windows s.
Proof. exact windows_idem. Qed.
Print Assumptions C18_windows_idem.

Theorem C18_final_newline_idem : forall s, final_newline (final_newline s) = final_newline s.
Proof. exact final_newline_idem. Qed.
Print Assumptions C18_final_newline_idem.

Theorem C18_final_newline_ends : forall s, ends_with_lf (final_newline s) = true.
Proof. exact final_newline_ends. Qed.
Print Assumptions C18_final_newline_ends.

(* Full statement "forall s, unix (unix s) = unix s" is FALSE (C18_unix_idem_refuted); it holds
   outside the known class: texts containing "\r\r\n". *)
Theorem C18_unix_idem_except : forall s, ~ Known s -> unix (unix s) = unix s.
Proof. intros s H. apply unix_idem_except. unfold Known in H. destruct (has_crcrlf s); congruence. Qed.
Print Assumptions C18_unix_idem_except.

Theorem C18_unix_idem_refuted : exists s, unix (unix s) <> unix s.
Proof. exact unix_idem_refuted. Qed.
Print Assumptions C18_unix_idem_refuted.

Theorem C18_apply_windows_idem : forall t raw raw',
  apply_newline_style Windows (apply_newline_style Windows t raw) raw' = apply_newline_style Windows t raw.
Proof. exact apply_windows_idem. Qed.
Print Assumptions C18_apply_windows_idem.

Theorem C18_apply_unix_idem_except : forall t raw raw', ~ Known t ->
  apply_newline_style Unix (apply_newline_style Unix t raw) raw' = apply_newline_style Unix t raw.
Proof. intros t raw raw' H. apply apply_unix_idem_except. unfold Known in H. destruct (has_crcrlf t); congruence. Qed.
Print Assumptions C18_apply_unix_idem_except.

(* Non-vacuity *)
Example C18_example_windows : windows [97; 13; 13; 10; 98; 10; 99; 13] = [97; 13; 13; 10; 98; 13; 10; 99; 13].
Proof. vm_compute. reflexivity. Qed.
Example C18_example_unix : ~ Known [97; 13; 10; 13; 98; 10] /\ unix [97; 13; 10; 13; 98; 10] = [97; 10; 13; 98; 10].
Proof. split; [unfold Known; vm_compute; discriminate|vm_compute; reflexivity]. Qed.
Example C18_example_known : Known [47; 47; 13; 13; 10] /\ unix [47; 47; 13; 13; 10] = [47; 47; 13; 10]
  /\ unix (unix [47; 47; 13; 13; 10]) = [47; 47; 10].
Proof. repeat split; vm_compute; reflexivity. Qed.
