(* C18 — model of the whole-text newline stages that end `Formatter::format_module`
   (swayfmt/src/utils/map/newline_style.rs, config/whitespace.rs, formatter/mod.rs):
     convert_to_windows_newlines, convert_to_unix_newlines (= str::replace("\r\n", "\n")),
     NewlineSystemType::{get_newline_style, auto_detect_newline_style}, apply_newline_style,
     and `if !formatted_code.ends_with('\n') { writeln!(formatted_code)?; }`.
   Texts are lists of chars (N); '\n' = 10, '\r' = 13.  The per-node printers (8 kLOC) are NOT
   modelled.  `cfg!(windows)` is false on the platform the checks run on.  No proofs here. *)
From SwayV Require Export Base.Util.
Open Scope N_scope.

(* while let Some(c) = chars.next() { match c { '\n' => push "\r\n", '\r' if peek == '\n' => {}, c => push c } } *)
Fixpoint windows (s : list N) : list N :=
  match s with
  | [] => []
  | c :: r =>
    if c =? 10 then 13 :: 10 :: windows r
    else if c =? 13 then
      match r with
      | n :: _ => if n =? 10 then windows r else c :: windows r
      | [] => c :: windows r
      end
    else c :: windows r
  end.

(* formatted_text.replace("\r\n", "\n"): leftmost, non-overlapping matches *)
Fixpoint unix (s : list N) : list N :=
  match s with
  | [] => []
  | c :: r =>
    if c =? 13 then
      match r with
      | n :: r' => if n =? 10 then 10 :: unix r' else c :: unix r
      | [] => c :: unix r
      end
    else c :: unix r
  end.

Inductive style := Auto | Native | Windows | Unix.
Inductive systype := SWindows | SUnix.

(* position of the first '\n'; the char before it (saturating_sub: the '\n' itself at 0) *)
Fixpoint auto_detect_from (prev : N) (raw : list N) : systype :=
  match raw with
  | [] => SUnix                                   (* no line feed: native = Unix *)
  | c :: r => if c =? 10 then (if prev =? 13 then SWindows else SUnix) else auto_detect_from c r
  end.
Definition auto_detect (raw : list N) : systype :=
  match raw with
  | [] => SUnix
  | c :: _ => auto_detect_from c raw      (* at position 0 the "char before" is the char itself *)
  end.

Definition get_newline_style (st : style) (raw : list N) : systype :=
  match st with
  | Auto => auto_detect raw
  | Native => SUnix
  | Windows => SWindows
  | Unix => SUnix
  end.

Definition apply_newline_style (st : style) (text raw : list N) : list N :=
  match get_newline_style st raw with
  | SWindows => windows text
  | SUnix => unix text
  end.

Definition ends_with_lf (s : list N) : bool := last s 0 =? 10.
Definition final_newline (s : list N) : list N := if ends_with_lf s then s else s ++ [10].

Definition finish (st : style) (text raw : list N) : list N :=
  final_newline (apply_newline_style st text raw).
