(* C18 — what is stated about the modelled stages, and the known class. *)
From SwayV Require Export Base.Util C18.Model.
Open Scope N_scope.

Definition hdis (l : list N) (x : N) : bool := match l with h :: _ => h =? x | [] => false end.

(* the text contains "\r\n" *)
Fixpoint has_crlf (s : list N) : bool :=
  match s with [] => false | c :: r => ((c =? 13) && hdis r 10) || has_crlf r end.

(* the text contains "\r\r\n": the KNOWN class on which the Unix conversion is not idempotent *)
Fixpoint has_crcrlf (s : list N) : bool :=
  match s with
  | [] => false
  | c :: r => ((c =? 13) && match r with n :: r' => (n =? 13) && hdis r' 10 | [] => false end) || has_crcrlf r
  end.
Definition Known (s : list N) : Prop := has_crcrlf s = true.

Definition idempotent_on (f : list N -> list N) (s : list N) : Prop := f (f s) = f s.
