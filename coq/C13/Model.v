(* C13 — model of sway-core/src/asm_generation/fuel/data_section.rs and of the size/offset part of
   finalized_asm.rs::to_bytecode_mut.  Definitions only.

   Entry / Datum / Padding           data_section.rs:26-39, irtype.rs `Padding`
   to_bytes                          Entry::to_bytes
   equiv / insert_data_value         Entry::equiv, DataSection::insert_data_value
   all_entries, abs_offset, serialize   iter_all_entries, absolute_idx_to_offset, serialize_to_bytes
   append_pointer, pointer lookup    append_pointer, data_id_of_pointer (FxHashMap as an assoc list)
   op_size, to_bytecode              op_size_in_bytes and the three passes of to_bytecode_mut          *)
From SwayV Require Import Base.Util Layout.Bytes.
Local Open Scope N_scope.

Inductive padding := PLeft (n : N) | PRight (n : N).
Definition target_size (p : padding) : N := match p with PLeft n | PRight n => n end.

(* name = None: EntryName::NonConfigurable, Some s: Configurable(s) *)
Inductive entry := Entry (d : datum) (p : padding) (name : option (list N))
with datum :=
| DByte (b : N) | DWord (w : N) | DByteArray (bs : list N) | DSlice (bs : list N)
| DCollection (es : list entry).

Definition e_datum (e : entry) := match e with Entry d _ _ => d end.
Definition e_padding (e : entry) := match e with Entry _ p _ => p end.
Definition e_name (e : entry) := match e with Entry _ _ n => n end.

(* ByteArray/Slice arms of to_bytes: unchanged when len % 8 == 0, otherwise
   bytes.chain([0;8]).take((len + 7) & 0xfffffff8) *)
Definition pad_arr (bs : list N) : list N :=
  if (nlen bs) mod 8 =? 0 then bs
  else ntake (N.land (nlen bs + 7) 4294967288) (bs ++ zeros 8).

(* final_padding = target_size.saturating_sub(len); Left pads in front, Right behind *)
Definition apply_padding (p : padding) (bytes : list N) : list N :=
  let fin := target_size p - nlen bytes in     (* N subtraction saturates *)
  match p with
  | PLeft _ => zeros fin ++ bytes
  | PRight _ => bytes ++ zeros fin
  end.

Fixpoint to_bytes (e : entry) : list N :=
  match e with
  | Entry d p _ =>
    apply_padding p
      match d with
      | DByte b => [b]
      | DWord w => be_bytes 8 w
      | DByteArray bs | DSlice bs => pad_arr bs
      | DCollection es =>
        (fix go (l : list entry) : list N :=
           match l with [] => [] | x :: r => to_bytes x ++ go r end) es
      end
  end.

Definition has_copy_type (e : entry) : bool :=
  match e_datum e with DWord _ | DByte _ => true | _ => false end.
Definition is_byte (e : entry) : bool :=
  match e_datum e with DByte _ => true | _ => false end.

Fixpoint equiv_data (a b : datum) : bool :=
  match a, b with
  | DByte l, DByte r => l =? r
  | DWord l, DWord r => l =? r
  | DByteArray l, DByteArray r => list_eqb l r
  | DCollection l, DCollection r =>
    (fix go (l r : list entry) : bool :=
       match l, r with
       | [], [] => true
       | Entry dl _ _ :: l', Entry dr _ _ :: r' => equiv_data dl dr && go l' r'
       | _, _ => false
       end) l r
  | _, _ => false          (* in particular slices are never merged *)
  end.

Definition name_eqb (a b : option (list N)) : bool :=
  match a, b with
  | None, None => true
  | Some x, Some y => list_eqb x y
  | _, _ => false
  end.

Definition equiv (a b : entry) : bool := equiv_data (e_datum a) (e_datum b) && name_eqb (e_name a) (e_name b).

Record data_section := DS {
  nonconf : list entry;
  conf : list entry;
  pointer_id : list (N * nat)      (* pointer value -> index into nonconf; newest first *)
}.

(* DataId: (is_configurable, idx) *)
Definition data_id := (bool * nat)%type.

Definition all_entries (ds : data_section) : list entry := nonconf ds ++ conf ds.
Definition absolute_idx (ds : data_section) (id : data_id) : nat :=
  if fst id then (snd id + length (nonconf ds))%nat else snd id.
Definition get_entry (ds : data_section) (id : data_id) : option entry :=
  if fst id then nth_error (conf ds) (snd id) else nth_error (nonconf ds) (snd id).

Definition offset_step (off : N) (e : entry) : N := round_up8 (off + nlen (to_bytes e)).
Definition offset_fold (start : N) (es : list entry) : N := fold_left offset_step es start.
(* absolute_idx_to_offset: iter_all_entries().take(idx).fold(0, ..) *)
Definition abs_offset (ds : data_section) (idx : nat) : N := offset_fold 0 (firstn idx (all_entries ds)).
Definition data_id_to_offset (ds : data_section) (id : data_id) : N := abs_offset ds (absolute_idx ds id).

Fixpoint serialize_from (buf : list N) (es : list entry) : list N :=
  match es with
  | [] => buf
  | e :: es' =>
    let buf1 := buf ++ to_bytes e in
    serialize_from (buf1 ++ zeros (round_up8 (nlen buf1) - nlen buf1)) es'
  end.
Definition serialize (ds : data_section) : list N := serialize_from [] (all_entries ds).

Fixpoint position {A} (f : A -> bool) (l : list A) : option nat :=
  match l with
  | [] => None
  | x :: r => if f x then Some O else option_map S (position f r)
  end.

(* insert_data_value; returns the new section and the DataId *)
Definition insert_data_value (ds : data_section) (e : entry) : data_section * data_id :=
  match e_name e with
  | None =>
    match position (fun x => equiv x e) (nonconf ds) with
    | Some i => (ds, (false, i))
    | None => (DS (nonconf ds ++ [e]) (conf ds) (pointer_id ds), (false, length (nonconf ds)))
    end
  | Some _ =>
    match position (fun x => equiv x e) (conf ds) with
    | Some i => (ds, (true, i))
    | None => (DS (nonconf ds) (conf ds ++ [e]) (pointer_id ds), (true, length (conf ds)))
    end
  end.

Definition new_word (w : N) : entry := Entry (DWord w) (PRight 8) None.

Definition append_pointer (ds : data_section) (v : N) : data_section :=
  let '(ds1, id) := insert_data_value ds (new_word v) in
  DS (nonconf ds1) (conf ds1) ((v, snd id) :: pointer_id ds1).

Fixpoint assoc_find (v : N) (l : list (N * nat)) : option nat :=
  match l with [] => None | (k, i) :: r => if k =? v then Some i else assoc_find v r end.
Definition data_id_of_pointer (ds : data_section) (v : N) : option data_id :=
  option_map (fun i => (false, i)) (assoc_find v (pointer_id ds)).

(* ---- ops: only what determines sizes *)
Inductive op :=
| OFixed (n : N)          (* constant-size: 4; placeholders 8; BLOB 4*count; CFEI/CFSI 0 -> 0 *)
| OLoad (id : data_id)    (* LoadDataId *)
| OAddr (id : data_id).   (* AddrDataId *)

Definition TWELVE_BITS : N := 4095.

(* panic sites *)
Definition P_NO_DATA : N := 1.      (* "data label references non existent data" *)
Definition P_ASSERT_LEN : N := 2.   (* assert_eq!(half_word_ix * 4, offset_to_data_section_in_bytes) *)
Definition P_PTR_LOOKUP : N := 3.   (* "Pointer offset must be in data_section" *)
Definition P_IMM12 : N := 4.        (* "Unable to offset into the data section more than 2^12 bits" *)
Definition P_UNDERFLOW : N := 5.    (* u64 subtraction overflow in the pointer value (debug) *)

Definition op_size (ds : data_section) (o : op) : outcome N :=
  match o with
  | OFixed n => Ok n
  | OLoad id =>
    match get_entry ds id with
    | None => Panic P_NO_DATA
    | Some e => Ok (if has_copy_type e then 4 else 8)
    end
  | OAddr id => Ok (if data_id_to_offset ds id <=? TWELVE_BITS then 4 else 8)
  end.

Fixpoint sum_sizes (ds : data_section) (ops : list op) (acc : N) : outcome N :=
  match ops with
  | [] => Ok acc
  | o :: r => match op_size ds o with Ok n => sum_sizes ds r (acc + n) | Err c => Err c | Panic s => Panic s | OutOfFuel => OutOfFuel end
  end.

(* pointer_offset_from_current_instr = off_ds - ofis + offset_bytes - 4 *)
Definition pointer_value (off_ds ofis offset_bytes : N) : outcome N :=
  if (ofis <=? off_ds) && (4 <=? off_ds - ofis + offset_bytes) then Ok (off_ds - ofis + offset_bytes - 4)
  else Panic P_UNDERFLOW.

(* pass 2: pre-insert the pointers (the data section is mutated while sizes are summed) *)
Fixpoint insert_pointers (off_ds : N) (ops : list op) (ds : data_section) (ofis : N) : outcome data_section :=
  match ops with
  | [] => Ok ds
  | o :: r =>
    let step (ds' : data_section) :=
      match op_size ds' o with
      | Ok n => insert_pointers off_ds r ds' (ofis + n)
      | Err c => Err c | Panic s => Panic s | OutOfFuel => OutOfFuel
      end in
    match o with
    | OLoad id =>
      match get_entry ds id with
      | None => Panic P_NO_DATA
      | Some e =>
        if has_copy_type e then step ds
        else match pointer_value off_ds ofis (data_id_to_offset ds id) with
             | Ok v => step (append_pointer ds v)
             | Err c => Err c | Panic s => Panic s | OutOfFuel => OutOfFuel
             end
      end
    | _ => step ds
    end
  end.

(* realize_load on a copy-type entry: one LB/LW whose immediate must fit 12 bits *)
Definition load_copy_len (ds : data_section) (id : data_id) (e : entry) : outcome N :=
  let off := data_id_to_offset ds id in
  let imm := if is_byte e then off else off / 8 in
  if imm <=? TWELVE_BITS then Ok 4 else Panic P_IMM12.

(* bytes emitted for one op under the final data section (to_fuel_asm) *)
Definition emit_len (off_ds ofis : N) (ds : data_section) (o : op) : outcome N :=
  match o with
  | OFixed n => Ok n
  | OAddr id => Ok (if data_id_to_offset ds id <=? TWELVE_BITS then 4 else 8)    (* addr_of *)
  | OLoad id =>
    match get_entry ds id with
    | None => Panic P_NO_DATA
    | Some e =>
      if has_copy_type e then load_copy_len ds id e
      else
        let off := data_id_to_offset ds id in
        if off / 8 <=? TWELVE_BITS then
          match pointer_value off_ds ofis off with
          | Ok v =>
            match data_id_of_pointer ds v with
            | None => Panic P_PTR_LOOKUP
            | Some pid =>
              match get_entry ds pid with
              | None => Panic P_NO_DATA
              | Some pe => match load_copy_len ds pid pe with Ok n => Ok (n + 4) | x => x end
              end
            end
          | Err c => Err c | Panic s => Panic s | OutOfFuel => OutOfFuel
          end
        else Panic P_IMM12
    end
  end.

Fixpoint emit_all (off_ds : N) (ds : data_section) (ops : list op) (ofis emitted : N) : outcome N :=
  match ops with
  | [] => Ok emitted
  | o :: r =>
    match emit_len off_ds ofis ds o, op_size ds o with
    | Ok n, Ok sz => emit_all off_ds ds r (ofis + sz) (emitted + n)
    | Ok _, Err c | Err c, _ => Err c
    | Ok _, Panic s | Panic s, _ => Panic s
    | Ok _, OutOfFuel | OutOfFuel, _ => OutOfFuel
    end
  end.

Record bytecode_info := BI {
  bi_code_len : N;                 (* offset_to_data_section_in_bytes = length of the code part *)
  bi_ds : data_section;            (* final data section *)
  bi_named : list (list N * N)     (* named_data_section_entries_offsets *)
}.

Fixpoint named_offsets (code_len : N) (ds : data_section) (i : nat) (cs : list entry) : list (list N * N) :=
  match cs with
  | [] => []
  | c :: r =>
    match e_name c with
    | Some nm => (nm, code_len + abs_offset ds (i + length (nonconf ds))) :: named_offsets code_len ds (S i) r
    | None => named_offsets code_len ds (S i) r   (* real code panics; unreachable: conf holds named entries only *)
    end
  end.

Definition to_bytecode (ops : list op) (ds : data_section) : outcome bytecode_info :=
  match sum_sizes ds ops 0 with
  | Ok off0 =>
    let padded := negb (N.land off0 7 =? 0) in
    let ops' := if padded then ops ++ [OFixed 4] else ops in
    let off_ds := if padded then off0 + 4 else off0 in
    match insert_pointers off_ds ops' ds 0 with
    | Ok dsf =>
      match emit_all off_ds dsf ops' 0 0 with
      | Ok emitted =>
        if emitted =? off_ds then Ok (BI off_ds dsf (named_offsets off_ds dsf 0 (conf dsf)))
        else Panic P_ASSERT_LEN
      | Err c => Err c | Panic s => Panic s | OutOfFuel => OutOfFuel
      end
    | Err c => Err c | Panic s => Panic s | OutOfFuel => OutOfFuel
    end
  | Err c => Err c | Panic s => Panic s | OutOfFuel => OutOfFuel
  end.

(* the file written by forc: any code of the computed length followed by the serialized section *)
Definition bytecode (code : list N) (bi : bytecode_info) : list N := code ++ serialize (bi_ds bi).
