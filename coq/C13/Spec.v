(* C13 — what the property means on the layout level, and the boolean oracles applied to the
   compiler's own outputs (data_section dump). *)
From SwayV Require Import Base.Util Layout.Bytes C13.Model.
Local Open Scope N_scope.

(* "The offset reported for entry i is where its bytes are": in a file [code ++ data] *)
Definition entry_at (file : list N) (off : N) (bytes : list N) : Prop := sub file off (nlen bytes) = bytes.
Definition entry_atb (file : list N) (off : N) (bytes : list N) : bool := list_eqb (sub file off (nlen bytes)) bytes.

(* Oracle on implementation outputs only: every reported configurable offset, taken relative to the
   start of the data section, selects exactly that configurable's bytes in the serialized section the
   compiler emitted.  (impl_ser: serialized bytes; offs: reported offset - code length; bs: Entry::to_bytes) *)
Fixpoint reported_okb (impl_ser : list N) (offs : list N) (bs : list (list N)) : bool :=
  match offs, bs with
  | [], [] => true
  | o :: offs', b :: bs' => entry_atb impl_ser o b && reported_okb impl_ser offs' bs'
  | _, _ => false
  end.

(* Oracle on the end-to-end observation: what the patched program logged for each configurable *)
Fixpoint observed_okb (expected observed : list (list N)) : bool :=
  match expected, observed with
  | [], [] => true
  | e :: es, o :: os => list_eqb e o && observed_okb es os
  | _, _ => false
  end.
