(* C13 — property theorems only. *)
From SwayV Require Import Base.Util Layout.Bytes C13.Model C13.Spec C13.Proofs.
Local Open Scope N_scope.

(* The bytes found in the serialized data section at the offset computed by
   absolute_idx_to_offset are exactly Entry::to_bytes of that entry (all data sections, all entries,
   nested collections and paddings included). *)
Theorem C13_entry_at_offset : forall ds i e,
  nth_error (all_entries ds) i = Some e ->
  sub (serialize ds) (abs_offset ds i) (nlen (to_bytes e)) = to_bytes e.
Proof. exact entry_at_offset. Qed.
Print Assumptions C13_entry_at_offset.

(* Patching [off_i, off_i + |new|) with |new| <= |to_bytes e_i| keeps the length, puts `new` at
   off_i and leaves the bytes of every other entry (configurable or not) unchanged. *)
Theorem C13_patch_local : forall ds i e new,
  nth_error (all_entries ds) i = Some e -> nlen new <= nlen (to_bytes e) ->
  let s' := patch (serialize ds) (abs_offset ds i) new in
  nlen s' = nlen (serialize ds) /\
  sub s' (abs_offset ds i) (nlen new) = new /\
  (forall j ej, j <> i -> nth_error (all_entries ds) j = Some ej ->
     sub s' (abs_offset ds j) (nlen (to_bytes ej)) = to_bytes ej).
Proof. exact patch_local_ds. Qed.
Print Assumptions C13_patch_local.

(* The same on the emitted file code ++ data: the code part is untouched as well. *)
Theorem C13_patch_local_file : forall ds code i e new,
  nth_error (all_entries ds) i = Some e -> nlen new <= nlen (to_bytes e) ->
  let file := code ++ serialize ds in
  let f' := patch file (nlen code + abs_offset ds i) new in
  nlen f' = nlen file /\ ntake (nlen code) f' = code /\
  sub f' (nlen code + abs_offset ds i) (nlen new) = new /\
  (forall j ej, j <> i -> nth_error (all_entries ds) j = Some ej ->
     sub f' (nlen code + abs_offset ds j) (nlen (to_bytes ej)) = to_bytes ej).
Proof. exact patch_local_file. Qed.
Print Assumptions C13_patch_local_file.

(* insert_data_value never returns the slot of an entry with a different name: configurables are
   never merged with each other or with anonymous constants. *)
Theorem C13_configurables_never_merged : forall ds e ds' id x,
  insert_data_value ds e = (ds', id) -> get_entry ds' id = Some x -> e_name x = e_name e.
Proof. exact insert_never_merges_names. Qed.
Print Assumptions C13_configurables_never_merged.

(* Whenever to_bytecode_mut returns (no assertion fired), each reported (name, offset) is
   code_len + offset_of(n_nonconf + i) of a configurable with that name and the file holds that
   configurable's bytes there; and every named configurable is reported. *)
Theorem C13_reported_offset_correct : forall ops ds bi nm off,
  to_bytecode ops ds = Ok bi -> In (nm, off) (bi_named bi) ->
  exists i e, nth_error (conf (bi_ds bi)) i = Some e /\ e_name e = Some nm /\
    off = bi_code_len bi + abs_offset (bi_ds bi) (i + length (nonconf (bi_ds bi))) /\
    forall code, nlen code = bi_code_len bi ->
      sub (bytecode code bi) off (nlen (to_bytes e)) = to_bytes e.
Proof. exact reported_offset_correct. Qed.
Print Assumptions C13_reported_offset_correct.

Theorem C13_reported_complete : forall ops ds bi i e nm,
  to_bytecode ops ds = Ok bi -> nth_error (conf (bi_ds bi)) i = Some e -> e_name e = Some nm ->
  In (nm, bi_code_len bi + abs_offset (bi_ds bi) (i + length (nonconf (bi_ds bi)))) (bi_named bi).
Proof. exact reported_complete. Qed.
Print Assumptions C13_reported_complete.

(* Stability hypothesis: appending entries to the non-configurable part changes neither the size
   class of any op nor the offset of any loaded entry.  Under it the two assertions of
   to_bytecode_mut (emitted length = sum of op sizes) and the pointer lookup cannot fail. *)
Theorem C13_code_len_consistent : forall ops ds,
  stable ops ds -> to_bytecode ops ds <> Panic P_ASSERT_LEN.
Proof. exact code_len_consistent. Qed.
Print Assumptions C13_code_len_consistent.

Theorem C13_pointer_lookup_consistent : forall ops ds,
  stable ops ds -> to_bytecode ops ds <> Panic P_PTR_LOOKUP.
Proof. exact pointer_lookup_consistent. Qed.
Print Assumptions C13_pointer_lookup_consistent.

(* Without the hypothesis the model (like the compiler, see design_notes/C13.md) panics: a
   configurable at offset 4088 is pushed beyond 4095 by one appended pointer.
   Known class (finding): programs for which `stable` fails. *)
Definition big : entry := Entry (DByteArray (zeros 4056)) (PRight 4056) None.
Definition b256c : entry := Entry (DByteArray (zeros 32)) (PRight 32) None.
Definition cfg : entry := Entry (DByteArray (be_bytes 8 77)) (PRight 8) (Some [67]).
Definition ds_w : data_section := DS [big; b256c] [cfg] [].

Theorem C13_unstable_refuted_ptr :
  to_bytecode [OAddr (true, 0%nat); OLoad (false, 1%nat)] ds_w = Panic P_PTR_LOOKUP.
Proof. vm_compute. reflexivity. Qed.
Theorem C13_unstable_refuted_len :
  to_bytecode [OLoad (false, 1%nat); OAddr (true, 0%nat)] ds_w = Panic P_ASSERT_LEN.
Proof. vm_compute. reflexivity. Qed.

(* Non-vacuity: a section with a collection, a left-padded byte and a non-copy constant; the
   load needs a pointer, nothing crosses 4095, to_bytecode succeeds and reports the offset. *)
Definition ds_ex : data_section :=
  DS [Entry (DWord 5) (PRight 8) None; Entry (DByteArray [1;2;3]) (PRight 3) None]
     [Entry (DCollection [Entry (DByte 7) (PLeft 8) None; Entry (DWord 9) (PRight 8) None]) (PRight 16) (Some [65]);
      Entry (DByte 1) (PRight 1) (Some [66])] [].
Example C13_example_ok :
  exists bi, to_bytecode [OFixed 4; OLoad (false, 1%nat); OAddr (true, 0%nat); OLoad (false, 0%nat)] ds_ex = Ok bi
    /\ bi_named bi = [([65], 24 + 24); ([66], 24 + 40)] /\ bi_code_len bi = 24
    /\ serialize (bi_ds bi) = be_bytes 8 5 ++ [1;2;3;0;0;0;0;0] ++ be_bytes 8 24 ++ ([0;0;0;0;0;0;0;7] ++ be_bytes 8 9) ++ [1;0;0;0;0;0;0;0].
Proof. eexists. vm_compute. repeat split. Qed.
Example C13_example_stable : stable [OFixed 4; OLoad (false, 0%nat)] ds_ex.
Proof.
  intros ds' [Hc [ws Hn]] o Ho. split.
  - destruct Ho as [Ho|[Ho|[]]]; subst; [reflexivity|]. cbn [op_size]. unfold get_entry. cbn [fst snd]. rewrite Hn. reflexivity.
  - intros id Hid. subst o. destruct Ho as [Ho|[Ho|[]]]; inversion Ho; subst.
    unfold data_id_to_offset, abs_offset, absolute_idx. cbn [fst snd firstn]. reflexivity.
Qed.
