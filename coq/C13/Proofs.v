(* C13 — proofs about the data-section layout (all entry lists). *)
From SwayV Require Import Base.Util Layout.Bytes C13.Model.
From Coq Require Import ZifyBool ZifyN.
Local Open Scope N_scope.

(* ---- serialize = concatenation of padded segments *)
Definition seg (off : N) (e : entry) : list N :=
  to_bytes e ++ zeros (round_up8 (off + nlen (to_bytes e)) - (off + nlen (to_bytes e))).

Fixpoint body (off : N) (es : list entry) : list N :=
  match es with [] => [] | e :: r => seg off e ++ body (offset_step off e) r end.

Lemma nlen_seg off e : off + nlen (seg off e) = offset_step off e.
Proof.
  unfold seg, offset_step. rewrite nlen_app, nlen_zeros.
  pose proof (round_up8_ge (off + nlen (to_bytes e))). lia.
Qed.

Lemma serialize_from_body buf es : serialize_from buf es = buf ++ body (nlen buf) es.
Proof.
  revert buf. induction es as [|e r IH]; intros buf; cbn [serialize_from body].
  - now rewrite app_nil_r.
  - rewrite IH. rewrite <- !app_assoc. f_equal. unfold seg at 1. rewrite <- app_assoc.
    rewrite !nlen_app. f_equal. f_equal. f_equal. rewrite nlen_zeros. unfold offset_step.
    pose proof (round_up8_ge (nlen buf + nlen (to_bytes e))). lia.
Qed.

Lemma serialize_body ds : serialize ds = body 0 (all_entries ds).
Proof. unfold serialize. now rewrite serialize_from_body. Qed.

Lemma offset_fold_app s a b : offset_fold s (a ++ b) = offset_fold (offset_fold s a) b.
Proof. unfold offset_fold. apply fold_left_app. Qed.

Lemma offset_step_ge off e : off + nlen (to_bytes e) <= offset_step off e.
Proof. unfold offset_step. apply round_up8_ge. Qed.

Lemma offset_fold_ge s es : s <= offset_fold s es.
Proof.
  revert s. induction es as [|e r IH]; intros s; cbn; [lia|].
  specialize (IH (offset_step s e)). pose proof (offset_step_ge s e). unfold offset_fold in *. lia.
Qed.

Lemma body_app off a b : body off (a ++ b) = body off a ++ body (offset_fold off a) b.
Proof.
  revert off. induction a as [|e r IH]; intros off; cbn [body app]; [reflexivity|].
  rewrite IH, app_assoc. reflexivity.
Qed.

Lemma nlen_body off es : off + nlen (body off es) = offset_fold off es.
Proof.
  revert off. induction es as [|e r IH]; intros off; cbn [body].
  - cbn. unfold nlen. cbn. lia.
  - rewrite nlen_app. specialize (IH (offset_step off e)). pose proof (nlen_seg off e).
    change (offset_fold off (e :: r)) with (offset_fold (offset_step off e) r). lia.
Qed.

(* decomposition around entry i *)
Lemma nth_error_firstn_split {A} (l : list A) i x :
  nth_error l i = Some x -> l = firstn i l ++ x :: skipn (S i) l.
Proof.
  revert i. induction l as [|a l IH]; intros [|i] H; cbn in *; try discriminate.
  - now inversion H.
  - f_equal. now apply IH.
Qed.

Lemma body_split es i e :
  nth_error es i = Some e ->
  body 0 es = body 0 (firstn i es) ++ to_bytes e ++
              (zeros (offset_step (offset_fold 0 (firstn i es)) e - (offset_fold 0 (firstn i es) + nlen (to_bytes e)))
               ++ body (offset_step (offset_fold 0 (firstn i es)) e) (skipn (S i) es)).
Proof.
  intros H. rewrite (nth_error_firstn_split es i e H) at 1.
  rewrite body_app. cbn [body]. unfold seg. rewrite <- !app_assoc. reflexivity.
Qed.

Lemma nlen_body0 es : nlen (body 0 es) = offset_fold 0 es.
Proof. pose proof (nlen_body 0 es). lia. Qed.

Lemma entry_at_offset ds i e :
  nth_error (all_entries ds) i = Some e ->
  sub (serialize ds) (abs_offset ds i) (nlen (to_bytes e)) = to_bytes e.
Proof.
  intros H. rewrite serialize_body, (body_split _ _ _ H). unfold abs_offset.
  rewrite <- nlen_body0. apply sub_middle.
Qed.

(* offsets are monotone and entries do not overlap *)
Lemma firstn_snoc {A} (l : list A) i x : nth_error l i = Some x -> firstn (S i) l = firstn i l ++ [x].
Proof.
  revert i. induction l as [|a l IH]; intros [|i] H; cbn in *; try discriminate.
  - now inversion H.
  - f_equal. now apply IH.
Qed.

Lemma firstn_le_app {A} (l : list A) i j : (i <= j)%nat -> exists r, firstn j l = firstn i l ++ r.
Proof.
  revert i j. induction l as [|a l IH]; intros i j Hij.
  - exists []. now rewrite !firstn_nil.
  - destruct i as [|i]; [eexists; reflexivity|].
    destruct j as [|j]; [lia|]. destruct (IH i j ltac:(lia)) as [r Hr].
    exists r. cbn. now rewrite Hr.
Qed.

Lemma offsets_disjoint es j i ej :
  (j < i)%nat -> nth_error es j = Some ej ->
  offset_fold 0 (firstn j es) + nlen (to_bytes ej) <= offset_fold 0 (firstn i es).
Proof.
  intros Hji Hj. destruct (firstn_le_app es (S j) i ltac:(lia)) as [r Hr].
  rewrite Hr, (firstn_snoc _ _ _ Hj), !offset_fold_app.
  pose proof (offset_fold_ge (offset_fold (offset_fold 0 (firstn j es)) [ej]) r) as H1.
  cbn [offset_fold fold_left] in *. pose proof (offset_step_ge (offset_fold 0 (firstn j es)) ej).
  unfold offset_fold in *. lia.
Qed.

Lemma entry_end_le_total es i e :
  nth_error es i = Some e -> offset_fold 0 (firstn i es) + nlen (to_bytes e) <= offset_fold 0 es.
Proof.
  intros H. rewrite (nth_error_firstn_split es i e H) at 2. rewrite offset_fold_app.
  change (offset_fold (offset_fold 0 (firstn i es)) (e :: skipn (S i) es))
    with (offset_fold (offset_step (offset_fold 0 (firstn i es)) e) (skipn (S i) es)).
  pose proof (offset_fold_ge (offset_step (offset_fold 0 (firstn i es)) e) (skipn (S i) es)).
  pose proof (offset_step_ge (offset_fold 0 (firstn i es)) e). lia.
Qed.

(* generic: a byte string laid out as non-overlapping entries *)
Section PatchLocal.
  Variable es : list entry.
  Let s := body 0 es.
  Let off (k : nat) := offset_fold 0 (firstn k es).

  Lemma patch_other_entry i e new j ej :
    nth_error es i = Some e -> nlen new <= nlen (to_bytes e) ->
    j <> i -> nth_error es j = Some ej ->
    sub (patch s (off i) new) (off j) (nlen (to_bytes ej)) = to_bytes ej.
  Proof.
    intros Hi Hnew Hne Hj. subst s off. cbv beta.
    assert (Hcases : (j < i)%nat \/ (i < j)%nat) by lia. clear Hne.
    destruct Hcases as [Hlt|Hgt].
    - (* entry j before the patched one *)
      rewrite (body_split _ _ _ Hj). rewrite app_assoc.
      pose proof (offsets_disjoint es j i ej Hlt Hj) as Hd.
      rewrite patch_in_right by (rewrite nlen_app, nlen_body0; lia).
      rewrite <- app_assoc. rewrite <- nlen_body0. apply sub_middle.
    - (* entry j after the patched one *)
      rewrite (body_split _ _ _ Hj).
      pose proof (offsets_disjoint es i j e Hgt Hi) as Hd.
      rewrite patch_in_left by (rewrite nlen_body0; lia).
      assert (Hl : nlen (patch (body 0 (firstn j es)) (offset_fold 0 (firstn i es)) new) = offset_fold 0 (firstn j es)).
      { rewrite nlen_patch; rewrite nlen_body0; lia. }
      rewrite <- Hl. apply sub_middle.
  Qed.

  Lemma patch_this_entry i e new :
    nth_error es i = Some e -> nlen new <= nlen (to_bytes e) ->
    nlen (patch s (off i) new) = nlen s /\ sub (patch s (off i) new) (off i) (nlen new) = new.
  Proof.
    intros Hi Hnew. subst s off. cbv beta.
    pose proof (entry_end_le_total es i e Hi) as Ht.
    split; [apply nlen_patch | apply sub_patch_same]; rewrite nlen_body0; lia.
  Qed.
End PatchLocal.

(* ---- configurables are never merged with entries of another name *)
Lemma name_eqb_eq a b : name_eqb a b = true -> a = b.
Proof.
  destruct a, b; cbn; intros H; try discriminate; [|reflexivity].
  apply list_eqb_eq in H. congruence.
Qed.
Lemma equiv_same_name a b : equiv a b = true -> e_name a = e_name b.
Proof. unfold equiv. intros H. apply andb_true_iff in H. apply name_eqb_eq. tauto. Qed.

Lemma position_some {A} (f : A -> bool) l i : position f l = Some i -> exists x, nth_error l i = Some x /\ f x = true.
Proof.
  revert i. induction l as [|a l IH]; intros i H; cbn in *; [discriminate|].
  destruct (f a) eqn:Hf.
  - inversion H; subst. exists a. now split.
  - destruct (position f l) as [k|] eqn:Hp; cbn in H; [|discriminate]. inversion H; subst.
    destruct (IH k eq_refl) as [x [Hx Hfx]]. exists x. now split.
Qed.

Lemma insert_never_merges_names ds e ds' id x :
  insert_data_value ds e = (ds', id) -> get_entry ds' id = Some x -> e_name x = e_name e.
Proof.
  unfold insert_data_value, get_entry. destruct (e_name e) as [nm|] eqn:Hn.
  - destruct (position (fun x0 => equiv x0 e) (conf ds)) as [i|] eqn:Hp; intros H; inversion H; subst; cbn.
    + intros Hx. destruct (position_some _ _ _ Hp) as [y [Hy Hq]]. rewrite Hy in Hx. inversion Hx; subst.
      rewrite (equiv_same_name _ _ Hq). exact Hn.
    + rewrite nth_error_app2, Nat.sub_diag by lia. cbn. intros Hx. inversion Hx; subst. exact Hn.
  - destruct (position (fun x0 => equiv x0 e) (nonconf ds)) as [i|] eqn:Hp; intros H; inversion H; subst; cbn.
    + intros Hx. destruct (position_some _ _ _ Hp) as [y [Hy Hq]]. rewrite Hy in Hx. inversion Hx; subst.
      rewrite (equiv_same_name _ _ Hq). exact Hn.
    + rewrite nth_error_app2, Nat.sub_diag by lia. cbn. intros Hx. inversion Hx; subst. exact Hn.
Qed.

(* ---- reported offsets *)
Lemma sub_app_right {A} (c s : list A) o len : sub (c ++ s) (nlen c + o) len = sub s o len.
Proof. unfold sub. rewrite ndrop_app_ge by lia. f_equal. f_equal. lia. Qed.

Lemma named_offsets_in cl ds k cs nm off :
  In (nm, off) (named_offsets cl ds k cs) ->
  exists i e, nth_error cs i = Some e /\ e_name e = Some nm /\ off = cl + abs_offset ds ((k + i) + length (nonconf ds)).
Proof.
  revert k. induction cs as [|c r IH]; intros k H; cbn in H; [contradiction|].
  destruct (e_name c) as [n|] eqn:Hn.
  - destruct H as [H|H].
    + inversion H; subst. exists O, c. rewrite Nat.add_0_r. cbn. auto.
    + destruct (IH _ H) as [i [e [H1 [H2 H3]]]]. exists (S i), e. cbn. rewrite Nat.add_succ_r. auto.
  - destruct (IH _ H) as [i [e [H1 [H2 H3]]]]. exists (S i), e. cbn. rewrite Nat.add_succ_r. auto.
Qed.

Lemma named_offsets_complete cl ds k cs i e nm :
  nth_error cs i = Some e -> e_name e = Some nm ->
  In (nm, cl + abs_offset ds ((k + i) + length (nonconf ds))) (named_offsets cl ds k cs).
Proof.
  revert k i. induction cs as [|c r IH]; intros k i Hi Hn; destruct i; cbn in *; try discriminate.
  - inversion Hi; subst. rewrite Hn. left. now rewrite Nat.add_0_r.
  - specialize (IH (S k) i Hi Hn). rewrite Nat.add_succ_r. cbn in IH.
    destruct (e_name c); [right|]; exact IH.
Qed.

Lemma nth_error_conf ds i : nth_error (all_entries ds) (i + length (nonconf ds)) = nth_error (conf ds) i.
Proof. unfold all_entries. rewrite nth_error_app2 by lia. f_equal. lia. Qed.

Lemma to_bytecode_ok_inv ops ds bi :
  to_bytecode ops ds = Ok bi -> bi_named bi = named_offsets (bi_code_len bi) (bi_ds bi) 0 (conf (bi_ds bi)).
Proof.
  unfold to_bytecode. destruct (sum_sizes ds ops 0); try discriminate.
  destruct (insert_pointers _ _ ds 0); try discriminate.
  destruct (emit_all _ _ _ 0 0); try discriminate.
  destruct (_ =? _); [|discriminate]. intros H. inversion H; subst. reflexivity.
Qed.

(* ---- code length consistency under the stability hypothesis *)
Definition ext (ds ds' : data_section) : Prop :=
  conf ds' = conf ds /\ exists ws, nonconf ds' = nonconf ds ++ ws.

Definition stable (ops : list op) (ds : data_section) : Prop :=
  forall ds', ext ds ds' -> forall o, In o ops ->
    op_size ds' o = op_size ds o /\
    (forall id, o = OLoad id -> data_id_to_offset ds' id = data_id_to_offset ds id).

Lemma ext_refl ds : ext ds ds.
Proof. split; [reflexivity|]. exists []. now rewrite app_nil_r. Qed.
Lemma ext_trans a b c : ext a b -> ext b c -> ext a c.
Proof.
  intros [H1 [w1 H2]] [H3 [w2 H4]]. split; [congruence|]. exists (w1 ++ w2). rewrite H4, H2. now rewrite app_assoc.
Qed.
Lemma ext_append_pointer ds v : ext ds (append_pointer ds v).
Proof.
  unfold append_pointer, insert_data_value, new_word. cbn [e_name].
  destruct (position _ (nonconf ds)); cbn; split; try reflexivity.
  - exists []. now rewrite app_nil_r.
  - eexists. reflexivity.
Qed.

Lemma stable_snoc ops ds n : stable ops ds -> stable (ops ++ [OFixed n]) ds.
Proof.
  intros H ds' He o Ho. apply in_app_or in Ho. destruct Ho as [Ho|[Ho|[]]]; [now apply H|].
  subst. split; [reflexivity|]. intros id Hid. discriminate.
Qed.
Lemma stable_tail o r ds : stable (o :: r) ds -> stable r ds.
Proof. intros H ds' He x Hx. apply H; [exact He | now right]. Qed.

Lemma insert_pointers_ext off ops ds ofis dsf : insert_pointers off ops ds ofis = Ok dsf -> ext ds dsf.
Proof.
  revert ds ofis. induction ops as [|o r IH]; intros ds ofis H; cbn [insert_pointers] in H.
  - inversion H; subst. apply ext_refl.
  - assert (Hstep : forall ds', ext ds ds' ->
             match op_size ds' o with Ok n => insert_pointers off r ds' (ofis + n) | Err c => Err c | Panic s => Panic s | OutOfFuel => OutOfFuel end = Ok dsf ->
             ext ds dsf).
    { intros ds' He Hs. destruct (op_size ds' o); try discriminate. eapply ext_trans; [exact He | eapply IH; exact Hs]. }
    destruct o as [n|id|id].
    + eapply Hstep; [apply ext_refl | exact H].
    + destruct (get_entry ds id) as [e|]; [|discriminate].
      destruct (has_copy_type e).
      * eapply Hstep; [apply ext_refl | exact H].
      * destruct (pointer_value off ofis (data_id_to_offset ds id)) as [v| | |]; try discriminate.
        eapply Hstep; [apply ext_append_pointer | exact H].
    + eapply Hstep; [apply ext_refl | exact H].
Qed.

Lemma load_copy_len_ok ds id e n : load_copy_len ds id e = Ok n -> n = 4.
Proof. unfold load_copy_len. destruct (_ <=? _); intros H; inversion H; reflexivity. Qed.

Lemma emit_len_is_op_size off ofis ds o n : emit_len off ofis ds o = Ok n -> op_size ds o = Ok n.
Proof.
  destruct o as [k|id|id]; cbn [emit_len op_size]; try (intros H; exact H).
  destruct (get_entry ds id) as [e|]; [|discriminate].
  destruct (has_copy_type e).
  - intros H. apply load_copy_len_ok in H. now subst.
  - destruct (_ <=? _); [|discriminate].
    destruct (pointer_value _ _ _) as [v| | |]; try discriminate.
    destruct (data_id_of_pointer ds v) as [pid|]; [|discriminate].
    destruct (get_entry ds pid) as [pe|]; [|discriminate].
    destruct (load_copy_len ds pid pe) as [m| | |] eqn:Hl; try discriminate.
    apply load_copy_len_ok in Hl. subst. intros H. inversion H. reflexivity.
Qed.

Lemma emit_all_is_sum off ds ops ofis em t : emit_all off ds ops ofis em = Ok t -> sum_sizes ds ops em = Ok t.
Proof.
  revert ofis em. induction ops as [|o r IH]; intros ofis em H; cbn [emit_all sum_sizes] in *; [exact H|].
  destruct (emit_len off ofis ds o) as [n| | |] eqn:He; try discriminate.
  rewrite (emit_len_is_op_size _ _ _ _ _ He) in *. eapply IH. exact H.
Qed.

Lemma sum_sizes_stable ops ds ds' acc :
  (forall o, In o ops -> op_size ds' o = op_size ds o) -> sum_sizes ds' ops acc = sum_sizes ds ops acc.
Proof.
  revert acc. induction ops as [|o r IH]; intros acc H; cbn [sum_sizes]; [reflexivity|].
  rewrite (H o (or_introl eq_refl)). destruct (op_size ds o); try reflexivity.
  apply IH. intros x Hx. apply H. now right.
Qed.

Lemma sum_sizes_snoc ds ops acc t n : sum_sizes ds ops acc = Ok t -> sum_sizes ds (ops ++ [OFixed n]) acc = Ok (t + n).
Proof.
  revert acc. induction ops as [|o r IH]; intros acc H; cbn [sum_sizes app] in *.
  - inversion H; subst. reflexivity.
  - destruct (op_size ds o); try discriminate. now apply IH.
Qed.

(* panics raised by the passes are never the length assertion *)
Lemma sum_sizes_panic ds ops acc s : sum_sizes ds ops acc = Panic s -> s = P_NO_DATA.
Proof.
  revert acc. induction ops as [|o r IH]; intros acc H; cbn [sum_sizes] in H; [discriminate|].
  destruct (op_size ds o) eqn:Ho; try discriminate.
  - eapply IH; exact H.
  - destruct o as [k|id|id]; cbn in Ho; try discriminate.
    destruct (get_entry ds id); inversion Ho; inversion H; subst; reflexivity.
Qed.
Lemma op_size_panic ds o s : op_size ds o = Panic s -> s = P_NO_DATA.
Proof.
  destruct o as [k|id|id]; cbn; try discriminate. destruct (get_entry ds id); intros H; inversion H; reflexivity.
Qed.
Lemma pointer_value_panic a b c s : pointer_value a b c = Panic s -> s = P_UNDERFLOW.
Proof. unfold pointer_value. destruct (_ && _); intros H; inversion H; reflexivity. Qed.

Lemma insert_pointers_panic off ops ds ofis s :
  insert_pointers off ops ds ofis = Panic s -> s = P_NO_DATA \/ s = P_UNDERFLOW.
Proof.
  revert ds ofis. induction ops as [|o r IH]; intros ds ofis H; cbn [insert_pointers] in H; [discriminate|].
  assert (Hstep : forall ds',
             match op_size ds' o with Ok n => insert_pointers off r ds' (ofis + n) | Err c => Err c | Panic s => Panic s | OutOfFuel => OutOfFuel end = Panic s ->
             s = P_NO_DATA \/ s = P_UNDERFLOW).
  { intros ds' Hs. destruct (op_size ds' o) eqn:Ho; try discriminate.
    - eapply IH; exact Hs.
    - inversion Hs; subst. left. eapply op_size_panic; exact Ho. }
  destruct o as [n|id|id]; try (eapply Hstep; exact H).
  destruct (get_entry ds id) as [e|]; [|inversion H; auto].
  destruct (has_copy_type e); [eapply Hstep; exact H|].
  destruct (pointer_value off ofis (data_id_to_offset ds id)) as [v| | |] eqn:Hp; try discriminate.
  - eapply Hstep; exact H.
  - inversion H; subst. right. eapply pointer_value_panic; exact Hp.
Qed.

Lemma load_copy_len_panic ds id e s : load_copy_len ds id e = Panic s -> s = P_IMM12.
Proof. unfold load_copy_len. destruct (_ <=? _); intros H; inversion H; reflexivity. Qed.

Lemma emit_len_panic off ofis ds o s : emit_len off ofis ds o = Panic s -> s <> P_ASSERT_LEN.
Proof.
  destruct o as [k|id|id]; cbn [emit_len]; try discriminate.
  destruct (get_entry ds id) as [e|]; [|intros H; inversion H; subst; discriminate].
  destruct (has_copy_type e).
  - intros H. apply load_copy_len_panic in H. subst. discriminate.
  - destruct (_ <=? _); [|intros H; inversion H; subst; discriminate].
    destruct (pointer_value _ _ _) as [v| | |] eqn:Hp; try discriminate.
    + destruct (data_id_of_pointer ds v) as [pid|]; [|intros H; inversion H; subst; discriminate].
      destruct (get_entry ds pid) as [pe|]; [|intros H; inversion H; subst; discriminate].
      destruct (load_copy_len ds pid pe) as [m| | |] eqn:Hl; try discriminate.
      intros H. inversion H; subst. apply load_copy_len_panic in Hl. subst. discriminate.
    + intros H. inversion H; subst. apply pointer_value_panic in Hp. subst. discriminate.
Qed.

Lemma emit_all_panic off ds ops ofis em s : emit_all off ds ops ofis em = Panic s -> s <> P_ASSERT_LEN.
Proof.
  revert ofis em. induction ops as [|o r IH]; intros ofis em H; cbn [emit_all] in H; [discriminate|].
  destruct (emit_len off ofis ds o) as [n| | |] eqn:He; try discriminate.
  - destruct (op_size ds o) eqn:Ho; try discriminate.
    + eapply IH; exact H.
    + inversion H; subst. apply op_size_panic in Ho. subst. discriminate.
  - inversion H; subst. eapply emit_len_panic; exact He.
Qed.

Lemma code_len_consistent ops ds : stable ops ds -> to_bytecode ops ds <> Panic P_ASSERT_LEN.
Proof.
  intros Hst. unfold to_bytecode.
  destruct (sum_sizes ds ops 0) as [off0| | |] eqn:Hs; try discriminate.
  2:{ intros H. inversion H; subst. apply sum_sizes_panic in Hs. discriminate. }
  set (padded := negb (N.land off0 7 =? 0)).
  set (ops' := if padded then ops ++ [OFixed 4] else ops).
  set (off_ds := if padded then off0 + 4 else off0).
  assert (Hs' : sum_sizes ds ops' 0 = Ok off_ds).
  { subst ops' off_ds. destruct padded; [now apply sum_sizes_snoc | exact Hs]. }
  assert (Hst' : stable ops' ds).
  { subst ops'. destruct padded; [now apply stable_snoc | exact Hst]. }
  destruct (insert_pointers off_ds ops' ds 0) as [dsf| | |] eqn:Hi; try discriminate.
  2:{ intros H. inversion H; subst. apply insert_pointers_panic in Hi. destruct Hi; discriminate. }
  pose proof (insert_pointers_ext _ _ _ _ _ Hi) as Hext.
  destruct (emit_all off_ds dsf ops' 0 0) as [em| | |] eqn:He; try discriminate.
  2:{ intros H. inversion H; subst. apply emit_all_panic in He. congruence. }
  apply emit_all_is_sum in He.
  rewrite (sum_sizes_stable ops' ds dsf 0) in He by (intros o Ho; apply (Hst' dsf Hext o Ho)).
  rewrite Hs' in He. inversion He; subst. rewrite N.eqb_refl. discriminate.
Qed.

(* ---- the pointers looked up while emitting are the ones pre-inserted *)
Fixpoint ptrs_present (off : N) (pids : list (N * nat)) (ds0 : data_section) (ops : list op) (ofis : N) : Prop :=
  match ops with
  | [] => True
  | o :: r =>
    (match o with
     | OLoad id =>
       match get_entry ds0 id with
       | Some e => if has_copy_type e then True
                   else match pointer_value off ofis (data_id_to_offset ds0 id) with
                        | Ok v => assoc_find v pids <> None
                        | _ => True
                        end
       | None => True
       end
     | _ => True
     end) /\
    match op_size ds0 o with Ok n => ptrs_present off pids ds0 r (ofis + n) | _ => True end
  end.

Lemma append_pointer_keeps ds v w :
  assoc_find w (pointer_id ds) <> None -> assoc_find w (pointer_id (append_pointer ds v)) <> None.
Proof.
  unfold append_pointer, insert_data_value, new_word. cbn [e_name].
  destruct (position _ (nonconf ds)); cbn [pointer_id assoc_find snd]; destruct (v =? w); auto; discriminate.
Qed.
Lemma append_pointer_has ds v : assoc_find v (pointer_id (append_pointer ds v)) <> None.
Proof.
  unfold append_pointer, insert_data_value, new_word. cbn [e_name].
  destruct (position _ (nonconf ds)); cbn [pointer_id assoc_find snd]; rewrite N.eqb_refl; discriminate.
Qed.

Lemma insert_pointers_keeps off ops ds ofis dsf w :
  insert_pointers off ops ds ofis = Ok dsf ->
  assoc_find w (pointer_id ds) <> None -> assoc_find w (pointer_id dsf) <> None.
Proof.
  revert ds ofis. induction ops as [|o r IH]; intros ds ofis H Hw; cbn [insert_pointers] in H.
  - inversion H; subst. exact Hw.
  - assert (Hstep : forall ds', assoc_find w (pointer_id ds') <> None ->
             match op_size ds' o with Ok n => insert_pointers off r ds' (ofis + n) | Err c => Err c | Panic s => Panic s | OutOfFuel => OutOfFuel end = Ok dsf ->
             assoc_find w (pointer_id dsf) <> None).
    { intros ds' Hw' Hs. destruct (op_size ds' o); try discriminate. eapply IH; [exact Hs | exact Hw']. }
    destruct o as [n|id|id]; try (eapply Hstep; [exact Hw | exact H]).
    destruct (get_entry ds id) as [e|]; [|discriminate].
    destruct (has_copy_type e); [eapply Hstep; [exact Hw | exact H]|].
    destruct (pointer_value off ofis (data_id_to_offset ds id)) as [v| | |]; try discriminate.
    eapply Hstep; [apply append_pointer_keeps; exact Hw | exact H].
Qed.

(* under stability an entry keeps its copy-ness in every extension *)
Lemma stable_load_entry ops ds0 ds' id e0 :
  stable ops ds0 -> ext ds0 ds' -> In (OLoad id) ops -> get_entry ds0 id = Some e0 ->
  exists e', get_entry ds' id = Some e' /\ has_copy_type e' = has_copy_type e0.
Proof.
  intros Hst He Hin H0. destruct (Hst ds' He _ Hin) as [Hsz _]. cbn [op_size] in Hsz. rewrite H0 in Hsz.
  destruct (get_entry ds' id) as [e'|]; [|discriminate]. exists e'. split; [reflexivity|].
  destruct (has_copy_type e'), (has_copy_type e0); try reflexivity; inversion Hsz.
Qed.

Lemma insert_pointers_present off ds0 ops dsk ofis dsf :
  stable ops ds0 -> ext ds0 dsk -> insert_pointers off ops dsk ofis = Ok dsf ->
  ptrs_present off (pointer_id dsf) ds0 ops ofis.
Proof.
  revert dsk ofis. induction ops as [|o r IH]; intros dsk ofis Hst He H; [exact I|].
  pose proof (stable_tail _ _ _ Hst) as Hst_r.
  cbn [insert_pointers] in H. cbn [ptrs_present].
  assert (Hstep : forall ds', ext ds0 ds' ->
             match op_size ds' o with Ok n => insert_pointers off r ds' (ofis + n) | Err c => Err c | Panic s => Panic s | OutOfFuel => OutOfFuel end = Ok dsf ->
             match op_size ds0 o with Ok n => ptrs_present off (pointer_id dsf) ds0 r (ofis + n) | _ => True end).
  { intros ds' He' Hs. destruct (Hst ds' He' o (or_introl eq_refl)) as [Hsz _]. rewrite Hsz in Hs.
    destruct (op_size ds0 o); try exact I. eapply IH; [exact Hst_r | exact He' | exact Hs]. }
  destruct o as [n|id|id]; try (split; [exact I | eapply Hstep; [exact He | exact H]]).
  destruct (get_entry ds0 id) as [e0|] eqn:H0.
  - destruct (stable_load_entry _ _ _ _ _ Hst He (or_introl eq_refl) H0) as [ek [Hk Hc]].
    rewrite Hk, Hc in H. destruct (has_copy_type e0).
    + split; [exact I | eapply Hstep; [exact He | exact H]].
    + destruct (Hst dsk He _ (or_introl eq_refl)) as [_ Hoff]. rewrite (Hoff id eq_refl) in H.
      destruct (pointer_value off ofis (data_id_to_offset ds0 id)) as [v| | |]; try discriminate.
      assert (He2 : ext ds0 (append_pointer dsk v)) by (eapply ext_trans; [exact He | apply ext_append_pointer]).
      split; [|eapply Hstep; [exact He2 | exact H]].
      destruct (op_size (append_pointer dsk v) (OLoad id)) eqn:Hos; try discriminate.
      eapply insert_pointers_keeps; [exact H | apply append_pointer_has].
  - split; [exact I|]. cbn [op_size]. rewrite H0. exact I.
Qed.

Lemma emit_all_no_ptr_panic off ds0 dsf ops ofis em :
  stable ops ds0 -> ext ds0 dsf -> ptrs_present off (pointer_id dsf) ds0 ops ofis ->
  emit_all off dsf ops ofis em <> Panic P_PTR_LOOKUP.
Proof.
  revert ofis em. induction ops as [|o r IH]; intros ofis em Hst He Hp; cbn [emit_all]; [discriminate|].
  pose proof (stable_tail _ _ _ Hst) as Hst_r.
  destruct (Hst dsf He o (or_introl eq_refl)) as [Hsz Hoff].
  cbn [ptrs_present] in Hp. destruct Hp as [Hp1 Hp2].
  destruct (emit_len off ofis dsf o) as [n| | |] eqn:Hel; try discriminate.
  - rewrite Hsz. destruct (op_size ds0 o) eqn:Ho; try discriminate.
    + apply IH; assumption.
    + intros H. inversion H; subst. apply op_size_panic in Ho. discriminate.
  - intros H. inversion H; subst. clear H.
    destruct o as [k|id|id]; cbn [emit_len] in Hel; try discriminate.
    destruct (get_entry ds0 id) as [e0|] eqn:H0.
    + destruct (stable_load_entry _ _ _ _ _ Hst He (or_introl eq_refl) H0) as [ek [Hk Hc]].
      rewrite Hk, Hc in Hel. destruct (has_copy_type e0).
      * apply load_copy_len_panic in Hel. discriminate.
      * rewrite (Hoff id eq_refl) in Hel.
        destruct (_ <=? _); [|inversion Hel].
        destruct (pointer_value off ofis (data_id_to_offset ds0 id)) as [v| | |] eqn:Hpv; try discriminate.
        -- unfold data_id_of_pointer in Hel. destruct (assoc_find v (pointer_id dsf)) as [pi|]; [|congruence].
           cbn [option_map] in Hel. destruct (get_entry dsf (false, pi)) as [pe|]; [|inversion Hel].
           destruct (load_copy_len dsf (false, pi) pe) eqn:Hl; try discriminate.
           inversion Hel; subst. apply load_copy_len_panic in Hl. discriminate.
        -- inversion Hel; subst. apply pointer_value_panic in Hpv. discriminate.
    + cbn [op_size] in Hsz. rewrite H0 in Hsz. destruct (get_entry dsf id); [discriminate|]. inversion Hel.
Qed.

Lemma pointer_lookup_consistent ops ds : stable ops ds -> to_bytecode ops ds <> Panic P_PTR_LOOKUP.
Proof.
  intros Hst. unfold to_bytecode.
  destruct (sum_sizes ds ops 0) as [off0| | |] eqn:Hs; try discriminate.
  2:{ intros H. inversion H; subst. apply sum_sizes_panic in Hs. discriminate. }
  set (padded := negb (N.land off0 7 =? 0)).
  set (ops' := if padded then ops ++ [OFixed 4] else ops).
  set (off_ds := if padded then off0 + 4 else off0).
  assert (Hst' : stable ops' ds).
  { subst ops'. destruct padded; [now apply stable_snoc | exact Hst]. }
  destruct (insert_pointers off_ds ops' ds 0) as [dsf| | |] eqn:Hi; try discriminate.
  2:{ intros H. inversion H; subst. apply insert_pointers_panic in Hi. destruct Hi; discriminate. }
  pose proof (insert_pointers_ext _ _ _ _ _ Hi) as Hext.
  pose proof (insert_pointers_present _ _ _ _ _ _ Hst' (ext_refl ds) Hi) as Hpp.
  destruct (emit_all off_ds dsf ops' 0 0) as [em| | |] eqn:He; try discriminate.
  - destruct (em =? off_ds); discriminate.
  - intros H. inversion H; subst. exact (emit_all_no_ptr_panic off_ds ds dsf ops' 0 0 Hst' Hext Hpp He).
Qed.

(* ---- statements at the level of the emitted file: code ++ serialized data section *)
Lemma patch_local_ds ds i e new :
  nth_error (all_entries ds) i = Some e -> nlen new <= nlen (to_bytes e) ->
  let s' := patch (serialize ds) (abs_offset ds i) new in
  nlen s' = nlen (serialize ds) /\
  sub s' (abs_offset ds i) (nlen new) = new /\
  (forall j ej, j <> i -> nth_error (all_entries ds) j = Some ej ->
     sub s' (abs_offset ds j) (nlen (to_bytes ej)) = to_bytes ej).
Proof.
  intros Hi Hn. cbv zeta. rewrite serialize_body. unfold abs_offset.
  destruct (patch_this_entry (all_entries ds) i e new Hi Hn) as [H1 H2].
  split; [exact H1|]. split; [exact H2|].
  intros j ej Hne Hj. exact (patch_other_entry (all_entries ds) i e new j ej Hi Hn Hne Hj).
Qed.

Lemma patch_local_file ds code i e new :
  nth_error (all_entries ds) i = Some e -> nlen new <= nlen (to_bytes e) ->
  let file := code ++ serialize ds in
  let f' := patch file (nlen code + abs_offset ds i) new in
  nlen f' = nlen file /\ ntake (nlen code) f' = code /\
  sub f' (nlen code + abs_offset ds i) (nlen new) = new /\
  (forall j ej, j <> i -> nth_error (all_entries ds) j = Some ej ->
     sub f' (nlen code + abs_offset ds j) (nlen (to_bytes ej)) = to_bytes ej).
Proof.
  intros Hi Hn. cbv zeta.
  destruct (patch_local_ds ds i e new Hi Hn) as [H1 [H2 H3]].
  rewrite patch_in_right by lia.
  replace (nlen code + abs_offset ds i - nlen code) with (abs_offset ds i) by lia.
  split; [rewrite !nlen_app; lia|]. split; [apply ntake_app_exact|].
  split; [rewrite sub_app_right; exact H2|].
  intros j ej Hne Hj. rewrite sub_app_right. now apply H3.
Qed.

Lemma reported_offset_correct ops ds bi nm off :
  to_bytecode ops ds = Ok bi -> In (nm, off) (bi_named bi) ->
  exists i e, nth_error (conf (bi_ds bi)) i = Some e /\ e_name e = Some nm /\
    off = bi_code_len bi + abs_offset (bi_ds bi) (i + length (nonconf (bi_ds bi))) /\
    forall code, nlen code = bi_code_len bi ->
      sub (bytecode code bi) off (nlen (to_bytes e)) = to_bytes e.
Proof.
  intros Hok Hin. rewrite (to_bytecode_ok_inv _ _ _ Hok) in Hin.
  destruct (named_offsets_in _ _ _ _ _ _ Hin) as [i [e [H1 [H2 H3]]]]. cbn [Nat.add] in H3.
  exists i, e. split; [exact H1|]. split; [exact H2|]. split; [exact H3|].
  intros code Hc. subst off. unfold bytecode. rewrite <- Hc, sub_app_right.
  apply entry_at_offset. now rewrite nth_error_conf.
Qed.

Lemma reported_complete ops ds bi i e nm :
  to_bytecode ops ds = Ok bi -> nth_error (conf (bi_ds bi)) i = Some e -> e_name e = Some nm ->
  In (nm, bi_code_len bi + abs_offset (bi_ds bi) (i + length (nonconf (bi_ds bi)))) (bi_named bi).
Proof.
  intros Hok Hi Hn. rewrite (to_bytecode_ok_inv _ _ _ Hok).
  exact (named_offsets_complete _ _ 0 _ _ _ _ Hi Hn).
Qed.

(* to_bytecode never changes the configurables *)
Lemma to_bytecode_conf ops ds bi : to_bytecode ops ds = Ok bi -> conf (bi_ds bi) = conf ds.
Proof.
  unfold to_bytecode. destruct (sum_sizes ds ops 0); try discriminate.
  destruct (insert_pointers _ _ ds 0) eqn:Hi; try discriminate.
  destruct (emit_all _ _ _ 0 0) as [em| | |]; try discriminate.
  match goal with |- context [if ?a =? ?b then Ok _ else _] => destruct (a =? b) end; [|discriminate].
  intros H. inversion H; subst. cbn.
  apply insert_pointers_ext in Hi. apply Hi.
Qed.
