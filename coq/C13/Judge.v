(* C13 — judgement of one data_section dump of the real compiler, and of one end-to-end observation. *)
From SwayV Require Import Base.Util Layout.Bytes Layout.Abi C13.Model C13.Spec.
Local Open Scope N_scope.

Record dump := Dump {
  d_nonconf : list entry;
  d_conf : list entry;
  d_entry_offsets : list N;          (* absolute_idx_to_offset(i), i = 0..n *)
  d_entry_bytes : list (list N);     (* Entry::to_bytes per entry *)
  d_serialized : list N;             (* serialize_to_bytes() *)
  d_op_sizes_sum : N;                (* sum of op_size_in_bytes over the final ops *)
  d_off_ds : N;                      (* offset_to_data_section_in_bytes *)
  d_named : list N                   (* reported offset of each configurable, in `configurables` order *)
}.

Fixpoint seqn (n : nat) : list nat := match n with O => [] | S k => seqn k ++ [k] end.

Fixpoint lists_eqb (a b : list (list N)) : bool :=
  match a, b with
  | [], [] => true
  | x :: a', y :: b' => list_eqb x y && lists_eqb a' b'
  | _, _ => false
  end.

(* 0 agree
   1 VIOLATION  a reported offset does not select the configurable's bytes in the emitted section
   2 VIOLATION  sum of op sizes differs from the data-section offset (would shift every address)
   3 corr: Entry::to_bytes differs from the model      4 corr: entry offsets differ
   5 corr: serialized bytes differ                     6 corr: reported offsets differ from code_len + offset_of *)
Definition judge (d : dump) : N :=
  let ds := DS (d_nonconf d) (d_conf d) [] in
  let es := all_entries ds in
  let n := length es in
  let rel := map (fun o => o - d_off_ds d) (d_named d) in
  let conf_bytes := skipn (length (d_nonconf d)) (d_entry_bytes d) in
  if negb (forallb (fun o => d_off_ds d <=? o) (d_named d) && reported_okb (d_serialized d) rel conf_bytes) then 1
  else if negb (d_op_sizes_sum d =? d_off_ds d) then 2
  else if negb (lists_eqb (map to_bytes es) (d_entry_bytes d)) then 3
  else if negb (list_eqb (map (abs_offset ds) (seqn (S n))) (d_entry_offsets d)) then 4
  else if negb (list_eqb (serialize ds) (d_serialized d)) then 5
  else if negb (list_eqb (map (fun i => d_off_ds d + abs_offset ds (i + length (d_nonconf d))) (seqn (length (d_conf d)))) (d_named d)) then 6
  else 0.

(* end-to-end: 0 ok, 1 VIOLATION (observed values differ from expected) *)
Definition judge_e2e (expected observed : list (list N)) : N :=
  if observed_okb expected observed then 0 else 1.

(* end-to-end with the canonical encoding: configurables (type, compiled-in value); optionally one is
   patched with `patch_bytes` claimed to encode `newv`.
   0 ok   1 VIOLATION observed logs differ from expected   8 machinery: patch bytes are not enc newv
   9 machinery: ill-typed generated value *)
Fixpoint replace_nth {A} (l : list A) (i : nat) (x : A) : list A :=
  match l, i with
  | [], _ => []
  | _ :: r, O => x :: r
  | a :: r, S k => a :: replace_nth r k x
  end.

(* predicates cannot log: their tests revert with this checksum of encode(C_i) *)
Definition hash_bytes (bs : list N) : N := fold_left (fun h b => (h * 31 + b) mod 1000000007) bs 7.

Definition judge_run (hashed : bool) (cfgs : list (aty * aval)) (p : option (nat * aval * list N)) (observed : list (list N)) : N :=
  let cfgs' := match p with
               | Some (i, nv, _) => match nth_error cfgs i with Some (t, _) => replace_nth cfgs i (t, nv) | None => cfgs end
               | None => cfgs end in
  if negb (forallb (fun c => wtb (fst c) (snd c)) cfgs') then 9
  else if negb (match p with
                | Some (i, nv, pb) => match nth_error cfgs i with Some (t, _) => list_eqb (enc t nv) pb | None => false end
                | None => true end) then 8
  else judge_e2e (map (fun c => if hashed then [hash_bytes (enc (fst c) (snd c))] else enc (fst c) (snd c)) cfgs') observed.
