(* C06 — the arms as they were on the unchanged tree (commit 123f9c2), kept for the refutation
   witnesses of the totality theorem.  Three differences from the repaired code:
     * const_eval.rs, (U256, U256) block:  Intrinsic::Mod => Some(arg1.rem(arg2))      [BigUint % 0 panics]
     * const_eval.rs, Gt / Lt: no (B256, B256) arm                                      [unreachable!()]
     * u256.rs, checked_shl: no early exit for shifts >= 256                            [allocates n/64 words]
   Everything else is the generated table. *)
From Coq Require Import NArith List Bool.
From SwayV Require Import Vm.Alu C06.Types Generated.C06Facts C06.Model.
Local Open Scope N_scope.

Definition orig_ce_binop_fn (op : binop) (lt rt : tag) : option fn :=
  match op, lt, rt with
  | Mod, TU256, TU256 => Some F_rem
  | _, _, _ => ce_binop_fn op lt rt
  end.

Definition orig_ce_cmp_fn (p : pred) (t : tag) : option pred :=
  match t with TB256 => None | _ => ce_cmp_fn p t end.

Definition orig_checked_shl (l r : N) : res :=
  if l =? 0 then Value 0
  else if SHL_ABORT_WORDS <=? r / 64 then RPanic
  else if N.size (N.shiftl l r) <=? 256 then Value (N.shiftl l r) else NoValue.

Definition orig_apply_fn (f : fn) (lt : tag) (l r : N) : res :=
  match f, lt with
  | F_checked_shl, (TU256 | TB256) => orig_checked_shl l r
  | _, _ => apply_fn f lt l r
  end.

Definition orig_ce_binop (op : binop) (lk rk : kind) (l r : N) : res :=
  match orig_ce_binop_fn op (tag_of lk) (tag_of rk) with
  | Some f => orig_apply_fn f (tag_of lk) l r
  | None => RPanic
  end.

Definition orig_ce_cmp (p : pred) (k : kind) (l r : N) : res :=
  match p with
  | PEq => Value (cmp_val PEq l r)
  | _ => match orig_ce_cmp_fn p (tag_of k) with
         | Some q => Value (cmp_val q l r)
         | None => RPanic
         end
  end.

Definition orig_fold_binop (op : binop) (lk rk : kind) (l r : N) : res :=
  match fold_binop_fn op (tag_of lk) (tag_of rk) with
  | Some f => orig_apply_fn f (tag_of lk) l r
  | None => NoValue
  end.
