(* C06 — vocabulary shared by the generated facts (Generated/C06Facts.v) and the model. *)
From Coq Require Export NArith List Bool.
Export ListNotations.
Local Open Scope N_scope.

(* IR types that constants of the arithmetic fragment can have. [KU w]: uint of width w (8,16,32,64). *)
Inductive kind := KU (w : N) | KU256 | KB256 | KBool.
(* The ConstantValue constructor the Rust match arms dispatch on. *)
Inductive tag := TUint | TU256 | TB256 | TBool.
Definition tag_of (k : kind) : tag :=
  match k with KU _ => TUint | KU256 => TU256 | KB256 => TB256 | KBool => TBool end.

Inductive binop := Add | Sub | Mul | Div | Mod | And | Or | Xor | Lsh | Rsh.
Inductive pred := PEq | PLt | PGt.
Inductive side := OnLeft | OnRight.      (* where the constant sits in remove_useless_binary_op *)

(* What a compile-time evaluator does with one operation:
   Value v  : substitutes the constant v
   NoValue  : substitutes nothing (the folder leaves the instruction; const-eval reports the clean
              error "Could not evaluate initializer to a const declaration")
   RPanic   : the Rust code panics / aborts (compiler crash) *)
Inductive res := Value (v : N) | NoValue | RPanic.

(* The Rust function an arm calls on its operands (names as in the source).
   F_u32_checked_shl/shr stand for  u32::try_from(r).ok().and_then(|r| l.checked_shX(r)). *)
Inductive fn :=
| F_checked_add | F_checked_sub | F_checked_mul | F_checked_div | F_checked_rem
| F_wrapping_add | F_wrapping_sub | F_wrapping_mul
| F_div | F_rem
| F_bitand | F_bitor | F_bitxor
| F_checked_shl | F_shr
| F_u32_checked_shl | F_u32_checked_shr.

(* How a wide (256-bit) IR operation is lowered: instruction + its immediate flags. *)
Inductive wide_math := WAdd | WSub | WNot | WOr | WXor | WAnd | WLsh | WRsh.
Inductive wide_instr :=
| WI_op (m : wide_math) (indirect_rhs : bool)     (* WQOP *)
| WI_mul (indirect_lhs indirect_rhs : bool)       (* WQML *)
| WI_div (indirect_rhs : bool)                    (* WQDV *)
| WI_addmod.                                      (* WQAM a, zero, b  (misc_demotion supplies the zero) *)
Inductive wide_cmp_mode := WEquality | WLessThan | WGreaterThan.

(* 64-bit instruction names as scraped (mapped to Vm.Alu.op64 in the model). *)
Inductive instr64 := I_ADD | I_SUB | I_MUL | I_DIV | I_MOD | I_AND | I_OR | I_XOR | I_SLL | I_SRL
                   | I_EQ | I_LT | I_GT.
