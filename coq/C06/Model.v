(* C06 — executable models.  NO proofs here.
   Fold.*  sway-ir/src/optimize/constants.rs (combine_binary_op, combine_unary_op, combine_cmp,
           remove_useless_binary_op), arm table from Generated/C06Facts.v
   CE.*    sway-core/src/ir_generation/const_eval.rs (const_eval_intrinsic), arm table generated
   Run.*   the instruction(s) fuel_asm_builder.rs selects (table generated) executed in Vm.Alu
   The semantics of the Rust integer functions the arms call is in [apply_fn]. *)
From Coq Require Import NArith List Bool.
From SwayV Require Import Vm.Alu C06.Types Generated.C06Facts.
Local Open Scope N_scope.

Definition P64 : N := 2 ^ 64.
Definition P256 : N := 2 ^ 256.

(* ---------------------------------------------------------------- Rust integer functions *)
(* u64 methods (operands are u64 values). *)
Definition u64_fn (f : fn) (l r : N) : res :=
  match f with
  | F_checked_add => if l + r <? P64 then Value (l + r) else NoValue
  | F_checked_sub => if r <=? l then Value (l - r) else NoValue
  | F_checked_mul => if l * r <? P64 then Value (l * r) else NoValue
  | F_checked_div => if r =? 0 then NoValue else Value (l / r)
  | F_checked_rem => if r =? 0 then NoValue else Value (l mod r)
  | F_wrapping_add => Value ((l + r) mod P64)
  | F_wrapping_sub => Value ((P64 + l - r) mod P64)
  | F_wrapping_mul => Value ((l * r) mod P64)
  | F_div => if r =? 0 then RPanic else Value (l / r)
  | F_rem => if r =? 0 then RPanic else Value (l mod r)
  | F_bitand => Value (N.land l r)
  | F_bitor => Value (N.lor l r)
  | F_bitxor => Value (N.lxor l r)
  (* u32::try_from(r).ok().and_then(|r| l.checked_shX(r)) : None when r > u32::MAX or r >= 64;
     bits shifted out are dropped silently *)
  | F_u32_checked_shl => if (r <? 2 ^ 32) && (r <? 64) then Value ((l * 2 ^ r) mod P64) else NoValue
  | F_u32_checked_shr => if (r <? 2 ^ 32) && (r <? 64) then Value (l / 2 ^ r) else NoValue
  (* not methods of u64 with these argument types *)
  | F_checked_shl | F_shr => RPanic
  end.

(* BigUint >> n, as num-bigint computes it: zero as soon as n reaches the bit length (this is
   equal to N.shiftr for every input — Proofs.big_shr_eq — and stays evaluable for n near 2^64). *)
Definition big_shr (l r : N) : N := if N.size l <=? r then 0 else N.shiftr l r.

(* words a BigUint << n allocates before anything is checked; beyond this many the allocation
   cannot succeed (2^32 words = 32 GiB; observed on the unchanged tree: 2^26 words take 26 s,
   2^34 and 2^58 words abort the process with "memory allocation failed") *)
Definition SHL_ABORT_WORDS : N := 2 ^ 32.

(* sway_types::u256::U256 methods (a BigUint inside: results are not reduced, the checked_* ones
   test `bits() <= N`).  The rhs of checked_shl / shr is a u64. *)
Definition u256_fn (f : fn) (l r : N) : res :=
  match f with
  | F_checked_add => if N.size (l + r) <=? u256_checked_add_bits then Value (l + r) else NoValue
  | F_checked_sub => if r <=? l then Value (l - r) else NoValue
  | F_checked_mul => if N.size (l * r) <=? u256_checked_mul_bits then Value (l * r) else NoValue
  | F_checked_div => if r =? 0 then NoValue else Value (l / r)
  | F_checked_rem => if r =? 0 then NoValue else Value (l mod r)
  | F_rem => if r =? 0 then RPanic else Value (l mod r)       (* BigUint % 0 panics *)
  | F_div => if r =? 0 then RPanic else Value (l / r)
  | F_bitand => Value (N.land l r)
  | F_bitor => Value (N.lor l r)
  | F_bitxor => Value (N.lxor l r)
  | F_shr => Value (big_shr l r)
  | F_checked_shl =>
      match u256_checked_shl_guard with
      | Some g =>
          if g <=? r then (if l =? 0 then Value 0 else NoValue)
          else if N.size (N.shiftl l r) <=? u256_checked_shl_bits then Value (N.shiftl l r) else NoValue
      | None =>
          (* without the early exit the shifted BigUint is materialised first: r/64 words are
             allocated (a zero stays zero without allocating) *)
          if l =? 0 then Value 0
          else if SHL_ABORT_WORDS <=? r / 64 then RPanic
          else if N.size (N.shiftl l r) <=? u256_checked_shl_bits then Value (N.shiftl l r) else NoValue
      end
  | F_wrapping_add | F_wrapping_sub | F_wrapping_mul | F_u32_checked_shl | F_u32_checked_shr => RPanic
  end.

Definition apply_fn (f : fn) (lt : tag) (l r : N) : res :=
  match lt with
  | TUint => u64_fn f l r
  | TU256 | TB256 => u256_fn f l r
  | TBool => RPanic
  end.

Definition lookupN (k : N) (l : list (N * N)) : option N :=
  match find (fun p => fst p =? k) l with Some p => Some (snd p) | None => None end.

Definition cmp_val (p : pred) (l r : N) : N :=
  match p with PEq => N.b2n (l =? r) | PLt => N.b2n (l <? r) | PGt => N.b2n (r <? l) end.

(* U256's Not: to_be_bytes() asserts the value fits 32 bytes, then every byte is complemented. *)
Definition u256_not (v : N) : res := if v <? P256 then Value (N.lnot v 256) else RPanic.

(* ---------------------------------------------------------------- constants.rs *)
Module Fold.
  Definition binop (op : binop) (lk rk : kind) (l r : N) : res :=
    match fold_binop_fn op (tag_of lk) (tag_of rk) with
    | Some f => apply_fn f (tag_of lk) l r
    | None => NoValue
    end.

  (* (Not, Uint(v)): `(!v) & max` with max chosen by the type's width; other widths: None *)
  Definition unop_not (k : kind) (v : N) : res :=
    match k with
    | KU w => match lookupN w fold_not_mask with
              | Some m => Value (N.land (N.lnot v 64) m)
              | None => NoValue
              end
    | KBool => NoValue
    | _ => if fold_not_wide (tag_of k) then u256_not v else NoValue
    end.

  (* Equal compares the two unique Constant handles: same type assumed (IR verifier), so it is
     value equality for every kind.  Gt/Lt: arms per kind, anything else unreachable!(). *)
  Definition cmp (p : pred) (k : kind) (l r : N) : res :=
    match p with
    | PEq => if fold_eq_any_kind then Value (cmp_val PEq l r) else NoValue
    | _ => match fold_cmp_fn p (tag_of k) with
           | Some q => Value (cmp_val q l r)
           | None => RPanic
           end
    end.

  (* remove_useless_binary_op: does the pass replace `op c x` / `op x c` by x ? *)
  Definition useless (op : Types.binop) (s : side) (c : N) : bool :=
    existsb (fun e => match e with (o, s', c') =>
               (match o, op with
                | Add, Add | Sub, Sub | Mul, Mul | Div, Div | Mod, Mod | And, And | Or, Or
                | Xor, Xor | Lsh, Lsh | Rsh, Rsh => true | _, _ => false end)
               && (match s, s' with OnLeft, OnLeft | OnRight, OnRight => true | _, _ => false end)
               && (c =? c') end) useless_table.
End Fold.

(* ---------------------------------------------------------------- const_eval.rs *)
Module CE.
  (* operand kinds without a block: panic!("Type checker allowed incorrect args to binary op") *)
  Definition binop (op : binop) (lk rk : kind) (l r : N) : res :=
    match ce_binop_fn op (tag_of lk) (tag_of rk) with
    | Some f => apply_fn f (tag_of lk) l r
    | None => RPanic
    end.

  (* Uint: `!(n as uW) as u64` (W from the type's width; other widths unreachable!()) *)
  Definition unop_not (k : kind) (v : N) : res :=
    match k with
    | KU w => match lookupN w ce_not_cast with
              | Some c => Value (N.lnot (v mod 2 ^ c) c)
              | None => RPanic
              end
    | KBool => RPanic
    | _ => if ce_not_wide (tag_of k) then u256_not v else RPanic
    end.

  Definition cmp (p : pred) (k : kind) (l r : N) : res :=
    match p with
    | PEq => if ce_eq_any_kind then Value (cmp_val PEq l r) else NoValue
    | _ => match ce_cmp_fn p (tag_of k) with
           | Some q => Value (cmp_val q l r)
           | None => RPanic
           end
    end.
End CE.

(* ---------------------------------------------------------------- run time *)
Module Run.
  Definition op64_of (i : instr64) : op64 :=
    match i with
    | I_ADD => ADD | I_SUB => SUB | I_MUL => MUL | I_DIV => DIV | I_MOD => MOD | I_AND => AND
    | I_OR => OR | I_XOR => XOR | I_SLL => SLL | I_SRL => SRL | I_EQ => EQ | I_LT => LT | I_GT => GT
    end.
  Definition math_of (m : wide_math) : math_op :=
    match m with
    | WAdd => MADD | WSub => MSUB | WNot => MNOT | WOr => MOR | WXor => MXOR | WAnd => MAND
    | WLsh => MSHL | WRsh => MSHR
    end.
  Definition cmp_mode_of (m : wide_cmp_mode) : cmp_mode :=
    match m with WEquality => CEQ | WLessThan => CLT | WGreaterThan => CGT end.

  Definition is_wide (k : kind) : bool := match k with KU256 | KB256 => true | _ => false end.

  Definition wide (i : wide_instr) (l r : N) : outcome N :=
    match i with
    | WI_op m _ => wval (wq_op default_flags (math_of m) l r)
    | WI_mul _ _ => wval (wq_mul default_flags l r)
    | WI_div _ => wval (wq_div default_flags l r)
    | WI_addmod => wval (wq_addmod default_flags l 0 r)
    end.

  (* every Uint width (and bool) is one 64-bit instruction; u256/b256 one wide instruction *)
  Definition binop (op : binop) (lk rk : kind) (l r : N) : outcome N :=
    if is_wide lk then wide (run_wide op) l r
    else vm_bin (op64_of (run_instr64 op)) l r.

  Definition unop_not (k : kind) (v : N) : outcome N :=
    if is_wide k then wval (wq_op default_flags MNOT v 0) else Val (vm_not v).

  Definition cmp (p : pred) (k : kind) (l r : N) : outcome N :=
    if is_wide k then Val (wq_cmp (cmp_mode_of (run_wide_cmp p)) l r)
    else vm_bin (op64_of (run_cmp64 p)) l r.

  (* what sway-lib-std's `!` does on u8/u16/u32: NOT followed by AND with the type's max *)
  Definition not_then_mask (w : N) (v : N) : outcome N :=
    match vm_and (vm_not v) (N.ones w) with Val x => Val x | VmPanic r => VmPanic r end.
End Run.
