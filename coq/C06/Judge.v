(* C06 — per-case judgement of what the real compiler / VM did, evaluated by vm_compute. *)
From Coq Require Import NArith List Bool.
From SwayV Require Import Vm.Alu C06.Types Generated.C06Facts C06.Model C06.Spec.
Local Open Scope N_scope.

Inductive opr := OBin (op : binop) (lk rk : kind) (l r : N)
               | ONot (k : kind) (v : N)
               | OCmp (p : pred) (k : kind) (l r : N).

(* observed compile-time result: IVal v | INone (not folded / clean compile error) | IPanic | IUnk (not observed) *)
Inductive iobs := IVal (v : N) | INone | IPanic | IUnk.
(* observed run-time result: value | revert (any VM panic / revert) | not observed *)
Inductive robs := RVal (v : N) | RRevert | RUnk.

Definition model_fold (o : opr) : res :=
  match o with OBin op lk rk l r => Fold.binop op lk rk l r | ONot k v => Fold.unop_not k v
             | OCmp p k l r => Fold.cmp p k l r end.
Definition model_ce (o : opr) : res :=
  match o with OBin op lk rk l r => CE.binop op lk rk l r | ONot k v => CE.unop_not k v
             | OCmp p k l r => CE.cmp p k l r end.
Definition model_run (o : opr) : outcome N :=
  match o with OBin op lk rk l r => Run.binop op lk rk l r | ONot k v => Run.unop_not k v
             | OCmp p k l r => Run.cmp p k l r end.

Definition res_matches (m : res) (i : iobs) : bool :=
  match m, i with
  | Value a, IVal b => a =? b | NoValue, INone => true | RPanic, IPanic => true | _, IUnk => true
  | _, _ => false
  end.
Definition run_matches (m : outcome N) (r : robs) : bool :=
  match m, r with
  | Val a, RVal b => a =? b | VmPanic _, RRevert => true | _, RUnk => true | _, _ => false
  end.
Definition to_res (i : iobs) : option res :=
  match i with IVal v => Some (Value v) | INone => Some NoValue | IPanic => Some RPanic | IUnk => None end.
Definition to_out (r : robs) : option (outcome N) :=
  match r with RVal v => Some (Val v) | RRevert => Some (VmPanic ArithmeticError) | RUnk => None end.

(* Codes:
   0  everything observed agrees with the models and the property holds on this case
   2/3/5  VIOLATION by the oracle on the OBSERVED behaviour (substituted value where the run time
          reverts / differing values / compiler panic); +10 when the compile-time side is const-eval
          (12, 13, 15), plain when it is the folder
   20 the folder differs from Fold.*  (correspondence)      21 const-eval differs from CE.*
   22 the VM differs from Run.* (Vm.Alu correspondence) *)
Definition judge (o : opr) (fold ce : iobs) (run : robs) : N :=
  let viol (ct : iobs) :=
    match to_res ct with
    | None => 0
    | Some c => match to_out run with
                | Some r => oracle c r
                | None => match c with RPanic => 5 | _ => 0 end
                end
    end in
  let vf := viol fold in
  let vc := viol ce in
  if negb (vf =? 0) then vf
  else if negb (vc =? 0) then 10 + vc
  else if negb (res_matches (model_fold o) fold) then 20
  else if negb (res_matches (model_ce o) ce) then 21
  else if negb (run_matches (model_run o) run) then 22
  else 0.

Definition judge_all (cs : list (opr * iobs * iobs * robs)) : list N :=
  map (fun c => match c with (o, f, c', r) => judge o f c' r end) cs.

(* model outputs, for reporting *)
Definition show (o : opr) : res * res * outcome N := (model_fold o, model_ce o, model_run o).
