(* C06 — what "compile-time evaluation agrees with run-time evaluation" means, as Props and as the
   boolean oracle the check applies to what the real compiler and the real VM did. *)
From Coq Require Import NArith List Bool.
From SwayV Require Import Vm.Alu C06.Types C06.Model.
Local Open Scope N_scope.

(* A value the VM can hold for an IR value of this kind: one register (every Uint width and bool live
   in a 64-bit register) or a 32-byte memory word. *)
Definition valid (k : kind) (v : N) : Prop :=
  match k with KU _ | KBool => v < 2 ^ 64 | KU256 | KB256 => v < 2 ^ 256 end.

(* The stronger condition source-level values satisfy: the value fits its declared width. *)
Definition width_valid (k : kind) (v : N) : Prop :=
  match k with KU w => v < 2 ^ w | KBool => v < 2 | KU256 | KB256 => v < 2 ^ 256 end.

Definition std_width (w : N) : bool := (w =? 8) || (w =? 16) || (w =? 32) || (w =? 64).
Definition wf_kind (k : kind) : bool := match k with KU w => std_width w | _ => true end.

Definition is_uint (k : kind) : bool := match k with KU _ => true | _ => false end.
Definition kind_eqb (a b : kind) : bool :=
  match a, b with
  | KU x, KU y => x =? y | KU256, KU256 | KB256, KB256 | KBool, KBool => true | _, _ => false
  end.

(* What the type checker (intrinsic_function.rs) and the IR verifier let through. *)
Definition typechecks_bin (op : binop) (lk rk : kind) : bool :=
  wf_kind lk && wf_kind rk &&
  match op with
  | Add | Sub | Mul | Div | Mod => kind_eqb lk rk && match lk with KU _ | KU256 => true | _ => false end
  | And | Or | Xor => kind_eqb lk rk && match lk with KU _ | KU256 | KB256 => true | _ => false end
  | Lsh | Rsh => match lk with KU _ | KU256 | KB256 => true | _ => false end
                 && match rk with KU w => w =? 64 | _ => false end
  end.
Definition typechecks_cmp (p : pred) (k : kind) : bool :=
  wf_kind k && match p with PEq => true | _ => match k with KBool => false | _ => true end end.
Definition typechecks_not (k : kind) : bool :=
  wf_kind k && match k with KBool => false | _ => true end.

(* KNOWN FINDING (KNOWN_FINDINGS, keys not_u8 / not_u16 / not_u32): `not` on a Uint narrower than 64
   bits is evaluated at compile time within the width, at run time on the whole register. *)
Definition known_not_narrow (k : kind) : bool :=
  match k with KU w => negb (w =? 64) | _ => false end.

(* ---- the oracle: compile-time result against run-time result of the same operation ---------- *)
(* 0 agree (same value, or nothing substituted)
   2 VIOLATION a value was substituted where the run-time evaluation reverts
   3 VIOLATION the substituted value differs from the run-time value
   5 VIOLATION the compiler panicked *)
Definition oracle (ct : res) (rt : outcome N) : N :=
  match ct, rt with
  | RPanic, _ => 5
  | NoValue, _ => 0
  | Value _, VmPanic _ => 2
  | Value v, Val v' => if v =? v' then 0 else 3
  end.
