(* C06 — lemmas and proofs. *)
From Coq Require Import NArith ZArith Lia List Bool.
From SwayV Require Import Vm.Alu Vm.AluProofs C06.Types Generated.C06Facts C06.Model C06.Spec C06.Orig.
Local Open Scope N_scope.

(* ------------------------------------------------------------------ helpers *)
Lemma size_le_iff x n : N.size x <= n <-> x < 2 ^ n.
Proof.
  destruct (N.eq_dec x 0) as [-> | Hx].
  - cbn. pose proof (pow2_pos n). lia.
  - rewrite N.size_log2 by exact Hx. rewrite N.le_succ_l.
    symmetry. apply N.log2_lt_pow2. lia.
Qed.

Lemma size_leb x n : (N.size x <=? n) = (x <? 2 ^ n).
Proof.
  destruct (N.leb_spec (N.size x) n) as [H | H]; destruct (N.ltb_spec x (2 ^ n)) as [H' | H'];
    try reflexivity.
  - apply size_le_iff in H. lia.
  - apply size_le_iff in H'. lia.
Qed.

Lemma big_shr_eq l r : big_shr l r = N.shiftr l r.
Proof.
  unfold big_shr. destruct (N.leb_spec (N.size l) r) as [H | H]; [|reflexivity].
  apply size_le_iff in H. rewrite N.shiftr_div_pow2. symmetry. apply N.div_small. exact H.
Qed.

Lemma P64_eq : P64 = 2 ^ 64. Proof. reflexivity. Qed.
Lemma P256_eq : P256 = 2 ^ 256. Proof. reflexivity. Qed.

Lemma lt_2_32_of_lt_64 r : r < 64 -> r < 2 ^ 32.
Proof. intros H. change (2 ^ 32) with 4294967296. lia. Qed.

(* ------------------------------------------------------------------ u64 arms vs 64-bit instructions *)
Definition compat64 (f : fn) (i : op64) : bool :=
  match f, i with
  | F_checked_add, ADD | F_checked_sub, SUB | F_checked_mul, MUL | F_checked_div, DIV
  | F_checked_rem, MOD | F_bitand, AND | F_bitor, OR | F_bitxor, XOR
  | F_u32_checked_shl, SLL | F_u32_checked_shr, SRL => true
  | _, _ => false
  end.

Lemma u64_agree f i l r v : l < 2 ^ 64 -> r < 2 ^ 64 -> compat64 f i = true ->
  u64_fn f l r = Value v -> vm_bin i l r = Val v.
Proof.
  intros Hl Hr Hc H. destruct f; destruct i; try discriminate Hc; cbn [u64_fn] in H.
  - destruct (N.ltb_spec (l + r) P64) as [Hs | Hs]; inversion H; subst. apply add_ok. exact Hs.
  - destruct (N.leb_spec r l) as [Hs | Hs]; inversion H; subst. apply sub_ok; assumption.
  - destruct (N.ltb_spec (l * r) P64) as [Hs | Hs]; inversion H; subst. apply mul_ok. exact Hs.
  - destruct (N.eqb_spec r 0) as [Hs | Hs]; inversion H; subst. apply div_ok. exact Hs.
  - destruct (N.eqb_spec r 0) as [Hs | Hs]; inversion H; subst. apply mod_ok. exact Hs.
  - inversion H; subst. reflexivity.
  - inversion H; subst. reflexivity.
  - inversion H; subst. reflexivity.
  - destruct (r <? 2 ^ 32); cbn [andb] in H; [|discriminate].
    destruct (N.ltb_spec r 64) as [Hs | Hs]; inversion H; subst. apply sll_ok. exact Hs.
  - destruct (r <? 2 ^ 32); cbn [andb] in H; [|discriminate].
    destruct (N.ltb_spec r 64) as [Hs | Hs]; inversion H; subst. apply srl_ok. exact Hs.
Qed.

Lemma u64_revert f i l r p : l < 2 ^ 64 -> r < 2 ^ 64 -> compat64 f i = true ->
  vm_bin i l r = VmPanic p -> u64_fn f l r = NoValue.
Proof.
  intros Hl Hr Hc H.
  destruct (vm_bin_panic_cases i l r p Hl Hr H) as
    [[-> [Hs _]] | [[-> [Hs _]] | [[-> [Hs _]] | [[-> _] | [[-> | ->] [-> _]]]]]];
    destruct f; try discriminate Hc; cbn [u64_fn].
  - replace (l + r <? P64) with false; [reflexivity|]. symmetry. apply N.ltb_ge. exact Hs.
  - replace (r <=? l) with false; [reflexivity|]. symmetry. apply N.leb_gt. exact Hs.
  - replace (l * r <? P64) with false; [reflexivity|]. symmetry. apply N.ltb_ge. exact Hs.
  - reflexivity.
  - reflexivity.
Qed.

Lemma u64_no_panic f i l r : compat64 f i = true -> u64_fn f l r <> RPanic.
Proof.
  intros Hc. destruct f; destruct i; try discriminate Hc; cbn [u64_fn];
    try discriminate; try (destruct (_ <? _); discriminate); try (destruct (_ <=? _); discriminate);
    try (destruct (_ =? _); discriminate); destruct (_ && _); discriminate.
Qed.

(* ------------------------------------------------------------------ U256 arms vs wide instructions *)
Definition compat256 (f : fn) (w : wide_instr) : bool :=
  match f, w with
  | F_checked_add, WI_op WAdd _ | F_checked_sub, WI_op WSub _ | F_checked_mul, WI_mul _ _
  | F_checked_div, WI_div _ | F_checked_rem, WI_addmod
  | F_bitand, WI_op WAnd _ | F_bitor, WI_op WOr _ | F_bitxor, WI_op WXor _
  | F_checked_shl, WI_op WLsh _ | F_shr, WI_op WRsh _ => true
  | _, _ => false
  end.

Lemma u256_agree f w l r v : l < 2 ^ 256 -> r < 2 ^ 256 -> compat256 f w = true ->
  u256_fn f l r = Value v -> Run.wide w l r = Val v.
Proof.
  intros Hl Hr Hc H.
  destruct f; destruct w as [m ir | il ir | ir |]; try discriminate Hc;
    try (destruct m; try discriminate Hc); cbn [u256_fn] in H;
    unfold Run.wide, wval, wq_op, wq_mul, wq_div, wq_addmod; cbn [Run.math_of].
  - unfold u256_checked_add_bits in H. rewrite size_leb in H.
    destruct (N.ltb_spec (l + r) (2 ^ 256)) as [Hs | Hs]; inversion H; subst.
    rewrite wide_add_ok by exact Hs. reflexivity.
  - destruct (N.leb_spec r l) as [Hs | Hs]; inversion H; subst.
    rewrite wide_sub_ok by exact Hs. reflexivity.
  - unfold u256_checked_mul_bits in H. rewrite size_leb in H.
    destruct (N.ltb_spec (l * r) (2 ^ 256)) as [Hs | Hs]; inversion H; subst.
    rewrite wide_mul_ok by exact Hs. reflexivity.
  - destruct (N.eqb_spec r 0) as [Hs | Hs]; inversion H; subst.
    rewrite wide_div_ok by exact Hs. reflexivity.
  - destruct (N.eqb_spec r 0) as [Hs | Hs]; inversion H; subst.
    rewrite wide_addmod_ok by exact Hs. cbn [omap Alu.res]. rewrite N.add_0_r. reflexivity.
  - inversion H; subst. reflexivity.
  - inversion H; subst. reflexivity.
  - inversion H; subst. reflexivity.
  - unfold u256_checked_shl_guard, u256_checked_shl_bits in H.
    destruct (N.leb_spec 256 r) as [Hg | Hg].
    + destruct (N.eqb_spec l 0) as [-> | Hz]; inversion H; subst.
      rewrite wide_shl_big by exact Hg. reflexivity.
    + rewrite size_leb in H. rewrite N.shiftl_mul_pow2 in H.
      destruct (N.ltb_spec (l * 2 ^ r) (2 ^ 256)) as [Hs | Hs]; inversion H; subst.
      rewrite wide_shl_ok; [| exact Hg | change (2 ^ 32) with 4294967296; lia].
      cbn [omap Alu.res]. rewrite N.mod_small by exact Hs. reflexivity.
  - inversion H; subst. rewrite big_shr_eq, N.shiftr_div_pow2.
    rewrite wide_shr_any; [reflexivity | exact Hl | vm_compute; discriminate].
Qed.

Lemma u256_revert f w l r p : l < 2 ^ 256 -> r < 2 ^ 256 -> compat256 f w = true ->
  Run.wide w l r = VmPanic p -> u256_fn f l r = NoValue.
Proof.
  intros Hl Hr Hc H.
  destruct f; destruct w as [m ir | il ir | ir |]; try discriminate Hc;
    try (destruct m; try discriminate Hc); cbn [u256_fn];
    unfold Run.wide, wval, wq_op, wq_mul, wq_div, wq_addmod in H; cbn [Run.math_of] in H;
    try discriminate H.
  - unfold u256_checked_add_bits. rewrite size_leb.
    destruct (N.ltb_spec (l + r) (2 ^ 256)) as [Hs | Hs]; [|reflexivity].
    rewrite wide_add_ok in H by exact Hs. discriminate.
  - destruct (N.leb_spec r l) as [Hs | Hs]; [|reflexivity].
    rewrite wide_sub_ok in H by exact Hs. discriminate.
  - unfold u256_checked_mul_bits. rewrite size_leb.
    destruct (N.ltb_spec (l * r) (2 ^ 256)) as [Hs | Hs]; [|reflexivity].
    rewrite wide_mul_ok in H by exact Hs. discriminate.
  - destruct (N.eqb_spec r 0) as [Hs | Hs]; [reflexivity|].
    rewrite wide_div_ok in H by exact Hs. discriminate.
  - destruct (N.eqb_spec r 0) as [Hs | Hs]; [reflexivity|].
    rewrite wide_addmod_ok in H by exact Hs. discriminate.
Qed.

Lemma u256_no_panic f w l r : compat256 f w = true -> u256_fn f l r <> RPanic.
Proof.
  intros Hc. destruct f; destruct w as [m ir | il ir | ir |]; try discriminate Hc;
    try (destruct m; try discriminate Hc); cbn [u256_fn]; try discriminate;
    try (destruct (_ <=? _); discriminate); try (destruct (_ =? _); discriminate).
  unfold u256_checked_shl_guard.
  destruct (_ <=? r); [destruct (_ =? _); discriminate | destruct (_ <=? _); discriminate].
Qed.

(* the generated tables only pair compatible functions and instructions *)
Lemma fold_table_compat64 op f : fold_binop_fn op TUint TUint = Some f ->
  compat64 f (Run.op64_of (run_instr64 op)) = true.
Proof. destruct op; cbn; intros H; inversion H; reflexivity. Qed.

Lemma fold_table_compat256 op rt f : fold_binop_fn op TU256 rt = Some f ->
  compat256 f (run_wide op) = true.
Proof. destruct op; destruct rt; cbn; intros H; inversion H; reflexivity. Qed.

Lemma ce_table_compat64 op f : ce_binop_fn op TUint TUint = Some f ->
  compat64 f (Run.op64_of (run_instr64 op)) = true.
Proof. destruct op; cbn; intros H; inversion H; reflexivity. Qed.

Lemma ce_table_compat256 op lt rt f : (lt = TU256 \/ lt = TB256) -> ce_binop_fn op lt rt = Some f ->
  compat256 f (run_wide op) = true.
Proof. intros [-> | ->]; destruct op; destruct rt; cbn; intros H; inversion H; reflexivity. Qed.

(* rows of the tables that exist only for well-typed operand kinds *)
Lemma fold_table_shape op lt rt f : fold_binop_fn op lt rt = Some f ->
  (lt = TUint /\ rt = TUint) \/ (lt = TU256 /\ (rt = TU256 \/ rt = TUint)).
Proof. destruct op; destruct lt; destruct rt; cbn; intros H; inversion H; auto. Qed.

Lemma ce_table_shape op lt rt f : ce_binop_fn op lt rt = Some f ->
  (lt = TUint /\ rt = TUint) \/ ((lt = TU256 \/ lt = TB256) /\ (rt = lt \/ rt = TUint)).
Proof. destruct op; destruct lt; destruct rt; cbn; intros H; inversion H; auto. Qed.

Lemma valid_tag_uint k v : tag_of k = TUint -> valid k v -> v < 2 ^ 64.
Proof. destruct k; cbn; intros H; try discriminate H; auto. Qed.
Lemma valid_any_256 k v : valid k v -> v < 2 ^ 256.
Proof.
  destruct k; cbn; intros H; try exact H;
    (apply N.lt_trans with (2 ^ 64); [exact H | vm_compute; reflexivity]).
Qed.
Lemma valid_wide k v : (tag_of k = TU256 \/ tag_of k = TB256) -> valid k v -> v < 2 ^ 256.
Proof. intros _. apply valid_any_256. Qed.
Lemma is_wide_tag k : Run.is_wide k = match tag_of k with TU256 | TB256 => true | _ => false end.
Proof. destruct k; reflexivity. Qed.

(* ------------------------------------------------------------------ binop: Fold *)
Lemma fold_binop_agrees op lk rk l r v : valid lk l -> valid rk r ->
  Fold.binop op lk rk l r = Value v -> Run.binop op lk rk l r = Val v.
Proof.
  intros Hl Hr H. unfold Fold.binop in H.
  destruct (fold_binop_fn op (tag_of lk) (tag_of rk)) as [f|] eqn:E; [|discriminate].
  unfold Run.binop. rewrite is_wide_tag.
  destruct (fold_table_shape _ _ _ _ E) as [[El Er] | [El Er]]; rewrite El in *.
  - rewrite Er in E. cbn [apply_fn] in H.
    eapply u64_agree; [apply (valid_tag_uint lk); assumption | apply (valid_tag_uint rk); assumption
                      | apply fold_table_compat64; exact E | exact H].
  - cbn [apply_fn] in H.
    eapply u256_agree; [apply (valid_any_256 lk); exact Hl | apply (valid_any_256 rk); exact Hr
                       | eapply fold_table_compat256; exact E | exact H].
Qed.

Lemma fold_binop_never_masks_revert op lk rk l r p : valid lk l -> valid rk r ->
  Run.binop op lk rk l r = VmPanic p -> Fold.binop op lk rk l r = NoValue.
Proof.
  intros Hl Hr H. unfold Fold.binop.
  destruct (fold_binop_fn op (tag_of lk) (tag_of rk)) as [f|] eqn:E; [|reflexivity].
  unfold Run.binop in H. rewrite is_wide_tag in H.
  destruct (fold_table_shape _ _ _ _ E) as [[El Er] | [El Er]]; rewrite El in *.
  - rewrite Er in E. cbn [apply_fn].
    eapply u64_revert; [apply (valid_tag_uint lk); assumption | apply (valid_tag_uint rk); assumption
                       | apply fold_table_compat64; exact E | exact H].
  - cbn [apply_fn].
    eapply u256_revert; [apply (valid_any_256 lk); exact Hl | apply (valid_any_256 rk); exact Hr
                        | eapply fold_table_compat256; exact E | exact H].
Qed.

Lemma fold_binop_total op lk rk l r : Fold.binop op lk rk l r <> RPanic.
Proof.
  unfold Fold.binop.
  destruct (fold_binop_fn op (tag_of lk) (tag_of rk)) as [f|] eqn:E; [|discriminate].
  destruct (fold_table_shape _ _ _ _ E) as [[El Er] | [El Er]]; rewrite El in *.
  - rewrite Er in E. cbn [apply_fn]. eapply u64_no_panic. apply fold_table_compat64. exact E.
  - cbn [apply_fn]. eapply u256_no_panic. eapply fold_table_compat256. exact E.
Qed.

(* ------------------------------------------------------------------ binop: CE *)
Lemma ce_binop_agrees op lk rk l r v : valid lk l -> valid rk r ->
  CE.binop op lk rk l r = Value v -> Run.binop op lk rk l r = Val v.
Proof.
  intros Hl Hr H. unfold CE.binop in H.
  destruct (ce_binop_fn op (tag_of lk) (tag_of rk)) as [f|] eqn:E; [|discriminate].
  unfold Run.binop. rewrite is_wide_tag.
  destruct (ce_table_shape _ _ _ _ E) as [[El Er] | [El Er]].
  - rewrite El, Er in *. cbn [apply_fn] in H.
    eapply u64_agree; [apply (valid_tag_uint lk); assumption | apply (valid_tag_uint rk); assumption
                      | apply ce_table_compat64; exact E | exact H].
  - assert (Hw : apply_fn f (tag_of lk) l r = u256_fn f l r) by (destruct El as [-> | ->]; reflexivity).
    rewrite Hw in H.
    replace (match tag_of lk with TU256 | TB256 => true | _ => false end) with true
      by (destruct El as [-> | ->]; reflexivity).
    eapply u256_agree; [apply (valid_any_256 lk); exact Hl | apply (valid_any_256 rk); exact Hr
                       | eapply ce_table_compat256; eassumption | exact H].
Qed.

Lemma ce_binop_never_masks_revert op lk rk l r p : valid lk l -> valid rk r ->
  typechecks_bin op lk rk = true ->
  Run.binop op lk rk l r = VmPanic p -> CE.binop op lk rk l r = NoValue.
Proof.
  intros Hl Hr Ht H. unfold CE.binop.
  destruct (ce_binop_fn op (tag_of lk) (tag_of rk)) as [f|] eqn:E.
  - unfold Run.binop in H. rewrite is_wide_tag in H.
    destruct (ce_table_shape _ _ _ _ E) as [[El Er] | [El Er]].
    + rewrite El, Er in *. cbn [apply_fn].
      eapply u64_revert; [apply (valid_tag_uint lk); assumption | apply (valid_tag_uint rk); assumption
                         | apply ce_table_compat64; exact E | exact H].
    + assert (Hw : apply_fn f (tag_of lk) l r = u256_fn f l r) by (destruct El as [-> | ->]; reflexivity).
      rewrite Hw.
      replace (match tag_of lk with TU256 | TB256 => true | _ => false end) with true in H
        by (destruct El as [-> | ->]; reflexivity).
      eapply u256_revert; [apply (valid_any_256 lk); exact Hl | apply (valid_any_256 rk); exact Hr
                          | eapply ce_table_compat256; eassumption | exact H].
  - exfalso. unfold typechecks_bin in Ht.
    destruct op; destruct lk; destruct rk; cbn in E, Ht; try discriminate E;
      rewrite ?andb_false_r in Ht; discriminate Ht.
Qed.

Lemma ce_binop_total op lk rk l r : typechecks_bin op lk rk = true -> CE.binop op lk rk l r <> RPanic.
Proof.
  intros Ht. unfold CE.binop.
  destruct (ce_binop_fn op (tag_of lk) (tag_of rk)) as [f|] eqn:E.
  - destruct (ce_table_shape _ _ _ _ E) as [[El Er] | [El Er]].
    + rewrite El, Er in *. cbn [apply_fn]. eapply u64_no_panic. apply ce_table_compat64. exact E.
    + assert (Hw : apply_fn f (tag_of lk) l r = u256_fn f l r) by (destruct El as [-> | ->]; reflexivity).
      rewrite Hw. eapply u256_no_panic. eapply ce_table_compat256; eassumption.
  - exfalso. unfold typechecks_bin in Ht.
    destruct op; destruct lk; destruct rk; cbn in E, Ht; try discriminate E;
      rewrite ?andb_false_r in Ht; discriminate Ht.
Qed.

(* ------------------------------------------------------------------ cmp *)
Lemma run_cmp_val p k l r : Run.cmp p k l r = Val (cmp_val p l r).
Proof.
  unfold Run.cmp. destruct (Run.is_wide k).
  - destruct p; cbn; unfold wq_cmp, wide_cmp; reflexivity.
  - destruct p; cbn [run_cmp64 Run.op64_of cmp_val]; unfold vm_bin, exec64, alu_set, omap; reflexivity.
Qed.

Lemma fold_cmp_fn_same p t q : fold_cmp_fn p t = Some q -> q = p.
Proof. destruct p; destruct t; cbn; intros H; inversion H; reflexivity. Qed.
Lemma ce_cmp_fn_same p t q : ce_cmp_fn p t = Some q -> q = p.
Proof. destruct p; destruct t; cbn; intros H; inversion H; reflexivity. Qed.

Lemma fold_cmp_agrees p k l r v : Fold.cmp p k l r = Value v -> Run.cmp p k l r = Val v.
Proof.
  intros H. rewrite run_cmp_val. unfold Fold.cmp in H. destruct p.
  - cbn in H. inversion H. reflexivity.
  - destruct (fold_cmp_fn PLt (tag_of k)) as [q|] eqn:E; [|discriminate].
    apply fold_cmp_fn_same in E. subst. inversion H. reflexivity.
  - destruct (fold_cmp_fn PGt (tag_of k)) as [q|] eqn:E; [|discriminate].
    apply fold_cmp_fn_same in E. subst. inversion H. reflexivity.
Qed.

Lemma ce_cmp_agrees p k l r v : CE.cmp p k l r = Value v -> Run.cmp p k l r = Val v.
Proof.
  intros H. rewrite run_cmp_val. unfold CE.cmp in H. destruct p.
  - cbn in H. inversion H. reflexivity.
  - destruct (ce_cmp_fn PLt (tag_of k)) as [q|] eqn:E; [|discriminate].
    apply ce_cmp_fn_same in E. subst. inversion H. reflexivity.
  - destruct (ce_cmp_fn PGt (tag_of k)) as [q|] eqn:E; [|discriminate].
    apply ce_cmp_fn_same in E. subst. inversion H. reflexivity.
Qed.

Lemma run_cmp_never_reverts p k l r pr : Run.cmp p k l r <> VmPanic pr.
Proof. rewrite run_cmp_val. discriminate. Qed.

Lemma fold_cmp_total p k l r : typechecks_cmp p k = true -> Fold.cmp p k l r <> RPanic.
Proof.
  unfold typechecks_cmp, Fold.cmp. intros Ht.
  destruct p; [cbn; discriminate | |]; destruct k; cbn in *; try discriminate;
    rewrite ?andb_false_r in Ht; discriminate Ht.
Qed.
Lemma ce_cmp_total p k l r : typechecks_cmp p k = true -> CE.cmp p k l r <> RPanic.
Proof.
  unfold typechecks_cmp, CE.cmp. intros Ht.
  destruct p; [cbn; discriminate | |]; destruct k; cbn in *; try discriminate;
    rewrite ?andb_false_r in Ht; discriminate Ht.
Qed.

(* ------------------------------------------------------------------ not *)
Lemma run_not_never_reverts k v pr : Run.unop_not k v <> VmPanic pr.
Proof. unfold Run.unop_not. destruct (Run.is_wide k); cbn; discriminate. Qed.

Lemma lookup_fold_mask w m : lookupN w fold_not_mask = Some m -> std_width w = true /\ m = N.ones w.
Proof.
  unfold lookupN, fold_not_mask. cbn [find fst snd].
  destruct (N.eqb_spec 8 w) as [<- | _]; [intros H; inversion H; split; reflexivity|].
  destruct (N.eqb_spec 16 w) as [<- | _]; [intros H; inversion H; split; reflexivity|].
  destruct (N.eqb_spec 32 w) as [<- | _]; [intros H; inversion H; split; reflexivity|].
  destruct (N.eqb_spec 64 w) as [<- | _]; [intros H; inversion H; split; reflexivity|].
  discriminate.
Qed.

Lemma lookup_ce_cast w c : lookupN w ce_not_cast = Some c -> std_width w = true /\ c = w.
Proof.
  unfold lookupN, ce_not_cast. cbn [find fst snd].
  destruct (N.eqb_spec 8 w) as [<- | _]; [intros H; inversion H; split; reflexivity|].
  destruct (N.eqb_spec 16 w) as [<- | _]; [intros H; inversion H; split; reflexivity|].
  destruct (N.eqb_spec 32 w) as [<- | _]; [intros H; inversion H; split; reflexivity|].
  destruct (N.eqb_spec 64 w) as [<- | _]; [intros H; inversion H; split; reflexivity|].
  discriminate.
Qed.

Lemma land_ones_64 x : x < 2 ^ 64 -> N.land x (N.ones 64) = x.
Proof. intros H. rewrite N.land_ones. apply N.mod_small. exact H. Qed.

Lemma wide_not_run v : wval (wq_op default_flags MNOT v 0) = Val (N.lnot v 256).
Proof. reflexivity. Qed.

Lemma fold_unop_agrees k v x : valid k v -> known_not_narrow k = false ->
  Fold.unop_not k v = Value x -> Run.unop_not k v = Val x.
Proof.
  intros Hv Hk H. unfold Fold.unop_not in H. destruct k as [w | | |]; cbn in Hv, Hk.
  - destruct (lookupN w fold_not_mask) as [m|] eqn:E; [|discriminate].
    apply lookup_fold_mask in E. destruct E as [_ ->].
    apply negb_false_iff, N.eqb_eq in Hk. subst w. inversion H.
    unfold Run.unop_not. cbn [Run.is_wide]. f_equal. unfold vm_not, exec_not, alu_set. cbn [Alu.res].
    symmetry. apply land_ones_64. apply lnot_bound. exact Hv.
  - cbn in H. unfold u256_not in H. destruct (v <? P256); inversion H. reflexivity.
  - cbn in H. discriminate.
  - discriminate.
Qed.

Lemma ce_unop_agrees k v x : valid k v -> known_not_narrow k = false ->
  CE.unop_not k v = Value x -> Run.unop_not k v = Val x.
Proof.
  intros Hv Hk H. unfold CE.unop_not in H. destruct k as [w | | |]; cbn in Hv, Hk.
  - destruct (lookupN w ce_not_cast) as [c|] eqn:E; [|discriminate].
    apply lookup_ce_cast in E. destruct E as [_ ->].
    apply negb_false_iff, N.eqb_eq in Hk. subst w. inversion H.
    unfold Run.unop_not. cbn [Run.is_wide]. f_equal. unfold vm_not, exec_not, alu_set. cbn [Alu.res].
    rewrite N.mod_small by exact Hv. reflexivity.
  - cbn in H. unfold u256_not in H. destruct (v <? P256); inversion H. reflexivity.
  - cbn in H. unfold u256_not in H. destruct (v <? P256); inversion H. reflexivity.
  - discriminate.
Qed.

(* bit-level: complement within w bits = 64-bit complement masked to w bits (w <= 64) *)
Lemma lnot_mask v w : w <= 64 -> N.land (N.lnot v 64) (N.ones w) = N.lnot (v mod 2 ^ w) w.
Proof.
  intros Hw. apply N.bits_inj. intros i.
  rewrite N.land_spec.
  destruct (N.ltb_spec i w) as [Hi | Hi].
  - rewrite N.ones_spec_low by exact Hi. rewrite andb_true_r.
    rewrite N.lnot_spec_low by lia. rewrite N.lnot_spec_low by exact Hi.
    rewrite N.mod_pow2_bits_low by exact Hi. reflexivity.
  - rewrite N.ones_spec_high by exact Hi. rewrite andb_false_r.
    rewrite N.lnot_spec_high by exact Hi. rewrite N.mod_pow2_bits_high by exact Hi. reflexivity.
Qed.

Lemma std_width_cases w : std_width w = true -> w = 8 \/ w = 16 \/ w = 32 \/ w = 64.
Proof.
  unfold std_width. rewrite !orb_true_iff, !N.eqb_eq. tauto.
Qed.

Lemma std_width_le w : std_width w = true -> w <= 64.
Proof.
  intros H. destruct (std_width_cases w H) as [-> | [-> | [-> | ->]]]; lia.
Qed.

Lemma run_not_then_mask w v : Run.not_then_mask w v = Val (N.land (vm_not v) (N.ones w)).
Proof. reflexivity. Qed.

(* what std's `!` computes on u8/u16/u32/u64 agrees with both compile-time evaluators *)
Lemma fold_not_masked_agrees w v x :
  Fold.unop_not (KU w) v = Value x -> Run.not_then_mask w v = Val x.
Proof.
  intros H. cbn [Fold.unop_not] in H.
  destruct (lookupN w fold_not_mask) as [m|] eqn:E; [|discriminate].
  apply lookup_fold_mask in E. destruct E as [_ ->]. inversion H.
  rewrite run_not_then_mask. reflexivity.
Qed.

Lemma ce_not_masked_agrees w v x :
  CE.unop_not (KU w) v = Value x -> Run.not_then_mask w v = Val x.
Proof.
  intros H. cbn [CE.unop_not] in H.
  destruct (lookupN w ce_not_cast) as [c|] eqn:E; [|discriminate].
  apply lookup_ce_cast in E. destruct E as [Hs ->]. inversion H.
  rewrite run_not_then_mask. f_equal. unfold vm_not, exec_not, alu_set. cbn [Alu.res].
  apply lnot_mask. apply std_width_le. exact Hs.
Qed.

Lemma fold_unop_total k v : valid k v -> Fold.unop_not k v <> RPanic.
Proof.
  intros Hv. destruct k as [w | | |]; cbn in *.
  - destruct (lookupN w fold_not_mask); discriminate.
  - unfold u256_not. replace (v <? P256) with true; [discriminate|].
    symmetry. apply N.ltb_lt. exact Hv.
  - discriminate.
  - discriminate.
Qed.


Lemma ce_unop_total k v : typechecks_not k = true -> valid k v -> CE.unop_not k v <> RPanic.
Proof.
  intros Ht Hv. destruct k as [w | | |].
  - unfold typechecks_not in Ht. cbn [wf_kind] in Ht. rewrite andb_true_r in Ht.
    destruct (std_width_cases w Ht) as [-> | [-> | [-> | ->]]]; cbn; discriminate.
  - cbn in *. unfold u256_not. replace (v <? P256) with true; [discriminate|].
    symmetry. apply N.ltb_lt. exact Hv.
  - cbn in *. unfold u256_not. replace (v <? P256) with true; [discriminate|].
    symmetry. apply N.ltb_lt. exact Hv.
  - discriminate Ht.
Qed.

(* ------------------------------------------------------------------ useless binary ops *)
Lemma useless_cases op s c : Fold.useless op s c = true ->
  (op = Add /\ c = 0) \/ (op = Mul /\ c = 1) \/ (op = Div /\ s = OnRight /\ c = 1)
  \/ (op = Sub /\ s = OnRight /\ c = 0).
Proof.
  unfold Fold.useless, useless_table. cbn [existsb]. intros H.
  repeat (apply orb_true_iff in H; destruct H as [H | H]); try discriminate H;
    destruct op; destruct s; cbn in H; try discriminate H; apply N.eqb_eq in H; subst; auto 10.
Qed.

Definition place (s : side) (c x : N) : N * N := match s with OnLeft => (c, x) | OnRight => (x, c) end.

Lemma useless_sound op s c w x : Fold.useless op s c = true -> x < 2 ^ 64 ->
  Run.binop op (KU w) (KU w) (fst (place s c x)) (snd (place s c x)) = Val x.
Proof.
  intros H Hx. unfold Run.binop. cbn [Run.is_wide].
  destruct (useless_cases _ _ _ H) as [[-> ->] | [[-> ->] | [[-> [-> ->]] | [-> [-> ->]]]]];
    cbn [run_instr64 Run.op64_of].
  - destruct s; cbn [place fst snd]; change (vm_bin ADD) with vm_add; rewrite add_ok by lia; f_equal; lia.
  - destruct s; cbn [place fst snd]; change (vm_bin MUL) with vm_mul; rewrite mul_ok by lia; f_equal; lia.
  - cbn [place fst snd]. change (vm_bin DIV) with vm_div. rewrite div_ok by discriminate.
    rewrite N.div_1_r. reflexivity.
  - cbn [place fst snd]. change (vm_bin SUB) with vm_sub. rewrite sub_ok by lia. f_equal. lia.
Qed.

(* ------------------------------------------------------------------ refutations on the original code *)
Lemma orig_ce_mod_panics : orig_ce_binop Mod KU256 KU256 1 0 = RPanic.
Proof. reflexivity. Qed.
Lemma orig_ce_gt_b256_panics : orig_ce_cmp PGt KB256 1 0 = RPanic.
Proof. reflexivity. Qed.
Lemma orig_ce_shl_aborts : orig_ce_binop Lsh KU256 (KU 64) 1 (2 ^ 64 - 1) = RPanic.
Proof. vm_compute. reflexivity. Qed.
Lemma orig_fold_shl_aborts : orig_fold_binop Lsh KU256 (KU 64) 1 (2 ^ 64 - 1) = RPanic.
Proof. vm_compute. reflexivity. Qed.

(* ------------------------------------------------------------------ the known finding: raw `not` below 64 bits *)
Lemma fold_not_narrow_refuted : exists w v x,
  std_width w = true /\ width_valid (KU w) v /\ Fold.unop_not (KU w) v = Value x /\ Run.unop_not (KU w) v <> Val x.
Proof. exists 8, 5, 250. repeat split; try reflexivity. vm_compute. discriminate. Qed.

Lemma ce_not_narrow_refuted : exists w v x,
  std_width w = true /\ width_valid (KU w) v /\ CE.unop_not (KU w) v = Value x /\ Run.unop_not (KU w) v <> Val x.
Proof. exists 8, 5, 250. repeat split; try reflexivity. vm_compute. discriminate. Qed.

(* the finding covers EVERY width-valid narrow operand: at run time the high bits are always set *)
Lemma not_narrow_always_differs w v x : std_width w = true -> w <> 64 -> v < 2 ^ w ->
  Fold.unop_not (KU w) v = Value x -> Run.unop_not (KU w) v <> Val x.
Proof.
  intros Hs Hw Hv H Hr. cbn [Fold.unop_not] in H.
  destruct (lookupN w fold_not_mask) as [m|] eqn:E; [|discriminate].
  apply lookup_fold_mask in E. destruct E as [_ ->]. inversion H as [Hx]. clear H.
  unfold Run.unop_not in Hr. cbn [Run.is_wide] in Hr. inversion Hr as [Hy]. clear Hr.
  assert (Hw32 : 2 ^ w <= 2 ^ 32).
  { apply N.pow_le_mono_r; [discriminate|].
    destruct (std_width_cases w Hs) as [-> | [-> | [-> | ->]]]; lia. }
  assert (Hlt : x < 2 ^ 32).
  { rewrite <- Hx, N.land_ones. apply N.lt_le_trans with (2 ^ w); [|exact Hw32].
    apply N.mod_lt. apply N.pow_nonzero. discriminate. }
  assert (Hv64 : v < 2 ^ 64).
  { apply N.lt_le_trans with (2 ^ 32); [lia | vm_compute; discriminate]. }
  rewrite not_ok in Hy by exact Hv64.
  change (2 ^ 32) with 4294967296 in *. change (2 ^ 64) with 18446744073709551616 in *. lia.
Qed.

(* conditional_constprop.rs replaces x by the constant c in the region dominated by the true edge of
   `cbr (cmp eq x c)`: sound because the run-time comparison yields 1 only for equal values. *)
Lemma ccp_eq_sound k x c : Run.cmp PEq k x c = Val 1 -> x = c.
Proof.
  rewrite run_cmp_val. cbn [cmp_val]. intros H. inversion H as [Hb].
  destruct (N.eqb_spec x c) as [He | He]; [exact He | discriminate Hb].
Qed.
