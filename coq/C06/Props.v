(* C06 — property theorems only.  `valid k v`: v fits the register / 32-byte word that holds a value of
   kind k (weaker than, and implied by, v < 2^width: see C06_width_valid_valid). *)
From Coq Require Import NArith List Bool.
From SwayV Require Import Vm.Alu C06.Types Generated.C06Facts C06.Model C06.Spec C06.Orig C06.Proofs.
Local Open Scope N_scope.

(* ---- optimizer folding (constants.rs) ---------------------------------------------------- *)
Theorem C06_fold_binop_agrees : forall op lk rk l r v, valid lk l -> valid rk r ->
  Fold.binop op lk rk l r = Value v -> Run.binop op lk rk l r = Val v.
Proof. exact fold_binop_agrees. Qed.
Print Assumptions C06_fold_binop_agrees.

Theorem C06_fold_never_masks_revert : forall op lk rk l r p, valid lk l -> valid rk r ->
  Run.binop op lk rk l r = VmPanic p -> Fold.binop op lk rk l r = NoValue.
Proof. exact fold_binop_never_masks_revert. Qed.
Print Assumptions C06_fold_never_masks_revert.

Theorem C06_fold_cmp_agrees : forall p k l r v,
  Fold.cmp p k l r = Value v -> Run.cmp p k l r = Val v.
Proof. exact fold_cmp_agrees. Qed.
Print Assumptions C06_fold_cmp_agrees.

(* `not`: full statement is  forall k v x, valid k v -> Fold.unop_not k v = Value x -> Run.unop_not k v = Val x.
   It is REFUTED for Uint widths below 64 (C06_fold_not_narrow_refuted, recorded in KNOWN_FINDINGS);
   proved for every other kind, and for the narrow widths when the NOT is followed by the mask std's `!`
   applies (C06_fold_not_masked_agrees). *)
Theorem C06_fold_unop_agrees : forall k v x, valid k v -> known_not_narrow k = false ->
  Fold.unop_not k v = Value x -> Run.unop_not k v = Val x.
Proof. exact fold_unop_agrees. Qed.
Print Assumptions C06_fold_unop_agrees.

Theorem C06_fold_not_narrow_refuted : exists w v x,
  std_width w = true /\ width_valid (KU w) v /\ Fold.unop_not (KU w) v = Value x /\ Run.unop_not (KU w) v <> Val x.
Proof. exact fold_not_narrow_refuted. Qed.
Print Assumptions C06_fold_not_narrow_refuted.

Theorem C06_fold_not_masked_agrees : forall w v x,
  Fold.unop_not (KU w) v = Value x -> Run.not_then_mask w v = Val x.
Proof. exact fold_not_masked_agrees. Qed.
Print Assumptions C06_fold_not_masked_agrees.

Theorem C06_useless_sound : forall op s c w x, Fold.useless op s c = true -> x < 2 ^ 64 ->
  Run.binop op (KU w) (KU w) (fst (place s c x)) (snd (place s c x)) = Val x.
Proof. exact useless_sound. Qed.
Print Assumptions C06_useless_sound.

(* conditional_constprop.rs: inside the true region of `x == c` the value IS c at run time *)
Theorem C06_ccp_eq_sound : forall k x c, Run.cmp PEq k x c = Val 1 -> x = c.
Proof. exact ccp_eq_sound. Qed.
Print Assumptions C06_ccp_eq_sound.

Theorem C06_fold_total : forall op lk rk l r, Fold.binop op lk rk l r <> RPanic.
Proof. exact fold_binop_total. Qed.
Print Assumptions C06_fold_total.

(* ---- const / configurable evaluation (const_eval.rs) ----------------------------------------- *)
Theorem C06_ce_binop_agrees : forall op lk rk l r v, valid lk l -> valid rk r ->
  CE.binop op lk rk l r = Value v -> Run.binop op lk rk l r = Val v.
Proof. exact ce_binop_agrees. Qed.
Print Assumptions C06_ce_binop_agrees.

Theorem C06_ce_never_masks_revert : forall op lk rk l r p, valid lk l -> valid rk r ->
  typechecks_bin op lk rk = true ->
  Run.binop op lk rk l r = VmPanic p -> CE.binop op lk rk l r = NoValue.
Proof. exact ce_binop_never_masks_revert. Qed.
Print Assumptions C06_ce_never_masks_revert.

Theorem C06_ce_cmp_agrees : forall p k l r v,
  CE.cmp p k l r = Value v -> Run.cmp p k l r = Val v.
Proof. exact ce_cmp_agrees. Qed.
Print Assumptions C06_ce_cmp_agrees.

Theorem C06_ce_unop_agrees : forall k v x, valid k v -> known_not_narrow k = false ->
  CE.unop_not k v = Value x -> Run.unop_not k v = Val x.
Proof. exact ce_unop_agrees. Qed.
Print Assumptions C06_ce_unop_agrees.

Theorem C06_ce_not_narrow_refuted : exists w v x,
  std_width w = true /\ width_valid (KU w) v /\ CE.unop_not (KU w) v = Value x /\ Run.unop_not (KU w) v <> Val x.
Proof. exact ce_not_narrow_refuted. Qed.
Print Assumptions C06_ce_not_narrow_refuted.

Theorem C06_ce_not_masked_agrees : forall w v x,
  CE.unop_not (KU w) v = Value x -> Run.not_then_mask w v = Val x.
Proof. exact ce_not_masked_agrees. Qed.
Print Assumptions C06_ce_not_masked_agrees.

(* the finding is not a corner case: every width-valid narrow operand shows it *)
Theorem C06_not_narrow_always_differs : forall w v x, std_width w = true -> w <> 64 -> v < 2 ^ w ->
  Fold.unop_not (KU w) v = Value x -> Run.unop_not (KU w) v <> Val x.
Proof. exact not_narrow_always_differs. Qed.
Print Assumptions C06_not_narrow_always_differs.

(* comparisons and `not` never revert at run time, so "never masks a revert" is vacuous for them *)
Theorem C06_cmp_not_never_revert : forall p k l r v pr,
  Run.cmp p k l r <> VmPanic pr /\ Run.unop_not k v <> VmPanic pr.
Proof. intros. split; [apply run_cmp_never_reverts | apply run_not_never_reverts]. Qed.
Print Assumptions C06_cmp_not_never_revert.

(* const-eval never panics on anything the type checker lets through (after the three fixes) *)
Theorem C06_ce_total : forall op p lk rk k l r v,
  (typechecks_bin op lk rk = true -> CE.binop op lk rk l r <> RPanic) /\
  (typechecks_cmp p k = true -> CE.cmp p k l r <> RPanic) /\
  (typechecks_not k = true -> valid k v -> CE.unop_not k v <> RPanic).
Proof.
  intros. split; [|split].
  - apply ce_binop_total.
  - apply ce_cmp_total.
  - apply ce_unop_total.
Qed.
Print Assumptions C06_ce_total.

Theorem C06_fold_cmp_unop_total : forall p k l r v,
  (typechecks_cmp p k = true -> Fold.cmp p k l r <> RPanic) /\ (valid k v -> Fold.unop_not k v <> RPanic).
Proof. intros. split; [apply fold_cmp_total | apply fold_unop_total]. Qed.
Print Assumptions C06_fold_cmp_unop_total.

(* on the unchanged tree the totality statement was false: three witnesses, each replayed on the real compiler *)
Theorem C06_ce_total_refuted_orig :
  orig_ce_binop Mod KU256 KU256 1 0 = RPanic /\
  orig_ce_cmp PGt KB256 1 0 = RPanic /\
  orig_ce_binop Lsh KU256 (KU 64) 1 (2 ^ 64 - 1) = RPanic /\
  orig_fold_binop Lsh KU256 (KU 64) 1 (2 ^ 64 - 1) = RPanic.
Proof.
  split; [exact orig_ce_mod_panics|]. split; [exact orig_ce_gt_b256_panics|].
  split; [exact orig_ce_shl_aborts | exact orig_fold_shl_aborts].
Qed.
Print Assumptions C06_ce_total_refuted_orig.

Theorem C06_width_valid_valid : forall k v, wf_kind k = true -> width_valid k v -> valid k v.
Proof.
  intros k v Hk H. destruct k as [w | | |]; cbn [valid width_valid wf_kind] in *; try exact H.
  - apply N.lt_le_trans with (2 ^ w); [exact H|]. apply N.pow_le_mono_r; [discriminate|].
    apply std_width_le. exact Hk.
  - apply N.lt_trans with 2; [exact H | reflexivity].
Qed.
Print Assumptions C06_width_valid_valid.

(* ---- non-vacuity: hypotheses satisfiable, conclusions non-trivial ------------------------------ *)
Example ex_fold_add_u8 : width_valid (KU 8) 255 /\ width_valid (KU 8) 1 /\
  Fold.binop Add (KU 8) (KU 8) 255 1 = Value 256 /\ Run.binop Add (KU 8) (KU 8) 255 1 = Val 256.
Proof. repeat split; vm_compute; reflexivity. Qed.
Example ex_fold_add_overflow : Run.binop Add (KU 64) (KU 64) (2 ^ 64 - 1) 1 = VmPanic ArithmeticOverflow /\
  Fold.binop Add (KU 64) (KU 64) (2 ^ 64 - 1) 1 = NoValue.
Proof. split; vm_compute; reflexivity. Qed.
Example ex_ce_mod_u256 : CE.binop Mod KU256 KU256 1 0 = NoValue /\
  Run.binop Mod KU256 KU256 1 0 = VmPanic ArithmeticError.
Proof. split; vm_compute; reflexivity. Qed.
Example ex_ce_shl_u256 : CE.binop Lsh KU256 (KU 64) (2 ^ 255 + 1) 1 = NoValue /\
  Run.binop Lsh KU256 (KU 64) (2 ^ 255 + 1) 1 = Val 2 /\
  CE.binop Lsh KU256 (KU 64) 1 (2 ^ 64 - 1) = NoValue /\ CE.binop Lsh KU256 (KU 64) 3 254 = Value (3 * 2 ^ 254).
Proof. repeat split; vm_compute; reflexivity. Qed.
Example ex_ce_gt_b256 : CE.cmp PGt KB256 1 0 = Value 1 /\ Run.cmp PGt KB256 1 0 = Val 1.
Proof. split; vm_compute; reflexivity. Qed.
Example ex_not_u64 : Fold.unop_not (KU 64) 5 = Value (2 ^ 64 - 6) /\ Run.unop_not (KU 64) 5 = Val (2 ^ 64 - 6).
Proof. split; vm_compute; reflexivity. Qed.
Example ex_useless : Fold.useless Sub OnRight 0 = true /\ Fold.useless Sub OnLeft 0 = false /\
  Fold.useless Div OnLeft 1 = false.
Proof. repeat split; vm_compute; reflexivity. Qed.
