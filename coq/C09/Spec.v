(* C09 — specification: the canonical Fuel ABI encoding is Layout.Abi.enc; a program's logged/returned
   bytes for value v : t must be enc t v, and decoding canonical bytes must give v back. *)
From SwayV Require Import Base.Util Layout.Bytes Layout.Abi.
Local Open Scope N_scope.

Definition canonical_okb (t : aty) (v : aval) (observed : list N) : bool := list_eqb observed (enc t v).
