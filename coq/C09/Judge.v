(* C09 — judgement of in-VM observations: what was logged for v, and what was logged after decoding
   the canonical bytes of v inside the program and logging the result. *)
From SwayV Require Import Base.Util Layout.Bytes Layout.Types Layout.Abi Layout.Mem C10.Model C09.Model C09.Spec.
Local Open Scope N_scope.

(* 0 agree
   2 VIOLATION  logged bytes differ from the canonical encoding
   3 VIOLATION  decoding canonical bytes in the program and re-encoding gives different bytes
   4 VIOLATION  decoding canonical bytes in the program reverted / did not finish
   5 corr: the model's encode / decode disagree with enc on this case (theorems no longer apply to this model)
   7 machinery: ill-typed generated value *)
Definition judge (t : aty) (v : aval) (logged : list N) (decoded_ok : bool) (relogged : list N) : N :=
  if negb (wtb t v) then 7
  else if negb (canonical_okb t v logged) then 2
  else if negb decoded_ok then 4
  else if negb (canonical_okb t v relogged) then 3
  else if negb (list_eqb (encode t v) (enc t v)) then 5
  else match abi_decode t (enc t v) with
       | Ok (v', []) => if list_eqb (enc t v') (enc t v) then 0 else 5
       | _ => 5
       end.
