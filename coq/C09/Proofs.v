(* C09 — proofs: the std codec writes the canonical encoding and reads it back. *)
From SwayV Require Import Base.Util Layout.Bytes Layout.Types Layout.Abi Layout.Mem C10.Model C10.Proofs C09.Model.
From Coq Require Import ZifyBool ZifyN.
Local Open Scope N_scope.

Lemma be_bytes_suffix j k n : ndrop (N.of_nat j) (be_bytes (j + k) n) = be_bytes k n.
Proof.
  revert n. induction k as [|k IH]; intros n.
  - rewrite Nat.add_0_r. rewrite <- (app_nil_r (be_bytes j n)). rewrite <- (nlen_be_bytes j n). apply ndrop_app_exact.
  - rewrite Nat.add_succ_r. cbn [be_bytes]. rewrite ndrop_app_le by (rewrite nlen_be_bytes; lia). now rewrite IH.
Qed.

Lemma fold_encode t vs : forall buf,
  (forall x, In x vs -> forall b, abi_encode t x b = b ++ enc t x) ->
  fold_left (fun b x => abi_encode t x b) vs buf = buf ++ flat_map (enc t) vs.
Proof.
  induction vs as [|x r IH]; intros buf H; cbn [fold_left flat_map]; [now rewrite app_nil_r|].
  rewrite (H x (or_introl eq_refl)), IH by (intros y Hy; apply H; now right). now rewrite app_assoc.
Qed.

Fixpoint enc_go (ts : list aty) (vs : list aval) (buf : list N) : list N :=
  match ts, vs with t :: ts', v :: vs' => enc_go ts' vs' (abi_encode t v buf) | _, _ => buf end.
Lemma abi_encode_tuple ts vs buf : abi_encode (ATuple ts) (VSeq vs) buf = enc_go ts vs buf. Proof. reflexivity. Qed.
Lemma abi_encode_struct ts vs buf : abi_encode (AStruct ts) (VSeq vs) buf = enc_go ts vs buf. Proof. reflexivity. Qed.
Lemma abi_encode_enum ts k v buf : abi_encode (AEnum ts) (VEnum k v) buf =
  match nth_error ts k with Some t => abi_encode t v (buf ++ be_bytes 8 (N.of_nat k)) | None => buf ++ be_bytes 8 (N.of_nat k) end.
Proof.
  cbn [abi_encode]. generalize (buf ++ be_bytes 8 (N.of_nat k)) as b. intros b.
  revert k. induction ts as [|t r IH]; intros [|k]; cbn [nth_error]; try reflexivity. apply IH.
Qed.

Definition enc_ok_at (t : aty) : Prop := forall v buf, wtb t v = true -> abi_encode t v buf = buf ++ enc t v.

Lemma enc_go_ok ts : Forall enc_ok_at ts -> forall vs buf, wtb_fields ts vs = true -> enc_go ts vs buf = buf ++ enc_fields ts vs.
Proof.
  induction 1 as [|t r Ht Hr IH]; intros [|v vs] buf Hw; cbn [wtb_fields] in Hw; try discriminate; cbn [enc_go enc_fields].
  - now rewrite app_nil_r.
  - apply andb_true_iff in Hw. destruct Hw as [H1 H2]. rewrite (Ht v buf H1), (IH vs _ H2). now rewrite app_assoc.
Qed.

Lemma abi_encode_is_enc t : enc_ok_at t.
Proof.
  induction t using aty_ind'; unfold enc_ok_at; intros v buf Hw.
  - cbn [abi_encode enc]. now rewrite app_nil_r.
  - destruct v; try discriminate. reflexivity.
  - destruct v; try discriminate. cbn [wtb] in Hw. cbn [abi_encode enc]. rewrite u8_byte by lia. reflexivity.
  - destruct v; try discriminate. cbn [abi_encode enc]. now rewrite (be_bytes_suffix 6 2).
  - destruct v; try discriminate. cbn [abi_encode enc]. now rewrite (be_bytes_suffix 4 4).
  - destruct v; try discriminate. reflexivity.
  - destruct v; try discriminate. reflexivity.
  - destruct v; try discriminate. reflexivity.
  - destruct v; try discriminate. cbn [wtb] in Hw. apply andb_true_iff in Hw. destruct Hw as [H1 _].
    cbn [abi_encode enc mem_bytes]. f_equal. assert (Hn : n = nlen bs) by lia. subst n. apply ntake_app_exact.
  - destruct v; try discriminate. cbn [abi_encode enc]. now rewrite app_assoc.
  - destruct v; try discriminate. cbn [abi_encode enc]. now rewrite app_assoc.
  - destruct v; try discriminate. cbn [abi_encode enc]. now rewrite app_assoc.
  - destruct v; try discriminate. cbn [abi_encode enc]. now rewrite app_assoc.
  - (* Vec *) destruct v as [| | | |vs|]; try discriminate. cbn [wtb] in Hw. apply andb_true_iff in Hw. destruct Hw as [_ Hw].
    rewrite forallb_forall in Hw. cbn [abi_encode enc]. unfold enc_seq. destruct (trivial_enc t) eqn:Htr.
    + rewrite <- app_assoc. do 2 f_equal. clear buf. induction vs as [|x r IH]; [reflexivity|]. cbn [flat_map].
      rewrite (trivial_enc_sound t Htr x (Hw x (or_introl eq_refl))). f_equal. apply IH. intros y Hy. apply Hw. now right.
    + rewrite fold_encode by (intros x Hx b; apply IHt; now apply Hw). now rewrite app_assoc.
  - (* array *) destruct v as [| | | |vs|]; try discriminate. cbn [wtb] in Hw. apply andb_true_iff in Hw. destruct Hw as [_ Hw].
    rewrite forallb_forall in Hw. cbn [abi_encode enc]. unfold enc_seq.
    apply fold_encode. intros x Hx b. apply IHt. now apply Hw.
  - destruct v as [| | | |vs|]; try discriminate. rewrite wtb_tuple in Hw. rewrite abi_encode_tuple, enc_tuple. now apply enc_go_ok.
  - destruct v as [| | | |vs|]; try discriminate. rewrite wtb_struct in Hw. rewrite abi_encode_struct, enc_struct. now apply enc_go_ok.
  - destruct v as [| | | | |k pv]; try discriminate. rewrite wtb_enum in Hw. apply andb_true_iff in Hw. destruct Hw as [_ Hw].
    rewrite abi_encode_enum, enc_enum. unfold wtb_variant, enc_variant in *.
    destruct (nth_error ts k) as [tk|] eqn:Hk; [|discriminate].
    rewrite Forall_forall in H. rewrite (H tk (nth_error_In _ _ Hk) pv _ Hw). now rewrite app_assoc.
Qed.

Lemma encode_is_canonical t v : wtb t v = true -> encode t v = enc t v.
Proof.
  intros Hw. unfold encode. destruct (trivial_enc t) eqn:Htr.
  - now apply trivial_enc_sound.
  - now rewrite (abi_encode_is_enc t v [] Hw).
Qed.

(* ---- decode (enc v ++ rest) = (v, rest) *)
Lemma read_n_app a r : read_n (nlen a) (a ++ r) = Ok (a, r).
Proof.
  unfold read_n. rewrite nlen_app. destruct (nlen a <=? nlen a + nlen r) eqn:E; [|lia].
  now rewrite ntake_app_exact, ndrop_app_exact.
Qed.
Lemma read_be k n r : read_n (N.of_nat k) (be_bytes k n ++ r) = Ok (be_bytes k n, r).
Proof. rewrite <- (nlen_be_bytes k n). apply read_n_app. Qed.

Lemma dec_num_enc k n r : n < 256 ^ N.of_nat k -> dec_num (N.of_nat k) (be_bytes k n ++ r) = Ok (VNum n, r).
Proof. intros H. unfold dec_num. rewrite read_be. cbn [obind fst snd]. now rewrite be_val_be_bytes. Qed.

Definition dec_ok_at (t : aty) : Prop := forall v rest, wtb t v = true -> abi_decode t (enc t v ++ rest) = Ok (v, rest).

Lemma dec_n_enc t vs : (forall x, In x vs -> forall rest, abi_decode t (enc t x ++ rest) = Ok (x, rest)) ->
  forall rest, dec_n (abi_decode t) (length vs) (flat_map (enc t) vs ++ rest) = Ok (vs, rest).
Proof.
  induction vs as [|x r IH]; intros H rest; [reflexivity|].
  cbn [length dec_n flat_map]. rewrite <- app_assoc, (H x (or_introl eq_refl)). cbn [obind fst snd].
  rewrite IH by (intros y Hy; apply H; now right). reflexivity.
Qed.

Lemma abi_decode_tuple ts bs : abi_decode (ATuple ts) bs = obind (dec_fields ts bs) (fun vr => Ok (VSeq (fst vr), snd vr)).
Proof. reflexivity. Qed.
Lemma abi_decode_struct ts bs : abi_decode (AStruct ts) bs = obind (dec_fields ts bs) (fun vr => Ok (VSeq (fst vr), snd vr)).
Proof. reflexivity. Qed.
Lemma pick_dec (tag : nat) (bs' : list N) ts : forall j,
  (fix pick (ts : list aty) (j : nat) : outcome (aval * list N) :=
     match ts, j with
     | t :: _, O => obind (abi_decode t bs') (fun vr => Ok (VEnum tag (fst vr), snd vr))
     | _ :: r, S j' => pick r j'
     | [], _ => Err REVERT0
     end) ts j =
  match nth_error ts j with
  | Some t => obind (abi_decode t bs') (fun vr => Ok (VEnum tag (fst vr), snd vr))
  | None => Err REVERT0
  end.
Proof. induction ts as [|t r IH]; intros [|j]; cbn [nth_error]; try reflexivity. apply IH. Qed.

Lemma abi_decode_enum ts bs : abi_decode (AEnum ts) bs =
  obind (read_n 8 bs) (fun lr => dec_variant ts (N.to_nat (be_val (fst lr))) (snd lr)).
Proof.
  cbn [abi_decode]. destruct (read_n 8 bs) as [lr| | |]; try reflexivity. cbn [obind]. unfold dec_variant.
  destruct (be_val (fst lr) <? nlen ts) eqn:E.
  - apply pick_dec.
  - assert (Hn : nth_error ts (N.to_nat (be_val (fst lr))) = None) by (apply nth_error_None; unfold nlen in E; lia).
    now rewrite Hn.
Qed.

Lemma dec_fields_enc ts : Forall dec_ok_at ts -> forall vs rest, wtb_fields ts vs = true ->
  dec_fields ts (enc_fields ts vs ++ rest) = Ok (vs, rest).
Proof.
  induction 1 as [|t r Ht Hr IH]; intros [|v vs] rest Hw; cbn [wtb_fields] in Hw; try discriminate; [reflexivity|].
  apply andb_true_iff in Hw. destruct Hw as [H1 H2]. cbn [dec_fields enc_fields].
  rewrite <- app_assoc, (Ht v _ H1). cbn [obind fst snd]. rewrite (IH vs rest H2). reflexivity.
Qed.

Lemma pow_256_8 : 256 ^ N.of_nat 8 = U64_MAX1. Proof. reflexivity. Qed.

Lemma num_dec_ok k (bound : N) t (Ht : forall n, wtb t (VNum n) = (n <? bound)) (He : forall n, enc t (VNum n) = be_bytes k n)
  (Hd : forall bs, abi_decode t bs = dec_num (N.of_nat k) bs) (Hb : 256 ^ N.of_nat k = bound)
  (Hv : forall v, wtb t v = true -> exists n, v = VNum n) : dec_ok_at t.
Proof.
  intros v rest Hw. destruct (Hv v Hw) as [n ->]. rewrite Ht in Hw. rewrite He, Hd. apply dec_num_enc. rewrite Hb. lia.
Qed.

Lemma decode_encode t : dec_ok_at t.
Proof.
  induction t using aty_ind'; unfold dec_ok_at; try (intros v rest Hw).
  - destruct v; try discriminate. reflexivity.
  - destruct v as [|b| | | |]; try discriminate. cbn [enc abi_decode].
    change (read_n 1 ([if b then 1 else 0] ++ rest)) with (read_n (nlen [if b then 1 else 0]) ([if b then 1 else 0] ++ rest)).
    rewrite read_n_app. destruct b; reflexivity.
  - revert v rest Hw. apply (num_dec_ok 1 256); try reflexivity. intros v0 Hw0; destruct v0; try discriminate; eauto.
  - revert v rest Hw. apply (num_dec_ok 2 65536); try reflexivity. intros v0 Hw0; destruct v0; try discriminate; eauto.
  - revert v rest Hw. apply (num_dec_ok 4 4294967296); try reflexivity. intros v0 Hw0; destruct v0; try discriminate; eauto.
  - revert v rest Hw. apply (num_dec_ok 8 U64_MAX1); try reflexivity. intros v0 Hw0; destruct v0; try discriminate; eauto.
  - revert v rest Hw. apply (num_dec_ok 32 U256_MAX1); try reflexivity. intros v0 Hw0; destruct v0; try discriminate; eauto.
  - revert v rest Hw. apply (num_dec_ok 32 U256_MAX1); try reflexivity. intros v0 Hw0; destruct v0; try discriminate; eauto.
  - destruct v; try discriminate. cbn [wtb] in Hw. apply andb_true_iff in Hw. destruct Hw as [H1 _].
    cbn [enc abi_decode]. assert (Hn : n = nlen bs) by lia. subst n. now rewrite read_n_app.
  - destruct v; try discriminate. cbn [wtb] in Hw. apply andb_true_iff in Hw. destruct Hw as [H1 _].
    cbn [enc abi_decode]. unfold dec_len_bytes. rewrite <- app_assoc, (read_be 8). cbn [obind fst snd].
    rewrite be_val_be_bytes by (rewrite pow_256_8; lia). now rewrite read_n_app.
  - destruct v; try discriminate. cbn [wtb] in Hw. apply andb_true_iff in Hw. destruct Hw as [H1 _].
    cbn [enc abi_decode]. unfold dec_len_bytes. rewrite <- app_assoc, (read_be 8). cbn [obind fst snd].
    rewrite be_val_be_bytes by (rewrite pow_256_8; lia). now rewrite read_n_app.
  - destruct v; try discriminate. cbn [wtb] in Hw. apply andb_true_iff in Hw. destruct Hw as [H1 _].
    cbn [enc abi_decode]. unfold dec_len_bytes. rewrite <- app_assoc, (read_be 8). cbn [obind fst snd].
    rewrite be_val_be_bytes by (rewrite pow_256_8; lia). now rewrite read_n_app.
  - destruct v; try discriminate. cbn [wtb] in Hw. apply andb_true_iff in Hw. destruct Hw as [H1 _].
    cbn [enc abi_decode]. unfold dec_len_bytes. rewrite <- app_assoc, (read_be 8). cbn [obind fst snd].
    rewrite be_val_be_bytes by (rewrite pow_256_8; lia). now rewrite read_n_app.
  - (* Vec *) destruct v as [| | | |vs|]; try discriminate. cbn [wtb] in Hw. apply andb_true_iff in Hw. destruct Hw as [H1 H2].
    rewrite forallb_forall in H2. cbn [enc abi_decode]. unfold enc_seq. rewrite <- app_assoc, (read_be 8). cbn [obind fst snd].
    rewrite be_val_be_bytes by (rewrite pow_256_8; lia). unfold nlen. rewrite Nat2N.id.
    rewrite dec_n_enc by (intros x Hx r; apply IHt; now apply H2). reflexivity.
  - (* array *) destruct v as [| | | |vs|]; try discriminate. cbn [wtb] in Hw. apply andb_true_iff in Hw. destruct Hw as [H1 H2].
    rewrite forallb_forall in H2. cbn [enc abi_decode]. unfold enc_seq.
    assert (Hn : N.to_nat n = length vs) by (unfold nlen in H1; lia). rewrite Hn.
    rewrite dec_n_enc by (intros x Hx r; apply IHt; now apply H2). reflexivity.
  - destruct v as [| | | |vs|]; try discriminate. rewrite wtb_tuple in Hw. rewrite abi_decode_tuple, enc_tuple.
    now rewrite (dec_fields_enc ts H vs rest Hw).
  - destruct v as [| | | |vs|]; try discriminate. rewrite wtb_struct in Hw. rewrite abi_decode_struct, enc_struct.
    now rewrite (dec_fields_enc ts H vs rest Hw).
  - destruct v as [| | | | |k pv]; try discriminate. rewrite wtb_enum in Hw. apply andb_true_iff in Hw. destruct Hw as [Hk Hw].
    rewrite abi_decode_enum, enc_enum. rewrite <- app_assoc, (read_be 8). cbn [obind fst snd].
    rewrite be_val_be_bytes by (rewrite pow_256_8; lia). rewrite Nat2N.id.
    unfold dec_variant, wtb_variant, enc_variant in *. destruct (nth_error ts k) as [tk|] eqn:Hnth; [|discriminate].
    rewrite Forall_forall in H. rewrite (H tk (nth_error_In _ _ Hnth) pv rest Hw). reflexivity.
Qed.

(* ---- decode accepts canonical bytes only and yields well-typed values *)
Lemma obind_ok {A B} (x : outcome A) (f : A -> outcome B) y : obind x f = Ok y -> exists a, x = Ok a /\ f a = Ok y.
Proof. destruct x; cbn; intros H; try discriminate. eauto. Qed.

Lemma read_n_inv n bs x r : read_n n bs = Ok (x, r) -> bs = x ++ r /\ nlen x = n.
Proof.
  unfold read_n. destruct (n <=? nlen bs) eqn:E; [|discriminate]. intros H. inversion H; subst.
  split; [symmetry; apply ntake_ndrop | rewrite nlen_ntake; lia].
Qed.

Definition canon_at (t : aty) : Prop := forall bs v r, bytes_ok bs -> abi_decode t bs = Ok (v, r) ->
  wtb t v = true /\ bs = enc t v ++ r /\ bytes_ok r.

Lemma forallb_byte_ok x : bytes_ok x -> forallb byte_okb x = true.
Proof. unfold bytes_ok. induction 1 as [|a l Ha Hl IH]; [reflexivity|]. cbn. rewrite IH. unfold byte_ok, byte_okb in *. apply andb_true_iff. split; [lia|reflexivity]. Qed.

Lemma dec_num_inv k bs v r : dec_num (N.of_nat k) bs = Ok (v, r) -> bytes_ok bs ->
  exists n, v = VNum n /\ n < 256 ^ N.of_nat k /\ bs = be_bytes k n ++ r /\ bytes_ok r.
Proof.
  unfold dec_num. intros H Hok. apply obind_ok in H. destruct H as [[x r'] [H1 H2]]. cbn [fst snd] in H2. inversion H2; subst.
  apply read_n_inv in H1. destruct H1 as [H1 H3]. subst bs. apply bytes_ok_app in Hok. destruct Hok as [Hx Hr].
  assert (Hl : length x = k) by (unfold nlen in H3; lia).
  exists (be_val x). split; [reflexivity|]. split; [rewrite <- H3; now apply be_val_bound|].
  split; [|exact Hr]. rewrite <- Hl. now rewrite be_bytes_be_val.
Qed.

Lemma dec_len_bytes_inv bs v r : dec_len_bytes bs = Ok (v, r) -> bytes_ok bs ->
  exists d, v = VBytes d /\ (nlen d <? U64_MAX1) && forallb byte_okb d = true /\ bs = (be_bytes 8 (nlen d) ++ d) ++ r /\ bytes_ok r.
Proof.
  unfold dec_len_bytes. intros H Hok. apply obind_ok in H. destruct H as [[x r1] [H1 H2]]. cbn [fst snd] in H2.
  apply obind_ok in H2. destruct H2 as [[d r2] [H2 H3]]. cbn [fst snd] in H3. inversion H3; subst.
  apply read_n_inv in H1. destruct H1 as [H1 Hx]. apply read_n_inv in H2. destruct H2 as [H2 Hd]. subst bs r1.
  apply bytes_ok_app in Hok. destruct Hok as [Hox Hok]. apply bytes_ok_app in Hok. destruct Hok as [Hod Hor].
  assert (Hl : length x = 8%nat) by (unfold nlen in Hx; lia).
  exists d. split; [reflexivity|]. split.
  - apply andb_true_iff. split; [|now apply forallb_byte_ok]. apply N.ltb_lt. rewrite Hd.
    pose proof (be_val_bound x Hox) as Hb. rewrite Hx in Hb. exact Hb.
  - split; [|exact Hor]. rewrite Hd, <- Hl, be_bytes_be_val by exact Hox. now rewrite app_assoc.
Qed.

Lemma dec_n_inv t : canon_at t -> forall k bs vs r, bytes_ok bs -> dec_n (abi_decode t) k bs = Ok (vs, r) ->
  length vs = k /\ forallb (wtb t) vs = true /\ bs = flat_map (enc t) vs ++ r /\ bytes_ok r.
Proof.
  intros Hc. induction k as [|k IH]; intros bs vs r Hok H; cbn [dec_n] in H.
  - inversion H; subst. repeat split. exact Hok.
  - apply obind_ok in H. destruct H as [[v r1] [H1 H2]]. cbn [fst snd] in H2.
    apply obind_ok in H2. destruct H2 as [[vs' r2] [H2 H3]]. cbn [fst snd] in H3. inversion H3; subst.
    destruct (Hc _ _ _ Hok H1) as [Hw [Hb Hr1]]. destruct (IH _ _ _ Hr1 H2) as [Hl [Hws [Hb2 Hr2]]].
    cbn [length forallb flat_map]. rewrite Hl, Hw, Hws. repeat split; [|exact Hr2]. rewrite Hb, Hb2. now rewrite app_assoc.
Qed.

Lemma dec_fields_inv ts : Forall canon_at ts -> forall bs vs r, bytes_ok bs -> dec_fields ts bs = Ok (vs, r) ->
  wtb_fields ts vs = true /\ bs = enc_fields ts vs ++ r /\ bytes_ok r.
Proof.
  induction 1 as [|t rs Ht Hrs IH]; intros bs vs r Hok H; cbn [dec_fields] in H.
  - inversion H; subst. repeat split. exact Hok.
  - apply obind_ok in H. destruct H as [[v r1] [H1 H2]]. cbn [fst snd] in H2.
    apply obind_ok in H2. destruct H2 as [[vs' r2] [H2 H3]]. cbn [fst snd] in H3. inversion H3; subst.
    destruct (Ht _ _ _ Hok H1) as [Hw [Hb Hr1]]. destruct (IH _ _ _ Hr1 H2) as [Hws [Hb2 Hr2]].
    cbn [wtb_fields enc_fields]. rewrite Hw, Hws. repeat split; [|exact Hr2]. rewrite Hb, Hb2. now rewrite app_assoc.
Qed.

Lemma num_case k (bound : N) t (Ht : forall n, wtb t (VNum n) = (n <? bound)) (He : forall n, enc t (VNum n) = be_bytes k n)
  (Hd : forall bs, abi_decode t bs = dec_num (N.of_nat k) bs) (Hb : 256 ^ N.of_nat k = bound) : canon_at t.
Proof.
  intros bs v r Hok H. rewrite Hd in H. destruct (dec_num_inv _ _ _ _ H Hok) as [n [-> [Hn [Hbs Hr]]]].
  rewrite Ht, He. split; [apply N.ltb_lt; lia|]. split; assumption.
Qed.

Lemma decode_canonical_only t : canon_at t.
Proof.
  induction t using aty_ind'.
  - intros bs v r Hok H. cbn in H. inversion H; subst. repeat split. exact Hok.
  - (* bool *) intros bs v r Hok H. cbn [abi_decode] in H. apply obind_ok in H. destruct H as [[x r1] [H1 H2]]. cbn [fst snd] in H2.
    apply read_n_inv in H1. destruct H1 as [H1 Hx]. subst bs. apply bytes_ok_app in Hok. destruct Hok as [Hox Hor].
    assert (Hl : length x = 1%nat) by (unfold nlen in Hx; lia).
    destruct x as [|b [|? ?]]; try discriminate. unfold be_val in H2. cbn [fold_left] in H2.
    replace (0 * 256 + b) with b in H2 by lia.
    destruct (b =? 0) eqn:E0; [inversion H2; subst; apply N.eqb_eq in E0; subst; repeat split; exact Hor|].
    destruct (b =? 1) eqn:E1; [inversion H2; subst; apply N.eqb_eq in E1; subst; repeat split; exact Hor|discriminate].
  - apply (num_case 1 256); try reflexivity.
  - apply (num_case 2 65536); try reflexivity.
  - apply (num_case 4 4294967296); try reflexivity.
  - apply (num_case 8 U64_MAX1); try reflexivity.
  - apply (num_case 32 U256_MAX1); try reflexivity.
  - apply (num_case 32 U256_MAX1); try reflexivity.
  - (* str[N] *) intros bs v r Hok H. cbn [abi_decode] in H. apply obind_ok in H. destruct H as [[x r1] [H1 H2]]. cbn [fst snd] in H2.
    inversion H2; subst. apply read_n_inv in H1. destruct H1 as [H1 Hx]. subst bs. apply bytes_ok_app in Hok. destruct Hok as [Hox Hor].
    cbn [wtb enc]. rewrite (forallb_byte_ok _ Hox). repeat split; [|exact Hor]. apply andb_true_iff. split; [lia|reflexivity].
  - intros bs v r Hok H. cbn [abi_decode] in H. destruct (dec_len_bytes_inv _ _ _ H Hok) as [d [-> [Hw [Hb Hr]]]]. cbn [wtb enc]. repeat split; assumption.
  - intros bs v r Hok H. cbn [abi_decode] in H. destruct (dec_len_bytes_inv _ _ _ H Hok) as [d [-> [Hw [Hb Hr]]]]. cbn [wtb enc]. repeat split; assumption.
  - intros bs v r Hok H. cbn [abi_decode] in H. destruct (dec_len_bytes_inv _ _ _ H Hok) as [d [-> [Hw [Hb Hr]]]]. cbn [wtb enc]. repeat split; assumption.
  - intros bs v r Hok H. cbn [abi_decode] in H. destruct (dec_len_bytes_inv _ _ _ H Hok) as [d [-> [Hw [Hb Hr]]]]. cbn [wtb enc]. repeat split; assumption.
  - (* Vec *) intros bs v r Hok H. cbn [abi_decode] in H. apply obind_ok in H. destruct H as [[x r1] [H1 H2]]. cbn [fst snd] in H2.
    apply obind_ok in H2. destruct H2 as [[vs r2] [H2 H3]]. cbn [fst snd] in H3. inversion H3; subst.
    apply read_n_inv in H1. destruct H1 as [H1 Hx]. subst bs. apply bytes_ok_app in Hok. destruct Hok as [Hox Hor].
    destruct (dec_n_inv t IHt _ _ _ _ Hor H2) as [Hl [Hws [Hb Hr]]].
    assert (Hlx : length x = 8%nat) by (unfold nlen in Hx; lia).
    pose proof (be_val_bound x Hox) as Hbound. rewrite Hx in Hbound.
    assert (Hn : nlen vs = be_val x) by (unfold nlen; lia).
    cbn [wtb enc]. unfold enc_seq. rewrite Hws, Hn. repeat split; [| |exact Hr].
    + apply andb_true_iff. split; [apply N.ltb_lt; exact Hbound | reflexivity].
    + rewrite <- Hlx, be_bytes_be_val by exact Hox. rewrite Hb. now rewrite app_assoc.
  - (* array *) intros bs v r Hok H. cbn [abi_decode] in H. apply obind_ok in H. destruct H as [[vs r2] [H2 H3]]. cbn [fst snd] in H3. inversion H3; subst.
    destruct (dec_n_inv t IHt _ _ _ _ Hok H2) as [Hl [Hws [Hb Hr]]].
    cbn [wtb enc]. unfold enc_seq. rewrite Hws. repeat split; [|exact Hb|exact Hr].
    apply andb_true_iff. split; [unfold nlen; lia | reflexivity].
  - intros bs v r Hok Hd. rewrite abi_decode_tuple in Hd. apply obind_ok in Hd. destruct Hd as [[vs r2] [H2 H3]]. cbn [fst snd] in H3. inversion H3; subst.
    destruct (dec_fields_inv ts H _ _ _ Hok H2) as [Hw [Hb Hr]]. rewrite wtb_tuple, enc_tuple. repeat split; assumption.
  - intros bs v r Hok Hd. rewrite abi_decode_struct in Hd. apply obind_ok in Hd. destruct Hd as [[vs r2] [H2 H3]]. cbn [fst snd] in H3. inversion H3; subst.
    destruct (dec_fields_inv ts H _ _ _ Hok H2) as [Hw [Hb Hr]]. rewrite wtb_struct, enc_struct. repeat split; assumption.
  - (* enum *) intros bs v r Hok Hd. rewrite abi_decode_enum in Hd. apply obind_ok in Hd. destruct Hd as [[x r1] [H1 H2]]. cbn [fst snd] in H2.
    apply read_n_inv in H1. destruct H1 as [H1 Hx]. subst bs. apply bytes_ok_app in Hok. destruct Hok as [Hox Hor].
    unfold dec_variant in H2. destruct (nth_error ts (N.to_nat (be_val x))) as [tk|] eqn:Hk; [|discriminate].
    apply obind_ok in H2. destruct H2 as [[pv r2] [H2 H3]]. cbn [fst snd] in H3. inversion H3; subst.
    rewrite Forall_forall in H. destruct (H tk (nth_error_In _ _ Hk) _ _ _ Hor H2) as [Hw [Hb Hr]].
    assert (Hlx : length x = 8%nat) by (unfold nlen in Hx; lia).
    pose proof (be_val_bound x Hox) as Hbound. rewrite Hx in Hbound.
    rewrite wtb_enum, enc_enum. unfold wtb_variant, enc_variant. rewrite Hk, Hw, N2Nat.id.
    repeat split; [| |exact Hr].
    + apply andb_true_iff. split; [apply N.ltb_lt; exact Hbound | reflexivity].
    + rewrite <- Hlx, be_bytes_be_val by exact Hox. rewrite Hb. now rewrite app_assoc.
Qed.

(* specific rejections *)
Lemma bad_bool_reverts b rest : b <> 0 -> b <> 1 -> abi_decode ABool (b :: rest) = Err REVERT0.
Proof.
  intros H0 H1. cbn [abi_decode]. unfold read_n. rewrite nlen_cons.
  destruct (1 <=? 1 + nlen rest) eqn:E; [|lia]. cbn [obind fst snd].
  change (ntake 1 (b :: rest)) with [b]. unfold be_val. cbn [fold_left].
  replace (0 * 256 + b) with b by lia.
  destruct (b =? 0) eqn:E0; [lia|]. destruct (b =? 1) eqn:E1; [lia|reflexivity].
Qed.

Lemma unknown_tag_reverts ts tag rest : N.of_nat (length ts) <= tag -> tag < U64_MAX1 ->
  abi_decode (AEnum ts) (be_bytes 8 tag ++ rest) = Err REVERT0.
Proof.
  intros Hge Hlt. rewrite abi_decode_enum, (read_be 8). cbn [obind fst snd].
  rewrite be_val_be_bytes by (rewrite pow_256_8; exact Hlt). unfold dec_variant.
  destruct (nth_error ts (N.to_nat tag)) eqn:E; [|reflexivity].
  assert (N.to_nat tag < length ts)%nat by (apply nth_error_Some; congruence). lia.
Qed.
