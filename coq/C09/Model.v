(* C09 — model of sway-lib-std/src/codec.sw (primitive, array and tuple impls of AbiEncode/AbiDecode,
   Buffer as an append-only byte string, BufferReader as the remaining bytes), of the std impls for
   Vec<T>/Bytes/String, of __encode_buffer_append (ir_generation/function.rs: u16/u32 copy the low 2/4
   bytes of the word, str[N] copies N bytes, str/raw_slice append u64 length then the bytes) and of the
   derived struct/enum bodies of abi_encoding.rs (fields in order; tag as u64 then payload;
   `match variant { .. _ => __revert(0) }`).
   BufferReader has no bounds check: reading beyond the given bytes touches unmodelled memory and is the
   distinct outcome Err OOB. *)
From SwayV Require Import Base.Util Layout.Bytes Layout.Types Layout.Abi Layout.Mem C10.Model.
Local Open Scope N_scope.

Definition REVERT0 : N := 0.
Definition OOB : N := 1.

Definition obind {A B} (x : outcome A) (f : A -> outcome B) : outcome B :=
  match x with Ok a => f a | Err c => Err c | Panic s => Panic s | OutOfFuel => OutOfFuel end.

(* ---- encoding *)
Fixpoint abi_encode (t : aty) (v : aval) (buf : list N) : list N :=
  match t, v with
  | AUnit, _ => buf
  | ABool, VBool b => buf ++ [if b then 1 else 0]
  | AU8, VNum n => buf ++ [n]
  | AU16, VNum n => buf ++ ndrop 6 (be_bytes 8 n)
  | AU32, VNum n => buf ++ ndrop 4 (be_bytes 8 n)
  | AU64, VNum n => buf ++ be_bytes 8 n
  | AU256, VNum n | AB256, VNum n => buf ++ be_bytes 32 n
  | AStrArr k, VBytes bs => buf ++ ntake k (mem_bytes (TStrArray k) (MStr bs))
  | AStr, VBytes bs | ARawSlice, VBytes bs | ABytes, VBytes bs | AString, VBytes bs =>
    (buf ++ be_bytes 8 (nlen bs)) ++ bs
  | AVec t, VSeq vs =>
    let buf := buf ++ be_bytes 8 (nlen vs) in
    if trivial_enc t then buf ++ flat_map (fun x => mem_bytes (ir_of t) (lower t x)) vs   (* append_raw(ptr, len * size_of T) *)
    else fold_left (fun b x => abi_encode t x b) vs buf
  | AArray t _, VSeq vs => fold_left (fun b x => abi_encode t x b) vs buf
  | ATuple ts, VSeq vs | AStruct ts, VSeq vs =>
    (fix go (ts : list aty) (vs : list aval) (buf : list N) : list N :=
       match ts, vs with t :: ts', v :: vs' => go ts' vs' (abi_encode t v buf) | _, _ => buf end) ts vs buf
  | AEnum ts, VEnum k v =>
    let buf := buf ++ be_bytes 8 (N.of_nat k) in
    (fix pick (ts : list aty) (j : nat) : list N :=
       match ts, j with
       | t :: _, O => abi_encode t v buf
       | _ :: r, S j' => pick r j'
       | [], _ => buf
       end) ts k
  | _, _ => buf
  end.

(* encode<T>(item): memcpy of size_of::<T>() bytes when classified trivial, otherwise abi_encode into a
   fresh Buffer.  `log`, `encode_and_return` and contract returns go through the same choice. *)
Definition encode (t : aty) (v : aval) : list N :=
  if trivial_enc t then mem_bytes (ir_of t) (lower t v) else abi_encode t v [].

(* ---- decoding *)
Definition read_n (n : N) (bs : list N) : outcome (list N * list N) :=
  if n <=? nlen bs then Ok (ntake n bs, ndrop n bs) else Err OOB.

Fixpoint dec_n (f : list N -> outcome (aval * list N)) (k : nat) (bs : list N) : outcome (list aval * list N) :=
  match k with
  | O => Ok ([], bs)
  | S k' => obind (f bs) (fun vr => obind (dec_n f k' (snd vr)) (fun vsr => Ok (fst vr :: fst vsr, snd vsr)))
  end.

Definition dec_num (k : N) (bs : list N) : outcome (aval * list N) :=
  obind (read_n k bs) (fun xr => Ok (VNum (be_val (fst xr)), snd xr)).
Definition dec_len_bytes (bs : list N) : outcome (aval * list N) :=
  obind (read_n 8 bs) (fun lr => obind (read_n (be_val (fst lr)) (snd lr)) (fun dr => Ok (VBytes (fst dr), snd dr))).

Fixpoint abi_decode (t : aty) (bs : list N) : outcome (aval * list N) :=
  match t with
  | AUnit => Ok (VUnit, bs)
  | ABool =>
    obind (read_n 1 bs) (fun xr =>
      let b := be_val (fst xr) in
      if b =? 0 then Ok (VBool false, snd xr) else if b =? 1 then Ok (VBool true, snd xr) else Err REVERT0)
  | AU8 => dec_num 1 bs
  | AU16 => dec_num 2 bs          (* two byte reads, (a << 8) | b *)
  | AU32 => dec_num 4 bs          (* four byte reads *)
  | AU64 => dec_num 8 bs          (* read_8_bytes *)
  | AU256 | AB256 => dec_num 32 bs
  | AStrArr k => obind (read_n k bs) (fun xr => Ok (VBytes (fst xr), snd xr))
  | AStr | ARawSlice | ABytes | AString => dec_len_bytes bs
  | AVec t =>
    obind (read_n 8 bs) (fun lr =>
      obind (dec_n (abi_decode t) (N.to_nat (be_val (fst lr))) (snd lr)) (fun vr => Ok (VSeq (fst vr), snd vr)))
  | AArray t n => obind (dec_n (abi_decode t) (N.to_nat n) bs) (fun vr => Ok (VSeq (fst vr), snd vr))
  | ATuple ts | AStruct ts =>
    obind ((fix go (ts : list aty) (bs : list N) : outcome (list aval * list N) :=
              match ts with
              | [] => Ok ([], bs)
              | t :: r => obind (abi_decode t bs) (fun vr => obind (go r (snd vr)) (fun vsr => Ok (fst vr :: fst vsr, snd vsr)))
              end) ts bs) (fun vr => Ok (VSeq (fst vr), snd vr))
  | AEnum ts =>
    obind (read_n 8 bs) (fun lr =>
      if be_val (fst lr) <? nlen ts then      (* `_ => __revert(0)` arm, tested before converting the tag to nat *)
        let tag := N.to_nat (be_val (fst lr)) in
        (fix pick (ts : list aty) (j : nat) : outcome (aval * list N) :=
           match ts, j with
           | t :: _, O => obind (abi_decode t (snd lr)) (fun vr => Ok (VEnum tag (fst vr), snd vr))
           | _ :: r, S j' => pick r j'
           | [], _ => Err REVERT0
           end) ts tag
      else Err REVERT0)
  end.

Fixpoint dec_fields (ts : list aty) (bs : list N) : outcome (list aval * list N) :=
  match ts with
  | [] => Ok ([], bs)
  | t :: r => obind (abi_decode t bs) (fun vr => obind (dec_fields r (snd vr)) (fun vsr => Ok (fst vr :: fst vsr, snd vsr)))
  end.
Definition dec_variant (ts : list aty) (tag : nat) (bs : list N) : outcome (aval * list N) :=
  match nth_error ts tag with
  | Some t => obind (abi_decode t bs) (fun vr => Ok (VEnum tag (fst vr), snd vr))
  | None => Err REVERT0
  end.
