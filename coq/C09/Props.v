(* C09 — property theorems only. *)
From SwayV Require Import Base.Util Layout.Bytes Layout.Types Layout.Abi Layout.Mem C10.Model C09.Model C09.Spec C09.Proofs C10.Proofs.
Local Open Scope N_scope.

(* What a Sway program emits for a value (log / return: `encode`, with its memcpy fast path, and the
   explicit AbiEncode::abi_encode into any buffer) is the canonical encoding.  All type trees, all values. *)
Theorem C09_encode_is_canonical : forall t v, wtb t v = true ->
  encode t v = enc t v /\ forall buf, abi_encode t v buf = buf ++ enc t v.
Proof. intros t v Hw. split; [now apply encode_is_canonical | intros buf; now apply abi_encode_is_enc]. Qed.
Print Assumptions C09_encode_is_canonical.

(* Decoding canonical bytes (followed by anything) reconstructs the value and leaves the rest. *)
Theorem C09_decode_encode : forall t v rest, wtb t v = true -> abi_decode t (enc t v ++ rest) = Ok (v, rest).
Proof. exact decode_encode. Qed.
Print Assumptions C09_decode_encode.

(* Whatever decoding accepts was canonical and is well typed. *)
Theorem C09_decode_canonical_only : forall t bs v rest,
  bytes_ok bs -> abi_decode t bs = Ok (v, rest) -> wtb t v = true /\ bs = enc t v ++ rest.
Proof. intros t bs v rest Hok H. destruct (decode_canonical_only t bs v rest Hok H) as [H1 [H2 _]]. now split. Qed.
Print Assumptions C09_decode_canonical_only.

(* The encoding is canonical in the strict sense: prefix-free and injective on well-typed values. *)
Theorem C09_enc_injective : forall t v1 v2 r1 r2, wtb t v1 = true -> wtb t v2 = true ->
  enc t v1 ++ r1 = enc t v2 ++ r2 -> v1 = v2 /\ r1 = r2.
Proof.
  intros t v1 v2 r1 r2 H1 H2 He. pose proof (decode_encode t v1 r1 H1) as D1. rewrite He, (decode_encode t v2 r2 H2) in D1.
  inversion D1. now split.
Qed.
Print Assumptions C09_enc_injective.

(* The memcpy decode fast path agrees with the reader: for a trivially decodable type the copied
   bytes are the memory image of exactly the value the reader would produce. *)
Theorem C09_trivial_decode_agrees : forall t b, trivial_dec t = true -> bytes_ok b -> nlen b = size (ir_of t) ->
  exists v, abi_decode t b = Ok (v, []) /\ mem_bytes (ir_of t) (lower t v) = b /\ wtb t v = true.
Proof.
  intros t b Hd Hok Hl. destruct (trivial_dec_sound t Hd b Hok Hl) as [v [H1 [H2 H3]]].
  exists v. split; [|split; assumption]. rewrite <- H3 at 1. rewrite <- (app_nil_r (enc t v)). now apply decode_encode.
Qed.
Print Assumptions C09_trivial_decode_agrees.

Example C09_ex_nested :
  let t := AStruct [AU8; AVec (AOption AU16); AStr; AEnum [AUnit; ATuple [ABool; AB256]]] in
  let v := VSeq [VNum 7; VSeq [VEnum 1 (VNum 258); VEnum 0 VUnit]; VBytes [104; 105]; VEnum 1 (VSeq [VBool true; VNum 1])] in
  wtb t v = true /\ encode t v = enc t v /\ abi_decode t (enc t v) = Ok (v, []) /\
  firstn 29 (enc t v) = [7; 0;0;0;0;0;0;0;2; 0;0;0;0;0;0;0;1; 1;2; 0;0;0;0;0;0;0;0; 0;0].
Proof. vm_compute. repeat split. Qed.
