(* C21/Proofs.v — totality of the modelled readers (repaired code). *)
From SwayV Require Import Base.Util C21.Str C21.Model C21.Spec.
Require Import ZifyBool ZifyN.

Arguments N.add : simpl never. Arguments N.sub : simpl never. Arguments N.mul : simpl never.
Arguments N.eqb : simpl never. Arguments N.ltb : simpl never. Arguments N.leb : simpl never.

(* computational form of value_or_error *)
Definition np {A} (o : outcome A) : Prop :=
  match o with Ok _ | Err _ => True | _ => False end.

Lemma np_voe {A} (o : outcome A) : np o <-> value_or_error o.
Proof.
  unfold value_or_error. destruct o; cbn; split; intros H; try tauto.
  - left; eauto.
  - right; eauto.
  - destruct H as [[a H]|[c H]]; discriminate.
  - destruct H as [[a H]|[c H]]; discriminate.
Qed.

Lemma np_bind {A B} (x : outcome A) (f : A -> outcome B) :
  np x -> (forall a, x = Ok a -> np (f a)) -> np (obind x f).
Proof. destruct x; cbn; intros H K; auto. Qed.

Lemma np_or_else {A} (x k : outcome A) : np x -> np k -> np (or_else x k).
Proof. destruct x; cbn; auto. Qed.

(* ---- sync is preserved by every way the readers cut strings ---------------------------- *)

Lemma sync_tail a s : sync (a :: s) = true -> sync s = true.
Proof. destruct s as [|b t]; [reflexivity|]. cbn [sync]. intros H. apply andb_prop in H. tauto. Qed.

Lemma sync_skipn k : forall s, sync s = true -> sync (skipn k s) = true.
Proof.
  induction k as [|k IH]; intros s H; [exact H|].
  destruct s as [|a s]; [reflexivity|]. cbn [skipn]. apply IH. eapply sync_tail; eauto.
Qed.


(* prefixes: firstn *)
Lemma sync_firstn k : forall s, sync s = true -> sync (firstn k s) = true.
Proof.
  induction k as [|k IH]; intros s H; [reflexivity|].
  destruct s as [|a s]; [reflexivity|]. cbn [firstn].
  pose proof (IH s (sync_tail _ _ H)) as IHs.
  destruct k as [|k']; [reflexivity|].
  destruct s as [|b s']; [reflexivity|].
  cbn [firstn] in *. cbn [sync] in H |- *. apply andb_prop in H. destruct H as [H1 H2].
  apply andb_true_intro. split; [exact H1|exact IHs].
Qed.

(* generic: a string that is a "prefix by construction" (b :: r with r prefix of tail) *)
Lemma sync_cons a b s t : sync (a :: b :: s) = true -> sync (b :: t) = true -> sync (a :: b :: t) = true.
Proof.
  cbn [sync]. intros H Ht. apply andb_prop in H. destruct H as [H1 _].
  apply andb_true_intro. split; [exact H1|exact Ht].
Qed.

Lemma sync_single a : sync [a] = true. Proof. reflexivity. Qed.

Lemma split_c_fst_shape c s :
  fst (split_c c s) = [] \/ exists b r, s = b :: r /\ fst (split_c c s) = b :: fst (split_c c r) /\ N.eqb b c = false.
Proof.
  destruct s as [|b r]; [left; reflexivity|]. cbn [split_c].
  destruct (split_c c r) as [h t] eqn:E. destruct (N.eqb b c) eqn:Eb; [left; reflexivity|].
  right. exists b, r. rewrite E. cbn [fst]. repeat split; auto.
Qed.

Lemma sync_split_c_fst c : forall s, sync s = true -> sync (fst (split_c c s)) = true.
Proof.
  induction s as [|a s IH]; intros H; [reflexivity|].
  cbn [split_c]. destruct (split_c c s) as [h t] eqn:E. cbn [fst] in IH.
  destruct (N.eqb a c); [reflexivity|]. cbn [fst].
  pose proof (IH (sync_tail _ _ H)) as Hh.
  destruct h as [|b h']; [reflexivity|].
  destruct (split_c_fst_shape c s) as [Hn|[b' [r [Hs [Hf _]]]]].
  - rewrite E in Hn. cbn in Hn. discriminate.
  - rewrite E in Hf. cbn [fst] in Hf. subst s. injection Hf as Hb Hh'. subst b'.
    eapply sync_cons; eauto.
Qed.

Lemma sync_split_c_snd c : forall s, sync s = true -> Forall (fun x => sync x = true) (snd (split_c c s)).
Proof.
  induction s as [|a s IH]; intros H; [constructor|].
  cbn [split_c]. destruct (split_c c s) as [h t] eqn:E. cbn [snd] in IH.
  pose proof (IH (sync_tail _ _ H)) as Ht.
  destruct (N.eqb a c); cbn [snd]; [|exact Ht].
  constructor; [|exact Ht].
  pose proof (sync_split_c_fst c s (sync_tail _ _ H)) as Hh. rewrite E in Hh. exact Hh.
Qed.

Lemma sync_split_once c : forall s h t, sync s = true -> split_once c s = Some (h, t) ->
  sync h = true /\ sync t = true.
Proof.
  induction s as [|a s IH]; intros h t H E; [discriminate|].
  cbn [split_once] in E. destruct (N.eqb a c).
  - injection E as <- <-. split; [reflexivity|eapply sync_tail; eauto].
  - destruct (split_once c s) as [[h' t']|] eqn:E'; [|discriminate].
    injection E as <- <-. destruct (IH h' t' (sync_tail _ _ H) eq_refl) as [Hh Ht]. split; [|exact Ht].
    destruct h' as [|b h'']; [reflexivity|].
    destruct s as [|b' s']; [discriminate|].
    cbn [split_once] in E'. destruct (N.eqb b' c); [discriminate|].
    destruct (split_once c s') as [[h2 t2]|]; [|discriminate]. injection E' as Hb _ _. subst b'.
    eapply sync_cons; eauto.
Qed.

Lemma sync_trim_start_k : forall s k, sync s = true -> sync (trim_start_k k s) = true.
Proof.
  induction s as [|a s IH]; intros k H.
  - destruct k; reflexivity.
  - destruct k as [|k]; cbn [trim_start_k].
    + destruct (ws_len (a :: s)); [exact H|]. apply IH. eapply sync_tail; eauto.
    + apply IH. eapply sync_tail; eauto.
Qed.

Lemma trim_end_shape s :
  trim_end s = [] \/ exists b r, s = b :: r /\ trim_end s = b :: trim_end r.
Proof.
  destruct s as [|b r]; [left; reflexivity|]. cbn [trim_end].
  destruct (is_nil (trim_start (b :: r))); [left; reflexivity|right; eauto].
Qed.

Lemma sync_trim_end : forall s, sync s = true -> sync (trim_end s) = true.
Proof.
  induction s as [|a s IH]; intros H; [reflexivity|].
  cbn [trim_end]. destruct (is_nil (trim_start (a :: s))); [reflexivity|].
  pose proof (IH (sync_tail _ _ H)) as Ht.
  destruct (trim_end_shape s) as [Hn|[b [r [Hs He]]]].
  - rewrite Hn. reflexivity.
  - rewrite He in Ht |- *. subst s. eapply sync_cons; eauto.
Qed.

Lemma sync_trim s : sync s = true -> sync (trim s) = true.
Proof. intros H. unfold trim. apply sync_trim_end. apply sync_trim_start_k. exact H. Qed.

(* ---- the offset after an ASCII prefix is a char boundary ------------------------------- *)

Definition ascii (p : str) : Prop := Forall (fun b => (b <? 128)%N = true) p.

Lemma is_boundary_cons b s i : i <> 0 -> is_boundary (b :: s) (S i) = is_boundary s i.
Proof.
  intros Hi. unfold is_boundary. cbn [Nat.eqb length nth].
  destruct (Nat.eqb i 0) eqn:E; [apply Nat.eqb_eq in E; contradiction|].
  cbn [Nat.leb]. reflexivity.
Qed.

Lemma boundary_after_prefix : forall p s,
  p <> [] -> ascii p -> starts_with p s = true -> sync s = true -> is_boundary s (length p) = true.
Proof.
  induction p as [|a p IH]; intros s Hne Ha Hsw Hs; [contradiction|].
  destruct s as [|b s]; [discriminate|]. cbn [starts_with] in Hsw.
  apply andb_prop in Hsw. destruct Hsw as [Hab Hsw]. apply N.eqb_eq in Hab. subst b.
  inversion Ha as [|? ? Ha1 Ha2]; subst.
  destruct p as [|a' p'].
  - cbn [length]. unfold is_boundary. cbn [Nat.eqb length].
    destruct s as [|c s']; [reflexivity|]. cbn [Nat.leb nth].
    cbn [sync] in Hs. apply andb_prop in Hs. destruct Hs as [Hs _].
    rewrite Ha1 in Hs. cbn in Hs. exact Hs.
  - cbn [length]. rewrite is_boundary_cons by discriminate.
    apply IH; [discriminate|exact Ha2|exact Hsw|eapply sync_tail; eauto].
Qed.

Lemma find_some0 p s : find p s = Some 0 -> starts_with p s = true.
Proof.
  destruct s as [|b s]; cbn [find]; destruct (starts_with p _) eqn:E; try reflexivity; try discriminate.
  destruct (find p s); discriminate.
Qed.

Lemma strip_checked_ok site p s :
  p <> [] -> ascii p -> sync s = true ->
  np (strip_checked site p s) /\ forall s', strip_checked site p s = Ok s' -> sync s' = true.
Proof.
  intros Hne Ha Hs. unfold strip_checked.
  destruct (find p s) as [[|n]|] eqn:E; cbn; try (split; [exact I|discriminate]).
  unfold slice_from. rewrite (boundary_after_prefix p s Hne Ha (find_some0 _ _ E) Hs).
  split; [exact I|]. intros s' H. injection H as <-. apply sync_skipn. exact Hs.
Qed.

Ltac ascii_tac := repeat constructor.

(* ---- parsers ---------------------------------------------------------------------------- *)

Section Total.
  Variables url cid ver : Type.
  Variable parse_url : str -> option url.
  Variable parse_cid : str -> option cid.
  Variable parse_ver : str -> option ver.
  Notation parse_pinned := (parse_pinned url cid ver parse_url parse_cid parse_ver).

  Lemma parse_path_np s : sync s = true -> np (@parse_path s).
  Proof.
    intros Hs. unfold parse_path.
    destruct (strip_checked_ok 1 s_path_plus (trim s)) as [H1 _];
      [discriminate|ascii_tac|apply sync_trim; exact Hs|].
    apply np_bind; [exact H1|]. intros a _.
    destruct (split_str_nth1 s_from_root a); [|exact I].
    destruct (parse_u64_hex s0); exact I.
  Qed.

  Lemma parse_reference_np rf commit : sync rf = true -> np (parse_reference rf commit).
  Proof.
    intros Hs. unfold parse_reference.
    destruct (find s_branch_eq rf) as [[|n]|] eqn:E.
    - unfold slice_from.
      rewrite (boundary_after_prefix s_branch_eq rf) by
        (try discriminate; try ascii_tac; try (apply find_some0; exact E); exact Hs).
      exact I.
    - destruct (find s_tag_eq rf) as [[|m]|] eqn:E2.
      + unfold slice_from.
        rewrite (boundary_after_prefix s_tag_eq rf) by
          (try discriminate; try ascii_tac; try (apply find_some0; exact E2); exact Hs).
        exact I.
      + destruct (str_eqb rf s_rev); [exact I|]. destruct (str_eqb rf s_default_branch); exact I.
      + destruct (str_eqb rf s_rev); [exact I|]. destruct (str_eqb rf s_default_branch); exact I.
    - destruct (find s_tag_eq rf) as [[|m]|] eqn:E2.
      + unfold slice_from.
        rewrite (boundary_after_prefix s_tag_eq rf) by
          (try discriminate; try ascii_tac; try (apply find_some0; exact E2); exact Hs).
        exact I.
      + destruct (str_eqb rf s_rev); [exact I|]. destruct (str_eqb rf s_default_branch); exact I.
      + destruct (str_eqb rf s_rev); [exact I|]. destruct (str_eqb rf s_default_branch); exact I.
  Qed.

  Lemma git_tail_np repo s2 : sync s2 = true -> np (git_tail url cid ver repo s2).
  Proof.
    intros Hs. unfold git_tail.
    pose proof (sync_split_c_fst c_hash s2 Hs) as Hf.
    destruct (split_c c_hash s2) as [rf rest]. cbn [fst] in Hf.
    destruct rest as [|commit rest']; [exact I|].
    destruct (validate_commit commit); [|exact I].
    apply np_bind; [apply parse_reference_np; exact Hf|]. intros; exact I.
  Qed.

  Lemma git_head_ok s : sync s = true ->
    np (git_head s) /\ forall h, git_head s = Ok h -> sync (snd h) = true.
  Proof.
    intros Hs. unfold git_head.
    destruct (strip_checked_ok 2 s_git_plus (trim s)) as [H1 H2];
      [discriminate|ascii_tac|apply sync_trim; exact Hs|].
    destruct (strip_checked 2 s_git_plus (trim s)) as [s1| | |]; cbn in *; try tauto.
    - split; [exact I|]. intros h E. injection E as <-. cbn. apply H2. reflexivity.
    - split; [exact I|discriminate].
  Qed.

  Lemma parse_git_np s : sync s = true -> np (@parse_git url cid ver parse_url s).
  Proof.
    intros Hs. unfold parse_git. destruct (git_head_ok s Hs) as [H1 H2].
    apply np_bind; [exact H1|]. intros h Eh. specialize (H2 h Eh).
    destruct (parse_url (fst h)); [|exact I].
    unfold get_from. destruct (is_boundary (snd h) _); [|exact I].
    apply git_tail_np. apply sync_skipn. exact H2.
  Qed.

  Lemma parse_ipfs_np s : sync s = true -> np (@parse_ipfs url cid ver parse_cid s).
  Proof.
    intros Hs. unfold parse_ipfs, ipfs_head.
    destruct (strip_checked_ok 6 s_ipfs_plus (trim s)) as [H1 _];
      [discriminate|ascii_tac|apply sync_trim; exact Hs|].
    apply np_bind; [exact H1|]. intros a _. destruct (parse_cid a); exact I.
  Qed.

  Lemma reg_tail_np h : np (reg_tail url cid ver parse_cid parse_ver h).
  Proof.
    unfold reg_tail. destruct h as [[n v] rest].
    destruct (parse_ver v); [|exact I].
    destruct (reg_cid_str rest) as [[c r2]|]; [|exact I].
    destruct (validate_cid c); [|exact I].
    destruct (parse_cid c); exact I.
  Qed.

  Lemma parse_reg_np s : sync s = true -> np (@parse_reg url cid ver parse_cid parse_ver s).
  Proof.
    intros Hs. unfold parse_reg. apply np_bind; [|intros; apply reg_tail_np].
    unfold reg_head.
    destruct (strip_checked_ok 7 s_registry_plus (trim s)) as [H1 _];
      [discriminate|ascii_tac|apply sync_trim; exact Hs|].
    apply np_bind; [exact H1|]. intros wp _.
    destruct (get_from wp _); [|exact I].
    destruct (split_c c_hash s0). exact I.
  Qed.

  Lemma parse_pinned_np s : sync s = true -> np (parse_pinned s).
  Proof.
    intros Hs. unfold Model.parse_pinned.
    destruct (str_eqb s s_root || str_eqb s s_member); [exact I|].
    apply np_or_else.
    { apply np_bind; [apply parse_path_np; exact Hs|]. intros; exact I. }
    apply np_or_else; [apply parse_git_np; exact Hs|].
    apply np_or_else; [apply parse_ipfs_np; exact Hs|].
    apply np_or_else; [apply parse_reg_np; exact Hs|exact I].
  Qed.

End Total.

Lemma parse_dep_line_np line : sync line = true -> np (parse_dep_line line).
Proof.
  intros Hs. unfold parse_dep_line.
  pose proof (sync_trim line Hs) as Ht.
  apply np_bind.
  - destruct (starts_with [c_lpar] (trim line)) eqn:E; [|exact I].
    unfold slice_from.
    assert (Hb : is_boundary (trim line) (length [c_lpar]) = true)
      by (apply boundary_after_prefix; [discriminate|ascii_tac|exact E|exact Ht]).
    cbn [length] in Hb. rewrite Hb.
    cbn [obind]. destruct (split_once c_rpar _) as [[dn rest]|]; exact I.
  - intros [dep_name s] _.
    destruct (split_c c_lpar s) as [pkg0 rest].
    destruct rest as [|x rest']; [exact I|].
    destruct (strip_suffix_c c_rpar (trim x)); [|exact I].
    destruct (parse_salt s0); exact I.
Qed.

(* ---- to_graph ---------------------------------------------------------------------------- *)

Section Graph.
  Variables url cid ver : Type.
  Variable pp : str -> outcome (pinned url cid ver).
  Variable pdl : str -> outcome (option str * str * option N).
  Notation pass1 := (pass1 url cid ver pp).
  Notation pass2 := (pass2 url cid ver pdl).
  Notation add_dep := (add_dep url cid ver pdl).
  Notation add_deps := (add_deps url cid ver pdl).

  Definition tbl_ok (tbl : list (str * nat)) (n : nat) : Prop :=
    forall k v, lookup k tbl = Some v -> v < n.

  Lemma str_eqb_refl s : str_eqb s s = true.
  Proof. induction s as [|a s IH]; [reflexivity|]. cbn. rewrite N.eqb_refl. exact IH. Qed.

  Lemma pass1_inv dis : forall pkgs nodes tbl,
    (forall p, In p pkgs -> np (pp (pl_source p))) ->
    tbl_ok tbl (length nodes) ->
    np (pass1 dis pkgs nodes tbl) /\
    forall n' t', pass1 dis pkgs nodes tbl = Ok (n', t') ->
      tbl_ok t' (length n') /\
      (forall p, In p pkgs -> lookup (pkg_key dis (pl_name p) (pl_source p)) t' <> None) /\
      (forall k, lookup k tbl <> None -> lookup k t' <> None).
  Proof.
    induction pkgs as [|p r IH]; intros nodes tbl Hpp Htbl.
    - cbn [Model.pass1]. split; [exact I|]. intros n' t' E. injection E as <- <-.
      split; [exact Htbl|]. split; [intros p []|auto].
    - cbn [Model.pass1].
      pose proof (Hpp p (or_introl eq_refl)) as Hp.
      destruct (pp (pl_source p)) as [src|c|x|] eqn:Epp; cbn in Hp; try contradiction.
      2:{ cbn. split; [exact I|discriminate]. }
      cbn [obind].
      set (nodes1 := nodes ++ [{| gn_name := pl_name p; gn_src := src |}]).
      set (key := pkg_key dis (pl_name p) (pl_source p)).
      assert (Htbl1 : tbl_ok ((key, length nodes) :: tbl) (length nodes1)).
      { intros k v. cbn [lookup]. unfold nodes1. rewrite app_length. cbn [length].
        destruct (str_eqb k key).
        - intros E. injection E as <-. lia.
        - intros E. apply Htbl in E. lia. }
      destruct (IH nodes1 ((key, length nodes) :: tbl)) as [Hnp Hres];
        [intros q Hq; apply Hpp; right; exact Hq|exact Htbl1|].
      split; [exact Hnp|]. intros n' t' E. destruct (Hres n' t' E) as [H1 [H2 H3]].
      split; [exact H1|]. split.
      + intros q [Hq|Hq]; [subst q|apply H2; exact Hq].
        apply H3. cbn [lookup]. fold key. rewrite str_eqb_refl. discriminate.
      + intros k Hk. apply H3. cbn [lookup]. destruct (str_eqb k key); [discriminate|exact Hk].
  Qed.

  Lemma add_dep_np nodes tbl node es dl :
    np (pdl (fst dl)) -> tbl_ok tbl (length nodes) -> node < length nodes -> np (add_dep nodes tbl node es dl).
  Proof.
    intros Hp Htbl Hn. unfold Model.add_dep. destruct dl as [line ic]. cbn [fst] in Hp.
    destruct (pdl line) as [[[dn dk] ds]|c|x|] eqn:E; cbn in Hp; try contradiction; cbn [obind]; [|exact I].
    destruct (lookup dk tbl) as [j|] eqn:El; [|exact I].
    apply Htbl in El. destruct (nth_error nodes j) eqn:En.
    - apply Nat.ltb_lt in Hn. rewrite Hn. exact I.
    - apply nth_error_None in En. lia.
  Qed.

  Lemma add_deps_np nodes tbl node : forall dls es,
    (forall dl, In dl dls -> np (pdl (fst dl))) -> tbl_ok tbl (length nodes) -> node < length nodes ->
    np (add_deps nodes tbl node es dls).
  Proof.
    induction dls as [|dl r IH]; intros es Hp Htbl Hn; [exact I|].
    cbn [Model.add_deps]. apply np_bind.
    - apply add_dep_np; auto. apply Hp. left; reflexivity.
    - intros es' _. apply IH; auto. intros d Hd. apply Hp. right; exact Hd.
  Qed.

  Lemma pass2_np dis nodes tbl : forall pkgs es,
    tbl_ok tbl (length nodes) ->
    (forall p, In p pkgs -> lookup (pkg_key dis (pl_name p) (pl_source p)) tbl <> None) ->
    (forall p d, In p pkgs -> In d (pl_deps p ++ pl_cdeps p) -> np (pdl d)) ->
    np (pass2 dis nodes tbl pkgs es).
  Proof.
    induction pkgs as [|p r IH]; intros es Htbl Hk Hd; [exact I|].
    cbn [Model.pass2].
    destruct (lookup (pkg_key dis (pl_name p) (pl_source p)) tbl) as [node|] eqn:El.
    2:{ exfalso. apply (Hk p (or_introl eq_refl)). exact El. }
    apply np_bind.
    - apply add_deps_np; [|exact Htbl|eapply Htbl; exact El].
      intros dl Hin. apply in_app_or in Hin.
      destruct Hin as [Hin|Hin]; apply in_map_iff in Hin; destruct Hin as [l [<- Hl]]; cbn [fst];
        apply (Hd p l (or_introl eq_refl)); apply in_or_app; [left|right]; exact Hl.
    - intros es' _. apply IH; [exact Htbl| |].
      + intros q Hq. apply Hk. right; exact Hq.
      + intros q d Hq. apply Hd. right; exact Hq.
  Qed.

  Lemma to_graph_with_np pkgs :
    (forall p, In p pkgs -> np (pp (pl_source p))) ->
    (forall p d, In p pkgs -> In d (pl_deps p ++ pl_cdeps p) -> np (pdl d)) ->
    np (to_graph_with url cid ver pp pdl pkgs).
  Proof.
    intros Hpp Hd. unfold to_graph_with.
    set (dis := names_requiring_disambiguation (map pl_name pkgs)).
    destruct (pass1_inv dis pkgs [] []) as [Hnp Hres]; [exact Hpp|intros k v E; discriminate|].
    apply np_bind; [exact Hnp|]. intros [nodes tbl] E.
    destruct (Hres nodes tbl E) as [H1 [H2 _]].
    apply np_bind; [|intros; exact I].
    apply pass2_np; assumption.
  Qed.
End Graph.

Definition sync_pkg (p : pkglock) : Prop :=
  sync (pl_source p) = true /\ Forall (fun d => sync d = true) (pl_deps p ++ pl_cdeps p).

Lemma to_graph_np url cid ver pu pc pv (pkgs : list pkglock) :
  Forall sync_pkg pkgs -> np (@to_graph url cid ver pu pc pv pkgs).
Proof.
  intros H. unfold to_graph. rewrite Forall_forall in H. apply to_graph_with_np.
  - intros p Hp. apply parse_pinned_np. apply (H p Hp).
  - intros p d Hp Hd. apply parse_dep_line_np. destruct (H p Hp) as [_ Hf].
    rewrite Forall_forall in Hf. apply Hf. exact Hd.
Qed.

(* the statements exported by Props.v *)
Lemma parse_pinned_total url cid ver pu pc pv s :
  sync s = true -> value_or_error (parse_pinned url cid ver pu pc pv s).
Proof. intros H. apply np_voe. apply parse_pinned_np. exact H. Qed.

Lemma parse_dep_line_total line : sync line = true -> value_or_error (parse_dep_line line).
Proof. intros H. apply np_voe. apply parse_dep_line_np. exact H. Qed.

Lemma to_graph_total url cid ver pu pc pv (pkgs : list pkglock) :
  Forall sync_pkg pkgs -> value_or_error (@to_graph url cid ver pu pc pv pkgs).
Proof. intros H. apply np_voe. apply to_graph_np. exact H. Qed.

(* ---- the result depends on the external parsers only through `queries` ---------------- *)
Lemma parse_pinned_ext url cid ver (pu pu' : str -> option url) (pc pc' : str -> option cid)
      (pv pv' : str -> option ver) s :
  (forall q, In (QUrl, q) (queries s) -> pu q = pu' q) ->
  (forall q, In (QCid, q) (queries s) -> pc q = pc' q) ->
  (forall q, In (QVer, q) (queries s) -> pv q = pv' q) ->
  parse_pinned url cid ver pu pc pv s = parse_pinned url cid ver pu' pc' pv' s.
Proof.
  intros Hu Hc Hv. unfold parse_pinned.
  destruct (str_eqb s s_root || str_eqb s s_member); [reflexivity|].
  assert (Eg : parse_git url cid ver pu s = parse_git url cid ver pu' s).
  { unfold parse_git. destruct (git_head s) as [h| | |] eqn:E; cbn [obind]; try reflexivity.
    rewrite (Hu (fst h)); [reflexivity|].
    unfold queries. rewrite E. apply in_or_app. left. left. reflexivity. }
  assert (Ei : parse_ipfs url cid ver pc s = parse_ipfs url cid ver pc' s).
  { unfold parse_ipfs. destruct (ipfs_head s) as [c| | |] eqn:E; cbn [obind]; try reflexivity.
    rewrite (Hc c); [reflexivity|].
    unfold queries. rewrite E. apply in_or_app. right. apply in_or_app. left. left. reflexivity. }
  assert (Er : parse_reg url cid ver pc pv s = parse_reg url cid ver pc' pv' s).
  { unfold parse_reg. destruct (reg_head s) as [[[n v] rest]| | |] eqn:E; cbn [obind]; try reflexivity.
    unfold reg_tail.
    rewrite (Hv v).
    2:{ unfold queries. rewrite E. apply in_or_app. right. apply in_or_app. right. left. reflexivity. }
    destruct (pv' v); [|reflexivity].
    destruct (reg_cid_str rest) as [[c r2]|] eqn:Ec; [|reflexivity].
    rewrite (Hc c); [reflexivity|].
    unfold queries. rewrite E. apply in_or_app. right. apply in_or_app. right. right.
    rewrite Ec. left. reflexivity. }
  rewrite Eg, Ei, Er. reflexivity.
Qed.
