(* C21/Utf8Total.v — the totality theorems for every Rust `&str` (no `sync` side hypothesis). *)
From SwayV Require Import Base.Util C21.Str C21.Model C21.Spec C21.Proofs C21.Utf8.

Definition utf8_pkg (p : pkglock) : Prop :=
  is_utf8 (pl_source p) /\ Forall is_utf8 (pl_deps p ++ pl_cdeps p).

Lemma utf8_pkg_sync p : utf8_pkg p -> sync_pkg p.
Proof.
  intros [H1 H2]. split; [apply utf8_sync; exact H1|].
  eapply Forall_impl; [|exact H2]. intros s. apply utf8_sync.
Qed.

Lemma parse_pinned_total_utf8 url cid ver pu pc pv s :
  is_utf8 s -> value_or_error (parse_pinned url cid ver pu pc pv s).
Proof. intros H. apply parse_pinned_total. apply utf8_sync. exact H. Qed.

Lemma parse_dep_line_total_utf8 line : is_utf8 line -> value_or_error (parse_dep_line line).
Proof. intros H. apply parse_dep_line_total. apply utf8_sync. exact H. Qed.

Lemma to_graph_total_utf8 url cid ver pu pc pv (pkgs : list pkglock) :
  Forall utf8_pkg pkgs -> value_or_error (@to_graph url cid ver pu pc pv pkgs).
Proof.
  intros H. apply to_graph_total. eapply Forall_impl; [|exact H]. apply utf8_pkg_sync.
Qed.
