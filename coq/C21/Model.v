(* C21/Model.v — executable model of the Forc.lock readers of forc-pkg, AS REPAIRED by the
   `fix:` commits (the original slicing of the three defect sites is kept in C21/Orig.v):
     source::Pinned::from_str and the four per-kind parsers   (source/{mod,path,git/mod,ipfs,reg/mod}.rs)
     PinnedId::from_str                                       (pkg.rs)
     lock::parse_pkg_dep_line, names_requiring_disambiguation, Lock::to_graph (lock.rs)
   No proofs here.  Rust panics are explicit `Panic site` outcomes.
   External parsers (gix_url, cid, semver) are Section variables: arbitrary functions
   `str -> option value`; nothing is assumed about them.  TOML deserialisation is outside the
   model: `to_graph` starts from the deserialised `Lock` (a list of packages in the BTreeSet's
   iteration order).
   Panic sites: 1 path prefix slice  2 git prefix slice  4 `reference[BRANCH.len()..]`
     5 `reference[TAG.len()..]`  6 ipfs prefix slice  7 registry prefix slice
     9 dep line `&s["(".len()..]`  12 `pkg_to_node[key]`  13 `graph[dep_node]`  14 update_edge bounds
   (3, 8, 10, 11 are the repaired sites, only in Orig.v). *)
From SwayV Require Import Base.Util C21.Str.

Inductive reference := RBranch (s : str) | RTag (s : str) | RRev (s : str) | RDefault.
Inductive namespace := NsFlat | NsDomain (s : str).
Inductive depkind := Lib | Contract (salt : N).

(* `if s.find(p) != Some(0) { return Err(..) }  let s = &s[p.len()..];` *)
Definition strip_checked (site : N) (p s : str) : outcome str :=
  match find p s with
  | Some 0 => slice_from site s (length p)
  | _ => Err 1
  end.

(* validate_git_commit_hash *)
Definition validate_commit (c : str) : bool :=
  Nat.eqb (length c) 40 && forallb is_ascii_alnum c.

(* reg::validate_cid *)
Definition validate_cid (c : str) : bool :=
  let c := trim c in starts_with s_Qm c && Nat.eqb (length c) 46.

(* fuel_types Salt::from_str: strip one "0x", then exactly 64 hex digits *)
Definition parse_salt (s : str) : option N :=
  let s := strip_prefix_or s_0x s in
  if Nat.eqb (length s) 64 then hex_digits s 0 else None.

(* ---- the parts of each parser that come before its first external call ---------------- *)

(* git: (repo_str, s after "git+") *)
Definition git_head (s : str) : outcome (str * str) :=
  let s := trim s in
  s1 <- strip_checked 2 s_git_plus s ;;
  Ok (fst (split_c c_qm s1), s1).

(* ipfs: the cid text *)
Definition ipfs_head (s : str) : outcome str :=
  let s := trim s in strip_checked 6 s_ipfs_plus s.

(* registry (repaired): (package name, version text, pieces after the first '#') *)
Definition reg_head (s : str) : outcome (str * str * list str) :=
  let s := trim s in
  wp <- strip_checked 7 s_registry_plus s ;;
  let pkg_name := fst (split_c c_qm wp) in
  match get_from wp (length pkg_name + 1) with
  | None => Err 2                                  (* PinnedParseError::PackageName *)
  | Some wpn => let '(ver_s, rest) := split_c c_hash wpn in Ok (pkg_name, ver_s, rest)
  end.

Definition reg_cid_str (rest : list str) : option (str * list str) :=
  match rest with [] => None | cn :: _ => Some (split_c c_bang cn) end.

Section Parsers.
  Variables url cid ver : Type.
  Variable parse_url : str -> option url.
  Variable parse_cid : str -> option cid.
  Variable parse_ver : str -> option ver.

  Inductive pinned :=
  | PMember
  | PPath (root : N)
  | PGit (u : url) (r : reference) (commit : str)
  | PIpfs (c : cid)
  | PReg (name : str) (v : ver) (c : cid) (ns : namespace).

  (* path::Pinned::from_str *)
  Definition parse_path (s : str) : outcome N :=
    let s := trim s in
    s1 <- strip_checked 1 s_path_plus s ;;
    match split_str_nth1 s_from_root s1 with
    | None => Err 2
    | Some piece => match parse_u64_hex piece with None => Err 2 | Some v => Ok v end
    end.

  Definition parse_reference (rf commit : str) : outcome reference :=
    match find s_branch_eq rf with
    | Some 0 => x <- slice_from 4 rf (length s_branch_eq) ;; Ok (RBranch x)
    | _ =>
      match find s_tag_eq rf with
      | Some 0 => x <- slice_from 5 rf (length s_tag_eq) ;; Ok (RTag x)
      | _ => if str_eqb rf s_rev then Ok (RRev commit)
             else if str_eqb rf s_default_branch then Ok RDefault
             else Err 4
      end
    end.

  (* git::Pinned::from_str after the repo url: reference and commit hash *)
  Definition git_tail (repo : url) (s2 : str) : outcome pinned :=
    let '(rf, rest) := split_c c_hash s2 in
    match rest with
    | [] => Err 5
    | commit :: _ =>
      if validate_commit commit then
        r <- parse_reference rf commit ;; Ok (PGit repo r commit)
      else Err 5
    end.

  (* git::Pinned::from_str (repaired: `s.get(repo_str.len() + 1..)`) *)
  Definition parse_git (s : str) : outcome pinned :=
    h <- git_head s ;;
    let repo_str := fst h in
    let s1 := snd h in
    match parse_url repo_str with
    | None => Err 3
    | Some repo =>
      match get_from s1 (length repo_str + 1) with
      | None => Err 4
      | Some s2 => git_tail repo s2
      end
    end.

  (* ipfs::Pinned::from_str *)
  Definition parse_ipfs (s : str) : outcome pinned :=
    c <- ipfs_head s ;;
    match parse_cid c with None => Err 2 | Some v => Ok (PIpfs v) end.

  (* reg::Pinned::from_str after the name: version, cid, namespace *)
  Definition reg_tail (h : str * str * list str) : outcome pinned :=
    let '(pkg_name, ver_s, rest) := h in
    match parse_ver ver_s with
    | None => Err 3
    | Some v =>
      match reg_cid_str rest with
      | None => Err 4
      | Some (cid_s, rest2) =>
        if validate_cid cid_s then
          match parse_cid cid_s with
          | None => Err 4
          | Some c =>
            let ns := match rest2 with
                      | [] => NsFlat
                      | n :: _ => if is_nil n then NsFlat else NsDomain n
                      end in
            Ok (PReg pkg_name v c ns)
          end
        else Err 4
      end
    end.

  (* reg::Pinned::from_str (repaired: guard `!= Some(0)`, `get(..)` after the name) *)
  Definition parse_reg (s : str) : outcome pinned := h <- reg_head s ;; reg_tail h.

  (* `if let Ok(src) = X::from_str(s) {..} else ..`: an error falls through, a panic unwinds. *)
  Definition or_else {A} (x : outcome A) (k : outcome A) : outcome A :=
    match x with Err _ => k | _ => x end.

  (* source::Pinned::from_str *)
  Definition parse_pinned (s : str) : outcome pinned :=
    if str_eqb s s_root || str_eqb s s_member then Ok PMember
    else or_else (r <- parse_path s ;; Ok (PPath r))
        (or_else (parse_git s)
        (or_else (parse_ipfs s)
        (or_else (parse_reg s) (Err 9)))).

  (* ---- lock.rs ------------------------------------------------------------------------ *)

  (* parse_pkg_dep_line (repaired: split_once(')'), strip_suffix(')')) *)
  Definition parse_dep_line (line : str) : outcome (option str * str * option N) :=
    let s := trim line in
    hd <- (if starts_with [c_lpar] s then
             s1 <- slice_from 9 s 1 ;;
             match split_once c_rpar s1 with
             | None => Err 1
             | Some (dn, rest) => Ok (Some dn, rest)
             end
           else Ok (None, s)) ;;
    let '(dep_name, s) := hd in
    let '(pkg0, rest) := split_c c_lpar s in
    let pkg_str := trim pkg0 in
    match rest with
    | [] => Ok (dep_name, pkg_str, None)
    | x :: _ =>
      match strip_suffix_c c_rpar (trim x) with
      | None => Err 1
      | Some h => match parse_salt h with
                  | None => Err 2
                  | Some v => Ok (dep_name, pkg_str, Some v)
                  end
      end
    end.

  Record pkglock := { pl_name : str; pl_source : str; pl_deps : list str; pl_cdeps : list str }.
  Record gnode := { gn_name : str; gn_src : pinned }.
  Record gedge := { ge_from : nat; ge_to : nat; ge_name : str; ge_kind : depkind }.
  Record graph := { g_nodes : list gnode; g_edges : list gedge }.

  Definition mem_str (x : str) (l : list str) : bool := existsb (str_eqb x) l.

  (* names_requiring_disambiguation: every occurrence of a name after its first *)
  Fixpoint dis_aux (visited names : list str) : list str :=
    match names with
    | [] => []
    | n :: r => if mem_str n visited then n :: dis_aux visited r else dis_aux (n :: visited) r
    end.
  Definition names_requiring_disambiguation (names : list str) : list str := dis_aux [] names.

  (* pkg_name_disambiguated / pkg_unique_string *)
  Definition pkg_key (dis : list str) (name source : str) : str :=
    if mem_str name dis then name ++ [c_space] ++ source else name.

  (* HashMap<String, NodeIx>: newest binding first, lookup takes the first match *)
  Fixpoint lookup (k : str) (m : list (str * nat)) : option nat :=
    match m with
    | [] => None
    | (k', v) :: r => if str_eqb k k' then Some v else lookup k r
    end.

  (* first pass of to_graph: parse sources, add nodes, fill pkg_to_node *)
  (* the two string parsers are parameters so that Orig.v can run the same graph construction
     over the unrepaired parsers *)
  Variable pp : str -> outcome pinned.
  Variable pdl : str -> outcome (option str * str * option N).

  Fixpoint pass1 (dis : list str) (pkgs : list pkglock) (nodes : list gnode) (tbl : list (str * nat))
    : outcome (list gnode * list (str * nat)) :=
    match pkgs with
    | [] => Ok (nodes, tbl)
    | p :: r =>
      src <- match pp (pl_source p) with Err _ => Err 10 | o => o end ;;
      pass1 dis r (nodes ++ [{| gn_name := pl_name p; gn_src := src |}])
            ((pkg_key dis (pl_name p) (pl_source p), length nodes) :: tbl)
    end.

  (* StableGraph::update_edge: replace the weight of an existing a->b edge, else append *)
  Fixpoint update_edge (es : list gedge) (e : gedge) : list gedge :=
    match es with
    | [] => [e]
    | x :: r => if Nat.eqb (ge_from x) (ge_from e) && Nat.eqb (ge_to x) (ge_to e)
                then e :: r else x :: update_edge r e
    end.

  Definition add_dep (nodes : list gnode) (tbl : list (str * nat)) (node : nat)
             (es : list gedge) (dl : str * bool) : outcome (list gedge) :=
    let '(line, is_contract) := dl in
    pr <- match pdl line with Err _ => Err 11 | o => o end ;;
    let '(dep_name, dep_key, dep_salt) := pr in
    match lookup dep_key tbl with
    | None => Err 12                                 (* "found dep .. without node entry" *)
    | Some dep_node =>
      match nth_error nodes dep_node with
      | None => Panic 13
      | Some dn =>
        let name := match dep_name with Some n => n | None => gn_name dn end in
        let kind := if is_contract
                    then Contract (match dep_salt with Some v => v | None => 0%N end)
                    else Lib in
        if Nat.ltb node (length nodes) then
          Ok (update_edge es {| ge_from := node; ge_to := dep_node; ge_name := name; ge_kind := kind |})
        else Panic 14
      end
    end.

  Fixpoint add_deps nodes tbl node (es : list gedge) (dls : list (str * bool)) : outcome (list gedge) :=
    match dls with
    | [] => Ok es
    | dl :: r => es' <- add_dep nodes tbl node es dl ;; add_deps nodes tbl node es' r
    end.

  (* second pass: library lines first, then contract lines *)
  Fixpoint pass2 (dis : list str) nodes tbl (pkgs : list pkglock) (es : list gedge) : outcome (list gedge) :=
    match pkgs with
    | [] => Ok es
    | p :: r =>
      match lookup (pkg_key dis (pl_name p) (pl_source p)) tbl with
      | None => Panic 12
      | Some node =>
        es' <- add_deps nodes tbl node es
                 (map (fun l => (l, false)) (pl_deps p) ++ map (fun l => (l, true)) (pl_cdeps p)) ;;
        pass2 dis nodes tbl r es'
      end
    end.

  (* Lock::to_graph *)
  Definition to_graph_with (pkgs : list pkglock) : outcome graph :=
    let dis := names_requiring_disambiguation (map pl_name pkgs) in
    nt <- pass1 dis pkgs [] [] ;;
    let '(nodes, tbl) := nt in
    es <- pass2 dis nodes tbl pkgs [] ;;
    Ok {| g_nodes := nodes; g_edges := es |}.

End Parsers.

Definition to_graph {url cid ver} (pu : str -> option url) (pc : str -> option cid) (pv : str -> option ver)
  : list pkglock -> outcome (graph url cid ver) :=
  to_graph_with url cid ver (parse_pinned url cid ver pu pc pv) parse_dep_line.

Arguments PMember {url cid ver}.
Arguments PPath {url cid ver} root.
Arguments PGit {url cid ver} u r commit.
Arguments PIpfs {url cid ver} c.
Arguments PReg {url cid ver} name v c ns.
Arguments Build_gnode {url cid ver} gn_name gn_src.
Arguments gn_name {url cid ver} g.
Arguments gn_src {url cid ver} g.
Arguments Build_graph {url cid ver} g_nodes g_edges.
Arguments g_nodes {url cid ver} g.
Arguments g_edges {url cid ver} g.

(* The external-parser calls `parse_pinned` can make on s (a superset: the registry cid piece
   is listed even when validate_cid would reject it first). Proofs.parse_pinned_ext shows the
   result depends on the oracles only through these. *)
Inductive qkind := QUrl | QCid | QVer.
Definition queries (s : str) : list (qkind * str) :=
  (match git_head s with Ok h => [(QUrl, fst h)] | _ => [] end) ++
  (match ipfs_head s with Ok c => [(QCid, c)] | _ => [] end) ++
  (match reg_head s with
   | Ok (_, ver_s, rest) =>
     (QVer, ver_s) :: match reg_cid_str rest with Some (c, _) => [(QCid, c)] | None => [] end
   | _ => []
   end).
