(* C21/Spec.v — what "reading never crashes" means for the modelled readers. *)
From SwayV Require Import Base.Util C21.Str.

(* "yields either a value or an error, never a panic" *)
Definition value_or_error {A} (o : outcome A) : Prop :=
  (exists a, o = Ok a) \/ (exists c, o = Err c).

Definition is_panic {A} (o : outcome A) : bool :=
  match o with Panic _ => true | _ => false end.

(* Every Rust `&str` is valid UTF-8.  The only consequence of validity the readers rely on is:
   an ASCII byte is never followed by a continuation byte (so the offset just after an ASCII
   prefix is a char boundary).  `sync` is that consequence; the totality theorems assume it of
   the input text and of nothing else.  (It is checked on every string the harness sends.) *)
Fixpoint sync (s : str) : bool :=
  match s with
  | a :: ((b :: _) as t) => (negb (a <? 128)%N || negb (is_cont b)) && sync t
  | _ => true
  end.
