(* C21/Str.v — Rust `&str` operations on byte lists (UTF-8 bytes as `list N`).
   Definitions only (model layer).  Each definition names the Rust operation it stands for.
   Slicing by a byte offset is explicit: it yields `Panic` when the offset is past the end
   or not on a char boundary, exactly like `&s[a..]` / `&s[..b]`. *)
From SwayV Require Import Base.Util.

Definition str := list N.

Definition obind {A B} (x : outcome A) (f : A -> outcome B) : outcome B :=
  match x with Ok a => f a | Err c => Err c | Panic p => Panic p | OutOfFuel => OutOfFuel end.
Notation "x <- e ;; k" := (obind e (fun x => k)) (at level 61, e at next level, right associativity).

Fixpoint str_eqb (a b : str) : bool :=
  match a, b with
  | [], [] => true
  | x :: a', y :: b' => N.eqb x y && str_eqb a' b'
  | _, _ => false
  end.

Definition is_nil {A} (l : list A) : bool := match l with [] => true | _ => false end.

(* UTF-8 continuation byte 0x80..0xBF; `str::is_char_boundary` is "not a continuation byte". *)
Definition is_cont (b : N) : bool := ((128 <=? b) && (b <? 192))%N.

(* core::str::is_char_boundary *)
Definition is_boundary (s : str) (i : nat) : bool :=
  if Nat.eqb i 0 then true
  else if Nat.leb (length s) i then Nat.eqb i (length s)
  else negb (is_cont (nth i s 0%N)).

(* &s[a..] *)
Definition slice_from (site : N) (s : str) (a : nat) : outcome str :=
  if is_boundary s a then Ok (skipn a s) else Panic site.
(* &s[..b] *)
Definition slice_to (site : N) (s : str) (b : nat) : outcome str :=
  if is_boundary s b then Ok (firstn b s) else Panic site.
(* s.get(a..) *)
Definition get_from (s : str) (a : nat) : option str :=
  if is_boundary s a then Some (skipn a s) else None.

(* s.starts_with(p) *)
Fixpoint starts_with (p s : str) : bool :=
  match p, s with
  | [], _ => true
  | a :: p', b :: s' => N.eqb a b && starts_with p' s'
  | _ :: _, [] => false
  end.

(* s.find(p): byte offset of the first occurrence *)
Fixpoint find (p s : str) {struct s} : option nat :=
  if starts_with p s then Some 0
  else match s with
       | [] => None
       | _ :: s' => match find p s' with Some i => Some (S i) | None => None end
       end.

(* s.split(c) for an ASCII char c: (first piece, remaining pieces). `split` always yields at
   least one piece, so `.next()` on a fresh split iterator is `fst`. *)
Fixpoint split_c (c : N) (s : str) : str * list str :=
  match s with
  | [] => ([], [])
  | b :: s' => let '(h, t) := split_c c s' in
               if N.eqb b c then ([], h :: t) else (b :: h, t)
  end.

(* s.split_once(c) *)
Fixpoint split_once (c : N) (s : str) : option (str * str) :=
  match s with
  | [] => None
  | b :: s' => if N.eqb b c then Some ([], s')
               else match split_once c s' with Some (h, t) => Some (b :: h, t) | None => None end
  end.

(* s.strip_suffix(c) for an ASCII char c *)
Definition strip_suffix_c (c : N) (s : str) : option str :=
  match rev s with
  | b :: r => if N.eqb b c then Some (rev r) else None
  | [] => None
  end.

(* s.strip_prefix(p).unwrap_or(s) *)
Definition strip_prefix_or (p s : str) : str :=
  if starts_with p s then skipn (length p) s else s.

(* s.split(p).nth(1) for a non-empty string pattern p: the text between the first and the
   second occurrence of p (or the end). *)
Definition split_str_nth1 (p s : str) : option str :=
  match find p s with
  | None => None
  | Some i => let rest := skipn (i + length p) s in
              Some (match find p rest with None => rest | Some j => firstn j rest end)
  end.

(* char::is_whitespace (Unicode White_Space) as UTF-8: U+0009..000D, 0020 | C2 85, C2 A0 |
   E1 9A 80 | E2 80 80..8A, E2 80 A8, E2 80 A9, E2 80 AF | E2 81 9F | E3 80 80.
   ws_len s = byte length of the whitespace char at the head of s, 0 if there is none. *)
Definition is_ws1 (b : N) : bool := ((9 <=? b) && (b <=? 13) || (b =? 32))%N.

Definition ws_len (s : str) : nat :=
  match s with
  | [] => 0
  | b :: r =>
    if is_ws1 b then 1 else
    match r with
    | [] => 0
    | c :: r2 =>
      if (b =? 194)%N then (if ((c =? 133) || (c =? 160))%N then 2 else 0)
      else match r2 with
           | [] => 0
           | d :: _ =>
             if (b =? 225)%N then (if ((c =? 154) && (d =? 128))%N then 3 else 0)
             else if (b =? 226)%N then
               (if ((c =? 128) && ((128 <=? d) && (d <=? 138) || (d =? 168) || (d =? 169) || (d =? 175)))%N then 3
                else if ((c =? 129) && (d =? 159))%N then 3 else 0)
             else if (b =? 227)%N then (if ((c =? 128) && (d =? 128))%N then 3 else 0)
             else 0
           end
    end
  end.

(* s.trim_start(): `skip` = bytes of the current whitespace char still to drop. *)
Fixpoint trim_start_k (skip : nat) (s : str) : str :=
  match skip, s with
  | S k, _ :: r => trim_start_k k r
  | S _, [] => []
  | 0, [] => []
  | 0, _ :: r => match ws_len s with 0 => s | S k => trim_start_k k r end
  end.
Definition trim_start (s : str) : str := trim_start_k 0 s.

(* s.trim_end(): cut at the first position from which everything is whitespace. *)
Fixpoint trim_end (s : str) : str :=
  match s with
  | [] => []
  | b :: r => if is_nil (trim_start s) then [] else b :: trim_end r
  end.

(* s.trim() *)
Definition trim (s : str) : str := trim_end (trim_start s).

(* ---- numbers ---------------------------------------------------------------------- *)

(* char::to_digit(16) / hex::val *)
Definition hex_val (b : N) : option N :=
  if ((48 <=? b) && (b <=? 57))%N then Some (b - 48)%N
  else if ((65 <=? b) && (b <=? 70))%N then Some (b - 55)%N
  else if ((97 <=? b) && (b <=? 102))%N then Some (b - 87)%N
  else None.

Definition is_ascii_alnum (b : N) : bool :=
  ((48 <=? b) && (b <=? 57) || (65 <=? b) && (b <=? 90) || (97 <=? b) && (b <=? 122))%N.

(* digit loop of `u64::from_str_radix(_, 16)` with its per-step overflow check *)
Fixpoint hex_digits_u64 (s : str) (acc : N) : option N :=
  match s with
  | [] => Some acc
  | b :: r => match hex_val b with
              | None => None
              | Some d => let a := (acc * 16 + d)%N in
                          if (a <? 18446744073709551616)%N then hex_digits_u64 r a else None
              end
  end.

(* u64::from_str_radix(s, 16): empty -> Err; lone sign -> Err; optional '+'; '-' is not a digit. *)
Definition parse_u64_hex (s : str) : option N :=
  match s with
  | [] => None
  | [b] => if ((b =? 43) || (b =? 45))%N then None else hex_digits_u64 s 0
  | b :: r => if (b =? 43)%N then hex_digits_u64 r 0 else hex_digits_u64 s 0
  end.

(* hex digits of unbounded length (used for the 32-byte salt) *)
Fixpoint hex_digits (s : str) (acc : N) : option N :=
  match s with
  | [] => Some acc
  | b :: r => match hex_val b with None => None | Some d => hex_digits r (acc * 16 + d)%N end
  end.

(* ---- literals (ASCII) -------------------------------------------------------------- *)
Definition c_lpar : N := 40.   (* ( *)
Definition c_rpar : N := 41.   (* ) *)
Definition c_qm : N := 63.     (* ? *)
Definition c_hash : N := 35.   (* # *)
Definition c_bang : N := 33.   (* ! *)
Definition c_space : N := 32.
Definition s_root : str := [114;111;111;116]%N.                          (* "root" *)
Definition s_member : str := [109;101;109;98;101;114]%N.                 (* "member" *)
Definition s_path_plus : str := [112;97;116;104;43]%N.                   (* "path+" *)
Definition s_from_root : str := [102;114;111;109;45;114;111;111;116;45]%N. (* "from-root-" *)
Definition s_git_plus : str := [103;105;116;43]%N.                       (* "git+" *)
Definition s_branch_eq : str := [98;114;97;110;99;104;61]%N.             (* "branch=" *)
Definition s_tag_eq : str := [116;97;103;61]%N.                          (* "tag=" *)
Definition s_rev : str := [114;101;118]%N.                               (* "rev" *)
Definition s_default_branch : str := [100;101;102;97;117;108;116;45;98;114;97;110;99;104]%N. (* "default-branch" *)
Definition s_ipfs_plus : str := [105;112;102;115;43]%N.                  (* "ipfs+" *)
Definition s_registry_plus : str := [114;101;103;105;115;116;114;121;43]%N. (* "registry+" *)
Definition s_Qm : str := [81;109]%N.                                     (* "Qm" *)
Definition s_0x : str := [48;120]%N.                                     (* "0x" *)
