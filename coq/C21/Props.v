(* C21 — property theorems only.
   The model (C21/Model.v) is the code as repaired by the `fix:` commits; C21/Orig.v keeps the
   original slicing, for which all three statements are refuted (theorems *_refuted there).
   `sync s` (no continuation byte directly after an ASCII byte) holds of every valid UTF-8
   text, i.e. of every Rust `&str`; the external url / cid / semver parsers are universally
   quantified functions. *)
From SwayV Require Import Base.Util C21.Str C21.Model C21.Orig C21.Spec C21.Proofs C21.Utf8 C21.Utf8Total.

(* Parsing any source string yields a pinned source or an error, never a panic. *)
Theorem C21_parse_pinned_total :
  forall (url cid ver : Type) (parse_url : str -> option url) (parse_cid : str -> option cid)
         (parse_ver : str -> option ver) (s : str),
    sync s = true ->
    value_or_error (parse_pinned url cid ver parse_url parse_cid parse_ver s).
Proof. exact parse_pinned_total. Qed.
Print Assumptions C21_parse_pinned_total.

(* Parsing any dependency line yields its three parts or an error. *)
Theorem C21_parse_dep_line_total :
  forall line : str, sync line = true -> value_or_error (parse_dep_line line).
Proof. exact parse_dep_line_total. Qed.
Print Assumptions C21_parse_dep_line_total.

(* Lock::to_graph on any deserialised lock yields a package graph or an error. *)
Theorem C21_to_graph_total :
  forall (url cid ver : Type) (parse_url : str -> option url) (parse_cid : str -> option cid)
         (parse_ver : str -> option ver) (pkgs : list pkglock),
    Forall sync_pkg pkgs ->
    value_or_error (to_graph parse_url parse_cid parse_ver pkgs).
Proof. exact to_graph_total. Qed.
Print Assumptions C21_to_graph_total.

(* Every Rust `&str` is the UTF-8 encoding of a sequence of Unicode scalar values (`is_utf8`,
   C21/Utf8.v, char::encode_utf8); such byte strings satisfy `sync`. *)
Theorem C21_utf8_sync : forall s : str, is_utf8 s -> sync s = true.
Proof. exact utf8_sync. Qed.
Print Assumptions C21_utf8_sync.

(* Hence the three statements hold for every `&str`, with no side hypothesis. *)
Theorem C21_parse_pinned_total_utf8 :
  forall (url cid ver : Type) (parse_url : str -> option url) (parse_cid : str -> option cid)
         (parse_ver : str -> option ver) (s : str),
    is_utf8 s -> value_or_error (parse_pinned url cid ver parse_url parse_cid parse_ver s).
Proof. exact parse_pinned_total_utf8. Qed.
Print Assumptions C21_parse_pinned_total_utf8.

Theorem C21_parse_dep_line_total_utf8 :
  forall line : str, is_utf8 line -> value_or_error (parse_dep_line line).
Proof. exact parse_dep_line_total_utf8. Qed.
Print Assumptions C21_parse_dep_line_total_utf8.

Theorem C21_to_graph_total_utf8 :
  forall (url cid ver : Type) (parse_url : str -> option url) (parse_cid : str -> option cid)
         (parse_ver : str -> option ver) (pkgs : list pkglock),
    Forall utf8_pkg pkgs -> value_or_error (to_graph parse_url parse_cid parse_ver pkgs).
Proof. exact to_graph_total_utf8. Qed.
Print Assumptions C21_to_graph_total_utf8.

(* The result depends on the external parsers only through the calls listed by `queries`
   (this is what lets the correspondence run instantiate them by a finite measured table). *)
Theorem C21_oracle_queries_complete :
  forall (url cid ver : Type) (pu pu' : str -> option url) (pc pc' : str -> option cid)
         (pv pv' : str -> option ver) (s : str),
    (forall q, In (QUrl, q) (queries s) -> pu q = pu' q) ->
    (forall q, In (QCid, q) (queries s) -> pc q = pc' q) ->
    (forall q, In (QVer, q) (queries s) -> pv q = pv' q) ->
    parse_pinned url cid ver pu pc pv s = parse_pinned url cid ver pu' pc' pv' s.
Proof. exact parse_pinned_ext. Qed.
Print Assumptions C21_oracle_queries_complete.

(* The finding, in Coq: with the original slicing each statement fails, for every behaviour of
   the external parsers. *)
Theorem C21_original_parse_pinned_refuted :
  forall (url cid ver : Type) pu pc pv,
    exists s site, sync s = true /\ parse_pinned_orig url cid ver pu pc pv s = Panic site.
Proof.
  intros. exists [97;98;99]%N, 7%N. split; [reflexivity|apply parse_pinned_orig_refuted_abc].
Qed.
Print Assumptions C21_original_parse_pinned_refuted.

Theorem C21_original_parse_dep_line_refuted :
  exists s site, sync s = true /\ parse_dep_line_orig s = Panic site.
Proof.
  exists [115;116;100;32;40]%N, 11%N. split; [reflexivity|apply parse_dep_line_orig_refuted_empty_salt].
Qed.
Print Assumptions C21_original_parse_dep_line_refuted.

Theorem C21_original_to_graph_refuted :
  forall (url cid ver : Type) pu pc pv,
    exists l site, Forall sync_pkg l /\ to_graph_orig url cid ver pu pc pv l = Panic site.
Proof.
  intros.
  exists [ {| pl_name := [97]%N; pl_source := [97;98;99]%N; pl_deps := []; pl_cdeps := [] |} ], 7%N.
  split; [|apply to_graph_orig_refuted_source].
  repeat constructor.
Qed.
Print Assumptions C21_original_to_graph_refuted.

(* Non-vacuity: the hypotheses are satisfiable by non-trivial inputs and all three outcome
   kinds of the repaired model occur (identity-like oracles). *)
Definition acc (s : str) : option str := Some s.
Example C21_example_git_ok :
  (* "git+http://a.com?branch=m#" ++ 40 x 'a' *)
  let s := ([103;105;116;43;104;116;116;112;58;47;47;97;46;99;111;109;63;98;114;97;110;99;104;61;109;35]
            ++ repeat 97 40)%N in
  sync s = true /\
  parse_pinned str str str acc acc acc s
  = Ok (PGit [104;116;116;112;58;47;47;97;46;99;111;109]%N (RBranch [109]%N) (repeat 97%N 40)).
Proof. vm_compute. split; reflexivity. Qed.
Example C21_example_former_panics_are_errors :
  parse_pinned str str str acc acc acc [97;98;99]%N = Err 9 /\                     (* "abc" *)
  parse_pinned str str str acc acc acc
    [103;105;116;43;104;116;116;112;58;47;47;97;46;99;111;109]%N = Err 9 /\        (* "git+http://a.com" *)
  parse_dep_line [115;116;100;32;40]%N = Err 1 /\                                  (* "std (" *)
  parse_dep_line [40;97;98;99]%N = Err 1 /\                                        (* "(abc" *)
  parse_dep_line [120;32;40;195;169]%N = Err 1.                                    (* "x (é" *)
Proof. vm_compute. repeat split; reflexivity. Qed.
Example C21_example_lock_ok :
  exists g,
  to_graph acc acc acc
    [ {| pl_name := [97]%N; pl_source := s_member; pl_deps := [[98]%N]; pl_cdeps := [] |};
      {| pl_name := [98]%N; pl_source := s_member; pl_deps := []; pl_cdeps := [] |} ] = Ok g
  /\ length (g_nodes g) = 2 /\ length (g_edges g) = 1.
Proof. eexists. vm_compute. repeat split; reflexivity. Qed.
(* Non-vacuity of is_utf8: "x (é" (scalars 120 32 40 233) is the byte string 120 32 40 195 169. *)
Example C21_example_is_utf8 : is_utf8 [120;32;40;195;169]%N.
Proof. exists [120;32;40;233]%N. split; [repeat constructor|vm_compute; reflexivity]. Qed.
