(* C21/Judge.v — per-case judgement for the correspondence run (vm_compute).
   The external parsers are instantiated by the finite table of verdicts the harness measured
   on the real gix_url / cid / semver parsers for exactly the strings `queries` lists; values
   are represented by their Display strings.  A query missing from the table is code 9. *)
From SwayV Require Import Base.Util C21.Str C21.Model C21.Orig C21.Spec.

Definition table := list (qkind * str * option str).
Definition qkind_eqb (a b : qkind) : bool :=
  match a, b with QUrl, QUrl | QCid, QCid | QVer, QVer => true | _, _ => false end.
Fixpoint tlookup (k : qkind) (s : str) (t : table) : option (option str) :=
  match t with
  | [] => None
  | (k', s', r) :: t' => if qkind_eqb k k' && str_eqb s s' then Some r else tlookup k s t'
  end.
Definition orc (t : table) (k : qkind) (s : str) : option str :=
  match tlookup k s t with Some r => r | None => None end.
Definition covered (orig : bool) (t : table) (s : str) : bool :=
  forallb (fun q => match tlookup (fst q) (snd q) t with Some _ => true | None => false end)
          (if orig then queries_orig s else queries s).

Notation P := (pinned str str str).
Notation G := (graph str str str).

Definition ref_eqb (a b : reference) : bool :=
  match a, b with
  | RBranch x, RBranch y | RTag x, RTag y | RRev x, RRev y => str_eqb x y
  | RDefault, RDefault => true
  | _, _ => false
  end.
Definition ns_eqb (a b : namespace) : bool :=
  match a, b with NsFlat, NsFlat => true | NsDomain x, NsDomain y => str_eqb x y | _, _ => false end.
Definition pinned_eqb (a b : P) : bool :=
  match a, b with
  | PMember, PMember => true
  | PPath x, PPath y => N.eqb x y
  | PGit u r c, PGit u' r' c' => str_eqb u u' && ref_eqb r r' && str_eqb c c'
  | PIpfs c, PIpfs c' => str_eqb c c'
  | PReg n v c ns, PReg n' v' c' ns' => str_eqb n n' && str_eqb v v' && str_eqb c c' && ns_eqb ns ns'
  | _, _ => false
  end.
Definition kind_eqb (a b : depkind) : bool :=
  match a, b with Lib, Lib => true | Contract x, Contract y => N.eqb x y | _, _ => false end.
Fixpoint list_eqb {A} (f : A -> A -> bool) (a b : list A) : bool :=
  match a, b with
  | [], [] => true
  | x :: a', y :: b' => f x y && list_eqb f a' b'
  | _, _ => false
  end.
Definition node_eqb (a b : gnode str str str) : bool :=
  str_eqb (gn_name a) (gn_name b) && pinned_eqb (gn_src a) (gn_src b).
Definition edge_eqb (a b : gedge) : bool :=
  Nat.eqb (ge_from a) (ge_from b) && Nat.eqb (ge_to a) (ge_to b) && str_eqb (ge_name a) (ge_name b)
  && kind_eqb (ge_kind a) (ge_kind b).
Definition graph_eqb (a b : G) : bool :=
  list_eqb node_eqb (g_nodes a) (g_nodes b) && list_eqb edge_eqb (g_edges a) (g_edges b).

Inductive impl_res (A : Type) := IOk (a : A) | IErr | IPanic.
Arguments IOk {A} a. Arguments IErr {A}. Arguments IPanic {A}.

(* 0 agree   1 model and implementation differ, no panic (correspondence break)
   5 VIOLATION: the implementation panicked   7 input is not `sync` (machinery)
   9 oracle table misses a query (machinery)
   `orig` = compare with the ORIGINAL slicing (Orig.v), where a panic of both sides agrees;
   used once to validate the slicing model against the unrepaired code. *)
Definition cmp {A} (eqb : A -> A -> bool) (orig : bool) (m : outcome A) (i : impl_res A) : N :=
  match m, i with
  | Ok a, IOk b => if eqb a b then 0 else 1
  | Err _, IErr => 0
  | Panic _, IPanic => if orig then 0 else 5
  | _, IPanic => 5
  | _, _ => 1
  end%N.

Definition judge_s (orig : bool) (t : table) (s : str) (i : impl_res P) : N :=
  if negb (sync s) then 7%N else
  if negb (covered orig t s) then 9%N else
  let m := if orig then parse_pinned_orig str str str (orc t QUrl) (orc t QCid) (orc t QVer) s
           else parse_pinned str str str (orc t QUrl) (orc t QCid) (orc t QVer) s in
  cmp pinned_eqb orig m i.

Definition lock_strings (l : list pkglock) : list str :=
  flat_map (fun p => pl_name p :: pl_source p :: pl_deps p ++ pl_cdeps p) l.

Definition judge_l (orig : bool) (t : table) (l : list pkglock) (i : impl_res G) : N :=
  if negb (forallb sync (lock_strings l)) then 7%N else
  if negb (forallb (fun p => covered orig t (pl_source p)) l) then 9%N else
  let m := if orig then to_graph_orig str str str (orc t QUrl) (orc t QCid) (orc t QVer) l
           else to_graph (orc t QUrl) (orc t QCid) (orc t QVer) l in
  cmp graph_eqb orig m i.

Inductive case :=
| CS (t : table) (s : str) (i : impl_res P)
| CL (t : table) (l : list pkglock) (i : impl_res G).

Definition judge (orig : bool) (c : case) : N :=
  match c with CS t s i => judge_s orig t s i | CL t l i => judge_l orig t l i end.
Definition judge_all (orig : bool) (cs : list case) : list N := map (judge orig) cs.

(* first Coq pass: which external-parser calls will the model make on these source strings *)
Definition queries_all (orig : bool) (ss : list str) : list (list (qkind * str)) :=
  map (if orig then queries_orig else queries) ss.
