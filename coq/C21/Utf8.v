(* C21/Utf8.v — every Rust `&str` satisfies `sync`.
   A `&str` is, by the type's invariant, the UTF-8 encoding of a sequence of Unicode scalar
   values.  `enc`/`utf8`/`valid_scalarb` mirror coq/C23/Utf8.v (char::encode_utf8); they are
   repeated here so that C21 does not depend on another property's directory. *)
From SwayV Require Import Base.Util C21.Str C21.Spec.
Require Import ZifyBool ZifyN.

Arguments N.add : simpl never. Arguments N.sub : simpl never. Arguments N.mul : simpl never.
Arguments N.div : simpl never. Arguments N.modulo : simpl never.
Arguments N.eqb : simpl never. Arguments N.ltb : simpl never. Arguments N.leb : simpl never.

(* a Unicode scalar value: a code point that is not a surrogate *)
Definition valid_scalarb (c : N) : bool :=
  ((c <? 0xD800) || ((0xE000 <=? c) && (c <? 0x110000)))%N.
Definition valid_text (d : list N) : Prop := Forall (fun c => valid_scalarb c = true) d.

(* char::encode_utf8 *)
Definition enc (c : N) : list N :=
  (if c <? 0x80 then [c]
   else if c <? 0x800 then [0xC0 + c / 64; 0x80 + c mod 64]
   else if c <? 0x10000 then [0xE0 + c / 4096; 0x80 + (c / 64) mod 64; 0x80 + c mod 64]
   else [0xF0 + c / 262144; 0x80 + (c / 4096) mod 64; 0x80 + (c / 64) mod 64; 0x80 + c mod 64])%N.

Definition utf8 (d : list N) : str := flat_map enc d.

(* the byte strings a `&str` can hold *)
Definition is_utf8 (s : str) : Prop := exists d, valid_text d /\ s = utf8 d.

Definition hd_noncont (s : str) : bool := match s with b :: _ => negb (is_cont b) | [] => true end.

Lemma sync_hi a t : (128 <= a)%N -> sync t = true -> sync (a :: t) = true.
Proof.
  intros Ha Ht. destruct t as [|b t']; [reflexivity|].
  change (sync (a :: b :: t')) with ((negb (a <? 128)%N || negb (is_cont b)) && sync (b :: t')).
  rewrite Ht. replace (a <? 128)%N with false by lia. reflexivity.
Qed.

Lemma sync_lo a t : hd_noncont t = true -> sync t = true -> sync (a :: t) = true.
Proof.
  intros Hh Ht. destruct t as [|b t']; [reflexivity|].
  change (sync (a :: b :: t')) with ((negb (a <? 128)%N || negb (is_cont b)) && sync (b :: t')).
  cbn [hd_noncont] in Hh. rewrite Ht, Hh. rewrite orb_true_r. reflexivity.
Qed.

Lemma enc_sync c t : hd_noncont t = true -> sync t = true ->
  sync (enc c ++ t) = true /\ hd_noncont (enc c ++ t) = true.
Proof.
  intros Hh Ht. unfold enc.
  destruct (c <? 0x80)%N eqn:E1.
  { cbn [app]. split; [apply sync_lo; assumption|]. cbn. unfold is_cont. lia. }
  destruct (c <? 0x800)%N eqn:E2.
  { cbn [app]. split; [|cbn; unfold is_cont; lia].
    apply sync_hi; [lia|]. apply sync_hi; [lia|exact Ht]. }
  destruct (c <? 0x10000)%N eqn:E3.
  { cbn [app]. split; [|cbn; unfold is_cont; lia].
    apply sync_hi; [lia|]. apply sync_hi; [lia|]. apply sync_hi; [lia|exact Ht]. }
  cbn [app]. split; [|cbn; unfold is_cont; lia].
  apply sync_hi; [lia|]. apply sync_hi; [lia|]. apply sync_hi; [lia|]. apply sync_hi; [lia|exact Ht].
Qed.

Lemma utf8_sync_hd d : sync (utf8 d) = true /\ hd_noncont (utf8 d) = true.
Proof.
  induction d as [|c d [IH1 IH2]]; [split; reflexivity|].
  unfold utf8. cbn [flat_map]. apply enc_sync; assumption.
Qed.

(* UTF-8 validity implies the synchronisation property the readers rely on
   (it does not even need the scalars to be valid) *)
Theorem utf8_sync s : is_utf8 s -> sync s = true.
Proof. intros [d [_ ->]]. apply utf8_sync_hd. Qed.
