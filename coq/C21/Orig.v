(* C21/Orig.v — the ORIGINAL (unrepaired) slicing of the three defect sites of the pinned
   tree, kept so that the finding is documented in Coq:
     reg::Pinned::from_str     guard `find(..).is_some_and(|loc| loc != 0)` then `&s[9..]`,
                               and `&without_prefix[pkg_name.len() + 1..]`
     git::Pinned::from_str     `&s[repo_str.len() + 1..]`
     lock::parse_pkg_dep_line  `&s[dep_name.len() + 1..]` and `&s[..s.len() - 1]`
   Everything else is shared with C21/Model.v.  The `_refuted` lemmas give inputs on which
   these panic for EVERY behaviour of the external parsers (witnesses replayed on the real
   code by props/c21.py as regression corpus: after the fix: commits they are clean errors). *)
From SwayV Require Import Base.Util C21.Str C21.Model.

Section Orig.
  Variables url cid ver : Type.
  Variable parse_url : str -> option url.
  Variable parse_cid : str -> option cid.
  Variable parse_ver : str -> option ver.
  Notation pinned := (pinned url cid ver).

  Definition parse_git_orig (s : str) : outcome pinned :=
    h <- git_head s ;;
    let repo_str := fst h in
    let s1 := snd h in
    match parse_url repo_str with
    | None => Err 3
    | Some repo => s2 <- slice_from 3 s1 (length repo_str + 1) ;; git_tail url cid ver repo s2
    end.

  Definition reg_head_orig (s : str) : outcome (str * str * list str) :=
    let s := trim s in
    wp <- match find s_registry_plus s with
          | Some (S _) => Err 1
          | _ => slice_from 7 s (length s_registry_plus)
          end ;;
    let pkg_name := fst (split_c c_qm wp) in
    wpn <- slice_from 8 wp (length pkg_name + 1) ;;
    let '(ver_s, rest) := split_c c_hash wpn in Ok (pkg_name, ver_s, rest).

  Definition parse_reg_orig (s : str) : outcome pinned :=
    h <- reg_head_orig s ;; reg_tail url cid ver parse_cid parse_ver h.

  Definition parse_pinned_orig (s : str) : outcome pinned :=
    if str_eqb s s_root || str_eqb s s_member then Ok PMember
    else or_else (r <- parse_path s ;; Ok (PPath r))
        (or_else (parse_git_orig s)
        (or_else (parse_ipfs url cid ver parse_cid s)
        (or_else (parse_reg_orig s) (Err 9)))).

  Definition parse_dep_line_orig (line : str) : outcome (option str * str * option N) :=
    let s := trim line in
    hd <- (if starts_with [c_lpar] s then
             s1 <- slice_from 9 s 1 ;;
             let dn := fst (split_c c_rpar s1) in
             s2 <- slice_from 10 s1 (length dn + 1) ;;
             Ok (Some dn, s2)
           else Ok (None, s)) ;;
    let '(dep_name, s) := hd in
    let '(pkg0, rest) := split_c c_lpar s in
    let pkg_str := trim pkg0 in
    match rest with
    | [] => Ok (dep_name, pkg_str, None)
    | x :: _ =>
      let x := trim x in
      if is_nil x then Panic 11                      (* `s.len() - 1` underflows *)
      else
        h <- slice_to 11 x (length x - 1) ;;
        match parse_salt h with
        | None => Err 2
        | Some v => Ok (dep_name, pkg_str, Some v)
        end
    end.

  Definition to_graph_orig : list pkglock -> outcome (graph url cid ver) :=
    to_graph_with url cid ver parse_pinned_orig parse_dep_line_orig.

  (* "abc": no "registry+" prefix, so the guard lets it through and `&s[9..]` is out of range *)
  Lemma parse_pinned_orig_refuted_abc : parse_pinned_orig [97;98;99]%N = Panic 7.
  Proof. vm_compute. reflexivity. Qed.

  (* "registry+x": no '?', `&without_prefix[1 + 1..]` is out of range *)
  Lemma parse_pinned_orig_refuted_reg_noqm :
    parse_pinned_orig [114;101;103;105;115;116;114;121;43;120]%N = Panic 8.
  Proof.
    unfold parse_pinned_orig, parse_path, parse_git_orig, parse_ipfs, parse_reg_orig.
    vm_compute. reflexivity.
  Qed.

  (* a lock whose only package has source "abc" *)
  Lemma to_graph_orig_refuted_source :
    to_graph_orig [ {| pl_name := [97]%N; pl_source := [97;98;99]%N; pl_deps := []; pl_cdeps := [] |} ] = Panic 7.
  Proof. vm_compute. reflexivity. Qed.
End Orig.

(* external-parser calls of the original code: those of the repaired code plus the registry
   path taken when the prefix is absent *)
Definition queries_orig (s : str) : list (qkind * str) :=
  queries s ++
  (match reg_head_orig s with
   | Ok (_, ver_s, rest) =>
     (QVer, ver_s) :: match reg_cid_str rest with Some (c, _) => [(QCid, c)] | None => [] end
   | _ => []
   end).

(* "git+http://a.com": whenever the url parser accepts "http://a.com" (gix_url does), the missing
   '?' makes `&s[repo_str.len() + 1..]` start one past the end. *)
Lemma parse_pinned_orig_refuted_git :
  forall (url cid ver : Type) (pu : str -> option url) (pc : str -> option cid) (pv : str -> option ver) u,
    pu [104;116;116;112;58;47;47;97;46;99;111;109]%N = Some u ->
    parse_pinned_orig url cid ver pu pc pv
      [103;105;116;43;104;116;116;112;58;47;47;97;46;99;111;109]%N = Panic 3.
Proof.
  intros url cid ver pu pc pv u Hu.
  unfold parse_pinned_orig.
  replace (str_eqb _ s_root || str_eqb _ s_member) with false by (vm_compute; reflexivity).
  replace (r <- parse_path _ ;; Ok (PPath r)) with (@Err (pinned url cid ver) 1) by (vm_compute; reflexivity).
  cbn [or_else].
  unfold parse_git_orig.
  replace (git_head _) with (@Ok (str * str) ([104;116;116;112;58;47;47;97;46;99;111;109]%N, [104;116;116;112;58;47;47;97;46;99;111;109]%N))
    by (vm_compute; reflexivity).
  cbn [obind fst snd]. rewrite Hu.
  replace (slice_from 3 _ _) with (@Panic str 3) by (vm_compute; reflexivity).
  reflexivity.
Qed.

(* dependency lines: "std (" (empty salt text: `0 - 1`), "(abc" (no ')'),
   "x (é" (last char is two bytes: `..len - 1` is inside it) *)
Lemma parse_dep_line_orig_refuted_empty_salt :
  parse_dep_line_orig [115;116;100;32;40]%N = Panic 11.
Proof. vm_compute. reflexivity. Qed.
Lemma parse_dep_line_orig_refuted_no_rpar :
  parse_dep_line_orig [40;97;98;99]%N = Panic 10.
Proof. vm_compute. reflexivity. Qed.
Lemma parse_dep_line_orig_refuted_multibyte :
  parse_dep_line_orig [120;32;40;195;169]%N = Panic 11.
Proof. vm_compute. reflexivity. Qed.

(* The refutations of the three totality statements, for every oracle behaviour. *)
Theorem parse_pinned_total_refuted :
  forall (url cid ver : Type) pu pc pv, exists s, exists site, parse_pinned_orig url cid ver pu pc pv s = Panic site.
Proof. intros. exists [97;98;99]%N, 7%N. apply parse_pinned_orig_refuted_abc. Qed.
Theorem parse_dep_line_total_refuted : exists s site, parse_dep_line_orig s = Panic site.
Proof. exists [115;116;100;32;40]%N, 11%N. apply parse_dep_line_orig_refuted_empty_salt. Qed.
Theorem to_graph_total_refuted :
  forall (url cid ver : Type) pu pc pv, exists l site, to_graph_orig url cid ver pu pc pv l = Panic site.
Proof.
  intros. eexists. exists 7%N. apply to_graph_orig_refuted_source.
Qed.
