(* Layout/Mem — in-memory images.  `ir_of` is convert_resolved_type_info + create_tagged_union_type
   (ir_generation/convert.rs, types.rs): u16/u32/u64 become IR u64, an enum is {u64, union} or just {u64}
   when every variant is zero sized, tuples/structs are IR structs, () is Unit.  `mem_bytes` lays a value
   out as irtype.rs prescribes: struct fields right padded to the word, union variants left padded, arrays
   packed.  Padding bytes are written as zeros here (real memory holds whatever was there); the theorems
   that use mem_bytes for equality are about types that have no padding at all. *)
From SwayV Require Import Base.Util Layout.Bytes Layout.Types Layout.Abi.
Local Open Scope N_scope.

Inductive mval :=
| MUnit
| MByte (b : N)            (* bool, u8 *)
| MWord (n : N)            (* u16/u32/u64, pointers *)
| MBig (n : N)             (* u256, b256 *)
| MStr (bs : list N)       (* str[N] *)
| MAgg (vs : list mval)    (* struct fields / array elements *)
| MVariant (i : nat) (v : mval)   (* union *)
| MSlice (ptr len : N).

Fixpoint mem_bytes (t : ty) (v : mval) : list N :=
  match t, v with
  | TUnit, _ => []
  | TBool, MByte b | TU8, MByte b => [b]
  | TU16, MWord n | TU32, MWord n | TU64, MWord n | TPtr, MWord n => be_bytes 8 n
  | TU256, MBig n | TB256, MBig n => be_bytes 32 n
  | TStrArray k, MStr bs => bs ++ zeros (size (TStrArray k) - nlen bs)
  | TArray t _, MAgg vs => flat_map (mem_bytes t) vs
  | TStruct ts, MAgg vs =>
    (fix go (ts : list ty) (vs : list mval) : list N :=
       match ts, vs with
       | t :: ts', v :: vs' => mem_bytes t v ++ zeros (size_aligned t - size t) ++ go ts' vs'
       | _, _ => []
       end) ts vs
  | TUnion ts, MVariant i v =>
    let usz := size (TUnion ts) in
    (fix pick (ts : list ty) (k : nat) : list N :=
       match ts, k with
       | t :: _, O => zeros (usz - size t) ++ mem_bytes t v
       | _ :: r, S k' => pick r k'
       | [], _ => []
       end) ts i
  | TSlice, MSlice p l | TStrSlice, MSlice p l => be_bytes 8 p ++ be_bytes 8 l
  | _, _ => []
  end.

Fixpoint mem_fields (ts : list ty) (vs : list mval) : list N :=
  match ts, vs with
  | t :: ts', v :: vs' => mem_bytes t v ++ zeros (size_aligned t - size t) ++ mem_fields ts' vs'
  | _, _ => []
  end.
Lemma mem_struct ts vs : mem_bytes (TStruct ts) (MAgg vs) = mem_fields ts vs.
Proof. reflexivity. Qed.
Definition mem_variant (usz : N) (ts : list ty) (k : nat) (v : mval) : list N :=
  match nth_error ts k with Some t => zeros (usz - size t) ++ mem_bytes t v | None => [] end.
Lemma mem_union ts k v : mem_bytes (TUnion ts) (MVariant k v) = mem_variant (size (TUnion ts)) ts k v.
Proof.
  cbn [mem_bytes]. unfold mem_variant. generalize (size (TUnion ts)) as usz. intros usz.
  revert k. induction ts as [|t r IH]; intros [|k]; cbn [nth_error]; try reflexivity. apply IH.
Qed.

(* std structs with heap parts: Vec<T> = { buf: RawVec { ptr, cap }, len }, Bytes the same shape,
   String = { bytes: Bytes } *)
Definition T_VEC : ty := TStruct [TStruct [TPtr; TU64]; TU64].

Fixpoint ir_of (t : aty) : ty :=
  match t with
  | AUnit => TUnit | ABool => TBool | AU8 => TU8
  | AU16 | AU32 | AU64 => TU64
  | AU256 => TU256 | AB256 => TB256
  | AStrArr n => TStrArray n
  | AStr | ARawSlice => TSlice
  | ABytes | AVec _ => T_VEC
  | AString => TStruct [T_VEC]
  | AArray t n => TArray (ir_of t) n
  | ATuple ts | AStruct ts => TStruct ((fix go (l : list aty) : list ty := match l with [] => [] | x :: r => ir_of x :: go r end) ts)
  | AEnum ts =>
    let irs := (fix go (l : list aty) : list ty := match l with [] => [] | x :: r => ir_of x :: go r end) ts in
    if forallb is_zero_sized irs then TStruct [TU64] else TStruct [TU64; TUnion irs]
  end.

Lemma ir_of_tuple ts : ir_of (ATuple ts) = TStruct (map ir_of ts).
Proof. reflexivity. Qed.
Lemma ir_of_struct ts : ir_of (AStruct ts) = TStruct (map ir_of ts).
Proof. reflexivity. Qed.
Lemma ir_of_enum ts : ir_of (AEnum ts) =
  if forallb is_zero_sized (map ir_of ts) then TStruct [TU64] else TStruct [TU64; TUnion (map ir_of ts)].
Proof. reflexivity. Qed.

(* memory value of an ABI value; heap-carrying types get placeholder pointers (never inspected:
   such types are never classified trivial) *)
Fixpoint lower (t : aty) (v : aval) : mval :=
  match t, v with
  | AUnit, _ => MUnit
  | ABool, VBool b => MByte (if b then 1 else 0)
  | AU8, VNum n => MByte n
  | AU16, VNum n | AU32, VNum n | AU64, VNum n => MWord n
  | AU256, VNum n | AB256, VNum n => MBig n
  | AStrArr _, VBytes bs => MStr bs
  | AStr, VBytes bs | ARawSlice, VBytes bs => MSlice 0 (nlen bs)
  | ABytes, VBytes bs => MAgg [MAgg [MWord 0; MWord (nlen bs)]; MWord (nlen bs)]
  | AString, VBytes bs => MAgg [MAgg [MAgg [MWord 0; MWord (nlen bs)]; MWord (nlen bs)]]
  | AVec _, VSeq vs => MAgg [MAgg [MWord 0; MWord (nlen vs)]; MWord (nlen vs)]
  | AArray t _, VSeq vs => MAgg (map (lower t) vs)
  | ATuple ts, VSeq vs | AStruct ts, VSeq vs =>
    MAgg ((fix go (ts : list aty) (vs : list aval) : list mval :=
             match ts, vs with t :: ts', v :: vs' => lower t v :: go ts' vs' | _, _ => [] end) ts vs)
  | AEnum ts, VEnum k v =>
    let irs := map ir_of ts in
    let pv := (fix pick (ts : list aty) (j : nat) : mval :=
                 match ts, j with
                 | t :: _, O => lower t v
                 | _ :: r, S j' => pick r j'
                 | [], _ => MUnit
                 end) ts k in
    if forallb is_zero_sized irs then MAgg [MWord (N.of_nat k)]
    else MAgg [MWord (N.of_nat k); MVariant k pv]
  | _, _ => MUnit
  end.

Fixpoint lower_fields (ts : list aty) (vs : list aval) : list mval :=
  match ts, vs with t :: ts', v :: vs' => lower t v :: lower_fields ts' vs' | _, _ => [] end.
Lemma lower_tuple ts vs : lower (ATuple ts) (VSeq vs) = MAgg (lower_fields ts vs).
Proof. reflexivity. Qed.
Lemma lower_struct ts vs : lower (AStruct ts) (VSeq vs) = MAgg (lower_fields ts vs).
Proof. reflexivity. Qed.
Definition lower_variant (ts : list aty) (k : nat) (v : aval) : mval :=
  match nth_error ts k with Some t => lower t v | None => MUnit end.
Lemma lower_enum ts k v : lower (AEnum ts) (VEnum k v) =
  if forallb is_zero_sized (map ir_of ts) then MAgg [MWord (N.of_nat k)]
  else MAgg [MWord (N.of_nat k); MVariant k (lower_variant ts k v)].
Proof.
  assert (H : forall j, (fix pick (ts : list aty) (j : nat) : mval :=
                 match ts, j with
                 | t :: _, O => lower t v
                 | _ :: r, S j' => pick r j'
                 | [], _ => MUnit
                 end) ts j = lower_variant ts j v).
  { unfold lower_variant. induction ts as [|t r IH]; intros [|j]; cbn [nth_error]; try reflexivity. apply IH. }
  cbn [lower]. rewrite H. reflexivity.
Qed.
