(* Layout/Abi — ABI-level type trees, values, typing and the canonical Fuel ABI encoding (the
   specification S of C09/C10/C13): u8 1 B, u16 2 B BE, u32 4 B BE, u64 8 B BE, u256/b256 32 B,
   bool 1 B, str[N] N bytes, str/raw_slice/Bytes/String u64 length ++ bytes, Vec<T> u64 length ++
   elements, arrays/tuples/structs concatenation, enums u64 tag ++ payload (Option/Result are enums). *)
From SwayV Require Import Base.Util Layout.Bytes.
Local Open Scope N_scope.

Inductive aty :=
| AUnit | ABool | AU8 | AU16 | AU32 | AU64 | AU256 | AB256
| AStrArr (n : N)
| AStr | ARawSlice | ABytes | AString
| AVec (t : aty)
| AArray (t : aty) (n : N)
| ATuple (ts : list aty)       (* non-empty tuples; () is AUnit *)
| AStruct (ts : list aty)
| AEnum (ts : list aty).       (* payload type per variant, tag = position *)

Definition AOption (t : aty) := AEnum [AUnit; t].
Definition AResult (t e : aty) := AEnum [t; e].

Inductive aval :=
| VUnit
| VBool (b : bool)
| VNum (n : N)                 (* u8..u256, b256 *)
| VBytes (bs : list N)         (* str[N], str, raw_slice, Bytes, String *)
| VSeq (vs : list aval)        (* array, tuple, struct, Vec *)
| VEnum (tag : nat) (v : aval).

Definition enc_seq (f : aval -> list N) (vs : list aval) : list N := flat_map f vs.

Fixpoint enc (t : aty) (v : aval) : list N :=
  match t, v with
  | AUnit, _ => []
  | ABool, VBool b => [if b then 1 else 0]
  | AU8, VNum n => be_bytes 1 n
  | AU16, VNum n => be_bytes 2 n
  | AU32, VNum n => be_bytes 4 n
  | AU64, VNum n => be_bytes 8 n
  | AU256, VNum n | AB256, VNum n => be_bytes 32 n
  | AStrArr _, VBytes bs => bs
  | AStr, VBytes bs | ARawSlice, VBytes bs | ABytes, VBytes bs | AString, VBytes bs => be_bytes 8 (nlen bs) ++ bs
  | AVec t, VSeq vs => be_bytes 8 (nlen vs) ++ enc_seq (enc t) vs
  | AArray t _, VSeq vs => enc_seq (enc t) vs
  | ATuple ts, VSeq vs | AStruct ts, VSeq vs =>
    (fix go (ts : list aty) (vs : list aval) : list N :=
       match ts, vs with t :: ts', v :: vs' => enc t v ++ go ts' vs' | _, _ => [] end) ts vs
  | AEnum ts, VEnum tag v =>
    be_bytes 8 (N.of_nat tag) ++
    (fix pick (ts : list aty) (k : nat) : list N :=
       match ts, k with
       | t :: _, O => enc t v
       | _ :: r, S k' => pick r k'
       | [], _ => []
       end) ts tag
  | _, _ => []
  end.

Fixpoint enc_fields (ts : list aty) (vs : list aval) : list N :=
  match ts, vs with t :: ts', v :: vs' => enc t v ++ enc_fields ts' vs' | _, _ => [] end.
Definition enc_variant (ts : list aty) (k : nat) (v : aval) : list N :=
  match nth_error ts k with Some t => enc t v | None => [] end.

Lemma enc_tuple ts vs : enc (ATuple ts) (VSeq vs) = enc_fields ts vs.
Proof. reflexivity. Qed.
Lemma enc_struct ts vs : enc (AStruct ts) (VSeq vs) = enc_fields ts vs.
Proof. reflexivity. Qed.
Lemma enc_enum ts k v : enc (AEnum ts) (VEnum k v) = be_bytes 8 (N.of_nat k) ++ enc_variant ts k v.
Proof.
  cbn [enc]. f_equal. unfold enc_variant. revert k. induction ts as [|t r IH]; intros [|k]; cbn [nth_error]; try reflexivity. apply IH.
Qed.

(* well-typed values *)
Definition U64_MAX1 : N := 18446744073709551616.
Definition U256_MAX1 : N := 2 ^ 256.

Fixpoint wtb (t : aty) (v : aval) : bool :=
  match t, v with
  | AUnit, VUnit => true
  | ABool, VBool _ => true
  | AU8, VNum n => n <? 256
  | AU16, VNum n => n <? 65536
  | AU32, VNum n => n <? 4294967296
  | AU64, VNum n => n <? U64_MAX1
  | AU256, VNum n | AB256, VNum n => n <? U256_MAX1
  | AStrArr k, VBytes bs => (nlen bs =? k) && forallb byte_okb bs
  | AStr, VBytes bs | ARawSlice, VBytes bs | ABytes, VBytes bs | AString, VBytes bs =>
    (nlen bs <? U64_MAX1) && forallb byte_okb bs
  | AVec t, VSeq vs => (nlen vs <? U64_MAX1) && forallb (wtb t) vs
  | AArray t k, VSeq vs => (nlen vs =? k) && forallb (wtb t) vs
  | ATuple ts, VSeq vs | AStruct ts, VSeq vs =>
    (fix go (ts : list aty) (vs : list aval) : bool :=
       match ts, vs with
       | [], [] => true
       | t :: ts', v :: vs' => wtb t v && go ts' vs'
       | _, _ => false
       end) ts vs
  | AEnum ts, VEnum tag v =>
    (N.of_nat tag <? U64_MAX1) &&
    (fix pick (ts : list aty) (k : nat) : bool :=
       match ts, k with
       | t :: _, O => wtb t v
       | _ :: r, S k' => pick r k'
       | [], _ => false
       end) ts tag
  | _, _ => false
  end.

Fixpoint wtb_fields (ts : list aty) (vs : list aval) : bool :=
  match ts, vs with
  | [], [] => true
  | t :: ts', v :: vs' => wtb t v && wtb_fields ts' vs'
  | _, _ => false
  end.
Definition wtb_variant (ts : list aty) (k : nat) (v : aval) : bool :=
  match nth_error ts k with Some t => wtb t v | None => false end.

Lemma wtb_tuple ts vs : wtb (ATuple ts) (VSeq vs) = wtb_fields ts vs.
Proof. reflexivity. Qed.
Lemma wtb_struct ts vs : wtb (AStruct ts) (VSeq vs) = wtb_fields ts vs.
Proof. reflexivity. Qed.
Lemma wtb_enum ts k v : wtb (AEnum ts) (VEnum k v) = (N.of_nat k <? U64_MAX1) && wtb_variant ts k v.
Proof.
  cbn [wtb]. f_equal. unfold wtb_variant. revert k. induction ts as [|t r IH]; intros [|k]; cbn [nth_error]; try reflexivity. apply IH.
Qed.

(* induction principle with the nested lists *)
Section AtyInd.
  Variable P : aty -> Prop.
  Hypothesis H0 : P AUnit. Hypothesis H1 : P ABool. Hypothesis H2 : P AU8. Hypothesis H3 : P AU16.
  Hypothesis H4 : P AU32. Hypothesis H5 : P AU64. Hypothesis H6 : P AU256. Hypothesis H7 : P AB256.
  Hypothesis H8 : forall n, P (AStrArr n).
  Hypothesis H9 : P AStr. Hypothesis H10 : P ARawSlice. Hypothesis H11 : P ABytes. Hypothesis H12 : P AString.
  Hypothesis H13 : forall t, P t -> P (AVec t).
  Hypothesis H14 : forall t n, P t -> P (AArray t n).
  Hypothesis H15 : forall ts, Forall P ts -> P (ATuple ts).
  Hypothesis H16 : forall ts, Forall P ts -> P (AStruct ts).
  Hypothesis H17 : forall ts, Forall P ts -> P (AEnum ts).
  Fixpoint aty_ind' (t : aty) : P t :=
    let go := (fix go (l : list aty) : Forall P l :=
                 match l with [] => Forall_nil P | x :: r => Forall_cons x (aty_ind' x) (go r) end) in
    match t with
    | AUnit => H0 | ABool => H1 | AU8 => H2 | AU16 => H3 | AU32 => H4 | AU64 => H5 | AU256 => H6 | AB256 => H7
    | AStrArr n => H8 n | AStr => H9 | ARawSlice => H10 | ABytes => H11 | AString => H12
    | AVec t => H13 t (aty_ind' t)
    | AArray t n => H14 t n (aty_ind' t)
    | ATuple ts => H15 ts (go ts)
    | AStruct ts => H16 ts (go ts)
    | AEnum ts => H17 ts (go ts)
    end.
End AtyInd.
