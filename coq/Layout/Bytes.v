(* Layout/Bytes — byte strings as [list N]: lengths in N, big-endian words, sub-ranges, patching,
   rounding to the 8-byte word.  Shared by C13, C10, C09. *)
From Coq Require Import List NArith Lia Bool ZifyBool ZifyN.
From SwayV Require Import Base.Util.
Import ListNotations.
Local Open Scope N_scope.
Ltac Zify.zify_post_hook ::= Z.div_mod_to_equations.

Arguments N.add : simpl never. Arguments N.sub : simpl never. Arguments N.mul : simpl never.
Arguments N.div : simpl never. Arguments N.modulo : simpl never. Arguments N.eqb : simpl never.
Arguments N.ltb : simpl never. Arguments N.leb : simpl never. Arguments N.land : simpl never.

Definition nlen {A} (l : list A) : N := N.of_nat (length l).
Definition zeros (n : N) : list N := repeat 0 (N.to_nat n).
Definition ntake {A} (n : N) (l : list A) := firstn (N.to_nat n) l.
Definition ndrop {A} (n : N) (l : list A) := skipn (N.to_nat n) l.
(* bytes [off, off+len) of l *)
Definition sub {A} (l : list A) (off len : N) : list A := ntake len (ndrop off l).
(* overwrite [off, off + nlen new) of l with new *)
Definition patch {A} (l : list A) (off : N) (new : list A) : list A :=
  ntake off l ++ new ++ ndrop (off + nlen new) l.

Definition byte_ok (b : N) : Prop := b < 256.
Definition bytes_ok (l : list N) : Prop := Forall byte_ok l.
Definition byte_okb (b : N) : bool := b <? 256.

(* size_bytes_round_up_to_word_alignment! / TypeSize::in_bytes_aligned *)
Definition round_up8 (n : N) : N := (n + 7) - ((n + 7) mod 8).

Lemma round_up8_ge n : n <= round_up8 n.
Proof. unfold round_up8. lia. Qed.
Lemma round_up8_mod n : round_up8 n mod 8 = 0.
Proof. unfold round_up8. lia. Qed.
Lemma round_up8_lt n : round_up8 n < n + 8.
Proof. unfold round_up8. lia. Qed.
Lemma round_up8_id n : n mod 8 = 0 -> round_up8 n = n.
Proof. unfold round_up8. lia. Qed.
Lemma round_up8_mono a b : a <= b -> round_up8 a <= round_up8 b.
Proof. unfold round_up8. lia. Qed.
Ltac Zify.zify_post_hook ::= idtac.

(* ---- lengths *)
Lemma nlen_app {A} (a b : list A) : nlen (a ++ b) = nlen a + nlen b.
Proof. unfold nlen. rewrite app_length. lia. Qed.
Lemma nlen_nil {A} : nlen (@nil A) = 0. Proof. reflexivity. Qed.
Lemma nlen_cons {A} (x : A) l : nlen (x :: l) = 1 + nlen l.
Proof. unfold nlen. cbn [length]. lia. Qed.
Lemma nlen_zeros n : nlen (zeros n) = n.
Proof. unfold nlen, zeros. rewrite repeat_length. lia. Qed.
Lemma nlen_ntake {A} n (l : list A) : nlen (ntake n l) = N.min n (nlen l).
Proof. unfold nlen, ntake. rewrite firstn_length. lia. Qed.
Lemma nlen_ndrop {A} n (l : list A) : nlen (ndrop n l) = nlen l - n.
Proof. unfold nlen, ndrop. rewrite skipn_length. lia. Qed.
Lemma nlen_map {A B} (f : A -> B) l : nlen (map f l) = nlen l.
Proof. unfold nlen. now rewrite map_length. Qed.
Lemma nlen_0 {A} (l : list A) : nlen l = 0 -> l = [].
Proof. destruct l; [reflexivity|]. rewrite nlen_cons. lia. Qed.

(* ---- take / drop over append *)
Lemma ntake_app_exact {A} (a b : list A) : ntake (nlen a) (a ++ b) = a.
Proof.
  unfold ntake, nlen. rewrite Nat2N.id.
  rewrite firstn_app, Nat.sub_diag, firstn_all. cbn. now rewrite app_nil_r.
Qed.
Lemma ndrop_app_exact {A} (a b : list A) : ndrop (nlen a) (a ++ b) = b.
Proof.
  unfold ndrop, nlen. rewrite Nat2N.id.
  rewrite skipn_app, Nat.sub_diag, skipn_all. reflexivity.
Qed.
Lemma ntake_app_le {A} n (a b : list A) : n <= nlen a -> ntake n (a ++ b) = ntake n a.
Proof.
  unfold ntake, nlen. intros H. rewrite firstn_app.
  replace (N.to_nat n - length a)%nat with 0%nat by lia. cbn. now rewrite app_nil_r.
Qed.
Lemma ntake_app_ge {A} n (a b : list A) : nlen a <= n -> ntake n (a ++ b) = a ++ ntake (n - nlen a) b.
Proof.
  unfold ntake, nlen. intros H. rewrite firstn_app.
  rewrite firstn_all2 by lia. f_equal. f_equal. lia.
Qed.
Lemma ndrop_app_le {A} n (a b : list A) : n <= nlen a -> ndrop n (a ++ b) = ndrop n a ++ b.
Proof.
  unfold ndrop, nlen. intros H. rewrite skipn_app.
  replace (N.to_nat n - length a)%nat with 0%nat by lia. reflexivity.
Qed.
Lemma ndrop_app_ge {A} n (a b : list A) : nlen a <= n -> ndrop n (a ++ b) = ndrop (n - nlen a) b.
Proof.
  unfold ndrop, nlen. intros H. rewrite skipn_app.
  rewrite skipn_all2 by lia. cbn. f_equal. lia.
Qed.
Lemma ntake_all {A} n (l : list A) : nlen l <= n -> ntake n l = l.
Proof. unfold ntake, nlen. intros. apply firstn_all2. lia. Qed.
Lemma ntake_ndrop {A} n (l : list A) : ntake n l ++ ndrop n l = l.
Proof. apply firstn_skipn. Qed.

(* the bytes of the middle part of a three-part list *)
Lemma sub_middle {A} (p t s : list A) : sub (p ++ t ++ s) (nlen p) (nlen t) = t.
Proof. unfold sub. rewrite ndrop_app_exact. apply ntake_app_exact. Qed.

Lemma nlen_patch {A} (l : list A) off new :
  off + nlen new <= nlen l -> nlen (patch l off new) = nlen l.
Proof.
  intros H. unfold patch. rewrite !nlen_app, nlen_ntake, nlen_ndrop. lia.
Qed.

(* patching inside the middle part touches the middle part only *)
Lemma patch_middle {A} (p t s new : list A) :
  nlen new <= nlen t ->
  patch (p ++ t ++ s) (nlen p) new = p ++ (new ++ ndrop (nlen new) t) ++ s.
Proof.
  intros H. unfold patch. rewrite ntake_app_exact. f_equal.
  rewrite ndrop_app_ge by lia. replace (nlen p + nlen new - nlen p) with (nlen new) by lia.
  rewrite ndrop_app_le by lia. now rewrite app_assoc.
Qed.
Lemma patch_in_right {A} (a b new : list A) off :
  nlen a <= off -> patch (a ++ b) off new = a ++ patch b (off - nlen a) new.
Proof.
  intros H. unfold patch. rewrite ntake_app_ge by lia. rewrite ndrop_app_ge by lia.
  rewrite <- app_assoc. replace (off + nlen new - nlen a) with (off - nlen a + nlen new) by lia.
  reflexivity.
Qed.
Lemma patch_in_left {A} (a b new : list A) off :
  off + nlen new <= nlen a -> patch (a ++ b) off new = patch a off new ++ b.
Proof.
  intros H. unfold patch. rewrite ntake_app_le by lia. rewrite ndrop_app_le by lia.
  now rewrite <- !app_assoc.
Qed.
Lemma sub_patch_same {A} (l new : list A) off :
  off + nlen new <= nlen l -> sub (patch l off new) off (nlen new) = new.
Proof.
  intros H. unfold patch.
  assert (Hp : nlen (ntake off l) = off) by (rewrite nlen_ntake; lia).
  pose proof (sub_middle (ntake off l) new (ndrop (off + nlen new) l)) as Hm.
  rewrite Hp in Hm. exact Hm.
Qed.

(* ---- big-endian *)
Ltac Zify.zify_post_hook ::= Z.div_mod_to_equations.
Fixpoint be_bytes (k : nat) (n : N) : list N :=
  match k with O => [] | S k' => be_bytes k' (n / 256) ++ [n mod 256] end.
Definition be_val (bs : list N) : N := fold_left (fun acc b => acc * 256 + b) bs 0.

Lemma be_bytes_length k n : length (be_bytes k n) = k.
Proof. revert n. induction k; intros; cbn [be_bytes]; [reflexivity|]. rewrite app_length, IHk. cbn. lia. Qed.
Lemma nlen_be_bytes k n : nlen (be_bytes k n) = N.of_nat k.
Proof. unfold nlen. now rewrite be_bytes_length. Qed.
Lemma be_bytes_ok k n : bytes_ok (be_bytes k n).
Proof.
  revert n. induction k; intros; cbn [be_bytes]; [constructor|].
  apply Forall_app. split; [apply IHk|]. constructor; [|constructor]. unfold byte_ok. lia.
Qed.
Lemma be_val_app a b : be_val (a ++ [b]) = be_val a * 256 + b.
Proof. unfold be_val. now rewrite fold_left_app. Qed.
Lemma be_val_be_bytes k n : n < 256 ^ N.of_nat k -> be_val (be_bytes k n) = n.
Proof.
  revert n. induction k; intros n H.
  - cbn in *. unfold be_val. cbn. lia.
  - cbn [be_bytes]. rewrite be_val_app, IHk.
    + lia.
    + rewrite Nat2N.inj_succ, N.pow_succ_r' in H. lia.
Qed.
Lemma be_bytes_be_val bs : bytes_ok bs -> be_bytes (length bs) (be_val bs) = bs.
Proof.
  induction bs using rev_ind; intros H; [reflexivity|].
  apply Forall_app in H. destruct H as [H1 H2]. inversion H2; subst. unfold byte_ok in *.
  rewrite app_length. cbn [length]. rewrite Nat.add_1_r. cbn [be_bytes].
  rewrite be_val_app.
  replace ((be_val bs * 256 + x) / 256) with (be_val bs) by lia.
  replace ((be_val bs * 256 + x) mod 256) with x by lia.
  now rewrite IHbs.
Qed.
Lemma be_val_bound bs : bytes_ok bs -> be_val bs < 256 ^ nlen bs.
Proof.
  induction bs using rev_ind; intros H.
  - cbn. unfold be_val. cbn. lia.
  - apply Forall_app in H. destruct H as [H1 H2]. inversion H2; subst. unfold byte_ok in *.
    rewrite be_val_app, nlen_app. specialize (IHbs H1).
    replace (nlen bs + nlen [x]) with (N.succ (nlen bs)) by (unfold nlen; cbn; lia).
    rewrite N.pow_succ_r'. lia.
Qed.
Lemma be_bytes_inj k a b : a < 256 ^ N.of_nat k -> b < 256 ^ N.of_nat k -> be_bytes k a = be_bytes k b -> a = b.
Proof. intros Ha Hb H. rewrite <- (be_val_be_bytes k a Ha), <- (be_val_be_bytes k b Hb). now rewrite H. Qed.

Ltac Zify.zify_post_hook ::= idtac.
Lemma bytes_ok_app a b : bytes_ok (a ++ b) <-> bytes_ok a /\ bytes_ok b.
Proof. apply Forall_app. Qed.
Lemma bytes_ok_zeros n : bytes_ok (zeros n).
Proof. unfold zeros. induction (N.to_nat n); cbn; constructor; [unfold byte_ok; lia | assumption]. Qed.

Fixpoint list_eqb (a b : list N) : bool :=
  match a, b with
  | [], [] => true
  | x :: a', y :: b' => (x =? y) && list_eqb a' b'
  | _, _ => false
  end.
Lemma list_eqb_eq a b : list_eqb a b = true <-> a = b.
Proof.
  revert b. induction a; destruct b; cbn; split; intros H; try congruence; try discriminate.
  - apply andb_true_iff in H. destruct H as [H1 H2]. apply N.eqb_eq in H1. apply IHa in H2. congruence.
  - inversion H; subst. apply andb_true_iff. split; [apply N.eqb_refl | now apply IHa].
Qed.
