(* Layout/Types — IR type trees and their sizes/offsets exactly as sway-ir/src/irtype.rs
   (Type::size, TypeSize::in_bytes_aligned, get_struct_field_offset_and_type,
   get_union_field_offset_and_type, get_indexed_offset).  Leaf sizes are the generated facts. *)
From SwayV Require Import Base.Util Layout.Bytes Generated.LayoutFacts.
Local Open Scope N_scope.

(* the translator checked that the rounding unit is the 8-byte word used by round_up8 *)
Lemma word_is_8 : word = 8. Proof. reflexivity. Qed.

Inductive ty :=
| TUnit | TBool | TU8 | TU16 | TU32 | TU64 | TU256 | TB256
| TStrArray (n : N)
| TArray (t : ty) (n : N)
| TStruct (ts : list ty)
| TUnion (ts : list ty)
| TPtr | TSlice | TStrSlice.

Fixpoint size (t : ty) : N :=
  match t with
  | TUnit => sz_unit | TBool => sz_bool | TU8 => sz_u8 | TU16 => sz_u16 | TU32 => sz_u32
  | TU64 => sz_u64 | TU256 => sz_u256 | TB256 => sz_b256
  | TStrArray n => if str_array_padded then round_up8 n else n
  | TArray t n => n * size t
  | TStruct ts => (fix go (l : list ty) : N := match l with [] => 0 | x :: r => round_up8 (size x) + go r end) ts
  | TUnion ts => (fix go (l : list ty) : N := match l with [] => 0 | x :: r => N.max (round_up8 (size x)) (go r) end) ts
  | TPtr => sz_ptr | TSlice => sz_slice | TStrSlice => sz_strslice
  end.

Definition size_aligned (t : ty) : N := round_up8 (size t).

Fixpoint sum_aligned (ts : list ty) : N := match ts with [] => 0 | x :: r => size_aligned x + sum_aligned r end.
Fixpoint max_aligned (ts : list ty) : N := match ts with [] => 0 | x :: r => N.max (size_aligned x) (max_aligned r) end.

Lemma size_struct ts : size (TStruct ts) = sum_aligned ts.
Proof. cbn [size]. induction ts as [|x r IH]; cbn [sum_aligned]; [reflexivity|]. now rewrite IH. Qed.
Lemma size_union ts : size (TUnion ts) = max_aligned ts.
Proof. cbn [size]. induction ts as [|x r IH]; cbn [max_aligned]; [reflexivity|]. now rewrite IH. Qed.

(* get_struct_field_offset_and_type: sum of the aligned sizes of the previous fields *)
Definition struct_field_offset (ts : list ty) (idx : nat) : N := sum_aligned (firstn idx ts).
(* get_union_field_offset_and_type: variants are left padded *)
Definition union_field_offset (ts : list ty) (idx : nat) : option N :=
  match nth_error ts idx with Some t => Some (size (TUnion ts) - size t) | None => None end.
(* arrays are packed *)
Definition array_elem_offset (t : ty) (idx : N) : N := size t * idx.

Definition is_zero_sized (t : ty) : bool := size t =? 0.

(* induction principle with the nested lists *)
Section TyInd.
  Variable P : ty -> Prop.
  Hypothesis Hunit : P TUnit. Hypothesis Hbool : P TBool. Hypothesis Hu8 : P TU8. Hypothesis Hu16 : P TU16.
  Hypothesis Hu32 : P TU32. Hypothesis Hu64 : P TU64. Hypothesis Hu256 : P TU256. Hypothesis Hb256 : P TB256.
  Hypothesis Hstr : forall n, P (TStrArray n).
  Hypothesis Harr : forall t n, P t -> P (TArray t n).
  Hypothesis Hstruct : forall ts, Forall P ts -> P (TStruct ts).
  Hypothesis Hunion : forall ts, Forall P ts -> P (TUnion ts).
  Hypothesis Hptr : P TPtr. Hypothesis Hslice : P TSlice. Hypothesis Hstrslice : P TStrSlice.
  Fixpoint ty_ind' (t : ty) : P t :=
    match t with
    | TUnit => Hunit | TBool => Hbool | TU8 => Hu8 | TU16 => Hu16 | TU32 => Hu32 | TU64 => Hu64
    | TU256 => Hu256 | TB256 => Hb256 | TStrArray n => Hstr n
    | TArray t n => Harr t n (ty_ind' t)
    | TStruct ts => Hstruct ts ((fix go (l : list ty) : Forall P l :=
                       match l with [] => Forall_nil P | x :: r => Forall_cons x (ty_ind' x) (go r) end) ts)
    | TUnion ts => Hunion ts ((fix go (l : list ty) : Forall P l :=
                       match l with [] => Forall_nil P | x :: r => Forall_cons x (ty_ind' x) (go r) end) ts)
    | TPtr => Hptr | TSlice => Hslice | TStrSlice => Hstrslice
    end.
End TyInd.

Lemma size_aligned_mod t : size_aligned t mod 8 = 0.
Proof. apply round_up8_mod. Qed.
Lemma sum_aligned_mod ts : sum_aligned ts mod 8 = 0.
Proof.
  induction ts as [|x r IH]; cbn [sum_aligned]; [reflexivity|].
  pose proof (size_aligned_mod x). rewrite N.add_mod by lia. rewrite H, IH. reflexivity.
Qed.
Lemma max_aligned_mod ts : max_aligned ts mod 8 = 0.
Proof.
  induction ts as [|x r IH]; cbn [max_aligned]; [reflexivity|].
  pose proof (size_aligned_mod x). destruct (N.max_spec (size_aligned x) (max_aligned r)) as [[_ ->]|[_ ->]]; assumption.
Qed.
