(* C29 — property theorems only. *)
From SwayV Require Import Base.Util C29.Model C29.Spec C29.Proofs.
From Coq Require Import Permutation.

(* forc test reports a test as passed exactly when its execution matches the declared expectation,
   for every pass condition and every way the VM can end. *)
Theorem C29_passed_iff_expectation : forall c r,
  passed c (final_state r) = true <-> expectation_met c r.
Proof. exact passed_iff_expectation. Qed.
Print Assumptions C29_passed_iff_expectation.

(* The report of a test is the same in every suite that contains it, at any position. *)
Theorem C29_suite_isolated : forall sig init l1 t l2,
  exists r1 r2, run_suite sig init (l1 ++ t :: l2) = r1 ++ run_test sig init t :: r2
                /\ length r1 = length l1.
Proof. exact suite_isolated. Qed.
Print Assumptions C29_suite_isolated.

Theorem C29_suite_order_irrelevant : forall sig init ts ts',
  Permutation ts ts' -> Permutation (run_suite sig init ts) (run_suite sig init ts').
Proof. exact suite_perm. Qed.
Print Assumptions C29_suite_order_irrelevant.

(* Non-vacuity: a should_revert(42) test that reverts with 42 passes, with 43 fails, and a VM
   panic only satisfies should_revert / should_revert(0). *)
Example C29_examples :
  passed (ShouldRevert (Some 42%N)) (final_state (VmFinal (Revert 42%N))) = true /\
  passed (ShouldRevert (Some 42%N)) (final_state (VmFinal (Revert 43%N))) = false /\
  passed (ShouldRevert None) (final_state VmErr) = true /\
  passed (ShouldRevert (Some 7%N)) (final_state VmErr) = false /\
  passed ShouldNotRevert (final_state VmErr) = false /\
  passed ShouldNotRevert (final_state (VmFinal Return)) = true.
Proof. vm_compute. repeat split. Qed.
