(* C29 — specification. *)
From SwayV Require Export Base.Util C29.Model.

(* "its execution matches its declared expectation (no revert, or revert with the declared code
   when marked should_revert)".  Reading fixed here and in DESIGN.md: a VM panic (interpreter
   error) is an execution failure that forc-test reports as a revert with code 0; the FuelVM has
   no separate 'revert' for it. *)
Definition reverted_with (r : vmres) (c : N) : Prop :=
  r = VmFinal (Revert c) \/ (r = VmErr /\ c = 0%N).

Definition reverted (r : vmres) : Prop := exists c, reverted_with r c.

Definition expectation_met (c : cond) (r : vmres) : Prop :=
  match c with
  | ShouldNotRevert => ~ reverted r
  | ShouldRevert None => reverted r
  | ShouldRevert (Some code) => reverted_with r code
  end.
