From SwayV Require Import Base.Util C29.Model C29.Spec.
From Coq Require Import Permutation.

Lemma reverted_final r : reverted r <-> is_revert (final_state r) = true.
Proof.
  unfold reverted, reverted_with. destruct r as [s|]; cbn.
  - destruct s as [| |c]; cbn; split.
    + intros [c [H|[H _]]]; discriminate.
    + discriminate.
    + intros [c [H|[H _]]]; discriminate.
    + discriminate.
    + reflexivity.
    + intros _. exists c. left. reflexivity.
  - split; [reflexivity|]. intros _. exists 0%N. right. split; reflexivity.
Qed.

Lemma passed_iff_expectation c r : passed c (final_state r) = true <-> expectation_met c r.
Proof.
  destruct c as [[code|]|]; cbn [passed expectation_met].
  - unfold reverted_with. destruct r as [s|]; cbn [final_state].
    + destruct s as [| |k].
      * split; [discriminate|]. intros [H|[H _]]; discriminate.
      * split; [discriminate|]. intros [H|[H _]]; discriminate.
      * destruct (N.eqb_spec k code) as [E|E]; split.
        -- intros _. left. subst. reflexivity.
        -- reflexivity.
        -- discriminate.
        -- intros [H|[H _]]; [inversion H; contradiction | discriminate].
    + destruct (N.eqb_spec 0%N code) as [E|E]; split.
      * intros _. right. split; [reflexivity | symmetry; exact E].
      * reflexivity.
      * discriminate.
      * intros [H|[_ H]]; [discriminate | symmetry in H; contradiction].
  - symmetry. apply reverted_final.
  - rewrite negb_true_iff. rewrite reverted_final. destruct (is_revert (final_state r)); split; congruence.
Qed.

(* isolation: the report of a test does not depend on which other tests are in the suite,
   nor on their order *)
Lemma suite_nth sig init ts i d :
  nth i (run_suite sig init ts) (run_test sig init d) = run_test sig init (nth i ts d).
Proof. unfold run_suite. apply map_nth. Qed.

Lemma suite_isolated sig init l1 t l2 :
  exists r1 r2, run_suite sig init (l1 ++ t :: l2) = r1 ++ run_test sig init t :: r2
                /\ length r1 = length l1.
Proof.
  exists (run_suite sig init l1), (run_suite sig init l2). unfold run_suite.
  rewrite map_app. cbn. split; [reflexivity | apply map_length].
Qed.

Lemma suite_perm sig init ts ts' :
  Permutation ts ts' -> Permutation (run_suite sig init ts) (run_suite sig init ts').
Proof. apply Permutation_map. Qed.

(* a test's writes are never observed by another test: its reads see `init` *)
Lemma reads_see_initial sig init k pre :
  (forall a, In a pre -> exists m, a = ALog m) ->
  exists logs0, o_logs (exec sig init [] (pre ++ [ARead k])) = logs0 ++ [sget init k].
Proof.
  intros Hpre.
  assert (G : forall logs, (forall a, In a pre -> exists m, a = ALog m) ->
    exists l0, o_logs (exec sig init logs (pre ++ [ARead k])) = rev logs ++ l0 ++ [sget init k]).
  { clear Hpre. induction pre as [|a pre IH]; intros logs Hp.
    - cbn. exists []. cbn. reflexivity.
    - destruct (Hp a (or_introl eq_refl)) as [m ->]. cbn [app exec].
      destruct (IH (m :: logs) (fun a Ha => Hp a (or_intror Ha))) as [l0 Hl0].
      exists (m :: l0). rewrite Hl0. cbn [rev]. rewrite <- app_assoc. reflexivity. }
  destruct (G [] Hpre) as [l0 H]. exists l0. exact H.
Qed.
