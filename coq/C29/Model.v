(* C29 — model of forc-test's verdict logic and per-test isolation.
   Anchors: forc-test/src/lib.rs  TestResult::passed, PackageTests::run_tests (a fresh
   `self.setup()` — i.e. a fresh deployment with the emitted initial storage — per test, and
   `test_setup.storage().clone()` in TestExecutor::build);
   forc-test/src/execute.rs  TestExecutor::execute (any interpreter error becomes
   ProgramState::Revert(0); only Log/LogData receipts are kept as `logs`).
   No proofs in this file. *)
From SwayV Require Export Base.Util.

(* pkg::TestPassCondition *)
Inductive cond := ShouldRevert (code : option N) | ShouldNotRevert.

(* vm::state::ProgramState at the end of a test *)
Inductive pstate := Return | ReturnData | Revert (code : N).

(* What the interpreter loop ended with: a final state, or Err(_) (a VM panic such as
   ArithmeticOverflow, MemoryOverflow, OutOfGas ...). *)
Inductive vmres := VmFinal (s : pstate) | VmErr.

(* execute(): `Err(_) => state = Ok(ProgramState::Revert(0))` *)
Definition final_state (r : vmres) : pstate :=
  match r with VmFinal s => s | VmErr => Revert 0 end.

Definition is_revert (s : pstate) : bool := match s with Revert _ => true | _ => false end.

(* TestResult::passed *)
Definition passed (c : cond) (s : pstate) : bool :=
  match c with
  | ShouldRevert (Some code) => match s with Revert k => N.eqb k code | _ => false end
  | ShouldRevert None => is_revert s
  | ShouldNotRevert => negb (is_revert s)
  end.

(* ---- mini-semantics of the generated test bodies (used for the correspondence run) ---- *)

(* Storage of the contract under test: field index -> u64 value. *)
Definition store := list (N * N).

Fixpoint sget (s : store) (k : N) : N :=
  match s with [] => 0%N | (k', v) :: t => if N.eqb k k' then v else sget t k end.

Definition sset (s : store) (k v : N) : store := (k, v) :: s.

Inductive action :=
| ALog (m : N)            (* log(m) *)
| AWrite (k v : N)        (* contract call: write field k *)
| ARead (k : N)           (* contract call: read field k, log the value *)
| ARevert (c : N)         (* revert(c) *)
| AAssertFail             (* assert(false): revert(FAILED_ASSERT_SIGNAL) *)
| AVmPanic.               (* u64 overflow: the VM panics, no Sway-level revert *)

Record outcome_t := { o_res : vmres; o_logs : list N; o_store : store }.

Section Exec.
  Variable assert_signal : N.   (* FAILED_ASSERT_SIGNAL, a generated fact *)

  Fixpoint exec (s : store) (logs : list N) (body : list action) : outcome_t :=
    match body with
    | [] => {| o_res := VmFinal Return; o_logs := rev logs; o_store := s |}
    | a :: rest =>
      match a with
      | ALog m => exec s (m :: logs) rest
      | AWrite k v => exec (sset s k v) logs rest
      | ARead k => exec s (sget s k :: logs) rest
      | ARevert c => {| o_res := VmFinal (Revert c); o_logs := rev logs; o_store := s |}
      | AAssertFail => {| o_res := VmFinal (Revert assert_signal); o_logs := rev logs; o_store := s |}
      | AVmPanic => {| o_res := VmErr; o_logs := rev logs; o_store := s |}
      end
    end.

  Record test := { t_cond : cond; t_body : list action }.
  Record report := { r_passed : bool; r_state : pstate; r_logs : list N }.

  (* one test: fresh deployment = the initial storage, whatever ran before *)
  Definition run_test (init : store) (t : test) : report :=
    let o := exec init [] (t_body t) in
    let st := final_state (o_res o) in
    {| r_passed := passed (t_cond t) st; r_state := st; r_logs := o_logs o |}.

  (* run_tests(): each test gets `self.setup()` + `storage().clone()` *)
  Definition run_suite (init : store) (ts : list test) : list report :=
    map (run_test init) ts.
End Exec.
