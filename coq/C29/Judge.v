(* C29 — per-suite judgement for the correspondence run. *)
From SwayV Require Import Base.Util C29.Model C29.Spec.

(* observed per test: passed flag, final state, logs (u64 values) *)
Record obs := { ob_passed : bool; ob_state : pstate; ob_logs : list N }.

Definition pstate_eqb (a b : pstate) : bool :=
  match a, b with
  | Return, Return | ReturnData, ReturnData => true
  | Revert x, Revert y => N.eqb x y
  | _, _ => false
  end.

Fixpoint list_eqb (a b : list N) : bool :=
  match a, b with
  | [], [] => true
  | x :: a', y :: b' => N.eqb x y && list_eqb a' b'
  | _, _ => false
  end.

(* 0 ok
   1 model and implementation differ in state/logs but the verdict is consistent with the
     observed state (correspondence)
   2 VIOLATION: reported verdict does not match the declared expectation given the observed state
   3 VIOLATION: logs or storage reads differ from the isolated semantics (another test's effects visible,
     or an own effect lost) while the final state agrees *)
Definition judge_test (sig : N) (init : store) (t : test) (o : obs) : N :=
  let m := run_test sig init t in
  if negb (Bool.eqb (ob_passed o) (passed (t_cond t) (ob_state o))) then 2%N
  else if negb (pstate_eqb (ob_state o) (r_state m)) then 1%N
  else if negb (list_eqb (ob_logs o) (r_logs m)) then 3%N
  else 0%N.

Fixpoint judge_suite (sig : N) (init : store) (ts : list test) (os : list obs) : list N :=
  match ts, os with
  | t :: ts', o :: os' => judge_test sig init t o :: judge_suite sig init ts' os'
  | [], [] => []
  | _, _ => [9%N]
  end.
