(* C04 — what "the IR is well-formed (structure + SSA dominance)" means, stated on paths of the
   control-flow graph, independently of any dominator computation. *)
From SwayV Require Import Base.Util C04.Model.

(* p -> b is a CFG edge: the terminator ending block p names b as a successor *)
Definition edge (f : fn) (p b : nat) : Prop :=
  exists blk na, nth_error f p = Some blk /\ In (b, na) (b_succs blk).

(* [path_to f pre b]: there is a path entry = b0 -> b1 -> ... -> b in the CFG; [pre] lists the blocks
   visited strictly before arriving at b (most recent first). Paths need not be simple. *)
Inductive path_to (f : fn) : list nat -> nat -> Prop :=
| path_entry : path_to f [] 0
| path_step pre p b : path_to f pre p -> edge f p b -> path_to f (p :: pre) b.

Definition reachable (f : fn) (b : nat) : Prop := exists pre, path_to f pre b.

(* d dominates b: every path from the entry to b goes through d *)
Definition dominates (f : fn) (d b : nat) : Prop :=
  forall pre, path_to f pre b -> d = b \/ In d pre.

Definition defined_in_block (f : fn) (d : nat) (v : N) : Prop :=
  exists blk, nth_error f d = Some blk /\ In v (defs_of_block blk).

(* Along the path (pre, then b up to but excluding position k) the value v has been defined:
   in a block visited earlier, or in b itself as a block argument or by an earlier instruction. *)
Definition defined_before (f : fn) (pre : list nat) (b k : nat) (v : N) : Prop :=
  (exists d, In d pre /\ defined_in_block f d v) \/
  (exists blk, nth_error f b = Some blk /\
               (In v (b_args blk) \/ In v (map i_id (firstn k (b_body blk))))).

(* exactly one terminator, and it is the last instruction *)
Definition terminated (blk : block) : Prop :=
  exists body t, b_body blk = body ++ [t] /\ is_term t = true /\
                 Forall (fun i => is_term i = false) body.

Record SsaWf (f : fn) : Prop := {
  wf_nonempty : f <> [];
  (* the entry block has no predecessor *)
  wf_entry_nopred : forall p, ~ edge f p 0;
  (* single assignment *)
  wf_single_def : NoDup (all_defs f);
  (* every block that can be reached exists, ends in its only terminator, and each branch passes
     exactly as many arguments as the target block has parameters *)
  wf_blocks : forall pre b, path_to f pre b ->
     exists blk, nth_error f b = Some blk /\ terminated blk /\
       forall t na, In (t, na) (b_succs blk) ->
         exists tb, nth_error f t = Some tb /\ na = length (b_args tb);
  (* every path from the entry to a use passes through the definition first *)
  wf_dom : forall pre b blk k i v,
     path_to f pre b -> nth_error f b = Some blk ->
     nth_error (b_body blk) k = Some i -> In v (i_ops i) ->
     defined_before f pre b k v
}.
