(* C04 — soundness of check_fn against the path-based SsaWf. *)
From Coq Require Import FMapPositive.
From SwayV Require Import Base.Util C04.Model C04.Spec.

Arguments N.testbit : simpl never.
Arguments N.setbit : simpl never.
Arguments N.ldiff : simpl never.
Arguments N.lor : simpl never.
Arguments N.land : simpl never.
Arguments N.of_nat : simpl never.

(* ---------- indexed *)
Lemma In_combine_seq {A} (l : list A) : forall s k x,
  In (k, x) (combine (seq s (length l)) l) <-> (s <= k /\ nth_error l (k - s) = Some x).
Proof.
  induction l as [|a l IH]; intros s k x.
  - cbn. split; [intros [] | intros [_ H]]. destruct (k - s); discriminate.
  - cbn [length seq combine In]. rewrite IH. split.
    + intros [H | [Hle Hn]].
      * inversion H; subst. split; [lia|]. replace (k - k) with 0 by lia. reflexivity.
      * split; [lia|]. replace (k - s) with (S (k - S s)) by lia. exact Hn.
    + intros [Hle Hn]. destruct (k - s) as [|m] eqn:Hks.
      * left. cbn in Hn. inversion Hn; subst. f_equal. lia.
      * right. split; [lia|]. cbn in Hn. replace (k - S s) with m by lia. exact Hn.
Qed.

Lemma In_indexed {A} (l : list A) k x : In (k, x) (indexed l) <-> nth_error l k = Some x.
Proof.
  unfold indexed. rewrite In_combine_seq. replace (k - 0) with k by lia.
  split; [intros [_ H]; exact H | intros H; split; [lia | exact H]].
Qed.

Lemma forallb_indexed {A} (p : nat * A -> bool) (l : list A) k x :
  forallb p (indexed l) = true -> nth_error l k = Some x -> p (k, x) = true.
Proof.
  intros H Hn. rewrite forallb_forall in H. apply H. apply In_indexed. exact Hn.
Qed.

(* ---------- edges *)
Lemma In_edges f p b : In (p, b) (edges f) <-> edge f p b.
Proof.
  unfold edges, edge. rewrite in_flat_map. split.
  - intros [[p' blk] [Hin Hm]]. apply In_indexed in Hin. cbn [fst snd] in Hm.
    apply in_map_iff in Hm. destruct Hm as [[t na] [Heq Hs]]. cbn [fst] in Heq.
    inversion Heq; subst. exists blk, na. split; assumption.
  - intros [blk [na [Hn Hs]]]. exists (p, blk). split.
    + apply In_indexed. exact Hn.
    + cbn [fst snd]. apply in_map_iff. exists (b, na). split; [reflexivity | exact Hs].
Qed.

(* ---------- terminators *)
Lemma well_terminated_sound l : well_terminated l = true ->
  exists body t, l = body ++ [t] /\ is_term t = true /\ Forall (fun i => is_term i = false) body.
Proof.
  induction l as [|i r IH]; intros H.
  - discriminate.
  - destruct r as [|j r'].
    + exists [], i. cbn in H. repeat split; [exact H | constructor].
    + change (negb (is_term i) && well_terminated (j :: r') = true) in H.
      apply andb_true_iff in H. destruct H as [Hi Hr].
      destruct (IH Hr) as [body [t [Heq [Ht Hall]]]].
      exists (i :: body), t. repeat split.
      * cbn. rewrite Heq. reflexivity.
      * exact Ht.
      * constructor; [|exact Hall]. destruct (is_term i); [discriminate | reflexivity].
Qed.

(* ---------- bits *)
Lemma bit_single i j : bit (single i) j = true -> i = j.
Proof.
  unfold bit, single. rewrite N.setbit_eqb, N.bits_0, orb_false_r. intros H.
  apply N.eqb_eq in H. lia.
Qed.

Lemma ldiff_0_sub a b i : N.ldiff a b = 0%N -> N.testbit a i = true -> N.testbit b i = true.
Proof.
  intros H Ha. assert (Hz : N.testbit (N.ldiff a b) i = false) by (rewrite H; apply N.bits_0).
  rewrite N.ldiff_spec, Ha in Hz. destruct (N.testbit b i); [reflexivity | discriminate].
Qed.

(* ---------- dominators: anything `stable` accepts is a dominance relation in the path sense *)
Lemma stable_sound f D : stable (edges f) D = true ->
  forall pre b, path_to f pre b -> forall d, bit (getD D b) d = true -> d = b \/ In d pre.
Proof.
  intros Hst. unfold stable in Hst. apply andb_true_iff in Hst. destruct Hst as [H0 He].
  apply N.eqb_eq in H0. rewrite forallb_forall in He.
  intros pre b Hp. induction Hp as [|pre p b Hp IH Hedge]; intros d Hd.
  - left. unfold bit in Hd. apply (ldiff_0_sub _ _ _ H0) in Hd.
    symmetry. apply bit_single. exact Hd.
  - apply In_edges in Hedge. specialize (He _ Hedge). cbn [fst snd] in He. apply N.eqb_eq in He.
    unfold bit in Hd. apply (ldiff_0_sub _ _ _ He) in Hd. rewrite N.lor_spec in Hd.
    apply orb_true_iff in Hd. destruct Hd as [Hd | Hd].
    + right. destruct (IH d Hd) as [-> | Hin]; [left; reflexivity | right; exact Hin].
    + left. symmetry. apply bit_single. exact Hd.
Qed.

Lemma dom_sound f D : stable (edges f) D = true ->
  forall d b, bit (getD D b) d = true -> dominates f d b.
Proof.
  intros Hst d b Hd pre Hp. exact (stable_sound f D Hst pre b Hp d Hd).
Qed.

(* ---------- reachability *)
Lemma closed_sound f R : closed (edges f) R = true ->
  forall pre b, path_to f pre b -> bit R b = true.
Proof.
  intros Hc. unfold closed in Hc. apply andb_true_iff in Hc. destruct Hc as [H0 He].
  rewrite forallb_forall in He.
  intros pre b Hp. induction Hp as [|pre p b Hp IH Hedge].
  - exact H0.
  - apply In_edges in Hedge. specialize (He _ Hedge). cbn [fst snd] in He.
    rewrite IH in He. exact He.
Qed.

(* ---------- predecessor mask *)
Lemma pred_mask_in es e : In e es -> bit (pred_mask es) (snd e) = true.
Proof.
  induction es as [|a es IH]; intros H.
  - destruct H.
  - cbn [pred_mask fold_right]. unfold bit. rewrite N.setbit_eqb. destruct H as [-> | H].
    + rewrite N.eqb_refl. reflexivity.
    + apply IH in H. unfold bit, pred_mask in H. rewrite H. apply orb_true_r.
Qed.

(* ---------- single assignment *)
Lemma nodup_aux_sound l : forall seen (S : list N),
  (forall x, In x S -> PositiveMap.find (key x) seen <> None) ->
  nodup_aux seen l = true -> NoDup l /\ forall x, In x l -> ~ In x S.
Proof.
  induction l as [|a l IH]; intros seen S Hinv H.
  - split; [constructor | intros x []].
  - cbn [nodup_aux] in H. destruct (PositiveMap.find (key a) seen) eqn:Hf; [discriminate|].
    assert (Hinv' : forall x, In x (a :: S) -> PositiveMap.find (key x) (PositiveMap.add (key a) tt seen) <> None).
    { intros x Hx. destruct (Pos.eq_dec (key x) (key a)) as [Heq | Hne].
      - rewrite Heq, PositiveMap.gss. discriminate.
      - rewrite PositiveMap.gso by exact Hne. destruct Hx as [<- | Hx]; [congruence | apply Hinv; exact Hx]. }
    destruct (IH _ _ Hinv' H) as [Hnd Hdis]. split.
    + constructor; [|exact Hnd]. intros Hin. apply (Hdis a Hin). left. reflexivity.
    + intros x [<- | Hx] HS.
      * apply (Hinv a HS). exact Hf.
      * apply (Hdis x Hx). right. exact HS.
Qed.

Lemma nodup_check_sound l : nodup_aux (PositiveMap.empty unit) l = true -> NoDup l.
Proof.
  intros H. apply (nodup_aux_sound l (PositiveMap.empty unit) []); [intros x [] | exact H].
Qed.

(* ---------- uses *)
Lemma In_firstn_nth {A} (l : list A) : forall pos k x,
  nth_error l pos = Some x -> pos < k -> In x (firstn k l).
Proof.
  induction l as [|a l IH]; intros pos k x Hn Hlt.
  - destruct pos; discriminate.
  - destruct k as [|k]; [lia|]. cbn [firstn]. destruct pos as [|pos].
    + cbn in Hn. inversion Hn. left. reflexivity.
    + right. apply (IH pos); [exact Hn | lia].
Qed.

Lemma memN_In v l : memN v l = true -> In v l.
Proof.
  unfold memN. rewrite existsb_exists. intros [y [Hy He]]. apply N.eqb_eq in He. subst. exact Hy.
Qed.

Lemma def_ok_sound f D t pre b k v blk :
  stable (edges f) D = true -> path_to f pre b -> nth_error f b = Some blk ->
  def_ok f D t b k v = true -> defined_before f pre b k v.
Proof.
  intros Hst Hp Hb H. unfold def_ok in H.
  destruct (PositiveMap.find (key v) t) as [[d opos]|]; [|discriminate].
  destruct (nth_error f d) as [dblk|] eqn:Hd; [|discriminate].
  apply andb_true_iff in H. destruct H as [Hsite Hdom].
  destruct (Nat.eqb d b) eqn:Hdb.
  - apply Nat.eqb_eq in Hdb. subst d. rewrite Hb in Hd. inversion Hd; subst dblk.
    right. exists blk. split; [exact Hb|].
    destruct opos as [pos|].
    + destruct (nth_error (b_body blk) pos) as [di|] eqn:Hpos; [|discriminate].
      apply andb_true_iff in Hsite. destruct Hsite as [Hid Hlt].
      apply N.eqb_eq in Hid. apply Nat.ltb_lt in Hlt. right.
      rewrite <- Hid. apply in_map. apply (In_firstn_nth _ pos); [exact Hpos | exact Hlt].
    + left. apply memN_In. exact Hsite.
  - cbn [orb] in Hdom. apply Nat.eqb_neq in Hdb.
    destruct (stable_sound f D Hst pre b Hp d Hdom) as [Heq | Hin]; [contradiction|].
    left. exists d. split; [exact Hin|]. exists dblk. split; [exact Hd|].
    unfold defs_of_block. apply in_or_app.
    destruct opos as [pos|].
    + destruct (nth_error (b_body dblk) pos) as [di|] eqn:Hpos; [|discriminate].
      apply andb_true_iff in Hsite. destruct Hsite as [Hid _]. apply N.eqb_eq in Hid.
      right. rewrite <- Hid. apply in_map. apply (nth_error_In _ _ Hpos).
    + left. apply memN_In. exact Hsite.
Qed.

Lemma uses_ok_sound f D R t :
  stable (edges f) D = true -> closed (edges f) R = true -> uses_ok f D R t = true ->
  forall pre b blk k i v,
    path_to f pre b -> nth_error f b = Some blk ->
    nth_error (b_body blk) k = Some i -> In v (i_ops i) ->
    defined_before f pre b k v.
Proof.
  intros Hst Hcl Hu pre b blk k i v Hp Hb Hk Hv.
  unfold uses_ok in Hu. pose proof (forallb_indexed _ _ _ _ Hu Hb) as H1. cbn [fst snd] in H1.
  rewrite (closed_sound f R Hcl pre b Hp) in H1. cbn [negb orb] in H1.
  unfold block_uses_ok in H1. pose proof (forallb_indexed _ _ _ _ H1 Hk) as H2. cbn [fst snd] in H2.
  rewrite forallb_forall in H2. specialize (H2 v Hv).
  exact (def_ok_sound f D t pre b k v blk Hst Hp Hb H2).
Qed.

(* ---------- structure *)
Lemma structure_blocks f : structure_ok f = true ->
  forall pre b, path_to f pre b ->
  exists blk, nth_error f b = Some blk /\ well_terminated (b_body blk) = true /\
              forallb (succ_ok f) (b_succs blk) = true.
Proof.
  intros H. unfold structure_ok in H. apply andb_true_iff in H. destruct H as [H Hno0].
  apply andb_true_iff in H. destruct H as [Hne Hall].
  intros pre b Hp. induction Hp as [|pre p b Hp IH Hedge].
  - destruct f as [|blk0 f']; [discriminate|]. exists blk0. split; [reflexivity|].
    assert (Hb : nth_error (blk0 :: f') 0 = Some blk0) by reflexivity.
    pose proof (forallb_indexed _ _ _ _ Hall Hb) as Hok. cbn [fst snd] in Hok.
    unfold block_ok in Hok. rewrite Nat.eqb_refl in Hok. cbn [negb] in Hok.
    rewrite !andb_false_r in Hok. apply andb_true_iff in Hok. exact Hok.
  - destruct IH as [pblk [Hpb [_ Hsucc]]].
    pose proof Hedge as Hedge'. destruct Hedge as [blk' [na [Hp' Hin]]].
    rewrite Hpb in Hp'. inversion Hp'; subst blk'.
    rewrite forallb_forall in Hsucc. specialize (Hsucc _ Hin). unfold succ_ok in Hsucc. cbn [fst snd] in Hsucc.
    destruct (nth_error f b) as [tb|] eqn:Htb; [|discriminate].
    exists tb. split; [reflexivity|].
    pose proof (forallb_indexed _ _ _ _ Hall Htb) as Hok. cbn [fst snd] in Hok.
    unfold block_ok in Hok.
    apply In_edges in Hedge'. apply pred_mask_in in Hedge'. cbn [snd] in Hedge'.
    rewrite Hedge' in Hok. cbn [negb] in Hok. rewrite andb_false_r in Hok. cbn [andb] in Hok.
    apply andb_true_iff in Hok. exact Hok.
Qed.

Lemma structure_entry_nopred f : structure_ok f = true -> forall p, ~ edge f p 0.
Proof.
  intros H p He. unfold structure_ok in H. apply andb_true_iff in H. destruct H as [_ Hno0].
  apply In_edges in He. apply pred_mask_in in He. cbn [snd] in He. rewrite He in Hno0. discriminate.
Qed.

Lemma structure_nonempty f : structure_ok f = true -> f <> [].
Proof. intros H Hf. subst f. discriminate. Qed.

(* ---------- main theorem *)
Theorem check_fn_sound f : check_fn f = true -> SsaWf f.
Proof.
  intros H. unfold check_fn in H. apply andb_true_iff in H. destruct H as [H Hrest].
  apply andb_true_iff in H. destruct H as [Hstruct Hnd].
  destruct (compute_reach f) as [R|]; [|discriminate].
  destruct (compute_dom f) as [D|]; [|discriminate].
  apply andb_true_iff in Hrest. destruct Hrest as [Hrest Huses].
  apply andb_true_iff in Hrest. destruct Hrest as [Hcl Hst].
  constructor.
  - exact (structure_nonempty f Hstruct).
  - exact (structure_entry_nopred f Hstruct).
  - exact (nodup_check_sound _ Hnd).
  - intros pre b Hp. destruct (structure_blocks f Hstruct pre b Hp) as [blk [Hb [Hwt Hsucc]]].
    exists blk. split; [exact Hb|]. split.
    + exact (well_terminated_sound _ Hwt).
    + intros t na Hin. rewrite forallb_forall in Hsucc. specialize (Hsucc _ Hin).
      unfold succ_ok in Hsucc. cbn [fst snd] in Hsucc.
      destruct (nth_error f t) as [tb|]; [|discriminate].
      exists tb. split; [reflexivity|]. apply Nat.eqb_eq in Hsucc. exact Hsucc.
  - exact (uses_ok_sound f D R (def_table f) Hst Hcl Huses).
Qed.

(* what the fuel-bounded iteration returns, once accepted by `stable`, is a dominance relation *)
Theorem dom_iter_sound f fuel all bps D0 D :
  dom_iter fuel all bps D0 = Some D -> stable (edges f) D = true ->
  forall d b, bit (getD D b) d = true -> dominates f d b.
Proof. intros _. apply dom_sound. Qed.

Theorem reach_iter_sound f fuel R0 R :
  reach_iter fuel (edges f) R0 = Some R -> closed (edges f) R = true ->
  forall b, reachable f b -> bit R b = true.
Proof. intros _ Hc b [pre Hp]. exact (closed_sound f R Hc pre b Hp). Qed.
