(* C04 — per-function judgement evaluated by vm_compute on CFGs exported by the harness.
   The decision is `check_fn`; the other codes only explain a rejection. *)
From Coq Require Import FMapPositive.
From SwayV Require Import Base.Util C04.Model.

(*  0 accepted by check_fn
    9 function without blocks
   10 a live block does not end in its only terminator
   11 branch to a missing block / argument count differs from the target's parameter count
   12 entry block has a predecessor
   13 a value id is defined twice
   14 an operand (in a reachable block) has no definition in the function
   15 an operand's definition does not dominate the use
   16 fuel exhausted in the reachability / dominator iteration
   17 iteration result not closed / not stable (checker-internal) *)
Definition exempt (pm : N) (b : nat) (blk : block) : bool :=
  (Nat.leb (length (b_body blk)) 1 && negb (bit pm b) && negb (Nat.eqb b 0))%bool.

Definition ops_known (f : fn) (R : N) (t : PositiveMap.t site) : bool :=
  forallb (fun pb => (negb (bit R (fst pb)) ||
     forallb (fun i => forallb (fun v => match PositiveMap.find (key v) t with Some _ => true | None => false end) (i_ops i))
             (b_body (snd pb)))%bool) (indexed f).

Definition judge_fn (f : fn) : N :=
  if check_fn f then 0%N else
  match f with
  | [] => 9%N
  | _ =>
    let pm := pred_mask (edges f) in
    if bit pm 0 then 12%N
    else if negb (forallb (fun pb => (exempt pm (fst pb) (snd pb) || well_terminated (b_body (snd pb)))%bool) (indexed f)) then 10%N
    else if negb (structure_ok f) then 11%N
    else if negb (nodup_aux (PositiveMap.empty unit) (all_defs f)) then 13%N
    else match compute_reach f, compute_dom f with
         | Some R, Some D =>
           if negb (closed (edges f) R && stable (edges f) D) then 17%N
           else if ops_known f R (def_table f) then 15%N else 14%N
         | _, _ => 16%N
         end
  end.

Definition judge_all (fs : list fn) : list N := map judge_fn fs.
