(* C04 — per-function judgement evaluated by vm_compute on CFGs exported by the harness.
   The decision is `check_fn`; the other codes only explain a rejection. *)
From Coq Require Import FMapPositive.
From SwayV Require Import Base.Util C04.Model.

(*  0 accepted by check_fn
    9 function without blocks
   10 a live block does not end in its only terminator
   11 branch to a missing block / argument count differs from the target's parameter count
   12 entry block has a predecessor
   13 a value id is defined twice
   14 rejected only because operands (in reachable blocks) have no definition in the function
   15 an operand's definition does not dominate the use
   16 fuel exhausted in the reachability / dominator iteration
   17 iteration result not closed / not stable (checker-internal) *)
Definition exempt (pm : N) (b : nat) (blk : block) : bool :=
  (Nat.leb (length (b_body blk)) 1 && negb (bit pm b) && negb (Nat.eqb b 0))%bool.

(* Relaxed variants, used ONLY to name the cause of a disagreement with Context::verify():
   [ex_entry]    verify_block's "at most one instruction and no predecessor" exemption also covers the
                 entry block (its terminator and its uses are then not looked at);
   [ex_dangling] check_def_dominates_use returns true for an operand that is an instruction found in
                 no block of the function. *)
Definition block_ok_g (ex_entry : bool) (f : fn) (pm : N) (b : nat) (blk : block) : bool :=
  if (Nat.leb (length (b_body blk)) 1 && negb (bit pm b) && (ex_entry || negb (Nat.eqb b 0)))%bool then true
  else (well_terminated (b_body blk) && forallb (succ_ok f) (b_succs blk))%bool.

Definition def_ok_g (ex_dangling : bool) (f : fn) (D : list N) (t : PositiveMap.t site) (b k : nat) (v : N) : bool :=
  match PositiveMap.find (key v) t with
  | None => ex_dangling
  | Some _ => def_ok f D t b k v
  end.

Definition uses_ok_g (ex_entry ex_dangling : bool) (f : fn) (pm : N) (D : list N) (R : N) (t : PositiveMap.t site) : bool :=
  forallb (fun pb => (negb (bit R (fst pb)) ||
     (ex_entry && Nat.eqb (fst pb) 0 && Nat.leb (length (b_body (snd pb))) 1 && negb (bit pm 0)) ||
     forallb (fun ki => forallb (def_ok_g ex_dangling f D t (fst pb) (fst ki)) (i_ops (snd ki))) (indexed (b_body (snd pb))))%bool)
    (indexed f).

Definition check_g (ex_entry ex_dangling : bool) (f : fn) : bool :=
  let pm := pred_mask (edges f) in
  (match f with [] => false | _ => true end
   && forallb (fun pb => block_ok_g ex_entry f pm (fst pb) (snd pb)) (indexed f)
   && negb (bit pm 0)
   && nodup_aux (PositiveMap.empty unit) (all_defs f)
   && match compute_reach f, compute_dom f with
      | Some R, Some D => closed (edges f) R && stable (edges f) D && uses_ok_g ex_entry ex_dangling f pm D R (def_table f)
      | _, _ => false
      end)%bool.

(*  further codes: 18 rejected only because of the entry-block exemption, 14 only because of operands
    without definition, 19 only because of both *)
Definition judge_fn (f : fn) : N :=
  if check_fn f then 0%N else
  if check_g true false f then 18%N else
  if check_g false true f then 14%N else
  if check_g true true f then 19%N else
  match f with
  | [] => 9%N
  | _ =>
    let pm := pred_mask (edges f) in
    if bit pm 0 then 12%N
    else if negb (forallb (fun pb => (exempt pm (fst pb) (snd pb) || well_terminated (b_body (snd pb)))%bool) (indexed f)) then 10%N
    else if negb (structure_ok f) then 11%N
    else if negb (nodup_aux (PositiveMap.empty unit) (all_defs f)) then 13%N
    else match compute_reach f, compute_dom f with
         | Some R, Some D =>
           if negb (closed (edges f) R && stable (edges f) D) then 17%N else 15%N
         | _, _ => 16%N
         end
  end.

(* the relaxed checker with no relaxation is check_fn *)
Example check_g_strict_example : forall f, In f [[mkB [] [mkI 0 [] (Some [])]]; [mkB [] []]; []] ->
  check_g false false f = check_fn f.
Proof. intros f [<-|[<-|[<-|[]]]]; vm_compute; reflexivity. Qed.

Definition judge_all (fs : list fn) : list N := map judge_fn fs.

(* ---- transport: the harness writes every CFG as a stream of decimal numbers
     nblocks { nargs arg* ninstrs { id nops op* kind } }      kind = 0 plain | 1+n terminator with n successors, then n * (block nargs)
   several functions separated by ';', the whole shard as ONE string literal (Coq parses a long string
   in milliseconds; the same data as nested list/record notations takes seconds). Code 99 = undecodable. *)
From Coq Require Import String Ascii.

Fixpoint lex (s : string) (cur : option N) : list (option N) :=
  match s with
  | EmptyString => match cur with Some n => [Some n] | None => [] end
  | String c r =>
    let k := N_of_ascii c in
    if (N.leb 48 k && N.leb k 57)%bool
    then lex r (Some (10 * (match cur with Some n => n | None => 0 end) + (k - 48))%N)
    else let rest := if N.eqb k 59 then None :: lex r None else lex r None in
         match cur with Some n => Some n :: rest | None => rest end
  end.

Fixpoint split_fns (l : list (option N)) (cur : list N) : list (list N) :=
  match l with
  | [] => match cur with [] => [] | _ => [rev cur] end
  | Some n :: r => split_fns r (n :: cur)
  | None :: r => rev cur :: split_fns r []
  end.

Fixpoint dec_nums (k : nat) (l : list N) : option (list N * list N) :=
  match k with
  | O => Some ([], l)
  | S k' => match l with
            | x :: r => match dec_nums k' r with Some (xs, r') => Some (x :: xs, r') | None => None end
            | [] => None
            end
  end.

Fixpoint dec_succs (k : nat) (l : list N) : option (list (nat * nat) * list N) :=
  match k with
  | O => Some ([], l)
  | S k' => match l with
            | b :: na :: r => match dec_succs k' r with
                              | Some (xs, r') => Some ((N.to_nat b, N.to_nat na) :: xs, r')
                              | None => None end
            | _ => None
            end
  end.

Fixpoint dec_instrs (k : nat) (l : list N) : option (list instr * list N) :=
  match k with
  | O => Some ([], l)
  | S k' =>
    match l with
    | id :: nops :: r =>
      match dec_nums (N.to_nat nops) r with
      | Some (ops, kind :: r2) =>
        match (if N.eqb kind 0 then Some (None, r2)
               else match dec_succs (N.to_nat (kind - 1)) r2 with
                    | Some (ss, r3) => Some (Some ss, r3) | None => None end) with
        | Some (succs, r3) =>
          match dec_instrs k' r3 with
          | Some (is, r4) => Some (mkI id ops succs :: is, r4)
          | None => None end
        | None => None end
      | _ => None end
    | _ => None
    end
  end.

Fixpoint dec_blocks (k : nat) (l : list N) : option (list block * list N) :=
  match k with
  | O => Some ([], l)
  | S k' =>
    match l with
    | nargs :: r =>
      match dec_nums (N.to_nat nargs) r with
      | Some (args, ni :: r2) =>
        match dec_instrs (N.to_nat ni) r2 with
        | Some (is, r3) =>
          match dec_blocks k' r3 with
          | Some (bs, r4) => Some (mkB args is :: bs, r4)
          | None => None end
        | None => None end
      | _ => None end
    | [] => None
    end
  end.

Definition dec_fn (l : list N) : option fn :=
  match l with
  | nb :: r => match dec_blocks (N.to_nat nb) r with Some (bs, []) => Some bs | _ => None end
  | [] => None
  end.

Definition judge_stream (s : string) : list N :=
  map (fun l => match dec_fn l with Some f => judge_fn f | None => 99%N end) (split_fns (lex s None) []).

(* the decoder inverts the harness encoding on a small example *)
Example dec_example :
  dec_fn [2; 1; 0; 2; 1; 1; 0; 0; 2; 1; 1; 3; 1; 0; 1; 0; 0; 1; 3; 0; 1]%N =
  Some [mkB [0]%N [mkI 1 [0]%N None; mkI 2 [1]%N (Some [(1, 0); (1, 0)])]; mkB [] [mkI 3 [] (Some [])]].
Proof. vm_compute. reflexivity. Qed.
