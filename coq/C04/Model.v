(* C04 — IR CFG model and the executable SSA well-formedness checker `check_fn`.
   This is NOT a transcription of sway-ir's verifier: it is a second, independent checker for the
   structural / dominance subset of `Context::verify` (sway-ir/src/verify.rs: verify_function,
   verify_block, verify_br/verify_cbr/verify_dest_args, check_def_dominates_use), whose
   soundness against a path-based definition of SSA well-formedness is proved in Proofs.v.
   The harness exports every function of a real `sway_ir::Context` into this shape
   (harness/src/ir_common.rs, export_fn):
     - a function is the list of its blocks, block 0 is the entry block;
     - a block has argument value ids and a list of instructions;
     - an instruction defines value id `i_id`, uses the non-constant operand ids `i_ops`
       (InstOp::get_operands, which for branches includes the values passed to the successor),
       and is a terminator iff `i_succs` is `Some succs`, succs = (target block index, number of
       passed arguments) for br / cbr and [] for ret / revert / jmp_mem / retd.
   No proofs in this file. *)
From Coq Require Import FMapPositive.
From SwayV Require Import Base.Util.

Record instr := mkI { i_id : N; i_ops : list N; i_succs : option (list (nat * nat)) }.
Record block := mkB { b_args : list N; b_body : list instr }.
Definition fn := list block.

Definition is_term (i : instr) : bool :=
  match i_succs i with Some _ => true | None => false end.

Fixpoint last_instr (l : list instr) : option instr :=
  match l with
  | [] => None
  | x :: r => match r with [] => Some x | _ => last_instr r end
  end.

(* CFG successors of a block = those of its last instruction if that is a terminator
   (Block::successors in block.rs looks at get_terminator = last instruction). *)
Definition b_succs (b : block) : list (nat * nat) :=
  match last_instr (b_body b) with
  | Some i => match i_succs i with Some s => s | None => [] end
  | None => []
  end.

(* exactly one terminator, at the end *)
Fixpoint well_terminated (l : list instr) : bool :=
  match l with
  | [] => false
  | i :: r => match r with
              | [] => is_term i
              | _ => negb (is_term i) && well_terminated r
              end
  end.

Definition indexed {A} (l : list A) : list (nat * A) := combine (seq 0 (length l)) l.

Definition edges (f : fn) : list (nat * nat) :=
  flat_map (fun pb => map (fun s => (fst pb, fst s)) (b_succs (snd pb))) (indexed f).

(* branch target exists and receives as many arguments as it has parameters *)
Definition succ_ok (f : fn) (s : nat * nat) : bool :=
  match nth_error f (fst s) with
  | Some t => Nat.eqb (snd s) (length (b_args t))
  | None => false
  end.

(* ---- bit sets of block indices *)
Definition bit (s : N) (i : nat) : bool := N.testbit s (N.of_nat i).
Definition single (i : nat) : N := N.setbit 0 (N.of_nat i).
Definition getD (D : list N) (b : nat) : N := nth b D 0%N.

Definition pred_mask (es : list (nat * nat)) : N :=
  fold_right (fun e m => N.setbit m (N.of_nat (snd e))) 0%N es.

(* verify_block skips a block with at most one instruction and no predecessor ("empty unreferenced
   blocks are a harmless artefact"); here the entry block is never exempt. *)
Definition block_ok (f : fn) (pm : N) (b : nat) (blk : block) : bool :=
  if (Nat.leb (length (b_body blk)) 1 && negb (bit pm b) && negb (Nat.eqb b 0))%bool then true
  else (well_terminated (b_body blk) && forallb (succ_ok f) (b_succs blk))%bool.

(* ---- reachability: least set containing 0 closed under edges; computed with fuel, and the result
   is only used after `closed` has accepted it. *)
Definition reach_pass (es : list (nat * nat)) (R : N) : N :=
  fold_left (fun R e => if bit R (fst e) then N.setbit R (N.of_nat (snd e)) else R) es R.

Fixpoint reach_iter (fuel : nat) (es : list (nat * nat)) (R : N) : option N :=
  match fuel with
  | O => None
  | S k => let R' := reach_pass es R in
           if N.eqb R R' then Some R else reach_iter k es R'
  end.

Definition closed (es : list (nat * nat)) (R : N) : bool :=
  (bit R 0 && forallb (fun e => implb (bit R (fst e)) (bit R (snd e))) es)%bool.

(* ---- dominators: iterative data-flow algorithm  Dom(0) = {0}, Dom(b) = {b} ∪ ⋂_{p→b} Dom(p),
   starting from the full set, swept in block order until nothing changes (fuel-bounded).
   The result is only used after `stable` has accepted it. *)
Fixpoint set_nth {A} (n : nat) (x : A) (l : list A) : list A :=
  match l with
  | [] => []
  | y :: r => match n with O => x :: r | S m => y :: set_nth m x r end
  end.

Definition add_pred (ps : list (list nat)) (e : nat * nat) : list (list nat) :=
  set_nth (snd e) (fst e :: nth (snd e) ps []) ps.

Definition preds_of (n : nat) (es : list (nat * nat)) : list (list nat) :=
  fold_left add_pred es (repeat [] n).

Definition dom_of (D : list N) (all : N) (b : nat) (ps : list nat) : N :=
  if Nat.eqb b 0 then single 0
  else N.setbit (fold_left (fun acc p => N.land acc (getD D p)) ps all) (N.of_nat b).

Fixpoint dom_pass (D : list N) (all : N) (bps : list (nat * list nat)) : list N :=
  match bps with
  | [] => D
  | bp :: r => dom_pass (set_nth (fst bp) (dom_of D all (fst bp) (snd bp)) D) all r
  end.

Fixpoint list_N_eqb (a b : list N) : bool :=
  match a, b with
  | [], [] => true
  | x :: a', y :: b' => (N.eqb x y && list_N_eqb a' b')%bool
  | _, _ => false
  end.

Fixpoint dom_iter (fuel : nat) (all : N) (bps : list (nat * list nat)) (D : list N) : option (list N) :=
  match fuel with
  | O => None
  | S k => let D' := dom_pass D all bps in
           if list_N_eqb D D' then Some D else dom_iter k all bps D'
  end.

Definition stable (es : list (nat * nat)) (D : list N) : bool :=
  (N.eqb (N.ldiff (getD D 0) (single 0)) 0 &&
   forallb (fun e => N.eqb (N.ldiff (getD D (snd e)) (N.lor (getD D (fst e)) (single (snd e)))) 0) es)%bool.

(* ---- definition sites; the table is only a search index: every answer is re-checked against the
   function in `def_ok`. *)
Definition site := (nat * option nat)%type.     (* block, None = block argument | Some position *)
Definition key (v : N) : positive := N.succ_pos v.

Definition add_sites_block (t : PositiveMap.t site) (b : nat) (blk : block) : PositiveMap.t site :=
  let t1 := fold_left (fun t v => PositiveMap.add (key v) (b, None) t) (b_args blk) t in
  fold_left (fun t pi => PositiveMap.add (key (i_id (snd pi))) (b, Some (fst pi)) t) (indexed (b_body blk)) t1.

Definition def_table (f : fn) : PositiveMap.t site :=
  fold_left (fun t pb => add_sites_block t (fst pb) (snd pb)) (indexed f) (PositiveMap.empty site).

Definition memN (v : N) (l : list N) : bool := existsb (N.eqb v) l.

(* operand v of the instruction at position k of block b *)
Definition def_ok (f : fn) (D : list N) (t : PositiveMap.t site) (b k : nat) (v : N) : bool :=
  match PositiveMap.find (key v) t with
  | None => false
  | Some (d, opos) =>
    match nth_error f d with
    | None => false
    | Some dblk =>
      (match opos with
       | None => memN v (b_args dblk)
       | Some pos =>
         match nth_error (b_body dblk) pos with
         | Some di => N.eqb (i_id di) v && (if Nat.eqb d b then Nat.ltb pos k else true)
         | None => false
         end
       end && (Nat.eqb d b || bit (getD D b) d))%bool
    end
  end.

Definition block_uses_ok (f : fn) (D : list N) (t : PositiveMap.t site) (b : nat) (blk : block) : bool :=
  forallb (fun ki => forallb (def_ok f D t b (fst ki)) (i_ops (snd ki))) (indexed (b_body blk)).

Definition uses_ok (f : fn) (D : list N) (R : N) (t : PositiveMap.t site) : bool :=
  forallb (fun pb => (negb (bit R (fst pb)) || block_uses_ok f D t (fst pb) (snd pb))%bool) (indexed f).

(* ---- single assignment *)
Definition defs_of_block (blk : block) : list N := b_args blk ++ map i_id (b_body blk).
Definition all_defs (f : fn) : list N := flat_map defs_of_block f.

Fixpoint nodup_aux (seen : PositiveMap.t unit) (l : list N) : bool :=
  match l with
  | [] => true
  | v :: r => match PositiveMap.find (key v) seen with
              | Some _ => false
              | None => nodup_aux (PositiveMap.add (key v) tt seen) r
              end
  end.

(* ---- the checker *)
Definition compute_reach (f : fn) : option N := reach_iter (S (length f)) (edges f) (single 0).
Definition compute_dom (f : fn) : option (list N) :=
  let n := length f in
  dom_iter (S (S n)) (N.ones (N.of_nat n)) (combine (seq 0 n) (preds_of n (edges f)))
           (single 0 :: repeat (N.ones (N.of_nat n)) (n - 1)).

Definition structure_ok (f : fn) : bool :=
  let pm := pred_mask (edges f) in
  (match f with [] => false | _ => true end
   && forallb (fun pb => block_ok f pm (fst pb) (snd pb)) (indexed f)
   && negb (bit pm 0))%bool.

Definition check_fn (f : fn) : bool :=
  (structure_ok f
   && nodup_aux (PositiveMap.empty unit) (all_defs f)
   && match compute_reach f, compute_dom f with
      | Some R, Some D =>
        closed (edges f) R && stable (edges f) D && uses_ok f D R (def_table f)
      | _, _ => false
      end)%bool.
