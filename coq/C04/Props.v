(* C04 — property theorems only. *)
From SwayV Require Import Base.Util C04.Model C04.Spec C04.Proofs.

(* The checker that the harness runs on the CFG of every function after every pass is sound for
   the path-based definition of SSA well-formedness (Spec.v): no predecessor of the entry block,
   single assignment, every reachable block ends in its only terminator and passes as many branch
   arguments as the target has parameters, and every path from the entry to a use passes through
   the definition first. Holds whatever the fuel-bounded iterations inside check_fn return. *)
Theorem C04_check_fn_sound : forall f, check_fn f = true -> SsaWf f.
Proof. exact check_fn_sound. Qed.
Print Assumptions C04_check_fn_sound.

(* Whatever the dominator iteration returns (any fuel, any start), once the stability test
   accepts it, membership in the computed set means dominance on paths. *)
Theorem C04_dom_iter_sound : forall f fuel all bps D0 D,
  dom_iter fuel all bps D0 = Some D -> stable (edges f) D = true ->
  forall d b, bit (getD D b) d = true -> dominates f d b.
Proof. exact dom_iter_sound. Qed.
Print Assumptions C04_dom_iter_sound.

(* Likewise the reachable set: once closed, it contains every block that a path reaches, so
   skipping uses in blocks outside it (as verify.rs does) skips only unreachable code. *)
Theorem C04_reach_iter_sound : forall f fuel R0 R,
  reach_iter fuel (edges f) R0 = Some R -> closed (edges f) R = true ->
  forall b, reachable f b -> bit R b = true.
Proof. exact reach_iter_sound. Qed.
Print Assumptions C04_reach_iter_sound.

(* Non-vacuity. A diamond with a block parameter at the join is accepted (hence SsaWf); the same
   function with the join using a value defined in one arm only is rejected, and indeed is not
   SsaWf: the path entry -> block 2 -> block 3 never passes the definition. *)
Definition ex_good : fn :=
  [ mkB [0]%N [mkI 1 [0]%N None; mkI 2 [1]%N (Some [(1,0);(2,0)])];
    mkB [] [mkI 3 [1]%N None; mkI 4 [3]%N (Some [(3,1)])];
    mkB [] [mkI 5 [0]%N None; mkI 6 [5]%N (Some [(3,1)])];
    mkB [7]%N [mkI 8 [7;1]%N None; mkI 9 [8]%N (Some [])] ].
Definition ex_bad : fn :=
  [ mkB [0]%N [mkI 1 [0]%N None; mkI 2 [1]%N (Some [(1,0);(2,0)])];
    mkB [] [mkI 3 [1]%N None; mkI 4 [3]%N (Some [(3,1)])];
    mkB [] [mkI 5 [0]%N None; mkI 6 [5]%N (Some [(3,1)])];
    mkB [7]%N [mkI 8 [7;3]%N None; mkI 9 [8]%N (Some [])] ].

Example C04_example_accept : check_fn ex_good = true.
Proof. vm_compute. reflexivity. Qed.
Example C04_example_wf : SsaWf ex_good.
Proof. apply C04_check_fn_sound. vm_compute. reflexivity. Qed.
Example C04_example_reject : check_fn ex_bad = false.
Proof. vm_compute. reflexivity. Qed.
Example C04_example_not_wf : ~ SsaWf ex_bad.
Proof.
  intros [_ _ _ _ Hdom].
  assert (Hp : path_to ex_bad [2; 0] 3).
  { apply path_step; [apply path_step; [apply path_entry|]|].
    - eexists _, 0. split; [reflexivity|]. vm_compute. right. left. reflexivity.
    - eexists _, 1. split; [reflexivity|]. vm_compute. left. reflexivity. }
  assert (Huse : In 3%N [7; 3]%N) by (right; left; reflexivity).
  specialize (Hdom [2; 0] 3 _ 0 _ 3%N Hp eq_refl eq_refl Huse).
  destruct Hdom as [[d [Hd [blk [Hb Hin]]]] | [blk [Hb Hin]]].
  - destruct Hd as [<- | [<- | []]]; inversion Hb; subst blk; vm_compute in Hin;
      repeat (destruct Hin as [Hin | Hin]; [discriminate|]); exact Hin.
  - inversion Hb; subst blk. vm_compute in Hin.
    destruct Hin as [[Hin | []] | []]. discriminate.
Qed.
