(* Shared utilities: outcomes, list-set membership on nat, small list lemmas. *)
From Coq Require Export List Arith NArith ZArith Lia Bool.
Export ListNotations.

(* Outcome of running a piece of modelled code: a value, a clean error of some
   class, a Rust panic at a named site, or fuel exhaustion (always excluded in
   theorem statements). *)
Inductive outcome (A : Type) : Type :=
| Ok (a : A)
| Err (cls : N)
| Panic (site : N)
| OutOfFuel.
Arguments Ok {A} a.
Arguments Err {A} cls.
Arguments Panic {A} site.
Arguments OutOfFuel {A}.

Definition memn (x : nat) (l : list nat) : bool := existsb (Nat.eqb x) l.

Lemma memn_In x l : memn x l = true <-> In x l.
Proof.
  unfold memn. rewrite existsb_exists. split.
  - intros [y [Hy He]]. apply Nat.eqb_eq in He. subst. exact Hy.
  - intros H. exists x. split; [exact H | apply Nat.eqb_refl].
Qed.

Lemma memn_nIn x l : memn x l = false <-> ~ In x l.
Proof.
  rewrite <- memn_In. destruct (memn x l); split; intros H; congruence.
Qed.
