(* Asm/Delete.v — deleting instructions preserves behaviour when every deleted instruction that
   can be reached is pure (MOVE / NOOP / side-effect-free op) and writes only registers that are
   dead in the REDUCED program at that point; instructions that cannot be reached may be deleted
   freely (labels included).  Stuttering simulation in both directions, for every instruction
   semantics in which side-effect-free ops do not trap.  Used by C07 (dce, simplify_cfg,
   remove_redundant_ops). *)
From SwayV Require Import Base.Util Asm.Model Asm.Erase.
Local Open Scope N_scope.

Lemma find_index_select_some {A} (p : A -> bool) : forall (keep : list bool) (l : list A) j,
  length keep = length l -> find_index p l = Some j -> nth_error keep j = Some true ->
  find_index p (select keep l) = Some (pos keep j).
Proof.
  induction keep as [|k ks IH]; intros l j Hlen Hf Hk; [destruct j; discriminate|].
  destruct l as [|x t]; [discriminate|]. cbn in Hlen. injection Hlen as Hlen.
  cbn [find_index] in Hf. destruct (p x) eqn:Hpx.
  - injection Hf as <-. cbn in Hk. injection Hk as ->. cbn. rewrite Hpx. reflexivity.
  - destruct (find_index p t) as [j'|] eqn:Ht; [|discriminate]. cbn in Hf. injection Hf as <-.
    cbn in Hk. pose proof (IH t j' Hlen Ht Hk) as H.
    cbn [select pos]. destruct k; cbn [find_index].
    + rewrite Hpx, H. reflexivity.
    + rewrite H. reflexivity.
Qed.

Lemma find_index_select_none {A} (p : A -> bool) : forall (keep : list bool) (l : list A),
  find_index p l = None -> find_index p (select keep l) = None.
Proof.
  induction keep as [|k ks IH]; intros l H; [reflexivity|].
  destruct l as [|x t]; [reflexivity|]. cbn [find_index] in H.
  destruct (p x) eqn:Hpx; [discriminate|]. destruct (find_index p t) eqn:Ht; [discriminate|].
  cbn [select]. destruct k; cbn [find_index]; [rewrite Hpx|]; rewrite (IH t Ht); reflexivity.
Qed.

(* an instruction whose only effect is to write registers and fall through *)
Definition pure_kind (o : op) : bool :=
  match kind o with
  | KMove _ _ | KNoop => true
  | KOther _ _ => negb (se o)
  | _ => false
  end.

Section Delete.
  Variable M : Type.
  Variable sem : N -> list N -> list val -> M -> option (list val * M).
  Variable call_sem : label -> list val -> M -> option (list val * M).
  Variable ops : list op.
  Variable keep : list bool.
  Variable K : reg -> Prop.
  Variable Inv : nat -> Prop.

  Let ops' := select keep ops.

  Hypothesis Hlen : length keep = length ops.
  Hypothesis Hwf : wf_c ops.
  Hypothesis Hrv : rvrt_stops M sem.
  Hypothesis Hpure : pure_total M sem ops.
  Hypothesis HK : forall c, In c call_in_regs -> ~ K c.
  Hypothesis Hinv : forall i j, Inv i -> In j (succs ops i) -> Inv j.
  Hypothesis Hdrop : forall i o, nth_error keep i = Some false -> nth_error ops i = Some o -> Inv i ->
    pure_kind o = true /\
    forall r, In r (defs_c o) -> K r /\ ~ live_in_c ops' (pos keep i) r.

  Definition eq_on' (i' : nat) (rf rf' : regfile) : Prop :=
    forall r, live_in_c ops' i' r \/ ~ K r -> rf' r = rf r.

  Definition Rd (st st' : state M) : Prop :=
    Inv (pc st) /\ pc st' = pos keep (pc st) /\ mem st' = mem st /\ eq_on' (pc st') (rf st) (rf st').

  Definition Rdres (a b : result M) : Prop :=
    match a, b with
    | Running s, Running s' => Rd s s'
    | Stopped s, Stopped s' => Rd s s'
    | _, _ => False
    end.

  Lemma kept_label i o l j : Inv i -> nth_error ops i = Some o -> In j (succs ops i) ->
    label_index ops l = Some j -> label_index ops' l = Some (pos keep j).
  Proof.
    intros Hi Hn Hj Hl. unfold label_index, ops'. apply find_index_select_some; [exact Hlen | exact Hl |].
    destruct (nth_error keep j) as [[|]|] eqn:Hk; [reflexivity | |].
    - exfalso. assert (Hlt : (j < length ops)%nat) by (rewrite <- Hlen; apply nth_error_Some; rewrite Hk; discriminate).
      destruct (nth_error ops j) as [oj|] eqn:Hnj; [|apply nth_error_None in Hnj; lia].
      destruct (Hdrop j oj Hk Hnj (Hinv i j Hi Hj)) as [Hp _].
      (* position j carries label l *)
      assert (Hlab : is_label l oj = true).
      { unfold label_index in Hl. clear - Hl Hnj. revert j Hl Hnj. induction ops as [|x t IH]; intros j Hl Hnj; [discriminate|].
        cbn [find_index] in Hl. destruct (is_label l x) eqn:E.
        - injection Hl as <-. cbn in Hnj. injection Hnj as <-. exact E.
        - destruct (find_index (is_label l) t) as [j'|] eqn:Ht; [|discriminate]. cbn in Hl. injection Hl as <-.
          cbn in Hnj. eapply IH; [reflexivity|exact Hnj]. }
      unfold is_label in Hlab. unfold pure_kind in Hp. destruct (kind oj); discriminate.
    - exfalso. unfold label_index in Hl.
      assert (j < length ops)%nat.
      { clear - Hl. revert j Hl. induction ops as [|x t IH]; intros j Hl; [discriminate|].
        cbn [find_index] in Hl. destruct (is_label l x); [injection Hl as <-; cbn; lia|].
        destruct (find_index (is_label l) t) as [j'|] eqn:Ht; [|discriminate]. cbn in Hl. injection Hl as <-.
        cbn. specialize (IH j' eq_refl). lia. }
      apply nth_error_None in Hk. lia.
  Qed.

  Lemma no_label l : label_index ops l = None -> label_index ops' l = None.
  Proof. unfold label_index, ops'. apply find_index_select_none. Qed.

  Lemma eq_succ' i' o j' rf rf' rs vs : nth_error ops' i' = Some o -> In j' (succs ops' i') ->
    (forall r, In r (defs_c o) -> In r rs) ->
    eq_on' i' rf rf' -> eq_on' j' (write_list rs vs rf) (write_list rs vs rf').
  Proof.
    intros Hn Hj Hsub He r Hr. apply write_list_same.
    destruct (in_dec N.eq_dec r rs) as [Hi|Hi]; [left; exact Hi|]. right.
    apply He. destruct Hr as [Hl|Hk]; [|right; exact Hk]. left.
    eapply LG_thru; try eassumption. intros Hin. apply Hi. apply Hsub. exact Hin.
  Qed.

  Lemma eq_nowrite' i' o j' rf rf' : nth_error ops' i' = Some o -> In j' (succs ops' i') ->
    defs_c o = [] -> eq_on' i' rf rf' -> eq_on' j' rf rf'.
  Proof.
    intros Hn Hj Hd He.
    exact (eq_succ' i' o j' rf rf' [] [] Hn Hj (fun r H => eq_ind _ (fun l => In r l) H _ Hd) He).
  Qed.

  Lemma uses_eq' i' o rf rf' : nth_error ops' i' = Some o -> eq_on' i' rf rf' ->
    forall u, In u (uses o) -> rf' u = rf u.
  Proof. intros Hn He u Hu. apply He. left. eapply LG_use; eassumption. Qed.

  Lemma step_kept' st st' : Rd st st' -> nth_error keep (pc st) <> Some false ->
    match step M sem call_sem ops st, step M sem call_sem ops' st' with
    | Some a, Some b => Rd a b
    | None, None => True
    | _, _ => False
    end.
  Proof.
    destruct st as [p rg m], st' as [p' rg' m']. unfold Rd. cbn [pc rf mem].
    intros (Hi & Hpc & Hmem & He) Hk. subst p' m'. unfold step. cbn [pc rf mem].
    destruct (nth_error keep p) as [[|]|] eqn:Hkp; [| congruence |].
    2:{ unfold ops'. rewrite (select_nth_end keep ops p Hlen Hkp).
        assert (Hn : nth_error ops p = None).
        { apply nth_error_None. rewrite <- Hlen. apply nth_error_None. exact Hkp. }
        rewrite Hn. exact I. }
    assert (Hn' : nth_error ops' (pos keep p) = nth_error ops p) by (apply select_nth; assumption).
    rewrite Hn'.
    destruct (nth_error ops p) as [o|] eqn:Hn; [|exact I].
    pose proof (Hwf _ _ Hn) as Hw. unfold wf_c_op in Hw.
    assert (Hsucc : succs ops p = succs_of ops p o) by (unfold succs; rewrite Hn; reflexivity).
    assert (Hsucc' : succs ops' (pos keep p) = succs_of ops' (pos keep p) o) by (unfold succs; rewrite Hn'; reflexivity).
    unfold succs_of in Hsucc, Hsucc'.
    assert (HS : S (pos keep p) = pos keep (S p)) by (symmetry; apply pos_keep; exact Hkp).
    destruct (kind o) as [d s| |l|l|l c|l| |r|opc args] eqn:Hkind.
    - destruct Hw as [Hd Hs]. rewrite (uses_eq' _ o rg rg' Hn' He s Hs).
      cbn [pc rf mem]. split; [apply (Hinv p); [exact Hi | rewrite Hsucc; left; reflexivity]|].
      split; [exact HS|]. split; [reflexivity|].
      change (zero_list (cdefs o) (upd rg d (rg s))) with (write_list (d :: cdefs o) [rg s] rg).
      change (zero_list (cdefs o) (upd rg' d (rg s))) with (write_list (d :: cdefs o) [rg s] rg').
      eapply eq_succ'; eauto.
      + rewrite Hsucc'. left. reflexivity.
      + unfold defs_c. rewrite Hd. intros r Hr. exact Hr.
    - cbn [pc rf mem]. split; [apply (Hinv p); [exact Hi | rewrite Hsucc; left; reflexivity]|].
      split; [exact HS|]. split; [reflexivity|]. unfold zero_list.
      eapply eq_succ'; eauto.
      + rewrite Hsucc'. left. reflexivity.
      + unfold defs_c. rewrite Hw. intros r Hr. exact Hr.
    - destruct Hw as [Hd Hc].
      cbn [pc rf mem]. split; [apply (Hinv p); [exact Hi | rewrite Hsucc; left; reflexivity]|].
      split; [exact HS|]. split; [reflexivity|].
      eapply eq_nowrite'; eauto; [rewrite Hsucc'; left; reflexivity | unfold defs_c; rewrite Hd, Hc; reflexivity].
    - destruct Hw as [Hd Hc].
      destruct (label_index ops l) as [j|] eqn:Hl.
      + assert (Hj : In j (succs ops p)) by (rewrite Hsucc; left; reflexivity).
        rewrite (kept_label p o l j Hi Hn Hj Hl) in *.
        cbn [pc rf mem]. split; [apply (Hinv p); assumption|]. split; [reflexivity|]. split; [reflexivity|].
        eapply eq_nowrite'; eauto; [rewrite Hsucc'; left; reflexivity | unfold defs_c; rewrite Hd, Hc; reflexivity].
      + rewrite (no_label l Hl). exact I.
    - destruct Hw as (Hd & Hc & Hu). rewrite (uses_eq' _ o rg rg' Hn' He c Hu).
      assert (Hdc : defs_c o = []) by (unfold defs_c; rewrite Hd, Hc; reflexivity).
      destruct (N.eqb (rg c) 0).
      + cbn [pc rf mem]. split; [apply (Hinv p); [exact Hi | rewrite Hsucc; apply in_or_app; right; left; reflexivity]|].
        split; [exact HS|]. split; [reflexivity|].
        eapply eq_nowrite'; eauto. rewrite Hsucc'. apply in_or_app. right. left. reflexivity.
      + destruct (label_index ops l) as [j|] eqn:Hl.
        * assert (Hj : In j (succs ops p)) by (rewrite Hsucc; left; reflexivity).
          rewrite (kept_label p o l j Hi Hn Hj Hl) in *.
          cbn [pc rf mem]. split; [apply (Hinv p); assumption|]. split; [reflexivity|]. split; [reflexivity|].
          eapply eq_nowrite'; eauto. rewrite Hsucc'. left. reflexivity.
        * rewrite (no_label l Hl). exact I.
    - destruct Hw as [Hd Hc].
      assert (Hin : map rg' call_in_regs = map rg call_in_regs).
      { apply map_ext_in. intros c0 Hc0. apply He. right. apply HK. exact Hc0. }
      rewrite Hin. destruct (call_sem l (map rg call_in_regs) m) as [[vs m2]|]; [|exact I].
      cbn [pc rf mem]. split; [apply (Hinv p); [exact Hi | rewrite Hsucc; left; reflexivity]|].
      split; [exact HS|]. split; [reflexivity|].
      eapply eq_succ'; eauto.
      + rewrite Hsucc'. left. reflexivity.
      + unfold defs_c. rewrite Hd, Hc. intros r [].
    - exact I.
    - exact I.
    - assert (Hu : map rg' (uses o) = map rg (uses o)).
      { apply map_ext_in. intros u Hu. eapply uses_eq'; eassumption. }
      rewrite Hu.
      destruct (N.eqb_spec opc OPC_RVRT) as [->|Hne]. { rewrite Hrv. exact I. }
      destruct (sem opc (imms_of args) (map rg (uses o)) m) as [[vs m2]|]; [|exact I].
      cbn [pc rf mem].
      assert (Hne' : N.eqb opc OPC_RVRT = false) by (apply N.eqb_neq; exact Hne).
      try rewrite Hne' in Hsucc; try rewrite Hne' in Hsucc'.
      split; [apply (Hinv p); [exact Hi | rewrite Hsucc; left; reflexivity]|].
      split; [exact HS|]. split; [reflexivity|].
      eapply eq_succ'; eauto. rewrite Hsucc'. left. reflexivity.
  Qed.

  Lemma step_dropped' st st' : Rd st st' -> nth_error keep (pc st) = Some false ->
    exists st1, step M sem call_sem ops st = Some st1 /\ pc st1 = S (pc st) /\ Rd st1 st'.
  Proof.
    destruct st as [p rg m], st' as [p' rg' m']. unfold Rd. cbn [pc rf mem].
    intros (Hi & Hpc & Hmem & He) Hk.
    assert (Hlt : (p < length ops)%nat).
    { rewrite <- Hlen. apply nth_error_Some. rewrite Hk. discriminate. }
    destruct (nth_error ops p) as [o|] eqn:Hn; [|apply nth_error_None in Hn; lia].
    destruct (Hdrop p o Hk Hn Hi) as [Hp Hw].
    pose proof (Hwf _ _ Hn) as Hwfo. unfold wf_c_op in Hwfo.
    assert (Hsucc : succs ops p = succs_of ops p o) by (unfold succs; rewrite Hn; reflexivity).
    unfold succs_of in Hsucc. unfold pure_kind in Hp.
    assert (Hgen : forall rg1, (forall r, ~ In r (defs_c o) -> rg1 r = rg r) -> eq_on' p' rg1 rg').
    { intros rg1 H1 r Hr.
      destruct (in_dec N.eq_dec r (defs_c o)) as [Hin|Hin].
      - destruct (Hw r Hin) as [HKr Hdead]. destruct Hr as [Hl|Hnk]; [|contradiction].
        exfalso. apply Hdead. rewrite <- Hpc. exact Hl.
      - rewrite (H1 r Hin). apply He. exact Hr. }
    unfold step. cbn [pc rf mem]. rewrite Hn.
    destruct (kind o) as [d s| |l|l|l c|l| |r|opc args] eqn:Hkind; try discriminate.
    - destruct Hwfo as [Hdefs Hs].
      eexists. split; [reflexivity|]. cbn [pc rf mem]. split; [reflexivity|].
      split; [apply (Hinv p); [exact Hi | rewrite Hsucc; left; reflexivity]|].
      split; [rewrite (pos_drop keep p Hk); exact Hpc|]. split; [exact Hmem|].
      apply Hgen. intros r Hr.
      change (zero_list (cdefs o) (upd rg d (rg s))) with (write_list (d :: cdefs o) [rg s] rg).
      apply write_list_other. unfold defs_c in Hr. rewrite Hdefs in Hr. exact Hr.
    - eexists. split; [reflexivity|]. cbn [pc rf mem]. split; [reflexivity|].
      split; [apply (Hinv p); [exact Hi | rewrite Hsucc; left; reflexivity]|].
      split; [rewrite (pos_drop keep p Hk); exact Hpc|]. split; [exact Hmem|].
      apply Hgen. intros r Hr. unfold zero_list. apply write_list_other.
      unfold defs_c in Hr. rewrite Hwfo in Hr. exact Hr.
    - apply negb_true_iff in Hp.
      destruct (sem opc (imms_of args) (map rg (uses o)) m) as [[vs m2]|] eqn:Hsem.
      2:{ exfalso. eapply (Hpure p o opc args); eassumption. }
      assert (Hne : N.eqb opc OPC_RVRT = false).
      { destruct (N.eqb_spec opc OPC_RVRT) as [->|]; [|reflexivity]. rewrite Hrv in Hsem. discriminate. }
      rewrite Hne in Hsucc.
      eexists. split; [reflexivity|]. cbn [pc rf mem]. split; [reflexivity|].
      split; [apply (Hinv p); [exact Hi | rewrite Hsucc; left; reflexivity]|].
      split; [rewrite (pos_drop keep p Hk); exact Hpc|]. rewrite Hp. split; [exact Hmem|].
      apply Hgen. intros r Hr. apply write_list_other. exact Hr.
  Qed.

  Lemma run_S' n st st1 : step M sem call_sem ops st = Some st1 ->
    run M sem call_sem ops (S n) st = run M sem call_sem ops n st1.
  Proof. intros H. cbn [run]. rewrite H. reflexivity. Qed.

  Theorem delete_fwd : forall n st st', Rd st st' ->
    exists m, (m <= n)%nat /\ Rdres (run M sem call_sem ops n st) (run M sem call_sem ops' m st').
  Proof.
    induction n as [|n IH]; intros st st' HR.
    - exists 0%nat. split; [lia|exact HR].
    - destruct (nth_error keep (pc st)) as [[|]|] eqn:Hk.
      2:{ destruct (step_dropped' st st' HR Hk) as (st1 & Hs & _ & HR1).
          destruct (IH st1 st' HR1) as (m & Hm & Hr). exists m. split; [lia|].
          rewrite (run_S' n st st1 Hs). exact Hr. }
      all: pose proof (step_kept' st st' HR) as Hs; rewrite Hk in Hs; specialize (Hs ltac:(discriminate));
        cbn [run]; destruct (step M sem call_sem ops st) as [a|] eqn:Ha;
        destruct (step M sem call_sem ops' st') as [b|] eqn:Hb; try contradiction;
        [ destruct (IH a b Hs) as (m & Hm & Hr); exists (S m); split; [lia|]; cbn [run]; rewrite Hb; exact Hr
        | exists 1%nat; split; [lia|]; cbn [run]; rewrite Hb; exact HR ].
  Qed.

  Lemma skip_dropped' : forall k st st', (length ops - pc st <= k)%nat -> Rd st st' ->
    exists j st2, run M sem call_sem ops j st = Running st2 /\ Rd st2 st' /\
                  nth_error keep (pc st2) <> Some false.
  Proof.
    induction k as [|k IH]; intros st st' Hk HR.
    - exists 0%nat, st. split; [reflexivity|]. split; [exact HR|].
      intros H. assert (pc st < length keep)%nat by (apply nth_error_Some; rewrite H; discriminate). lia.
    - destruct (nth_error keep (pc st)) as [[|]|] eqn:Hkp.
      + exists 0%nat, st. split; [reflexivity|]. split; [exact HR|]. rewrite Hkp. discriminate.
      + destruct (step_dropped' st st' HR Hkp) as (st1 & Hs & Hpc & HR1).
        destruct (IH st1 st' ltac:(lia) HR1) as (j & st2 & Hrun & HR2 & Hk2).
        exists (S j), st2. split; [|split; assumption].
        rewrite (run_S' j st st1 Hs). exact Hrun.
      + exists 0%nat, st. split; [reflexivity|]. split; [exact HR|]. rewrite Hkp. discriminate.
  Qed.

  Lemma run_app' : forall j n st st2, run M sem call_sem ops j st = Running st2 ->
    run M sem call_sem ops (j + n) st = run M sem call_sem ops n st2.
  Proof.
    induction j as [|j IH]; intros n st st2 H.
    - cbn in H. injection H as ->. reflexivity.
    - cbn [run] in H. cbn [Nat.add run]. destruct (step M sem call_sem ops st) as [a|]; [|discriminate].
      apply IH. exact H.
  Qed.

  Theorem delete_bwd : forall m st st', Rd st st' ->
    exists n, Rdres (run M sem call_sem ops n st) (run M sem call_sem ops' m st').
  Proof.
    induction m as [|m IH]; intros st st' HR.
    - exists 0%nat. exact HR.
    - destruct (skip_dropped' (length ops) st st' ltac:(lia) HR) as (j & st2 & Hrun & HR2 & Hk2).
      pose proof (step_kept' st2 st' HR2 Hk2) as Hs.
      cbn [run]. destruct (step M sem call_sem ops st2) as [a|] eqn:Ha;
        destruct (step M sem call_sem ops' st') as [b|] eqn:Hb; try contradiction.
      + destruct (IH a b Hs) as (n & Hr). exists (j + S n)%nat.
        rewrite (run_app' j (S n) st st2 Hrun). cbn [run]. rewrite Ha. exact Hr.
      + exists (j + 1)%nat.
        rewrite (run_app' j 1 st st2 Hrun). cbn [run]. rewrite Ha. exact HR2.
  Qed.
End Delete.
