(* Asm/Inplace.v — replacing instructions in place by NOOP preserves behaviour in lock step:
   (M) a MOVE whose destination is dead in the new program, replaced by a NOOP clearing the same
       def-const registers;
   (J) a JUMP / JNZ to the label on the next line, replaced by a NOOP whose cleared registers are
       dead in the new program.
   Liveness is that of the NEW program (kill = defs ++ cdefs).  Also: lock-step equivalence is
   reflexive and transitive (used for the iterated remove_redundant_moves). *)
From SwayV Require Import Base.Util Asm.Model Asm.Erase.
Local Open Scope N_scope.

(* what related states always share *)
Definition obs_eq {M} (st st' : state M) : Prop :=
  pc st' = pc st /\ mem st' = mem st /\
  forall c, is_const c = true -> ~ flagK c -> rf st' c = rf st c.

Definition lock_sim (M : Type) sem call_sem (ops1 ops2 : list op) (Rel : state M -> state M -> Prop) : Prop :=
  (forall st st', Rel st st' -> obs_eq st st') /\
  (forall st st', Rel st st' ->
     match step M sem call_sem ops1 st, step M sem call_sem ops2 st' with
     | Some a, Some b => Rel a b
     | None, None => True
     | _, _ => False
     end).

(* for every instruction semantics (RVRT stops): a relation containing all pairs of identical
   entry states, preserved in lock step, implying equal pc, memory and constant registers
   (except $of/$err) *)
Definition lock_equiv (ops1 ops2 : list op) : Prop :=
  forall (M : Type) sem call_sem, rvrt_stops M sem ->
  exists Rel, lock_sim M sem call_sem ops1 ops2 Rel /\ forall st, pc st = 0%nat -> Rel st st.

Lemma lock_equiv_refl ops : lock_equiv ops ops.
Proof.
  intros M sem cs _. exists (fun a b => a = b). split; [split|].
  - intros st st' <-. repeat split; reflexivity.
  - intros st st' <-. destruct (step M sem cs ops st); [reflexivity|exact I].
  - reflexivity.
Qed.

Lemma lock_equiv_trans a b c : lock_equiv a b -> lock_equiv b c -> lock_equiv a c.
Proof.
  intros H1 H2 M sem cs Hrv.
  destruct (H1 M sem cs Hrv) as (R1 & [O1 S1] & I1). destruct (H2 M sem cs Hrv) as (R2 & [O2 S2] & I2).
  exists (fun x z => exists y, R1 x y /\ R2 y z). split; [split|].
  - intros x z (y & Hxy & Hyz). destruct (O1 _ _ Hxy) as (p1 & m1 & c1). destruct (O2 _ _ Hyz) as (p2 & m2 & c2).
    split; [congruence|]. split; [congruence|]. intros r Hc Hf. rewrite (c2 r Hc Hf). apply c1; assumption.
  - intros x z (y & Hxy & Hyz). pose proof (S1 _ _ Hxy) as A. pose proof (S2 _ _ Hyz) as B.
    destruct (step M sem cs a x), (step M sem cs b y), (step M sem cs c z); try contradiction; try exact I.
    exists s0. split; assumption.
  - intros st Hp. exists st. split; [apply I1|apply I2]; exact Hp.
Qed.

Lemma lock_sim_run M sem cs ops1 ops2 Rel : lock_sim M sem cs ops1 ops2 Rel ->
  forall n st st', Rel st st' ->
  match run M sem cs ops1 n st, run M sem cs ops2 n st' with
  | Running a, Running b => Rel a b
  | Stopped a, Stopped b => Rel a b
  | _, _ => False
  end.
Proof.
  intros [_ Hs]. induction n as [|n IH]; intros st st' HR; cbn [run]; [exact HR|].
  pose proof (Hs st st' HR) as X.
  destruct (step M sem cs ops1 st), (step M sem cs ops2 st'); try contradiction.
  - apply IH. exact X.
  - exact HR.
Qed.

Section Inplace.
  Variable M : Type.
  Variable sem : N -> list N -> list val -> M -> option (list val * M).
  Variable call_sem : label -> list val -> M -> option (list val * M).
  Variable ops ops' : list op.
  Variable K : reg -> Prop.

  Hypothesis Hwf : wf_c ops.
  Hypothesis Hrv : rvrt_stops M sem.
  Hypothesis HK : forall c, In c call_in_regs -> ~ K c.
  Hypothesis HKc : forall c, K c -> is_const c = true -> flagK c.
  Hypothesis Hlab : forall l, label_index ops' l = label_index ops l.

  (* position i of the new program w.r.t. the old one *)
  Definition same_or_noop (i : nat) (o : op) : Prop :=
    nth_error ops' i = Some o \/
    exists n, nth_error ops' i = Some n /\ kind n = KNoop /\ defs n = [] /\
      ((exists d s, kind o = KMove d s /\ cdefs n = cdefs o /\ K d /\ ~ live_in_c ops' (S i) d) \/
       ((exists l, (kind o = KJump l \/ exists c, kind o = KJnz l c) /\ label_index ops l = Some (S i)) /\
        forall c, In c (cdefs n) -> K c /\ ~ live_in_c ops' (S i) c)).

  Hypothesis Hpos : forall i o, nth_error ops i = Some o -> same_or_noop i o.
  Hypothesis Hend : forall i, nth_error ops i = None -> nth_error ops' i = None.

  Definition eqL (i : nat) (rf rf' : regfile) : Prop :=
    forall r, live_in_c ops' i r \/ ~ K r -> rf' r = rf r.

  Definition Ri (st st' : state M) : Prop :=
    pc st' = pc st /\ mem st' = mem st /\ eqL (pc st) (rf st) (rf st').

  Lemma eqL_succ i o j rf rf' rs vs : nth_error ops' i = Some o -> In j (succs ops' i) ->
    (forall r, In r (defs_c o) -> In r rs) ->
    eqL i rf rf' -> eqL j (write_list rs vs rf) (write_list rs vs rf').
  Proof.
    intros Hn Hj Hsub He r Hr. apply write_list_same.
    destruct (in_dec N.eq_dec r rs) as [Hi|Hi]; [left; exact Hi|]. right.
    apply He. destruct Hr as [Hl|Hk]; [|right; exact Hk]. left.
    eapply LG_thru; try eassumption. intros Hin. apply Hi. apply Hsub. exact Hin.
  Qed.

  Lemma eqL_nowrite i o j rf rf' : nth_error ops' i = Some o -> In j (succs ops' i) ->
    defs_c o = [] -> eqL i rf rf' -> eqL j rf rf'.
  Proof.
    intros Hn Hj Hd He.
    exact (eqL_succ i o j rf rf' [] [] Hn Hj (fun r H => eq_ind _ (fun l => In r l) H _ Hd) He).
  Qed.

  Lemma uses_eqL i o rf rf' : nth_error ops' i = Some o -> eqL i rf rf' ->
    forall u, In u (uses o) -> rf' u = rf u.
  Proof. intros Hn He u Hu. apply He. left. eapply LG_use; eassumption. Qed.

  Lemma step_inplace st st' : Ri st st' ->
    match step M sem call_sem ops st, step M sem call_sem ops' st' with
    | Some a, Some b => Ri a b
    | None, None => True
    | _, _ => False
    end.
  Proof.
    destruct st as [p rg m], st' as [p' rg' m']. unfold Ri. cbn [pc rf mem].
    intros (Hpc & Hmem & He). subst p' m'. unfold step. cbn [pc rf mem].
    destruct (nth_error ops p) as [o|] eqn:Hn; [|rewrite (Hend p Hn); exact I].
    pose proof (Hwf _ _ Hn) as Hw. unfold wf_c_op in Hw.
    destruct (Hpos p o Hn) as [Hn'|(n & Hn' & Hkn & Hdn & Hcase)].
    - (* same instruction *)
      rewrite Hn'.
      assert (Hsucc' : succs ops' p = succs_of ops' p o) by (unfold succs; rewrite Hn'; reflexivity).
      unfold succs_of in Hsucc'.
      destruct (kind o) as [d s| |l|l|l c|l| |r|opc args] eqn:Hkind.
      + destruct Hw as [Hd Hs]. rewrite (uses_eqL p o rg rg' Hn' He s Hs).
        cbn [pc rf mem]. split; [reflexivity|]. split; [reflexivity|].
        change (zero_list (cdefs o) (upd rg d (rg s))) with (write_list (d :: cdefs o) [rg s] rg).
        change (zero_list (cdefs o) (upd rg' d (rg s))) with (write_list (d :: cdefs o) [rg s] rg').
        eapply eqL_succ; eauto; [rewrite Hsucc'; left; reflexivity|].
        unfold defs_c. rewrite Hd. intros r Hr. exact Hr.
      + cbn [pc rf mem]. split; [reflexivity|]. split; [reflexivity|]. unfold zero_list.
        eapply eqL_succ; eauto; [rewrite Hsucc'; left; reflexivity|].
        unfold defs_c. rewrite Hw. intros r Hr. exact Hr.
      + destruct Hw as [Hd Hc]. cbn [pc rf mem]. split; [reflexivity|]. split; [reflexivity|].
        eapply eqL_nowrite; eauto; [rewrite Hsucc'; left; reflexivity | unfold defs_c; rewrite Hd, Hc; reflexivity].
      + destruct Hw as [Hd Hc]. rewrite Hlab in *.
        destruct (label_index ops l) as [j|] eqn:Hl; [|exact I].
        cbn [pc rf mem]. split; [reflexivity|]. split; [reflexivity|].
        eapply eqL_nowrite; eauto; [rewrite Hsucc'; left; reflexivity | unfold defs_c; rewrite Hd, Hc; reflexivity].
      + destruct Hw as (Hd & Hc & Hu). rewrite (uses_eqL p o rg rg' Hn' He c Hu). rewrite Hlab in *.
        assert (Hdc : defs_c o = []) by (unfold defs_c; rewrite Hd, Hc; reflexivity).
        destruct (N.eqb (rg c) 0).
        * cbn [pc rf mem]. split; [reflexivity|]. split; [reflexivity|].
          eapply eqL_nowrite; eauto. rewrite Hsucc'. apply in_or_app. right. left. reflexivity.
        * destruct (label_index ops l) as [j|] eqn:Hl; [|exact I].
          cbn [pc rf mem]. split; [reflexivity|]. split; [reflexivity|].
          eapply eqL_nowrite; eauto. rewrite Hsucc'. left. reflexivity.
      + destruct Hw as [Hd Hc].
        assert (Hin : map rg' call_in_regs = map rg call_in_regs).
        { apply map_ext_in. intros c0 Hc0. apply He. right. apply HK. exact Hc0. }
        rewrite Hin. destruct (call_sem l (map rg call_in_regs) m) as [[vs m2]|]; [|exact I].
        cbn [pc rf mem]. split; [reflexivity|]. split; [reflexivity|].
        eapply eqL_succ; eauto; [rewrite Hsucc'; left; reflexivity|].
        unfold defs_c. rewrite Hd, Hc. intros r [].
      + exact I.
      + exact I.
      + assert (Hu : map rg' (uses o) = map rg (uses o)).
        { apply map_ext_in. intros u Hu. eapply uses_eqL; eassumption. }
        rewrite Hu.
        destruct (N.eqb_spec opc OPC_RVRT) as [->|Hne]. { rewrite Hrv. exact I. }
        destruct (sem opc (imms_of args) (map rg (uses o)) m) as [[vs m2]|]; [|exact I].
        cbn [pc rf mem]. split; [reflexivity|]. split; [reflexivity|].
        eapply eqL_succ; eauto. rewrite Hsucc'.
        destruct (N.eqb_spec opc OPC_RVRT); [contradiction|]. left. reflexivity.
    - (* replaced by a NOOP *)
      rewrite Hn'. rewrite Hkn.
      assert (Hsn : In (S p) (succs ops' p)).
      { unfold succs. rewrite Hn'. unfold succs_of. rewrite Hkn. left. reflexivity. }
      assert (Hthru : forall r, live_in_c ops' (S p) r \/ ~ K r -> ~ In r (cdefs n) -> rg' r = rg r).
      { intros r Hr Hnc. apply He. destruct Hr as [Hl|Hnk]; [|right; exact Hnk]. left.
        eapply LG_thru; try eassumption. unfold defs_c. rewrite Hdn. exact Hnc. }
      destruct Hcase as [(d & s & Hko & Hcd & HKd & Hdd) | ((l & Hkj & Hl) & Hcl)].
      + rewrite Hko in *. destruct Hw as [Hd Hs].
        cbn [pc rf mem]. split; [reflexivity|]. split; [reflexivity|].
        intros r Hr. rewrite Hcd. unfold zero_list. apply write_list_same.
        destruct (in_dec N.eq_dec r (cdefs o)) as [Hi|Hi]; [left; exact Hi|]. right.
        unfold upd. destruct (N.eqb_spec r d) as [->|Hne].
        * exfalso. destruct Hr as [Hlv|Hnk]; [exact (Hdd Hlv) | exact (Hnk HKd)].
        * apply Hthru; [exact Hr | rewrite Hcd; exact Hi].
      + assert (Hfin : eqL (S p) rg (zero_list (cdefs n) rg')).
        { intros r Hr. unfold zero_list.
          destruct (in_dec N.eq_dec r (cdefs n)) as [Hi|Hi].
          - exfalso. destruct (Hcl r Hi) as [HKr Hdr]. destruct Hr as [Hlv|Hnk]; [exact (Hdr Hlv) | exact (Hnk HKr)].
          - rewrite (write_list_other _ _ _ _ Hi). apply Hthru; assumption. }
        destruct Hkj as [Hkj|(c & Hkj)]; rewrite Hkj in *.
        * rewrite Hl. cbn [pc rf mem]. split; [reflexivity|]. split; [reflexivity|]. exact Hfin.
        * rewrite Hl. destruct (N.eqb (rg c) 0); cbn [pc rf mem];
            (split; [reflexivity|]; split; [reflexivity|]; exact Hfin).
  Qed.

  Lemma Ri_obs st st' : Ri st st' -> obs_eq st st'.
  Proof.
    intros (Hp & Hm & He). split; [exact Hp|]. split; [exact Hm|].
    intros c Hc Hf. apply He. right. intros Hk. apply Hf. apply HKc; assumption.
  Qed.

  Theorem inplace_lock_sim : lock_sim M sem call_sem ops ops' Ri.
  Proof. split; [exact Ri_obs | exact step_inplace]. Qed.

  Lemma Ri_refl st : Ri st st.
  Proof. split; [reflexivity|]. split; [reflexivity|]. intros r _. reflexivity. Qed.
End Inplace.
