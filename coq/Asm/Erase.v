(* Asm/Erase.v — deleting skip-like instructions (MOVE r r, NOOP) whose only effect is to clear
   def-const registers that are dead afterwards preserves behaviour (stuttering simulation,
   both directions), for every instruction semantics.  Used by C08 (coalesced moves) and C07. *)
From SwayV Require Import Base.Util Asm.Model.
Local Open Scope N_scope.

(* ---- list facts ---- *)
Lemma select_nth {A} : forall (keep : list bool) (l : list A) i,
  length keep = length l -> nth_error keep i = Some true ->
  nth_error (select keep l) (pos keep i) = nth_error l i.
Proof.
  induction keep as [|k ks IH]; intros l i Hlen Hk.
  - destruct i; discriminate.
  - destruct l as [|x t]; [discriminate|]. cbn in Hlen. injection Hlen as Hlen.
    destruct i as [|i]; cbn in Hk.
    + injection Hk as ->. reflexivity.
    + cbn [pos select]. destruct k; cbn; apply IH; assumption.
Qed.

Lemma select_nth_end {A} : forall (keep : list bool) (l : list A) i,
  length keep = length l -> nth_error keep i = None ->
  nth_error (select keep l) (pos keep i) = None.
Proof.
  induction keep as [|k ks IH]; intros l i Hlen Hk.
  - cbn. destruct i; reflexivity.
  - destruct l as [|x t]; [discriminate|]. cbn in Hlen. injection Hlen as Hlen.
    destruct i as [|i]; cbn in Hk; [discriminate|].
    cbn [pos select]. destruct k; cbn; apply IH; assumption.
Qed.

Lemma pos_drop : forall keep i, nth_error keep i = Some false -> pos keep (S i) = pos keep i.
Proof.
  induction keep as [|k ks IH]; intros i Hk; [destruct i; discriminate|].
  destruct i as [|i]; cbn in Hk.
  - injection Hk as ->. cbn. destruct ks; reflexivity.
  - change (pos (k :: ks) (S (S i))) with ((if k then 1 else 0) + pos ks (S i))%nat.
    rewrite (IH i Hk). reflexivity.
Qed.

Lemma pos_keep : forall keep i, nth_error keep i = Some true -> pos keep (S i) = S (pos keep i).
Proof.
  induction keep as [|k ks IH]; intros i Hk; [destruct i; discriminate|].
  destruct i as [|i]; cbn in Hk.
  - injection Hk as ->. cbn. destruct ks; reflexivity.
  - change (pos (k :: ks) (S (S i))) with ((if k then 1 else 0) + pos ks (S i))%nat.
    rewrite (IH i Hk). cbn [pos]. lia.
Qed.

Lemma find_index_select {A} (p : A -> bool) : forall (keep : list bool) (l : list A),
  length keep = length l ->
  (forall i x, nth_error keep i = Some false -> nth_error l i = Some x -> p x = false) ->
  find_index p (select keep l) = option_map (pos keep) (find_index p l).
Proof.
  induction keep as [|k ks IH]; intros l Hlen H.
  - destruct l; [reflexivity|discriminate].
  - destruct l as [|x t]; [discriminate|]. cbn in Hlen. injection Hlen as Hlen.
    assert (Ht : forall i y, nth_error ks i = Some false -> nth_error t i = Some y -> p y = false).
    { intros i y Hi Hy. apply (H (S i) y); assumption. }
    cbn [select]. destruct k.
    + cbn [find_index]. destruct (p x); [reflexivity|].
      rewrite (IH t Hlen Ht). destruct (find_index p t); reflexivity.
    + cbn [find_index]. rewrite (H 0%nat x eq_refl eq_refl).
      rewrite (IH t Hlen Ht). destruct (find_index p t); reflexivity.
Qed.

(* ---- register-file facts ---- *)
Lemma write_list_same r : forall rs vs (rf rf' : regfile),
  (In r rs \/ rf' r = rf r) -> write_list rs vs rf' r = write_list rs vs rf r.
Proof.
  induction rs as [|d rs IH]; intros vs rf rf' H; cbn.
  - destruct H as [[]|H]. exact H.
  - apply IH. destruct (N.eq_dec r d) as [->|Hne].
    + right. unfold upd. rewrite N.eqb_refl. reflexivity.
    + destruct H as [[H|H]|H]; [congruence | left; exact H |].
      right. unfold upd. destruct (N.eqb_spec r d); [congruence|exact H].
Qed.

Lemma write_list_other x : forall rs vs rf, ~ In x rs -> write_list rs vs rf x = rf x.
Proof.
  induction rs as [|d rs IH]; intros vs rf Hn; cbn; [reflexivity|].
  rewrite IH by (intros H; apply Hn; right; exact H).
  unfold upd. destruct (N.eqb_spec x d) as [E|E]; [|reflexivity].
  exfalso. apply Hn. left. symmetry. exact E.
Qed.

Lemma in_const_regs c : is_const c = true -> In c const_regs.
Proof.
  intros H. unfold const_regs. apply in_map_iff. exists (N.to_nat c). split; [apply N2Nat.id|].
  apply in_seq. unfold is_const in H. apply N.ltb_lt in H. lia.
Qed.

Section Erase.
  Variable M : Type.
  Variable sem : N -> list N -> list val -> M -> option (list val * M).
  Variable call_sem : label -> list val -> M -> option (list val * M).
  Variable ops : list op.
  Variable keep : list bool.
  Variable K : reg -> Prop.

  Hypothesis Hlen : length keep = length ops.
  Hypothesis Hwf : wf_c ops.
  Hypothesis Hrv : rvrt_stops M sem.
  (* registers that deleted instructions may clear are not call inputs *)
  Hypothesis HK : forall c, In c call_in_regs -> ~ K c.
  (* every deleted instruction is MOVE r r or NOOP, clears only K registers, dead afterwards *)
  (* an op that, whatever its operands, neither traps nor changes memory (zero-length MCP/MCPI) *)
  Definition skip_like (o : op) : Prop :=
    exists opc args, kind o = KOther opc args /\ defs o = [] /\
      forall vs m, exists vs', sem opc (imms_of args) vs m = Some (vs', m).

  Hypothesis Hdrop : forall i o, nth_error keep i = Some false -> nth_error ops i = Some o ->
    (droppable o = true \/ skip_like o) /\ forall c, In c (cdefs o) -> K c /\ ~ live_out_c ops i c.

  Let ops' := select keep ops.

  Definition eq_on (i : nat) (rf rf' : regfile) : Prop :=
    forall r, live_in_c ops i r \/ ~ K r -> rf' r = rf r.

  Definition R (st st' : state M) : Prop :=
    pc st' = pos keep (pc st) /\ mem st' = mem st /\ eq_on (pc st) (rf st) (rf st').

  Definition Rres (a b : result M) : Prop :=
    match a, b with
    | Running s, Running s' => R s s'
    | Stopped s, Stopped s' => R s s'
    | _, _ => False
    end.

  Lemma label_index_select l : label_index ops' l = option_map (pos keep) (label_index ops l).
  Proof.
    unfold label_index, ops'. apply find_index_select; [exact Hlen|]. intros i x Hk Hx.
    destruct (Hdrop i x Hk Hx) as [[Hd|(opc & args & Hd & _)] _]; unfold is_label.
    - unfold droppable in Hd. destruct (kind x); try discriminate; reflexivity.
    - rewrite Hd. reflexivity.
  Qed.

  Lemma eq_on_succ i o j rf rf' rs vs : nth_error ops i = Some o -> In j (succs ops i) ->
    (forall r, In r (defs_c o) -> In r rs) ->
    eq_on i rf rf' -> eq_on j (write_list rs vs rf) (write_list rs vs rf').
  Proof.
    intros Hn Hj Hsub He r Hr. apply write_list_same.
    destruct (in_dec N.eq_dec r rs) as [Hi|Hi]; [left; exact Hi|]. right.
    apply He. destruct Hr as [Hl|Hk]; [|right; exact Hk]. left.
    eapply LG_thru; try eassumption. intros Hin. apply Hi. apply Hsub. exact Hin.
  Qed.

  Lemma eq_on_nowrite i o j rf rf' : nth_error ops i = Some o -> In j (succs ops i) ->
    defs_c o = [] -> eq_on i rf rf' -> eq_on j rf rf'.
  Proof.
    intros Hn Hj Hd He.
    exact (eq_on_succ i o j rf rf' [] [] Hn Hj (fun r H => eq_ind _ (fun l => In r l) H _ Hd) He).
  Qed.

  Lemma uses_eq i o rf rf' : nth_error ops i = Some o -> eq_on i rf rf' ->
    forall u, In u (uses o) -> rf' u = rf u.
  Proof. intros Hn He u Hu. apply He. left. eapply LG_use; eassumption. Qed.

  (* a kept instruction: both programs take the same step *)
  Lemma step_kept st st' : R st st' -> nth_error keep (pc st) <> Some false ->
    match step M sem call_sem ops st, step M sem call_sem ops' st' with
    | Some a, Some b => R a b
    | None, None => True
    | _, _ => False
    end.
  Proof.
    destruct st as [p rg m], st' as [p' rg' m']. unfold R. cbn [pc rf mem].
    intros (Hpc & Hmem & He) Hk. subst p' m'. unfold step. cbn [pc rf mem].
    destruct (nth_error keep p) as [[|]|] eqn:Hkp; [| congruence |].
    2:{ unfold ops'. rewrite (select_nth_end keep ops p Hlen Hkp).
        assert (Hn : nth_error ops p = None).
        { apply nth_error_None. rewrite <- Hlen. apply nth_error_None. exact Hkp. }
        rewrite Hn. exact I. }
    unfold ops'. rewrite (select_nth keep ops p Hlen Hkp). fold ops'.
    destruct (nth_error ops p) as [o|] eqn:Hn; [|exact I].
    pose proof (Hwf _ _ Hn) as Hw. unfold wf_c_op in Hw.
    assert (Hsucc : succs ops p = succs_of ops p o) by (unfold succs; rewrite Hn; reflexivity).
    unfold succs_of in Hsucc.
    rewrite <- (pos_keep keep p Hkp).
    destruct (kind o) as [d s| |l|l|l c|l| |r|opc args] eqn:Hkind.
    - (* move *)
      destruct Hw as [Hd Hs]. rewrite (uses_eq p o rg rg' Hn He s Hs).
      cbn [pc rf mem]. split; [reflexivity|]. split; [reflexivity|].
      change (zero_list (cdefs o) (upd rg d (rg s))) with (write_list (d :: cdefs o) [rg s] rg).
      change (zero_list (cdefs o) (upd rg' d (rg s))) with (write_list (d :: cdefs o) [rg s] rg').
      eapply eq_on_succ; eauto.
      + rewrite Hsucc. left. reflexivity.
      + unfold defs_c. rewrite Hd. intros r Hr. exact Hr.
    - (* noop *)
      cbn [pc rf mem]. split; [reflexivity|]. split; [reflexivity|]. unfold zero_list.
      eapply eq_on_succ; eauto.
      + rewrite Hsucc. left. reflexivity.
      + unfold defs_c. rewrite Hw. intros r Hr. exact Hr.
    - (* label *)
      destruct Hw as [Hd Hc].
      cbn [pc rf mem]. split; [reflexivity|]. split; [reflexivity|].
      eapply eq_on_nowrite; eauto; [rewrite Hsucc; left; reflexivity | unfold defs_c; rewrite Hd, Hc; reflexivity].
    - (* jump *)
      destruct Hw as [Hd Hc]. rewrite label_index_select.
      destruct (label_index ops l) as [j|] eqn:Hl; cbn [option_map]; [|exact I].
      cbn [pc rf mem]. split; [reflexivity|]. split; [reflexivity|].
      eapply eq_on_nowrite; eauto; [rewrite Hsucc; left; reflexivity | unfold defs_c; rewrite Hd, Hc; reflexivity].
    - (* jnz *)
      destruct Hw as (Hd & Hc & Hu). rewrite (uses_eq p o rg rg' Hn He c Hu).
      rewrite label_index_select.
      assert (Hdc : defs_c o = []) by (unfold defs_c; rewrite Hd, Hc; reflexivity).
      destruct (N.eqb (rg c) 0).
      + cbn [pc rf mem]. split; [reflexivity|]. split; [reflexivity|].
        eapply eq_on_nowrite; eauto. rewrite Hsucc. apply in_or_app. right. left. reflexivity.
      + destruct (label_index ops l) as [j|] eqn:Hl; cbn [option_map]; [|exact I].
        cbn [pc rf mem]. split; [reflexivity|]. split; [reflexivity|].
        eapply eq_on_nowrite; eauto. rewrite Hsucc. left. reflexivity.
    - (* call *)
      destruct Hw as [Hd Hc].
      assert (Hin : map rg' call_in_regs = map rg call_in_regs).
      { apply map_ext_in. intros c0 Hc0. apply He. right. apply HK. exact Hc0. }
      rewrite Hin. destruct (call_sem l (map rg call_in_regs) m) as [[vs m2]|]; [|exact I].
      cbn [pc rf mem]. split; [reflexivity|]. split; [reflexivity|].
      eapply eq_on_succ; eauto.
      + rewrite Hsucc. left. reflexivity.
      + unfold defs_c. rewrite Hd, Hc. intros r [].
    - exact I.
    - exact I.
    - (* other *)
      assert (Hu : map rg' (uses o) = map rg (uses o)).
      { apply map_ext_in. intros u Hu. eapply uses_eq; eassumption. }
      rewrite Hu.
      destruct (N.eqb_spec opc OPC_RVRT) as [->|Hne]. { rewrite Hrv. exact I. }
      destruct (sem opc (imms_of args) (map rg (uses o)) m) as [[vs m2]|]; [|exact I].
      cbn [pc rf mem]. split; [reflexivity|]. split; [reflexivity|].
      eapply eq_on_succ; eauto.
      rewrite Hsucc. destruct (N.eqb_spec opc OPC_RVRT); [contradiction|]. left. reflexivity.
  Qed.

  (* a deleted instruction: the source steps alone and stays related *)
  Lemma step_dropped st st' : R st st' -> nth_error keep (pc st) = Some false ->
    exists st1, step M sem call_sem ops st = Some st1 /\ pc st1 = S (pc st) /\ R st1 st'.
  Proof.
    destruct st as [p rg m], st' as [p' rg' m']. unfold R. cbn [pc rf mem].
    intros (Hpc & Hmem & He) Hk.
    assert (Hlt : (p < length ops)%nat).
    { rewrite <- Hlen. apply nth_error_Some. rewrite Hk. discriminate. }
    destruct (nth_error ops p) as [o|] eqn:Hn; [|apply nth_error_None in Hn; lia].
    destruct (Hdrop p o Hk Hn) as [Hd Hc].
    pose proof (Hwf _ _ Hn) as Hw. unfold wf_c_op in Hw.
    assert (Hsucc : succs ops p = succs_of ops p o) by (unfold succs; rewrite Hn; reflexivity).
    unfold succs_of in Hsucc. unfold droppable in Hd.
    assert (Hgen : forall rg1, (forall r, ~ In r (cdefs o) -> rg1 r = rg r) ->
              In (S p) (succs ops p) -> (forall r, In r (defs o) -> In r (uses o)) ->
              eq_on (S p) rg1 rg').
    { intros rg1 H1 Hs Hdu r Hr.
      destruct (in_dec N.eq_dec r (cdefs o)) as [Hi|Hi].
      - destruct (Hc r Hi) as [HKr Hdead]. destruct Hr as [Hl|Hnk]; [|contradiction].
        exfalso. apply Hdead. exists (S p). split; assumption.
      - rewrite (H1 r Hi). apply He. destruct Hr as [Hl|Hnk]; [|right; exact Hnk]. left.
        destruct (in_dec N.eq_dec r (defs o)) as [Hid|Hid].
        + eapply LG_use; [exact Hn|]. apply Hdu. exact Hid.
        + eapply LG_thru; try eassumption. unfold defs_c. intros Hin. apply in_app_or in Hin. tauto. }
    unfold step. cbn [pc rf mem]. rewrite Hn.
    destruct Hd as [Hd|(opc & args & Hkd & Hnd & Hsk)].
    2:{ rewrite Hkd in *. destruct (Hsk (map rg (uses o)) m) as [vs' Hs']. rewrite Hs'.
        assert (Hne : N.eqb opc OPC_RVRT = false).
        { destruct (N.eqb_spec opc OPC_RVRT) as [->|]; [|reflexivity]. rewrite Hrv in Hs'. discriminate. }
        rewrite Hne in Hsucc.
        eexists. split; [reflexivity|]. cbn [pc rf mem]. split; [reflexivity|].
        split; [rewrite (pos_drop keep p Hk); exact Hpc|].
        split; [destruct (se o); exact Hmem|].
        apply Hgen.
        - intros r Hr. rewrite Hnd. cbn [app]. apply write_list_other. exact Hr.
        - rewrite Hsucc. left. reflexivity.
        - rewrite Hnd. intros r []. }
    destruct (kind o) as [d s| |l|l|l c|l| |r|opc args] eqn:Hkind; try discriminate.
    - apply N.eqb_eq in Hd. subst s. destruct Hw as [Hdefs Hs].
      eexists. split; [reflexivity|]. cbn [pc rf mem]. split; [reflexivity|].
      split; [rewrite (pos_drop keep p Hk); exact Hpc|]. split; [exact Hmem|].
      apply Hgen.
      + intros r Hr. unfold zero_list. rewrite (write_list_other _ _ _ _ Hr).
        unfold upd. destruct (N.eqb_spec r d); [subst; reflexivity | reflexivity].
      + rewrite Hsucc. left. reflexivity.
      + rewrite Hdefs. intros r [<-|[]]. exact Hs.
    - eexists. split; [reflexivity|]. cbn [pc rf mem]. split; [reflexivity|].
      split; [rewrite (pos_drop keep p Hk); exact Hpc|]. split; [exact Hmem|].
      apply Hgen.
      + intros r Hr. unfold zero_list. apply write_list_other. exact Hr.
      + rewrite Hsucc. left. reflexivity.
      + rewrite Hw. intros r [].
  Qed.

  Lemma run_running_S n st st1 : step M sem call_sem ops st = Some st1 ->
    run M sem call_sem ops (S n) st = run M sem call_sem ops n st1.
  Proof. intros H. cbn [run]. rewrite H. reflexivity. Qed.

  (* every state the original program reaches is matched by the reduced program *)
  Theorem erase_fwd : forall n st st', R st st' ->
    exists m, (m <= n)%nat /\ Rres (run M sem call_sem ops n st) (run M sem call_sem ops' m st').
  Proof.
    induction n as [|n IH]; intros st st' HR.
    - exists 0%nat. split; [lia|exact HR].
    - destruct (nth_error keep (pc st)) as [[|]|] eqn:Hk.
      + pose proof (step_kept st st' HR) as Hs. rewrite Hk in Hs. specialize (Hs ltac:(discriminate)).
        cbn [run]. destruct (step M sem call_sem ops st) as [a|] eqn:Ha;
          destruct (step M sem call_sem ops' st') as [b|] eqn:Hb; try contradiction.
        * destruct (IH a b Hs) as (m & Hm & Hr). exists (S m). split; [lia|]. cbn [run]. rewrite Hb. exact Hr.
        * exists 1%nat. split; [lia|]. cbn [run]. rewrite Hb. exact HR.
      + destruct (step_dropped st st' HR Hk) as (st1 & Hs & _ & HR1).
        destruct (IH st1 st' HR1) as (m & Hm & Hr). exists m. split; [lia|].
        rewrite (run_running_S n st st1 Hs). exact Hr.
      + pose proof (step_kept st st' HR) as Hs. rewrite Hk in Hs. specialize (Hs ltac:(discriminate)).
        cbn [run]. destruct (step M sem call_sem ops st) as [a|] eqn:Ha;
          destruct (step M sem call_sem ops' st') as [b|] eqn:Hb; try contradiction.
        * destruct (IH a b Hs) as (m & Hm & Hr). exists (S m). split; [lia|]. cbn [run]. rewrite Hb. exact Hr.
        * exists 1%nat. split; [lia|]. cbn [run]. rewrite Hb. exact HR.
  Qed.

  (* skip the deleted instructions in front of the next kept one *)
  Lemma skip_dropped : forall k st st', (length ops - pc st <= k)%nat -> R st st' ->
    exists j st2, run M sem call_sem ops j st = Running st2 /\ R st2 st' /\
                  nth_error keep (pc st2) <> Some false.
  Proof.
    induction k as [|k IH]; intros st st' Hk HR.
    - exists 0%nat, st. split; [reflexivity|]. split; [exact HR|].
      intros H. assert (pc st < length keep)%nat by (apply nth_error_Some; rewrite H; discriminate). lia.
    - destruct (nth_error keep (pc st)) as [[|]|] eqn:Hkp.
      + exists 0%nat, st. split; [reflexivity|]. split; [exact HR|]. rewrite Hkp. discriminate.
      + destruct (step_dropped st st' HR Hkp) as (st1 & Hs & Hpc & HR1).
        destruct (IH st1 st' ltac:(lia) HR1) as (j & st2 & Hrun & HR2 & Hk2).
        exists (S j), st2. split; [|split; assumption].
        rewrite (run_running_S j st st1 Hs). exact Hrun.
      + exists 0%nat, st. split; [reflexivity|]. split; [exact HR|]. rewrite Hkp. discriminate.
  Qed.

  Lemma run_app : forall j n st st2, run M sem call_sem ops j st = Running st2 ->
    run M sem call_sem ops (j + n) st = run M sem call_sem ops n st2.
  Proof.
    induction j as [|j IH]; intros n st st2 H.
    - cbn in H. injection H as ->. reflexivity.
    - cbn [run] in H. cbn [Nat.add run]. destruct (step M sem call_sem ops st) as [a|]; [|discriminate].
      apply IH. exact H.
  Qed.

  (* every state the reduced program reaches is matched by the original program *)
  Theorem erase_bwd : forall m st st', R st st' ->
    exists n, Rres (run M sem call_sem ops n st) (run M sem call_sem ops' m st').
  Proof.
    induction m as [|m IH]; intros st st' HR.
    - exists 0%nat. exact HR.
    - destruct (skip_dropped (length ops) st st' ltac:(lia) HR) as (j & st2 & Hrun & HR2 & Hk2).
      pose proof (step_kept st2 st' HR2 Hk2) as Hs.
      cbn [run]. destruct (step M sem call_sem ops st2) as [a|] eqn:Ha;
        destruct (step M sem call_sem ops' st') as [b|] eqn:Hb; try contradiction.
      + destruct (IH a b Hs) as (n & Hr). exists (j + S n)%nat.
        rewrite (run_app j (S n) st st2 Hrun). cbn [run]. rewrite Ha. exact Hr.
      + exists (j + 1)%nat.
        rewrite (run_app j 1 st st2 Hrun). cbn [run]. rewrite Ha. exact HR2.
  Qed.
End Erase.
