(* Asm/Model.v — shared abstract machine for the abstract-instruction level of sway-core
   (asm_generation/fuel: register allocation C08, asm optimiser C07).  NO proofs here.

   Anchors: sway-core/src/asm_lang/{mod.rs,virtual_ops.rs}:
     Op::{use_registers, def_registers, def_const_registers, successors},
     VirtualOp::has_side_effect, ControlFlowOp.

   Registers are numbers, in three disjoint classes (the harness interns names):
     r < 100          constant registers ($zero $one $of ... $$locbase $$arg0..5)
     100 <= r < 1000  machine registers $r0.. handed out by the allocator (100 + n)
     1000 <= r        virtual registers.
   An op carries the use/def/def-const lists *as the Rust table reports them*, the
   side-effect flag, and a kind.  The semantics of a [KOther] op is an arbitrary function
   [sem] of the VALUES of its [uses] and of memory; it may trap (None: revert, ret, panic);
   it writes [defs ++ cdefs] and, when [se], memory.  Calls read and write every constant
   register (arguments/return value travel in $$arg*, $$retv) and memory and leave all other
   registers alone (callee-saved by pusha/popa).  Memory is opaque. *)
From SwayV Require Import Base.Util.
Local Open Scope N_scope.

Definition reg := N.
Definition val := N.
Definition label := N.

Definition is_const (r : reg) : bool := N.ltb r 100.
Definition is_mach (r : reg) : bool := andb (N.leb 100 r) (N.ltb r 1000).
Definition is_virt (r : reg) : bool := N.leb 1000 r.

Inductive operand := OReg (r : reg) | OImm (n : N) | OTok (t : N).

Inductive opkind :=
| KMove (d s : reg)
| KNoop
| KLabel (l : label)
| KJump (l : label)
| KJnz (l : label) (c : reg)
| KCall (l : label)
| KRet
| KJmpAddr (r : reg)
| KOther (opc : N) (args : list operand).

Record op := mkOp { uses : list reg; defs : list reg; cdefs : list reg; se : bool; kind : opkind }.

(* Opcode numbers fixed by convention between the harness and the models. *)
Definition OPC_RVRT : N := 1.
Definition OPC_LW : N := 2.
Definition OPC_SW : N := 3.
Definition OPC_CFEI : N := 4.
Definition OPC_CFSI : N := 5.
Definition OPC_MCP : N := 9.
Definition OPC_MCPI : N := 10.
(* organisational ops other than labels and jumps: 11 comment, 12 pusha, 13 popa, 14/15 offset placeholders *)
Definition OPC_COMMENT : N := 11.
Definition is_org_stop (opc : N) : bool := andb (N.leb 12 opc) (N.leb opc 15).

(* Constant register numbers (table order of ConstantRegister). *)
Definition R_ZERO : reg := 0.
Definition R_OF : reg := 2.
Definition R_SP : reg := 5.
Definition R_ERR : reg := 8.
Definition R_LOCBASE : reg := 20.

(* ---- labels, successors (Op::successors) ---- *)

Definition is_label (l : label) (o : op) : bool :=
  match kind o with KLabel l' => N.eqb l' l | _ => false end.

Fixpoint find_index {A} (p : A -> bool) (l : list A) : option nat :=
  match l with
  | [] => None
  | x :: t => if p x then Some 0%nat else option_map S (find_index p t)
  end.

(* Rust builds a HashMap label -> index; labels are unique (checked by [labels_unique]
   wherever it matters), so first occurrence = the map's entry. *)
Definition label_index (ops : list op) (l : label) : option nat := find_index (is_label l) ops.

Definition opt_to_list {A} (o : option A) : list A := match o with Some x => [x] | None => [] end.

Definition succs_of (ops : list op) (i : nat) (o : op) : list nat :=
  match kind o with
  | KJump l => opt_to_list (label_index ops l)
  | KJnz l _ => opt_to_list (label_index ops l) ++ [S i]
  | KRet | KJmpAddr _ => []
  | KOther opc _ => if N.eqb opc OPC_RVRT then [] else [S i]
  | _ => [S i]
  end.

Definition succs (ops : list op) (i : nat) : list nat :=
  match nth_error ops i with Some o => succs_of ops i o | None => [] end.

(* ---- liveness: the least solution of
        live_in(i)  = use(i) U (live_out(i) - kill(i))
        live_out(i) = U_{s in succ(i)} live_in(s)
   as an inductive predicate (analyses.rs: liveness_analysis).  [kill] is def_registers for
   the allocator; dce() appends def_const_registers to it. ---- *)
Inductive live_gen (kill : op -> list reg) (ops : list op) : nat -> reg -> Prop :=
| LG_use : forall i o r, nth_error ops i = Some o -> In r (uses o) -> live_gen kill ops i r
| LG_thru : forall i o j r, nth_error ops i = Some o -> In j (succs ops i) ->
    live_gen kill ops j r -> ~ In r (kill o) -> live_gen kill ops i r.

Definition live_in (ops : list op) : nat -> reg -> Prop := live_gen defs ops.
Definition live_out (ops : list op) (i : nat) (r : reg) : Prop :=
  exists j, In j (succs ops i) /\ live_in ops j r.

Definition defs_c (o : op) : list reg := defs o ++ cdefs o.
Definition live_in_c (ops : list op) : nat -> reg -> Prop := live_gen defs_c ops.
Definition live_out_c (ops : list op) (i : nat) (r : reg) : Prop :=
  exists j, In j (succs ops i) /\ live_in_c ops j r.

(* ---- machine ---- *)

Definition regfile := reg -> val.

Definition upd (rf : regfile) (r : reg) (v : val) : regfile :=
  fun x => if N.eqb x r then v else rf x.

Fixpoint write_list (rs : list reg) (vs : list val) (rf : regfile) : regfile :=
  match rs with
  | [] => rf
  | r :: rs' => write_list rs' (tl vs) (upd rf r (hd 0%N vs))
  end.

(* MOVE/NOOP clear their def-const registers ($of, $err). *)
Definition zero_list (rs : list reg) (rf : regfile) : regfile := write_list rs [] rf.

(* Constant registers 0..99; a call reads all of them except the flags $of/$err (a callee
   starts by overwriting them) and may write all of them. *)
Definition const_regs : list reg := map N.of_nat (seq 0 100).
Definition call_in_regs : list reg :=
  filter (fun r => negb (orb (N.eqb r R_OF) (N.eqb r R_ERR))) const_regs.

Fixpoint imms_of (args : list operand) : list N :=
  match args with
  | [] => []
  | OReg _ :: t => imms_of t
  | OImm n :: t => (2 * n)%N :: imms_of t
  | OTok k :: t => (2 * k + 1)%N :: imms_of t
  end.

Section Machine.
  Variable M : Type.
  (* sem opcode immediates use-values memory = None (trap/stop) | Some (values for defs++cdefs, memory) *)
  Variable sem : N -> list N -> list val -> M -> option (list val * M).
  Variable call_sem : label -> list val -> M -> option (list val * M).

  Record state := mkSt { pc : nat; rf : regfile; mem : M }.

  Definition step (ops : list op) (st : state) : option state :=
    match nth_error ops (pc st) with
    | None => None
    | Some o =>
      match kind o with
      | KMove d s =>
          Some (mkSt (S (pc st)) (zero_list (cdefs o) (upd (rf st) d (rf st s))) (mem st))
      | KNoop => Some (mkSt (S (pc st)) (zero_list (cdefs o) (rf st)) (mem st))
      | KLabel _ => Some (mkSt (S (pc st)) (rf st) (mem st))
      | KJump l =>
          match label_index ops l with
          | Some j => Some (mkSt j (rf st) (mem st))
          | None => None
          end
      | KJnz l c =>
          if N.eqb (rf st c) 0 then Some (mkSt (S (pc st)) (rf st) (mem st))
          else match label_index ops l with
               | Some j => Some (mkSt j (rf st) (mem st))
               | None => None
               end
      | KCall l =>
          match call_sem l (map (rf st) call_in_regs) (mem st) with
          | Some (vs, m') => Some (mkSt (S (pc st)) (write_list const_regs vs (rf st)) m')
          | None => None
          end
      | KRet | KJmpAddr _ => None
      | KOther opc args =>
          match sem opc (imms_of args) (map (rf st) (uses o)) (mem st) with
          | Some (vs, m') =>
              Some (mkSt (S (pc st)) (write_list (defs o ++ cdefs o) vs (rf st))
                         (if se o then m' else mem st))
          | None => None
          end
      end
    end.

  Inductive result := Running (st : state) | Stopped (st : state).

  Fixpoint run (ops : list op) (n : nat) (st : state) : result :=
    match n with
    | O => Running st
    | S n' => match step ops st with
              | Some st' => run ops n' st'
              | None => Stopped st
              end
    end.

  (* RVRT has no successors in the Rust table: the instruction semantics must agree. *)
  Definition rvrt_stops : Prop := forall imms vs m, sem OPC_RVRT imms vs m = None.
  (* Ops without side effect never trap (needed only where a pass deletes such ops). *)
  Definition pure_total (ops : list op) : Prop :=
    forall i o opc args, nth_error ops i = Some o -> kind o = KOther opc args -> se o = false ->
      forall vs m, sem opc (imms_of args) vs m <> None.
End Machine.

Arguments mkSt {M}.
Arguments pc {M}.
Arguments rf {M}.
Arguments mem {M}.
Arguments Running {M}.
Arguments Stopped {M}.

(* ---- renaming (Op::allocate_registers / update_register) ---- *)

Definition rename_operand (f : reg -> reg) (a : operand) : operand :=
  match a with OReg r => OReg (f r) | _ => a end.

Definition rename_kind (f : reg -> reg) (k : opkind) : opkind :=
  match k with
  | KMove d s => KMove (f d) (f s)
  | KJnz l c => KJnz l (f c)
  | KJmpAddr r => KJmpAddr (f r)
  | KOther opc args => KOther opc (map (rename_operand f) args)
  | _ => k
  end.

Definition rename_op (f : reg -> reg) (o : op) : op :=
  mkOp (map f (uses o)) (map f (defs o)) (map f (cdefs o)) (se o) (rename_kind f (kind o)).

Definition rename (f : reg -> reg) (ops : list op) : list op := map (rename_op f) ops.

(* ---- decidable equality on kinds (used by the exact comparisons) ---- *)

Definition operand_eqb (a b : operand) : bool :=
  match a, b with
  | OReg x, OReg y => N.eqb x y
  | OImm x, OImm y => N.eqb x y
  | OTok x, OTok y => N.eqb x y
  | _, _ => false
  end.

Fixpoint list_eqb {A} (e : A -> A -> bool) (l1 l2 : list A) : bool :=
  match l1, l2 with
  | [], [] => true
  | x :: t1, y :: t2 => andb (e x y) (list_eqb e t1 t2)
  | _, _ => false
  end.

Definition kind_eqb (a b : opkind) : bool :=
  match a, b with
  | KMove d s, KMove d' s' => andb (N.eqb d d') (N.eqb s s')
  | KNoop, KNoop => true
  | KLabel l, KLabel l' => N.eqb l l'
  | KJump l, KJump l' => N.eqb l l'
  | KJnz l c, KJnz l' c' => andb (N.eqb l l') (N.eqb c c')
  | KCall l, KCall l' => N.eqb l l'
  | KRet, KRet => true
  | KJmpAddr r, KJmpAddr r' => N.eqb r r'
  | KOther o x, KOther o' x' => andb (N.eqb o o') (list_eqb operand_eqb x x')
  | _, _ => false
  end.

Definition op_eqb (a b : op) : bool :=
  andb (list_eqb N.eqb (uses a) (uses b))
  (andb (list_eqb N.eqb (defs a) (defs b))
  (andb (list_eqb N.eqb (cdefs a) (cdefs b))
  (andb (Bool.eqb (se a) (se b)) (kind_eqb (kind a) (kind b))))).

(* the flag registers MOVE/NOOP/ALU ops clear *)
Definition flagK (r : reg) : Prop := r = R_OF \/ r = R_ERR.

(* ---- deleting instructions (used by Asm/Erase.v) ---- *)
Fixpoint select {A} (keep : list bool) (l : list A) : list A :=
  match keep, l with
  | k :: ks, x :: t => if k then x :: select ks t else select ks t
  | _, _ => []
  end.

(* position in the filtered list of (the next kept instruction at or after) i *)
Fixpoint pos (keep : list bool) (i : nat) : nat :=
  match i, keep with
  | S i', k :: ks => ((if k then 1 else 0) + pos ks i')%nat
  | _, _ => 0%nat
  end.

Definition is_self_move (o : op) : bool :=
  match kind o with KMove d s => N.eqb d s | _ => false end.
Definition droppable (o : op) : bool :=
  match kind o with KMove d s => N.eqb d s | KNoop => true | _ => false end.

(* use/def lists fit the kinds, for liveness with defs ++ cdefs as kill set *)
Definition wf_c_op (o : op) : Prop :=
  match kind o with
  | KMove d s => defs o = [d] /\ In s (uses o)
  | KNoop => defs o = []
  | KOther _ _ => True
  | KJnz _ c => defs o = [] /\ cdefs o = [] /\ In c (uses o)
  | _ => defs o = [] /\ cdefs o = []
  end.
Definition wf_c (ops : list op) : Prop := forall i o, nth_error ops i = Some o -> wf_c_op o.

