(* Frag.Mono — more fuel never changes a result other than OutOfFuel. *)
From Coq Require Import NArith List Bool Arith Lia.
From SwayV Require Import Frag.Syntax Frag.Sem.
Import ListNotations.

Lemma bind_mono {A B} (r r' : eres A) (k k' : A -> logs -> eres B) :
  (r <> RFuel -> r' = r) ->
  (forall a l, k a l <> RFuel -> k' a l = k a l) ->
  bind r k <> RFuel -> bind r' k' = bind r k.
Proof.
  intros Hr Hk H. destruct r; cbn in H |- *; try (rewrite Hr by discriminate; cbn; auto; fail).
  congruence.
Qed.

Lemma eval_list_mono (ev ev' : logs -> expr -> eres value) :
  (forall l e, ev l e <> RFuel -> ev' l e = ev l e) ->
  forall es l, eval_list ev l es <> RFuel -> eval_list ev' l es = eval_list ev l es.
Proof.
  intros Hev. induction es as [|e es IH]; intros l H; cbn in *; [reflexivity|].
  apply bind_mono; [apply Hev| |exact H].
  intros v l1 H1. apply bind_mono; [apply IH| |exact H1]. reflexivity.
Qed.

Lemma call_result_mono r r' :
  (r <> RFuel -> r' = r) -> call_result r <> RFuel -> call_result r' = call_result r.
Proof. intros Hr H. rewrite Hr; [reflexivity|]. intros ->. apply H. reflexivity. Qed.

Section Mono.
  Variable fns : list fndef.

  Definition expr_mono (n : nat) : Prop := forall env l e,
    eval_expr fns n env l e <> RFuel -> eval_expr fns (S n) env l e = eval_expr fns n env l e.
  Definition stmt_mono (n : nat) : Prop := forall env l s,
    eval_stmt fns n env l s <> RFuel -> eval_stmt fns (S n) env l s = eval_stmt fns n env l s.

  (* one level of the evaluator, as equations (the bodies are those of Sem.v) *)
  Lemma eval_expr_S n env l e :
    eval_expr fns (S n) env l e =
    match e with
    | EInt _ k => ROk (VInt k) l
    | EBool b => ROk (VBool b) l
    | EB256 k => ROk (VInt k) l
    | EVar i => match nth_error env i with Some v => ROk v l | None => RStk end
    | EBin op w a b =>
        bind (eval_expr fns n env l a) (fun va l1 =>
        bind (eval_expr fns n env l1 b) (fun vb l2 => binop_apply op w va vb l2))
    | ENot w a =>
        bind (eval_expr fns n env l a) (fun va l1 =>
          match va with
          | VInt x => ROk (VInt (arith_not w x)) l1
          | VBool x => ROk (VBool (negb x)) l1
          | _ => RStk
          end)
    | EAnd a b =>
        bind (eval_expr fns n env l a) (fun va l1 =>
          match va with
          | VBool true => eval_expr fns n env l1 b
          | VBool false => ROk (VBool false) l1
          | _ => RStk
          end)
    | EOr a b =>
        bind (eval_expr fns n env l a) (fun va l1 =>
          match va with
          | VBool true => ROk (VBool true) l1
          | VBool false => eval_expr fns n env l1 b
          | _ => RStk
          end)
    | EIf c a b =>
        bind (eval_expr fns n env l c) (fun vc l1 =>
          match vc with
          | VBool true => eval_expr fns n env l1 a
          | VBool false => eval_expr fns n env l1 b
          | _ => RStk
          end)
    | ETup es => bind (eval_list (eval_expr fns n env) l es) (fun vs l1 => ROk (VTup vs) l1)
    | EProj a i =>
        bind (eval_expr fns n env l a) (fun va l1 =>
          match va with
          | VTup vs => match nth_error vs i with Some v => ROk v l1 | None => RStk end
          | _ => RStk
          end)
    | EArr _ es => bind (eval_list (eval_expr fns n env) l es) (fun vs l1 => ROk (VTup vs) l1)
    | EIdx a i =>
        bind (eval_expr fns n env l a) (fun va l1 =>
        bind (eval_expr fns n env l1 i) (fun vi l2 =>
          match va, vi with
          | VTup vs, VInt k =>
              match index_of k (length vs) with
              | Some j => match nth_error vs j with Some v => ROk v l2 | None => RStk end
              | None => RRev COob l2
              end
          | _, _ => RStk
          end))
    | EEnum _ tag a => bind (eval_expr fns n env l a) (fun va l1 => ROk (VEnum tag va) l1)
    | ECall f es =>
        match nth_error fns f with
        | None => RStk
        | Some fd =>
            bind (eval_list (eval_expr fns n env) l es) (fun vs l1 =>
              call_result (eval_stmt fns n vs l1 (fn_body fd)))
        end
    end.
  Proof. destruct e; reflexivity. Qed.

  Lemma eval_stmt_S n env l s :
    eval_stmt fns (S n) env l s =
    match s with
    | SSkip => ROk (SNorm env) l
    | SSeq a b =>
        bind (eval_stmt fns n env l a) (fun sg l1 =>
          match sg with
          | SNorm env1 => eval_stmt fns n env1 l1 b
          | _ => ROk sg l1
          end)
    | SLet e body =>
        bind (eval_expr fns n env l e) (fun v l1 =>
        bind (eval_stmt fns n (v :: env) l1 body) (fun sg l2 => ROk (map_sig (@tl value) sg) l2))
    | SAssign x path e =>
        bind (eval_expr fns n env l e) (fun v l1 =>
          match nth_error env x with
          | Some old =>
              match assign_path env old path v with
              | UOk new => ROk (SNorm (set_nth env x new)) l1
              | UOob => RRev COob l1
              | UStuck => RStk
              end
          | None => RStk
          end)
    | SIf c a b =>
        bind (eval_expr fns n env l c) (fun vc l1 =>
          match vc with
          | VBool true => eval_stmt fns n env l1 a
          | VBool false => eval_stmt fns n env l1 b
          | _ => RStk
          end)
    | SWhile c body =>
        bind (eval_expr fns n env l c) (fun vc l1 =>
          match vc with
          | VBool false => ROk (SNorm env) l1
          | VBool true =>
              bind (eval_stmt fns n env l1 body) (fun sg l2 =>
                match sg with
                | SNorm env1 | SCont env1 => eval_stmt fns n env1 l2 (SWhile c body)
                | SBrk env1 => ROk (SNorm env1) l2
                | SRet v => ROk (SRet v) l2
                end)
          | _ => RStk
          end)
    | SBreak => ROk (SBrk env) l
    | SContinue => ROk (SCont env) l
    | SReturn e => bind (eval_expr fns n env l e) (fun v l1 => ROk (SRet v) l1)
    | SAssert e =>
        bind (eval_expr fns n env l e) (fun v l1 =>
          match v with
          | VBool true => ROk (SNorm env) l1
          | VBool false => RRev CAssert l1
          | _ => RStk
          end)
    | SRequire c t v =>
        bind (eval_expr fns n env l c) (fun vc l1 =>
        bind (eval_expr fns n env l1 v) (fun vv l2 =>
          match vc with
          | VBool true => ROk (SNorm env) l2
          | VBool false => RRev CRequire ((t, vv) :: l2)
          | _ => RStk
          end))
    | SRevert e =>
        bind (eval_expr fns n env l e) (fun v l1 =>
          match v with
          | VInt k => RRev (CUser k) l1
          | _ => RStk
          end)
    | SLog t e => bind (eval_expr fns n env l e) (fun v l1 => ROk (SNorm env) ((t, v) :: l1))
    | SMatch e arms =>
        bind (eval_expr fns n env l e) (fun v l1 =>
          match find_arm arms v with
          | None => RStk
          | Some (bs, body) =>
              bind (eval_stmt fns n (bs ++ env) l1 body) (fun sg l2 =>
                ROk (map_sig (@skipn value (length bs)) sg) l2)
          end)
    | SExpr e => bind (eval_expr fns n env l e) (fun _ l1 => ROk (SNorm env) l1)
    end.
  Proof. destruct s; reflexivity. Qed.

  Ltac mono IHe IHs :=
    intros;
    first
      [ reflexivity
      | match goal with H : _ <> RFuel |- _ => apply IHe; exact H end
      | match goal with H : _ <> RFuel |- _ => apply IHs; exact H end
      | match goal with
        | H : _ <> RFuel |- _ =>
            apply bind_mono; [ mono IHe IHs | mono IHe IHs | exact H ]
        end
      | match goal with
        | H : _ <> RFuel |- _ =>
            apply eval_list_mono; [ mono IHe IHs | exact H ]
        end
      | match goal with
        | H : _ <> RFuel |- _ =>
            apply call_result_mono; [ mono IHe IHs | exact H ]
        end
      | match goal with
        | |- _ = match ?v with _ => _ end => is_var v; destruct v; mono IHe IHs
        end
      | match goal with
        | |- _ = match ?v with _ => _ end => destruct v; mono IHe IHs
        end ].

  Lemma mono_step : forall n, expr_mono n /\ stmt_mono n.
  Proof.
    induction n as [|n [IHe IHs]].
    - split; intros env l x H; exfalso; apply H; reflexivity.
    - split.
      + intros env l e H. rewrite (eval_expr_S (S n)). rewrite eval_expr_S in H |- *.
        destruct e; mono IHe IHs.
      + intros env l s H. rewrite (eval_stmt_S (S n)). rewrite eval_stmt_S in H |- *.
        destruct s; mono IHe IHs.
  Qed.

  Lemma expr_mono_le n m env l e : n <= m ->
    eval_expr fns n env l e <> RFuel -> eval_expr fns m env l e = eval_expr fns n env l e.
  Proof.
    induction 1 as [|m Hle IH]; intros H; [reflexivity|].
    rewrite <- (IH H). apply (proj1 (mono_step m)). rewrite (IH H). exact H.
  Qed.

  Lemma stmt_mono_le n m env l s : n <= m ->
    eval_stmt fns n env l s <> RFuel -> eval_stmt fns m env l s = eval_stmt fns n env l s.
  Proof.
    induction 1 as [|m Hle IH]; intros H; [reflexivity|].
    rewrite <- (IH H). apply (proj2 (mono_step m)). rewrite (IH H). exact H.
  Qed.
End Mono.

Theorem fuel_mono : forall n m p, n <= m -> eval n p <> OutOfFuel -> eval m p = eval n p.
Proof.
  intros n m p Hle H. unfold eval in *.
  rewrite (stmt_mono_le (p_fns p) n m); [reflexivity|exact Hle|].
  intros E. rewrite E in H. apply H. reflexivity.
Qed.
