(* Frag.Bits — bounds of the bitwise operations, taken from Vm.AluProofs (stated over plain N so
   that Frag does not import the VM name space). *)
From Coq Require Import NArith.
From SwayV Require Import Vm.Alu Vm.AluProofs.
Local Open Scope N_scope.

Lemma land_lt_pow2 n a b : a < 2 ^ n -> b < 2 ^ n -> N.land a b < 2 ^ n.
Proof.
  intros Ha Hb.
  exact (wide_op_bounded n default_flags MAND a b _ Ha Hb (wide_and_ok n default_flags a b)).
Qed.
Lemma lor_lt_pow2 n a b : a < 2 ^ n -> b < 2 ^ n -> N.lor a b < 2 ^ n.
Proof.
  intros Ha Hb.
  exact (wide_op_bounded n default_flags MOR a b _ Ha Hb (wide_or_ok n default_flags a b)).
Qed.
Lemma lxor_lt_pow2 n a b : a < 2 ^ n -> b < 2 ^ n -> N.lxor a b < 2 ^ n.
Proof.
  intros Ha Hb.
  exact (wide_op_bounded n default_flags MXOR a b _ Ha Hb (wide_xor_ok n default_flags a b)).
Qed.
Lemma pow2_pos' n : 0 < 2 ^ n.
Proof. apply pow2_pos. Qed.
