(* Frag.Lemmas — list / type-equality / value-typing lemmas used by the soundness proof. *)
From Coq Require Import NArith List Bool Arith Lia.
From SwayV Require Import Frag.Bits Frag.Syntax Frag.Sem Frag.Typing.
Import ListNotations.
Local Open Scope N_scope.

(* ---- forall2b ------------------------------------------------------------------------------ *)
Lemma forall2b_length {A B} (f : A -> B -> bool) l1 : forall l2,
  forall2b f l1 l2 = true -> length l1 = length l2.
Proof.
  induction l1 as [|x l1 IH]; intros [|y l2] H; cbn in *; try discriminate; auto.
  apply andb_true_iff in H as [_ H]. f_equal. auto.
Qed.

Lemma forall2b_nth_l {A B} (f : A -> B -> bool) l1 : forall l2 i x,
  forall2b f l1 l2 = true -> nth_error l1 i = Some x ->
  exists y, nth_error l2 i = Some y /\ f x y = true.
Proof.
  induction l1 as [|a l1 IH]; intros [|b l2] i x H Hn; cbn in H; try discriminate.
  - destruct i; discriminate.
  - apply andb_true_iff in H as [H1 H2]. destruct i; cbn in *.
    + inversion Hn; subst. eauto.
    + eauto.
Qed.

Lemma forall2b_nth_r {A B} (f : A -> B -> bool) l1 : forall l2 i y,
  forall2b f l1 l2 = true -> nth_error l2 i = Some y ->
  exists x, nth_error l1 i = Some x /\ f x y = true.
Proof.
  induction l1 as [|a l1 IH]; intros [|b l2] i y H Hn; cbn in H; try discriminate.
  - destruct i; discriminate.
  - apply andb_true_iff in H as [H1 H2]. destruct i; cbn in *.
    + inversion Hn; subst. eauto.
    + eauto.
Qed.

Lemma forall2b_set_nth {A B} (f : A -> B -> bool) l1 : forall l2 i x y,
  forall2b f l1 l2 = true -> nth_error l2 i = Some y -> f x y = true ->
  forall2b f (set_nth l1 i x) l2 = true.
Proof.
  induction l1 as [|a l1 IH]; intros [|b l2] i x y H Hn Hf; cbn in H; try discriminate.
  - reflexivity.
  - apply andb_true_iff in H as [H1 H2]. destruct i; cbn in *.
    + inversion Hn; subst. rewrite Hf, H2. reflexivity.
    + rewrite H1. cbn. eauto.
Qed.

Lemma forall2b_app {A B} (f : A -> B -> bool) l1 : forall l2 m1 m2,
  forall2b f l1 l2 = true -> forall2b f m1 m2 = true -> forall2b f (l1 ++ m1) (l2 ++ m2) = true.
Proof.
  induction l1 as [|a l1 IH]; intros [|b l2] m1 m2 H Hm; cbn in H; try discriminate; cbn; auto.
  apply andb_true_iff in H as [H1 H2]. rewrite H1. cbn. auto.
Qed.

Lemma forall2b_skipn_app {A B} (f : A -> B -> bool) l1 : forall l2 m1 m2,
  length l1 = length l2 -> forall2b f (l1 ++ m1) (l2 ++ m2) = true ->
  forall2b f m1 m2 = true.
Proof.
  induction l1 as [|a l1 IH]; intros [|b l2] m1 m2 Hl H; cbn in Hl; try discriminate; cbn in H; auto.
  apply andb_true_iff in H as [_ H]. eauto.
Qed.

Lemma forall2b_tl {A B} (f : A -> B -> bool) x l1 y l2 :
  forall2b f (x :: l1) (y :: l2) = true -> forall2b f l1 l2 = true.
Proof. cbn. intros H. apply andb_true_iff in H as [_ H]. exact H. Qed.

Lemma set_nth_length {A} (l : list A) : forall i x, length (set_nth l i x) = length l.
Proof. induction l as [|a l IH]; intros [|i] x; cbn; auto. Qed.

Lemma skipn_app_exact {A} (l1 l2 : list A) : skipn (length l1) (l1 ++ l2) = l2.
Proof. induction l1; cbn; auto. Qed.

(* ---- type equality --------------------------------------------------------------------------- *)
Lemma width_eqb_eq a b : width_eqb a b = true -> a = b.
Proof. destruct a, b; cbn; congruence. Qed.

Lemma width_eqb_refl a : width_eqb a a = true.
Proof. destruct a; reflexivity. Qed.

Lemma ty_eqb_eq : forall a b, ty_eqb a b = true -> a = b.
Proof.
  induction a as [w| | |ts IH|t n IH|ts IH] using ty_ind'; intros b H; destruct b; cbn in H; try discriminate.
  - apply width_eqb_eq in H. congruence.
  - reflexivity.
  - reflexivity.
  - f_equal. revert ts0 H. induction IH as [|x l Hx _ IHl]; intros [|y l'] H; cbn in H; try discriminate; auto.
    apply andb_true_iff in H as [H1 H2]. f_equal; auto.
  - apply andb_true_iff in H as [H1 H2]. apply Nat.eqb_eq in H2. f_equal; auto.
  - f_equal. revert ts0 H. induction IH as [|x l Hx _ IHl]; intros [|y l'] H; cbn in H; try discriminate; auto.
    apply andb_true_iff in H as [H1 H2]. f_equal; auto.
Qed.

Lemma tys_eqb_eq : forall l l', tys_eqb l l' = true -> l = l'.
Proof.
  unfold tys_eqb. induction l as [|x l IH]; intros [|y l'] H; cbn in H; try discriminate; auto.
  apply andb_true_iff in H as [H1 H2]. f_equal; auto using ty_eqb_eq.
Qed.

(* ---- value typing: equations and inversions ---------------------------------------------------- *)
Lemma vty_tup vs ts : vty (VTup vs) (TTup ts) = forall2b vty vs ts.
Proof. reflexivity. Qed.

Lemma vty_arr vs t n : vty (VTup vs) (TArr t n) = Nat.eqb (length vs) n && forallb (fun x => vty x t) vs.
Proof. reflexivity. Qed.

Lemma vty_bool_inv v : vty v TBool = true -> exists b, v = VBool b.
Proof. destruct v; cbn; try discriminate. eauto. Qed.

Lemma vty_int_inv v w : vty v (TInt w) = true -> exists n, v = VInt n /\ n < wmod w.
Proof. destruct v; cbn; try discriminate. intros H. apply N.ltb_lt in H. eauto. Qed.

Lemma vty_b256_inv v : vty v TB256 = true -> exists n, v = VInt n /\ n < wmod W256.
Proof. destruct v; cbn; try discriminate. intros H. apply N.ltb_lt in H. eauto. Qed.

Lemma vty_tup_inv v ts : vty v (TTup ts) = true -> exists vs, v = VTup vs /\ forall2b vty vs ts = true.
Proof. destruct v; cbn; try discriminate. eauto. Qed.

Lemma vty_arr_inv v t n : vty v (TArr t n) = true ->
  exists vs, v = VTup vs /\ length vs = n /\ forallb (fun x => vty x t) vs = true.
Proof.
  destruct v; cbn; try discriminate. intros H0. apply andb_true_iff in H0 as [H1 H2].
  apply Nat.eqb_eq in H1. eauto.
Qed.

Lemma vty_enum_inv v ts : vty v (TEnum ts) = true ->
  exists k pv t, v = VEnum k pv /\ nth_error ts k = Some t /\ vty pv t = true.
Proof.
  destruct v; cbn; try discriminate. destruct (nth_error ts tag) eqn:E; try discriminate. eauto 7.
Qed.

Lemma forallb_nth {A} (f : A -> bool) l i x : forallb f l = true -> nth_error l i = Some x -> f x = true.
Proof. intros H Hn. rewrite forallb_forall in H. apply H. eapply nth_error_In; eauto. Qed.

Lemma forallb_set_nth {A} (f : A -> bool) l : forall i x,
  forallb f l = true -> f x = true -> forallb f (set_nth l i x) = true.
Proof.
  induction l as [|a l IH]; intros [|i] x H Hx; cbn in *; auto.
  - apply andb_true_iff in H as [_ H]. rewrite Hx, H. reflexivity.
  - apply andb_true_iff in H as [H1 H2]. rewrite H1. cbn. auto.
Qed.

Lemma index_of_lt k len j : index_of k len = Some j -> (j < len)%nat.
Proof.
  unfold index_of. destruct (N.ltb_spec k (N.of_nat len)) as [Hk|Hk]; intros Hj; inversion Hj; subst. lia.
Qed.

Lemma nth_error_lt_some {A} (l : list A) i : (i < length l)%nat -> exists x, nth_error l i = Some x.
Proof.
  intros H. destruct (nth_error l i) eqn:E; eauto. apply nth_error_None in E. lia.
Qed.

(* ---- arithmetic keeps values in range ------------------------------------------------------- *)
Lemma wmod_pos w : 0 < wmod w.
Proof. unfold wmod. apply pow2_pos'. Qed.

Lemma land_bounded w a b : a < wmod w -> b < wmod w -> N.land a b < wmod w.
Proof. apply land_lt_pow2. Qed.
Lemma lor_bounded w a b : a < wmod w -> b < wmod w -> N.lor a b < wmod w.
Proof. apply lor_lt_pow2. Qed.
Lemma lxor_bounded w a b : a < wmod w -> b < wmod w -> N.lxor a b < wmod w.
Proof. apply lxor_lt_pow2. Qed.

Definition rhs_width (op : binop) (w : width) : width :=
  match op with Shl | Shr => W64 | _ => w end.

Lemma arith_in_range op w a b r :
  a < wmod w -> b < wmod (rhs_width op w) -> arith op w a b = AVal r ->
  r < (if is_cmp op then 2 else wmod w).
Proof.
  intros Ha Hb H. pose proof (wmod_pos w) as Hp.
  destruct op; cbn [arith is_cmp rhs_width] in *.
  - destruct (N.ltb_spec (a + b) (wmod w)); inversion H; subst; lia.
  - destruct (N.leb_spec b a); inversion H; subst; lia.
  - destruct (N.ltb_spec (a * b) (wmod w)); inversion H; subst; lia.
  - destruct (N.eqb_spec b 0); inversion H; subst.
    apply N.le_lt_trans with a; [|exact Ha]. apply N.div_le_upper_bound; [assumption|]. nia.
  - destruct (N.eqb_spec b 0); inversion H; subst.
    apply N.lt_trans with b; [|exact Hb]. apply N.mod_lt. assumption.
  - inversion H; subst. apply land_bounded; assumption.
  - inversion H; subst. apply lor_bounded; assumption.
  - inversion H; subst. apply lxor_bounded; assumption.
  - inversion H; subst. destruct (b <? bits w); [|exact Hp]. apply N.mod_lt. lia.
  - inversion H; subst. destruct (b <? bits w); [|exact Hp].
    apply N.le_lt_trans with a; [|exact Ha]. apply N.div_le_upper_bound.
    + apply N.pow_nonzero. discriminate.
    + pose proof (pow2_pos' b). nia.
  - inversion H; subst. destruct (a =? b); cbn; lia.
  - inversion H; subst. destruct (a =? b); cbn; lia.
  - inversion H; subst. destruct (a <? b); cbn; lia.
  - inversion H; subst. destruct (b <? a); cbn; lia.
  - inversion H; subst. destruct (a <=? b); cbn; lia.
  - inversion H; subst. destruct (b <=? a); cbn; lia.
Qed.

Lemma arith_not_in_range w a : a < wmod w -> arith_not w a < wmod w.
Proof. intros H. unfold arith_not. lia. Qed.
