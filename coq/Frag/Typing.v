(* Frag.Typing — value typing and the (decidable) typing judgement as a checker.  NO proofs here
   except the induction principle for [ty]. *)
From Coq Require Import NArith List Bool Arith.
From SwayV Require Import Frag.Syntax Frag.Sem.
Import ListNotations.
Local Open Scope N_scope.

Definition forall2b {A B} (f : A -> B -> bool) : list A -> list B -> bool :=
  fix go (l1 : list A) (l2 : list B) : bool :=
    match l1, l2 with
    | [], [] => true
    | x :: l1', y :: l2' => f x y && go l1' l2'
    | _, _ => false
    end.

Definition mapM {A B} (f : A -> option B) : list A -> option (list B) :=
  fix go (l : list A) : option (list B) :=
    match l with
    | [] => Some []
    | x :: l' => match f x, go l' with
                 | Some y, Some ys => Some (y :: ys)
                 | _, _ => None
                 end
    end.

Definition width_eqb (a b : width) : bool :=
  match a, b with
  | W8, W8 | W16, W16 | W32, W32 | W64, W64 | W256, W256 => true
  | _, _ => false
  end.

Fixpoint ty_eqb (a b : ty) {struct a} : bool :=
  match a, b with
  | TInt w, TInt w' => width_eqb w w'
  | TBool, TBool => true
  | TB256, TB256 => true
  | TTup l, TTup l' => forall2b (fun x y => ty_eqb x y) l l'
  | TArr t n, TArr t' n' => ty_eqb t t' && Nat.eqb n n'
  | TEnum l, TEnum l' => forall2b (fun x y => ty_eqb x y) l l'
  | _, _ => false
  end.

Definition tys_eqb (l l' : list ty) : bool := forall2b ty_eqb l l'.

(* induction principle with Forall on the nested lists *)
Section TyInd.
  Variable P : ty -> Prop.
  Hypothesis HInt : forall w, P (TInt w).
  Hypothesis HBool : P TBool.
  Hypothesis HB256 : P TB256.
  Hypothesis HTup : forall ts, Forall P ts -> P (TTup ts).
  Hypothesis HArr : forall t n, P t -> P (TArr t n).
  Hypothesis HEnum : forall ts, Forall P ts -> P (TEnum ts).
  Fixpoint ty_ind' (t : ty) : P t :=
    match t with
    | TInt w => HInt w
    | TBool => HBool
    | TB256 => HB256
    | TTup ts => HTup ts ((fix go (l : list ty) : Forall P l :=
                             match l with
                             | [] => Forall_nil P
                             | x :: l' => Forall_cons x (ty_ind' x) (go l')
                             end) ts)
    | TArr t n => HArr t n (ty_ind' t)
    | TEnum ts => HEnum ts ((fix go (l : list ty) : Forall P l :=
                               match l with
                               | [] => Forall_nil P
                               | x :: l' => Forall_cons x (ty_ind' x) (go l')
                               end) ts)
    end.
End TyInd.

(* ---- values ---------------------------------------------------------------------------- *)
Fixpoint vty (v : value) (t : ty) {struct v} : bool :=
  match v, t with
  | VInt n, TInt w => n <? wmod w
  | VInt n, TB256 => n <? wmod W256
  | VBool _, TBool => true
  | VTup vs, TTup ts => forall2b (fun x y => vty x y) vs ts
  | VTup vs, TArr t n => Nat.eqb (length vs) n && forallb (fun x => vty x t) vs
  | VEnum k pv, TEnum ts => match nth_error ts k with Some t => vty pv t | None => false end
  | _, _ => false
  end.

Definition env_ok (env : list value) (G : list ty) : bool := forall2b vty env G.

(* ---- expressions ------------------------------------------------------------------------- *)
Definition fsig := (list ty * ty)%type.

Definition tc_binop (op : binop) (w : width) (ta tb : ty) : option ty :=
  match ta with
  | TInt w' =>
      if width_eqb w w' then
        match op with
        | Shl | Shr => if ty_eqb tb (TInt W64) then Some ta else None
        | _ => if ty_eqb tb ta then Some (if is_cmp op then TBool else ta) else None
        end
      else None
  | TB256 =>
      if width_eqb w W256 && ty_eqb tb TB256 then
        match op with
        | BAnd | BOr | BXor => Some TB256
        | Eq | Ne | Lt | Gt | Le | Ge => Some TBool
        | _ => None
        end
      else None
  | TBool =>
      match op, tb with
      | Eq, TBool | Ne, TBool => Some TBool
      | _, _ => None
      end
  | _ => None
  end.

Section TC.
  Variable F : list fsig.

  Fixpoint tc_expr (G : list ty) (e : expr) {struct e} : option ty :=
    match e with
    | EInt w k => if k <? wmod w then Some (TInt w) else None
    | EBool _ => Some TBool
    | EB256 k => if k <? wmod W256 then Some TB256 else None
    | EVar i => nth_error G i
    | EBin op w a b =>
        match tc_expr G a, tc_expr G b with
        | Some ta, Some tb => tc_binop op w ta tb
        | _, _ => None
        end
    | ENot w a =>
        match tc_expr G a with
        | Some (TInt w') => if width_eqb w w' then Some (TInt w') else None
        | Some TB256 => if width_eqb w W256 then Some TB256 else None
        | Some TBool => Some TBool
        | _ => None
        end
    | EAnd a b | EOr a b =>
        match tc_expr G a, tc_expr G b with
        | Some TBool, Some TBool => Some TBool
        | _, _ => None
        end
    | EIf c a b =>
        match tc_expr G c, tc_expr G a, tc_expr G b with
        | Some TBool, Some ta, Some tb => if ty_eqb ta tb then Some ta else None
        | _, _, _ => None
        end
    | ETup es => option_map TTup (mapM (tc_expr G) es)
    | EProj a i =>
        match tc_expr G a with
        | Some (TTup ts) => nth_error ts i
        | _ => None
        end
    | EArr t es =>
        match mapM (tc_expr G) es with
        | Some ts => if forallb (ty_eqb t) ts then Some (TArr t (length es)) else None
        | None => None
        end
    | EIdx a i =>
        match tc_expr G a, tc_expr G i with
        | Some (TArr t _), Some (TInt W64) => Some t
        | _, _ => None
        end
    | EEnum ts tag a =>
        match tc_expr G a, nth_error ts tag with
        | Some ta, Some t => if ty_eqb ta t then Some (TEnum ts) else None
        | _, _ => None
        end
    | ECall f es =>
        match nth_error F f, mapM (tc_expr G) es with
        | Some (ps, r), Some ts => if tys_eqb ts ps then Some r else None
        | _, _ => None
        end
    end.

  (* ---- patterns: the types of the binders, pushed like [smatch] pushes the values ---------- *)
  Definition tc_spat (q : spat) (t : ty) (acc : list ty) : option (list ty) :=
    match q with
    | QWild => Some acc
    | QVar => Some (t :: acc)
    | QInt k => match t with TInt w => if k <? wmod w then Some acc else None | _ => None end
    | QBool _ => match t with TBool => Some acc | _ => None end
    end.

  Fixpoint tc_spats (qs : list spat) (ts : list ty) (acc : list ty) : option (list ty) :=
    match qs, ts with
    | [], [] => Some acc
    | q :: qs', t :: ts' =>
        match tc_spat q t acc with
        | Some acc' => tc_spats qs' ts' acc'
        | None => None
        end
    | _, _ => None
    end.

  Definition tc_pat (p : pat) (t : ty) : option (list ty) :=
    match p with
    | PS q => tc_spat q t []
    | PTup qs => match t with TTup ts => tc_spats qs ts [] | _ => None end
    | PEnum tag q => match t with
                     | TEnum ts => match nth_error ts tag with
                                   | Some pt => tc_spat q pt []
                                   | None => None
                                   end
                     | _ => None
                     end
    end.

  Definition sirrefutable (q : spat) : bool :=
    match q with QWild | QVar => true | _ => false end.
  Definition irrefutable (p : pat) : bool :=
    match p with
    | PS q => sirrefutable q
    | PTup qs => forallb sirrefutable qs
    | PEnum _ _ => false
    end.
  (* variant k is covered by an arm `E::Vk(x)` / `E::Vk(_)` *)
  Definition covers (k : nat) (p : pat) : bool :=
    match p with PEnum tag q => Nat.eqb tag k && sirrefutable q | _ => false end.
  Definition covers_bool (b : bool) (p : pat) : bool :=
    match p with PS (QBool c) => Bool.eqb b c | _ => false end.
  (* sufficient conditions for exhaustiveness (what the generator emits): a catch-all arm, or
     every enum variant covered by an arm with an irrefutable payload pattern, or both booleans *)
  Definition exhaustive (t : ty) (ps : list pat) : bool :=
    existsb irrefutable ps
    || match t with
       | TEnum ts => forallb (fun k => existsb (covers k) ps) (seq 0 (length ts))
       | TBool => existsb (covers_bool true) ps && existsb (covers_bool false) ps
       | _ => false
       end.

  (* ---- lvalue paths -------------------------------------------------------------------- *)
  Fixpoint tc_path (G : list ty) (t : ty) (path : list acc) : option ty :=
    match path with
    | [] => Some t
    | AField i :: p' =>
        match t with
        | TTup ts => match nth_error ts i with Some ti => tc_path G ti p' | None => None end
        | _ => None
        end
    | AIdxLit _ :: p' =>
        match t with TArr te _ => tc_path G te p' | _ => None end
    | AIdxVar x :: p' =>
        match t, nth_error G x with
        | TArr te _, Some (TInt W64) => tc_path G te p'
        | _, _ => None
        end
    end.

  (* ---- statements ------------------------------------------------------------------------ *)
  Fixpoint tc_stmt (G : list ty) (inloop : bool) (ret : ty) (s : stmt) {struct s} : bool :=
    match s with
    | SSkip => true
    | SSeq a b => tc_stmt G inloop ret a && tc_stmt G inloop ret b
    | SLet e body =>
        match tc_expr G e with
        | Some t => tc_stmt (t :: G) inloop ret body
        | None => false
        end
    | SAssign x path e =>
        match nth_error G x, tc_expr G e with
        | Some tx, Some te =>
            match tc_path G tx path with
            | Some tp => ty_eqb te tp
            | None => false
            end
        | _, _ => false
        end
    | SIf c a b =>
        match tc_expr G c with
        | Some TBool => tc_stmt G inloop ret a && tc_stmt G inloop ret b
        | _ => false
        end
    | SWhile c body =>
        match tc_expr G c with
        | Some TBool => tc_stmt G true ret body
        | _ => false
        end
    | SBreak | SContinue => inloop
    | SReturn e =>
        match tc_expr G e with
        | Some t => ty_eqb t ret
        | None => false
        end
    | SAssert e =>
        match tc_expr G e with Some TBool => true | _ => false end
    | SRequire c t v =>
        match tc_expr G c, tc_expr G v with
        | Some TBool, Some tv => ty_eqb tv t
        | _, _ => false
        end
    | SRevert e =>
        match tc_expr G e with Some (TInt W64) => true | _ => false end
    | SLog t e =>
        match tc_expr G e with Some te => ty_eqb te t | None => false end
    | SMatch e arms =>
        match tc_expr G e with
        | Some t =>
            forallb (fun ps => match tc_pat (fst ps) t with
                               | Some D => tc_stmt (D ++ G) inloop ret (snd ps)
                               | None => false
                               end) arms
            && exhaustive t (map fst arms)
        | None => false
        end
    | SExpr e => match tc_expr G e with Some _ => true | None => false end
    end.
End TC.

(* a statement that never completes normally (every path returns / breaks / reverts) *)
Fixpoint returns (s : stmt) : bool :=
  match s with
  | SReturn _ | SRevert _ => true
  | SSeq a b => returns a || returns b
  | SLet _ body => returns body
  | SIf _ a b => returns a && returns b
  | SMatch _ arms => forallb (fun ps => returns (snd ps)) arms
  | _ => false
  end.

Definition sig_of (fd : fndef) : fsig := (fn_params fd, fn_ret fd).

Definition tc_fn (F : list fsig) (fd : fndef) : bool :=
  tc_stmt F (fn_params fd) false (fn_ret fd) (fn_body fd)
  && (ty_eqb (fn_ret fd) TUnit || returns (fn_body fd)).

Definition tc_prog (p : prog) : bool :=
  let F := map sig_of (p_fns p) in
  forallb (tc_fn F) (p_fns p) && tc_stmt F [] false TUnit (p_main p).

Definition has_type (p : prog) : Prop := tc_prog p = true.
