(* Frag.Syntax — abstract syntax of the Sway fragment used as reference semantics by C01/C02.
   NO proofs here.

   Types are structural: Sway structs and tuples are both [TTup] (the generator keeps the nominal
   names for printing only), enums are [TEnum] (list of variant payload types, unit = TTup []),
   arrays are [TArr].  Generic functions appear after monomorphisation (the generator instantiates
   them).  Variables are de Bruijn indices into the environment (0 = most recently bound). *)
From Coq Require Import NArith List Bool.
Import ListNotations.

Inductive width := W8 | W16 | W32 | W64 | W256.

Definition bits (w : width) : N :=
  match w with W8 => 8 | W16 => 16 | W32 => 32 | W64 => 64 | W256 => 256 end.

Inductive ty :=
| TInt (w : width)
| TBool
| TB256
| TTup (ts : list ty)
| TArr (t : ty) (n : nat)
| TEnum (ts : list ty).

Definition TUnit : ty := TTup [].

(* integers and b256 are [VInt]; tuples, structs and arrays are [VTup] *)
Inductive value :=
| VInt (n : N)
| VBool (b : bool)
| VTup (vs : list value)
| VEnum (tag : nat) (v : value).

Definition VUnit : value := VTup [].

Inductive binop := Add | Sub | Mul | Div | Mod | BAnd | BOr | BXor | Shl | Shr
                 | Eq | Ne | Lt | Gt | Le | Ge.

Inductive expr :=
| EInt (w : width) (n : N)
| EBool (b : bool)
| EB256 (n : N)
| EVar (i : nat)
| EBin (op : binop) (w : width) (a b : expr)   (* w: operand width (W256 for b256; ignored for bool ==/!=) *)
| ENot (w : width) (a : expr)                  (* `!` on integers / b256 (bitwise) and bool (logical) *)
| EAnd (a b : expr)                            (* && short circuit *)
| EOr (a b : expr)                             (* || short circuit *)
| EIf (c a b : expr)
| ETup (es : list expr)                        (* tuple / struct construction *)
| EProj (a : expr) (i : nat)                   (* .i / .field *)
| EArr (t : ty) (es : list expr)               (* [e0, e1, ...] with element type t *)
| EIdx (a i : expr)                            (* a[i], i : u64 *)
| EEnum (ts : list ty) (tag : nat) (a : expr)  (* E::V(a) where E has variant payload types ts *)
| ECall (f : nat) (es : list expr).

(* one-level patterns *)
Inductive spat := QWild | QVar | QInt (n : N) | QBool (b : bool).
Inductive pat :=
| PS (q : spat)
| PTup (qs : list spat)
| PEnum (tag : nat) (q : spat).

(* lvalue path elements: .i on tuples/structs, [x] with x a u64 variable, [n] with n a constant *)
Inductive acc := AField (i : nat) | AIdxVar (x : nat) | AIdxLit (n : N).

Inductive stmt :=
| SSkip
| SSeq (a b : stmt)
| SLet (e : expr) (body : stmt)                 (* let x = e; body   (x = index 0 inside body) *)
| SAssign (x : nat) (path : list acc) (e : expr)
| SIf (c : expr) (a b : stmt)
| SWhile (c : expr) (body : stmt)
| SBreak
| SContinue
| SReturn (e : expr)
| SAssert (e : expr)
| SRequire (c : expr) (t : ty) (v : expr)       (* require(c, v) with v : t *)
| SRevert (e : expr)                            (* revert(e), e : u64 *)
| SLog (t : ty) (e : expr)                      (* log(e) with e : t *)
| SMatch (e : expr) (arms : list (pat * stmt))
| SExpr (e : expr).

Record fndef := { fn_params : list ty; fn_ret : ty; fn_body : stmt }.

Record prog := { p_fns : list fndef; p_main : stmt }.
