(* Frag.Causes — a Revert outcome comes from one of the listed causes, and the program text contains
   a construct that can raise it (a program without `/` and `%` never reverts with DivZero, ...). *)
From Coq Require Import NArith List Bool Arith Lia.
From SwayV Require Import Frag.Syntax Frag.Sem Frag.Typing Frag.Lemmas Frag.Sound Frag.Mono.
Import ListNotations.

Inductive ckind := KOverflow | KDivZero | KOob | KAssert | KRequire | KUser.

Definition kind_of (c : cause) : ckind :=
  match c with
  | COverflow => KOverflow | CDivZero => KDivZero | COob => KOob
  | CAssert => KAssert | CRequire => KRequire | CUser _ => KUser
  end.

Definition op_site (k : ckind) (op : binop) : bool :=
  match k, op with
  | KOverflow, (Add | Sub | Mul) => true
  | KDivZero, (Div | Mod) => true
  | _, _ => false
  end.

Definition is_k (a b : ckind) : bool :=
  match a, b with
  | KOverflow, KOverflow | KDivZero, KDivZero | KOob, KOob
  | KAssert, KAssert | KRequire, KRequire | KUser, KUser => true
  | _, _ => false
  end.

Fixpoint site_e (k : ckind) (e : expr) {struct e} : bool :=
  match e with
  | EBin op _ a b => op_site k op || site_e k a || site_e k b
  | ENot _ a => site_e k a
  | EAnd a b | EOr a b => site_e k a || site_e k b
  | EIf c a b => site_e k c || site_e k a || site_e k b
  | ETup es | EArr _ es | ECall _ es => existsb (fun x => site_e k x) es
  | EProj a _ => site_e k a
  | EIdx a i => is_k k KOob || site_e k a || site_e k i
  | EEnum _ _ a => site_e k a
  | _ => false
  end.

Definition acc_indexes (a : acc) : bool := match a with AField _ => false | _ => true end.

Fixpoint site_s (k : ckind) (s : stmt) {struct s} : bool :=
  match s with
  | SSeq a b => site_s k a || site_s k b
  | SLet e body => site_e k e || site_s k body
  | SAssign _ path e => (is_k k KOob && existsb acc_indexes path) || site_e k e
  | SIf c a b => site_e k c || site_s k a || site_s k b
  | SWhile c body => site_e k c || site_s k body
  | SReturn e | SLog _ e | SExpr e => site_e k e
  | SAssert e => is_k k KAssert || site_e k e
  | SRequire c _ v => is_k k KRequire || site_e k c || site_e k v
  | SRevert e => is_k k KUser || site_e k e
  | SMatch e arms => site_e k e || existsb (fun ps => site_s k (snd ps)) arms
  | _ => false
  end.

Definition site_fns (k : ckind) (fns : list fndef) : bool :=
  existsb (fun fd => site_s k (fn_body fd)) fns.

(* the program text contains a construct able to raise a revert of kind k *)
Definition site_prog (k : ckind) (p : prog) : bool := site_fns k (p_fns p) || site_s k (p_main p).

Definition ListedCause (p : prog) (c : cause) : Prop := site_prog (kind_of c) p = true.

Lemma binop_apply_rev op w va vb l c l' :
  binop_apply op w va vb l = RRev c l' -> op_site (kind_of c) op = true.
Proof.
  unfold binop_apply. destruct va, vb; try discriminate.
  - destruct (arith op w n n0) as [r|k] eqn:E; [discriminate|]. intros H. inversion H; subst.
    destruct op; cbn in E;
      repeat match type of E with (if ?b then _ else _) = _ => destruct b end;
      inversion E; subst; reflexivity.
  - destruct op; discriminate.
Qed.

Lemma assign_path_oob env : forall path old nv,
  assign_path env old path nv = UOob -> existsb acc_indexes path = true.
Proof.
  induction path as [|a p' IH]; intros old nv H; cbn in H; [discriminate|].
  destruct old; try discriminate. destruct a; cbn.
  - unfold upd_at in H. destruct (nth_error vs i); [|discriminate].
    destruct (assign_path env v p' nv) eqn:E; try discriminate. eauto.
  - reflexivity.
  - reflexivity.
Qed.

Lemma eval_list_rev (ev : logs -> expr -> eres value) : forall es l c l',
  eval_list ev l es = RRev c l' -> exists e l0, In e es /\ ev l0 e = RRev c l'.
Proof.
  induction es as [|e es IH]; intros l c l' H; cbn in H; [discriminate|].
  destruct (ev l e) as [v l1| | |] eqn:E; cbn in H; try discriminate.
  - destruct (eval_list ev l1 es) as [vs l2| | |] eqn:E2; cbn in H; try discriminate.
    inversion H; subst. destruct (IH _ _ _ E2) as [e0 [l0 [Hin He]]]. exists e0, l0. split; [right|]; auto.
  - inversion H; subst. exists e, l. split; [left|]; auto.
Qed.

Section Causes.
  Variable fns : list fndef.

  Definition expr_c (n : nat) : Prop := forall env l e c l',
    eval_expr fns n env l e = RRev c l' ->
    site_e (kind_of c) e = true \/ site_fns (kind_of c) fns = true.
  Definition stmt_c (n : nat) : Prop := forall env l s c l',
    eval_stmt fns n env l s = RRev c l' ->
    site_s (kind_of c) s = true \/ site_fns (kind_of c) fns = true.

  Ltac step :=
    match goal with
    | H : bind ?r _ = RRev _ _ |- _ => destruct r eqn:?; cbn [bind] in H; try discriminate
    | H : RRev _ _ = RRev _ _ |- _ => inversion H; subst; clear H
    | H : ROk _ _ = RRev _ _ |- _ => discriminate
    | H : RStk = RRev _ _ |- _ => discriminate
    | H : match ?v with _ => _ end = RRev _ _ |- _ => destruct v eqn:?; try discriminate
    end.

  Ltac btauto := cbn [site_e site_s]; repeat rewrite orb_true_iff; tauto.

  Ltac use_ih IHe IHs :=
    match goal with
    | E : eval_expr fns _ _ _ _ = RRev _ _ |- _ =>
        apply IHe in E; destruct E as [E|E]; [left|right; exact E]; cbn [site_e site_s] in E |- *; repeat rewrite orb_true_iff in *; tauto
    | E : eval_stmt fns _ _ _ _ = RRev _ _ |- _ =>
        apply IHs in E; destruct E as [E|E]; [left|right; exact E]; cbn [site_e site_s] in E |- *; repeat rewrite orb_true_iff in *; tauto
    end.

  Lemma list_case n (IHe : expr_c n) env es l c l' :
    eval_list (eval_expr fns n env) l es = RRev c l' ->
    existsb (fun x => site_e (kind_of c) x) es = true \/ site_fns (kind_of c) fns = true.
  Proof.
    intros H. destruct (eval_list_rev _ _ _ _ _ H) as [e [l0 [Hin He]]].
    apply IHe in He. destruct He as [He|He]; [left|right; exact He].
    apply existsb_exists. eauto.
  Qed.

  Lemma causes_step : forall n, expr_c n /\ stmt_c n.
  Proof.
    induction n as [|n [IHe IHs]].
    - split; intros env l x c l' H; discriminate.
    - split.
      + intros env l e c l' H. rewrite eval_expr_S in H.
        destruct e; repeat step; try (use_ih IHe IHs; fail).
        * (* EBin, the operator itself *)
          apply binop_apply_rev in H. left. btauto.
        * (* ETup *) match goal with E : eval_list _ _ _ = RRev _ _ |- _ => apply (list_case n IHe) in E; exact E end.
        * (* EArr *) match goal with E : eval_list _ _ _ = RRev _ _ |- _ => apply (list_case n IHe) in E; exact E end.
        * (* EIdx *) left. cbn. reflexivity.
        * (* ECall: body *)
          unfold call_result in H. repeat step.
          match goal with E : eval_stmt _ _ _ _ _ = RRev _ _ |- _ =>
            apply IHs in E; destruct E as [E|E]; [right|right; exact E];
            unfold site_fns; apply existsb_exists; exists f0; split; [|exact E] end.
          eapply nth_error_In; eauto.
        * (* ECall: arguments *)
          match goal with E : eval_list _ _ _ = RRev _ _ |- _ => apply (list_case n IHe) in E; exact E end.
      + intros env l s c l' H. rewrite eval_stmt_S in H.
        destruct s; repeat step; try (use_ih IHe IHs; fail).
        * (* SAssign: out of bounds in the path *)
          left. cbn. match goal with E : assign_path _ _ _ _ = UOob |- _ => apply assign_path_oob in E; rewrite E end.
          reflexivity.
        * (* SAssert *) left. cbn. reflexivity.
        * (* SRequire *) left. cbn. reflexivity.
        * (* SRevert *) left. cbn. reflexivity.
        * (* SMatch: arm body *)
          match goal with E : find_arm _ _ = Some _ |- _ => destruct (find_arm_In _ _ _ _ E) as [p0 [Hin _]] end.
          match goal with E : eval_stmt _ _ _ _ _ = RRev _ _ |- _ =>
            apply IHs in E; destruct E as [E|E]; [left|right; exact E];
            cbn [site_s]; apply orb_true_iff; right; apply existsb_exists; eexists; split; [exact Hin|exact E] end.
  Qed.
End Causes.

Theorem reverts_only_listed : forall n p c lg, eval n p = Revert c lg -> ListedCause p c.
Proof.
  intros n p c lg H. unfold eval in H.
  destruct (eval_stmt (p_fns p) n [] [] (p_main p)) as [sg l|k l| |] eqn:E; try discriminate.
  - destruct sg; discriminate.
  - inversion H; subst. apply (proj2 (causes_step (p_fns p) n)) in E.
    unfold ListedCause, site_prog. apply orb_true_iff. tauto.
Qed.

(* the observable revert code of each listed cause *)
Lemma code_of_listed c :
  code_of c = 0%N \/ code_of c = FAILED_ASSERT_SIGNAL \/ code_of c = FAILED_REQUIRE_SIGNAL
  \/ exists u, c = CUser u.
Proof. destruct c; cbn; eauto. Qed.
