(* Frag.Sound — type soundness: a well-typed program never gets Stuck, results have their static type
   (progress and preservation in one invariant over the fuel-indexed evaluator). *)
From Coq Require Import NArith List Bool Arith Lia.
From SwayV Require Import Frag.Syntax Frag.Sem Frag.Typing Frag.Lemmas.
Import ListNotations.
Local Arguments wmod : simpl never.
Local Arguments N.ltb : simpl never.
Local Arguments N.eqb : simpl never.

Definition good {A} (P : A -> Prop) (r : eres A) : Prop :=
  match r with ROk a _ => P a | RStk => False | _ => True end.

Lemma good_bind {A B} (P : A -> Prop) (Q : B -> Prop) r k :
  good P r -> (forall a l, P a -> good Q (k a l)) -> good Q (bind r k).
Proof. destruct r; cbn; auto. Qed.

Definition sig_ok (G : list ty) (il : bool) (ret : ty) (sg : sig) : Prop :=
  match sg with
  | SNorm e => env_ok e G = true
  | SBrk e | SCont e => il = true /\ env_ok e G = true
  | SRet v => vty v ret = true
  end.

Definition vok (t : ty) (v : value) : Prop := vty v t = true.

(* ---- operators ------------------------------------------------------------------------------ *)
Lemma binop_apply_good op w ta tb t va vb l :
  tc_binop op w ta tb = Some t -> vty va ta = true -> vty vb tb = true ->
  good (vok t) (binop_apply op w va vb l).
Proof.
  intros Htc Hva Hvb. unfold tc_binop in Htc. destruct ta; try discriminate.
  - (* integers *)
    destruct (width_eqb w w0) eqn:Ew; [|discriminate]. apply width_eqb_eq in Ew. subst w0.
    apply vty_int_inv in Hva as [a [-> Ha]].
    assert (exists b, vb = VInt b /\ (b < wmod (rhs_width op w))%N
                      /\ t = if is_cmp op then TBool else TInt w) as [b [-> [Hb ->]]].
    { destruct op; cbn [rhs_width is_cmp];
        (match type of Htc with context [ty_eqb tb ?x] => destruct (ty_eqb tb x) eqn:Et end;
         [|discriminate]; apply ty_eqb_eq in Et; subst tb; inversion Htc; subst;
         apply vty_int_inv in Hvb as [b [-> Hb]]; eauto). }
    unfold binop_apply. destruct (arith op w a b) as [r|k] eqn:Ear; [|exact I].
    pose proof (arith_in_range op w a b r Ha Hb Ear) as Hr.
    unfold good, vok. destruct (is_cmp op); cbn; [reflexivity|]. apply N.ltb_lt. exact Hr.
  - (* bool == / != *)
    destruct op; try discriminate; destruct tb; try discriminate; inversion Htc; subst;
      apply vty_bool_inv in Hva as [x ->]; apply vty_bool_inv in Hvb as [y ->]; reflexivity.
  - (* b256 *)
    destruct (width_eqb w W256) eqn:Ew; [|discriminate]. apply width_eqb_eq in Ew. subst w.
    destruct (ty_eqb tb TB256) eqn:Et; [|discriminate]. apply ty_eqb_eq in Et. subst tb.
    cbn [andb] in Htc.
    apply vty_b256_inv in Hva as [a [-> Ha]]. apply vty_b256_inv in Hvb as [b [-> Hb]].
    unfold binop_apply.
    destruct op; try discriminate; inversion Htc; subst;
      (destruct (arith _ W256 a b) as [r|k] eqn:Ear; [|exact I]);
      (match type of Ear with arith ?o _ _ _ = _ =>
         pose proof (arith_in_range o W256 a b r Ha Hb Ear) as Hr end);
      cbn [is_cmp] in *; unfold good, vok; cbn; try reflexivity; apply N.ltb_lt; exact Hr.
Qed.

(* ---- argument lists ---------------------------------------------------------------------- *)
Lemma eval_list_good (ev : logs -> expr -> eres value) (tc : expr -> option ty) :
  (forall e t l, tc e = Some t -> good (vok t) (ev l e)) ->
  forall es ts l, mapM tc es = Some ts ->
  good (fun vs => forall2b vty vs ts = true) (eval_list ev l es).
Proof.
  intros Hev. induction es as [|e es IH]; intros ts l Hm; cbn in Hm.
  - inversion Hm; subst. reflexivity.
  - destruct (tc e) as [t|] eqn:Et; [|discriminate].
    destruct (mapM tc es) as [ts'|] eqn:Ets; [|discriminate]. inversion Hm; subst.
    cbn [eval_list]. eapply good_bind; [apply Hev; exact Et|]. intros v l1 Hv.
    eapply good_bind; [apply IH; reflexivity|]. intros vs l2 Hvs.
    cbn. unfold vok in Hv. rewrite Hv, Hvs. reflexivity.
Qed.

(* ---- assignment through a path ------------------------------------------------------------ *)
Definition ugood (P : value -> Prop) (r : ures value) : Prop :=
  match r with UOk v => P v | UOob => True | UStuck => False end.

Lemma upd_at_tup vs ts i ti k :
  forall2b vty vs ts = true -> nth_error ts i = Some ti ->
  (forall vi, vty vi ti = true -> ugood (vok ti) (k vi)) ->
  ugood (vok (TTup ts)) (upd_at vs i k).
Proof.
  intros Hvs Hn Hk. destruct (forall2b_nth_r _ _ _ _ _ Hvs Hn) as [vi [Hvi Hty]].
  unfold upd_at. rewrite Hvi. specialize (Hk vi Hty). destruct (k vi) as [vi'| |]; cbn in *; auto.
  unfold vok. rewrite vty_tup. eapply forall2b_set_nth; eauto.
Qed.

Lemma upd_at_arr vs te j k :
  forallb (fun x => vty x te) vs = true -> (j < length vs)%nat ->
  (forall vi, vty vi te = true -> ugood (vok te) (k vi)) ->
  ugood (vok (TArr te (length vs))) (upd_at vs j k).
Proof.
  intros Hvs Hj Hk. destruct (nth_error_lt_some vs j Hj) as [vi Hvi].
  pose proof (forallb_nth _ _ _ _ Hvs Hvi) as Hty.
  unfold upd_at. rewrite Hvi. specialize (Hk vi Hty). destruct (k vi) as [vi'| |]; cbn in *; auto.
  unfold vok. rewrite vty_arr, set_nth_length, Nat.eqb_refl. cbn.
  apply forallb_set_nth; assumption.
Qed.

Lemma assign_path_good G env nv tp : env_ok env G = true -> vty nv tp = true ->
  forall path old tx, vty old tx = true -> tc_path G tx path = Some tp ->
  ugood (vok tx) (assign_path env old path nv).
Proof.
  intros Henv Hnv. induction path as [|a p' IH]; intros old tx Hold Htc; cbn in Htc.
  - inversion Htc; subst. exact Hnv.
  - destruct a as [i|x|k].
    + destruct tx; try discriminate. destruct (nth_error ts i) as [ti|] eqn:Ei; [|discriminate].
      apply vty_tup_inv in Hold as [vs [-> Hvs]]. cbn [assign_path].
      eapply upd_at_tup; eauto.
    + destruct tx; try discriminate.
      destruct (nth_error G x) as [tx0|] eqn:Ex; [|discriminate].
      destruct tx0; try discriminate. destruct w; try discriminate.
      apply vty_arr_inv in Hold as [vs [-> [Hlen Hvs]]]. cbn [assign_path].
      destruct (forall2b_nth_r _ _ _ _ _ Henv Ex) as [vx [Hvx Htyx]]. rewrite Hvx.
      apply vty_int_inv in Htyx as [kx [-> _]].
      destruct (index_of kx (length vs)) as [j|] eqn:Ej; [|exact I].
      subst n. apply upd_at_arr; eauto using index_of_lt.
    + destruct tx; try discriminate.
      apply vty_arr_inv in Hold as [vs [-> [Hlen Hvs]]]. cbn [assign_path].
      destruct (index_of k (length vs)) as [j|] eqn:Ej; [|exact I].
      subst n. apply upd_at_arr; eauto using index_of_lt.
Qed.

(* ---- patterns ---------------------------------------------------------------------------- *)
Lemma smatch_good q t Dacc D v acc acc' :
  tc_spat q t Dacc = Some D -> vty v t = true -> forall2b vty acc Dacc = true ->
  smatch q v acc = Some acc' -> forall2b vty acc' D = true.
Proof.
  intros Htc Hv Hacc Hm. destruct q; cbn in *.
  - inversion Htc; inversion Hm; subst. exact Hacc.
  - inversion Htc; inversion Hm; subst. cbn. rewrite Hv, Hacc. reflexivity.
  - destruct t; try discriminate. destruct (n <? wmod w)%N; [|discriminate].
    destruct v; try discriminate. destruct (n0 =? n)%N; [|discriminate].
    inversion Htc; inversion Hm; subst. exact Hacc.
  - destruct t; try discriminate. destruct v; try discriminate.
    destruct (Bool.eqb b b0); [|discriminate]. inversion Htc; inversion Hm; subst. exact Hacc.
Qed.

Lemma smatch_list_good : forall qs ts Dacc D vs acc acc',
  tc_spats qs ts Dacc = Some D -> forall2b vty vs ts = true -> forall2b vty acc Dacc = true ->
  smatch_list qs vs acc = Some acc' -> forall2b vty acc' D = true.
Proof.
  induction qs as [|q qs IH]; intros [|t ts] Dacc D [|v vs] acc acc' Htc Hvs Hacc Hm;
    cbn in Htc, Hvs, Hm; try discriminate.
  - inversion Htc; inversion Hm; subst. exact Hacc.
  - destruct (tc_spat q t Dacc) as [D1|] eqn:E1; [|discriminate].
    destruct (smatch q v acc) as [acc1|] eqn:E2; [|discriminate].
    apply andb_true_iff in Hvs as [Hv Hvs].
    eapply IH; eauto. eapply smatch_good; eauto.
Qed.

Lemma pmatch_good p t D v bs :
  tc_pat p t = Some D -> vty v t = true -> pmatch p v = Some bs -> forall2b vty bs D = true.
Proof.
  intros Htc Hv Hm. destruct p as [q|qs|tag q]; cbn in Htc, Hm.
  - eapply smatch_good; eauto; reflexivity.
  - destruct t; try discriminate. apply vty_tup_inv in Hv as [vs [-> Hvs]].
    eapply smatch_list_good; eauto; reflexivity.
  - destruct t; try discriminate. destruct (nth_error ts tag) as [pt|] eqn:Et; [|discriminate].
    apply vty_enum_inv in Hv as [k [pv [t' [-> [Hk Hpv]]]]].
    destruct (Nat.eqb k tag) eqn:Ek; [|discriminate]. apply Nat.eqb_eq in Ek. subst k.
    rewrite Et in Hk. inversion Hk; subst. eapply smatch_good; eauto; reflexivity.
Qed.

Lemma sirrefutable_matches q v acc : sirrefutable q = true -> exists acc', smatch q v acc = Some acc'.
Proof. destruct q; cbn; try discriminate; eauto. Qed.

Lemma sirrefutable_list_matches : forall qs vs acc, forallb sirrefutable qs = true ->
  length qs = length vs -> exists acc', smatch_list qs vs acc = Some acc'.
Proof.
  induction qs as [|q qs IH]; intros [|v vs] acc Hq Hl; cbn in *; try discriminate; eauto.
  apply andb_true_iff in Hq as [H1 H2].
  destruct (sirrefutable_matches q v acc H1) as [acc1 ->]. apply IH; auto.
Qed.

Lemma tc_spats_length : forall qs ts Dacc D, tc_spats qs ts Dacc = Some D -> length qs = length ts.
Proof.
  induction qs as [|q qs IH]; intros [|t ts] Dacc D H; cbn in H; try discriminate; auto.
  destruct (tc_spat q t Dacc); [|discriminate]. cbn. f_equal. eauto.
Qed.

Lemma irrefutable_matches p t D v :
  irrefutable p = true -> tc_pat p t = Some D -> vty v t = true -> exists bs, pmatch p v = Some bs.
Proof.
  intros Hi Htc Hv. destruct p as [q|qs|tag q]; cbn in *; try discriminate.
  - apply sirrefutable_matches. exact Hi.
  - destruct t; try discriminate. apply vty_tup_inv in Hv as [vs [-> Hvs]].
    apply sirrefutable_list_matches; auto.
    rewrite (tc_spats_length _ _ _ _ Htc). symmetry. eapply forall2b_length; eauto.
Qed.

Lemma find_arm_exists arms v :
  (exists p s, In (p, s) arms /\ pmatch p v <> None) -> find_arm arms v <> None.
Proof.
  induction arms as [|[p s] arms IH]; intros [p0 [s0 [Hin Hm]]]; cbn.
  - destruct Hin.
  - destruct (pmatch p v) eqn:E; [discriminate|].
    destruct Hin as [Heq|Hin]; [inversion Heq; subst; congruence|]. apply IH. eauto.
Qed.

Lemma find_arm_In arms v bs s :
  find_arm arms v = Some (bs, s) -> exists p, In (p, s) arms /\ pmatch p v = Some bs.
Proof.
  induction arms as [|[p s0] arms IH]; cbn; [discriminate|].
  destruct (pmatch p v) eqn:E.
  - intros H. inversion H; subst. eauto.
  - intros H. destruct (IH H) as [p0 [Hin Hm]]. eauto.
Qed.

Lemma existsb_arm (f : pat -> bool) (arms : list (pat * stmt)) :
  existsb f (map fst arms) = true -> exists p s, In (p, s) arms /\ f p = true.
Proof.
  intros H. apply existsb_exists in H as [p [Hin Hf]]. apply in_map_iff in Hin as [[p' s] [Hp Hin]].
  cbn in Hp. subst. eauto.
Qed.

Lemma exhaustive_find arms t v :
  (forall p s, In (p, s) arms -> tc_pat p t <> None) ->
  exhaustive t (map fst arms) = true -> vty v t = true -> find_arm arms v <> None.
Proof.
  intros Hall Hex Hv. apply find_arm_exists. unfold exhaustive in Hex.
  apply orb_true_iff in Hex as [Hex|Hex].
  - destruct (existsb_arm _ _ Hex) as [p [s [Hin Hi]]]. exists p, s. split; [exact Hin|].
    destruct (tc_pat p t) as [D|] eqn:Et; [|exfalso; eapply Hall; eauto].
    destruct (irrefutable_matches p t D v Hi Et Hv) as [bs ->]. discriminate.
  - destruct t; try discriminate.
    + (* bool *)
      apply vty_bool_inv in Hv as [b ->]. apply andb_true_iff in Hex as [Ht Hf].
      assert (existsb (covers_bool b) (map fst arms) = true) as Hb by (destruct b; assumption).
      destruct (existsb_arm _ _ Hb) as [p [s [Hin Hc]]]. exists p, s. split; [exact Hin|].
      destruct p as [q| |]; cbn in Hc; try discriminate. destruct q; try discriminate.
      cbn. destruct b, b0; cbn in *; discriminate.
    + (* enum *)
      apply vty_enum_inv in Hv as [k [pv [t' [-> [Hk Hpv]]]]].
      rewrite forallb_forall in Hex.
      assert (In k (seq 0 (length ts))) as Hks.
      { apply in_seq. split; [lia|]. cbn. apply nth_error_Some. congruence. }
      destruct (existsb_arm _ _ (Hex k Hks)) as [p [s [Hin Hc]]]. exists p, s. split; [exact Hin|].
      destruct p as [|?|tag q]; cbn in Hc; try discriminate.
      apply andb_true_iff in Hc as [Htag Hq]. apply Nat.eqb_eq in Htag. subst tag.
      cbn. rewrite Nat.eqb_refl. destruct (sirrefutable_matches q pv [] Hq) as [acc' ->]. discriminate.
Qed.

Lemma forall2b_skipn {A B} (f : A -> B -> bool) : forall m1 l m2,
  forall2b f l (m1 ++ m2) = true -> forall2b f (skipn (length m1) l) m2 = true.
Proof.
  induction m1 as [|b m1 IH]; intros [|a l] m2 H; cbn in *; try discriminate; auto.
  apply andb_true_iff in H as [_ H]. auto.
Qed.

(* ---- the evaluator --------------------------------------------------------------------------- *)
Section Sound.
  Variable fns : list fndef.
  Let F := map sig_of fns.
  Hypothesis Hfns : forallb (tc_fn F) fns = true.

  Lemma returns_not_norm : forall n env l s e' l',
    returns s = true -> eval_stmt fns n env l s = ROk (SNorm e') l' -> False.
  Proof.
    induction n as [|n IH]; intros env l s e' l' Hr He; [discriminate|].
    destruct s; cbn in Hr; try discriminate; simpl in He.
    - (* SSeq *)
      destruct (eval_stmt fns n env l s1) as [sg l1| | |] eqn:Ea; simpl in He; try discriminate.
      destruct sg; try (inversion He; fail).
      apply orb_true_iff in Hr as [Hr|Hr]; eauto.
    - (* SLet *)
      destruct (eval_expr fns n env l e) as [v l1| | |]; simpl in He; try discriminate.
      destruct (eval_stmt fns n (v :: env) l1 s) as [sg l2| | |] eqn:Eb; simpl in He; try discriminate.
      destruct sg; simpl in He; try (inversion He; fail). eauto.
    - (* SIf *)
      apply andb_true_iff in Hr as [H1 H2].
      destruct (eval_expr fns n env l c) as [v l1| | |]; simpl in He; try discriminate.
      destruct v as [|[|]| |]; try discriminate; eauto.
    - (* SReturn *)
      destruct (eval_expr fns n env l e) as [v l1| | |]; simpl in He; discriminate.
    - (* SRevert *)
      destruct (eval_expr fns n env l e) as [v l1| | |]; simpl in He; try discriminate.
      destruct v; discriminate.
    - (* SMatch *)
      destruct (eval_expr fns n env l e) as [v l1| | |]; simpl in He; try discriminate.
      destruct (find_arm arms v) as [[bs body]|] eqn:Ef; [|discriminate].
      destruct (find_arm_In _ _ _ _ Ef) as [p [Hin _]].
      rewrite forallb_forall in Hr. specialize (Hr (p, body) Hin). cbn in Hr.
      destruct (eval_stmt fns n (bs ++ env) l1 body) as [sg l2| | |] eqn:Eb; simpl in He; try discriminate.
      destruct sg; simpl in He; try (inversion He; fail). eauto.
  Qed.

  Definition expr_ok (n : nat) : Prop := forall G env l e t,
    tc_expr F G e = Some t -> env_ok env G = true -> good (vok t) (eval_expr fns n env l e).
  Definition stmt_ok (n : nat) : Prop := forall G il ret env l s,
    tc_stmt F G il ret s = true -> env_ok env G = true ->
    good (sig_ok G il ret) (eval_stmt fns n env l s).

  Lemma fn_lookup f ps r : nth_error F f = Some (ps, r) ->
    exists fd, nth_error fns f = Some fd /\ fn_params fd = ps /\ fn_ret fd = r /\ tc_fn F fd = true.
  Proof.
    intros H. unfold F in H. rewrite nth_error_map in H.
    destruct (nth_error fns f) as [fd|] eqn:E; [|discriminate]. cbn in H. inversion H.
    exists fd. repeat split; auto. eapply forallb_nth; eauto.
  Qed.

  Lemma eval_expr_call n env l f es :
    eval_expr fns (S n) env l (ECall f es) =
    match nth_error fns f with
    | None => RStk
    | Some fd =>
        bind (eval_list (eval_expr fns n env) l es) (fun vs l1 =>
          call_result (eval_stmt fns n vs l1 (fn_body fd)))
    end.
  Proof. reflexivity. Qed.

  Lemma expr_step n : expr_ok n -> stmt_ok n -> expr_ok (S n).
  Proof.
    intros IHe IHs G env l e t Htc Henv.
    destruct e; cbn in Htc; try rewrite eval_expr_call; cbn [eval_expr].
    - (* EInt *) destruct (n0 <? wmod w)%N eqn:E; inversion Htc; subst. exact E.
    - (* EBool *) inversion Htc; subst. reflexivity.
    - (* EB256 *) destruct (n0 <? wmod W256)%N eqn:E; inversion Htc; subst. exact E.
    - (* EVar *)
      destruct (forall2b_nth_r _ _ _ _ _ Henv Htc) as [v [Hv Hty]]. rewrite Hv. exact Hty.
    - (* EBin *)
      destruct (tc_expr F G e1) as [ta|] eqn:Ea; [|discriminate].
      destruct (tc_expr F G e2) as [tb|] eqn:Eb; [|discriminate].
      eapply good_bind; [eapply IHe; eauto|]. intros va l1 Hva.
      eapply good_bind; [eapply IHe; eauto|]. intros vb l2 Hvb.
      eapply binop_apply_good; eauto.
    - (* ENot *)
      destruct (tc_expr F G e) as [ta|] eqn:Ea; [|discriminate].
      eapply good_bind; [eapply IHe; eauto|]. intros va l1 Hva. unfold vok in Hva.
      destruct ta; try discriminate.
      + destruct (width_eqb w w0) eqn:Ew; inversion Htc; subst. apply width_eqb_eq in Ew. subst w0.
        apply vty_int_inv in Hva as [a [-> Ha]]. cbn. apply N.ltb_lt. apply arith_not_in_range. exact Ha.
      + inversion Htc; subst. apply vty_bool_inv in Hva as [b ->]. reflexivity.
      + destruct (width_eqb w W256) eqn:Ew; inversion Htc; subst. apply width_eqb_eq in Ew. subst w.
        apply vty_b256_inv in Hva as [a [-> Ha]]. cbn. apply N.ltb_lt. apply arith_not_in_range. exact Ha.
    - (* EAnd *)
      destruct (tc_expr F G e1) as [ta|] eqn:Ea; [|discriminate]. destruct ta; try discriminate.
      destruct (tc_expr F G e2) as [tb|] eqn:Eb; [|discriminate]. destruct tb; try discriminate.
      inversion Htc; subst.
      eapply good_bind; [eapply IHe; eauto|]. intros va l1 Hva.
      apply vty_bool_inv in Hva as [[|] ->]; [eapply IHe; eauto|reflexivity].
    - (* EOr *)
      destruct (tc_expr F G e1) as [ta|] eqn:Ea; [|discriminate]. destruct ta; try discriminate.
      destruct (tc_expr F G e2) as [tb|] eqn:Eb; [|discriminate]. destruct tb; try discriminate.
      inversion Htc; subst.
      eapply good_bind; [eapply IHe; eauto|]. intros va l1 Hva.
      apply vty_bool_inv in Hva as [[|] ->]; [reflexivity|eapply IHe; eauto].
    - (* EIf *)
      destruct (tc_expr F G e1) as [tc|] eqn:Ec; [|discriminate]. destruct tc; try discriminate.
      destruct (tc_expr F G e2) as [ta|] eqn:Ea; [|discriminate].
      destruct (tc_expr F G e3) as [tb|] eqn:Eb; [|discriminate].
      destruct (ty_eqb ta tb) eqn:Et; inversion Htc; subst. apply ty_eqb_eq in Et. subst tb.
      eapply good_bind; [eapply IHe; eauto|]. intros vc l1 Hvc.
      apply vty_bool_inv in Hvc as [[|] ->]; eapply IHe; eauto.
    - (* ETup *)
      destruct (mapM (tc_expr F G) es) as [ts|] eqn:Em; inversion Htc; subst.
      eapply good_bind.
      + eapply eval_list_good with (tc := tc_expr F G); [|exact Em]. intros; eapply IHe; eauto.
      + intros vs l1 Hvs. exact Hvs.
    - (* EProj *)
      destruct (tc_expr F G e) as [ta|] eqn:Ea; [|discriminate]. destruct ta; try discriminate.
      eapply good_bind; [eapply IHe; eauto|]. intros va l1 Hva.
      apply vty_tup_inv in Hva as [vs [-> Hvs]].
      destruct (forall2b_nth_r _ _ _ _ _ Hvs Htc) as [v [Hv Hty]]. rewrite Hv. exact Hty.
    - (* EArr *)
      destruct (mapM (tc_expr F G) es) as [ts|] eqn:Em; [|discriminate].
      destruct (forallb (ty_eqb t0) ts) eqn:Eall; inversion Htc; subst.
      eapply good_bind.
      + eapply eval_list_good with (tc := tc_expr F G); [|exact Em]. intros; eapply IHe; eauto.
      + intros vs l1 Hvs. unfold good, vok. rewrite vty_arr.
        assert (length vs = length es /\ forallb (fun x => vty x t0) vs = true) as [Hl Hf].
        { clear Htc. revert ts vs Em Eall Hvs.
          induction es as [|e es IH]; intros ts vs Em Eall Hvs; cbn in Em.
          - inversion Em; subst. destruct vs; [auto|discriminate].
          - destruct (tc_expr F G e) as [te|]; [|discriminate].
            destruct (mapM (tc_expr F G) es) as [ts'|]; [|discriminate]. inversion Em; subst.
            destruct vs as [|v vs]; [discriminate|]. cbn in Hvs, Eall.
            apply andb_true_iff in Hvs as [Hv Hvs]. apply andb_true_iff in Eall as [Ht Eall].
            apply ty_eqb_eq in Ht. subst te.
            destruct (IH ts' vs eq_refl Eall Hvs) as [Hl Hf]. cbn. rewrite Hv, Hf, Hl. auto. }
        rewrite Hl, Nat.eqb_refl, Hf. reflexivity.
    - (* EIdx *)
      destruct (tc_expr F G e1) as [ta|] eqn:Ea; [|discriminate]. destruct ta; try discriminate.
      destruct (tc_expr F G e2) as [tb|] eqn:Eb; [|discriminate]. destruct tb; try discriminate.
      destruct w; try discriminate. inversion Htc; subst.
      eapply good_bind; [eapply IHe; eauto|]. intros va l1 Hva.
      eapply good_bind; [eapply IHe; eauto|]. intros vi l2 Hvi.
      apply vty_arr_inv in Hva as [vs [-> [Hlen Hvs]]]. apply vty_int_inv in Hvi as [k [-> _]].
      destruct (index_of k (length vs)) as [j|] eqn:Ej; [|exact I].
      destruct (nth_error_lt_some vs j (index_of_lt _ _ _ Ej)) as [v Hv]. rewrite Hv.
      eapply forallb_nth in Hvs; eauto.
    - (* EEnum *)
      destruct (tc_expr F G e) as [ta|] eqn:Ea; [|discriminate].
      destruct (nth_error ts tag) as [tv|] eqn:Et; [|discriminate].
      destruct (ty_eqb ta tv) eqn:Eq; inversion Htc; subst. apply ty_eqb_eq in Eq. subst tv.
      eapply good_bind; [eapply IHe; eauto|]. intros va l1 Hva.
      unfold good, vok. cbn. rewrite Et. exact Hva.
    - (* ECall *)
      destruct (nth_error F f) as [[ps r]|] eqn:Ef; [|discriminate].
      destruct (mapM (tc_expr F G) es) as [ts|] eqn:Em; [|discriminate].
      destruct (tys_eqb ts ps) eqn:Eq; inversion Htc; subst. apply tys_eqb_eq in Eq. subst ts.
      destruct (fn_lookup _ _ _ Ef) as [fd [Hfd [Hps [Hr Htcf]]]]. rewrite Hfd.
      eapply good_bind.
      + eapply eval_list_good with (tc := tc_expr F G); [|exact Em]. intros; eapply IHe; eauto.
      + intros vs l1 Hvs. unfold tc_fn in Htcf. apply andb_true_iff in Htcf as [Hbody Hret].
        rewrite <- Hps in Hvs.
        pose proof (IHs _ _ _ vs l1 _ Hbody Hvs) as Hb. unfold call_result.
        destruct (eval_stmt fns n vs l1 (fn_body fd)) as [sg l2| | |] eqn:Eb; cbn in Hb; auto.
        destruct sg; cbn in Hb.
        * apply orb_true_iff in Hret as [Hret|Hret].
          -- apply ty_eqb_eq in Hret. unfold good, vok. try rewrite <- Hr. rewrite Hret. reflexivity.
          -- exfalso. eapply returns_not_norm; eauto.
        * destruct Hb; discriminate.
        * destruct Hb; discriminate.
        * try rewrite Hr in Hb. exact Hb.
  Qed.

  Lemma stmt_step n : expr_ok n -> stmt_ok n -> stmt_ok (S n).
  Proof.
    intros IHe IHs G il ret env l s Htc Henv.
    destruct s; cbn in Htc; cbn [eval_stmt].
    - (* SSkip *) exact Henv.
    - (* SSeq *)
      apply andb_true_iff in Htc as [H1 H2].
      eapply good_bind; [eapply IHs; eauto|]. intros sg l1 Hsg.
      destruct sg; cbn in Hsg |- *; auto; try (eapply IHs; eauto).
    - (* SLet *)
      destruct (tc_expr F G e) as [t|] eqn:Et; [|discriminate].
      eapply good_bind; [eapply IHe; eauto|]. intros v l1 Hv.
      eapply good_bind.
      + eapply IHs; [exact Htc|]. cbn. unfold vok in Hv. rewrite Hv. exact Henv.
      + intros sg l2 Hsg. destruct sg; cbn in Hsg |- *; auto.
        * destruct env0; [discriminate|]. eapply forall2b_tl; eauto.
        * destruct Hsg as [? Hsg]. split; auto. destruct env0; [discriminate|]. eapply forall2b_tl; eauto.
        * destruct Hsg as [? Hsg]. split; auto. destruct env0; [discriminate|]. eapply forall2b_tl; eauto.
    - (* SAssign *)
      destruct (nth_error G x) as [tx|] eqn:Ex; [|discriminate].
      destruct (tc_expr F G e) as [te|] eqn:Ee; [|discriminate].
      destruct (tc_path G tx path) as [tp|] eqn:Ep; [|discriminate].
      apply ty_eqb_eq in Htc. subst tp.
      eapply good_bind; [eapply IHe; eauto|]. intros v l1 Hv.
      destruct (forall2b_nth_r _ _ _ _ _ Henv Ex) as [old [Hold Hty]]. rewrite Hold.
      pose proof (assign_path_good G env v te Henv Hv path old tx Hty Ep) as Ha.
      destruct (assign_path env old path v) as [new| |]; cbn in Ha |- *; auto.
      eapply forall2b_set_nth; eauto.
    - (* SIf *)
      destruct (tc_expr F G c) as [tc|] eqn:Ec; [|discriminate]. destruct tc; try discriminate.
      apply andb_true_iff in Htc as [H1 H2].
      eapply good_bind; [eapply IHe; eauto|]. intros vc l1 Hvc.
      apply vty_bool_inv in Hvc as [[|] ->]; eapply IHs; eauto.
    - (* SWhile *)
      destruct (tc_expr F G c) as [tc|] eqn:Ec; [|discriminate]. destruct tc; try discriminate.
      eapply good_bind; [eapply IHe; eauto|]. intros vc l1 Hvc.
      apply vty_bool_inv in Hvc as [[|] ->]; [|exact Henv].
      eapply good_bind; [eapply IHs; eauto|]. intros sg l2 Hsg.
      assert (tc_stmt F G il ret (SWhile c s) = true) as Hw by (cbn; rewrite Ec; exact Htc).
      destruct sg; cbn in Hsg |- *.
      + eapply IHs; eauto.
      + destruct Hsg; assumption.
      + destruct Hsg. eapply IHs; eauto.
      + exact Hsg.
    - (* SBreak *) cbn. auto.
    - (* SContinue *) cbn. auto.
    - (* SReturn *)
      destruct (tc_expr F G e) as [t|] eqn:Et; [|discriminate]. apply ty_eqb_eq in Htc. subst t.
      eapply good_bind; [eapply IHe; eauto|]. intros v l1 Hv. exact Hv.
    - (* SAssert *)
      destruct (tc_expr F G e) as [t|] eqn:Et; [|discriminate]. destruct t; try discriminate.
      eapply good_bind; [eapply IHe; eauto|]. intros v l1 Hv.
      apply vty_bool_inv in Hv as [[|] ->]; [exact Henv|exact I].
    - (* SRequire *)
      destruct (tc_expr F G c) as [tc|] eqn:Ec; [|discriminate]. destruct tc; try discriminate.
      destruct (tc_expr F G v) as [tv|] eqn:Ev; [|discriminate].
      eapply good_bind; [eapply IHe; eauto|]. intros vc l1 Hvc.
      eapply good_bind; [eapply IHe; eauto|]. intros vv l2 Hvv.
      apply vty_bool_inv in Hvc as [[|] ->]; [exact Henv|exact I].
    - (* SRevert *)
      destruct (tc_expr F G e) as [t|] eqn:Et; [|discriminate]. destruct t; try discriminate.
      eapply good_bind; [eapply IHe; eauto|]. intros v l1 Hv.
      apply vty_int_inv in Hv as [k [-> _]]. exact I.
    - (* SLog *)
      destruct (tc_expr F G e) as [te|] eqn:Et; [|discriminate].
      eapply good_bind; [eapply IHe; eauto|]. intros v l1 Hv. exact Henv.
    - (* SMatch *)
      destruct (tc_expr F G e) as [t|] eqn:Et; [|discriminate].
      apply andb_true_iff in Htc as [Harms Hex].
      eapply good_bind; [eapply IHe; eauto|]. intros v l1 Hv.
      rewrite forallb_forall in Harms.
      assert (find_arm arms v <> None) as Hfind.
      { eapply exhaustive_find; eauto. intros p s Hin Hn. specialize (Harms (p, s) Hin). cbn in Harms.
        rewrite Hn in Harms. discriminate. }
      destruct (find_arm arms v) as [[bs body]|] eqn:Ef; [|congruence].
      destruct (find_arm_In _ _ _ _ Ef) as [p [Hin Hm]].
      specialize (Harms (p, body) Hin). cbn in Harms.
      destruct (tc_pat p t) as [D|] eqn:Ep; [|discriminate].
      pose proof (pmatch_good _ _ _ _ _ Ep Hv Hm) as Hbs.
      eapply good_bind.
      + eapply IHs; [exact Harms|]. apply forall2b_app; assumption.
      + intros sg l2 Hsg. rewrite (forall2b_length _ _ _ Hbs).
        destruct sg; cbn in Hsg |- *; auto.
        * apply forall2b_skipn. exact Hsg.
        * destruct Hsg. split; auto. apply forall2b_skipn. assumption.
        * destruct Hsg. split; auto. apply forall2b_skipn. assumption.
    - (* SExpr *)
      destruct (tc_expr F G e) as [t|] eqn:Et; [|discriminate].
      eapply good_bind; [eapply IHe; eauto|]. intros v l1 Hv. exact Henv.
  Qed.

  Lemma sound_all : forall n, expr_ok n /\ stmt_ok n.
  Proof.
    induction n as [|n [IHe IHs]].
    - split; [intros G env l e t _ _ | intros G il ret env l s _ _]; exact I.
    - split; [apply expr_step | apply stmt_step]; assumption.
  Qed.
End Sound.

Theorem type_sound : forall n p, has_type p -> eval n p <> Stuck.
Proof.
  intros n p Ht. unfold has_type, tc_prog in Ht. apply andb_true_iff in Ht as [Hf Hm].
  destruct (sound_all (p_fns p) Hf n) as [_ Hs].
  specialize (Hs [] false TUnit [] [] (p_main p) Hm eq_refl).
  unfold eval. destruct (eval_stmt (p_fns p) n [] [] (p_main p)) as [sg l| | |]; cbn in Hs; try discriminate.
  - destruct sg; try discriminate; destruct Hs; discriminate.
  - contradiction.
Qed.
