(* Frag.Encode — how a logged value appears in a LogData receipt (sway "new encoding": integers big
   endian at their own size, bool one byte, aggregates concatenated, enums = u64 tag + payload).
   A byte string is represented as (length in bytes, big-endian number).  NO proofs here. *)
From Coq Require Import NArith List Bool.
From SwayV Require Import Frag.Syntax Frag.Sem.
Import ListNotations.
Local Open Scope N_scope.

Definition bcat (a b : N * N) : N * N := (fst a + fst b, snd a * 256 ^ fst b + snd b).

Fixpoint enc (t : ty) (v : value) {struct v} : option (N * N) :=
  match v, t with
  | VInt n, TInt w => Some (bits w / 8, n)
  | VInt n, TB256 => Some (32, n)
  | VBool b, TBool => Some (1, b2n b)
  | VTup vs, TTup ts =>
      (fix go (vs : list value) (ts : list ty) : option (N * N) :=
         match vs, ts with
         | [], [] => Some (0, 0)
         | v :: vs', t :: ts' =>
             match enc t v, go vs' ts' with
             | Some a, Some b => Some (bcat a b)
             | _, _ => None
             end
         | _, _ => None
         end) vs ts
  | VTup vs, TArr t _ =>
      (fix go (vs : list value) : option (N * N) :=
         match vs with
         | [] => Some (0, 0)
         | v :: vs' =>
             match enc t v, go vs' with
             | Some a, Some b => Some (bcat a b)
             | _, _ => None
             end
         end) vs
  | VEnum k pv, TEnum ts =>
      match nth_error ts k with
      | Some t => match enc t pv with
                  | Some a => Some (bcat (8, N.of_nat k) a)
                  | None => None
                  end
      | None => None
      end
  | _, _ => None
  end.

Definition enc_log (e : ty * value) : N * N :=
  match enc (fst e) (snd e) with Some x => x | None => (0, 0) end.

(* what forc-test shows: final state (None = returned, Some c = Revert(c)) and the LogData payloads *)
Record observation := { ob_revert : option N; ob_logs : list (N * N) }.

Definition observe (o : outcome) : option observation :=
  match o with
  | Return lg => Some {| ob_revert := None; ob_logs := map enc_log lg |}
  | Revert k lg => Some {| ob_revert := Some (code_of k); ob_logs := map enc_log lg |}
  | _ => None
  end.
