(* Frag.Sem — fuel-indexed big-step reference evaluator.  NO proofs here.

   Arithmetic is THE DOCUMENTED RULE (sway-lib-std/src/ops.sw doc comments, the Sway book):
     a + b, a * b at width w : the mathematical result when it fits in w bits, otherwise revert;
     a - b : a - b when b <= a, otherwise revert;   a / b, a % b : revert when b = 0;
     a << s : (a * 2^s) mod 2^w (bits shifted out are dropped; s >= w gives 0), a >> s : a / 2^s;
     ! a : 2^w - 1 - a;  comparisons as on naturals;  array index >= length : revert.
   Fuel bounds the recursion DEPTH (every recursive call consumes one unit); [RFuel] is a distinct
   result that every theorem excludes. *)
From Coq Require Import NArith List Bool.
From SwayV Require Import Frag.Syntax.
Import ListNotations.
Local Open Scope N_scope.

Inductive cause :=
| COverflow            (* integer overflow / underflow *)
| CDivZero             (* division or modulo by zero *)
| COob                 (* array index out of bounds *)
| CAssert              (* failed assert *)
| CRequire             (* failed require *)
| CUser (c : N).       (* explicit revert(c) *)

(* what forc-test shows for each cause: VM panics and __revert(0) are Revert(0);
   assert/require revert with the std error signals (checked against error_signals.sw by T-gen) *)
Definition FAILED_REQUIRE_SIGNAL : N := 18446744073709486080.
Definition FAILED_ASSERT_SIGNAL : N := 18446744073709486084.
Definition code_of (k : cause) : N :=
  match k with
  | COverflow | CDivZero | COob => 0
  | CAssert => FAILED_ASSERT_SIGNAL
  | CRequire => FAILED_REQUIRE_SIGNAL
  | CUser c => c
  end.

Definition logs := list (ty * value).   (* newest first *)

Inductive eres (A : Type) : Type :=
| ROk (a : A) (l : logs)
| RRev (k : cause) (l : logs)
| RFuel
| RStk.
Arguments ROk {A} a l.
Arguments RRev {A} k l.
Arguments RFuel {A}.
Arguments RStk {A}.

(* ---- arithmetic ------------------------------------------------------------------------- *)
Inductive ares := AVal (v : N) | APanic (k : cause).

Definition wmod (w : width) : N := 2 ^ bits w.
Definition b2n (b : bool) : N := if b then 1 else 0.

Definition arith (op : binop) (w : width) (a b : N) : ares :=
  match op with
  | Add => if a + b <? wmod w then AVal (a + b) else APanic COverflow
  | Sub => if b <=? a then AVal (a - b) else APanic COverflow
  | Mul => if a * b <? wmod w then AVal (a * b) else APanic COverflow
  | Div => if b =? 0 then APanic CDivZero else AVal (a / b)
  | Mod => if b =? 0 then APanic CDivZero else AVal (a mod b)
  | BAnd => AVal (N.land a b)
  | BOr => AVal (N.lor a b)
  | BXor => AVal (N.lxor a b)
  | Shl => AVal (if b <? bits w then (a * 2 ^ b) mod wmod w else 0)
  | Shr => AVal (if b <? bits w then a / 2 ^ b else 0)
  | Eq => AVal (b2n (a =? b))
  | Ne => AVal (b2n (negb (a =? b)))
  | Lt => AVal (b2n (a <? b))
  | Gt => AVal (b2n (b <? a))
  | Le => AVal (b2n (a <=? b))
  | Ge => AVal (b2n (b <=? a))
  end.

Definition arith_not (w : width) (a : N) : N := wmod w - 1 - a.

Definition is_cmp (op : binop) : bool :=
  match op with Eq | Ne | Lt | Gt | Le | Ge => true | _ => false end.

Definition binop_apply (op : binop) (w : width) (va vb : value) (l : logs) : eres value :=
  match va, vb with
  | VInt a, VInt b =>
      match arith op w a b with
      | AVal r => ROk (if is_cmp op then VBool (negb (r =? 0)) else VInt r) l
      | APanic k => RRev k l
      end
  | VBool a, VBool b =>
      match op with
      | Eq => ROk (VBool (Bool.eqb a b)) l
      | Ne => ROk (VBool (negb (Bool.eqb a b))) l
      | _ => RStk
      end
  | _, _ => RStk
  end.

(* ---- aggregates -------------------------------------------------------------------------- *)
Fixpoint set_nth {A} (l : list A) (i : nat) (x : A) : list A :=
  match l, i with
  | [], _ => []
  | _ :: l', O => x :: l'
  | y :: l', S i' => y :: set_nth l' i' x
  end.

(* dynamic index: the bound is checked before converting to nat *)
Definition index_of (k : N) (len : nat) : option nat :=
  if k <? N.of_nat len then Some (N.to_nat k) else None.

Inductive ures (A : Type) : Type := UOk (a : A) | UOob | UStuck.
Arguments UOk {A} a.
Arguments UOob {A}.
Arguments UStuck {A}.

Definition upd_at (vs : list value) (i : nat) (k : value -> ures value) : ures value :=
  match nth_error vs i with
  | Some vi => match k vi with
               | UOk vi' => UOk (VTup (set_nth vs i vi'))
               | UOob => UOob
               | UStuck => UStuck
               end
  | None => UStuck
  end.

Fixpoint assign_path (env : list value) (v : value) (path : list acc) (nv : value) : ures value :=
  match path with
  | [] => UOk nv
  | a :: p' =>
      match v with
      | VTup vs =>
          match a with
          | AField i => upd_at vs i (fun vi => assign_path env vi p' nv)
          | AIdxLit k =>
              match index_of k (length vs) with
              | Some i => upd_at vs i (fun vi => assign_path env vi p' nv)
              | None => UOob
              end
          | AIdxVar x =>
              match nth_error env x with
              | Some (VInt k) =>
                  match index_of k (length vs) with
                  | Some i => upd_at vs i (fun vi => assign_path env vi p' nv)
                  | None => UOob
                  end
              | _ => UStuck
              end
          end
      | _ => UStuck
      end
  end.

(* ---- patterns ---------------------------------------------------------------------------- *)
(* bindings are pushed on [acc], so the rightmost binder ends up at index 0 *)
Definition smatch (q : spat) (v : value) (acc : list value) : option (list value) :=
  match q with
  | QWild => Some acc
  | QVar => Some (v :: acc)
  | QInt k => match v with VInt n => if n =? k then Some acc else None | _ => None end
  | QBool b => match v with VBool c => if Bool.eqb b c then Some acc else None | _ => None end
  end.

Fixpoint smatch_list (qs : list spat) (vs : list value) (acc : list value) : option (list value) :=
  match qs, vs with
  | [], [] => Some acc
  | q :: qs', v :: vs' =>
      match smatch q v acc with
      | Some acc' => smatch_list qs' vs' acc'
      | None => None
      end
  | _, _ => None
  end.

Definition pmatch (p : pat) (v : value) : option (list value) :=
  match p with
  | PS q => smatch q v []
  | PTup qs => match v with VTup vs => smatch_list qs vs [] | _ => None end
  | PEnum tag q => match v with
                   | VEnum t pv => if Nat.eqb t tag then smatch q pv [] else None
                   | _ => None
                   end
  end.

Fixpoint find_arm (arms : list (pat * stmt)) (v : value) : option (list value * stmt) :=
  match arms with
  | [] => None
  | (p, s) :: arms' =>
      match pmatch p v with
      | Some bs => Some (bs, s)
      | None => find_arm arms' v
      end
  end.

(* ---- evaluator ---------------------------------------------------------------------------- *)
Inductive sig :=
| SNorm (env : list value)
| SBrk (env : list value)
| SCont (env : list value)
| SRet (v : value).

Definition map_sig (f : list value -> list value) (s : sig) : sig :=
  match s with
  | SNorm e => SNorm (f e)
  | SBrk e => SBrk (f e)
  | SCont e => SCont (f e)
  | SRet v => SRet v
  end.

Definition bind {A B} (r : eres A) (k : A -> logs -> eres B) : eres B :=
  match r with
  | ROk a l => k a l
  | RRev c l => RRev c l
  | RFuel => RFuel
  | RStk => RStk
  end.

Fixpoint eval_list (ev : logs -> expr -> eres value) (l : logs) (es : list expr) : eres (list value) :=
  match es with
  | [] => ROk [] l
  | e :: es' =>
      bind (ev l e) (fun v l1 =>
      bind (eval_list ev l1 es') (fun vs l2 => ROk (v :: vs) l2))
  end.

(* what a call makes of the body's result: falling off the end yields unit *)
Definition call_result (r : eres sig) : eres value :=
  match r with
  | ROk (SRet v) l2 => ROk v l2
  | ROk (SNorm _) l2 => ROk VUnit l2
  | ROk _ _ => RStk
  | RRev k l2 => RRev k l2
  | RFuel => RFuel
  | RStk => RStk
  end.

Section Eval.
  Variable fns : list fndef.

  Fixpoint eval_expr (n : nat) (env : list value) (l : logs) (e : expr) {struct n} : eres value :=
    match n with
    | O => RFuel
    | S n' =>
        match e with
        | EInt _ k => ROk (VInt k) l
        | EBool b => ROk (VBool b) l
        | EB256 k => ROk (VInt k) l
        | EVar i => match nth_error env i with Some v => ROk v l | None => RStk end
        | EBin op w a b =>
            bind (eval_expr n' env l a) (fun va l1 =>
            bind (eval_expr n' env l1 b) (fun vb l2 => binop_apply op w va vb l2))
        | ENot w a =>
            bind (eval_expr n' env l a) (fun va l1 =>
              match va with
              | VInt x => ROk (VInt (arith_not w x)) l1
              | VBool x => ROk (VBool (negb x)) l1
              | _ => RStk
              end)
        | EAnd a b =>
            bind (eval_expr n' env l a) (fun va l1 =>
              match va with
              | VBool true => eval_expr n' env l1 b
              | VBool false => ROk (VBool false) l1
              | _ => RStk
              end)
        | EOr a b =>
            bind (eval_expr n' env l a) (fun va l1 =>
              match va with
              | VBool true => ROk (VBool true) l1
              | VBool false => eval_expr n' env l1 b
              | _ => RStk
              end)
        | EIf c a b =>
            bind (eval_expr n' env l c) (fun vc l1 =>
              match vc with
              | VBool true => eval_expr n' env l1 a
              | VBool false => eval_expr n' env l1 b
              | _ => RStk
              end)
        | ETup es => bind (eval_list (eval_expr n' env) l es) (fun vs l1 => ROk (VTup vs) l1)
        | EProj a i =>
            bind (eval_expr n' env l a) (fun va l1 =>
              match va with
              | VTup vs => match nth_error vs i with Some v => ROk v l1 | None => RStk end
              | _ => RStk
              end)
        | EArr _ es => bind (eval_list (eval_expr n' env) l es) (fun vs l1 => ROk (VTup vs) l1)
        | EIdx a i =>
            bind (eval_expr n' env l a) (fun va l1 =>
            bind (eval_expr n' env l1 i) (fun vi l2 =>
              match va, vi with
              | VTup vs, VInt k =>
                  match index_of k (length vs) with
                  | Some j => match nth_error vs j with Some v => ROk v l2 | None => RStk end
                  | None => RRev COob l2
                  end
              | _, _ => RStk
              end))
        | EEnum _ tag a => bind (eval_expr n' env l a) (fun va l1 => ROk (VEnum tag va) l1)
        | ECall f es =>
            match nth_error fns f with
            | None => RStk
            | Some fd =>
                bind (eval_list (eval_expr n' env) l es) (fun vs l1 =>
                  call_result (eval_stmt n' vs l1 (fn_body fd)))
            end
        end
    end

  with eval_stmt (n : nat) (env : list value) (l : logs) (s : stmt) {struct n} : eres sig :=
    match n with
    | O => RFuel
    | S n' =>
        match s with
        | SSkip => ROk (SNorm env) l
        | SSeq a b =>
            bind (eval_stmt n' env l a) (fun sg l1 =>
              match sg with
              | SNorm env1 => eval_stmt n' env1 l1 b
              | _ => ROk sg l1
              end)
        | SLet e body =>
            bind (eval_expr n' env l e) (fun v l1 =>
            bind (eval_stmt n' (v :: env) l1 body) (fun sg l2 => ROk (map_sig (@tl value) sg) l2))
        | SAssign x path e =>
            bind (eval_expr n' env l e) (fun v l1 =>
              match nth_error env x with
              | Some old =>
                  match assign_path env old path v with
                  | UOk new => ROk (SNorm (set_nth env x new)) l1
                  | UOob => RRev COob l1
                  | UStuck => RStk
                  end
              | None => RStk
              end)
        | SIf c a b =>
            bind (eval_expr n' env l c) (fun vc l1 =>
              match vc with
              | VBool true => eval_stmt n' env l1 a
              | VBool false => eval_stmt n' env l1 b
              | _ => RStk
              end)
        | SWhile c body =>
            bind (eval_expr n' env l c) (fun vc l1 =>
              match vc with
              | VBool false => ROk (SNorm env) l1
              | VBool true =>
                  bind (eval_stmt n' env l1 body) (fun sg l2 =>
                    match sg with
                    | SNorm env1 | SCont env1 => eval_stmt n' env1 l2 (SWhile c body)
                    | SBrk env1 => ROk (SNorm env1) l2
                    | SRet v => ROk (SRet v) l2
                    end)
              | _ => RStk
              end)
        | SBreak => ROk (SBrk env) l
        | SContinue => ROk (SCont env) l
        | SReturn e => bind (eval_expr n' env l e) (fun v l1 => ROk (SRet v) l1)
        | SAssert e =>
            bind (eval_expr n' env l e) (fun v l1 =>
              match v with
              | VBool true => ROk (SNorm env) l1
              | VBool false => RRev CAssert l1
              | _ => RStk
              end)
        | SRequire c t v =>
            (* require is a function: both arguments are evaluated before the test *)
            bind (eval_expr n' env l c) (fun vc l1 =>
            bind (eval_expr n' env l1 v) (fun vv l2 =>
              match vc with
              | VBool true => ROk (SNorm env) l2
              | VBool false => RRev CRequire ((t, vv) :: l2)
              | _ => RStk
              end))
        | SRevert e =>
            bind (eval_expr n' env l e) (fun v l1 =>
              match v with
              | VInt k => RRev (CUser k) l1
              | _ => RStk
              end)
        | SLog t e => bind (eval_expr n' env l e) (fun v l1 => ROk (SNorm env) ((t, v) :: l1))
        | SMatch e arms =>
            bind (eval_expr n' env l e) (fun v l1 =>
              match find_arm arms v with
              | None => RStk
              | Some (bs, body) =>
                  bind (eval_stmt n' (bs ++ env) l1 body) (fun sg l2 =>
                    ROk (map_sig (@skipn value (length bs)) sg) l2)
              end)
        | SExpr e => bind (eval_expr n' env l e) (fun _ l1 => ROk (SNorm env) l1)
        end
    end.
End Eval.

(* ---- whole programs ------------------------------------------------------------------------ *)
Inductive outcome :=
| Return (lg : logs)                 (* the test function returned; logs oldest first *)
| Revert (k : cause) (lg : logs)
| OutOfFuel
| Stuck.

Definition eval (n : nat) (p : prog) : outcome :=
  match eval_stmt (p_fns p) n [] [] (p_main p) with
  | ROk (SNorm _) l | ROk (SRet _) l => Return (rev l)
  | ROk _ _ => Stuck
  | RRev k l => Revert k (rev l)
  | RFuel => OutOfFuel
  | RStk => Stuck
  end.
