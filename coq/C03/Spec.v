(* C03 — behaviour of a function for ANY interpretation of the instruction labels. *)
From SwayV Require Import Base.Util C03.Model.
Open Scope N_scope.

Section Sem.
  (* machine state and run-time values are arbitrary *)
  Variable St V : Type.
  (* constants have some value *)
  Variable cval : N -> V.
  (* an instruction label with argument values either aborts (None: revert, panic, out of gas ...) or
     yields a new state and a result value; effects, calls, memory all live in St *)
  Variable sem : N -> list V -> St -> option (St * V).
  (* how a condition value selects the branch *)
  Variable truthy : V -> bool.
  (* what a halting terminator does to the state (revert, jmp_mem, retd) *)
  Variable halt : N -> list V -> St -> St.

  Definition env := N -> option V.
  Definition upd (e : env) (x : N) (v : V) : env := fun y => if y =? x then Some v else e y.

  Definition eval (e : env) (o : operand) : option V :=
    match o with OVal v => e v | OConst c => Some (cval c) end.
  Fixpoint evals (e : env) (os : list operand) : option (list V) :=
    match os with
    | [] => Some []
    | o :: r => match eval e o, evals e r with Some v, Some vs => Some (v :: vs) | _, _ => None end
    end.

  Inductive result :=
  | RRet (label : N) (v : V) (s : St)       (* returned *)
  | RHalt (s : St)                          (* halting terminator *)
  | RAbort (s : St)                         (* an instruction aborted *)
  | RStuck                                  (* undefined value / missing block / wrong arity *)
  | RFuel.

  Fixpoint exec_body (e : env) (s : St) (is : list instr) : (env * St) + result :=
    match is with
    | [] => inl (e, s)
    | i :: r =>
      match evals e (i_ops i) with
      | None => inr RStuck
      | Some vs =>
        match sem (i_label i) vs s with
        | None => inr (RAbort s)
        | Some (s', v) => exec_body (upd e (i_id i) v) s' r
        end
      end
    end.

  Fixpoint bind_params (e : env) (ps : list (N * N)) (vs : list V) : option env :=
    match ps, vs with
    | [], [] => Some e
    | p :: ps', v :: vs' => bind_params (upd e (fst p) v) ps' vs'
    | _, _ => None
    end.

  (* enter block b with argument values vs *)
  Fixpoint run (fuel : nat) (f : fn) (b : nat) (vs : list V) (e : env) (s : St) : result :=
    match fuel with
    | O => RFuel
    | S k =>
      match nth_error f b with
      | None => RStuck
      | Some blk =>
        match bind_params e (b_params blk) vs with
        | None => RStuck
        | Some e1 =>
          match exec_body e1 s (b_body blk) with
          | inr r => r
          | inl (e2, s2) =>
            let go (t : target) :=
              match evals e2 (snd t) with
              | Some ws => run k f (fst t) ws e2 s2
              | None => RStuck
              end in
            match b_term blk with
            | TRet l o => match eval e2 o with Some v => RRet l v s2 | None => RStuck end
            | TBr t => go t
            | TCbr c t1 t2 =>
              match eval e2 c with
              | Some cv => if truthy cv then go t1 else go t2
              | None => RStuck
              end
            | THalt l os => match evals e2 os with Some ws => RHalt (halt l ws s2) | None => RStuck end
            end
          end
        end
      end
    end.

  (* calling the function: enter the entry block with the arguments, empty environment *)
  Definition behaves (fuel : nat) (f : fn) (args : list V) (s : St) : result :=
    run fuel f 0 args (fun _ => None) s.
End Sem.
