(* C03 — renaming invariance of the uninterpreted semantics, soundness of alpha_eq. *)
From SwayV Require Import Base.Util C03.Model C03.Spec.
Open Scope N_scope.

(* ---------- syntactic equality tests are sound *)
Lemma list_eqb_eq {A} (e : A -> A -> bool) : (forall x y, e x y = true -> x = y) ->
  forall a b, list_eqb e a b = true -> a = b.
Proof.
  intros He a. induction a as [|x a IH]; intros [|y b] H; try discriminate; [reflexivity|].
  cbn in H. apply andb_true_iff in H. destruct H as [H1 H2]. f_equal; [apply He; exact H1 | apply IH; exact H2].
Qed.

Lemma op_eqb_eq a b : op_eqb a b = true -> a = b.
Proof. destruct a, b; cbn; intros H; try discriminate; apply N.eqb_eq in H; congruence. Qed.

Lemma target_eqb_eq a b : target_eqb a b = true -> a = b.
Proof.
  destruct a as [a1 a2], b as [b1 b2]. unfold target_eqb. cbn. intros H. apply andb_true_iff in H. destruct H as [H1 H2].
  apply Nat.eqb_eq in H1. apply (list_eqb_eq _ op_eqb_eq) in H2. congruence.
Qed.

Lemma instr_eqb_eq a b : instr_eqb a b = true -> a = b.
Proof.
  destruct a, b. unfold instr_eqb. cbn. intros H. apply andb_true_iff in H. destruct H as [H H3].
  apply andb_true_iff in H. destruct H as [H1 H2]. apply N.eqb_eq in H1, H2.
  apply (list_eqb_eq _ op_eqb_eq) in H3. congruence.
Qed.

Lemma term_eqb_eq a b : term_eqb a b = true -> a = b.
Proof.
  destruct a, b; cbn; intros H; try discriminate.
  - apply andb_true_iff in H. destruct H as [H1 H2]. apply N.eqb_eq in H1. apply op_eqb_eq in H2. congruence.
  - apply target_eqb_eq in H. congruence.
  - apply andb_true_iff in H. destruct H as [H H3]. apply andb_true_iff in H. destruct H as [H1 H2].
    apply op_eqb_eq in H1. apply target_eqb_eq in H2, H3. congruence.
  - apply andb_true_iff in H. destruct H as [H1 H2]. apply N.eqb_eq in H1. apply (list_eqb_eq _ op_eqb_eq) in H2. congruence.
Qed.

Lemma param_eqb_eq a b : param_eqb a b = true -> a = b.
Proof.
  destruct a, b. unfold param_eqb. cbn. intros H. apply andb_true_iff in H. destruct H as [H1 H2].
  apply N.eqb_eq in H1, H2. congruence.
Qed.

Lemma block_eqb_eq a b : block_eqb a b = true -> a = b.
Proof.
  destruct a, b. unfold block_eqb. cbn. intros H. apply andb_true_iff in H. destruct H as [H H3].
  apply andb_true_iff in H. destruct H as [H1 H2].
  apply (list_eqb_eq _ param_eqb_eq) in H1. apply (list_eqb_eq _ instr_eqb_eq) in H2. apply term_eqb_eq in H3. congruence.
Qed.

Lemma fn_eqb_eq a b : fn_eqb a b = true -> a = b.
Proof. apply (list_eqb_eq _ block_eqb_eq). Qed.

(* ---------- first-occurrence numbering is injective on the occurring names *)
Lemma index_of_inj l : forall x y, In x l -> In y l -> index_of x l = index_of y l -> x = y.
Proof.
  induction l as [|z l IH]; intros x y Hx Hy H; [destruct Hx|].
  cbn [index_of] in H. destruct (x =? z) eqn:Hxz, (y =? z) eqn:Hyz.
  - apply N.eqb_eq in Hxz, Hyz. congruence.
  - lia.
  - lia.
  - apply N.eqb_neq in Hxz, Hyz. destruct Hx as [Hx | Hx]; [congruence|]. destruct Hy as [Hy | Hy]; [congruence|].
    apply IH; [exact Hx | exact Hy | lia].
Qed.

Section Ren.
  Variable St V : Type.
  Variable cval : N -> V.
  Variable sem : N -> list V -> St -> option (St * V).
  Variable truthy : V -> bool.
  Variable halt : N -> list V -> St -> St.

  Notation env := (env V).
  Notation eval := (eval V cval).
  Notation evals := (evals V cval).
  Notation exec_body := (exec_body St V cval sem).
  Notation run := (run St V cval sem truthy halt).

  Variable ids : list N.
  Variable r : N -> N.
  Hypothesis r_inj : forall x y, In x ids -> In y ids -> r x = r y -> x = y.

  Definition env_rel (e e' : env) : Prop := forall x, In x ids -> e' (r x) = e x.

  Lemma eval_ren e e' o : env_rel e e' -> incl (occ_op o) ids -> eval e' (ren_op r o) = eval e o.
  Proof.
    intros Hr Hi. destruct o as [v|c]; [|reflexivity]. cbn. apply Hr. apply Hi. left. reflexivity.
  Qed.

  Lemma evals_ren e e' os : env_rel e e' -> incl (occ_ops os) ids -> evals e' (map (ren_op r) os) = evals e os.
  Proof.
    intros Hr. induction os as [|o os IH]; intros Hi; [reflexivity|].
    cbn [map Spec.evals]. unfold occ_ops in Hi. cbn [flat_map] in Hi. apply incl_app_inv in Hi. destruct Hi as [Ho Hos].
    rewrite (eval_ren e e' o Hr Ho), (IH Hos). reflexivity.
  Qed.

  Lemma upd_rel e e' d v : env_rel e e' -> In d ids -> env_rel (upd V e d v) (upd V e' (r d) v).
  Proof.
    intros Hr Hd x Hx. unfold upd. destruct (x =? d) eqn:Hxd.
    - apply N.eqb_eq in Hxd. subst. rewrite N.eqb_refl. reflexivity.
    - apply N.eqb_neq in Hxd. destruct (r x =? r d) eqn:Hrr.
      + apply N.eqb_eq in Hrr. exfalso. apply Hxd. apply r_inj; assumption.
      + apply Hr. exact Hx.
  Qed.

  Definition body_rel (a a' : (env * St) + result St V) : Prop :=
    match a, a' with
    | inl (e, s), inl (e', s') => env_rel e e' /\ s = s'
    | inr x, inr y => x = y
    | _, _ => False
    end.

  Lemma exec_body_ren : forall is e e' s, env_rel e e' -> incl (flat_map occ_instr is) ids ->
    body_rel (exec_body e s is) (exec_body e' s (map (ren_instr r) is)).
  Proof.
    induction is as [|i is IH]; intros e e' s Hr Hi.
    - cbn. split; [exact Hr | reflexivity].
    - cbn [flat_map] in Hi. apply incl_app_inv in Hi. destruct Hi as [Hi1 His].
      assert (Hid : In (i_id i) ids) by (apply Hi1; left; reflexivity).
      assert (Hops : incl (occ_ops (i_ops i)) ids) by (intros x Hx; apply Hi1; right; exact Hx).
      cbn [map Spec.exec_body ren_instr i_ops i_label i_id]. rewrite (evals_ren e e' _ Hr Hops).
      destruct (evals e (i_ops i)) as [vs|]; [|reflexivity].
      destruct (sem (i_label i) vs s) as [[s' v]|]; [|reflexivity].
      apply IH; [apply upd_rel; assumption | exact His].
  Qed.

  Lemma bind_params_ren : forall ps vs e e', env_rel e e' -> incl (map fst ps) ids ->
    match bind_params V e ps vs, bind_params V e' (map (fun p => (r (fst p), snd p)) ps) vs with
    | Some e1, Some e1' => env_rel e1 e1'
    | None, None => True
    | _, _ => False
    end.
  Proof.
    induction ps as [|p ps IH]; intros vs e e' Hr Hi.
    - destruct vs; cbn; [exact Hr | exact I].
    - destruct vs as [|v vs]; cbn [map bind_params]; [exact I|].
      apply IH; [apply upd_rel; [exact Hr | apply Hi; left; reflexivity] | intros x Hx; apply Hi; right; exact Hx].
  Qed.

  Variable f : fn.
  Hypothesis ids_f : incl (occ_fn f) ids.

  Lemma occ_block_in b blk : nth_error f b = Some blk -> incl (occ_block blk) ids.
  Proof.
    intros Hb x Hx. apply ids_f. unfold occ_fn. apply in_flat_map. exists blk. split; [exact (nth_error_In _ _ Hb) | exact Hx].
  Qed.

  Lemma run_ren : forall fuel b vs e e' s, env_rel e e' ->
    run fuel (ren_fn r f) b vs e' s = run fuel f b vs e s.
  Proof.
    induction fuel as [|k IH]; intros b vs e e' s Hr; [reflexivity|].
    cbn [Spec.run]. unfold ren_fn. rewrite nth_error_map.
    destruct (nth_error f b) as [blk|] eqn:Hb; [|reflexivity]. cbn [option_map].
    pose proof (occ_block_in b blk Hb) as Hocc. unfold occ_block in Hocc.
    apply incl_app_inv in Hocc. destruct Hocc as [Hps Hrest]. apply incl_app_inv in Hrest. destruct Hrest as [Hbody Hterm].
    cbn [ren_block b_params b_body b_term].
    pose proof (bind_params_ren (b_params blk) vs e e' Hr Hps) as Hbp.
    destruct (bind_params V e (b_params blk) vs) as [e1|], (bind_params V e' _ vs) as [e1'|]; try contradiction; [|reflexivity].
    pose proof (exec_body_ren (b_body blk) e1 e1' s Hbp Hbody) as Hex.
    destruct (exec_body e1 s (b_body blk)) as [[e2 s2]|res], (exec_body e1' s _) as [[e2' s2']|res']; cbn in Hex; try contradiction.
    2:{ subst. reflexivity. }
    destruct Hex as [Hr2 <-].
    assert (Hgo : forall t, incl (occ_ops (snd t)) ids ->
      match evals e2' (snd (ren_target r t)) with Some ws => run k (map (ren_block r) f) (fst (ren_target r t)) ws e2' s2 | None => RStuck St V end =
      match evals e2 (snd t) with Some ws => run k f (fst t) ws e2 s2 | None => RStuck St V end).
    { intros t Ht. cbn [ren_target fst snd]. rewrite (evals_ren e2 e2' _ Hr2 Ht).
      destruct (evals e2 (snd t)) as [ws|]; [|reflexivity]. apply (IH _ _ _ _ _ Hr2). }
    destruct (b_term blk) as [l o | t | c t1 t2 | l os]; cbn [ren_term occ_term] in *.
    - rewrite (eval_ren e2 e2' o Hr2 Hterm). reflexivity.
    - apply Hgo. exact Hterm.
    - apply incl_app_inv in Hterm. destruct Hterm as [Hc Ht]. apply incl_app_inv in Ht. destruct Ht as [Ht1 Ht2].
      rewrite (eval_ren e2 e2' c Hr2 Hc). destruct (eval e2 c) as [cv|]; [|reflexivity].
      destruct (truthy cv); [apply Hgo; exact Ht1 | apply Hgo; exact Ht2].
    - rewrite (evals_ren e2 e2' os Hr2 Hterm). reflexivity.
  Qed.
End Ren.

Section Main.
  Variable St V : Type.
  Variable cval : N -> V.
  Variable sem : N -> list V -> St -> option (St * V).
  Variable truthy : V -> bool.
  Variable halt : N -> list V -> St -> St.

  Lemma behaves_canon fuel f args s :
    behaves St V cval sem truthy halt fuel (canon f) args s = behaves St V cval sem truthy halt fuel f args s.
  Proof.
    unfold behaves, canon.
    apply (run_ren St V cval sem truthy halt (occ_fn f) (fun x => index_of x (occ_fn f))).
    - intros x y Hx Hy H. exact (index_of_inj _ x y Hx Hy H).
    - apply incl_refl.
    - intros x _. reflexivity.
  Qed.

  Theorem dedup_eq_sound f g : alpha_eq f g = true ->
    forall fuel args s,
      behaves St V cval sem truthy halt fuel f args s = behaves St V cval sem truthy halt fuel g args s.
  Proof.
    intros H fuel args s. unfold alpha_eq in H. apply fn_eqb_eq in H.
    rewrite <- (behaves_canon fuel f), <- (behaves_canon fuel g), H. reflexivity.
  Qed.
End Main.
