(* C03 — judge for function-deduplication pairs exported by the harness: (removed function, its
   representative), both as Model.fn terms; 0 = alpha_eq accepts, 1 = rejects. *)
From SwayV Require Import Base.Util C03.Model C03.ModelVal.
Open Scope N_scope.
Definition judge_all (ps : list (fn * fn)) : list N :=
  map (fun p => if alpha_eq (fst p) (snd p) then 0 else 1) ps.

(* ---- (before, after) pairs of dce / globals-dce:
   0 dce_check accepts
   3 accepted only when every label counts as pure: an instruction with side effects was removed
     (e.g. a store to a dead local) — outside this validator, compared behaviourally
   2 a removed value is still used in `after`
   1 `after` is not `before` minus instructions *)
Definition all_labels (f : fn) : list N := flat_map (fun b => map i_label (b_body b)) f.
Definition uses_removed (f g : fn) : bool :=
  let rm := removed_ids f g in
  negb (forallb (fun b => forallb (fun i => ops_clean rm (i_ops i)) (b_body b) && term_clean rm (b_term b)) g).
Definition judge_dce (c : list N * fn * fn) : N :=
  match c with (pure, f, g) =>
    if dce_check pure f g then 0
    else if dce_check (all_labels f) f g then 3
    else if uses_removed f g then 2 else 1
  end.
Definition judge_dce_all (cs : list (list N * fn * fn)) : list N := map judge_dce cs.

(* ---- (before, after) pairs of simplify-cfg: 0 cfg_check accepts, 1 it does not (a real difference, or a
   merge that substitutes block parameters, which this validator does not cover) *)
Definition judge_cfg (c : list nat * fn * fn) : N :=
  match c with (bmap, f, g) => if cfg_check bmap f g then 0 else 1 end.
Definition judge_cfg_all (cs : list (list nat * fn * fn)) : list N := map judge_cfg cs.
