(* C03 — judge for function-deduplication pairs exported by the harness: (removed function, its
   representative), both as Model.fn terms; 0 = alpha_eq accepts, 1 = rejects. *)
From SwayV Require Import Base.Util C03.Model.
Open Scope N_scope.
Definition judge_all (ps : list (fn * fn)) : list N :=
  map (fun p => if alpha_eq (fst p) (snd p) then 0 else 1) ps.
