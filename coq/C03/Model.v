(* C03 — function bodies with UNINTERPRETED instructions, and the structural comparison
   "equal modulo a renaming of values" that function deduplication (sway-ir/src/optimize/fn_dedup.rs)
   approximates by hashing with localised value / block ids in order of first occurrence.
   A function is a list of blocks (block 0 = entry, its parameters are the function's arguments);
   an instruction is `id := label(operands)` where `label` stands for the opcode together with all its
   immediates (types, predicates, callee, asm text, ...), exported as an opaque number;
   terminators are ret / br / cbr / halt (revert, jmp_mem, retd: label + operands, no successor).
   No proofs in this file. *)
From SwayV Require Import Base.Util.
Open Scope N_scope.

Inductive operand := OVal (v : N) | OConst (c : N).

Record instr := mkI { i_id : N; i_label : N; i_ops : list operand }.

Definition target := (nat * list operand)%type.          (* block index, passed arguments *)

Inductive term :=
| TRet (label : N) (o : operand)
| TBr (t : target)
| TCbr (c : operand) (t1 t2 : target)
| THalt (label : N) (os : list operand).

(* block parameters carry their (opaque) type label: dedup hashes the argument types *)
Record block := mkB { b_params : list (N * N); b_body : list instr; b_term : term }.
Definition fn := list block.

(* ---------- renaming *)
Definition ren_op (r : N -> N) (o : operand) : operand :=
  match o with OVal v => OVal (r v) | OConst c => OConst c end.
Definition ren_target (r : N -> N) (t : target) : target := (fst t, map (ren_op r) (snd t)).
Definition ren_instr (r : N -> N) (i : instr) : instr :=
  mkI (r (i_id i)) (i_label i) (map (ren_op r) (i_ops i)).
Definition ren_term (r : N -> N) (t : term) : term :=
  match t with
  | TRet l o => TRet l (ren_op r o)
  | TBr t => TBr (ren_target r t)
  | TCbr c t1 t2 => TCbr (ren_op r c) (ren_target r t1) (ren_target r t2)
  | THalt l os => THalt l (map (ren_op r) os)
  end.
Definition ren_block (r : N -> N) (b : block) : block :=
  mkB (map (fun p => (r (fst p), snd p)) (b_params b)) (map (ren_instr r) (b_body b)) (ren_term r (b_term b)).
Definition ren_fn (r : N -> N) (f : fn) : fn := map (ren_block r) f.

(* ---------- occurrences, in the traversal order of hash_fn: block by block, parameters, then for
   every instruction its id and its operands, then the terminator's operands *)
Definition occ_op (o : operand) : list N := match o with OVal v => [v] | OConst _ => [] end.
Definition occ_ops (os : list operand) : list N := flat_map occ_op os.
Definition occ_instr (i : instr) : list N := i_id i :: occ_ops (i_ops i).
Definition occ_term (t : term) : list N :=
  match t with
  | TRet _ o => occ_op o
  | TBr t => occ_ops (snd t)
  | TCbr c t1 t2 => occ_op c ++ occ_ops (snd t1) ++ occ_ops (snd t2)
  | THalt _ os => occ_ops os
  end.
Definition occ_block (b : block) : list N :=
  map fst (b_params b) ++ flat_map occ_instr (b_body b) ++ occ_term (b_term b).
Definition occ_fn (f : fn) : list N := flat_map occ_block f.

(* position of the first occurrence (get_localised_id: the map's size when first seen) *)
Fixpoint index_of (x : N) (l : list N) : N :=
  match l with
  | [] => 0
  | y :: r => if x =? y then 0 else 1 + index_of x r
  end.

Definition canon (f : fn) : fn := ren_fn (fun x => index_of x (occ_fn f)) f.

(* ---------- decidable syntactic equality *)
Definition op_eqb (a b : operand) : bool :=
  match a, b with
  | OVal x, OVal y => x =? y
  | OConst x, OConst y => x =? y
  | _, _ => false
  end.
Fixpoint list_eqb {A} (e : A -> A -> bool) (a b : list A) : bool :=
  match a, b with
  | [], [] => true
  | x :: a', y :: b' => e x y && list_eqb e a' b'
  | _, _ => false
  end.
Definition target_eqb (a b : target) : bool := Nat.eqb (fst a) (fst b) && list_eqb op_eqb (snd a) (snd b).
Definition instr_eqb (a b : instr) : bool :=
  (i_id a =? i_id b) && (i_label a =? i_label b) && list_eqb op_eqb (i_ops a) (i_ops b).
Definition term_eqb (a b : term) : bool :=
  match a, b with
  | TRet l o, TRet l' o' => (l =? l') && op_eqb o o'
  | TBr t, TBr t' => target_eqb t t'
  | TCbr c t1 t2, TCbr c' t1' t2' => op_eqb c c' && target_eqb t1 t1' && target_eqb t2 t2'
  | THalt l os, THalt l' os' => (l =? l') && list_eqb op_eqb os os'
  | _, _ => false
  end.
Definition param_eqb (a b : N * N) : bool := (fst a =? fst b) && (snd a =? snd b).
Definition block_eqb (a b : block) : bool :=
  list_eqb param_eqb (b_params a) (b_params b) && list_eqb instr_eqb (b_body a) (b_body b) && term_eqb (b_term a) (b_term b).
Definition fn_eqb (a b : fn) : bool := list_eqb block_eqb a b.

(* the comparison *)
Definition alpha_eq (f g : fn) : bool := fn_eqb (canon f) (canon g).
