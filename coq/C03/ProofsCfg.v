(* C03 — soundness of the control-flow simplification validator (blocks removed / renumbered, chains of
   blocks merged without value substitution): every terminating run of `after` is a run of `before`. *)
From SwayV Require Import Base.Util C03.Model C03.Spec C03.Proofs C03.ModelVal.
From SwayV Require C04.Proofs.
Open Scope N_scope.

Section Cfg.
  Variable St V : Type.
  Variable cval : N -> V.
  Variable sem : N -> list V -> St -> option (St * V).
  Variable truthy : V -> bool.
  Variable halt : N -> list V -> St -> St.

  Notation env := (env V).
  Notation eval := (eval V cval).
  Notation evals := (evals V cval).
  Notation exec_body := (exec_body St V cval sem).
  Notation run := (run St V cval sem truthy halt).
  Notation RStuck := (RStuck St V).
  Notation RFuel := (RFuel St V).

  (* the part of `run` after the body of a block *)
  Definition term_step (k : nat) (h : fn) (e : env) (s : St) (t : term) : result St V :=
    let go (t : target) :=
      match evals e (snd t) with
      | Some ws => run k h (fst t) ws e s
      | None => RStuck
      end in
    match t with
    | TRet l o => match eval e o with Some v => RRet St V l v s | None => RStuck end
    | TBr t => go t
    | TCbr c t1 t2 =>
      match eval e c with
      | Some cv => if truthy cv then go t1 else go t2
      | None => RStuck
      end
    | THalt l os => match evals e os with Some ws => RHalt St V (halt l ws s) | None => RStuck end
    end.

  Definition block_step (k : nat) (h : fn) (e : env) (s : St) (body : list instr) (t : term) : result St V :=
    match exec_body e s body with
    | inr r => r
    | inl (e2, s2) => term_step k h e2 s2 t
    end.

  Lemma run_unfold k h b vs e s :
    run (S k) h b vs e s =
    match nth_error h b with
    | None => RStuck
    | Some blk =>
      match bind_params V e (b_params blk) vs with
      | None => RStuck
      | Some e1 => block_step k h e1 s (b_body blk) (b_term blk)
      end
    end.
  Proof.
    cbn [Spec.run]. destruct (nth_error h b) as [blk|]; [|reflexivity].
    destruct (bind_params V e (b_params blk) vs) as [e1|]; [|reflexivity].
    unfold block_step, term_step. destruct (exec_body e1 s (b_body blk)) as [[e2 s2]|r]; [|reflexivity].
    destruct (b_term blk); reflexivity.
  Qed.

  Lemma exec_body_app l1 : forall l2 e s,
    exec_body e s (l1 ++ l2) =
    match exec_body e s l1 with inr r => inr r | inl (e', s') => exec_body e' s' l2 end.
  Proof.
    induction l1 as [|i l1 IH]; intros l2 e s; [reflexivity|].
    cbn [app Spec.exec_body]. destruct (evals e (i_ops i)) as [vs|]; [|reflexivity].
    destruct (sem (i_label i) vs s) as [[s' v]|]; [|reflexivity]. apply IH.
  Qed.

  Variable f g : fn.
  Variable bmap : list nat.
  Hypothesis Hlen : length bmap = length g.
  Hypothesis Hblocks : forall j y, nth_error g j = Some y -> block_cfg f bmap j y = true.

  (* induction hypothesis on the fuel of `after` *)
  Definition sim (k : nat) : Prop :=
    forall j b vs e s, nth_error bmap j = Some b -> run k g j vs e s <> RFuel ->
      exists k', run k' f b vs e s = run k g j vs e s.

  Lemma target_sim k e s tg : sim k -> forall c tf, map_target_fuel c f bmap tg tf = true ->
    match evals e (snd tg) with Some ws => run k g (fst tg) ws e s | None => RStuck end <> RFuel ->
    exists k', match evals e (snd tf) with Some ws => run k' f (fst tf) ws e s | None => RStuck end =
               match evals e (snd tg) with Some ws => run k g (fst tg) ws e s | None => RStuck end.
  Proof.
    intros Hsim. induction c as [|c IHc]; intros tf Hm Hn; cbn [map_target_fuel] in Hm; apply orb_true_iff in Hm.
    - destruct Hm as [Hm | Hm]; [|discriminate].
      unfold direct_target in Hm. destruct (nth_error bmap (fst tg)) as [b|] eqn:Hb; [|discriminate].
      apply andb_true_iff in Hm. destruct Hm as [Hb' Hargs]. apply Nat.eqb_eq in Hb'.
      apply (list_eqb_eq _ op_eqb_eq) in Hargs. rewrite <- Hargs, <- Hb'.
      destruct (evals e (snd tg)) as [ws|]; [|exists O; reflexivity].
      exact (Hsim _ _ ws e s Hb Hn).
    - destruct Hm as [Hm | Hm].
      + unfold direct_target in Hm. destruct (nth_error bmap (fst tg)) as [b|] eqn:Hb; [|discriminate].
        apply andb_true_iff in Hm. destruct Hm as [Hb' Hargs]. apply Nat.eqb_eq in Hb'.
        apply (list_eqb_eq _ op_eqb_eq) in Hargs. rewrite <- Hargs, <- Hb'.
        destruct (evals e (snd tg)) as [ws|]; [|exists O; reflexivity].
        exact (Hsim _ _ ws e s Hb Hn).
      + destruct (snd tf) eqn:Hargs; [|discriminate].
        destruct (nth_error f (fst tf)) as [blk|] eqn:Hblk; [|discriminate].
        destruct (b_params blk) eqn:Hps; [|discriminate]. destruct (b_body blk) eqn:Hbody; [|discriminate].
        destruct (b_term blk) as [| t2 | |] eqn:Hterm; try discriminate.
        destruct (IHc t2 Hm Hn) as [k1 Hk1]. exists (S k1).
        cbn [Spec.evals]. rewrite run_unfold, Hblk, Hps. cbn [bind_params].
        unfold block_step. rewrite Hbody, Hterm. cbn [Spec.exec_body term_step]. exact Hk1.
  Qed.

  Lemma term_sim k e s tg tf : sim k -> map_term f bmap tg tf = true ->
    term_step k g e s tg <> RFuel -> exists k', term_step k' f e s tf = term_step k g e s tg.
  Proof.
    intros Hsim Hm Hn. destruct tg as [l o | t | c t1 t2 | l os], tf as [l' o' | t' | c' t1' t2' | l' os']; try discriminate; cbn [map_term] in Hm.
    - apply andb_true_iff in Hm. destruct Hm as [Hl Ho]. apply N.eqb_eq in Hl. apply op_eqb_eq in Ho. subst. exists O. reflexivity.
    - cbn [term_step] in *. apply (target_sim k e s t Hsim _ t' Hm Hn).
    - apply andb_true_iff in Hm. destruct Hm as [Hm Ht2]. apply andb_true_iff in Hm. destruct Hm as [Hc Ht1].
      apply op_eqb_eq in Hc. subst c'. cbn [term_step] in *.
      destruct (eval e c) as [cv|]; [|exists O; reflexivity].
      destruct (truthy cv); [apply (target_sim k e s t1 Hsim _ t1' Ht1 Hn) | apply (target_sim k e s t2 Hsim _ t2' Ht2 Hn)].
    - apply andb_true_iff in Hm. destruct Hm as [Hl Ho]. apply N.eqb_eq in Hl. apply (list_eqb_eq _ op_eqb_eq) in Ho. subst. exists O. reflexivity.
  Qed.

  Lemma firstn_eq_app {A} (l pre : list A) : firstn (length pre) l = pre -> l = pre ++ skipn (length pre) l.
  Proof. intros H. rewrite <- H at 1. symmetry. apply firstn_skipn. Qed.

  Lemma skipn_app_exact {A} (l1 l2 : list A) : skipn (length l1) (l1 ++ l2) = l2.
  Proof. induction l1 as [|x l1 IH]; [reflexivity | exact IH]. Qed.

  Lemma chain_sim k : sim k -> forall c b blk body tg e s,
    chain_ok c f bmap b body tg = true -> nth_error f b = Some blk ->
    block_step k g e s body tg <> RFuel ->
    exists k', block_step k' f e s (b_body blk) (b_term blk) = block_step k g e s body tg.
  Proof.
    intros Hsim. induction c as [|c IH]; intros b blk body tg e s Hc Hb Hn; [discriminate|].
    cbn [chain_ok] in Hc. rewrite Hb in Hc. apply andb_true_iff in Hc. destruct Hc as [Hpre Hc].
    apply (list_eqb_eq _ instr_eqb_eq) in Hpre. apply firstn_eq_app in Hpre.
    assert (Hex : exists rest, body = b_body blk ++ rest) by (eexists; exact Hpre). clear Hpre.
    destruct Hex as [rest ->]. rewrite skipn_app_exact in Hc.
    destruct (Nat.leb (length (b_body blk)) (length (b_body blk ++ rest))) eqn:Hle; [|discriminate].
    unfold block_step in *. rewrite exec_body_app in *.
    destruct (exec_body e s (b_body blk)) as [[e1 s1]|r0]; [|exists O; reflexivity].
    apply orb_true_iff in Hc. destruct Hc as [Hend | Hcont].
    - apply andb_true_iff in Hend. destruct Hend as [Hn' Hm]. apply Nat.eqb_eq in Hn'.
      assert (rest = []) as ->.
      { apply length_zero_iff_nil. rewrite app_length in Hn'. lia. }
      cbn [Spec.exec_body] in *. apply (term_sim k e1 s1 tg (b_term blk) Hsim Hm Hn).
    - destruct (b_term blk) as [| [b' args] | |]; try discriminate. destruct args; [|discriminate].
      destruct (nth_error f b') as [blk'|] eqn:Hb'; [|discriminate].
      destruct (b_params blk') eqn:Hps; [|discriminate].
      destruct (IH b' blk' rest tg e1 s1 Hcont Hb' Hn) as [k1 Hk1].
      exists (S k1). cbn [term_step fst snd Spec.evals]. rewrite run_unfold, Hb', Hps. cbn [bind_params]. exact Hk1.
  Qed.

  Lemma run_cfg : forall k, sim k.
  Proof.
    induction k as [|k IH]; intros j b vs e s Hj Hn; [exfalso; apply Hn; reflexivity|].
    rewrite run_unfold in *.
    destruct (nth_error g j) as [y|] eqn:Hy.
    2:{ exfalso. apply nth_error_None in Hy. assert (j < length bmap)%nat by (apply nth_error_Some; congruence). lia. }
    pose proof (Hblocks j y Hy) as Hbc. unfold block_cfg in Hbc. rewrite Hj in Hbc.
    destruct (nth_error f b) as [x|] eqn:Hx; [|discriminate].
    apply andb_true_iff in Hbc. destruct Hbc as [Hps Hchain]. apply (list_eqb_eq _ param_eqb_eq) in Hps. rewrite Hps in *.
    destruct (bind_params V e (b_params x) vs) as [e1|] eqn:Hbp.
    2:{ exists 1%nat. rewrite run_unfold, Hx, Hbp. reflexivity. }
    destruct (chain_sim k IH _ b x (b_body y) (b_term y) e1 s Hchain Hx Hn) as [k' Hk'].
    exists (S k'). rewrite run_unfold, Hx, Hbp. exact Hk'.
  Qed.
End Cfg.

Lemma cfg_check_blocks bmap f g : cfg_check bmap f g = true ->
  nth_error bmap 0 = Some 0%nat /\ length bmap = length g /\
  forall j y, nth_error g j = Some y -> block_cfg f bmap j y = true.
Proof.
  unfold cfg_check. destruct bmap as [|[|n] bm]; try discriminate. intros H.
  apply andb_true_iff in H. destruct H as [Hl Hall]. apply Nat.eqb_eq in Hl. split; [reflexivity|]. split; [exact Hl|].
  intros j y Hy. rewrite forallb_forall in Hall.
  specialize (Hall (j, y)). apply Hall. apply C04.Proofs.In_combine_seq. split; [lia|].
  replace (j - 0)%nat with j by lia. exact Hy.
Qed.

Theorem cfg_simulation_sound :
  forall (St V : Type) (cval : N -> V) (sem : N -> list V -> St -> option (St * V))
         (truthy : V -> bool) (halt : N -> list V -> St -> St) (bmap : list nat) (f g : fn),
    cfg_check bmap f g = true ->
    forall fuel args s,
      behaves St V cval sem truthy halt fuel g args s <> RFuel St V ->
      exists fuel', behaves St V cval sem truthy halt fuel' f args s = behaves St V cval sem truthy halt fuel g args s.
Proof.
  intros St V cval sem truthy halt bmap f g Hc fuel args s Hn.
  destruct (cfg_check_blocks bmap f g Hc) as [H0 [Hlen Hb]]. unfold behaves in *.
  exact (run_cfg St V cval sem truthy halt f g bmap Hlen Hb fuel 0%nat 0%nat args _ s H0 Hn).
Qed.
