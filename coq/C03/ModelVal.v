(* C03 — per-run validators for (before, after) pairs of function bodies exported by the harness with the
   SAME value numbers before and after the pass. No proofs in this file.
   dce_check : `after` is `before` with some instructions dropped; every dropped instruction carries a
               label from the list `pure` (side-effect free, decided by the exporter's classification of
               the opcode) and its result has no remaining use in `after`.
   cfg_check : `after` is `before` with blocks removed and renumbered and with chains of blocks merged
               (see below). *)
From SwayV Require Import Base.Util C03.Model.
Open Scope N_scope.

Definition memN (x : N) (l : list N) : bool := existsb (N.eqb x) l.

Definition op_clean (removed : list N) (o : operand) : bool :=
  match o with OVal v => negb (memN v removed) | OConst _ => true end.
Definition ops_clean (removed : list N) (os : list operand) : bool := forallb (op_clean removed) os.
Definition term_clean (removed : list N) (t : term) : bool :=
  match t with
  | TRet _ o => op_clean removed o
  | TBr t => ops_clean removed (snd t)
  | TCbr c t1 t2 => op_clean removed c && ops_clean removed (snd t1) && ops_clean removed (snd t2)
  | THalt _ os => ops_clean removed os
  end.

Definition droppable (pure removed : list N) (i : instr) : bool :=
  memN (i_label i) pure && memN (i_id i) removed.

(* bg is bf with droppable instructions left out; kept instructions do not use removed values *)
Fixpoint sub_body (pure removed : list N) (bf bg : list instr) : bool :=
  match bf with
  | [] => match bg with [] => true | _ => false end
  | i :: bf' =>
    match bg with
    | j :: bg' =>
      if instr_eqb i j then ops_clean removed (i_ops j) && sub_body pure removed bf' bg'
      else droppable pure removed i && sub_body pure removed bf' bg
    | [] => droppable pure removed i && sub_body pure removed bf' []
    end
  end.

Definition block_dce (pure removed : list N) (x y : block) : bool :=
  list_eqb param_eqb (b_params x) (b_params y) && term_eqb (b_term x) (b_term y)
  && term_clean removed (b_term y) && sub_body pure removed (b_body x) (b_body y).

Fixpoint blocks_dce (pure removed : list N) (f g : fn) : bool :=
  match f, g with
  | [], [] => true
  | x :: f', y :: g' => block_dce pure removed x y && blocks_dce pure removed f' g'
  | _, _ => false
  end.

Definition instr_ids (f : fn) : list N := flat_map (fun b => map i_id (b_body b)) f.
Definition removed_ids (f g : fn) : list N :=
  filter (fun v => negb (memN v (instr_ids g))) (instr_ids f).

Definition dce_check (pure : list N) (f g : fn) : bool := blocks_dce pure (removed_ids f g) f g.

(* ---------- control-flow simplification without value substitution.
   `bmap` gives for every block j of `after` the index m(j) of the block of `before` it starts at; block 0
   maps to block 0. Block j of `after` must be the concatenation of a chain m(j) = c0 -> c1 -> ... -> ck of
   `before` where every hop ci -> ci+1 is an unconditional branch WITHOUT arguments to a block WITHOUT
   parameters, its parameters are those of c0, its terminator is that of ck with every target t replaced by
   a block j' of `after` with m(j') = t and the same arguments. Blocks of `before` that are neither some m(j)
   nor inside a chain are simply gone (unreachable, or bypassed). The chain length is bounded by fuel. *)
Definition direct_target (bmap : list nat) (tg : target) (tf : target) : bool :=
  match nth_error bmap (fst tg) with
  | Some b => Nat.eqb b (fst tf) && list_eqb op_eqb (snd tg) (snd tf)
  | None => false
  end.

(* a target of `after` stands for the target tf of `before` either directly, or because tf is an empty
   forwarding block (no parameters, no instructions, `br t2(args)`) that has been bypassed
   (simplify-cfg's unlink_empty_blocks); fuel bounds the number of bypassed blocks *)
Fixpoint map_target_fuel (fuel : nat) (f : fn) (bmap : list nat) (tg : target) (tf : target) : bool :=
  direct_target bmap tg tf ||
  match fuel with
  | O => false
  | S k =>
    match snd tf, nth_error f (fst tf) with
    | [], Some blk =>
      match b_params blk, b_body blk, b_term blk with
      | [], [], TBr t2 => map_target_fuel k f bmap tg t2
      | _, _, _ => false
      end
    | _, _ => false
    end
  end.

Definition map_term (f : fn) (bmap : list nat) (tg tf : term) : bool :=
  let map_target := map_target_fuel (length f) f bmap in
  match tg, tf with
  | TRet l o, TRet l' o' => (l =? l') && op_eqb o o'
  | TBr t, TBr t' => map_target t t'
  | TCbr c t1 t2, TCbr c' t1' t2' => op_eqb c c' && map_target t1 t1' && map_target t2 t2'
  | THalt l os, THalt l' os' => (l =? l') && list_eqb op_eqb os os'
  | _, _ => false
  end.

(* does `body`/`tg` equal the chain starting at block b of f ? *)
Fixpoint chain_ok (fuel : nat) (f : fn) (bmap : list nat) (b : nat) (body : list instr) (tg : term) : bool :=
  match fuel with
  | O => false
  | S k =>
    match nth_error f b with
    | None => false
    | Some blk =>
      let n := length (b_body blk) in
      list_eqb instr_eqb (firstn n body) (b_body blk) &&
      (if Nat.leb n (length body) then
         (* either the chain ends here ... *)
         ((Nat.eqb n (length body)) && map_term f bmap tg (b_term blk))
         (* ... or it goes on through an argument-less branch to a parameter-less block *)
         || match b_term blk with
            | TBr (b', []) =>
              match nth_error f b' with
              | Some blk' => match b_params blk' with [] => chain_ok k f bmap b' (skipn n body) tg | _ => false end
              | None => false
              end
            | _ => false
            end
       else false)
    end
  end.

Definition block_cfg (f : fn) (bmap : list nat) (j : nat) (y : block) : bool :=
  match nth_error bmap j with
  | None => false
  | Some b =>
    match nth_error f b with
    | None => false
    | Some x => list_eqb param_eqb (b_params y) (b_params x) && chain_ok (S (length f)) f bmap b (b_body y) (b_term y)
    end
  end.

Definition cfg_check (bmap : list nat) (f g : fn) : bool :=
  match bmap with
  | O :: _ => Nat.eqb (length bmap) (length g) &&
              forallb (fun jy => block_cfg f bmap (fst jy) (snd jy)) (combine (seq 0 (length g)) g)
  | _ => false
  end.
