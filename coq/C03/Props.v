(* C03 — property theorems only. *)
From SwayV Require Import Base.Util C03.Model C03.Spec C03.Proofs C03.ModelVal C03.ProofsDce C03.ProofsCfg.
Open Scope N_scope.

(* Function deduplication's equivalence: if the structural comparison modulo renaming of values
   accepts two function bodies, then for ANY interpretation of the instruction labels (state type,
   value type, constants, per-label semantics incl. aborts, branch condition, halting terminators),
   any fuel, any arguments and any initial state the two functions behave identically. So replacing
   calls of one by calls of the other cannot change behaviour — and a merge of functions that differ
   in one operand, constant, label or branch target is rejected (examples below). *)
Theorem C03_dedup_eq_sound :
  forall (St V : Type) (cval : N -> V) (sem : N -> list V -> St -> option (St * V))
         (truthy : V -> bool) (halt : N -> list V -> St -> St) (f g : fn),
    alpha_eq f g = true ->
    forall fuel args s,
      behaves St V cval sem truthy halt fuel f args s = behaves St V cval sem truthy halt fuel g args s.
Proof. exact dedup_eq_sound. Qed.
Print Assumptions C03_dedup_eq_sound.

(* renaming invariance itself: an injective renaming of the occurring value names does not change
   behaviour *)
Theorem C03_canon_preserves :
  forall (St V : Type) (cval : N -> V) (sem : N -> list V -> St -> option (St * V))
         (truthy : V -> bool) (halt : N -> list V -> St -> St) fuel f args s,
    behaves St V cval sem truthy halt fuel (canon f) args s = behaves St V cval sem truthy halt fuel f args s.
Proof. exact behaves_canon. Qed.
Print Assumptions C03_canon_preserves.

(* Dead-code elimination validator: if `after` is `before` minus instructions whose labels are in `pure` and
   whose results are not used any more, then — for every interpretation in which the `pure` labels are
   side-effect free (always yield a value, never change the state) — `after` behaves exactly like `before`
   whenever `before` does not get stuck on an undefined value. *)
Theorem C03_dce_validator_sound :
  forall (St V : Type) (cval : N -> V) (sem : N -> list V -> St -> option (St * V))
         (truthy : V -> bool) (halt : N -> list V -> St -> St) (pure : list N) (f g : fn),
    dce_check pure f g = true ->
    (forall l, memN l pure = true -> forall vs s, exists v, sem l vs s = Some (s, v)) ->
    forall fuel args s,
      behaves St V cval sem truthy halt fuel f args s <> RStuck St V ->
      behaves St V cval sem truthy halt fuel g args s = behaves St V cval sem truthy halt fuel f args s.
Proof. exact dce_validator_sound. Qed.
Print Assumptions C03_dce_validator_sound.

(* Control-flow simplification validator (blocks removed and renumbered, chains of blocks linked by
   argument-less branches merged): every run of `after` that ends within its fuel is a run of `before`
   (with some other fuel: `before` takes more block steps), for every interpretation. *)
Theorem C03_cfg_simulation_sound :
  forall (St V : Type) (cval : N -> V) (sem : N -> list V -> St -> option (St * V))
         (truthy : V -> bool) (halt : N -> list V -> St -> St) (bmap : list nat) (f g : fn),
    cfg_check bmap f g = true ->
    forall fuel args s,
      behaves St V cval sem truthy halt fuel g args s <> RFuel St V ->
      exists fuel', behaves St V cval sem truthy halt fuel' f args s = behaves St V cval sem truthy halt fuel g args s.
Proof. exact cfg_simulation_sound. Qed.
Print Assumptions C03_cfg_simulation_sound.

Definition d_before : fn :=
  [ mkB [(0, 1)] [mkI 1 5 [OVal 0; OConst 3]; mkI 2 6 [OVal 0; OVal 0]; mkI 3 9 [OVal 2]] (TBr (1%nat, []));
    mkB [] [mkI 4 5 [OVal 3; OVal 0]] (TBr (3%nat, [OVal 4]));
    mkB [] [] (TRet 7 (OConst 1));
    mkB [(5, 1)] [] (TRet 7 (OVal 5)) ].
Definition d_after : fn :=      (* instruction 1 (label 5, pure) removed *)
  [ mkB [(0, 1)] [mkI 2 6 [OVal 0; OVal 0]; mkI 3 9 [OVal 2]] (TBr (1%nat, []));
    mkB [] [mkI 4 5 [OVal 3; OVal 0]] (TBr (3%nat, [OVal 4]));
    mkB [] [] (TRet 7 (OConst 1));
    mkB [(5, 1)] [] (TRet 7 (OVal 5)) ].
Definition c_after : fn :=      (* dead block 2 removed, blocks 0 and 1 merged, block 3 renumbered *)
  [ mkB [(0, 1)] [mkI 1 5 [OVal 0; OConst 3]; mkI 2 6 [OVal 0; OVal 0]; mkI 3 9 [OVal 2]; mkI 4 5 [OVal 3; OVal 0]] (TBr (1%nat, [OVal 4]));
    mkB [(5, 1)] [] (TRet 7 (OVal 5)) ].
Example C03_example_dce : dce_check [5; 6] d_before d_after = true /\ dce_check [6] d_before d_after = false
  /\ dce_check [5; 6] d_before (d_after ++ []) = true.
Proof. repeat split; vm_compute; reflexivity. Qed.
(* removing instruction 2, whose result is still used by instruction 3, is rejected *)
Example C03_example_dce_use :
  dce_check [5; 6; 9]
    d_before [ mkB [(0, 1)] [mkI 1 5 [OVal 0; OConst 3]; mkI 3 9 [OVal 2]] (TBr (1%nat, []));
               mkB [] [mkI 4 5 [OVal 3; OVal 0]] (TBr (3%nat, [OVal 4]));
               mkB [] [] (TRet 7 (OConst 1)); mkB [(5, 1)] [] (TRet 7 (OVal 5)) ] = false.
Proof. vm_compute. reflexivity. Qed.
Example C03_example_cfg : cfg_check [0%nat; 3%nat] d_before c_after = true /\ cfg_check [0%nat; 2%nat] d_before c_after = false.
Proof. split; vm_compute; reflexivity. Qed.

(* Non-vacuity: two bodies that differ only in value names are accepted; changing one operand, one
   constant or one label is rejected; and a concrete interpretation separates the rejected pair. *)
Definition f1 : fn :=
  [ mkB [(10, 1)] [mkI 11 5 [OVal 10; OConst 3]; mkI 12 6 [OVal 11; OVal 10]] (TCbr (OVal 12) (1%nat, [OVal 11]) (1%nat, [OVal 10]));
    mkB [(13, 1)] [] (TRet 7 (OVal 13)) ].
Definition f2 : fn :=   (* f1 renamed *)
  [ mkB [(70, 1)] [mkI 3 5 [OVal 70; OConst 3]; mkI 50 6 [OVal 3; OVal 70]] (TCbr (OVal 50) (1%nat, [OVal 3]) (1%nat, [OVal 70]));
    mkB [(4, 1)] [] (TRet 7 (OVal 4)) ].
Definition f3 : fn :=   (* one operand differs: second instruction uses 10,10 *)
  [ mkB [(10, 1)] [mkI 11 5 [OVal 10; OConst 3]; mkI 12 6 [OVal 10; OVal 10]] (TCbr (OVal 12) (1%nat, [OVal 11]) (1%nat, [OVal 10]));
    mkB [(13, 1)] [] (TRet 7 (OVal 13)) ].
Definition f4 : fn :=   (* one constant differs *)
  [ mkB [(10, 1)] [mkI 11 5 [OVal 10; OConst 4]; mkI 12 6 [OVal 11; OVal 10]] (TCbr (OVal 12) (1%nat, [OVal 11]) (1%nat, [OVal 10]));
    mkB [(13, 1)] [] (TRet 7 (OVal 13)) ].

Example C03_example_accept : alpha_eq f1 f2 = true.
Proof. vm_compute. reflexivity. Qed.
Example C03_example_reject : alpha_eq f1 f3 = false /\ alpha_eq f1 f4 = false.
Proof. split; vm_compute; reflexivity. Qed.
(* labels 5 = add, 6 = greater-than on N: f1 returns 4 and f4 returns 5 on argument 1 *)
Example C03_example_separates :
  let sem := fun (l : N) (vs : list N) (s : unit) =>
     match l, vs with
     | 5, [a; b] => Some (s, a + b)
     | 6, [a; b] => Some (s, if b <? a then 1 else 0)
     | _, _ => None end in
  behaves unit N (fun c => c) sem (fun v => negb (v =? 0)) (fun _ _ s => s) 5 f1 [1] tt <>
  behaves unit N (fun c => c) sem (fun v => negb (v =? 0)) (fun _ _ s => s) 5 f4 [1] tt.
Proof. vm_compute. discriminate. Qed.
