(* C03 — property theorems only. *)
From SwayV Require Import Base.Util C03.Model C03.Spec C03.Proofs.
Open Scope N_scope.

(* Function deduplication's equivalence: if the structural comparison modulo renaming of values
   accepts two function bodies, then for ANY interpretation of the instruction labels (state type,
   value type, constants, per-label semantics incl. aborts, branch condition, halting terminators),
   any fuel, any arguments and any initial state the two functions behave identically. So replacing
   calls of one by calls of the other cannot change behaviour — and a merge of functions that differ
   in one operand, constant, label or branch target is rejected (examples below). *)
Theorem C03_dedup_eq_sound :
  forall (St V : Type) (cval : N -> V) (sem : N -> list V -> St -> option (St * V))
         (truthy : V -> bool) (halt : N -> list V -> St -> St) (f g : fn),
    alpha_eq f g = true ->
    forall fuel args s,
      behaves St V cval sem truthy halt fuel f args s = behaves St V cval sem truthy halt fuel g args s.
Proof. exact dedup_eq_sound. Qed.
Print Assumptions C03_dedup_eq_sound.

(* renaming invariance itself: an injective renaming of the occurring value names does not change
   behaviour *)
Theorem C03_canon_preserves :
  forall (St V : Type) (cval : N -> V) (sem : N -> list V -> St -> option (St * V))
         (truthy : V -> bool) (halt : N -> list V -> St -> St) fuel f args s,
    behaves St V cval sem truthy halt fuel (canon f) args s = behaves St V cval sem truthy halt fuel f args s.
Proof. exact behaves_canon. Qed.
Print Assumptions C03_canon_preserves.

(* Non-vacuity: two bodies that differ only in value names are accepted; changing one operand, one
   constant or one label is rejected; and a concrete interpretation separates the rejected pair. *)
Definition f1 : fn :=
  [ mkB [(10, 1)] [mkI 11 5 [OVal 10; OConst 3]; mkI 12 6 [OVal 11; OVal 10]] (TCbr (OVal 12) (1%nat, [OVal 11]) (1%nat, [OVal 10]));
    mkB [(13, 1)] [] (TRet 7 (OVal 13)) ].
Definition f2 : fn :=   (* f1 renamed *)
  [ mkB [(70, 1)] [mkI 3 5 [OVal 70; OConst 3]; mkI 50 6 [OVal 3; OVal 70]] (TCbr (OVal 50) (1%nat, [OVal 3]) (1%nat, [OVal 70]));
    mkB [(4, 1)] [] (TRet 7 (OVal 4)) ].
Definition f3 : fn :=   (* one operand differs: second instruction uses 10,10 *)
  [ mkB [(10, 1)] [mkI 11 5 [OVal 10; OConst 3]; mkI 12 6 [OVal 10; OVal 10]] (TCbr (OVal 12) (1%nat, [OVal 11]) (1%nat, [OVal 10]));
    mkB [(13, 1)] [] (TRet 7 (OVal 13)) ].
Definition f4 : fn :=   (* one constant differs *)
  [ mkB [(10, 1)] [mkI 11 5 [OVal 10; OConst 4]; mkI 12 6 [OVal 11; OVal 10]] (TCbr (OVal 12) (1%nat, [OVal 11]) (1%nat, [OVal 10]));
    mkB [(13, 1)] [] (TRet 7 (OVal 13)) ].

Example C03_example_accept : alpha_eq f1 f2 = true.
Proof. vm_compute. reflexivity. Qed.
Example C03_example_reject : alpha_eq f1 f3 = false /\ alpha_eq f1 f4 = false.
Proof. split; vm_compute; reflexivity. Qed.
(* labels 5 = add, 6 = greater-than on N: f1 returns 4 and f4 returns 5 on argument 1 *)
Example C03_example_separates :
  let sem := fun (l : N) (vs : list N) (s : unit) =>
     match l, vs with
     | 5, [a; b] => Some (s, a + b)
     | 6, [a; b] => Some (s, if b <? a then 1 else 0)
     | _, _ => None end in
  behaves unit N (fun c => c) sem (fun v => negb (v =? 0)) (fun _ _ s => s) 5 f1 [1] tt <>
  behaves unit N (fun c => c) sem (fun v => negb (v =? 0)) (fun _ _ s => s) 5 f4 [1] tt.
Proof. vm_compute. discriminate. Qed.
