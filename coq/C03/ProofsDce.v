(* C03 — soundness of the dead-code-elimination validator over uninterpreted instruction semantics. *)
From SwayV Require Import Base.Util C03.Model C03.Spec C03.Proofs C03.ModelVal.
Open Scope N_scope.

Section Dce.
  Variable St V : Type.
  Variable cval : N -> V.
  Variable sem : N -> list V -> St -> option (St * V).
  Variable truthy : V -> bool.
  Variable halt : N -> list V -> St -> St.

  Notation env := (env V).
  Notation eval := (eval V cval).
  Notation evals := (evals V cval).
  Notation exec_body := (exec_body St V cval sem).
  Notation run := (run St V cval sem truthy halt).
  Notation RStuck := (RStuck St V).

  Variable pure removed : list N.
  (* what "side-effect free" means for the labels the exporter classifies as pure: for all arguments and
     states the instruction yields a value and leaves the state unchanged *)
  Hypothesis pure_sem : forall l, memN l pure = true -> forall vs s, exists v, sem l vs s = Some (s, v).

  Definition agree (ef eg : env) : Prop := forall x, memN x removed = false -> eg x = ef x.

  Lemma eval_agree ef eg o : agree ef eg -> op_clean removed o = true -> eval eg o = eval ef o.
  Proof.
    intros Ha Hc. destruct o as [v|c]; [|reflexivity]. cbn in *. apply Ha.
    destruct (memN v removed); [discriminate | reflexivity].
  Qed.

  Lemma evals_agree ef eg os : agree ef eg -> ops_clean removed os = true -> evals eg os = evals ef os.
  Proof.
    intros Ha. induction os as [|o os IH]; intros Hc; [reflexivity|].
    cbn in Hc. apply andb_true_iff in Hc. destruct Hc as [Ho Hos].
    cbn [Spec.evals]. rewrite (eval_agree ef eg o Ha Ho), (IH Hos). reflexivity.
  Qed.

  Lemma upd_agree ef eg x v : agree ef eg -> agree (upd V ef x v) (upd V eg x v).
  Proof. intros Ha y Hy. unfold upd. destruct (y =? x); [reflexivity | apply Ha; exact Hy]. Qed.

  Lemma upd_removed ef eg x v : agree ef eg -> memN x removed = true -> agree (upd V ef x v) eg.
  Proof.
    intros Ha Hx y Hy. unfold upd. destruct (y =? x) eqn:Hyx; [|apply Ha; exact Hy].
    apply N.eqb_eq in Hyx. subst. congruence.
  Qed.

  Definition body_rel (rf rg : (env * St) + result St V) : Prop :=
    match rf with
    | inr r => r = RStuck \/ rg = inr r
    | inl (ef', s') => exists eg', rg = inl (eg', s') /\ agree ef' eg'
    end.

  Lemma body_dce : forall bf bg ef eg s, sub_body pure removed bf bg = true -> agree ef eg ->
    body_rel (exec_body ef s bf) (exec_body eg s bg).
  Proof.
    induction bf as [|i bf IH]; intros bg ef eg s Hs Ha.
    - destruct bg; [|discriminate]. cbn. exists eg. split; [reflexivity | exact Ha].
    - assert (Hdrop : forall bg', droppable pure removed i = true -> sub_body pure removed bf bg' = true ->
                body_rel (exec_body ef s (i :: bf)) (exec_body eg s bg')).
      { intros bg' Hd Hs'. unfold droppable in Hd. apply andb_true_iff in Hd. destruct Hd as [Hp Hr].
        cbn [Spec.exec_body]. destruct (evals ef (i_ops i)) as [vs|]; [|cbn; left; reflexivity].
        destruct (pure_sem _ Hp vs s) as [v Hv]. rewrite Hv.
        apply IH; [exact Hs' | apply upd_removed; assumption]. }
      cbn [sub_body] in Hs. destruct bg as [|j bg'].
      + apply andb_true_iff in Hs. destruct Hs as [Hd Hs']. apply Hdrop; assumption.
      + destruct (instr_eqb i j) eqn:Hij.
        * apply instr_eqb_eq in Hij. subst j. apply andb_true_iff in Hs. destruct Hs as [Hc Hs'].
          cbn [Spec.exec_body]. rewrite (evals_agree ef eg _ Ha Hc).
          destruct (evals ef (i_ops i)) as [vs|]; [|cbn; left; reflexivity].
          destruct (sem (i_label i) vs s) as [[s' v]|]; [|cbn; right; reflexivity].
          apply IH; [exact Hs' | apply upd_agree; exact Ha].
        * apply andb_true_iff in Hs. destruct Hs as [Hd Hs']. apply Hdrop; assumption.
  Qed.

  Lemma bind_params_agree : forall ps vs ef eg, agree ef eg ->
    match bind_params V ef ps vs, bind_params V eg ps vs with
    | Some ef1, Some eg1 => agree ef1 eg1
    | None, None => True
    | _, _ => False
    end.
  Proof.
    induction ps as [|p ps IH]; intros vs ef eg Ha.
    - destruct vs; cbn; [exact Ha | exact I].
    - destruct vs as [|v vs]; cbn [bind_params]; [exact I|]. apply IH. apply upd_agree. exact Ha.
  Qed.

  Lemma blocks_dce_nth : forall f g b, blocks_dce pure removed f g = true ->
    match nth_error f b, nth_error g b with
    | Some x, Some y => block_dce pure removed x y = true
    | None, None => True
    | _, _ => False
    end.
  Proof.
    induction f as [|x f IH]; intros g b H.
    - destruct g; [|discriminate]. destruct b; exact I.
    - destruct g as [|y g]; [discriminate|]. cbn [blocks_dce] in H. apply andb_true_iff in H. destruct H as [Hb Hr].
      destruct b as [|b]; cbn [nth_error]; [exact Hb | apply IH; exact Hr].
  Qed.

  Variable f g : fn.
  Hypothesis Hcheck : blocks_dce pure removed f g = true.

  Lemma run_dce : forall fuel b vs ef eg s, agree ef eg ->
    run fuel f b vs ef s <> RStuck -> run fuel g b vs eg s = run fuel f b vs ef s.
  Proof.
    induction fuel as [|k IH]; intros b vs ef eg s Ha Hns; [reflexivity|].
    cbn [Spec.run] in *. pose proof (blocks_dce_nth f g b Hcheck) as Hb.
    destruct (nth_error f b) as [x|], (nth_error g b) as [y|]; try (exfalso; exact Hb); [|reflexivity].
    unfold block_dce in Hb. apply andb_true_iff in Hb. destruct Hb as [Hb Hsub].
    apply andb_true_iff in Hb. destruct Hb as [Hb Hclean]. apply andb_true_iff in Hb. destruct Hb as [Hps Hterm].
    apply (list_eqb_eq _ param_eqb_eq) in Hps. apply term_eqb_eq in Hterm. rewrite <- Hps, <- Hterm in *.
    pose proof (bind_params_agree (b_params x) vs ef eg Ha) as Hbp.
    destruct (bind_params V ef (b_params x) vs) as [ef1|], (bind_params V eg (b_params x) vs) as [eg1|]; try (exfalso; exact Hbp); [|reflexivity].
    pose proof (body_dce (b_body x) (b_body y) ef1 eg1 s Hsub Hbp) as Hex. unfold body_rel in Hex.
    destruct (exec_body ef1 s (b_body x)) as [[ef2 s2]|r].
    2:{ destruct Hex as [-> | ->]; [congruence | reflexivity]. }
    destruct Hex as [eg2 [-> Ha2]].
    assert (Hgo : forall t, ops_clean removed (snd t) = true ->
      match evals ef2 (snd t) with Some ws => run k f (fst t) ws ef2 s2 | None => RStuck end <> RStuck ->
      match evals eg2 (snd t) with Some ws => run k g (fst t) ws eg2 s2 | None => RStuck end =
      match evals ef2 (snd t) with Some ws => run k f (fst t) ws ef2 s2 | None => RStuck end).
    { intros t Hc Hn. rewrite (evals_agree ef2 eg2 _ Ha2 Hc). destruct (evals ef2 (snd t)) as [ws|]; [|reflexivity].
      apply IH; assumption. }
    destruct (b_term x) as [l o | t | c t1 t2 | l os]; cbn [term_clean] in Hclean.
    - rewrite (eval_agree ef2 eg2 o Ha2 Hclean). reflexivity.
    - apply Hgo; assumption.
    - apply andb_true_iff in Hclean. destruct Hclean as [Hclean Ht2]. apply andb_true_iff in Hclean. destruct Hclean as [Hc Ht1].
      rewrite (eval_agree ef2 eg2 c Ha2 Hc). destruct (eval ef2 c) as [cv|]; [|reflexivity].
      destruct (truthy cv); apply Hgo; assumption.
    - rewrite (evals_agree ef2 eg2 os Ha2 Hclean). reflexivity.
  Qed.
End Dce.

Theorem dce_validator_sound :
  forall (St V : Type) (cval : N -> V) (sem : N -> list V -> St -> option (St * V))
         (truthy : V -> bool) (halt : N -> list V -> St -> St) (pure : list N) (f g : fn),
    dce_check pure f g = true ->
    (forall l, memN l pure = true -> forall vs s, exists v, sem l vs s = Some (s, v)) ->
    forall fuel args s,
      behaves St V cval sem truthy halt fuel f args s <> RStuck St V ->
      behaves St V cval sem truthy halt fuel g args s = behaves St V cval sem truthy halt fuel f args s.
Proof.
  intros St V cval sem truthy halt pure f g Hc Hp fuel args s Hn. unfold behaves in *.
  apply (run_dce St V cval sem truthy halt pure (removed_ids f g) Hp f g Hc); [|exact Hn].
  intros x _. reflexivity.
Qed.
