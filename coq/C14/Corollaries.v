(* C14 — the model of check_match_expression_usefulness and of the warning logic is exact. *)
From SwayV Require Import Base.Util C14.Model C14.Spec C14.Basics C14.Useful C14.Typing C14.Matrix C14.UsefulExact C14.Source.
From Coq Require Import ZifyBool ZifyN.
Local Open Scope N_scope.

Definition single (p : pat) : list pat := [p].
Definition arms_ok (t : ty) (arms : list scrut) : Prop := forall s, In s arms -> scrut_okb s t = true.

Lemma usefulP_single t arms q : arms_ok t arms ->
  (usefulP [t] (map single (map from_scrutinee arms)) [q] <->
   exists v, has_tyb v t = true /\ matches q v = true /\ forall r, In r arms -> smatches r v = false).
Proof.
  intros Hok. split.
  - intros [vs [Hty [Hm Hun]]]. destruct vs as [|v [|v' vs]]; try discriminate Hty; [|cbn in Hty; rewrite andb_false_r in Hty; discriminate Hty]. cbn in Hty, Hm. rewrite andb_true_r in Hty, Hm.
    exists v. repeat split; auto. intros r Hr. specialize (Hun [from_scrutinee r]).
    rewrite <- (from_scrutinee_matches r t v (Hok r Hr) Hty).
    assert (Hx : vmatches [from_scrutinee r] [v] = false) by (apply Hun; change [from_scrutinee r] with (single (from_scrutinee r)); apply in_map; now apply in_map).
    cbn [vmatches] in Hx. rewrite andb_true_r in Hx. exact Hx.
  - intros [v [Hv [Hm Hun]]]. exists [v]. cbn. rewrite Hv, Hm. repeat split; auto.
    intros row Hrow. apply in_map_iff in Hrow. destruct Hrow as [p [<- Hp]]. apply in_map_iff in Hp. destruct Hp as [r [<- Hr]].
    cbn [single vmatches]. rewrite andb_true_r. rewrite (from_scrutinee_matches r t v (Hok r Hr) Hv). now apply Hun.
Qed.

Lemma arms_loop_spec fuel t : wf_tyb t = true ->
  forall arms matrix flags m', typedM [t] matrix -> (forall p, In p arms -> pat_okb p t = true) ->
  arms_loop fuel t matrix arms = Ok (flags, m') ->
  m' = matrix ++ map single arms /\ length flags = length arms /\
  forall j p, nth_error arms j = Some p ->
              (nth j flags false = true <-> usefulP [t] (matrix ++ map single (firstn j arms)) [p]).
Proof.
  intros Hwf. induction arms as [|p arms IH]; intros matrix flags m' HM Hok H; cbn [arms_loop] in H.
  - injection H as <- <-. rewrite app_nil_r. split; [reflexivity|]. split; [reflexivity|]. intros j q Hj. destruct j; discriminate Hj.
  - destruct (useful fuel [t] matrix [p]) as [wr| | |] eqn:Eu; try discriminate H. cbn [bindo] in H.
    destruct (arms_loop fuel t (matrix ++ [[p]]) arms) as [[fl mm]| | |] eqn:El; try discriminate H. cbn [bindo fst snd] in H.
    injection H as <- <-.
    assert (Hp : pat_okb p t = true) by (apply Hok; now left).
    assert (HM' : typedM [t] (matrix ++ [[p]])).
    { intros row Hr. apply in_app_or in Hr. destruct Hr as [Hr|[<-|[]]]; [now apply HM|]. cbn. now rewrite Hp. }
    destruct (IH _ _ _ HM' (fun x Hx => Hok x (or_intror Hx)) El) as [E1 [E2 E3]].
    split; [rewrite E1, <- app_assoc; reflexivity|]. split; [cbn; now rewrite E2|].
    intros j x Hj. destruct j as [|j]; cbn [nth firstn map] in *.
    + injection Hj as <-. rewrite app_nil_r. apply (useful_exact fuel [t] matrix [p] wr); auto.
      * cbn. now rewrite Hwf.
      * cbn. now rewrite Hp.
    + rewrite (E3 j x Hj). rewrite <- app_assoc. reflexivity.
Qed.

Lemma analyse_inv fuel t arms rep : analyse fuel t arms = Ok rep ->
  exists flags m' wr, arms_loop fuel t [] (map from_scrutinee arms) = Ok (flags, m') /\
                      useful fuel [t] m' [PWild] = Ok wr /\
                      rep_nonexhaustive rep = has_witnesses wr /\ rep_warned rep = warned_arms arms flags.
Proof.
  unfold analyse, check_usefulness. intros H.
  destruct (arms_loop fuel t [] (map from_scrutinee arms)) as [[flags m']| | |] eqn:El; try discriminate H. cbn [bindo fst snd] in H.
  destruct (useful fuel [t] m' [PWild]) as [wr| | |] eqn:Eu; try discriminate H. cbn [bindo fst snd] in H.
  injection H as <-. exists flags, m', wr. cbn. auto.
Qed.

Lemma arms_typed t arms : arms_ok t arms -> forall p, In p (map from_scrutinee arms) -> pat_okb p t = true.
Proof. intros Hok p Hp. apply in_map_iff in Hp. destruct Hp as [s [<- Hs]]. apply from_scrutinee_typed. now apply Hok. Qed.

Theorem nonexhaustive_exact fuel t arms rep :
  wf_tyb t = true -> arms_ok t arms -> analyse fuel t arms = Ok rep ->
  (rep_nonexhaustive rep = true <-> uncovered t arms).
Proof.
  intros Hwf Hok H. destruct (analyse_inv _ _ _ _ H) as [flags [m' [wr [El [Eu [E1 _]]]]]]. rewrite E1.
  destruct (arms_loop_spec fuel t Hwf _ [] flags m' (fun r (Hr : In r []) => match Hr with end) (arms_typed t arms Hok) El) as [Em _].
  cbn [app] in Em. subst m'.
  assert (HM : typedM [t] (map single (map from_scrutinee arms))).
  { intros row Hr. apply in_map_iff in Hr. destruct Hr as [p [<- Hp]]. cbn. now rewrite (arms_typed t arms Hok p Hp). }
  rewrite (useful_exact fuel [t] _ [PWild] wr) by (first [exact HM | exact Eu | cbn; rewrite ?Hwf; reflexivity]).
  rewrite (usefulP_single t arms PWild Hok). unfold uncovered, has_ty. split.
  - intros [v [Hv [_ Hun]]]. eauto.
  - intros [v [Hv Hun]]. exists v. auto.
Qed.

Lemma firstn_In' {A} : forall (l : list A) n x, In x (firstn n l) -> In x l.
Proof. induction l as [|a l IH]; intros [|n] x H; cbn in *; try tauto. destruct H; [now left|right; eauto]. Qed.

Lemma nth_error_firstn' {A} : forall (l : list A) i c x, (c < i)%nat -> nth_error l c = Some x -> nth_error (firstn i l) c = Some x.
Proof.
  induction l as [|a l IH]; intros i c x Hlt H; [destruct c; discriminate H|]. destruct i; [lia|]. destruct c; [exact H|].
  cbn in *. apply IH; [lia|exact H].
Qed.

(* the reachability flag of every arm is exact *)
Lemma flags_exact fuel t arms flags m' :
  wf_tyb t = true -> arms_ok t arms -> arms_loop fuel t [] (map from_scrutinee arms) = Ok (flags, m') ->
  length flags = length arms /\ forall i, (i < length arms)%nat -> (nth i flags false = true <-> reachable t arms i).
Proof.
  intros Hwf Hok El.
  destruct (arms_loop_spec fuel t Hwf _ [] flags m' (fun r (Hr : In r []) => match Hr with end) (arms_typed t arms Hok) El) as [_ [Hl Hf]].
  rewrite map_length in Hl. split; [exact Hl|]. intros i Hi.
  destruct (nth_error arms i) as [s|] eqn:Es; [|apply nth_error_None in Es; lia].
  assert (Hp : nth_error (map from_scrutinee arms) i = Some (from_scrutinee s)) by (rewrite nth_error_map, Es; reflexivity).
  rewrite (Hf i _ Hp). cbn [app]. rewrite firstn_map.
  assert (Hok' : arms_ok t (firstn i arms)) by (intros x Hx; apply Hok; eapply firstn_In'; eauto).
  rewrite (usefulP_single t (firstn i arms) (from_scrutinee s) Hok'). unfold reachable, has_ty.
  assert (Hs : scrut_okb s t = true) by (apply Hok; eapply nth_error_In; eauto). split.
  - intros [v [Hv [Hm Hun]]]. exists v, s. rewrite <- (from_scrutinee_matches s t v Hs Hv). auto.
  - intros [v [s' [Hv [E [Hm Hun]]]]]. rewrite Es in E. injection E as <-. exists v. rewrite (from_scrutinee_matches s t v Hs Hv). auto.
Qed.

(* ---------- the warnings ---------- *)
Lemma position_some {A} (f : A -> bool) : forall l c, position f l = Some c -> exists x, nth_error l c = Some x /\ f x = true.
Proof.
  induction l as [|a l IH]; intros c H; [discriminate H|]. cbn [position] in H. destruct (f a) eqn:Ef.
  - injection H as <-. exists a. auto.
  - destruct (position f l) as [c'|] eqn:Ep; [|discriminate H]. cbn in H. injection H as <-. destruct (IH c' eq_refl) as [x Hx]. exists x. exact Hx.
Qed.

Lemma removelast_nth_error {A} : forall (l : list A) c x, nth_error (removelast l) c = Some x -> nth_error l c = Some x.
Proof.
  induction l as [|a l IH]; intros c x H; [destruct c; discriminate H|]. cbn [removelast] in H. destruct l as [|b l]; [destruct c; discriminate H|].
  destruct c as [|c]; [exact H|]. cbn in *. now apply IH.
Qed.

Lemma nth_map_negb : forall l i, (i < length l)%nat -> nth i (map negb l) false = negb (nth i l false).
Proof. induction l as [|b l IH]; intros i Hi; [cbn in Hi; lia|]. destruct i; [reflexivity|]. cbn in *. apply IH. lia. Qed.

Lemma nth_map_combine_seq (g : nat * bool -> bool) : forall l k i, (i < length l)%nat ->
  nth i (map g (combine (seq k (length l)) l)) false = g ((k + i)%nat, nth i l false).
Proof.
  induction l as [|b l IH]; intros k i Hi; [cbn in Hi; lia|]. cbn [length seq combine map]. destruct i as [|i].
  - cbn. now rewrite Nat.add_0_r.
  - cbn [nth]. rewrite IH by (cbn in Hi; lia). f_equal. f_equal. lia.
Qed.

Theorem arm_unreachable_exact fuel t arms rep :
  wf_tyb t = true -> arms_ok t arms -> analyse fuel t arms = Ok rep ->
  forall i, (i < length arms)%nat -> (nth i (rep_warned rep) false = true <-> ~ reachable t arms i).
Proof.
  intros Hwf Hok H i Hi. destruct (analyse_inv _ _ _ _ H) as [flags [m' [wr [El [_ [_ Ew]]]]]]. rewrite Ew.
  destruct (flags_exact fuel t arms flags m' Hwf Hok El) as [Hl Hf].
  assert (Hneg : negb (nth i flags false) = true <-> ~ reachable t arms i).
  { rewrite <- (Hf i Hi). destruct (nth i flags false); cbn; split; intros; try discriminate; try congruence; try (exfalso; auto; fail). }
  unfold warned_arms. destruct (interior_catch_all_arm_position arms) as [c|] eqn:Ec.
  - rewrite nth_map_combine_seq by lia. cbn [Nat.add fst snd]. destruct (Nat.leb_spec i c) as [Hle|Hgt]; [exact Hneg|].
    split; [intros _|reflexivity]. unfold interior_catch_all_arm_position in Ec. destruct arms as [|a0 arms0] eqn:Ea; [discriminate Ec|]. rewrite <- Ea in *.
    destruct (position_some _ _ _ Ec) as [x [Hx Hcx]]. apply removelast_nth_error in Hx.
    intros [v [s [Hv [Hs [Hm Hun]]]]]. 
    assert (Hxin : In x (firstn i arms)).
    { apply (nth_error_In _ c). apply nth_error_firstn'; [lia|exact Hx]. }
    specialize (Hun x Hxin). rewrite (catch_all_matches x t v Hcx (Hok x (nth_error_In _ _ Hx)) Hv) in Hun. discriminate Hun.
  - rewrite nth_map_negb by lia. exact Hneg.
Qed.
