(* C14 — property theorems only.

   All statements are about the model of the REPAIRED code (coq/C14/Model.v) with explicit fuel for the
   recursion of is_useful: they are stated for every fuel and every run that ends in [Ok] (the model's
   [OutOfFuel] and the Rust-side internal-error outcomes [Err]/[Panic] are excluded in the statements; the
   per-case judge reports a model run that ends in them, codes 13/14).  Hypotheses: column types are
   inhabited ([wf_tyb]: enums have a variant), the matrix, the row and the arms are well typed ([row_okb],
   [scrut_okb]: literals in range, variants/fields exist, a struct scrutinee lists a field at most once,
   or-patterns are non-empty).

   C14_useful_exact            PROVED (both directions)      C14_nonexhaustive_exact   PROVED
   C14_witness_uncovered       PROVED                        C14_arm_unreachable_exact PROVED
   C14_runtime_first_match     PROVED (condition built from the matcher.rs requirement tree, lazy evaluation)
   plus the oracle / interval / signature / matrix lemmas below.
   Not modelled, hence outside the theorems: distribution of or-patterns inside reported witnesses
   (serialize_multi_patterns; the model keeps them nested, same value set), or-alternatives that bind
   variables in the condition builder (other code path).                                              *)
From SwayV Require Import Base.Util C14.Model C14.Spec C14.Basics C14.Ranges C14.Useful C14.Complete C14.Judge C14.JudgeSound
  C14.Typing C14.Matrix C14.UsefulExact C14.Source C14.Corollaries C14.Runtime C14.Witness1 C14.Witness2.
Local Open Scope N_scope.

(* ==== the central theorems ==== *)
(* algorithm U of the model is exact: a witness report is non-empty iff some well-typed value vector matches
   q and no row of P *)
Theorem C14_useful_exact : forall fuel ts P q r,
  forallb wf_tyb ts = true -> (forall row, In row P -> row_okb row ts = true) -> row_okb q ts = true ->
  useful fuel ts P q = Ok r ->
  (has_witnesses r = true <->
   exists vs, vals_tyb vs ts = true /\ vmatches q vs = true /\ forall row, In row P -> vmatches row vs = false).
Proof. exact useful_exact. Qed.
Print Assumptions C14_useful_exact.

(* check_match_expression_usefulness: the match is reported non-exhaustive iff some value of the scrutinee
   type is matched by no arm *)
Theorem C14_nonexhaustive_exact : forall fuel t arms rep,
  wf_tyb t = true -> (forall s, In s arms -> scrut_okb s t = true) -> analyse fuel t arms = Ok rep ->
  (rep_nonexhaustive rep = true <-> uncovered t arms).
Proof. exact nonexhaustive_exact. Qed.
Print Assumptions C14_nonexhaustive_exact.

(* every pattern reported as missing denotes at least one value of the type and only values that no arm matches *)
Theorem C14_witness_uncovered : forall fuel t arms rep,
  wf_tyb t = true -> (forall s, In s arms -> scrut_okb s t = true) -> analyse fuel t arms = Ok rep ->
  rep_nonexhaustive rep = true ->
  rep_witness rep <> [] /\ forall w, In w (rep_witness rep) -> witness_ok t arms w.
Proof. exact witness_uncovered. Qed.
Print Assumptions C14_witness_uncovered.

(* an arm gets the unreachable-arm warning iff no value matches it that no earlier arm matches *)
Theorem C14_arm_unreachable_exact : forall fuel t arms rep,
  wf_tyb t = true -> (forall s, In s arms -> scrut_okb s t = true) -> analyse fuel t arms = Ok rep ->
  forall i, (i < length arms)%nat -> (nth i (rep_warned rep) false = true <-> ~ reachable t arms i).
Proof. exact arm_unreachable_exact. Qed.
Print Assumptions C14_arm_unreachable_exact.

(* the desugared if-chain never reads a place that does not exist and executes the first matching arm *)
Theorem C14_runtime_first_match : forall t arms v,
  (forall s, In s arms -> scrut_okb s t = true) -> has_tyb v t = true ->
  run_match arms v = Some (first_match arms v).
Proof. exact runtime_first_match. Qed.
Print Assumptions C14_runtime_first_match.

(* Pattern::from_scrutinee keeps typing and meaning (struct fields in declaration order, `..`, shorthand) *)
Theorem C14_from_scrutinee_exact : forall s t v, scrut_okb s t = true -> has_tyb v t = true ->
  pat_okb (from_scrutinee s) t = true /\ matches (from_scrutinee s) v = smatches s v.
Proof. intros s t v H Hv. split; [now apply from_scrutinee_typed|now apply (from_scrutinee_matches s t v)]. Qed.
Print Assumptions C14_from_scrutinee_exact.

(* ---- the brute-force oracle is exact (S only) ---- *)
Theorem C14_enum_complete : forall v t, has_ty v t -> In v (enum_values t).
Proof. exact enum_complete. Qed.
Print Assumptions C14_enum_complete.

Theorem C14_enum_sound : forall t v, In v (enum_values t) -> has_ty v t.
Proof. exact enum_sound. Qed.
Print Assumptions C14_enum_sound.

Theorem C14_oracle_uncovered_exact : forall t rows, uncoveredb t rows = true <-> uncovered t rows.
Proof. exact uncoveredb_exact. Qed.
Print Assumptions C14_oracle_uncovered_exact.

Theorem C14_oracle_witness_exact : forall t rows w, witness_okb t rows w = true <-> witness_ok t rows w.
Proof. exact witness_okb_exact. Qed.
Print Assumptions C14_oracle_witness_exact.

Theorem C14_oracle_reachable_exact : forall t rows i, reachableb t rows i = true <-> reachable t rows i.
Proof. exact reachableb_exact. Qed.
Print Assumptions C14_oracle_reachable_exact.

Theorem C14_oracle_first_match_exact : forall rows v i,
  first_match rows v = Some i <->
  exists s, nth_error rows i = Some s /\ smatches s v = true /\ forall r, In r (firstn i rows) -> smatches r v = false.
Proof. exact first_match_exact. Qed.
Print Assumptions C14_oracle_first_match_exact.

(* a generated match that the judge answers 0 for satisfies the property: exhaustiveness verdict, every
   reported witness, every unreachable-arm warning, every executed value *)
Theorem C14_judged_case_sound : forall t arms nonexh wit warned runs,
  judge t arms (IRep nonexh wit warned runs) = 0 ->
  (nonexh = true <-> uncovered t arms) /\
  (nonexh = true -> wit <> [] /\ forall w, In w wit -> witness_ok t arms w) /\
  (forall i, (i < length arms)%nat -> (nth i warned false = true <-> ~ reachable t arms i)) /\
  (forall v n, In (v, n) runs -> has_ty v t /\ n = arm_no (first_match arms v)).
Proof. exact judge_zero_sound. Qed.
Print Assumptions C14_judged_case_sound.

(* ---- range.rs on what reaches it: every bound mx (u8 255, u16, u32, u64), end points included ---- *)
Theorem C14_ranges_cover_exact : forall rs mx,
  rs <> [] -> Forall sing rs -> bounded mx rs ->
  exists b, do_ranges_equal_range rs mx = Ok b /\ (b = true <-> forall n, n <= mx -> cov rs n).
Proof. exact ranges_cover_exact. Qed.
Print Assumptions C14_ranges_cover_exact.

(* no Err, no overflow panic in last+1 / first-1; the result covers exactly the complement *)
Theorem C14_exclusionary_exact : forall rs mx,
  rs <> [] -> Forall sing rs -> bounded mx rs ->
  exists ex, find_exclusionary_ranges rs mx = Ok ex /\
             (forall n, cov ex n <-> n <= mx /\ ~ cov rs n) /\ (forall r, In r ex -> fst r <= snd r).
Proof. exact exclusionary_exact. Qed.
Print Assumptions C14_exclusionary_exact.

Theorem C14_from_scrutinee_singletons : forall s, singb (from_scrutinee s) = true.
Proof. exact from_scrutinee_singletons. Qed.
Print Assumptions C14_from_scrutinee_singletons.

Theorem C14_specialize_keeps_singletons : forall c p rest, singb p = true -> forallb singb rest = true ->
  forallb (forallb singb) (spec_pat c p rest) = true.
Proof. exact spec_pat_sing. Qed.
Print Assumptions C14_specialize_keeps_singletons.

Theorem C14_sigma_singletons : forall p, singb p = true -> Forall root_sing (roots p).
Proof. exact roots_sing. Qed.
Print Assumptions C14_sigma_singletons.

(* is_complete_signature on a non-empty Σ of root constructors of the column type: never an internal error,
   and true exactly when every value of the type has its head constructor in Σ (bool, every integer
   width, enums, tuples/structs) *)
Theorem C14_complete_signature_exact : forall t sigma,
  payloads_inhabited t -> sigma <> [] -> Forall (root_ok t) sigma ->
  exists b, is_complete_signature t sigma = Ok b /\ (b = true <-> covers sigma t).
Proof. exact complete_signature_exact. Qed.
Print Assumptions C14_complete_signature_exact.

(* ---- the matrix transformations of algorithm U ---- *)
Theorem C14_specialize_exact : forall c v rest vs, is_root c -> matches c v = true ->
  forall p, singb p = true ->
  vmatches (p :: rest) (v :: vs) = existsb (fun row => vmatches row (args v ++ vs)) (spec_pat c p rest).
Proof. exact spec_exact. Qed.
Print Assumptions C14_specialize_exact.

Theorem C14_default_exact : forall v rest vs p,
  (forall c, In c (roots p) -> matches c v = false) ->
  vmatches (p :: rest) (v :: vs) = existsb (fun row => vmatches row vs) (default_pat p rest).
Proof. exact default_exact. Qed.
Print Assumptions C14_default_exact.

Theorem C14_default_sound : forall v rest vs p,
  existsb (fun row => vmatches row vs) (default_pat p rest) = true -> vmatches (p :: rest) (v :: vs) = true.
Proof. exact default_sound. Qed.
Print Assumptions C14_default_sound.

(* the hypotheses of the central theorems hold for the regression shapes below, and the model ends in Ok *)
Example C14_example_hypotheses :
  wf_tyb (TTuple [TBool; TInt 255]) = true
  /\ forallb (fun s => scrut_okb s (TTuple [TBool; TInt 255])) [STuple [SVar; SInt 1]; STuple [SBool true; SVar]; STuple [SBool false; SInt 0]] = true
  /\ forallb (fun s => scrut_okb s (TTuple [TBool; TBool]))
       [SStruct 2 [(0%nat, Some (SBool true)); (1%nat, Some SCatchAll)]; SStruct 2 [(0%nat, Some (SBool false))]; SStruct 2 [(1%nat, Some (SBool true))]] = true
  /\ run_match [SOr [STuple [SCatchAll; SBool true]; SCatchAll]; STuple [SBool true; SBool false]] (VTuple [VBool false; VBool false]) = Some (Some 0%nat).
Proof. vm_compute. repeat split. Qed.

(* ---- non-vacuity / regression shapes (the defects repaired in /repo, see design_notes/C14.md) ---- *)
(* (true,_),(false,_),(_,true) over (bool,bool): exhaustive, third arm unreachable *)
Example C14_example_wild_column :
  analyse 100 (TTuple [TBool; TBool])
    [STuple [SBool true; SCatchAll]; STuple [SBool false; SCatchAll]; STuple [SCatchAll; SBool true]]
  = Ok {| rep_nonexhaustive := false; rep_witness := []; rep_warned := [false; false; true] |}.
Proof. vm_compute. reflexivity. Qed.
(* E::A(true)|E::B(false), E::A(true)|E::B(true): E::A(false) is missing *)
Example C14_example_or_enum :
  analyse 100 (TEnum [TBool; TBool])
    [SOr [SEnum 0 (SBool true); SEnum 1 (SBool false)]; SOr [SEnum 0 (SBool true); SEnum 1 (SBool true)]]
  = Ok {| rep_nonexhaustive := true; rep_witness := [PEnum 0 (PBool false)]; rep_warned := [false; false] |}.
Proof. vm_compute. reflexivity. Qed.
(* true, false, _, _ : both catch-all arms are unreachable *)
Example C14_example_interior_catch_all :
  analyse 100 TBool [SBool true; SBool false; SCatchAll; SCatchAll]
  = Ok {| rep_nonexhaustive := false; rep_witness := []; rep_warned := [false; false; true; true] |}.
Proof. vm_compute. reflexivity. Qed.
(* (a,1),(true,b),(false,0) over (bool,u8): (false,[2..255]) is missing *)
Example C14_example_witness :
  analyse 100 (TTuple [TBool; TInt 255]) [STuple [SVar; SInt 1]; STuple [SBool true; SVar]; STuple [SBool false; SInt 0]]
  = Ok {| rep_nonexhaustive := true; rep_witness := [PTuple [PBool false; PInt 2 255]]; rep_warned := [false; false; false] |}.
Proof. vm_compute. reflexivity. Qed.
Example C14_example_ranges_max :
  find_exclusionary_ranges [(255, 255); (0, 0); (3, 3); (254, 254)] 255 = Ok [(1, 2); (4, 253)]
  /\ do_ranges_equal_range [(1, 1); (0, 0)] 1 = Ok true
  /\ find_exclusionary_ranges [(5, 5)] 18446744073709551615 = Ok [(0, 4); (6, 18446744073709551615)].
Proof. vm_compute. repeat split. Qed.
Example C14_example_oracle :
  uncoveredb (TTuple [TBool; TBool]) [STuple [SBool true; SBool true]; STuple [SBool false; SBool false]] = true
  /\ witness_okb (TTuple [TBool; TBool]) [STuple [SBool true; SBool true]; STuple [SBool false; SBool false]] (PTuple [PBool false; PBool true]) = true
  /\ reachableb TBool [SBool true; SBool false; SCatchAll] 2 = false.
Proof. vm_compute. repeat split. Qed.
