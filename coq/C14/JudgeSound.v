(* C14 — a case judged 0 is an instance of the property (soundness of the translation validation). *)
From SwayV Require Import Base.Util C14.Model C14.Spec C14.Basics C14.Judge.
Local Open Scope N_scope.

Lemma bools_eqb_eq a b : bools_eqb a b = true -> a = b.
Proof.
  revert b. induction a as [|x a IH]; intros [|y b] H; try discriminate H; [reflexivity|].
  cbn in H. apply andb_true_iff in H. destruct H as [H1 H2]. apply eqb_prop in H1. subst. f_equal. now apply IH.
Qed.

Theorem judge_zero_sound t arms nonexh wit warned runs :
  judge t arms (IRep nonexh wit warned runs) = 0 ->
  (nonexh = true <-> uncovered t arms) /\
  (nonexh = true -> wit <> [] /\ forall w, In w wit -> witness_ok t arms w) /\
  (forall i, (i < length arms)%nat -> (nth i warned false = true <-> ~ reachable t arms i)) /\
  (forall v n, In (v, n) runs -> has_ty v t /\ n = arm_no (first_match arms v)).
Proof.
  intros H. unfold judge in H. cbv zeta in H.
  change (existsb (fun v => negb (covered_by arms v)) (enum_values t)) with (uncoveredb t arms) in H.
  change (forallb (fun w => existsb (matches w) (enum_values t) &&
                            forallb (fun v => implb (matches w v) (negb (covered_by arms v))) (enum_values t)) wit)
    with (forallb (witness_okb t arms) wit) in H.
  change (map (fun i => match nth_error arms i with
                        | Some s => existsb (fun v => smatches s v && negb (covered_by (firstn i arms) v)) (enum_values t)
                        | None => false end) (seq 0 (length arms)))
    with (map (reachableb t arms) (seq 0 (length arms))) in H.
  destruct (nonexh && negb (uncoveredb t arms)) eqn:E1; [discriminate H|].
  destruct (negb nonexh && uncoveredb t arms) eqn:E2; [discriminate H|].
  destruct (nonexh && (match wit with [] => true | _ => false end || negb (forallb (witness_okb t arms) wit))) eqn:E3; [discriminate H|].
  destruct (negb (bools_eqb warned (map negb (map (reachableb t arms) (seq 0 (length arms)))))) eqn:E4; [discriminate H|].
  destruct (negb (forallb (fun r => has_tyb (fst r) t && (arm_no (first_match arms (fst r)) =? snd r)) runs)) eqn:E5; [discriminate H|].
  clear H. apply negb_false_iff in E4, E5. apply bools_eqb_eq in E4.
  assert (Hex : nonexh = true <-> uncovered t arms).
  { rewrite <- uncoveredb_exact. destruct nonexh, (uncoveredb t arms); cbn in *; try discriminate; split; auto. }
  split; [exact Hex|]. split; [|split].
  - intros ->. cbn in E3. apply orb_false_iff in E3. destruct E3 as [E3a E3b]. apply negb_false_iff in E3b.
    split; [destruct wit; [discriminate E3a|discriminate]|]. intros w Hw. apply witness_okb_exact.
    rewrite forallb_forall in E3b. now apply E3b.
  - intros i Hi. subst warned. rewrite map_map.
    rewrite (nth_indep _ false (negb (reachableb t arms (length arms)))) by (rewrite map_length, seq_length; exact Hi).
    rewrite (map_nth (fun x => negb (reachableb t arms x)) (seq 0 (length arms)) (length arms) i).
    rewrite seq_nth by exact Hi. cbn [Nat.add]. rewrite <- reachableb_exact.
    destruct (reachableb t arms i); cbn; split; intros; try discriminate; try congruence.
  - intros v n Hin. rewrite forallb_forall in E5. specialize (E5 _ Hin). cbn [fst snd] in E5.
    apply andb_true_iff in E5. destruct E5 as [H1 H2]. split; [exact H1|]. apply N.eqb_eq in H2. congruence.
Qed.
