(* C14 — source scrutinees: typing, from_scrutinee preserves typing and meaning, catch-all arms. *)
From SwayV Require Import Base.Util C14.Model C14.Spec C14.Basics C14.Useful C14.Typing.
From Coq Require Import ZifyBool ZifyN.
Local Open Scope N_scope.

Fixpoint nodupb (l : list nat) : bool :=
  match l with [] => true | x :: l' => negb (memn x l') && nodupb l' end.

(* a scrutinee is well typed for type t; struct scrutinees list existing fields at most once *)
Fixpoint scrut_okb (s : scrut) (t : ty) {struct s} : bool :=
  match s with
  | SCatchAll | SVar => true
  | SBool _ => match t with TBool => true | _ => false end
  | SInt n => match t with TInt mx => n <=? mx | _ => false end
  | SEnum k s' =>
      match t with
      | TEnum vs => match nth_error vs k with Some tk => scrut_okb s' tk | None => false end
      | _ => false
      end
  | STuple ss =>
      match t with
      | TTuple ts =>
          (fix go (ss : list scrut) (ts : list ty) : bool :=
             match ss, ts with
             | [], [] => true
             | s' :: ss', t' :: ts' => scrut_okb s' t' && go ss' ts'
             | _, _ => false
             end) ss ts
      | _ => false
      end
  | SStruct nf fs =>
      match t with
      | TTuple ts =>
          Nat.eqb nf (length ts) && nodupb (map fst fs) &&
          (fix go (fs : list (nat * option scrut)) : bool :=
             match fs with
             | [] => true
             | (i, o) :: fs' =>
                 match nth_error ts i with
                 | Some ti => match o with Some s' => scrut_okb s' ti | None => true end
                 | None => false
                 end && go fs'
             end) fs
      | _ => false
      end
  | SOr ss =>
      match ss with [] => false | _ => true end &&
      (fix go (ss : list scrut) : bool := match ss with [] => true | s' :: ss' => scrut_okb s' t && go ss' end) ss
  end.

Definition field_okb (ts : list ty) (f : nat * option scrut) : bool :=
  match nth_error ts (fst f) with
  | Some ti => match snd f with Some s' => scrut_okb s' ti | None => true end
  | None => false
  end.

Lemma scrut_okb_struct nf fs ts :
  scrut_okb (SStruct nf fs) (TTuple ts) = Nat.eqb nf (length ts) && nodupb (map fst fs) && forallb (field_okb ts) fs.
Proof.
  cbn [scrut_okb]. f_equal. induction fs as [|[i o] fs IH]; [reflexivity|]. cbn [forallb]. rewrite <- IH. reflexivity.
Qed.

Fixpoint scruts_okb (ss : list scrut) (ts : list ty) : bool :=
  match ss, ts with [], [] => true | s :: ss', t :: ts' => scrut_okb s t && scruts_okb ss' ts' | _, _ => false end.
Lemma scrut_okb_tuple ss ts : scrut_okb (STuple ss) (TTuple ts) = scruts_okb ss ts.
Proof. revert ts. induction ss as [|s ss IH]; intros [|t ts]; try reflexivity; cbn [scrut_okb scruts_okb] in *; now rewrite <- IH. Qed.
Lemma scrut_okb_or ss t : scrut_okb (SOr ss) t = match ss with [] => false | _ => true end && forallb (fun s => scrut_okb s t) ss.
Proof. reflexivity. Qed.

(* the sub-pattern that from_scrutinee gives to declared field i *)
Definition look_field (i : nat) : list (nat * option scrut) -> pat :=
  fix look (l : list (nat * option scrut)) : pat :=
    match l with
    | [] => PWild
    | (j, o) :: l' => if Nat.eqb j i then match o with Some s' => from_scrutinee s' | None => PWild end else look l'
    end.

Lemma from_scrutinee_struct nf fs : from_scrutinee (SStruct nf fs) = PTuple (map (fun i => look_field i fs) (seq 0 nf)).
Proof. reflexivity. Qed.

Definition field_smatch (vs : list val) (f : nat * option scrut) : bool :=
  match nth_error vs (fst f) with
  | Some v' => match snd f with Some s' => smatches s' v' | None => true end
  | None => false
  end.
Lemma smatches_struct nf fs vs : smatches (SStruct nf fs) (VTuple vs) = Nat.eqb (length vs) nf && forallb (field_smatch vs) fs.
Proof.
  cbn [smatches]. f_equal. induction fs as [|[i o] fs IH]; [reflexivity|]. cbn [forallb]. rewrite <- IH. reflexivity.
Qed.
Fixpoint svmatches (ss : list scrut) (vs : list val) : bool :=
  match ss, vs with [], [] => true | s :: ss', v :: vs' => smatches s v && svmatches ss' vs' | _, _ => false end.
Lemma smatches_tuple' ss vs : smatches (STuple ss) (VTuple vs) = svmatches ss vs.
Proof. revert vs. induction ss as [|s ss IH]; intros [|v vs]; try reflexivity; cbn [smatches svmatches] in *; now rewrite <- IH. Qed.

Lemma look_field_none i fs : ~ In i (map fst fs) -> look_field i fs = PWild.
Proof.
  induction fs as [|[j o] fs IH]; intros H; [reflexivity|]. cbn [look_field]. cbn in H.
  destruct (Nat.eqb_spec j i); [tauto|]. apply IH. tauto.
Qed.

Lemma nodupb_notin x l : nodupb (x :: l) = true -> ~ In x l /\ nodupb l = true.
Proof. cbn. intros H. apply andb_true_iff in H. destruct H as [H1 H2]. split; [|exact H2]. apply memn_nIn. now apply negb_true_iff. Qed.

Lemma look_field_some i o fs : nodupb (map fst fs) = true -> In (i, o) fs ->
  look_field i fs = match o with Some s' => from_scrutinee s' | None => PWild end.
Proof.
  induction fs as [|[j o'] fs IH]; intros Hnd Hin; [destruct Hin|]. cbn [map fst] in Hnd. apply nodupb_notin in Hnd.
  destruct Hnd as [Hni Hnd]. cbn [look_field]. destruct Hin as [E|Hin].
  - injection E as -> ->. now rewrite Nat.eqb_refl.
  - destruct (Nat.eqb_spec j i) as [->|Hne]; [|now apply IH]. exfalso. apply Hni. apply in_map_iff. exists (i, o). auto.
Qed.

Lemma in_dec_fst i (fs : list (nat * option scrut)) : In i (map fst fs) -> exists o, In (i, o) fs.
Proof. intros H. apply in_map_iff in H. destruct H as [[j o] [E Hin]]. cbn in E. subst. eauto. Qed.

Lemma vmatches_map_seq f : forall vs k, 
  vmatches (map f (seq k (length vs))) vs = true <-> forall i v, nth_error vs i = Some v -> matches (f (k + i)%nat) v = true.
Proof.
  induction vs as [|v vs IH]; intros k; cbn [length seq map vmatches].
  - split; [intros _ i v H; destruct i; discriminate H|auto].
  - rewrite andb_true_iff, IH. split.
    + intros [H1 H2] i v' Hn. destruct i as [|i]; cbn in Hn.
      * injection Hn as <-. now rewrite Nat.add_0_r.
      * replace (k + S i)%nat with (S k + i)%nat by lia. now apply H2.
    + intros H. split.
      * specialize (H O v eq_refl). now rewrite Nat.add_0_r in H.
      * intros i v' Hn. replace (S k + i)%nat with (k + S i)%nat by lia. now apply H.
Qed.

Lemma row_okb_map_seq f : forall ts k,
  (forall i t, nth_error ts i = Some t -> pat_okb (f (k + i)%nat) t = true) -> row_okb (map f (seq k (length ts))) ts = true.
Proof.
  induction ts as [|t ts IH]; intros k H; cbn [length seq map row_okb]; [reflexivity|].
  rewrite (IH (S k)).
  - specialize (H O t eq_refl). rewrite Nat.add_0_r in H. now rewrite H.
  - intros i t' Hn. replace (S k + i)%nat with (k + S i)%nat by lia. now apply H.
Qed.

Lemma vals_tyb_nth : forall vs ts i v t, vals_tyb vs ts = true -> nth_error vs i = Some v -> nth_error ts i = Some t -> has_tyb v t = true.
Proof.
  induction vs as [|v0 vs IH]; intros [|t0 ts] i v t H Hv Ht; try discriminate H; [destruct i; discriminate|].
  cbn in H. apply andb_true_iff in H. destruct i; cbn in *; [injection Hv as <-; injection Ht as <-; tauto|]. eapply IH; eauto; tauto.
Qed.

(* ---------- from_scrutinee keeps typing ---------- *)
Lemma from_scrutinee_typed : forall s t, scrut_okb s t = true -> pat_okb (from_scrutinee s) t = true.
Proof.
  induction s as [| |b|n|k s IH|ss IH|nf fs IH|ss IH] using scrut_ind'; intros t H; try solve [cbn [from_scrutinee]; auto].
  - cbn [from_scrutinee]. destruct t; try discriminate H. cbn in *. now rewrite N.eqb_refl, H.
  - cbn [from_scrutinee]. destruct t; try discriminate H. cbn [scrut_okb pat_okb] in *. destruct (nth_error vs k); [|discriminate]. now apply IH.
  - cbn [from_scrutinee]. destruct t; try discriminate H. rewrite scrut_okb_tuple in H. rewrite pat_okb_tuple. revert ts H.
    induction IH as [|s ss Hs Hss IHss]; intros [|t ts] H; try discriminate H; [reflexivity|].
    cbn in *. apply andb_true_iff in H. destruct H as [H1 H2]. now rewrite (Hs _ H1), (IHss _ H2).
  - destruct t; try discriminate H. rewrite scrut_okb_struct in H. apply andb_true_iff in H. destruct H as [H H3].
    apply andb_true_iff in H. destruct H as [H1 H2]. apply Nat.eqb_eq in H1. subst nf. rewrite from_scrutinee_struct, pat_okb_tuple.
    apply row_okb_map_seq. intros i ti Hn. cbn [Nat.add]. cbv beta.
    destruct (in_dec (Nat.eq_dec) i (map fst fs)) as [Hin|Hni]; [|now rewrite look_field_none].
    destruct (in_dec_fst _ _ Hin) as [o Ho]. rewrite (look_field_some i o fs H2 Ho). destruct o as [s'|]; [|reflexivity].
    rewrite forallb_forall in H3. specialize (H3 _ Ho). unfold field_okb in H3. cbn [fst snd] in H3. rewrite Hn in H3.
    rewrite Forall_forall in IH. exact (IH _ Ho ti H3).
  - cbn [from_scrutinee]. rewrite scrut_okb_or in H. apply andb_true_iff in H. destruct H as [H1 H2]. rewrite pat_okb_or.
    destruct ss as [|s0 ss]; [discriminate H1|]. cbn [map andb]. rewrite forallb_forall in *. intros p Hp.
    change (from_scrutinee s0 :: map from_scrutinee ss) with (map from_scrutinee (s0 :: ss)) in Hp.
    apply in_map_iff in Hp. destruct Hp as [s [<- Hs]]. rewrite Forall_forall in IH. now apply IH; [|apply H2].
Qed.

(* ---------- from_scrutinee keeps the meaning ---------- *)
Lemma from_scrutinee_matches : forall s t v, scrut_okb s t = true -> has_tyb v t = true ->
  matches (from_scrutinee s) v = smatches s v.
Proof.
  induction s as [| |b|n|k s IH|ss IH|nf fs IH|ss IH] using scrut_ind'; intros t v H Hv; try solve [cbn [from_scrutinee]; reflexivity].
  - cbn [from_scrutinee]. destruct v; try reflexivity. cbn. destruct (N.eqb_spec n n0); lia.
  - cbn [from_scrutinee]. destruct t; try discriminate H. destruct v; try discriminate Hv. cbn [scrut_okb has_tyb matches smatches] in *.
    destruct (Nat.eqb k k0) eqn:E; [|reflexivity]. apply Nat.eqb_eq in E. subst k0. destruct (nth_error vs k); [|discriminate]. cbn. eapply IH; eauto.
  - destruct t; try discriminate H. destruct v; try discriminate Hv. rewrite scrut_okb_tuple in H. rewrite has_tyb_tuple in Hv.
    cbn [from_scrutinee]. rewrite matches_tuple, smatches_tuple'. revert ts vs H Hv.
    induction IH as [|s ss Hs Hss IHss]; intros [|t ts] [|v vs] H Hv; try discriminate H; try discriminate Hv; try reflexivity.
    cbn in *. apply andb_true_iff in H, Hv. destruct H as [H1 H2]. destruct Hv as [V1 V2]. now rewrite (Hs _ _ H1 V1), (IHss _ _ H2 V2).
  - destruct t; try discriminate H. destruct v; try discriminate Hv. rewrite scrut_okb_struct in H. rewrite has_tyb_tuple in Hv.
    apply andb_true_iff in H. destruct H as [H H3]. apply andb_true_iff in H. destruct H as [H1 H2]. apply Nat.eqb_eq in H1. subst nf.
    rewrite from_scrutinee_struct, matches_tuple, smatches_struct. assert (Hl := vals_tyb_length _ _ Hv). rewrite Hl, Nat.eqb_refl. cbn [andb].
    rewrite <- Hl. apply eq_true_iff_eq. rewrite vmatches_map_seq, forallb_forall. cbn [Nat.add]. cbv beta.
    rewrite forallb_forall in H3. rewrite Forall_forall in IH. split.
    + intros Hm [i o] Hin. specialize (H3 _ Hin). unfold field_okb in H3. unfold field_smatch. cbn [fst snd] in *.
      destruct (nth_error ts i) as [ti|] eqn:Eti; [|discriminate].
      assert (Hlt : (i < length vs)%nat) by (rewrite Hl; apply nth_error_Some; congruence).
      destruct (nth_error vs i) as [v'|] eqn:Ev; [|apply nth_error_None in Ev; lia].
      destruct o as [s'|]; [|reflexivity]. specialize (Hm i v' Ev). rewrite (look_field_some i _ fs H2 Hin) in Hm.
      rewrite <- (IH _ Hin ti v' H3 (vals_tyb_nth _ _ _ _ _ Hv Ev Eti)). exact Hm.
    + intros Hm i v' Ev. destruct (in_dec (Nat.eq_dec) i (map fst fs)) as [Hin|Hni]; [|now rewrite look_field_none].
      destruct (in_dec_fst _ _ Hin) as [o Ho]. rewrite (look_field_some i o fs H2 Ho). destruct o as [s'|]; [|reflexivity].
      specialize (Hm _ Ho). specialize (H3 _ Ho). unfold field_okb in H3. unfold field_smatch in Hm. cbn [fst snd] in *.
      rewrite Ev in Hm. destruct (nth_error ts i) as [ti|] eqn:Eti; [|discriminate].
      rewrite (IH _ Ho ti v' H3 (vals_tyb_nth _ _ _ _ _ Hv Ev Eti)). exact Hm.
  - cbn [from_scrutinee]. rewrite scrut_okb_or in H. apply andb_true_iff in H. destruct H as [_ H2]. rewrite matches_or, smatches_or.
    rewrite forallb_forall in H2. induction IH as [|s ss Hs Hss IHss]; [reflexivity|]. cbn [map existsb].
    rewrite (Hs t v) by (auto; apply H2; now left). rewrite IHss; [reflexivity|]. intros x Hx. apply H2. now right.
Qed.

(* ---------- a catch-all scrutinee matches every value of its type ---------- *)
Lemma catch_all_matches : forall s t v, is_catch_all s = true -> scrut_okb s t = true -> has_tyb v t = true -> smatches s v = true.
Proof.
  induction s as [| |b|n|k s IH|ss IH|nf fs IH|ss IH] using scrut_ind'; intros t v Hc H Hv; try discriminate Hc; try reflexivity.
  - destruct t; try discriminate H. destruct v; try discriminate Hv. rewrite scrut_okb_tuple in H. rewrite has_tyb_tuple in Hv.
    rewrite smatches_tuple'. cbn [is_catch_all] in Hc. revert ts vs H Hv Hc.
    induction IH as [|s ss Hs Hss IHss]; intros [|t ts] [|v vs] H Hv Hc; try discriminate H; try discriminate Hv; try reflexivity.
    cbn in *. apply andb_true_iff in H, Hv, Hc. destruct H as [H1 H2]. destruct Hv as [V1 V2]. destruct Hc as [C1 C2].
    now rewrite (Hs _ _ C1 H1 V1), (IHss _ _ H2 V2 C2).
  - destruct t; try discriminate H. destruct v; try discriminate Hv. rewrite scrut_okb_struct in H. rewrite has_tyb_tuple in Hv.
    apply andb_true_iff in H. destruct H as [H H3]. apply andb_true_iff in H. destruct H as [H1 H2]. apply Nat.eqb_eq in H1. subst nf.
    rewrite smatches_struct. assert (Hl := vals_tyb_length _ _ Hv). rewrite Hl, Nat.eqb_refl. cbn [andb is_catch_all] in *.
    rewrite forallb_forall in *. rewrite Forall_forall in IH. intros [i o] Hin. specialize (H3 _ Hin). specialize (Hc _ Hin).
    unfold field_okb in H3. unfold field_smatch. cbn [fst snd] in *.
    destruct (nth_error ts i) as [ti|] eqn:Eti; [|discriminate].
    assert (Hlt : (i < length vs)%nat) by (rewrite Hl; apply nth_error_Some; congruence).
    destruct (nth_error vs i) as [v'|] eqn:Ev; [|apply nth_error_None in Ev; lia].
    destruct o as [s'|]; [|reflexivity]. exact (IH _ Hin ti v' Hc H3 (vals_tyb_nth _ _ _ _ _ Hv Ev Eti)).
  - rewrite scrut_okb_or in H. apply andb_true_iff in H. destruct H as [_ H2]. rewrite smatches_or. cbn [is_catch_all] in Hc.
    apply existsb_exists in Hc. destruct Hc as [s [Hs Hc]]. apply existsb_exists. exists s. split; [exact Hs|].
    rewrite forallb_forall in H2. rewrite Forall_forall in IH. exact (IH s Hs t v Hc (H2 s Hs) Hv).
Qed.
