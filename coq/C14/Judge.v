(* C14 — per-case judgement (vm_compute): the compiler's observed diagnostics and run-time results are
   checked against the brute-force oracles of Spec.v (the property) and against the model of Model.v. *)
From SwayV Require Import Base.Util C14.Model C14.Spec.
Local Open Scope N_scope.

(* what was observed on the real compiler for one match expression *)
Inductive impl_obs :=
| IRep (nonexh : bool) (wit : list pat) (warned : list bool) (runs : list (val * N))
                                   (* runs: value, number (1-based) of the arm that executed; 0 = none *)
| IFail.                           (* internal compiler error or panic *)

Definition FUEL : nat := 200.

Definition denote_eqb (vals : list val) (a b : list pat) : bool :=
  forallb (fun v => Bool.eqb (existsb (fun p => matches p v) a) (existsb (fun p => matches p v) b)) vals.

Fixpoint bools_eqb (a b : list bool) : bool :=
  match a, b with [], [] => true | x :: a', y :: b' => Bool.eqb x y && bools_eqb a' b' | _, _ => false end.

Definition arm_no (o : option nat) : N := match o with Some i => N.of_nat (S i) | None => 0 end.

(* 0  agree with oracle and model
   VIOLATIONS (the oracle rejects what the compiler did)
   2  reported non-exhaustive although every value is covered
   3  accepted although some value is uncovered
   4  a reported witness is not really uncovered (or denotes no value of the type), or none was reported
   5  an arm is warned unreachable although reachable, or an unreachable arm is not warned
   7  at run time another arm than the first matching one executed
   8  internal compiler error / panic
   CORRESPONDENCE (the oracle accepts the compiler's answer, the model differs)
   10 model exhaustiveness verdict differs   11 model witnesses denote another value set
   12 model warnings differ                  13 model ends in Err/Panic     14 model out of fuel
   15 requirement-tree model (matcher) differs from first-match on some value *)
Definition judge (t : ty) (arms : list scrut) (o : impl_obs) : N :=
  let vals := enum_values t in
  match o with
  | IFail => 8
  | IRep nonexh wit warned runs =>
      let unc := existsb (fun v => negb (covered_by arms v)) vals in
      if nonexh && negb unc then 2 else
      if negb nonexh && unc then 3 else
      if nonexh && (match wit with [] => true | _ => false end
                    || negb (forallb (fun w => existsb (matches w) vals &&
                                               forallb (fun v => implb (matches w v) (negb (covered_by arms v))) vals) wit))
      then 4 else
      let reach := map (fun i => match nth_error arms i with
                                 | Some s => existsb (fun v => smatches s v && negb (covered_by (firstn i arms) v)) vals
                                 | None => false end) (seq 0 (length arms)) in
      if negb (bools_eqb warned (map negb reach)) then 5 else
      if negb (forallb (fun r => has_tyb (fst r) t && (arm_no (first_match arms (fst r)) =? snd r)) runs) then 7 else
      if negb (forallb (fun r => match run_match arms (fst r) with
                                 | Some x => arm_no x =? arm_no (first_match arms (fst r)) | None => false end) runs)
      then 15 else
      match analyse FUEL t arms with
      | OutOfFuel => 14
      | Err _ | Panic _ => 13
      | Ok rep =>
          if negb (Bool.eqb (rep_nonexhaustive rep) nonexh) then 10 else
          if negb (denote_eqb vals (rep_witness rep) wit) then 11 else
          if negb (bools_eqb (rep_warned rep) warned) then 12 else 0
      end
  end.

Definition judge_all (cs : list (ty * list scrut * impl_obs)) : list N :=
  map (fun c => match c with (t, arms, o) => judge t arms o end) cs.
