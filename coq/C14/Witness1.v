(* C14 — witness reconstruction, part 1: create_pattern_not_present and from_constructor_and_arguments. *)
From SwayV Require Import Base.Util C14.Model C14.Spec C14.Basics C14.Ranges C14.Useful C14.Complete C14.Typing C14.Matrix C14.UsefulExact.
From Coq Require Import ZifyBool ZifyN.
Local Open Scope N_scope.

(* the patterns a reported pattern is split into (WitnessReport's Display flattens a top or-pattern) *)
Definition alts (p : pat) : list pat := match p with POr ps => ps | _ => [p] end.
Definition not_or (p : pat) : Prop := match p with POr _ => False | _ => True end.

Lemma alts_matches p v : matches p v = true <-> exists a, In a (alts p) /\ matches a v = true.
Proof.
  destruct p; cbn [alts]; try (split; [intros H; eexists; split; [now left|exact H]|intros [a [[<-|[]] H]]; exact H]).
  rewrite matches_or, existsb_exists. tauto.
Qed.

Lemma from_pat_stack_matches l v : matches (from_pat_stack l) v = existsb (fun p => matches p v) l.
Proof.
  destruct l as [|p [|q l]]; cbn [from_pat_stack]; [reflexivity| |apply matches_or]. cbn. now rewrite orb_false_r.
Qed.

Lemma from_pat_stack_alts l : Forall not_or l -> alts (from_pat_stack l) = l.
Proof.
  destruct l as [|p [|q l]]; cbn [from_pat_stack alts]; try reflexivity. intros H. apply Forall_inv in H. destruct p; try reflexivity. contradiction.
Qed.

(* ---------- from_constructor_and_arguments ---------- *)
Lemma fcaa_spec c a pat : is_root c -> length a = arity c -> from_constructor_and_arguments c a = Ok pat ->
  not_or pat /\ forall v, matches pat v = matches c v && vmatches a (args v).
Proof.
  destruct c as [|b|lo hi|k p|ps|ps]; cbn [is_root]; intros Hr Hl H; try contradiction; cbn [from_constructor_and_arguments arity] in *.
  - destruct a; [|discriminate Hl]. cbn in H. injection H as <-. split; [exact I|]. intros v. destruct v; cbn; try reflexivity. now rewrite andb_true_r.
  - destruct a; [|discriminate Hl]. cbn in H. injection H as <-. split; [exact I|]. intros v. destruct v; cbn; try reflexivity. now rewrite andb_true_r.
  - destruct p; try contradiction. destruct a as [|x [|y a]]; cbn in Hl; try lia. injection H as <-. split; [exact I|].
    intros v. destruct v; cbn; rewrite ?andb_true_r; reflexivity.
  - rewrite Hl, Nat.eqb_refl in H. injection H as <-. split; [exact I|]. intros v. destruct v; try reflexivity. rewrite !matches_tuple. cbn [args].
    destruct (vmatches a vs) eqn:E; [|now rewrite andb_false_r]. apply vmatches_length in E. rewrite Hr, <- Hl, E. now rewrite vmatches_wilds_true.
Qed.

Lemma fcaa_ok c a : is_root c -> length a = arity c -> exists pat, from_constructor_and_arguments c a = Ok pat.
Proof.
  destruct c as [|b|lo hi|k p|ps|ps]; cbn [is_root]; intros Hr Hl; try contradiction; cbn [from_constructor_and_arguments arity] in *.
  - destruct a; [|discriminate Hl]. cbn. eauto.
  - destruct a; [|discriminate Hl]. cbn. eauto.
  - destruct a as [|x [|y a]]; cbn in Hl; try lia. eauto.
  - rewrite Hl, Nat.eqb_refl. eauto.
Qed.

(* ---------- per-vector forms of the S / D lemmas ---------- *)
Lemma spec_unmatched_up c0 t ts_rest P s v vs :
  root_ok t c0 -> typedM (t :: ts_rest) P ->
  (forall r, In r s <-> exists p rest, In (p :: rest) P /\ In r (spec_pat c0 p rest)) ->
  matches c0 v = true -> unmatched s (args v ++ vs) -> unmatched P (v :: vs).
Proof.
  intros Hroot HP Hs Hmc Hun row Hin. destruct (typedM_cons_inv _ _ _ _ HP Hin) as [p [rest [-> [Hp Hrest]]]].
  rewrite (spec_exact c0 v rest vs (root_ok_is_root _ _ Hroot) Hmc p (pat_okb_sing _ _ Hp)).
  apply existsb_false. intros r Hr. apply Hun. apply Hs. eauto.
Qed.

Lemma default_unmatched_up t ts_rest P d sigma v vs :
  typedM (t :: ts_rest) P ->
  (forall r, In r d <-> exists p rest, In (p :: rest) P /\ In r (default_pat p rest)) ->
  (forall p rest c, In (p :: rest) P -> In c (roots p) -> In c sigma) ->
  (forall c, In c sigma -> matches c v = false) -> unmatched d vs -> unmatched P (v :: vs).
Proof.
  intros HP Hd Hsig Hno Hun row Hin. destruct (typedM_cons_inv _ _ _ _ HP Hin) as [p [rest [-> [Hp Hrest]]]].
  rewrite (default_exact v rest vs p) by (intros c Hc; apply Hno; eapply Hsig; eauto).
  apply existsb_false. intros r Hr. apply Hun. apply Hd. eauto.
Qed.

(* ---------- create_pattern_not_present ---------- *)
Lemma tuple_sigma_covers ts sigma : sigma <> [] -> Forall (root_ok (TTuple ts)) sigma -> covers sigma (TTuple ts).
Proof.
  intros Hne Hok. destruct sigma as [|c sigma]; [congruence|]. apply Forall_inv in Hok. destruct c; try contradiction. cbn in Hok. subst ps.
  intros v Hv. unfold has_ty in Hv. destruct v as [| | |vs]; try discriminate Hv. rewrite has_tyb_tuple in Hv.
  exists (PTuple (wilds (length ts))). split; [now left|]. rewrite matches_tuple. rewrite <- (vals_tyb_length _ _ Hv). apply vmatches_wilds_true.
Qed.

Lemma cpnp_spec t sigma wta :
  wf_tyb t = true -> sigma <> [] -> Forall (root_ok t) sigma -> ~ covers sigma t ->
  create_pattern_not_present t sigma = Ok wta ->
  (forall v, has_tyb v t = true -> matches wta v = true -> forall c, In c sigma -> matches c v = false) /\
  alts wta <> [] /\ (forall a, In a (alts wta) -> exists v, has_tyb v t = true /\ matches a v = true).
Proof.
  intros Hwf Hne Hok Hnc H. destruct sigma as [|c0 sigma0]; [congruence|]. set (sigma := c0 :: sigma0) in *.
  assert (Hc0 : root_ok t c0) by (inversion Hok; assumption).
  destruct (not_covers_witness sigma t Hnc) as [vu [Hvu Hun]].
  destruct t as [|mx|vs|ts]; destruct c0 as [|b0|lo hi|k p|ps|ps]; try contradiction; unfold create_pattern_not_present in H; fold sigma in H.
  - (* bool: every element of Σ is the one boolean that is not vu *)
    destruct vu as [bu| | |]; try discriminate Hvu.
    assert (Hall : forall c, In c sigma -> c = PBool (negb bu)).
    { intros c Hc. assert (Hr : root_ok TBool c) by (rewrite Forall_forall in Hok; auto). destruct c; try contradiction.
      specialize (Hun _ Hc). cbn in Hun. destruct b, bu; try discriminate Hun; reflexivity. }
    assert (Hb0 : b0 = negb bu) by (specialize (Hall (PBool b0) (or_introl eq_refl)); congruence).
    assert (Hmem : forall x, pat_mem (PBool x) sigma0 = true -> x = negb bu).
    { intros x Hx. apply pat_mem_in in Hx. specialize (Hall (PBool x) (or_intror Hx)). congruence. }
    assert (Hres : wta = PBool bu).
    { destruct bu; cbn [negb] in *; subst b0; cbn in H.
      - assert (E1 : pat_mem (PBool true) sigma0 = false) by (destruct (pat_mem (PBool true) sigma0) eqn:E; [specialize (Hmem true E); discriminate|reflexivity]).
        rewrite E1 in H. cbn in H. congruence.
      - assert (E2 : pat_mem (PBool false) sigma0 = false) by (destruct (pat_mem (PBool false) sigma0) eqn:E; [specialize (Hmem false E); discriminate|reflexivity]).
        rewrite E2, andb_false_r in H. cbn in H. congruence. }
    subst wta. cbn [alts]. split; [|split; [discriminate|]].
    + intros v Hv Hm c Hc. rewrite (Hall c Hc). destruct v; try discriminate Hv. cbn in *. destruct bu, b; try discriminate Hm; reflexivity.
    + intros a [<-|[]]. exists (VBool bu). split; [reflexivity|]. cbn. now destruct bu.
  - (* integers *)
    destruct (all_ranges_ok mx sigma Hok) as [rs [E [Hs [Hb [Hc Hn]]]]]. rewrite E in H. cbn [bindo int_max] in H.
    destruct (exclusionary_exact rs mx (Hn Hne) Hs Hb) as [ex [Eex [Hcov Hval]]]. rewrite Eex in H. cbn [bindo] in H. injection H as <-.
    assert (Hm : forall n, matches (from_pat_stack (map (fun r => PInt (fst r) (snd r)) ex)) (VInt n) = true <-> cov ex n).
    { intros n. rewrite from_pat_stack_matches, existsb_exists. unfold cov, inr. split.
      - intros [p [Hp Hmp]]. apply in_map_iff in Hp. destruct Hp as [r [<- Hr]]. exists r. split; [exact Hr|]. cbn in Hmp. lia.
      - intros [r [Hr Hi]]. exists (PInt (fst r) (snd r)). split; [apply in_map_iff; eauto|]. cbn. lia. }
    rewrite from_pat_stack_alts by (apply Forall_forall; intros p Hp; apply in_map_iff in Hp; destruct Hp as [r [<- _]]; exact I).
    split; [|split].
    + intros v Hv Hmv c Hcin. destruct v as [|n| |]; try discriminate Hv. apply Hm in Hmv. apply Hcov in Hmv. destruct Hmv as [_ Hnc'].
      destruct (matches c (VInt n)) eqn:Em; [|reflexivity]. exfalso. apply Hnc'. apply Hc. eauto.
    + destruct vu as [|n| |]; try discriminate Hvu. cbn in Hvu.
      assert (Hx : cov ex n). { apply Hcov. split; [lia|]. intros Hcv. apply Hc in Hcv. destruct Hcv as [c [Hcin Hmc]]. rewrite (Hun c Hcin) in Hmc. discriminate. }
      destruct Hx as [r [Hr _]]. intros Hnil. destruct ex; [destruct Hr|discriminate Hnil].
    + intros a Ha. apply in_map_iff in Ha. destruct Ha as [r [<- Hr]]. specialize (Hval r Hr).
      assert (Hrm : snd r <= mx). { assert (Hx : cov ex (snd r)) by (exists r; split; [exact Hr|unfold inr; lia]). apply Hcov in Hx. tauto. }
      exists (VInt (snd r)). cbn. split; lia.
  - (* enums *)
    destruct p; try contradiction.
    destruct (all_variants_ok vs sigma Hok) as [ks [E Hk]]. rewrite E in H. cbn [bindo nvariants] in H. injection H as <-.
    set (missing := filter (fun k => negb (memn k ks)) (seq 0 (length vs))).
    assert (Hmiss : forall k, In k missing <-> (k < length vs)%nat /\ ~ In k ks).
    { intros k'. unfold missing. rewrite filter_In, in_seq, negb_true_iff. rewrite memn_nIn. split; [intros [[_ H1] H2]; cbn in H1; tauto|intros [H1 H2]; split; [cbn; lia|exact H2]]. }
    rewrite from_pat_stack_alts by (apply Forall_forall; intros p Hp; apply in_map_iff in Hp; destruct Hp as [r [<- _]]; exact I).
    split; [|split].
    + intros v Hv Hmv c Hcin. rewrite from_pat_stack_matches in Hmv. apply existsb_exists in Hmv. destruct Hmv as [p [Hp Hmp]].
      apply in_map_iff in Hp. destruct Hp as [k' [<- Hk']]. apply Hmiss in Hk'. destruct Hk' as [_ Hnk].
      assert (Hr : root_ok (TEnum vs) c) by (rewrite Forall_forall in Hok; auto).
      destruct c as [| | |k2 p2| |]; try contradiction. destruct p2; try contradiction. destruct v; try discriminate Hmp.
      cbn in Hmp |- *. rewrite andb_true_r in *. apply Nat.eqb_eq in Hmp. subst k0.
      destruct (Nat.eqb_spec k2 k'); [|reflexivity]. subst k2. exfalso. apply Hnk. now apply Hk.
    + destruct vu as [| |ku v'|]; try discriminate Hvu. cbn [has_tyb] in Hvu. destruct (nth_error vs ku) eqn:En; [|discriminate].
      assert (Hin : In ku missing).
      { apply Hmiss. split; [apply nth_error_Some; congruence|]. intros Hink. apply Hk in Hink. specialize (Hun _ Hink). cbn in Hun. now rewrite Nat.eqb_refl in Hun. }
      intros Hnil. apply (in_map (fun k => PEnum k PWild)) in Hin. rewrite Hnil in Hin. destruct Hin.
    + intros a Ha. apply in_map_iff in Ha. destruct Ha as [k' [<- Hk']]. apply Hmiss in Hk'. destruct Hk' as [Hlt _].
      destruct (nth_error vs k') as [tk|] eqn:En; [|apply nth_error_None in En; lia].
      exists (VEnum k' (dflt tk)). cbn [has_tyb matches]. rewrite En, Nat.eqb_refl. split; [|reflexivity].
      apply dflt_ty. cbn in Hwf. apply andb_true_iff in Hwf. destruct Hwf as [_ Hw]. rewrite forallb_forall in Hw. apply Hw. eapply nth_error_In; eauto.
  - (* tuples: a non-empty Σ is always complete *)
    exfalso. apply Hnc. now apply tuple_sigma_covers.
Qed.
