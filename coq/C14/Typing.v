(* C14 — typing of patterns, rows and values; inhabitants; constructing a value from a head constructor. *)
From SwayV Require Import Base.Util C14.Model C14.Spec C14.Basics C14.Ranges C14.Useful C14.Complete.
From Coq Require Import ZifyBool ZifyN.
Local Open Scope N_scope.

(* a pattern of the analysis matrix is well typed: integer patterns are singletons within the type's
   range, enum variants exist, tuples have the type's width, or-patterns are non-empty *)
Fixpoint pat_okb (p : pat) (t : ty) {struct p} : bool :=
  match p with
  | PWild => true
  | PBool _ => match t with TBool => true | _ => false end
  | PInt lo hi => match t with TInt mx => (lo =? hi) && (hi <=? mx) | _ => false end
  | PEnum k p' =>
      match t with
      | TEnum vs => match nth_error vs k with Some tk => pat_okb p' tk | None => false end
      | _ => false
      end
  | PTuple ps =>
      match t with
      | TTuple ts =>
          (fix go (ps : list pat) (ts : list ty) : bool :=
             match ps, ts with
             | [], [] => true
             | p' :: ps', t' :: ts' => pat_okb p' t' && go ps' ts'
             | _, _ => false
             end) ps ts
      | _ => false
      end
  | POr ps =>
      match ps with [] => false | _ => true end &&
      (fix go (ps : list pat) : bool := match ps with [] => true | p' :: ps' => pat_okb p' t && go ps' end) ps
  end.

Fixpoint row_okb (row : list pat) (ts : list ty) : bool :=
  match row, ts with
  | [], [] => true
  | p :: row', t :: ts' => pat_okb p t && row_okb row' ts'
  | _, _ => false
  end.

Lemma pat_okb_tuple ps ts : pat_okb (PTuple ps) (TTuple ts) = row_okb ps ts.
Proof. revert ts. induction ps as [|p ps IH]; intros [|t ts]; try reflexivity; cbn [pat_okb row_okb] in *; now rewrite <- IH. Qed.

Lemma pat_okb_or ps t : pat_okb (POr ps) t = match ps with [] => false | _ => true end && forallb (fun p => pat_okb p t) ps.
Proof.
  reflexivity.
Qed.

Lemma row_okb_length : forall row ts, row_okb row ts = true -> length row = length ts.
Proof. induction row as [|p row IH]; intros [|t ts] H; try discriminate H; cbn in *; [reflexivity|]. apply andb_true_iff in H. f_equal. now apply IH. Qed.

Lemma row_okb_app : forall r1 t1 r2 t2, row_okb r1 t1 = true -> row_okb r2 t2 = true -> row_okb (r1 ++ r2) (t1 ++ t2) = true.
Proof.
  induction r1 as [|p r1 IH]; intros [|t t1] r2 t2 H1 H2; try discriminate H1; cbn [app row_okb] in *; [exact H2|].
  apply andb_true_iff in H1. destruct H1 as [Ha Hb]. rewrite Ha. cbn. now apply IH.
Qed.

Lemma row_okb_wilds ts : row_okb (wilds (length ts)) ts = true.
Proof. induction ts; cbn; auto. Qed.

Lemma pat_okb_sing : forall p t, pat_okb p t = true -> singb p = true.
Proof.
  induction p as [|b|lo hi|k p IH|ps IH|ps IH] using pat_ind'; intros t H; cbn [singb]; auto.
  - destruct t; try discriminate H. cbn in H. apply andb_true_iff in H. apply H.
  - destruct t; try discriminate H. cbn [pat_okb] in H. destruct (nth_error vs k); [|discriminate]. eapply IH; eauto.
  - destruct t; try discriminate H. rewrite pat_okb_tuple in H. revert ts H.
    induction IH as [|p ps Hp Hps IHps]; intros [|t ts] H; try discriminate H; [reflexivity|].
    cbn [row_okb forallb] in *. apply andb_true_iff in H. destruct H as [H1 H2]. rewrite (Hp _ H1). cbn. eapply IHps; eauto.
  - rewrite pat_okb_or in H. apply andb_true_iff in H. destruct H as [_ H]. rewrite forallb_forall in *.
    intros p Hp. rewrite Forall_forall in IH. eapply IH; eauto.
Qed.

Lemma row_okb_sing : forall row ts, row_okb row ts = true -> forallb singb row = true.
Proof.
  induction row as [|p row IH]; intros [|t ts] H; try discriminate H; [reflexivity|]. cbn in *.
  apply andb_true_iff in H. destruct H as [H1 H2]. rewrite (pat_okb_sing _ _ H1). cbn. eapply IH; eauto.
Qed.

(* ---------- well-formed (inhabited) types ---------- *)
Fixpoint wf_tyb (t : ty) : bool :=
  match t with
  | TBool | TInt _ => true
  | TEnum vs => match vs with [] => false | _ => true end && forallb wf_tyb vs
  | TTuple ts => forallb wf_tyb ts
  end.

Fixpoint dflt (t : ty) : val :=
  match t with
  | TBool => VBool false
  | TInt _ => VInt 0
  | TEnum vs => match vs with t0 :: _ => VEnum 0 (dflt t0) | [] => VBool false end
  | TTuple ts => VTuple (map dflt ts)
  end.

Lemma dflt_ty : forall t, wf_tyb t = true -> has_tyb (dflt t) t = true.
Proof.
  induction t as [|mx|vs IH|ts IH] using ty_ind'; intros H; cbn [dflt].
  - reflexivity.
  - cbn. lia.
  - destruct vs as [|t0 vs]; [discriminate H|]. cbn [wf_tyb forallb] in H. cbn [has_tyb nth_error].
    inversion IH; subst. apply H2. cbn in H. apply andb_true_iff in H. apply H.
  - rewrite has_tyb_tuple. cbn [wf_tyb] in H. induction IH as [|t ts Ht Hts IHts]; [reflexivity|].
    cbn [forallb map vals_tyb] in *. apply andb_true_iff in H. destruct H as [H1 H2]. rewrite (Ht H1). cbn. now apply IHts.
Qed.

Lemma dflts_ty : forall ts, forallb wf_tyb ts = true -> vals_tyb (map dflt ts) ts = true.
Proof.
  induction ts as [|t ts IH]; intros H; [reflexivity|]. cbn in *. apply andb_true_iff in H. destruct H as [H1 H2].
  rewrite (dflt_ty _ H1). cbn. now apply IH.
Qed.

Lemma wf_payloads t : wf_tyb t = true -> payloads_inhabited t.
Proof.
  destruct t; cbn; auto. intros H. apply andb_true_iff in H. destruct H as [_ H]. rewrite forallb_forall in H.
  apply Forall_forall. intros tk Hk. exists (dflt tk). apply dflt_ty. now apply H.
Qed.

Lemma vals_tyb_length : forall vs ts, vals_tyb vs ts = true -> length vs = length ts.
Proof. induction vs as [|v vs IH]; intros [|t ts] H; try discriminate H; cbn in *; [reflexivity|]. apply andb_true_iff in H. f_equal. now apply IH. Qed.

Lemma vals_tyb_app : forall v1 t1 v2 t2, vals_tyb v1 t1 = true -> vals_tyb v2 t2 = true -> vals_tyb (v1 ++ v2) (t1 ++ t2) = true.
Proof.
  induction v1 as [|v v1 IH]; intros [|t t1] v2 t2 H1 H2; try discriminate H1; cbn [app vals_tyb] in *; [exact H2|].
  apply andb_true_iff in H1. destruct H1 as [Ha Hb]. rewrite Ha. cbn. now apply IH.
Qed.

Lemma vals_tyb_app_inv : forall t1 vs t2, vals_tyb vs (t1 ++ t2) = true ->
  exists v1 v2, vs = v1 ++ v2 /\ vals_tyb v1 t1 = true /\ vals_tyb v2 t2 = true.
Proof.
  induction t1 as [|t t1 IH]; intros vs t2 H.
  - exists [], vs. auto.
  - destruct vs as [|v vs]; [discriminate H|]. cbn [app vals_tyb] in H. apply andb_true_iff in H. destruct H as [Ha Hb].
    destruct (IH _ _ Hb) as [v1 [v2 [-> [H1 H2]]]]. exists (v :: v1), v2. cbn. rewrite Ha, H1. auto.
Qed.

(* ---------- every well-typed pattern (row) matches some well-typed value (vector) ---------- *)
Lemma pat_inhabited : forall p t, wf_tyb t = true -> pat_okb p t = true -> exists v, has_tyb v t = true /\ matches p v = true.
Proof.
  induction p as [|b|lo hi|k p IH|ps IH|ps IH] using pat_ind'; intros t Hwf H.
  - exists (dflt t). split; [now apply dflt_ty|reflexivity].
  - destruct t; try discriminate H. exists (VBool b). split; [reflexivity|]. cbn. now destruct b.
  - destruct t; try discriminate H. cbn in H. exists (VInt hi). split; cbn; lia.
  - destruct t; try discriminate H. cbn [pat_okb] in H. destruct (nth_error vs k) as [tk|] eqn:En; [|discriminate].
    assert (Hwk : wf_tyb tk = true).
    { cbn in Hwf. apply andb_true_iff in Hwf. destruct Hwf as [_ Hw]. rewrite forallb_forall in Hw. apply Hw. eapply nth_error_In; eauto. }
    destruct (IH tk Hwk H) as [v [Hv Hm]]. exists (VEnum k v). split; cbn; [now rewrite En|now rewrite Nat.eqb_refl].
  - destruct t; try discriminate H. rewrite pat_okb_tuple in H. cbn [wf_tyb] in Hwf.
    assert (Hx : exists vs, vals_tyb vs ts = true /\ vmatches ps vs = true).
    { revert ts H Hwf. induction IH as [|p ps Hp Hps IHps]; intros [|t ts] H Hwf; try discriminate H.
      - exists []. auto.
      - cbn in H, Hwf. apply andb_true_iff in H, Hwf. destruct H as [H1 H2]. destruct Hwf as [W1 W2].
        destruct (Hp t W1 H1) as [v [Hv Hm]]. destruct (IHps ts H2 W2) as [vs [Hvs Hms]].
        exists (v :: vs). cbn. now rewrite Hv, Hm, Hvs, Hms. }
    destruct Hx as [vs [Hvs Hms]]. exists (VTuple vs). now rewrite has_tyb_tuple, matches_tuple.
  - rewrite pat_okb_or in H. destruct ps as [|p ps]; [discriminate H|]. cbn [andb forallb] in H.
    apply andb_true_iff in H. destruct H as [H1 _]. apply Forall_inv in IH. destruct (IH t Hwf H1) as [v [Hv Hm]].
    exists v. split; [exact Hv|]. rewrite matches_or. cbn. now rewrite Hm.
Qed.

Lemma row_inhabited : forall row ts, forallb wf_tyb ts = true -> row_okb row ts = true ->
  exists vs, vals_tyb vs ts = true /\ vmatches row vs = true.
Proof.
  induction row as [|p row IH]; intros [|t ts] Hwf H; try discriminate H.
  - exists []. auto.
  - cbn in H, Hwf. apply andb_true_iff in H, Hwf. destruct H as [H1 H2]. destruct Hwf as [W1 W2].
    destruct (pat_inhabited p t W1 H1) as [v [Hv Hm]]. destruct (IH ts W2 H2) as [vs [Hvs Hms]].
    exists (v :: vs). cbn. now rewrite Hv, Hm, Hvs, Hms.
Qed.

(* ---------- head constructors ---------- *)
Lemma root_ok_is_root t c : root_ok t c -> is_root c.
Proof.
  destruct t, c; cbn; try tauto.
  all: try (destruct c; tauto).
  all: try (intros [-> _]; reflexivity).
  all: try (intros ->; unfold wilds; now rewrite repeat_length).
Qed.

Lemma roots_root_ok : forall p t, pat_okb p t = true -> Forall (root_ok t) (roots p).
Proof.
  induction p as [|b|lo hi|k p IH|ps IH|ps IH] using pat_ind'; intros t H; cbn [roots into_root_constructor].
  - constructor.
  - destruct t; try discriminate H. repeat constructor.
  - destruct t; try discriminate H. cbn in H. repeat constructor; cbn; lia.
  - destruct t; try discriminate H. cbn [pat_okb] in H. destruct (nth_error vs k) eqn:En; [|discriminate].
    repeat constructor. cbn. apply nth_error_Some. congruence.
  - destruct t; try discriminate H. rewrite pat_okb_tuple in H. apply row_okb_length in H. repeat constructor. cbn. now rewrite H.
  - rewrite pat_okb_or in H. apply andb_true_iff in H. destruct H as [_ H]. rewrite forallb_forall in H.
    apply Forall_forall. intros c Hc. apply in_flat_map in Hc. destruct Hc as [r [Hr Hc]].
    rewrite Forall_forall in IH. specialize (IH r Hr t (H r Hr)). rewrite Forall_forall in IH. now apply IH.
Qed.

Lemma arg_tys_length t c : root_ok t c -> length (arg_tys c t) = arity c.
Proof.
  destruct t, c; cbn; try tauto.
  - destruct c; try tauto. intros H. apply nth_error_Some in H. destruct (nth_error vs k); [reflexivity|congruence].
  - intros ->. unfold wilds. now rewrite repeat_length.
Qed.

Lemma arg_tys_wf t c : wf_tyb t = true -> forallb wf_tyb (arg_tys c t) = true.
Proof.
  destruct t, c; cbn; auto. intros H. apply andb_true_iff in H. destruct H as [_ H].
  destruct (nth_error vs k) eqn:En; [|reflexivity]. cbn. rewrite forallb_forall in H. rewrite H; [reflexivity|]. eapply nth_error_In; eauto.
Qed.

Definition mk_val (c : pat) (args : list val) : val :=
  match c with
  | PBool b => VBool b
  | PInt n _ => VInt n
  | PEnum k _ => VEnum k (match args with a :: _ => a | [] => VBool false end)
  | PTuple _ => VTuple args
  | _ => VBool false
  end.

Lemma mk_val_ok t c args : root_ok t c -> vals_tyb args (arg_tys c t) = true ->
  has_tyb (mk_val c args) t = true /\ matches c (mk_val c args) = true /\ Useful.args (mk_val c args) = args.
Proof.
  destruct t, c; cbn [root_ok]; try tauto; intros Hr Ha.
  - cbn in Ha. destruct args; [|discriminate]. cbn. now destruct b.
  - destruct Hr as [-> Hle]. cbn in Ha. destruct args; [|discriminate]. cbn. repeat split; lia.
  - destruct c; try tauto. cbn [arg_tys] in Ha. destruct (nth_error vs k) as [tk|] eqn:En.
    + destruct args as [|a [|b args]]; try discriminate Ha; [|cbn in Ha; rewrite andb_false_r in Ha; discriminate Ha].
      cbn in Ha. rewrite andb_true_r in Ha.
      cbn [mk_val has_tyb matches Useful.args]. rewrite En, Ha, Nat.eqb_refl. auto.
    + apply nth_error_None in En. lia.
  - subst ps. cbn [arg_tys] in Ha. cbn [mk_val Useful.args]. rewrite has_tyb_tuple, matches_tuple. repeat split; auto.
    rewrite <- (vals_tyb_length _ _ Ha). apply vmatches_wilds_true.
Qed.

Lemma args_typed t c v : root_ok t c -> has_tyb v t = true -> matches c v = true -> vals_tyb (Useful.args v) (arg_tys c t) = true.
Proof.
  destruct t, c; cbn [root_ok]; try tauto; intros Hr Hv Hm; destruct v; try discriminate Hv; try discriminate Hm; try reflexivity.
  - destruct c; try tauto. cbn in Hm. rewrite andb_true_r in Hm. apply Nat.eqb_eq in Hm. subst k0.
    cbn [has_tyb] in Hv. cbn [arg_tys Useful.args]. destruct (nth_error vs k); [|discriminate]. cbn. now rewrite Hv.
  - rewrite has_tyb_tuple in Hv. exact Hv.
Qed.

(* matching a constructed pattern = matching its root and its sub-patterns on the arguments *)
Lemma matches_ctor p v : match p with PWild | POr _ => False | _ => True end -> singb p = true ->
  matches p v = matches (into_root_constructor p) v && vmatches (sub_patterns p) (Useful.args v).
Proof.
  destruct p as [|b|lo hi|k p|ps|ps]; intros Hk Hs; try contradiction; cbn [into_root_constructor sub_patterns].
  - cbn. destruct v; cbn; try reflexivity. now rewrite andb_true_r.
  - destruct v; cbn; try reflexivity. now rewrite andb_true_r.
  - destruct v; cbn; try reflexivity. destruct (Nat.eqb k k0); cbn; [now rewrite andb_true_r|reflexivity].
  - destruct v; try reflexivity. rewrite !matches_tuple. cbn [Useful.args].
    destruct (vmatches ps vs) eqn:E.
    + apply vmatches_length in E. rewrite E. now rewrite vmatches_wilds_true.
    + now rewrite andb_false_r.
Qed.

Lemma spec_pat_root c : forall p rest, spec_pat c p rest = spec_pat (into_root_constructor c) p rest.
Proof.
  induction p as [|b|lo hi|k p IH|ps IH|ps IH] using pat_ind'; intros rest; cbn [spec_pat];
    try (destruct c; cbn; try reflexivity; unfold wilds; now rewrite ?repeat_length).
  induction IH as [|r ps Hr Hps IHps]; [reflexivity|]. cbn [flat_map]. now rewrite Hr, IHps.
Qed.
