(* C14 — the usefulness verdict of the model of is_useful is exact. *)
From SwayV Require Import Base.Util C14.Model C14.Spec C14.Basics C14.Ranges C14.Useful C14.Complete C14.Typing C14.Matrix.
From Coq Require Import ZifyBool ZifyN.
Local Open Scope N_scope.

Definition unmatched (P : list (list pat)) (vs : list val) : Prop := forall row, In row P -> vmatches row vs = false.
Definition usefulP (ts : list ty) (P : list (list pat)) (q : list pat) : Prop :=
  exists vs, vals_tyb vs ts = true /\ vmatches q vs = true /\ unmatched P vs.
Definition typedM (ts : list ty) (P : list (list pat)) : Prop := forall row, In row P -> row_okb row ts = true.

Lemma existsb_false {A} (f : A -> bool) l : existsb f l = false <-> forall x, In x l -> f x = false.
Proof.
  split.
  - intros H x Hx. destruct (f x) eqn:E; [|reflexivity]. assert (existsb f l = true) by (apply existsb_exists; eauto). congruence.
  - intros H. destruct (existsb f l) eqn:E; [|reflexivity]. apply existsb_exists in E. destruct E as [x [Hx Hf]]. rewrite (H x Hx) in Hf. discriminate.
Qed.

Lemma typedM_cons_inv t ts P row : typedM (t :: ts) P -> In row P ->
  exists p rest, row = p :: rest /\ pat_okb p t = true /\ row_okb rest ts = true.
Proof.
  intros HP Hin. specialize (HP row Hin). destruct row as [|p rest]; [discriminate HP|]. cbn in HP.
  apply andb_true_iff in HP. exists p, rest. tauto.
Qed.

(* ---------- S(c, .) ---------- *)
Lemma spec_useful_iff c0 t ts_rest P s qsub q_rest :
  root_ok t c0 -> typedM (t :: ts_rest) P ->
  (forall r, In r s <-> exists p rest, In (p :: rest) P /\ In r (spec_pat c0 p rest)) ->
  length qsub = arity c0 ->
  (usefulP (arg_tys c0 t ++ ts_rest) s (qsub ++ q_rest) <->
   exists v vs, has_tyb v t = true /\ vals_tyb vs ts_rest = true /\ matches c0 v = true /\
                vmatches qsub (args v) = true /\ vmatches q_rest vs = true /\ unmatched P (v :: vs)).
Proof.
  intros Hroot HP Hs Hlen. assert (Hisr := root_ok_is_root _ _ Hroot). split.
  - intros [vs' [Hty [Hm Hun]]]. destruct (vals_tyb_app_inv _ _ _ Hty) as [a' [vs [-> [Ha Hvs]]]].
    destruct (mk_val_ok t c0 a' Hroot Ha) as [Hv [Hmc Hargs]]. exists (mk_val c0 a'), vs.
    assert (Hl : length qsub = length a') by (rewrite Hlen, <- (arg_tys_length t c0 Hroot); symmetry; now apply vals_tyb_length).
    rewrite vmatches_app in Hm by exact Hl. apply andb_true_iff in Hm. destruct Hm as [Hm1 Hm2].
    rewrite Hargs. repeat split; auto.
    intros row Hin. destruct (typedM_cons_inv _ _ _ _ HP Hin) as [p [rest [-> [Hp Hrest]]]].
    rewrite (spec_exact c0 (mk_val c0 a') rest vs Hisr Hmc p (pat_okb_sing _ _ Hp)). rewrite Hargs.
    apply existsb_false. intros r Hr. apply Hun. apply Hs. eauto.
  - intros [v [vs [Hv [Hvs [Hmc [Hm1 [Hm2 Hun]]]]]]]. exists (args v ++ vs).
    assert (Hl : length qsub = length (args v)) by (rewrite Hlen; symmetry; now apply root_args_length).
    split; [apply vals_tyb_app; [now apply args_typed|exact Hvs]|]. split.
    + rewrite vmatches_app by exact Hl. now rewrite Hm1, Hm2.
    + intros r Hr. apply Hs in Hr. destruct Hr as [p [rest [Hin Hr]]].
      destruct (typedM_cons_inv _ _ _ _ HP Hin) as [p' [rest' [E [Hp Hrest]]]]. injection E as <- <-.
      specialize (Hun _ Hin). rewrite (spec_exact c0 v rest vs Hisr Hmc p (pat_okb_sing _ _ Hp)) in Hun.
      rewrite existsb_false in Hun. now apply Hun.
Qed.

(* ---------- D(.) ---------- *)
Lemma default_useful_iff t ts_rest P d q_rest sigma v0 :
  typedM (t :: ts_rest) P ->
  (forall r, In r d <-> exists p rest, In (p :: rest) P /\ In r (default_pat p rest)) ->
  (forall p rest c, In (p :: rest) P -> In c (roots p) -> In c sigma) ->
  has_tyb v0 t = true -> (forall c, In c sigma -> matches c v0 = false) ->
  (usefulP ts_rest d q_rest <-> usefulP (t :: ts_rest) P (PWild :: q_rest)).
Proof.
  intros HP Hd Hsig Hv0 Hno. split.
  - intros [vs [Hty [Hm Hun]]]. exists (v0 :: vs). cbn [vals_tyb vmatches matches]. rewrite Hv0, Hty, Hm. repeat split; auto.
    intros row Hin. destruct (typedM_cons_inv _ _ _ _ HP Hin) as [p [rest [-> [Hp Hrest]]]].
    rewrite (default_exact v0 rest vs p) by (intros c Hc; apply Hno; eapply Hsig; eauto).
    apply existsb_false. intros r Hr. apply Hun. apply Hd. eauto.
  - intros [vs' [Hty [Hm Hun]]]. destruct vs' as [|v vs]; [discriminate Hty|]. cbn [vals_tyb vmatches matches] in Hty, Hm.
    apply andb_true_iff in Hty. destruct Hty as [Hv Hvs]. exists vs. repeat split; auto.
    intros r Hr. apply Hd in Hr. destruct Hr as [p [rest [Hin Hr]]].
    destruct (vmatches r vs) eqn:E; [|reflexivity]. exfalso.
    assert (Hx : vmatches (p :: rest) (v :: vs) = true) by (apply default_sound; apply existsb_exists; eauto).
    rewrite (Hun _ Hin) in Hx. discriminate.
Qed.

(* ---------- or-patterns ---------- *)
Lemma unmatched_app P Q vs : unmatched (P ++ Q) vs <-> unmatched P vs /\ unmatched Q vs.
Proof.
  unfold unmatched. split.
  - intros H. split; intros row Hr; apply H; apply in_or_app; auto.
  - intros [H1 H2] row Hr. apply in_app_or in Hr. destruct Hr; auto.
Qed.

Lemma or_useful_step ts P r alts q_rest :
  usefulP ts P (POr (r :: alts) :: q_rest) <->
  usefulP ts P (r :: q_rest) \/ usefulP ts (P ++ [r :: q_rest]) (POr alts :: q_rest).
Proof.
  split.
  - intros [vs [Hty [Hm Hun]]]. destruct vs as [|v vs]; [discriminate Hm|]. cbn [vmatches] in Hm.
    rewrite matches_or in Hm. cbn [existsb] in Hm. destruct (matches r v) eqn:Er.
    + left. exists (v :: vs). cbn [vmatches]. rewrite Er. cbn in Hm. auto.
    + right. exists (v :: vs). cbn [vmatches]. rewrite matches_or. cbn in Hm. repeat split; auto.
      apply unmatched_app. split; [exact Hun|]. intros row [<-|[]]. cbn [vmatches]. now rewrite Er.
  - intros [[vs [Hty [Hm Hun]]]|[vs [Hty [Hm Hun]]]].
    + exists vs. repeat split; auto. destruct vs as [|v vs]; [discriminate Hm|]. cbn [vmatches] in *.
      apply andb_true_iff in Hm. destruct Hm as [H1 H2]. rewrite matches_or. cbn [existsb]. now rewrite H1, H2.
    + apply unmatched_app in Hun. destruct Hun as [Hun _]. exists vs. repeat split; auto.
      destruct vs as [|v vs]; [discriminate Hm|]. cbn [vmatches] in *. apply andb_true_iff in Hm. destruct Hm as [H1 H2].
      rewrite matches_or in *. cbn [existsb]. now rewrite H1, H2, orb_true_r.
Qed.

Lemma or_useful_nil ts P q_rest : ~ usefulP ts P (POr [] :: q_rest).
Proof. intros [vs [_ [Hm _]]]. destruct vs; discriminate Hm. Qed.

Lemma has_join a b : has_witnesses (join_witness_reports a b) = has_witnesses a || has_witnesses b.
Proof. destruct a, b; reflexivity. Qed.

Section Cases.
  Variable rec : list ty -> list (list pat) -> list pat -> outcome wreport.
  Hypothesis Hrec : forall ts P q r,
    forallb wf_tyb ts = true -> typedM ts P -> row_okb q ts = true -> rec ts P q = Ok r ->
    (has_witnesses r = true <-> usefulP ts P q).

  Lemma is_useful_or_spec ts t ts_rest q_rest :
    ts = t :: ts_rest -> forallb wf_tyb ts = true -> row_okb q_rest ts_rest = true ->
    forall alts P acc res, typedM ts P -> forallb (fun p => pat_okb p t) alts = true ->
    is_useful_or rec ts P alts q_rest acc = Ok res ->
    (has_witnesses res = true <-> has_witnesses acc = true \/ usefulP ts P (POr alts :: q_rest)).
  Proof.
    intros -> Hwf Hq. induction alts as [|r alts IH]; intros P acc res HP Halts H; cbn [is_useful_or] in H.
    - injection H as <-. split; [auto|]. intros [H|H]; [exact H|]. now apply or_useful_nil in H.
    - cbn [forallb] in Halts. apply andb_true_iff in Halts. destruct Halts as [Hr Halts].
      destruct (rec (t :: ts_rest) P (r :: q_rest)) as [wr| | |] eqn:Ewr; try discriminate H. cbn [bindo] in H.
      assert (Hrow : row_okb (r :: q_rest) (t :: ts_rest) = true) by (cbn; now rewrite Hr, Hq).
      assert (HP' : typedM (t :: ts_rest) (P ++ [r :: q_rest])).
      { intros row Hin. apply in_app_or in Hin. destruct Hin as [Hin|[<-|[]]]; auto. }
      rewrite (IH _ _ _ HP' Halts H). rewrite has_join, orb_true_iff. rewrite (Hrec _ _ _ _ Hwf HP Hrow Ewr).
      rewrite or_useful_step. tauto.
  Qed.

  Lemma single_spec_matrix c p rest qlen s :
    compute_specialized_matrix c [p :: rest] qlen = Ok s -> s = spec_pat c p rest ++ [].
  Proof.
    unfold compute_specialized_matrix. cbn [concat_rows spec_row bindo]. intros H.
    destruct (m_n (spec_pat c p rest ++ [])) as [mn| | |]; try discriminate H. cbn [bindo] in H.
    destruct (negb (Nat.eqb (fst mn) 0) && negb (Nat.eqb (snd mn) (arity c + qlen - 1))); [discriminate H|]. now injection H as <-.
  Qed.

  Lemma join_rows_single ts P q wr : join_rows rec ts P [q] NoWit = Ok wr ->
    exists wr', rec ts P q = Ok wr' /\ has_witnesses wr = has_witnesses wr'.
  Proof.
    cbn [join_rows]. destruct (rec ts P q) as [wr'| | |]; try discriminate. cbn [bindo]. intros H. injection H as <-.
    exists wr'. split; [reflexivity|]. now destruct wr'.
  Qed.

  (* the report for one constructor of Σ *)
  Lemma ck_report_spec t ts_rest P q_rest c wr :
    forallb wf_tyb (t :: ts_rest) = true -> typedM (t :: ts_rest) P -> row_okb q_rest ts_rest = true -> root_ok t c ->
    ck_report rec t ts_rest P q_rest (S (length q_rest)) c = Ok wr ->
    (has_witnesses wr = true <->
     exists v vs, has_tyb v t = true /\ vals_tyb vs ts_rest = true /\ matches c v = true /\
                  vmatches q_rest vs = true /\ unmatched P (v :: vs)).
  Proof.
    intros Hwf HP Hq Hroot H. unfold ck_report in H.
    destruct (compute_specialized_matrix c P (S (length q_rest))) as [s_p| | |] eqn:Esp; try discriminate H. cbn [bindo] in H.
    destruct (compute_specialized_matrix c [PWild :: q_rest] (S (length q_rest))) as [s_q| | |] eqn:Esq; try discriminate H. cbn [bindo] in H.
    apply single_spec_matrix in Esq. cbn [spec_pat app] in Esq. subst s_q.
    apply join_rows_single in H. destruct H as [wr' [Er ->]].
    cbn [forallb] in Hwf. apply andb_true_iff in Hwf. destruct Hwf as [Hwt Hwr].
    assert (Hs := spec_matrix_in _ _ _ _ Esp).
    assert (Htyp : typedM (arg_tys c t ++ ts_rest) s_p).
    { intros r Hr. apply Hs in Hr. destruct Hr as [p [rest [Hin Hr]]].
      destruct (typedM_cons_inv _ _ _ _ HP Hin) as [p' [rest' [E [Hp Hrest]]]]. injection E as <- <-.
      eapply spec_pat_typed; eauto. }
    assert (Hqt : row_okb (wilds (arity c) ++ q_rest) (arg_tys c t ++ ts_rest) = true).
    { apply row_okb_app; [|exact Hq]. rewrite <- (arg_tys_length t c Hroot). apply row_okb_wilds. }
    assert (Hwf' : forallb wf_tyb (arg_tys c t ++ ts_rest) = true) by (rewrite forallb_app, (arg_tys_wf t c Hwt), Hwr; reflexivity).
    rewrite (Hrec _ _ _ _ Hwf' Htyp Hqt Er).
    rewrite (spec_useful_iff c t ts_rest P s_p (wilds (arity c)) q_rest Hroot HP Hs) by (unfold wilds; apply repeat_length).
    split; intros [v [vs [H1 [H2 [H3 [H4 H5]]]]]]; exists v, vs.
    - tauto.
    - repeat split; try tauto. rewrite <- (root_args_length c v (root_ok_is_root _ _ Hroot) H3). apply vmatches_wilds_true.
  Qed.

  Lemma ck_step_has c st wr st' : ck_step c st wr = Ok st' ->
    has_witnesses (fst st') = has_witnesses (fst st) || has_witnesses wr.
  Proof.
    unfold ck_step. destruct st as [w ps]. cbn [fst snd]. destruct w, wr; intros H.
    - injection H as <-. reflexivity.
    - destruct (split_into_leading_constructor (Wit w) c); try discriminate H. cbn [bindo] in H. injection H as <-. reflexivity.
    - injection H as <-. reflexivity.
    - destruct (split_into_leading_constructor (Wit w0) c); try discriminate H. cbn [bindo] in H. injection H as <-. reflexivity.
  Qed.

  Lemma complete_loop_spec t ts_rest P q_rest qlen : forall sigma st st',
    complete_loop rec t ts_rest P q_rest qlen sigma st = Ok st' ->
    (forall c, In c sigma -> exists wr, ck_report rec t ts_rest P q_rest qlen c = Ok wr) /\
    (has_witnesses (fst st') = true <->
     has_witnesses (fst st) = true \/
     exists c wr, In c sigma /\ ck_report rec t ts_rest P q_rest qlen c = Ok wr /\ has_witnesses wr = true).
  Proof.
    induction sigma as [|c sigma IH]; intros st st' H; cbn [complete_loop] in H.
    - injection H as <-. split; [intros c []|]. split; [auto|]. intros [H|[c [wr [[] _]]]]. exact H.
    - destruct (ck_report rec t ts_rest P q_rest qlen c) as [wr| | |] eqn:Ec; try discriminate H. cbn [bindo] in H.
      destruct (ck_step c st wr) as [st1| | |] eqn:Es; try discriminate H. cbn [bindo] in H.
      destruct (IH _ _ H) as [IH1 IH2]. split.
      + intros c' [<-|Hc']; [eauto|auto].
      + rewrite IH2. rewrite (ck_step_has _ _ _ _ Es), orb_true_iff. split.
        * intros [[H1|H1]|[c' [wr' [Hin [E Hw]]]]]; auto; right; [exists c, wr|exists c', wr']; cbn; auto.
        * intros [H1|[c' [wr' [[<-|Hin] [E Hw]]]]]; auto.
          -- left. right. congruence.
          -- right. exists c', wr'. auto.
  Qed.

  Lemma wildcard_case t ts_rest P q_rest r :
    forallb wf_tyb (t :: ts_rest) = true -> typedM (t :: ts_rest) P -> row_okb q_rest ts_rest = true ->
    is_useful_wildcard rec t ts_rest P q_rest = Ok r ->
    (has_witnesses r = true <-> usefulP (t :: ts_rest) P (PWild :: q_rest)).
  Proof.
    intros Hwf HP Hq H. unfold is_useful_wildcard in H. cbv zeta in H.
    set (sigma := compute_sigma P) in *.
    assert (Hwt : wf_tyb t = true) by (cbn in Hwf; apply andb_true_iff in Hwf; tauto).
    assert (Hsig : Forall (root_ok t) sigma).
    { apply Forall_forall. intros c Hc. apply sigma_in in Hc. destruct Hc as [p [rest [Hin Hc]]].
      destruct (typedM_cons_inv _ _ _ _ HP Hin) as [p' [rest' [E [Hp Hrest]]]]. injection E as <- <-.
      assert (Hx := roots_root_ok p t Hp). rewrite Forall_forall in Hx. now apply Hx. }
    assert (Hsub : forall p rest c, In (p :: rest) P -> In c (roots p) -> In c sigma).
    { intros p rest c Hin Hc. apply sigma_in. eauto. }
    assert (Hcomp : exists b, is_complete_signature t sigma = Ok b /\ (b = true <-> covers sigma t)).
    { destruct sigma as [|c0 sg] eqn:Esg.
      - exists false. split; [reflexivity|]. split; [discriminate|]. intros Hc.
        destruct (Hc (dflt t) (dflt_ty t Hwt)) as [c [[] _]].
      - apply complete_signature_exact; [now apply wf_payloads|discriminate|exact Hsig]. }
    destruct Hcomp as [b [Eb Hb]]. rewrite Eb in H. cbn [bindo] in H. destruct b.
    - (* complete signature *)
      assert (Hcov : covers sigma t) by now apply Hb.
      destruct (complete_loop rec t ts_rest P q_rest (S (length q_rest)) sigma (NoWit, [])) as [st| | |] eqn:El; try discriminate H.
      cbn [bindo] in H. destruct (complete_loop_spec _ _ _ _ _ _ _ _ El) as [Hall Hiff].
      assert (Hr : has_witnesses r = has_witnesses (fst st)) by (destruct (fst st); injection H as <-; reflexivity).
      rewrite Hr, Hiff. cbn [fst has_witnesses]. rewrite Forall_forall in Hsig. split.
      + intros [Hf|[c [wr [Hin [Ec Hw]]]]]; [discriminate Hf|].
        apply (ck_report_spec t ts_rest P q_rest c wr Hwf HP Hq (Hsig c Hin) Ec) in Hw.
        destruct Hw as [v [vs [H1 [H2 [H3 [H4 H5]]]]]]. exists (v :: vs). cbn [vals_tyb vmatches matches]. now rewrite H1, H2, H4.
      + intros [vs' [Hty [Hm Hun]]]. right. destruct vs' as [|v vs]; [discriminate Hty|].
        cbn [vals_tyb vmatches matches] in Hty, Hm. apply andb_true_iff in Hty. destruct Hty as [Hv Hvs].
        destruct (Hcov v Hv) as [c [Hin Hmc]]. destruct (Hall c Hin) as [wr Ec]. exists c, wr. repeat split; auto.
        apply (ck_report_spec t ts_rest P q_rest c wr Hwf HP Hq (Hsig c Hin) Ec). exists v, vs. auto.
    - (* incomplete signature *)
      assert (Hncov : ~ covers sigma t) by (intros Hc; apply Hb in Hc; discriminate).
      destruct (compute_default_matrix P (S (length q_rest))) as [d_p| | |] eqn:Ed; try discriminate H. cbn [bindo] in H.
      destruct (rec ts_rest d_p q_rest) as [wr| | |] eqn:Er; try discriminate H. cbn [bindo] in H.
      assert (Hr : has_witnesses r = has_witnesses wr).
      { destruct (match sigma with [] => Ok PWild | _ :: _ => create_pattern_not_present t sigma end); try discriminate H.
        cbn [bindo] in H. destruct wr; injection H as <-; reflexivity. }
      assert (Hd := default_matrix_in _ _ _ Ed).
      assert (Htyp : typedM ts_rest d_p).
      { intros x Hx. apply Hd in Hx. destruct Hx as [p [rest [Hin Hx]]].
        destruct (typedM_cons_inv _ _ _ _ HP Hin) as [p' [rest' [E [Hp Hrest]]]]. injection E as <- <-.
        eapply default_pat_typed; eauto. }
      assert (Hwr : forallb wf_tyb ts_rest = true) by (cbn in Hwf; apply andb_true_iff in Hwf; tauto).
      rewrite Hr, (Hrec _ _ _ _ Hwr Htyp Hq Er).
      destruct (not_covers_witness sigma t Hncov) as [v0 [Hv0 Hno]].
      exact (default_useful_iff t ts_rest P d_p q_rest sigma v0 HP Hd Hsub Hv0 Hno).
  Qed.

  Lemma constructed_case t ts_rest P c q_rest r :
    match c with PWild | POr _ => False | _ => True end ->
    forallb wf_tyb (t :: ts_rest) = true -> typedM (t :: ts_rest) P -> pat_okb c t = true -> row_okb q_rest ts_rest = true ->
    is_useful_constructed rec t ts_rest P c q_rest = Ok r ->
    (has_witnesses r = true <-> usefulP (t :: ts_rest) P (c :: q_rest)).
  Proof.
    intros Hk Hwf HP Hc Hq H. unfold is_useful_constructed in H. cbv zeta in H.
    set (c0 := into_root_constructor c).
    assert (Hroot : root_ok t c0).
    { assert (Hx := roots_root_ok c t Hc). destruct c; try contradiction; cbn [roots] in Hx; now apply Forall_inv in Hx. }
    destruct (compute_specialized_matrix c P (S (length q_rest))) as [s_p| | |] eqn:Esp; try discriminate H. cbn [bindo] in H.
    destruct (compute_specialized_matrix c [c :: q_rest] (S (length q_rest))) as [s_q| | |] eqn:Esq; try discriminate H. cbn [bindo] in H.
    apply single_spec_matrix in Esq.
    assert (Hself : spec_pat c c q_rest = [sub_patterns c ++ q_rest]).
    { destruct c; try contradiction; cbn [spec_pat has_the_same_constructor].
      - now rewrite eqb_reflx.
      - now rewrite !N.eqb_refl.
      - now rewrite Nat.eqb_refl.
      - now rewrite Nat.eqb_refl. }
    rewrite Hself in Esq. cbn [app] in Esq. subst s_q.
    apply join_rows_single in H. destruct H as [wr' [Er ->]].
    assert (Hwt : wf_tyb t = true) by (cbn in Hwf; apply andb_true_iff in Hwf; tauto).
    assert (Hwr : forallb wf_tyb ts_rest = true) by (cbn in Hwf; apply andb_true_iff in Hwf; tauto).
    assert (Hs : forall r, In r s_p <-> exists p rest, In (p :: rest) P /\ In r (spec_pat c0 p rest)).
    { intros x. rewrite (spec_matrix_in _ _ _ _ Esp x). split; intros [p [rest [Hin Hx]]]; exists p, rest; split; auto;
        [unfold c0; rewrite <- spec_pat_root|rewrite spec_pat_root]; exact Hx. }
    assert (Hat : arg_tys c t = arg_tys c0 t) by (destruct c; try contradiction; destruct t; reflexivity).
    assert (Har : arity c = arity c0) by (destruct c; try contradiction; cbn; auto; unfold wilds; now rewrite repeat_length).
    assert (Htyp : typedM (arg_tys c0 t ++ ts_rest) s_p).
    { intros x Hx. apply Hs in Hx. destruct Hx as [p [rest [Hin Hx]]].
      destruct (typedM_cons_inv _ _ _ _ HP Hin) as [p' [rest' [E [Hp Hrest]]]]. injection E as <- <-.
      eapply spec_pat_typed; eauto. }
    assert (Hsubt : row_okb (sub_patterns c) (arg_tys c0 t) = true).
    { rewrite <- Hat. destruct c; try contradiction; destruct t; try discriminate Hc; cbn [sub_patterns arg_tys]; auto.
      all: try (now rewrite pat_okb_tuple in Hc).
      cbn [pat_okb] in Hc. destruct (nth_error vs k); [|discriminate Hc]. cbn. now rewrite Hc. }
    assert (Hqt : row_okb (sub_patterns c ++ q_rest) (arg_tys c0 t ++ ts_rest) = true) by now apply row_okb_app.
    assert (Hwf' : forallb wf_tyb (arg_tys c0 t ++ ts_rest) = true) by (rewrite forallb_app, (arg_tys_wf t c0 Hwt), Hwr; reflexivity).
    rewrite Hat in Er. rewrite (Hrec _ _ _ _ Hwf' Htyp Hqt Er).
    assert (Hlen : length (sub_patterns c) = arity c0).
    { rewrite <- Har. destruct c; try contradiction; reflexivity. }
    rewrite (spec_useful_iff c0 t ts_rest P s_p (sub_patterns c) q_rest Hroot HP Hs Hlen).
    assert (Hsing := pat_okb_sing _ _ Hc). split.
    - intros [v [vs [H1 [H2 [H3 [H4 [H5 H6]]]]]]]. exists (v :: vs). cbn [vals_tyb vmatches]. rewrite H1, H2, H5.
      rewrite (matches_ctor c v Hk Hsing). fold c0. rewrite H3, H4. auto.
    - intros [vs' [Hty [Hm Hun]]]. destruct vs' as [|v vs]; [discriminate Hty|]. cbn [vals_tyb vmatches] in Hty, Hm.
      apply andb_true_iff in Hty, Hm. destruct Hty as [Hv Hvs]. destruct Hm as [Hm1 Hm2].
      rewrite (matches_ctor c v Hk Hsing) in Hm1. fold c0 in Hm1. apply andb_true_iff in Hm1. exists v, vs. tauto.
  Qed.
End Cases.

Lemma m_n_typed ts P : typedM ts P -> m_n P = Ok (match P with [] => (0, 0)%nat | _ => (length P, length ts) end).
Proof.
  intros HP. destruct P as [|r P]; [reflexivity|]. cbn [m_n].
  assert (Hr : length r = length ts) by (apply row_okb_length, HP; now left).
  replace (forallb (fun r' => Nat.eqb (length r') (length r)) P) with true; [now rewrite Hr|].
  symmetry. apply forallb_forall. intros x Hx. apply Nat.eqb_eq. rewrite Hr. apply row_okb_length, HP. now right.
Qed.

Theorem useful_exact : forall fuel ts P q r,
  forallb wf_tyb ts = true -> typedM ts P -> row_okb q ts = true ->
  useful fuel ts P q = Ok r -> (has_witnesses r = true <-> usefulP ts P q).
Proof.
  induction fuel as [|fuel IH]; intros ts P q r Hwf HP Hq H; [discriminate H|].
  cbn [useful] in H. rewrite (m_n_typed ts P HP) in H. cbn [bindo] in H.
  destruct P as [|row0 P'].
  - injection H as <-. cbn. split; [intros _|reflexivity].
    destruct (row_inhabited q ts Hwf Hq) as [vs [Hvs Hm]]. exists vs. repeat split; auto. intros row [].
  - destruct ts as [|t ts_rest].
    + cbn in H. injection H as <-. split; [discriminate|]. intros [vs [Hty [Hm Hun]]].
      destruct vs; [|discriminate Hty]. assert (Hr0 := HP row0 (or_introl eq_refl)). destruct row0; [|discriminate Hr0].
      specialize (Hun [] (or_introl eq_refl)). discriminate Hun.
    + cbn [length] in H. destruct q as [|c q_rest]; [discriminate Hq|].
      cbn [row_okb] in Hq. apply andb_true_iff in Hq. destruct Hq as [Hc Hq].
      destruct c as [|b|lo hi|k p|ps|ps].
      * eapply wildcard_case; eauto.
      * eapply (constructed_case (useful fuel) IH); eauto; exact I.
      * eapply (constructed_case (useful fuel) IH); eauto; exact I.
      * eapply (constructed_case (useful fuel) IH); eauto; exact I.
      * eapply (constructed_case (useful fuel) IH); eauto; exact I.
      * rewrite pat_okb_or in Hc. apply andb_true_iff in Hc. destruct Hc as [_ Hc].
        rewrite (is_useful_or_spec (useful fuel) IH (t :: ts_rest) t ts_rest q_rest eq_refl Hwf Hq ps _ NoWit r HP Hc H).
        cbn. split; [intros [Hf|Hu]; [discriminate|exact Hu]|auto].
Qed.
