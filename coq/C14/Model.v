(* C14 — executable model of sway-core's match usefulness analysis (as repaired, see design_notes/C14.md)
   sway-core/src/semantic_analysis/ast_node/expression/match_expression/analysis/
     {usefulness.rs, matrix.rs, patstack.rs, pattern.rs, range.rs, constructor_factory.rs, witness_report.rs}
   and of the reporting logic of type_check_match_expression (typed_expression.rs) and the
   requirement tree of typed/matcher.rs.  No proofs here. *)
From SwayV Require Import Base.Util.
Arguments N.add : simpl never.
Arguments N.sub : simpl never.
Arguments N.mul : simpl never.
Arguments N.div : simpl never.
Arguments N.modulo : simpl never.
Arguments N.eqb : simpl never.
Arguments N.ltb : simpl never.
Arguments N.leb : simpl never.
Local Open Scope N_scope.

(* ---------- syntax ---------- *)
(* Types of scrutinees. [TInt mx] is an unsigned integer type with values 0..mx (u8: 255). Structs are
   tuples of their declared fields (pattern.rs normalises struct patterns to declaration order). *)
Inductive ty := TBool | TInt (mx : N) | TEnum (vs : list ty) | TTuple (ts : list ty).
Inductive val := VBool (b : bool) | VInt (n : N) | VEnum (k : nat) (v : val) | VTuple (vs : list val).
(* pattern.rs::Pattern. Integer patterns are closed ranges (range.rs); a literal is [n,n]. *)
Inductive pat := PWild | PBool (b : bool) | PInt (lo hi : N) | PEnum (k : nat) (p : pat)
               | PTuple (ps : list pat) | POr (ps : list pat).

(* Source scrutinees (ty::TyScrutineeVariant): a struct scrutinee lists some declared fields (by index),
   each with an optional nested scrutinee; [nf] is the number of declared fields. *)
Inductive scrut := SCatchAll | SVar | SBool (b : bool) | SInt (n : N) | SEnum (k : nat) (s : scrut)
                 | STuple (ss : list scrut) | SStruct (nf : nat) (fs : list (nat * option scrut)) | SOr (ss : list scrut).

Definition wilds (n : nat) : list pat := repeat PWild n.

(* ---------- Pattern::from_scrutinee ---------- *)
Fixpoint from_scrutinee (s : scrut) : pat :=
  match s with
  | SCatchAll => PWild
  | SVar => PWild
  | SBool b => PBool b
  | SInt n => PInt n n                       (* Range::from_single *)
  | SEnum k s' => PEnum k (from_scrutinee s')
  | STuple ss => PTuple (map from_scrutinee ss)
  | SStruct nf fs =>
      (* one sub-pattern per declared field, in declaration order; the first listed entry of a field counts *)
      PTuple (map (fun i =>
                (fix look (l : list (nat * option scrut)) : pat :=
                   match l with
                   | [] => PWild
                   | (j, o) :: l' =>
                       if Nat.eqb j i then match o with Some s' => from_scrutinee s' | None => PWild end
                       else look l'
                   end) fs) (seq 0 nf))
  | SOr ss => POr (map from_scrutinee ss)
  end.

(* ty::TyScrutinee::is_catch_all *)
Fixpoint is_catch_all (s : scrut) : bool :=
  match s with
  | SCatchAll | SVar => true
  | SBool _ | SInt _ | SEnum _ _ => false
  | STuple ss => forallb is_catch_all ss
  | SStruct _ fs => forallb (fun f => match snd f with Some s' => is_catch_all s' | None => true end) fs
  | SOr ss => existsb is_catch_all ss
  end.

(* ---------- pattern.rs helpers ---------- *)
Definition arity (c : pat) : nat :=
  match c with
  | PEnum _ _ => 1
  | PTuple ps => length ps
  | POr ps => length ps
  | _ => 0
  end.

Definition has_the_same_constructor (c p : pat) : bool :=
  match c, p with
  | PWild, PWild => true
  | PBool a, PBool b => Bool.eqb a b
  | PInt a b, PInt a' b' => N.eqb a a' && N.eqb b b'
  | PEnum k _, PEnum k' _ => Nat.eqb k k'
  | PTuple a, PTuple b => Nat.eqb (length a) (length b)
  | _, _ => false
  end.

Definition sub_patterns (p : pat) : list pat :=
  match p with
  | PEnum _ p' => [p']
  | PTuple ps => ps
  | _ => []
  end.

Definition into_root_constructor (p : pat) : pat :=
  match p with
  | PEnum k _ => PEnum k PWild
  | PTuple ps => PTuple (wilds (length ps))
  | _ => p
  end.

Fixpoint pat_eqb (a b : pat) {struct a} : bool :=
  match a, b with
  | PWild, PWild => true
  | PBool x, PBool y => Bool.eqb x y
  | PInt l h, PInt l' h' => N.eqb l l' && N.eqb h h'
  | PEnum k p, PEnum k' p' => Nat.eqb k k' && pat_eqb p p'
  | PTuple ps, PTuple qs =>
      (fix go (ps qs : list pat) : bool :=
         match ps, qs with [], [] => true | p :: ps', q :: qs' => pat_eqb p q && go ps' qs' | _, _ => false end) ps qs
  | POr ps, POr qs =>
      (fix go (ps qs : list pat) : bool :=
         match ps, qs with [], [] => true | p :: ps', q :: qs' => pat_eqb p q && go ps' qs' | _, _ => false end) ps qs
  | _, _ => false
  end.

Fixpoint pats_eqb (ps qs : list pat) : bool :=
  match ps, qs with [], [] => true | p :: ps', q :: qs' => pat_eqb p q && pats_eqb ps' qs' | _, _ => false end.

Definition pat_mem (p : pat) (l : list pat) : bool := existsb (pat_eqb p) l.

(* PatStack::remove_duplicates *)
Fixpoint dedup_acc (acc l : list pat) : list pat :=
  match l with
  | [] => acc
  | p :: l' => if pat_mem p acc then dedup_acc acc l' else dedup_acc (acc ++ [p]) l'
  end.
Definition remove_duplicates (l : list pat) : list pat := dedup_acc [] l.

(* matrix.rs::push_root_constructors / compute_sigma (wildcards contribute nothing, or-patterns are flattened) *)
Fixpoint roots (p : pat) : list pat :=
  match p with
  | PWild => []
  | POr ps => flat_map roots ps
  | _ => [into_root_constructor p]
  end.

Definition first_col (P : list (list pat)) : list pat := flat_map (fun r => match r with p :: _ => [p] | [] => [] end) P.
Definition compute_sigma (P : list (list pat)) : list pat := remove_duplicates (flat_map roots (first_col P)).

(* Pattern::from_pat_stack *)
Definition from_pat_stack (l : list pat) : pat := match l with [p] => p | _ => POr l end.

(* ---------- range.rs (T = N bounded by mx; incr/decr overflow are Rust panics) ---------- *)
Definition range := (N * N)%type.
Definition overlaps (s o : range) : bool :=
  let '(sf, sl) := s in let '(of_, ol) := o in
  ((sf <=? of_) && (ol <=? sl)) || ((of_ <=? sf) && (sl <=? ol))
  || ((of_ <=? sf) && (ol <=? sl) && (sf <=? ol)) || ((sf <=? of_) && (of_ <=? sl) && (sl <=? ol)).
Definition within_one (s o : range) : bool :=
  let '(sf, sl) := s in let '(of_, ol) := o in
  negb (overlaps s o) && (((sl <? of_) && (of_ - sl =? 1)) || ((ol <? sf) && (sf - ol =? 1))).
(* join_ranges: Err 10 "these two ranges cannot be joined", from_double Err 11 *)
Definition from_double (f l : N) : outcome range := if l <? f then Err 11 else Ok (f, l).
Definition join_ranges (a b : range) : outcome range :=
  if negb (overlaps a b) && negb (within_one a b) then Err 10
  else from_double (if fst a <? fst b then fst a else fst b) (if snd b <? snd a then snd a else snd b).

(* stable insertion sort by descending [first]  (ranges.sort_by(|a, b| b.first.cmp(&a.first))) *)
Fixpoint insert_desc (r : range) (l : list range) : list range :=
  match l with
  | [] => [r]
  | x :: l' => if fst x <=? fst r then r :: l else x :: insert_desc r l'
  end.
Definition sort_desc (l : list range) : list range := fold_right insert_desc [] l.

(* the stack is kept with its top first *)
Fixpoint condense_loop (stack : list range) (rest : list range) : outcome (list range) :=
  match rest with
  | [] => Ok stack
  | r :: rest' =>
      match stack with
      | [] => Err 12                                   (* "stack empty" *)
      | top :: below =>
          if overlaps r top || within_one r top then
            match join_ranges r top with
            | Ok j => condense_loop (j :: below) rest'
            | Err e => Err e | Panic s => Panic s | OutOfFuel => OutOfFuel
            end
          else condense_loop (r :: top :: below) rest'
      end
  end.
(* result: bottom of the stack last pushed first ... then `stack.reverse()`; with the top-first
   representation the reversed Vec is exactly the list *)
Definition condense_ranges (rs : list range) : outcome (list range) :=
  match sort_desc rs with
  | [] => Err 13                                       (* "unable to split vec" *)
  | f :: rest => condense_loop [f] rest
  end.

Definition encompasses (o r : range) : bool := (fst o <=? fst r) && (snd r <=? snd o).
Definition incr (mx n : N) : outcome N := if mx <=? n then Panic 1 else Ok (n + 1).
Definition decr (n : N) : outcome N := if n =? 0 then Panic 2 else Ok (n - 1).

Definition bindo {A B} (x : outcome A) (f : A -> outcome B) : outcome B :=
  match x with Ok a => f a | Err e => Err e | Panic s => Panic s | OutOfFuel => OutOfFuel end.
Notation "'do' x <- e ; f" := (bindo e (fun x => f)) (at level 200, x pattern, e at level 100, f at level 200).

Fixpoint windows (mx : N) (l : list range) : outcome (list range) :=
  match l with
  | a :: ((b :: _) as l') =>
      do f <- incr mx (snd a); do t <- decr (fst b); do r <- from_double f t; do rest <- windows mx l'; Ok (r :: rest)
  | _ => Ok []
  end.

Definition find_exclusionary_ranges (guides : list range) (mx : N) : outcome (list range) :=
  do condensed <- condense_ranges guides;
  if negb (forallb (encompasses (0, mx)) condensed) then Err 14 else
  match condensed with
  | [] => Err 15
  | first :: _ =>
      let last := List.last condensed first in
      do pre <- (if negb (0 =? fst first) then do t <- decr (fst first); do r <- from_double 0 t; Ok [r] else Ok []);
      do mid <- windows mx condensed;
      do post <- (if negb (mx =? snd last) then do f <- incr mx (snd last); do r <- from_double f mx; Ok [r] else Ok []);
      Ok (pre ++ mid ++ post)
  end.

Definition do_ranges_equal_range (rs : list range) (mx : N) : outcome bool :=
  do condensed <- condense_ranges rs;
  match condensed with
  | [r] => Ok ((fst r =? 0) && (snd r =? mx))
  | [] => Err 16
  | _ => Ok false
  end.

(* ---------- constructor_factory.rs ---------- *)
(* Σ reaching these functions holds root constructors only (no wildcard, no or-pattern). The column type
   supplies what the Rust code reads from the pattern variant (integer width) and from the enum
   declaration it resolves by name (number of variants). Err 7 = "expected all patterns to be of the same type". *)
Fixpoint all_ranges (l : list pat) : outcome (list range) :=
  match l with
  | [] => Ok []
  | PInt lo hi :: l' => do r <- all_ranges l'; Ok ((lo, hi) :: r)
  | _ => Err 7
  end.
Fixpoint all_bools (l : list pat) : outcome (list bool) :=
  match l with
  | [] => Ok []
  | PBool b :: l' => do r <- all_bools l'; Ok (b :: r)
  | _ => Err 7
  end.
Fixpoint all_variants (l : list pat) : outcome (list nat) :=
  match l with
  | [] => Ok []
  | PEnum k _ :: l' => do r <- all_variants l'; Ok (k :: r)
  | _ => Err 7
  end.

Definition int_max (t : ty) : N := match t with TInt mx => mx | _ => 0 end.
Definition nvariants (t : ty) : nat := match t with TEnum vs => length vs | _ => 0 end.

Definition is_complete_signature (t : ty) (sigma : list pat) : outcome bool :=
  match sigma with
  | [] => Ok false
  | PInt _ _ :: _ => do rs <- all_ranges sigma; do_ranges_equal_range rs (int_max t)
  | PBool _ :: _ => do bs <- all_bools sigma; Ok (existsb (fun b => b) bs && existsb negb bs)
  | PEnum _ _ :: _ =>
      do ks <- all_variants sigma;
      Ok (forallb (fun k => memn k ks) (seq 0 (nvariants t)))
  | (PTuple _ as tup) :: rest => Ok (forallb (fun p => has_the_same_constructor p tup) rest)
  | PWild :: _ => Err 17   (* "expected the wildcard pattern to be filtered out here" *)
  | POr _ :: _ => Err 18   (* not reachable: Σ is flattened *)
  end.

Definition create_pattern_not_present (t : ty) (sigma : list pat) : outcome pat :=
  match sigma with
  | [] => Err 2                                   (* split_first on an empty stack *)
  | PInt _ _ :: _ =>
      do rs <- all_ranges sigma;
      do ex <- find_exclusionary_ranges rs (int_max t);
      Ok (from_pat_stack (map (fun r => PInt (fst r) (snd r)) ex))
  | PBool b :: rest =>
      let true_found := b || pat_mem (PBool true) rest in
      let false_found := negb b || (negb (pat_mem (PBool true) rest) && pat_mem (PBool false) rest) in
      if true_found && false_found then Err 19 else if true_found then Ok (PBool false) else Ok (PBool true)
  | PEnum _ _ :: _ =>
      do ks <- all_variants sigma;
      Ok (from_pat_stack (map (fun k => PEnum k PWild) (filter (fun k => negb (memn k ks)) (seq 0 (nvariants t)))))
  | PTuple ps :: _ => Ok (PTuple (wilds (length ps)))
  | PWild :: _ => Ok PWild
  | POr _ :: _ => Err 18
  end.

(* ---------- usefulness.rs ---------- *)
Inductive wreport := NoWit | Wit (w : list pat).
Definition has_witnesses (r : wreport) : bool := match r with NoWit => false | Wit _ => true end.
Definition join_witness_reports (a b : wreport) : wreport :=
  match a, b with
  | NoWit, NoWit => NoWit
  | NoWit, Wit w => Wit w
  | Wit w, NoWit => Wit w
  | Wit w1, Wit w2 => Wit (w1 ++ w2)
  end.

(* Matrix::m_n: Err 1 "found invalid matrix size" *)
Definition m_n (P : list (list pat)) : outcome (nat * nat) :=
  match P with
  | [] => Ok (0, 0)%nat
  | r :: rs => if forallb (fun r' => Nat.eqb (length r') (length r)) rs then Ok (length P, length r) else Err 1
  end.

(* compute_specialized_matrix_row (c is never an or-pattern: Σ is flat and is_useful dispatches or-patterns
   of q to is_useful_or) *)
Fixpoint spec_pat (c : pat) (p : pat) (rest : list pat) {struct p} : list (list pat) :=
  match p with
  | PWild => [wilds (arity c) ++ rest]
  | POr ps => flat_map (fun r => spec_pat c r rest) ps
  | _ => if has_the_same_constructor c p then [sub_patterns p ++ rest] else []
  end.
Definition spec_row (c : pat) (row : list pat) : outcome (list (list pat)) :=
  match row with [] => Err 2 | p :: rest => Ok (spec_pat c p rest) end.
Fixpoint concat_rows (f : list pat -> outcome (list (list pat))) (P : list (list pat)) : outcome (list (list pat)) :=
  match P with
  | [] => Ok []
  | r :: P' => do a <- f r; do b <- concat_rows f P'; Ok (a ++ b)
  end.
(* Err 3 "S(c,P) matrix is misshapen" *)
Definition compute_specialized_matrix (c : pat) (P : list (list pat)) (qlen : nat) : outcome (list (list pat)) :=
  do s <- concat_rows (spec_row c) P;
  do mn <- m_n s;
  if (negb (Nat.eqb (fst mn) 0)) && negb (Nat.eqb (snd mn) (arity c + qlen - 1)) then Err 3 else Ok s.

Fixpoint default_pat (p : pat) (rest : list pat) {struct p} : list (list pat) :=
  match p with
  | PWild => [rest]
  | POr ps => flat_map (fun r => default_pat r rest) ps
  | _ => []
  end.
Definition default_row (row : list pat) : outcome (list (list pat)) :=
  match row with [] => Err 2 | p :: rest => Ok (default_pat p rest) end.
(* Err 4 "D(P) matrix is misshapen" *)
Definition compute_default_matrix (P : list (list pat)) (qlen : nat) : outcome (list (list pat)) :=
  do s <- concat_rows default_row P;
  do mn <- m_n s;
  if (negb (Nat.eqb (fst mn) 0)) && negb (Nat.eqb (snd mn) (qlen - 1)) then Err 4 else Ok s.

(* PatStack::is_empty (flatten, drop wildcards) *)
Definition stack_is_empty (l : list pat) : bool :=
  forallb (fun p => match p with PWild => true | _ => false end)
          (flat_map (fun p => match p with POr ps => ps | _ => [p] end) l).

(* Pattern::from_constructor_and_arguments.  MODEL NOTE: the Rust code distributes or-patterns occurring in
   [args] to the top (serialize_multi_patterns); the model keeps them nested. Both denote the same values;
   the tie compares witness value sets.  Err 8 "malformed constructor request". *)
Definition from_constructor_and_arguments (c : pat) (args : list pat) : outcome pat :=
  match c with
  | PWild | PBool _ | PInt _ _ => if stack_is_empty args then Ok c else Err 8
  | PEnum k _ => match args with [a] => Ok (PEnum k a) | _ => Err 8 end
  | PTuple ps => if Nat.eqb (length ps) (length args) then Ok (PTuple args) else Err 8
  | POr ps => if Nat.eqb (length ps) (length args) then Ok (POr args) else Err 8
  end.

(* WitnessReport::split_into_leading_constructor: Err 6 no witnesses, Err 5 "attempting to split OOB" *)
Definition split_into_leading_constructor (r : wreport) (c : pat) : outcome (pat * list pat) :=
  match r with
  | NoWit => Err 6
  | Wit w =>
      if Nat.ltb (length w) (arity c) then Err 5 else
      do p <- from_constructor_and_arguments c (firstn (arity c) w); Ok (p, skipn (arity c) w)
  end.

(* column types of S(c, .) *)
Definition arg_tys (c : pat) (t : ty) : list ty :=
  match c, t with
  | PEnum k _, TEnum vs => match nth_error vs k with Some tk => [tk] | None => [] end
  | PTuple _, TTuple ts => ts
  | _, _ => []
  end.

Section Useful.
  (* the recursive call, with one unit of fuel less *)
  Variable rec : list ty -> list (list pat) -> list pat -> outcome wreport.

  Fixpoint join_rows (ts : list ty) (P : list (list pat)) (qs : list (list pat)) (acc : wreport) : outcome wreport :=
    match qs with
    | [] => Ok acc
    | q :: qs' => do wr <- rec ts P q; join_rows ts P qs' (join_witness_reports acc wr)
    end.

  (* steps 3.1-3.3 for one constructor c_k of Sigma *)
  Definition ck_report (t : ty) (ts_rest : list ty) (P : list (list pat)) (q_rest : list pat) (qlen : nat) (c_k : pat) : outcome wreport :=
    do s_p <- compute_specialized_matrix c_k P qlen;
    do s_q <- compute_specialized_matrix c_k [PWild :: q_rest] qlen;
    join_rows (arg_tys c_k t ++ ts_rest) s_p s_q NoWit.

  (* steps 3.4-3.5: fold one report into the state (witness_report, pat_stack) *)
  Definition ck_step (c_k : pat) (st : wreport * list pat) (wr : wreport) : outcome (wreport * list pat) :=
    match fst st, wr with
    | _, NoWit => Ok st
    | NoWit, Wit _ =>
        do pw <- split_into_leading_constructor wr c_k;
        Ok (Wit (snd pw), if pat_mem (fst pw) (snd st) then snd st else snd st ++ [fst pw])
    | Wit rest, Wit _ =>
        do pw <- split_into_leading_constructor wr c_k;
        Ok (fst st, if pats_eqb (snd pw) rest && negb (pat_mem (fst pw) (snd st))
                    then snd st ++ [fst pw] else snd st)
    end.

  (* the loop of step 3 of is_useful_wildcard; state = (witness_report, pat_stack) *)
  Fixpoint complete_loop (t : ty) (ts_rest : list ty) (P : list (list pat)) (q_rest : list pat) (qlen : nat)
           (sigma : list pat) (st : wreport * list pat) : outcome (wreport * list pat) :=
    match sigma with
    | [] => Ok st
    | c_k :: sigma' =>
        do wr <- ck_report t ts_rest P q_rest qlen c_k;
        do st' <- ck_step c_k st wr;
        complete_loop t ts_rest P q_rest qlen sigma' st'
    end.

  Definition is_useful_wildcard (t : ty) (ts_rest : list ty) (P : list (list pat)) (q_rest : list pat) : outcome wreport :=
    let qlen := S (length q_rest) in
    let sigma := compute_sigma P in
    do complete <- is_complete_signature t sigma;
    if complete then
      do st <- complete_loop t ts_rest P q_rest qlen sigma (NoWit, []);
      match fst st with
      | NoWit => Ok NoWit
      | Wit w => Ok (Wit (from_pat_stack (snd st) :: w))
      end
    else
      do d_p <- compute_default_matrix P qlen;
      do wr <- rec ts_rest d_p q_rest;
      do witness_to_add <- (match sigma with [] => Ok PWild | _ => create_pattern_not_present t sigma end);
      match wr with
      | NoWit => Ok NoWit
      | Wit w => Ok (Wit (witness_to_add :: w))
      end.

  Definition is_useful_constructed (t : ty) (ts_rest : list ty) (P : list (list pat)) (c : pat) (q_rest : list pat) : outcome wreport :=
    let qlen := S (length q_rest) in
    do s_c_p <- compute_specialized_matrix c P qlen;
    do s_c_q <- compute_specialized_matrix c [c :: q_rest] qlen;
    join_rows (arg_tys c t ++ ts_rest) s_c_p s_c_q NoWit.

  Fixpoint is_useful_or (ts : list ty) (P : list (list pat)) (pats : list pat) (q_rest : list pat) (acc : wreport) : outcome wreport :=
    match pats with
    | [] => Ok acc
    | r :: pats' =>
        do wr <- rec ts P (r :: q_rest);
        is_useful_or ts (P ++ [r :: q_rest]) pats' q_rest (join_witness_reports acc wr)
    end.
End Useful.

(* is_useful.  Err 9 is model-only: no column type for a column (never for well-shaped input). *)
Fixpoint useful (fuel : nat) (ts : list ty) (P : list (list pat)) (q : list pat) : outcome wreport :=
  match fuel with
  | O => OutOfFuel
  | S fuel' =>
      do mn <- m_n P;
      match mn with
      | (O, O) => Ok (Wit (wilds (length q)))
      | (_, O) => Ok NoWit
      | _ =>
          match q, ts with
          | [], _ => Err 2
          | _, [] => Err 9
          | c :: q_rest, t :: ts_rest =>
              match c with
              | PWild => is_useful_wildcard (useful fuel') t ts_rest P q_rest
              | POr pats => is_useful_or (useful fuel') ts P pats q_rest NoWit
              | _ => is_useful_constructed (useful fuel') t ts_rest P c q_rest
              end
          end
      end
  end.

(* check_match_expression_usefulness: reachability flag per arm, then the witness report of a final wildcard.
   (The early return for types without a valid constructor and zero arms is not modelled: arms >= 1.) *)
Fixpoint arms_loop (fuel : nat) (t : ty) (matrix : list (list pat)) (arms : list pat) : outcome (list bool * list (list pat)) :=
  match arms with
  | [] => Ok ([], matrix)
  | p :: arms' =>
      do wr <- useful fuel [t] matrix [p];
      do r <- arms_loop fuel t (matrix ++ [[p]]) arms';
      Ok (has_witnesses wr :: fst r, snd r)
  end.

Definition check_usefulness (fuel : nat) (t : ty) (arms : list scrut) : outcome (wreport * list bool) :=
  do r <- arms_loop fuel t [] (map from_scrutinee arms);
  do wr <- useful fuel [t] (snd r) [PWild];
  Ok (wr, fst r).

(* type_check_match_expression: which arms get Warning::MatchExpressionUnreachableArm *)
Fixpoint position {A} (f : A -> bool) (l : list A) : option nat :=
  match l with [] => None | x :: l' => if f x then Some O else option_map S (position f l') end.
Definition interior_catch_all_arm_position (arms : list scrut) : option nat :=
  match arms with [] => None | _ => position is_catch_all (removelast arms) end.

Definition warned_arms (arms : list scrut) (reach : list bool) : list bool :=
  match interior_catch_all_arm_position arms with
  | Some c => map (fun ir => if Nat.leb (fst ir) c then negb (snd ir) else true) (combine (seq 0 (length reach)) reach)
  | None => map negb reach
  end.

Record report := { rep_nonexhaustive : bool; rep_witness : list pat; rep_warned : list bool }.

(* WitnessReport's Display flattens the top or-pattern(s) into the list of reported patterns *)
Definition flatten_stack (l : list pat) : list pat := flat_map (fun p => match p with POr ps => ps | _ => [p] end) l.

Definition analyse (fuel : nat) (t : ty) (arms : list scrut) : outcome report :=
  do r <- check_usefulness fuel t arms;
  Ok {| rep_nonexhaustive := has_witnesses (fst r);
        rep_witness := match fst r with Wit w => flatten_stack w | NoWit => [] end;
        rep_warned := warned_arms arms (snd r) |}.

(* ---------- typed/matcher.rs: requirement tree of one arm, and the desugared if-chain ---------- *)
(* access path into the matched value: tuple/struct field index, or the unsafe downcast to variant k *)
Inductive step := SField (i : nat) | SDowncast (k : nat).
Inductive rtree :=
| RNone                                   (* ReqOrVarDecl::Neither *)
| RDecl (path : list step)                (* variable declaration *)
| RLitBool (path : list step) (b : bool)  (* requirement  path == literal *)
| RLitInt (path : list step) (n : N)
| RTag (path : list step) (k : nat)       (* enum discriminant requirement *)
| RAnd (l : list rtree)
| ROr (l : list rtree).

Fixpoint matcher (path : list step) (s : scrut) : rtree :=
  match s with
  | SCatchAll => RNone
  | SVar => RDecl path
  | SBool b => RLitBool path b
  | SInt n => RLitInt path n
  | SEnum k s' => RAnd [RTag path k; matcher (path ++ [SDowncast k]) s']
  | STuple ss =>
      RAnd ((fix go (i : nat) (ss : list scrut) : list rtree :=
               match ss with [] => [] | s' :: ss' => matcher (path ++ [SField i]) s' :: go (S i) ss' end) O ss)
  | SStruct _ fs =>
      RAnd ((fix go (fs : list (nat * option scrut)) : list rtree :=
               match fs with
               | [] => []
               | (i, Some s') :: fs' => matcher (path ++ [SField i]) s' :: go fs'
               | (i, None) :: fs' => RDecl (path ++ [SField i]) :: go fs'
               end) fs)
  | SOr ss => ROr (map (matcher path) ss)
  end.

(* typed_match_branch.rs: the boolean condition of an arm built from its requirement tree
   (instantiate_child_nodes_conditions_and_declarations, as repaired): [None] = no requirement (always true).
   AND drops requirement-free children; an OR with a requirement-free alternative is requirement-free.
   (OR nodes whose alternatives declare variables take another code path, which is not modelled; the tie
   generates no variables inside or-patterns.) *)
Inductive cexp :=
| CLitBool (path : list step) (b : bool) | CLitInt (path : list step) (n : N) | CTag (path : list step) (k : nat)
| CAnd (a b : cexp) | COr (a b : cexp).

(* build_condition_expression: lhs op (rest) *)
Fixpoint fold_cond (op : cexp -> cexp -> cexp) (l : list cexp) : option cexp :=
  match l with
  | [] => None
  | c :: l' => match fold_cond op l' with Some r => Some (op c r) | None => Some c end
  end.

Fixpoint condition (r : rtree) : option cexp :=
  match r with
  | RNone | RDecl _ => None
  | RLitBool p b => Some (CLitBool p b)
  | RLitInt p n => Some (CLitInt p n)
  | RTag p k => Some (CTag p k)
  | RAnd l => fold_cond CAnd (flat_map (fun r' => match condition r' with Some c => [c] | None => [] end) l)
  | ROr l =>
      if existsb (fun r' => match condition r' with None => true | Some _ => false end) l then None
      else fold_cond COr (flat_map (fun r' => match condition r' with Some c => [c] | None => [] end) l)
  end.
