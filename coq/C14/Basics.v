(* C14 — induction principles, unfolding lemmas, and soundness/completeness of the brute-force oracles. *)
From SwayV Require Import Base.Util C14.Model C14.Spec.
From Coq Require Import ZifyBool ZifyN.
Local Open Scope N_scope.

(* ---------- induction principles for the nested inductives ---------- *)
Definition pat_ind' (Q : pat -> Prop)
  (HW : Q PWild) (HB : forall b, Q (PBool b)) (HI : forall lo hi, Q (PInt lo hi))
  (HE : forall k p, Q p -> Q (PEnum k p))
  (HT : forall ps, Forall Q ps -> Q (PTuple ps))
  (HO : forall ps, Forall Q ps -> Q (POr ps)) : forall p, Q p :=
  fix F (p : pat) : Q p :=
    match p with
    | PWild => HW | PBool b => HB b | PInt lo hi => HI lo hi
    | PEnum k p' => HE k p' (F p')
    | PTuple ps => HT ps ((fix G (ps : list pat) : Forall Q ps :=
                             match ps with [] => Forall_nil _ | p' :: ps' => Forall_cons _ (F p') (G ps') end) ps)
    | POr ps => HO ps ((fix G (ps : list pat) : Forall Q ps :=
                          match ps with [] => Forall_nil _ | p' :: ps' => Forall_cons _ (F p') (G ps') end) ps)
    end.

Definition val_ind' (Q : val -> Prop)
  (HB : forall b, Q (VBool b)) (HI : forall n, Q (VInt n))
  (HE : forall k v, Q v -> Q (VEnum k v))
  (HT : forall vs, Forall Q vs -> Q (VTuple vs)) : forall v, Q v :=
  fix F (v : val) : Q v :=
    match v with
    | VBool b => HB b | VInt n => HI n
    | VEnum k v' => HE k v' (F v')
    | VTuple vs => HT vs ((fix G (vs : list val) : Forall Q vs :=
                             match vs with [] => Forall_nil _ | v' :: vs' => Forall_cons _ (F v') (G vs') end) vs)
    end.

Definition ty_ind' (Q : ty -> Prop)
  (HB : Q TBool) (HI : forall mx, Q (TInt mx))
  (HE : forall vs, Forall Q vs -> Q (TEnum vs))
  (HT : forall ts, Forall Q ts -> Q (TTuple ts)) : forall t, Q t :=
  fix F (t : ty) : Q t :=
    match t with
    | TBool => HB | TInt mx => HI mx
    | TEnum vs => HE vs ((fix G (ts : list ty) : Forall Q ts :=
                            match ts with [] => Forall_nil _ | t' :: ts' => Forall_cons _ (F t') (G ts') end) vs)
    | TTuple ts => HT ts ((fix G (ts : list ty) : Forall Q ts :=
                             match ts with [] => Forall_nil _ | t' :: ts' => Forall_cons _ (F t') (G ts') end) ts)
    end.

Definition fieldQ (Q : scrut -> Prop) (f : nat * option scrut) : Prop :=
  match snd f with Some s => Q s | None => True end.

Definition scrut_ind' (Q : scrut -> Prop)
  (HC : Q SCatchAll) (HV : Q SVar) (HB : forall b, Q (SBool b)) (HI : forall n, Q (SInt n))
  (HE : forall k s, Q s -> Q (SEnum k s))
  (HT : forall ss, Forall Q ss -> Q (STuple ss))
  (HS : forall nf fs, Forall (fieldQ Q) fs -> Q (SStruct nf fs))
  (HO : forall ss, Forall Q ss -> Q (SOr ss)) : forall s, Q s :=
  fix F (s : scrut) : Q s :=
    match s with
    | SCatchAll => HC | SVar => HV | SBool b => HB b | SInt n => HI n
    | SEnum k s' => HE k s' (F s')
    | STuple ss => HT ss ((fix G (ss : list scrut) : Forall Q ss :=
                             match ss with [] => Forall_nil _ | s' :: ss' => Forall_cons _ (F s') (G ss') end) ss)
    | SStruct nf fs =>
        HS nf fs ((fix G (fs : list (nat * option scrut)) : Forall (fieldQ Q) fs :=
                     match fs with
                     | [] => Forall_nil _
                     | (i, o) :: fs' =>
                         Forall_cons (i, o) (match o return fieldQ Q (i, o) with Some s' => F s' | None => I end) (G fs')
                     end) fs)
    | SOr ss => HO ss ((fix G (ss : list scrut) : Forall Q ss :=
                          match ss with [] => Forall_nil _ | s' :: ss' => Forall_cons _ (F s') (G ss') end) ss)
    end.

(* ---------- unfolding lemmas ---------- *)
Lemma matches_tuple ps vs : matches (PTuple ps) (VTuple vs) = vmatches ps vs.
Proof. revert vs. induction ps as [|p ps IH]; intros [|v vs]; try reflexivity; cbn [matches vmatches] in *; now rewrite <- IH. Qed.

Lemma matches_or ps v : matches (POr ps) v = existsb (fun p => matches p v) ps.
Proof. induction ps as [|p ps IH]; [reflexivity|]. cbn [matches existsb] in *. now rewrite <- IH. Qed.

Lemma has_tyb_tuple vs ts : has_tyb (VTuple vs) (TTuple ts) = vals_tyb vs ts.
Proof. revert ts. induction vs as [|v vs IH]; intros [|t ts]; try reflexivity; cbn [has_tyb vals_tyb] in *; now rewrite <- IH. Qed.

Definition enum_variants : nat -> list ty -> list val :=
  fix go (k : nat) (vs : list ty) : list val :=
    match vs with [] => [] | t' :: vs' => map (VEnum k) (enum_values t') ++ go (S k) vs' end.
Definition enum_tuples : list ty -> list (list val) :=
  fix go (ts : list ty) : list (list val) :=
    match ts with [] => [[]] | t' :: ts' => flat_map (fun v => map (cons v) (go ts')) (enum_values t') end.

Lemma enum_values_enum vs : enum_values (TEnum vs) = enum_variants 0 vs.
Proof. reflexivity. Qed.
Lemma enum_values_tuple ts : enum_values (TTuple ts) = map VTuple (enum_tuples ts).
Proof. reflexivity. Qed.

Lemma smatches_tuple ss vs :
  smatches (STuple ss) (VTuple vs) =
  (fix go (ss : list scrut) (vs : list val) : bool :=
     match ss, vs with [], [] => true | s' :: ss', v' :: vs' => smatches s' v' && go ss' vs' | _, _ => false end) ss vs.
Proof. reflexivity. Qed.
Lemma smatches_or ss v : smatches (SOr ss) v = existsb (fun s => smatches s v) ss.
Proof. induction ss as [|s ss IH]; [reflexivity|]. cbn [smatches existsb] in *. now rewrite <- IH. Qed.

(* ---------- the enumeration is sound and complete ---------- *)
Lemma in_ints_upto n mx : In n (ints_upto mx) <-> n <= mx.
Proof.
  unfold ints_upto. rewrite in_map_iff. split.
  - intros [i [<- Hi]]. apply in_seq in Hi. lia.
  - intros H. exists (N.to_nat n). split; [apply N2Nat.id|]. apply in_seq. lia.
Qed.

Lemma in_enum_variants vs : forall k0 k v tk,
  nth_error vs k = Some tk -> In v (enum_values tk) -> In (VEnum (k0 + k) v) (enum_variants k0 vs).
Proof.
  induction vs as [|t vs IH]; intros k0 k v tk Hn Hv; [destruct k; discriminate|].
  cbn [enum_variants]. apply in_or_app. destruct k as [|k].
  - left. cbn in Hn. injection Hn as ->. rewrite Nat.add_0_r. now apply in_map.
  - right. cbn in Hn. replace (k0 + S k)%nat with (S k0 + k)%nat by lia. eapply IH; eauto.
Qed.

Lemma in_enum_variants_inv vs : forall k0 x,
  In x (enum_variants k0 vs) -> exists k v tk, x = VEnum (k0 + k) v /\ nth_error vs k = Some tk /\ In v (enum_values tk).
Proof.
  induction vs as [|t vs IH]; intros k0 x Hx; [destruct Hx|].
  cbn [enum_variants] in Hx. apply in_app_or in Hx. destruct Hx as [Hx|Hx].
  - apply in_map_iff in Hx. destruct Hx as [v [<- Hv]]. exists O, v, t. rewrite Nat.add_0_r. auto.
  - apply IH in Hx. destruct Hx as [k [v [tk [-> [Hn Hv]]]]]. exists (S k), v, tk.
    replace (k0 + S k)%nat with (S k0 + k)%nat by lia. auto.
Qed.

Lemma in_enum_tuples ts : forall vs,
  In vs (enum_tuples ts) <-> Forall2 (fun v t => In v (enum_values t)) vs ts.
Proof.
  induction ts as [|t ts IH]; intros vs.
  - cbn. split.
    + intros [<-|[]]. constructor.
    + intros H. inversion H. now left.
  - cbn [enum_tuples]. rewrite in_flat_map. split.
    + intros [v [Hv Hin]]. apply in_map_iff in Hin. destruct Hin as [vs' [<- Hvs']]. constructor; [exact Hv|]. now apply IH.
    + intros H. inversion H as [|v t' vs' ts' Hv Hvs']; subst. exists v. split; [exact Hv|]. apply in_map. now apply IH.
Qed.

Lemma enum_complete : forall v t, has_ty v t -> In v (enum_values t).
Proof.
  unfold has_ty. induction v as [b|n|k v IH|vs IH] using val_ind'; intros t H; destruct t; try discriminate H.
  - destruct b; cbn; auto.
  - cbn [has_tyb] in H. cbn [enum_values]. apply in_map. apply in_ints_upto. lia.
  - cbn [has_tyb] in H. destruct (nth_error vs k) as [tk|] eqn:Hn; [|discriminate].
    rewrite enum_values_enum. change k with (0 + k)%nat. eapply in_enum_variants; eauto.
  - rewrite has_tyb_tuple in H. rewrite enum_values_tuple. apply in_map. apply in_enum_tuples.
    revert ts H. induction vs as [|v vs IHvs]; intros [|t ts] H; try discriminate H; constructor.
    + cbn [vals_tyb] in H. apply andb_true_iff in H. inversion IH; subst. apply H2. apply H.
    + cbn [vals_tyb] in H. apply andb_true_iff in H. inversion IH; subst. apply IHvs; [assumption|apply H].
Qed.

Lemma enum_sound : forall t v, In v (enum_values t) -> has_ty v t.
Proof.
  unfold has_ty. induction t as [|mx|vs IH|ts IH] using ty_ind'; intros v H.
  - cbn in H. destruct H as [<-|[<-|[]]]; reflexivity.
  - cbn [enum_values] in H. apply in_map_iff in H. destruct H as [n [<- Hn]]. apply in_ints_upto in Hn.
    cbn [has_tyb]. lia.
  - rewrite enum_values_enum in H. apply in_enum_variants_inv in H. destruct H as [k [v' [tk [-> [Hn Hv]]]]].
    cbn [has_tyb Nat.add]. rewrite Hn. rewrite Forall_forall in IH. apply IH; [eapply nth_error_In; eauto|exact Hv].
  - rewrite enum_values_tuple in H. apply in_map_iff in H. destruct H as [vs [<- Hvs]]. apply in_enum_tuples in Hvs.
    rewrite has_tyb_tuple. induction Hvs as [|v t vs ts Hv Hvs IHv]; [reflexivity|].
    cbn [vals_tyb]. inversion IH; subst. rewrite H1 by exact Hv. cbn. apply IHv. assumption.
Qed.

(* ---------- the boolean oracles decide the property's notions ---------- *)
Lemma covered_by_false rows v : covered_by rows v = false <-> forall r, In r rows -> smatches r v = false.
Proof.
  unfold covered_by. split.
  - intros H r Hr. destruct (smatches r v) eqn:E; [|reflexivity].
    assert (existsb (fun r => smatches r v) rows = true) by (apply existsb_exists; eauto). congruence.
  - intros H. destruct (existsb _ rows) eqn:E; [|reflexivity]. apply existsb_exists in E.
    destruct E as [r [Hr Hm]]. rewrite (H r Hr) in Hm. discriminate.
Qed.

Lemma uncoveredb_exact t rows : uncoveredb t rows = true <-> uncovered t rows.
Proof.
  unfold uncoveredb, uncovered. rewrite existsb_exists. split.
  - intros [v [Hin Hc]]. exists v. split; [now apply enum_sound|]. apply covered_by_false. now destruct (covered_by rows v).
  - intros [v [Ht Hc]]. exists v. split; [now apply enum_complete|]. apply covered_by_false in Hc. now rewrite Hc.
Qed.

Lemma witness_okb_exact t rows w : witness_okb t rows w = true <-> witness_ok t rows w.
Proof.
  unfold witness_okb, witness_ok. rewrite andb_true_iff, existsb_exists, forallb_forall. split.
  - intros [[v [Hin Hm]] Hall]. split.
    + exists v. split; [now apply enum_sound|exact Hm].
    + intros v' Ht Hm'. apply covered_by_false. specialize (Hall v' (enum_complete _ _ Ht)).
      rewrite Hm' in Hall. cbn in Hall. now destruct (covered_by rows v').
  - intros [[v [Ht Hm]] Hall]. split.
    + exists v. split; [now apply enum_complete|exact Hm].
    + intros v' Hin. destruct (matches w v') eqn:Hm'; [|reflexivity]. cbn.
      assert (Hc : covered_by rows v' = false) by (apply covered_by_false; apply Hall; [now apply enum_sound|exact Hm']).
      now rewrite Hc.
Qed.

Lemma reachableb_exact t rows i : reachableb t rows i = true <-> reachable t rows i.
Proof.
  unfold reachableb, reachable. destruct (nth_error rows i) as [s|] eqn:Hn.
  - rewrite existsb_exists. split.
    + intros [v [Hin H]]. apply andb_true_iff in H. destruct H as [Hm Hc]. exists v, s.
      repeat split; [now apply enum_sound|exact Hm|]. apply covered_by_false. now destruct (covered_by (firstn i rows) v).
    + intros [v [s' [Ht [Hs [Hm Hc]]]]]. injection Hs as <-. exists v. split; [now apply enum_complete|].
      apply covered_by_false in Hc. now rewrite Hm, Hc.
  - split; [discriminate|]. intros [v [s [_ [Hs _]]]]. discriminate.
Qed.

Lemma first_match_exact rows v i :
  first_match rows v = Some i <->
  exists s, nth_error rows i = Some s /\ smatches s v = true /\ forall r, In r (firstn i rows) -> smatches r v = false.
Proof.
  revert i. induction rows as [|s rows IH]; intros i.
  - cbn. split; [discriminate|]. intros [s [Hn _]]. destruct i; discriminate.
  - cbn [first_match]. destruct (smatches s v) eqn:Hs.
    + split.
      * intros H. injection H as <-. exists s. cbn. repeat split; auto. intros r [].
      * intros [s' [Hn [Hm Hc]]]. destruct i as [|i]; [reflexivity|]. cbn in Hc. rewrite (Hc s) in Hs by now left. discriminate.
    + destruct i as [|i].
      * split; [destruct (first_match rows v); discriminate|]. intros [s' [Hn [Hm _]]]. cbn in Hn. injection Hn as <-. congruence.
      * specialize (IH i). split.
        -- intros H. destruct (first_match rows v) as [j|] eqn:E; [|discriminate]. cbn in H. injection H as <-.
           destruct (proj1 IH eq_refl) as [s' [Hn [Hm Hc]]]. exists s'. cbn. repeat split; auto. intros r [<-|Hr]; auto.
        -- intros [s' [Hn [Hm Hc]]]. cbn in Hn, Hc. rewrite (proj2 IH); [reflexivity|]. exists s'. repeat split; auto.
Qed.

Lemma first_match_none rows v : first_match rows v = None <-> forall r, In r rows -> smatches r v = false.
Proof.
  induction rows as [|s rows IH]; cbn [first_match].
  - split; auto. intros _ r [].
  - destruct (smatches s v) eqn:Hs.
    + split; [discriminate|]. intros H. rewrite (H s) in Hs by now left. discriminate.
    + destruct (first_match rows v); cbn.
      * split; [discriminate|]. intros H. assert (Some n = None) by (apply IH; intros r Hr; apply H; now right). discriminate.
      * split; auto. intros _ r [<-|Hr]; auto. now apply IH.
Qed.
