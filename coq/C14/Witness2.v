(* C14 — witness reconstruction, part 2: the witness stack returned for an all-wildcard row is correct. *)
From SwayV Require Import Base.Util C14.Model C14.Spec C14.Basics C14.Ranges C14.Useful C14.Complete C14.Typing C14.Matrix
  C14.UsefulExact C14.Source C14.Corollaries C14.Witness1.
From Coq Require Import ZifyBool ZifyN.
Local Open Scope N_scope.

(* w is a correct witness vector for matrix P over column types ts: right length; every value vector it
   denotes is unmatched by P; every alternative of its head pattern denotes some value vector *)
Definition wit_inv (ts : list ty) (P : list (list pat)) (w : list pat) : Prop :=
  length w = length ts /\
  (forall vs, vals_tyb vs ts = true -> vmatches w vs = true -> unmatched P vs) /\
  match w with
  | [] => True
  | h :: tl => alts h <> [] /\ forall a, In a (alts h) -> exists vs, vals_tyb vs ts = true /\ vmatches (a :: tl) vs = true
  end.

Lemma wit_inhabited ts P w : wit_inv ts P w -> exists vs, vals_tyb vs ts = true /\ vmatches w vs = true.
Proof.
  intros [Hl [_ Hn]]. destruct w as [|h tl].
  - destruct ts; [|discriminate Hl]. exists []. auto.
  - destruct Hn as [Hne Ha]. destruct (alts h) as [|a al] eqn:E; [congruence|].
    destruct (Ha a (or_introl eq_refl)) as [vs [Hty Hm]]. exists vs. split; [exact Hty|].
    destruct vs as [|v vs]; [discriminate Hm|]. cbn [vmatches] in *. apply andb_true_iff in Hm. destruct Hm as [H1 H2].
    rewrite H2, andb_true_r. apply alts_matches. exists a. split; [rewrite E; now left|exact H1].
Qed.

Lemma wilds_app a b : wilds a ++ wilds b = wilds (a + b).
Proof. unfold wilds. now rewrite repeat_app. Qed.

Section Loop.
  Variable rec : list ty -> list (list pat) -> list pat -> outcome wreport.
  Hypothesis HrecW : forall ts P w,
    forallb wf_tyb ts = true -> typedM ts P -> rec ts P (wilds (length ts)) = Ok (Wit w) -> wit_inv ts P w.
  Variables (t : ty) (ts_rest : list ty) (P : list (list pat)).
  Hypothesis Hwf : forallb wf_tyb (t :: ts_rest) = true.
  Hypothesis HP : typedM (t :: ts_rest) P.

  Definition head_ok (hp : pat) (tail : list pat) : Prop :=
    not_or hp /\
    (forall v vs, has_tyb v t = true -> vals_tyb vs ts_rest = true -> matches hp v = true -> vmatches tail vs = true -> unmatched P (v :: vs)) /\
    (exists v vs, has_tyb v t = true /\ vals_tyb vs ts_rest = true /\ matches hp v = true /\ vmatches tail vs = true).

  Definition st_inv (st : wreport * list pat) : Prop :=
    match fst st with
    | NoWit => snd st = []
    | Wit tail => snd st <> [] /\ length tail = length ts_rest /\ forall hp, In hp (snd st) -> head_ok hp tail
    end.

  Lemma ck_report_wit c w' hp tail :
    root_ok t c ->
    ck_report rec t ts_rest P (wilds (length ts_rest)) (S (length (wilds (length ts_rest)))) c = Ok (Wit w') ->
    split_into_leading_constructor (Wit w') c = Ok (hp, tail) ->
    length tail = length ts_rest /\ head_ok hp tail.
  Proof.
    intros Hroot H Hsplit. unfold ck_report in H. set (q_rest := wilds (length ts_rest)) in *.
    destruct (compute_specialized_matrix c P (S (length q_rest))) as [s_p| | |] eqn:Esp; try discriminate H. cbn [bindo] in H.
    destruct (compute_specialized_matrix c [PWild :: q_rest] (S (length q_rest))) as [s_q| | |] eqn:Esq; try discriminate H. cbn [bindo] in H.
    apply single_spec_matrix in Esq. cbn [spec_pat app] in Esq. subst s_q. cbn [join_rows] in H.
    destruct (rec (arg_tys c t ++ ts_rest) s_p (wilds (arity c) ++ q_rest)) as [wr'| | |] eqn:Er; try discriminate H. cbn [bindo] in H.
    assert (Ew : wr' = Wit w') by (destruct wr'; cbn in H; congruence). subst wr'. clear H.
    cbn [forallb] in Hwf. apply andb_true_iff in Hwf. destruct Hwf as [Hwt Hwr].
    assert (Hs := spec_matrix_in _ _ _ _ Esp).
    assert (Htyp : typedM (arg_tys c t ++ ts_rest) s_p).
    { intros r Hr. apply Hs in Hr. destruct Hr as [p [rest [Hin Hr]]].
      destruct (typedM_cons_inv _ _ _ _ HP Hin) as [p' [rest' [E [Hp Hrest]]]]. injection E as <- <-.
      eapply spec_pat_typed; eauto. }
    assert (Hwf' : forallb wf_tyb (arg_tys c t ++ ts_rest) = true) by (rewrite forallb_app, (arg_tys_wf t c Hwt), Hwr; reflexivity).
    assert (Hal := arg_tys_length t c Hroot).
    assert (Eq : wilds (arity c) ++ q_rest = wilds (length (arg_tys c t ++ ts_rest))) by (unfold q_rest; rewrite wilds_app, app_length, Hal; reflexivity).
    rewrite Eq in Er. destruct (HrecW _ _ _ Hwf' Htyp Er) as [Hlen [Hsound Hne]].
    assert (Hinh := wit_inhabited _ _ _ (conj Hlen (conj Hsound Hne))).
    rewrite app_length, Hal in Hlen.
    unfold split_into_leading_constructor in Hsplit. destruct (Nat.ltb_spec (length w') (arity c)) as [Hlt|Hge]; [lia|].
    destruct (from_constructor_and_arguments c (firstn (arity c) w')) as [hp'| | |] eqn:Ef; try discriminate Hsplit. cbn [bindo] in Hsplit.
    injection Hsplit as <- <-.
    assert (Hfl : length (firstn (arity c) w') = arity c) by (rewrite firstn_length; lia).
    destruct (fcaa_spec c _ _ (root_ok_is_root _ _ Hroot) Hfl Ef) as [Hnor Hmat].
    assert (Hw' : w' = firstn (arity c) w' ++ skipn (arity c) w') by (symmetry; apply firstn_skipn).
    split; [rewrite skipn_length; lia|]. split; [exact Hnor|]. split.
    - intros v vs Hv Hvs Hm Hmt. rewrite Hmat in Hm. apply andb_true_iff in Hm. destruct Hm as [Hmc Hma].
      apply (spec_unmatched_up c t ts_rest P s_p v vs Hroot HP Hs Hmc). apply Hsound.
      + apply vals_tyb_app; [now apply args_typed|exact Hvs].
      + rewrite Hw'. rewrite vmatches_app by (rewrite Hfl; symmetry; apply root_args_length; [now apply root_ok_is_root with t|exact Hmc]).
        now rewrite Hma, Hmt.
    - destruct Hinh as [vs' [Hty Hmv]]. destruct (vals_tyb_app_inv _ _ _ Hty) as [a' [vs [-> [Ha Hvs]]]].
      destruct (mk_val_ok t c a' Hroot Ha) as [Hv [Hmc Hargs]]. exists (mk_val c a'), vs.
      rewrite Hw' in Hmv. rewrite vmatches_app in Hmv by (rewrite Hfl, <- Hal; symmetry; now apply vals_tyb_length).
      apply andb_true_iff in Hmv. destruct Hmv as [M1 M2]. repeat split; auto. rewrite Hmat, Hmc, Hargs. exact M1.
  Qed.

  Lemma ck_step_inv c st wr st' :
    st_inv st -> ck_step c st wr = Ok st' ->
    (forall w' hp tail, wr = Wit w' -> split_into_leading_constructor wr c = Ok (hp, tail) -> length tail = length ts_rest /\ head_ok hp tail) ->
    st_inv st'.
  Proof.
    unfold ck_step, st_inv. destruct st as [w ps]. cbn [fst snd]. intros Hinv H Hw. destruct w as [|rest], wr as [|w'].
    - injection H as <-. exact Hinv.
    - destruct (split_into_leading_constructor (Wit w') c) as [[hp tail]| | |] eqn:Es; try discriminate H. cbn [bindo fst snd] in H.
      injection H as <-. cbn [fst snd]. subst ps. cbn [pat_mem existsb app]. destruct (Hw w' hp tail eq_refl eq_refl) as [Hl Hh].
      split; [discriminate|]. split; [exact Hl|]. intros p [<-|[]]. exact Hh.
    - injection H as <-. exact Hinv.
    - destruct (split_into_leading_constructor (Wit w') c) as [[hp tail]| | |] eqn:Es; try discriminate H. cbn [bindo fst snd] in H.
      injection H as <-. cbn [fst snd]. destruct Hinv as [Hne [Hl Hall]]. destruct (Hw w' hp tail eq_refl eq_refl) as [Hl' Hh].
      destruct (pats_eqb tail rest && negb (pat_mem hp ps)) eqn:E.
      + apply andb_true_iff in E. destruct E as [E _]. apply pats_eqb_eq in E. subst tail.
        split; [destruct ps; discriminate|]. split; [exact Hl|]. intros p Hp. apply in_app_or in Hp. destruct Hp as [Hp|[<-|[]]]; auto.
      + auto.
  Qed.

  Lemma complete_loop_inv : forall sigma st st',
    Forall (root_ok t) sigma -> st_inv st ->
    complete_loop rec t ts_rest P (wilds (length ts_rest)) (S (length (wilds (length ts_rest)))) sigma st = Ok st' -> st_inv st'.
  Proof.
    induction sigma as [|c sigma IH]; intros st st' Hsig Hinv H; cbn [complete_loop] in H.
    - injection H as <-. exact Hinv.
    - destruct (ck_report rec t ts_rest P (wilds (length ts_rest)) (S (length (wilds (length ts_rest)))) c) as [wr| | |] eqn:Ec; try discriminate H.
      cbn [bindo] in H. destruct (ck_step c st wr) as [st1| | |] eqn:Es; try discriminate H. cbn [bindo] in H.
      inversion Hsig as [|? ? Hc Hsig']; subst. apply (IH st1 st' Hsig'); [|exact H].
      apply (ck_step_inv c st wr st1 Hinv Es). intros w' hp tail -> Hsp. eapply ck_report_wit; eauto.
  Qed.

  Lemma wildcard_wit w :
    is_useful_wildcard rec t ts_rest P (wilds (length ts_rest)) = Ok (Wit w) -> wit_inv (t :: ts_rest) P w.
  Proof.
    intros H. unfold is_useful_wildcard in H. cbv zeta in H. set (sigma := compute_sigma P) in *.
    assert (Hwt : wf_tyb t = true) by (cbn in Hwf; apply andb_true_iff in Hwf; tauto).
    assert (Hwr : forallb wf_tyb ts_rest = true) by (cbn in Hwf; apply andb_true_iff in Hwf; tauto).
    assert (Hsig : Forall (root_ok t) sigma).
    { apply Forall_forall. intros c Hc. apply sigma_in in Hc. destruct Hc as [p [rest [Hin Hc]]].
      destruct (typedM_cons_inv _ _ _ _ HP Hin) as [p' [rest' [E [Hp Hrest]]]]. injection E as <- <-.
      assert (Hx := roots_root_ok p t Hp). rewrite Forall_forall in Hx. now apply Hx. }
    assert (Hsub : forall p rest c, In (p :: rest) P -> In c (roots p) -> In c sigma).
    { intros p rest c Hin Hc. apply sigma_in. eauto. }
    assert (Hcomp : exists b, is_complete_signature t sigma = Ok b /\ (b = true <-> covers sigma t)).
    { destruct sigma as [|c0 sg] eqn:Esg.
      - exists false. split; [reflexivity|]. split; [discriminate|]. intros Hc.
        destruct (Hc (dflt t) (dflt_ty t Hwt)) as [c [[] _]].
      - apply complete_signature_exact; [now apply wf_payloads|discriminate|exact Hsig]. }
    destruct Hcomp as [b [Eb Hb]]. rewrite Eb in H. cbn [bindo] in H. destruct b.
    - (* complete signature *)
      destruct (complete_loop rec t ts_rest P (wilds (length ts_rest)) (S (length (wilds (length ts_rest)))) sigma (NoWit, [])) as [st| | |] eqn:El; try discriminate H.
      cbn [bindo] in H. assert (Hinv := complete_loop_inv sigma (NoWit, []) st Hsig eq_refl El). unfold st_inv in Hinv.
      destruct st as [wrep pats]. cbn [fst snd] in *. destruct wrep as [|tail]; [discriminate H|]. injection H as <-.
      destruct Hinv as [Hne [Hl Hall]].
      assert (Hnor : Forall not_or pats) by (apply Forall_forall; intros p Hp; apply (Hall p Hp)).
      split; [cbn; now rewrite Hl|]. split.
      + intros vs Hty Hm. destruct vs as [|v vs]; [discriminate Hty|]. cbn [vals_tyb vmatches] in Hty, Hm.
        apply andb_true_iff in Hty, Hm. destruct Hty as [Hv Hvs]. destruct Hm as [M1 M2].
        rewrite from_pat_stack_matches in M1. apply existsb_exists in M1. destruct M1 as [p [Hp Hmp]].
        destruct (Hall p Hp) as [_ [Hs _]]. now apply Hs.
      + rewrite (from_pat_stack_alts pats Hnor). split; [exact Hne|]. intros a Ha. destruct (Hall a Ha) as [_ [_ [v [vs [Hv [Hvs [M1 M2]]]]]]].
        exists (v :: vs). cbn [vals_tyb vmatches]. now rewrite Hv, Hvs, M1, M2.
    - (* incomplete signature *)
      assert (Hncov : ~ covers sigma t) by (intros Hc; apply Hb in Hc; discriminate).
      destruct (compute_default_matrix P (S (length (wilds (length ts_rest))))) as [d_p| | |] eqn:Ed; try discriminate H. cbn [bindo] in H.
      destruct (rec ts_rest d_p (wilds (length ts_rest))) as [wr| | |] eqn:Er; try discriminate H. cbn [bindo] in H.
      assert (Hd := default_matrix_in _ _ _ Ed).
      assert (Htyp : typedM ts_rest d_p).
      { intros x Hx. apply Hd in Hx. destruct Hx as [p [rest [Hin Hx]]].
        destruct (typedM_cons_inv _ _ _ _ HP Hin) as [p' [rest' [E [Hp Hrest]]]]. injection E as <- <-.
        eapply default_pat_typed; eauto. }
      assert (Hwta : exists wta, (match sigma with [] => Ok PWild | _ :: _ => create_pattern_not_present t sigma end) = Ok wta /\
                     (forall v, has_tyb v t = true -> matches wta v = true -> forall c, In c sigma -> matches c v = false) /\
                     alts wta <> [] /\ (forall a, In a (alts wta) -> exists v, has_tyb v t = true /\ matches a v = true)).
      { destruct (match sigma with [] => Ok PWild | _ :: _ => create_pattern_not_present t sigma end) as [wta| | |] eqn:Ew; try discriminate H.
        exists wta. split; [reflexivity|]. destruct sigma as [|c0 sg] eqn:Esg.
        - injection Ew as <-. cbn [alts]. split; [intros v _ _ c []|]. split; [discriminate|]. intros a [<-|[]]. exists (dflt t). split; [now apply dflt_ty|reflexivity].
        - apply (cpnp_spec t (c0 :: sg) wta Hwt); auto. discriminate. }
      destruct Hwta as [wta [Ew [Ha [Hne Hinst]]]]. rewrite Ew in H. cbn [bindo] in H.
      destruct wr as [|w'']; [discriminate H|]. injection H as <-.
      assert (Hw'' := HrecW ts_rest d_p w'' Hwr Htyp Er). destruct (wit_inhabited _ _ _ Hw'') as [vs0 [Hvs0 Hm0]].
      destruct Hw'' as [Hl [Hsound _]].
      split; [cbn; now rewrite Hl|]. split.
      + intros vs Hty Hm. destruct vs as [|v vs]; [discriminate Hty|]. cbn [vals_tyb vmatches] in Hty, Hm.
        apply andb_true_iff in Hty, Hm. destruct Hty as [Hv Hvs]. destruct Hm as [M1 M2].
        apply (default_unmatched_up t ts_rest P d_p sigma v vs HP Hd Hsub (Ha v Hv M1)). now apply Hsound.
      + split; [exact Hne|]. intros a Hain. destruct (Hinst a Hain) as [v [Hv Hmv]]. exists (v :: vs0).
        cbn [vals_tyb vmatches]. now rewrite Hv, Hvs0, Hmv, Hm0.
  Qed.
End Loop.

Theorem witness_inv : forall fuel ts P w,
  forallb wf_tyb ts = true -> typedM ts P -> useful fuel ts P (wilds (length ts)) = Ok (Wit w) -> wit_inv ts P w.
Proof.
  induction fuel as [|fuel IH]; intros ts P w Hwf HP H; [discriminate H|].
  cbn [useful] in H. rewrite (m_n_typed ts P HP) in H. cbn [bindo] in H.
  destruct P as [|row0 P'].
  - injection H as <-. assert (E : wilds (length (wilds (length ts))) = wilds (length ts)) by (unfold wilds; now rewrite repeat_length). rewrite E.
    split; [unfold wilds; apply repeat_length|]. split; [intros vs _ _ row []|].
    destruct ts as [|t ts_rest]; [exact I|]. cbn [length wilds repeat alts]. split; [discriminate|]. intros a [<-|[]].
    exists (map dflt (t :: ts_rest)). split; [now apply dflts_ty|]. fold (wilds (length ts_rest)). 
    change (PWild :: wilds (length ts_rest)) with (wilds (length (t :: ts_rest))). rewrite <- (map_length dflt (t :: ts_rest)). apply vmatches_wilds_true.
  - destruct ts as [|t ts_rest].
    + cbn in H. discriminate H.
    + cbn [length wilds repeat] in H. fold (wilds (length ts_rest)) in H.
      eapply (wildcard_wit (useful fuel) IH); eauto.
Qed.

(* ---------- the reported witnesses of a non-exhaustive match ---------- *)
Theorem witness_uncovered fuel t arms rep :
  wf_tyb t = true -> arms_ok t arms -> analyse fuel t arms = Ok rep -> rep_nonexhaustive rep = true ->
  rep_witness rep <> [] /\ forall w, In w (rep_witness rep) -> witness_ok t arms w.
Proof.
  intros Hwf Hok H Hne. unfold analyse, check_usefulness in H.
  destruct (arms_loop fuel t [] (map from_scrutinee arms)) as [[flags m']| | |] eqn:El; try discriminate H. cbn [bindo fst snd] in H.
  destruct (useful fuel [t] m' [PWild]) as [wr| | |] eqn:Eu; try discriminate H. cbn [bindo fst snd] in H. injection H as <-.
  cbn [rep_nonexhaustive rep_witness] in *. destruct wr as [|w]; [discriminate Hne|].
  destruct (arms_loop_spec fuel t Hwf _ [] flags m' (fun r (Hr : In r []) => match Hr with end) (arms_typed t arms Hok) El) as [Em _].
  cbn [app] in Em. subst m'.
  assert (HM : typedM [t] (map single (map from_scrutinee arms))).
  { intros row Hr. apply in_map_iff in Hr. destruct Hr as [p [<- Hp]]. cbn. now rewrite (arms_typed t arms Hok p Hp). }
  assert (Hwf1 : forallb wf_tyb [t] = true) by (cbn; now rewrite Hwf).
  destruct (witness_inv fuel [t] _ w Hwf1 HM Eu) as [Hl [Hsound Hn]].
  destruct w as [|h [|h2 tl]]; try discriminate Hl. cbn [flatten_stack flat_map]. rewrite app_nil_r. fold (alts h).
  destruct Hn as [Hnn Hinst]. split; [exact Hnn|]. intros a Ha. split.
  - destruct (Hinst a Ha) as [vs [Hty Hm]]. destruct vs as [|v [|v2 vs]]; try discriminate Hm; [|cbn in Hty; rewrite andb_false_r in Hty; discriminate Hty].
    exists v. cbn in Hty, Hm. rewrite andb_true_r in Hty, Hm. split; assumption.
  - intros v Hv Hm r Hr. unfold has_ty in Hv.
    assert (Hmh : matches h v = true) by (apply alts_matches; eauto).
    assert (Hun : unmatched (map single (map from_scrutinee arms)) [v]) by (apply Hsound; cbn; now rewrite ?Hv, ?Hmh).
    specialize (Hun (single (from_scrutinee r))). cbn [single vmatches] in Hun. rewrite andb_true_r in Hun.
    rewrite <- (from_scrutinee_matches r t v (Hok r Hr) Hv). apply Hun. apply in_map. now apply in_map.
Qed.
