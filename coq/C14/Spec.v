(* C14 — specification: what a pattern matches, the finite value space of a type, and the brute-force
   oracles "some value is uncovered", "this witness is really uncovered", "this arm is reachable",
   "the first matching arm". *)
From SwayV Require Import Base.Util C14.Model.
Local Open Scope N_scope.

(* ---------- semantics of patterns ---------- *)
Fixpoint matches (p : pat) (v : val) {struct p} : bool :=
  match p with
  | PWild => true
  | PBool b => match v with VBool b' => Bool.eqb b b' | _ => false end
  | PInt lo hi => match v with VInt n => (lo <=? n) && (n <=? hi) | _ => false end
  | PEnum k p' => match v with VEnum k' v' => Nat.eqb k k' && matches p' v' | _ => false end
  | PTuple ps =>
      match v with
      | VTuple vs =>
          (fix go (ps : list pat) (vs : list val) : bool :=
             match ps, vs with
             | [], [] => true
             | p' :: ps', v' :: vs' => matches p' v' && go ps' vs'
             | _, _ => false
             end) ps vs
      | _ => false
      end
  | POr ps => (fix go (ps : list pat) : bool := match ps with [] => false | p' :: ps' => matches p' v || go ps' end) ps
  end.

Fixpoint vmatches (ps : list pat) (vs : list val) : bool :=
  match ps, vs with
  | [], [] => true
  | p :: ps', v :: vs' => matches p v && vmatches ps' vs'
  | _, _ => false
  end.

(* source scrutinees: variables and `_` match anything; a struct scrutinee constrains the listed fields *)
Fixpoint smatches (s : scrut) (v : val) {struct s} : bool :=
  match s with
  | SCatchAll | SVar => true
  | SBool b => match v with VBool b' => Bool.eqb b b' | _ => false end
  | SInt n => match v with VInt n' => n =? n' | _ => false end
  | SEnum k s' => match v with VEnum k' v' => Nat.eqb k k' && smatches s' v' | _ => false end
  | STuple ss =>
      match v with
      | VTuple vs =>
          (fix go (ss : list scrut) (vs : list val) : bool :=
             match ss, vs with
             | [], [] => true
             | s' :: ss', v' :: vs' => smatches s' v' && go ss' vs'
             | _, _ => false
             end) ss vs
      | _ => false
      end
  | SStruct nf fs =>
      match v with
      | VTuple vs =>
          Nat.eqb (length vs) nf &&
          (fix go (fs : list (nat * option scrut)) : bool :=
             match fs with
             | [] => true
             | (i, o) :: fs' =>
                 match nth_error vs i with
                 | Some v' => match o with Some s' => smatches s' v' | None => true end
                 | None => false
                 end && go fs'
             end) fs
      | _ => false
      end
  | SOr ss => (fix go (ss : list scrut) : bool := match ss with [] => false | s' :: ss' => smatches s' v || go ss' end) ss
  end.

(* ---------- typing and the value space ---------- *)
Fixpoint has_tyb (v : val) (t : ty) {struct v} : bool :=
  match v, t with
  | VBool _, TBool => true
  | VInt n, TInt mx => n <=? mx
  | VEnum k v', TEnum vs => match nth_error vs k with Some tk => has_tyb v' tk | None => false end
  | VTuple vs, TTuple ts =>
      (fix go (vs : list val) (ts : list ty) : bool :=
         match vs, ts with
         | [], [] => true
         | v' :: vs', t' :: ts' => has_tyb v' t' && go vs' ts'
         | _, _ => false
         end) vs ts
  | _, _ => false
  end.
Definition has_ty (v : val) (t : ty) : Prop := has_tyb v t = true.

Fixpoint vals_tyb (vs : list val) (ts : list ty) : bool :=
  match vs, ts with
  | [], [] => true
  | v :: vs', t :: ts' => has_tyb v t && vals_tyb vs' ts'
  | _, _ => false
  end.

Definition ints_upto (mx : N) : list N := map N.of_nat (seq 0 (S (N.to_nat mx))).

Fixpoint enum_values (t : ty) : list val :=
  match t with
  | TBool => [VBool false; VBool true]
  | TInt mx => map VInt (ints_upto mx)
  | TEnum vs =>
      (fix go (k : nat) (vs : list ty) : list val :=
         match vs with [] => [] | t' :: vs' => map (VEnum k) (enum_values t') ++ go (S k) vs' end) O vs
  | TTuple ts =>
      map VTuple ((fix go (ts : list ty) : list (list val) :=
                     match ts with
                     | [] => [[]]
                     | t' :: ts' => flat_map (fun v => map (cons v) (go ts')) (enum_values t')
                     end) ts)
  end.

(* ---------- the property's notions ---------- *)
Definition covered_by (rows : list scrut) (v : val) : bool := existsb (fun r => smatches r v) rows.

Definition uncovered (t : ty) (rows : list scrut) : Prop :=
  exists v, has_ty v t /\ forall r, In r rows -> smatches r v = false.
Definition uncoveredb (t : ty) (rows : list scrut) : bool :=
  existsb (fun v => negb (covered_by rows v)) (enum_values t).

(* a reported witness pattern is "really uncovered": it denotes at least one value of the type and no
   value it denotes is matched by any arm *)
Definition witness_ok (t : ty) (rows : list scrut) (w : pat) : Prop :=
  (exists v, has_ty v t /\ matches w v = true) /\
  (forall v, has_ty v t -> matches w v = true -> forall r, In r rows -> smatches r v = false).
Definition witness_okb (t : ty) (rows : list scrut) (w : pat) : bool :=
  existsb (matches w) (enum_values t) &&
  forallb (fun v => implb (matches w v) (negb (covered_by rows v))) (enum_values t).

(* arm i (0-based) is reachable: some value matches it and none of the earlier arms *)
Definition reachable (t : ty) (rows : list scrut) (i : nat) : Prop :=
  exists v s, has_ty v t /\ nth_error rows i = Some s /\ smatches s v = true /\
              forall r, In r (firstn i rows) -> smatches r v = false.
Definition reachableb (t : ty) (rows : list scrut) (i : nat) : bool :=
  match nth_error rows i with
  | Some s => existsb (fun v => smatches s v && negb (covered_by (firstn i rows) v)) (enum_values t)
  | None => false
  end.

(* run time: index of the first matching arm *)
Fixpoint first_match (rows : list scrut) (v : val) : option nat :=
  match rows with
  | [] => None
  | s :: rows' => if smatches s v then Some O else option_map S (first_match rows' v)
  end.

(* ---------- evaluation of matcher.rs requirement trees on a value ---------- *)
Fixpoint access (v : val) (path : list step) : option val :=
  match path with
  | [] => Some v
  | SField i :: path' => match v with VTuple vs => match nth_error vs i with Some v' => access v' path' | None => None end | _ => None end
  | SDowncast k :: path' => match v with VEnum k' v' => if Nat.eqb k k' then access v' path' else None | _ => None end
  end.

(* [None]: the condition reads a place that does not exist in the value (an unsafe downcast to another
   variant): the generated `&&`/`||` chains evaluate left to right and must never get there *)
Fixpoint eval_rtree (v : val) (r : rtree) {struct r} : option bool :=
  match r with
  | RNone => Some true
  | RDecl path => match access v path with Some _ => Some true | None => None end
  | RLitBool path b => match access v path with Some (VBool b') => Some (Bool.eqb b b') | _ => None end
  | RLitInt path n => match access v path with Some (VInt n') => Some (n =? n') | _ => None end
  | RTag path k => match access v path with Some (VEnum k' _) => Some (Nat.eqb k k') | _ => None end
  | RAnd l =>
      (fix go (l : list rtree) : option bool :=
         match l with
         | [] => Some true
         | r' :: l' => match eval_rtree v r' with Some true => go l' | Some false => Some false | None => None end
         end) l
  | ROr l =>
      (fix go (l : list rtree) : option bool :=
         match l with
         | [] => Some false
         | r' :: l' => match eval_rtree v r' with Some false => go l' | Some true => Some true | None => None end
         end) l
  end.

(* lazy evaluation of an arm's condition *)
Fixpoint eval_cexp (v : val) (c : cexp) : option bool :=
  match c with
  | CLitBool path b => match access v path with Some (VBool b') => Some (Bool.eqb b b') | _ => None end
  | CLitInt path n => match access v path with Some (VInt n') => Some (n =? n') | _ => None end
  | CTag path k => match access v path with Some (VEnum k' _) => Some (Nat.eqb k k') | _ => None end
  | CAnd a b => match eval_cexp v a with Some true => eval_cexp v b | r => r end
  | COr a b => match eval_cexp v a with Some false => eval_cexp v b | r => r end
  end.

(* the desugared if-chain: the first arm whose condition holds; [None] = the condition read a place that
   does not exist in the value *)
Fixpoint run_match (rows : list scrut) (v : val) : option (option nat) :=
  match rows with
  | [] => Some None
  | s :: rows' =>
      match (match condition (matcher [] s) with None => Some true | Some c => eval_cexp v c end) with
      | None => None
      | Some true => Some (Some O)
      | Some false => match run_match rows' v with Some r => Some (option_map S r) | None => None end
      end
  end.
